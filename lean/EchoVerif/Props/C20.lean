/-
  C20 — retained content is returned intact or not at all.
  PROPERTY THEOREMS ONLY (helpers are in Lemmas/Cas.lean).  Model: Model/Cas.lean.
  `H : Bytes → Hash` is abstract everywhere; injectivity is an explicit hypothesis only where the
  statement says "exactly these bytes".
-/
import EchoVerif.Lemmas.Cas

set_option linter.unusedSimpArgs false
set_option linter.unusedVariables false

namespace EchoVerif.C20
open EchoVerif EchoVerif.Cas SMap

variable (H : Bytes → Hash)

/-! ## Memory tier -/

/-- **mem_refines_map.** After ANY operation history on a fresh memory tier (with or without a
    budget) `get h` is the first successful write whose hash is `h` — the tier is the
    content-addressed map of its writes; pins, budgets, reads and refused writes are invisible. -/
theorem mem_refines_map (ops : List Op) (h : Hash) (budget : Option Nat) :
    (Mem.run H { blobs := [], pins := [], byteCount := 0, maxBytes := budget } ops).get h
      = refFirst H h ops := by
  rw [Mem.get_run]; rfl

/-- **mem_get_intact.** Whatever `get h` returns hashes to `h` and was supplied by a successful
    write of the history ("intact or not at all"). -/
theorem mem_get_intact (ops : List Op) (h : Hash) (b : Bytes) (budget : Option Nat)
    (hg : (Mem.run H { blobs := [], pins := [], byteCount := 0, maxBytes := budget } ops).get h = some b) :
    H b = h ∧ ∃ op ∈ ops, op = .put b ∨ op = .putv h b := by
  rw [mem_refines_map] at hg
  obtain ⟨op, hop, hw⟩ := refFirst_some hg
  refine ⟨Op.writes_sound hw, op, hop, ?_⟩
  cases op <;> simp only [Op.writes] at hw
  · split at hw
    · cases hw; exact Or.inl rfl
    · cases hw
  · split at hw
    · rename_i e; cases hw; exact Or.inr (by rw [e.2])
    · cases hw
  all_goals cases hw

/-- **mem_get_exact.** Under collision-freedom, `get h = some b` IFF `b` hashes to `h` and was
    written (by `put b`, or by `put_verified` under its own hash). -/
theorem mem_get_exact (hinj : Function.Injective H) (ops : List Op) (h : Hash) (b : Bytes)
    (budget : Option Nat) :
    (Mem.run H { blobs := [], pins := [], byteCount := 0, maxBytes := budget } ops).get h = some b
      ↔ (H b = h ∧ ∃ op ∈ ops, op = .put b ∨ op = .putv h b) := by
  constructor
  · exact mem_get_intact H ops h b budget
  · rintro ⟨hb, op, hop, hw⟩
    rw [mem_refines_map]
    have hwr : op.writes H h = some b := by
      rcases hw with e | e <;> subst e <;> simp [Op.writes, hb]
    obtain ⟨b', hb'⟩ := refFirst_isSome_of_mem hop hwr
    obtain ⟨op', _, hw'⟩ := refFirst_some hb'
    have : H b' = h := Op.writes_sound hw'
    have : b' = b := hinj (this.trans hb.symm)
    rw [hb', this]

/-- **mem_put_idempotent.** Repeating a `put` (or a matching `put_verified`) changes nothing:
    neither content nor byte accounting nor pins. -/
theorem mem_put_idempotent (s : Mem) (b : Bytes) :
    (s.put H b).1.put H b = ((s.put H b).1, H b) ∧
    ((s.put H b).1.putVerified H (H b) b) = ((s.put H b).1, none) := by
  obtain ⟨x, hx⟩ := Mem.present_after_put H s b
  exact ⟨Mem.put_of_present H hx, Mem.putVerified_of_present H hx⟩

/-- **mem_pins_never_change_content.** Deleting every `pin`/`unpin` (and every read) from a history
    does not change what any `get` returns. -/
theorem mem_pins_never_change_content (ops : List Op) (h : Hash) (s : Mem) :
    (Mem.run H s (ops.filter (fun op => match op with | .put _ | .putv _ _ => true | _ => false))).get h
      = (Mem.run H s ops).get h := by
  rw [Mem.get_run, Mem.get_run, refFirst_filter]
  intro op hp
  cases op <;> simp_all [Op.writes]

/-- **mem_put_verified_refuses.** Bytes that do not hash to the declared hash are refused with the
    typed mismatch and the store is unchanged — in EVERY state, in particular when the declared hash
    is already stored (the case the pre-repair fast path accepted). -/
theorem mem_put_verified_refuses (s : Mem) (h : Hash) (b : Bytes) (hne : H b ≠ h) :
    s.putVerified H h b = (s, some { expected := h, computed := H b }) := by
  unfold Mem.putVerified; rw [if_pos hne]

/-- The pre-repair `MemoryTier::put_verified` (stored-hash fast path BEFORE hashing), kept as a
    regression witness: it accepts mismatching bytes for any already-stored hash. -/
def putVerifiedFastPathFirst (s : Mem) (expected : Hash) (b : Bytes) : Mem × Option Mismatch :=
  match find? expected s.blobs with
  | some _ => (s, none)
  | none =>
    if H b ≠ expected then (s, some { expected := expected, computed := H b })
    else ({ s with blobs := insert (H b) b s.blobs, byteCount := s.byteCount + b.length }, none)

/-- **fast_path_first_accepts_mismatch.** The defect of DESIGN §7-G, for every hash function and
    every pair of blobs with different hashes. -/
theorem fast_path_first_accepts_mismatch (s : Mem) (b wrong : Bytes) (hne : H wrong ≠ H b) :
    (putVerifiedFastPathFirst H (s.put H b).1 (H b) wrong).2 = none ∧
    ((s.put H b).1.putVerified H (H b) wrong).2 = some { expected := H b, computed := H wrong } := by
  obtain ⟨x, hx⟩ := Mem.present_after_put H s b
  constructor
  · unfold putVerifiedFastPathFirst; rw [hx]
  · rw [mem_put_verified_refuses H _ _ _ hne]

/-! ## Disk tier (backing files + adversary) -/

/-- **disk_corruption_detected.** For EVERY state of the backing files — hence after every history
    of writes, adversarial overwrites, deletions and reopens — `get h` is absence, or bytes that
    hash to `h` (and are the file), or the typed mismatch naming `h` and the hash of what was found. -/
theorem disk_corruption_detected (s : Disk) (h : Hash) :
    match s.get H h with
    | .absent => find? h s.files = none
    | .found b => H b = h ∧ find? h s.files = some b
    | .corrupt m => m.expected = h ∧ m.computed ≠ h ∧ ∃ b, find? h s.files = some b ∧ m.computed = H b := by
  unfold Disk.get
  cases hf : find? h s.files with
  | none => simp
  | some b =>
    by_cases e : H b = h
    · simp [e]
    · simp [e]

/-- History form: no sequence of operations, adversarial ones included, makes `get h` return bytes
    that do not hash to `h`. -/
theorem disk_never_wrong_bytes (s0 : Disk) (ops : List Op) (h : Hash) (b : Bytes)
    (hg : (Disk.run H s0 ops).get H h = .found b) : H b = h := by
  have := disk_corruption_detected H (Disk.run H s0 ops) h
  rw [hg] at this; exact this.1

/-- **disk_refines_map.** For every history from an empty tier and every hash `h` whose backing file
    the adversary did not touch (it may touch all others), `get h` is exactly the last successful
    write under `h`, or absence. Reopening and pinning are invisible. -/
theorem disk_refines_map (ops : List Op) (h : Hash) (ht : ∀ op ∈ ops, op.tampers h = false) :
    (Disk.run H Disk.empty ops).get H h =
      match refLast H h ops with
      | some b => .found b
      | none => .absent := by
  unfold Disk.get
  rw [Disk.files_run, find?_foldl_stepFiles H h ops _ (by exact True.intro) ht]
  cases hr : refLast H h ops with
  | none => rfl
  | some b => simp [refLast_sound hr]

/-- **disk_put_heals.** A `put` makes its blob readable whatever was in the backing file before
    (absent, correct, or corrupted). -/
theorem disk_put_heals (s : Disk) (b : Bytes) : (s.put H b).1.get H (H b) = .found b := by
  simp [Disk.put, Disk.putVerified, Disk.get, find?_insert]

/-- **disk_put_verified_refuses.** Mismatching bytes are refused and the tier is unchanged. -/
theorem disk_put_verified_refuses (s : Disk) (h : Hash) (b : Bytes) (hne : H b ≠ h) :
    s.putVerified H h b = (s, some { expected := h, computed := H b }) := by
  unfold Disk.putVerified; rw [if_pos hne]

/-- **disk_reopen_pins_inert.** Dropping every `reopen`, `pin`, `unpin` and read from a history
    leaves the backing files — hence every `get`, `has`, `list` — literally unchanged. -/
theorem disk_reopen_pins_inert (ops : List Op) (s : Disk) :
    (Disk.run H s (ops.filter (fun op => match op with
        | .put _ | .putv _ _ | .advWrite _ _ | .advDelete _ => true | _ => false))).files
      = (Disk.run H s ops).files := by
  rw [Disk.files_run, Disk.files_run]
  apply foldl_filter_inert
  intro a x hx
  cases x <;> simp_all [stepFiles]

/-! ## Semantic retention index -/

/-- **retention_conflict.** A coordinate that already names content refuses different content
    (different hash OR different length) with the typed conflict, and neither the index nor the store
    changes. -/
theorem retention_conflict (ix : Index) (s : Mem) (c : Coord) (b : Bytes) (ex : Desc)
    (hf : ix.find c = some ex) (hd : ex.contentHash ≠ H b ∨ ex.byteLen ≠ b.length) :
    retain H ix s c b = (ix, s, .error (.conflict ex.contentHash (H b))) := by
  unfold retain; rw [hf]; simp only; rw [if_pos hd]

/-- **retention_descriptor_stable.** Once a coordinate names a descriptor, no later `retain` — of any
    coordinate, any bytes, against any store — changes it; and a new descriptor is filed under
    exactly the coordinate it was retained for. -/
theorem retention_descriptor_stable (ix : Index) (s : Mem) (c c' : Coord) (b : Bytes) (d : Desc)
    (hf : ix.find c = some d) : (retain H ix s c' b).1.find c = some d := by
  unfold retain
  cases hc : ix.find c' with
  | some ex =>
    simp only
    split <;> exact hf
  | none =>
    simp only
    rw [Index.find_cons]
    have : c' ≠ c := by intro e; subst e; rw [hf] at hc; cases hc
    rw [if_neg this]; exact hf

/-- **retention_no_alias.** The index stays well-formed (every descriptor sits under its own
    coordinate) and a successful `retain` returns a descriptor for the requested coordinate whose
    hash and length are those of the supplied bytes. -/
theorem retention_no_alias (ix : Index) (s : Mem) (c : Coord) (b : Bytes) (hwf : IndexWF ix) :
    IndexWF (retain H ix s c b).1 ∧
    ∀ d, (retain H ix s c b).2.2 = .ok d →
      d.coord = c ∧ d.contentHash = H b ∧ d.byteLen = b.length ∧ (retain H ix s c b).1.find c = some d := by
  unfold retain
  cases hc : ix.find c with
  | some ex =>
    simp only
    split
    · exact ⟨hwf, fun d hd => by cases hd⟩
    · rename_i hn
      refine ⟨hwf, fun d hd => ?_⟩
      cases hd
      have h1 : ex.contentHash = H b := by
        by_cases e : ex.contentHash = H b
        · exact e
        · exact absurd (Or.inl e) hn
      have h2 : ex.byteLen = b.length := by
        by_cases e : ex.byteLen = b.length
        · exact e
        · exact absurd (Or.inr e) hn
      exact ⟨hwf c _ hc, h1, h2, hc⟩
  | none =>
    simp only
    refine ⟨?_, fun d hd => ?_⟩
    · intro c2 d2 h2
      rw [Index.find_cons] at h2
      split at h2
      · rename_i e; cases h2; exact e
      · exact hwf c2 d2 h2
    · cases hd
      refine ⟨rfl, ?_, rfl, ?_⟩
      · simp [Mem.put]; split <;> rfl
      · rw [Index.find_cons, if_pos rfl]

/-- **retention_typed_obstruction.** `load` answers exactly: unknown coordinate ⇒
    `MissingSemanticCoordinate`; known coordinate whose content the store lacks ⇒ `MissingBlob` naming
    that hash; otherwise the descriptor of THAT coordinate with the store's bytes for its hash —
    which hash to it whenever the store is hash-sound (an invariant of every memory-tier history). -/
theorem retention_typed_obstruction (ix : Index) (s : Mem) (c : Coord) :
    (ix.find c = none → load ix s c = .error .missingCoord) ∧
    (∀ d, ix.find c = some d → s.get d.contentHash = none → load ix s c = .error (.missingBlob d.contentHash)) ∧
    (∀ d b, load ix s c = .ok (d, b) →
      ix.find c = some d ∧ s.get d.contentHash = some b ∧ (Sound H s.blobs → H b = d.contentHash)) := by
  refine ⟨?_, ?_, ?_⟩
  · intro hn; unfold load; rw [hn]
  · intro d hd hg; unfold load loadByHash; rw [hd]; simp only; rw [hg]
  · intro d b hl
    unfold load loadByHash at hl
    cases hd : ix.find c with
    | none => rw [hd] at hl; cases hl
    | some d' =>
      rw [hd] at hl; simp only at hl
      cases hg : s.get d'.contentHash with
      | none => rw [hg] at hl; cases hl
      | some b' =>
        rw [hg] at hl; simp only at hl
        cases hl
        exact ⟨rfl, hg, fun hs => hs _ _ hg⟩

/-- **retention_retain_then_load.** After a successful `retain` against a hash-sound store, `load` of
    the same coordinate from that store returns the descriptor and bytes hashing to `H b`; under
    collision-freedom, exactly `b`. -/
theorem retention_retain_then_load (ix : Index) (s : Mem) (c : Coord) (b : Bytes) (d : Desc)
    (hs : Sound H s.blobs) (hr : (retain H ix s c b).2.2 = .ok d) :
    ∃ b', load (retain H ix s c b).1 (retain H ix s c b).2.1 c = .ok (d, b') ∧ H b' = H b ∧
      (Function.Injective H → b' = b) := by
  -- the store after the retain still is hash-sound and holds `H b`
  have hput : ∃ x, (s.put H b).1.get (H b) = some x ∧ H x = H b := by
    rw [Mem.get_put]
    cases hg : s.get (H b) with
    | some x => exact ⟨x, rfl, hs _ _ hg⟩
    | none => exact ⟨b, by simp, rfl⟩
  unfold retain at hr ⊢
  cases hc : ix.find c with
  | some ex =>
    rw [hc] at hr
    simp only at hr ⊢
    split at hr
    · cases hr
    · rename_i hn
      cases hr
      have h1 : d.contentHash = H b := by
        by_cases e : d.contentHash = H b
        · exact e
        · exact absurd (Or.inl e) hn
      rw [if_neg hn]
      simp only [load, hc, loadByHash]
      by_cases hh : s.has d.contentHash = true
      · simp only [hh, if_true]
        have : ∃ x, find? d.contentHash s.blobs = some x := by
          unfold Mem.has at hh
          cases hf : find? d.contentHash s.blobs with
          | none => rw [hf] at hh; cases hh
          | some x => exact ⟨x, rfl⟩
        obtain ⟨x, hx⟩ := this
        refine ⟨x, by simp [Mem.get, Mem.pin, hx], ?_, ?_⟩
        · rw [← h1]; exact hs _ _ hx
        · intro hinj; exact hinj ((hs _ _ hx).trans h1)
      · simp only [hh]
        obtain ⟨x, hx, hxh⟩ := hput
        refine ⟨x, ?_, hxh, fun hinj => hinj hxh⟩
        rw [h1]
        simp only [Mem.get, Mem.pin] at hx ⊢
        simp [hx]
  | none =>
    rw [hc] at hr
    simp only at hr ⊢
    cases hr
    obtain ⟨x, hx, hxh⟩ := hput
    refine ⟨x, ?_, hxh, fun hinj => hinj hxh⟩
    simp only [load, Index.find_cons, if_true, loadByHash]
    have hh : (s.put H b).2 = H b := by unfold Mem.put; split <;> rfl
    simp only [Mem.get, Mem.pin, hh] at hx ⊢
    simp [hx]

/-- **retention_range_bounded.** A successful `load_range` stays within the caller's budget and
    within the retained blob, and is the requested slice of the loaded bytes. -/
theorem retention_range_bounded (ix : Index) (s : Mem) (c : Coord) (off len max : Nat) (d : Desc) (r : Bytes)
    (hl : loadRange ix s c off len max = .ok (d, r)) :
    len ≤ max ∧ off + len ≤ d.byteLen ∧
    ∃ b, load ix s c = .ok (d, b) ∧ r = (b.drop off).take len ∧ (b.length = d.byteLen → r.length = len) := by
  unfold loadRange at hl
  cases hld : load ix s c with
  | error e => rw [hld] at hl; cases hl
  | ok p =>
    obtain ⟨d', b⟩ := p
    rw [hld] at hl
    simp only at hl
    split at hl
    · cases hl
    · rename_i h1
      split at hl
      · cases hl
      · rename_i h2
        cases hl
        refine ⟨by omega, by omega, b, rfl, rfl, fun hb => ?_⟩
        simp [List.length_take, List.length_drop]; omega

/-! ## Non-vacuity -/

/-- A collision-free `H : Bytes → Hash` exists (bijective base-256 numeration), so `mem_get_exact`
    and the injective branch of `retention_retain_then_load` are not vacuous. -/
def encNat : Bytes → Nat
  | [] => 0
  | x :: xs => 256 * encNat xs + x.toNat + 1

theorem encNat_injective : Function.Injective encNat := by
  intro a
  induction a with
  | nil =>
    intro b h
    cases b with
    | nil => rfl
    | cons y ys => simp only [encNat] at h; omega
  | cons x xs ih =>
    intro b h
    cases b with
    | nil => simp only [encNat] at h; omega
    | cons y ys =>
      simp only [encNat] at h
      have hx := x.toNat_lt
      have hy := y.toNat_lt
      have h1 : encNat xs = encNat ys := by omega
      have h2 : x.toNat = y.toNat := by omega
      rw [ih h1, UInt8.toNat_inj.mp h2]

example (ops : List Op) (h : Hash) (b : Bytes) :=
  mem_get_exact encNat encNat_injective ops h b none

/-- The hypotheses of `mem_put_verified_refuses` / `fast_path_first_accepts_mismatch` are met by a
    concrete state: with `H := List.length`, a one-byte blob offered under the stored hash 0. -/
example : ((Mem.new.put (fun b => b.length) []).1.putVerified (fun b => b.length) 0 [7]).2
    = some { expected := 0, computed := 1 } := by decide

example : (putVerifiedFastPathFirst (fun b => b.length) (Mem.new.put (fun b => b.length) []).1 0 [7]).2 = none := by
  decide

/-- A tampered file is reported, an untouched one is served (`H := length`). -/
example : (((Disk.empty.put (fun b => b.length) [1, 2]).1.advWrite 2 [9]).get (fun b => b.length) 2)
    = .corrupt { expected := 2, computed := 1 } := by decide

end EchoVerif.C20
