/-
  C18 — materialized output is independent of emission order.
  PROPERTY THEOREMS ONLY (helpers are in Lemmas/Bus.lean).
  Model: Model/Bus.lean; extracted table: Generated/Reduce.lean.
-/
import EchoVerif.Lemmas.Bus
import EchoVerif.Generated.Reduce

namespace EchoVerif.C18
open EchoVerif EchoVerif.Bus SMap

/-- Two emissions address different slots. -/
def Distinct (a b : Emission) : Prop := (a.chan, a.key) ≠ (b.chan, b.key)

/-- **emit_set.** Folding `emit` over any permutation of an emission list whose `(channel, key)`
    pairs are pairwise distinct yields the same bus state (pending map and policies),
    whatever was already pending. -/
theorem emit_set (s : State) (hwf : WF s) {xs ys : List Emission} (hp : xs.Perm ys)
    (hd : xs.Pairwise Distinct) : emitAll s xs = emitAll s ys := by
  unfold emitAll
  exact foldl_perm_of_comm (fun s e => (emit s e).1) WF Distinct
    (fun h => fun e => h e.symm) (fun s e h => emit_wf s e h)
    (fun s a b h hab => emit_comm s h a b hab) hp hd s hwf

/-- **finalize_order_free.** The finalized report (per-channel bytes, conflicts) and the
    emissions-digest pre-image are the same for every emission order. -/
theorem finalize_order_free (s : State) (hwf : WF s) {xs ys : List Emission} (hp : xs.Perm ys)
    (hd : xs.Pairwise Distinct) :
    (finalize (emitAll s xs)).1 = (finalize (emitAll s ys)).1 ∧
    emissionsDigest (finalize (emitAll s xs)).1.channels
      = emissionsDigest (finalize (emitAll s ys)).1.channels := by
  rw [emit_set s hwf hp hd]; exact ⟨rfl, rfl⟩

/-- **duplicate_rejected.** Once a `(channel, key)` has been emitted — accepted or not — every
    further emission to it is `duplicate`, whatever its payload, and leaves the bus unchanged. -/
theorem duplicate_rejected (s : State) (e : Emission) (d' : Bytes) :
    emit (emit s e).1 { e with data := d' } = ((emit s e).1, EmitResult.duplicate) := by
  have hfind : ∃ m, find? e.chan (emit s e).1.pending = some m ∧ ∃ v, find? e.key m = some v := by
    refine ⟨addInner (find? e.chan s.pending) e.key e.data, ?_, ?_⟩
    · rw [find?_emit]; simp
    · rw [find?_addInner]; simp
  obtain ⟨m, hm, v, hv⟩ := hfind
  exact emit_dup_of_present (emit s e).1 { chan := e.chan, key := e.key, data := d' } hm hv

/-- **duplicate_rejected_later.** The rejection persists through any further emissions. -/
theorem duplicate_rejected_later (s : State) (e : Emission) (es : List Emission) (d' : Bytes) :
    (emit (emitAll (emit s e).1 es) { e with data := d' }).2 = EmitResult.duplicate := by
  have key : ∀ (es : List Emission) (t : State),
      (∃ m, find? e.chan t.pending = some m ∧ ∃ v, find? e.key m = some v) →
      (emit (emitAll t es) { chan := e.chan, key := e.key, data := d' }).2 = EmitResult.duplicate := by
    intro es
    induction es with
    | nil =>
      intro t ⟨m, hm, v, hv⟩
      simp only [emitAll, List.foldl_nil]
      rw [emit_dup_of_present t { chan := e.chan, key := e.key, data := d' } hm hv]
    | cons x xs ih =>
      intro t ⟨m, hm, v, hv⟩
      simp only [emitAll, List.foldl_cons]
      apply ih
      rw [find?_emit]
      by_cases hc : e.chan = x.chan
      · refine ⟨addInner (find? x.chan t.pending) x.key x.data, by simp [hc], ?_⟩
        rw [find?_addInner]
        by_cases hk : e.key = x.key
        · simp [hk]
        · simp only [if_neg hk, innerGet, ← hc, hm]; exact ⟨v, hv⟩
      · exact ⟨m, by simp [hc, hm], v, hv⟩
  apply key
  refine ⟨addInner (find? e.chan s.pending) e.key e.data, ?_, ?_⟩
  · rw [find?_emit]; simp
  · rw [find?_addInner]; simp

/-- **fresh_accepted.** An emission to a `(channel, key)` that is not pending is accepted and
    stored verbatim. -/
theorem fresh_accepted (s : State) (e : Emission)
    (hfresh : innerGet (find? e.chan s.pending) e.key = none) :
    (emit s e).2 = EmitResult.ok ∧
    innerGet (find? e.chan (emit s e).1.pending) e.key = some e.data := by
  constructor
  · unfold emit
    cases hm : find? e.chan s.pending with
    | none => rfl
    | some m =>
      simp only [hm, innerGet] at hfresh
      simp only [hfresh]
  · rw [find?_emit]; simp only [if_true, innerGet]
    rw [find?_addInner]; simp [hfresh]

/-- **reduce_commutative_rekey.** Every reducer whose *extracted* `is_commutative` bit is set
    gives the same bytes for every permutation of its inputs (= every re-keying of the
    emissions), for byte strings of arbitrary, unequal lengths. -/
theorem reduce_commutative_rekey (op : ReduceOp) (h : Generated.reduceIsCommutative op = true)
    {xs ys : List Bytes} (hp : xs.Perm ys) : op.apply xs = op.apply ys := by
  cases xs with
  | nil => rw [List.nil_perm.mp hp]
  | cons x xs =>
    cases ys with
    | nil => exact absurd (List.perm_nil.mp hp) (by simp)
    | cons y ys =>
      cases op with
      | sum =>
        simp only [ReduceOp.apply]
        congr 1
        apply foldl_perm_of_comm' _ _ hp
        intro s a b; simp only [two64]; omega
      | max => exact reduce1_perm maxB maxB_comm maxB_assoc hp
      | min => exact reduce1_perm minB minB_comm minB_assoc hp
      | bitor => exact reduce1_perm bor bor_comm bor_assoc hp
      | bitand => exact reduce1_perm band band_comm band_assoc hp
      | first => cases h
      | last => cases h
      | concat => cases h

/-- **order_dependent_declared.** Conversely every reducer that *is* order-dependent (witnessed
    on a concrete pair) has its extracted bit cleared — the classification is exact. -/
theorem order_dependent_declared :
    ∀ op : ReduceOp, Generated.reduceIsCommutative op = false →
      op.apply [[1], [2]] ≠ op.apply [[2], [1]] := by
  intro op h
  cases op <;> first | (cases h; done) | decide

/-- **channels_in_id_order.** `finalize` lists channels (and conflicts) in ascending channel id,
    each channel in exactly one of the two lists. -/
theorem finalize_partition (pol : SMap Nat Policy) :
    ∀ (p : SMap Nat (SMap EmitKey Bytes)),
      (finalizeMap pol p).channels.length + (finalizeMap pol p).errors.length = p.length
  | [] => rfl
  | (ch, em) :: rest => by
    have ih := finalize_partition pol rest
    simp only [finalizeMap]
    split <;> simp only [List.length_cons] <;> omega

/-- **strict_single_conflict_iff.** A `StrictSingle` channel conflicts exactly when it holds more
    than one emission, and the conflict reports that count. -/
theorem strict_single_conflict_iff (em : SMap EmitKey Bytes) :
    (∃ n, finalizeChannel em .strictSingle = .inr n) ↔ em.length > 1 := by
  simp only [finalizeChannel]
  constructor
  · intro ⟨n, h⟩
    split at h
    · assumption
    · split at h <;> cases h
  · intro h; exact ⟨em.length, by simp [h]⟩

/-! ### non-vacuity: the hypotheses are met by concrete, non-trivial states -/

def exA : Emission := { chan := 5, key := (1, 0, 0), data := [1, 2] }
def exB : Emission := { chan := 5, key := (0, 2, 1), data := [] }
def exC : Emission := { chan := 2, key := (1, 0, 0), data := [9] }

example : WF (Bus.empty [(5, .log)]) := ⟨trivial, by intro ch m h; cases h⟩
example : [exA, exB, exC].Pairwise Distinct := by
  simp [Distinct, exA, exB, exC]
example : (emitAll (Bus.empty []) [exA, exB, exC]).pending = (emitAll (Bus.empty []) [exC, exB, exA]).pending := by decide
example : (emitAll (Bus.empty []) [exA, exB, exC]).pending =
    [(2, [((1, 0, 0), [9])]), (5, [((0, 2, 1), []), ((1, 0, 0), [1, 2])])] := by decide

end EchoVerif.C18
