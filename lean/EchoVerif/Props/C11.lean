/-
  C11 — the log rejects corruption instead of reinterpreting it.

  Theorems are about `Model/Wal.lean` + `Model/WalIntegrity.lean` (`recoverFCT` = the CURRENT
  `recover_from_frames_and_commits`, with the commit-marker tiling check of /repo commit 891bbae),
  for an ARBITRARY hash function `H` and arbitrary configuration constants.
-/
import EchoVerif.Lemmas.WalEdit
import EchoVerif.Lemmas.WalBinding
import EchoVerif.Lemmas.WalLedger
import EchoVerif.Lemmas.WalDamage
set_option linter.unusedSimpArgs false
set_option linter.unusedVariables false

namespace EchoVerif.C11
open EchoVerif EchoVerif.Wal

/-- liveness / non-vacuity of everything below: an undamaged log (every transaction passes
    `validate_transaction_frames`, LSNs run on from `base`), possibly followed by frames of a
    transaction whose marker was never written, recovers completely, with the exact tail posture.
    (This is C10's `recoverFC_prefix` re-proved for the code after the tiling fix.) -/
theorem intact_log_recovers (cfg : Cfg) (H : HashFn) (base : Nat) (mode : Mode) (ts : List Tx)
    (extra : List Frame) (hlog : LogAt cfg H base ts)
    (hchain : Chain cfg H base (framesOfTxs ts ++ extra)) :
    recoverFCT cfg H (framesOfTxs ts ++ extra) (ts.map (fun t => t.commit)) mode
      = .ok { txs := recoveredOf ts,
              tail := if extra = [] then .clean else tailOf mode (lastLsnOf ts) } :=
  recoverFCT_prefix mode ts extra hlog hchain

/-- `truncation_recovers_prefix` — truncated ranges, for the CURRENT code (C10's `recover_prefix`
    re-proved over the fixed loop): a log of validated transactions cut at EVERY byte position `m`
    recovers successfully through `recover_wal_segment_bytes` to exactly the transactions whose commit
    marker lies wholly inside the cut, with the exact tail posture; never an error, never a frame of
    an incomplete transaction. -/
theorem truncation_recovers_prefix (cfg : Cfg) (H : HashFn) (h32 : Hash32 H) (seg base : Nat) (mode : Mode)
    (ts : List Tx) (hlog : LogAt cfg H base ts) (hc : Codec cfg H ts)
    (hseg : ∀ t ∈ ts, ∀ f ∈ t.frames, f.header.segmentId = seg)
    (m : Nat) (hm : m ≤ (encLog cfg H ts).length) :
    ∃ k d, k ≤ ts.length
      ∧ (encLog cfg H (ts.take k)).length ≤ m
      ∧ (k < ts.length → m < (encLog cfg H (ts.take (k + 1))).length)
      ∧ recoverSegmentBytesT cfg H seg ((encLog cfg H ts).take m) mode
          = .ok (d, { txs := recoveredOf (ts.take k),
                      tail := if m = (encLog cfg H (ts.take k)).length then .clean
                              else tailOf mode (lastLsnOf (ts.take k)) }) := by
  obtain ⟨k, extra, torn, hk, ⟨i, hex⟩, hscan, hle, hnext, hiff⟩ := scan_log_prefix cfg H h32 ts hc m hm
  refine ⟨k, segmentDigest cfg H seg (framesOfTxs (ts.take k) ++ extra), hk, hle, hnext, ?_⟩
  have hchain : Chain cfg H base (framesOfTxs (ts.take k) ++ extra) := by
    rw [hex]; exact hlog.chain_next k i
  have hsegs : firstSegmentMismatch seg (framesOfTxs (ts.take k) ++ extra) = none := by
    apply firstSegmentMismatch_none
    intro f hf
    rw [List.mem_append] at hf
    rcases hf with hf | hf
    · simp only [framesOfTxs, List.mem_flatMap] at hf
      obtain ⟨t, ht, hft⟩ := hf
      exact hseg t (List.mem_of_mem_take ht) f hft
    · rw [hex] at hf
      have hf' := List.mem_of_mem_take hf
      simp only [nextFrames] at hf'
      cases hget : ts[k]? with
      | none => simp [hget] at hf'
      | some t =>
        simp only [hget] at hf'
        exact hseg t (List.mem_of_getElem? hget) f hf'
  have hrec := recoverFCT_prefix mode (ts.take k) extra (hlog.take k) hchain
  simp only [recoverSegmentBytesT, hscan, framesOf_log, commitsOf_log, hsegs, hrec]
  congr 2
  simp only [applyTorn]
  by_cases hb : m = (encLog cfg H (ts.take k)).length
  · obtain ⟨he, ht⟩ := hiff.mpr hb
    simp [he, ht, hb]
  · rw [if_neg hb]
    by_cases he : extra = []
    · have ht : torn = true := by
        cases torn with
        | true => rfl
        | false => exact absurd (hiff.mp ⟨he, rfl⟩) hb
      simp [he, ht, lastCommittedLsn_log (hlog.take k)]
    · have hne : tailOf mode (lastLsnOf (ts.take k)) ≠ Tail.clean := by
        cases mode <;> cases lastLsnOf (ts.take k) <;> simp [tailOf]
      simp [he, hne]

/-- `rearranged_recovers_run` — soundness of recovery against EVERY re-arrangement of the log's own
    records.  Hand `recover_from_frames_and_commits` any list of frames `F'` and any list of commit
    markers `C'` all of which occur in the committed log `ts` — any number of deletions,
    duplications and re-orderings of frames and of markers.  If it succeeds, the recovered history is
    a contiguous run `ts[a .. a+k)` of the committed transactions, each with exactly its own frames,
    the markers consumed are exactly `C'` in order, and the run starts at the smallest frame LSN
    present.  (No hypothesis on `H`: nothing here relies on collision-freedom.) -/
theorem rearranged_recovers_run (cfg : Cfg) (H : HashFn) (base : Nat) (mode : Mode) (ts : List Tx)
    (hlog : LogAt cfg H base ts) (F' : List Frame) (C' : List Commit)
    (hF : ∀ f ∈ F', f ∈ framesOfTxs ts) (hC : ∀ c ∈ C', c ∈ ts.map (fun t => t.commit))
    (r : Report) (h : recoverFCT cfg H F' C' mode = .ok r) :
    ∃ a k, r.txs = recoveredOf ((ts.drop a).take k)
      ∧ ((ts.drop a).take k).map (fun t => t.commit) = C'
      ∧ (k ≠ 0 → minLsn F' = some (base + (framesOfTxs (ts.take a)).length)) := by
  simp only [recoverFCT] at h
  split at h
  · cases h
  · split at h
    · cases h
    · rename_i txs last hloop
      simp only [Except.ok.injEq] at h
      obtain ⟨A, B, hsplit, htx, hcm, hlen, hmin⟩ := recoverLoopT_sub_none hlog (fun t ht hv => sel_of_member hlog hF ht hv) C' hC txs last hloop
      refine ⟨A.length, C'.length, ?_, ?_, ?_⟩
      · rw [← h, hsplit]; simpa using htx
      · rw [hsplit]; simpa using hcm
      · intro hk
        rw [hsplit]
        simp only [List.take_left']
        exact hmin (by intro hnil; apply hk; simp [hnil])

/-- all transactions of a well-formed log have at least one frame, so an empty frame list means no
    transactions -/
theorem no_frames_no_txs {cfg : Cfg} {H : HashFn} {b : Nat} {A : List Tx} (h : LogAt cfg H b A)
    (hz : (framesOfTxs A).length = 0) : A = [] := by
  cases A with
  | nil => rfl
  | cons t A' =>
    obtain ⟨_, _, hpos, _, _⟩ := h.range t (by simp)
    simp only [framesOfTxs, List.flatMap_cons, List.length_append] at hz
    omega

/-- `rearranged_prefix` — the same, anchored: if the re-arranged input still contains the log's first
    frame (LSN `base`) or its first commit marker, a successful recovery returns a PREFIX of the
    committed history.  Covers every combination of deleted / duplicated / re-ordered frames and
    markers that leaves the head record in place. -/
theorem rearranged_prefix (cfg : Cfg) (H : HashFn) (base : Nat) (mode : Mode) (ts : List Tx)
    (hlog : LogAt cfg H base ts) (F' : List Frame) (C' : List Commit)
    (hF : ∀ f ∈ F', f ∈ framesOfTxs ts) (hC : ∀ c ∈ C', c ∈ ts.map (fun t => t.commit))
    (hanchor : (∃ f ∈ F', f.header.lsn = base) ∨ (∃ t, ts.head? = some t ∧ t.commit ∈ C'))
    (r : Report) (h : recoverFCT cfg H F' C' mode = .ok r) :
    ∃ k, r.txs = recoveredOf (ts.take k) := by
  obtain ⟨a, k, htx, hcm, hmin⟩ := rearranged_recovers_run cfg H base mode ts hlog F' C' hF hC r h
  by_cases hk : k = 0
  · exact ⟨0, by rw [htx, hk]; simp⟩
  · have hm := hmin hk
    have hsplit : ts = ts.take a ++ ts.drop a := (List.take_append_drop a ts).symm
    obtain ⟨hA, hB⟩ := (hsplit ▸ hlog : LogAt cfg H base (ts.take a ++ ts.drop a)).split
    have hz : (framesOfTxs (ts.take a)).length = 0 := by
      rcases hanchor with ⟨f, hf, hfl⟩ | ⟨t, hhead, htc⟩
      · have := (minLsn_spec hm).2 f hf
        omega
      · rw [← hcm] at htc
        simp only [List.mem_map] at htc
        obtain ⟨u, hu, huc⟩ := htc
        have hu' : u ∈ ts.drop a := List.mem_of_mem_take hu
        obtain ⟨h1, _⟩ := hB.range u hu'
        have htb : t.commit.firstLsn = base := by
          cases ts with
          | nil => simp at hhead
          | cons t0 ts0 =>
            simp only [List.head?_cons, Option.some.injEq] at hhead
            subst hhead
            exact hlog.2.1
        rw [huc, htb] at h1
        omega
    have hnil := no_frames_no_txs hA hz
    refine ⟨k, ?_⟩
    rw [htx]
    have hd : ts.drop a = ts := by
      have h2 := hsplit
      rw [hnil] at h2
      simpa using h2.symm
    rw [hd]

/-- `structural_edit_prefix` — every single-record edit.  Take the records of a committed log in
    file order and delete any one record, insert a copy of any record anywhere, move any record
    anywhere, or swap two adjacent records (frames or commit markers alike).  Then both entry points —
    `recover_wal_segment_bytes` (records in file order) and `recover_filesystem_store` (frames
    re-sorted by LSN, markers by `last_lsn`) — either fail or return a prefix of the committed
    history.  (With the tiling fix this closes for ALL four edit kinds at ALL positions; the edits that
    bring in records of ANOTHER log are `transplant_not_prefix` below.) -/
theorem structural_edit_prefix (cfg : Cfg) (H : HashFn) (base : Nat) (mode : Mode) (ts : List Tx)
    (hlog : LogAt cfg H base ts) (e : Edit) (r : Report) :
    (recoverFCT cfg H (framesOf (e.apply (logRecs ts))) (commitsOf (e.apply (logRecs ts))) mode = .ok r
        → ∃ k, r.txs = recoveredOf (ts.take k))
    ∧ (recoverFCT cfg H (sortBy (fun f => f.header.lsn) (framesOf (e.apply (logRecs ts))))
          (sortBy (fun c => c.lastLsn) (commitsOf (e.apply (logRecs ts)))) mode = .ok r
        → ∃ k, r.txs = recoveredOf (ts.take k)) := by
  have hF : ∀ f ∈ framesOf (e.apply (logRecs ts)), f ∈ framesOfTxs ts := by
    intro f hf
    rw [← framesOf_logRecs, mem_framesOf]
    exact e.mem_of_mem_apply _ _ (mem_framesOf.mp hf)
  have hC : ∀ c ∈ commitsOf (e.apply (logRecs ts)), c ∈ ts.map (fun t => t.commit) := by
    intro c hc
    rw [← commitsOf_logRecs, mem_commitsOf]
    exact e.mem_of_mem_apply _ _ (mem_commitsOf.mp hc)
  -- the anchor: the first frame or the first marker survives a single edit
  have hanchor : ts = [] ∨ ((∃ f ∈ framesOf (e.apply (logRecs ts)), f.header.lsn = base)
      ∨ (∃ t, ts.head? = some t ∧ t.commit ∈ commitsOf (e.apply (logRecs ts)))) := by
    cases ts with
    | nil => exact Or.inl rfl
    | cons t ts0 =>
      right
      obtain ⟨hv, hb, _⟩ := hlog
      obtain ⟨hne, hfa, _⟩ := validateTx_inv hv
      cases hfr : t.frames with
      | nil => exact absurd hfr hne
      | cons f fs =>
        have hfl : f.header.lsn = base := by
          rw [hfr] at hfa
          have := hfa.2.2.1
          omega
        have hfm : Rec.frame f ∈ logRecs (t :: ts0) := by
          simp [logRecs, recsT, hfr]
        have hcm : Rec.commit t.commit ∈ logRecs (t :: ts0) := by
          simp [logRecs, recsT]
        rcases e.keeps_one (logRecs (t :: ts0)) (x := Rec.frame f) (y := Rec.commit t.commit)
          (by simp) hfm hcm with h | h
        · exact Or.inl ⟨f, mem_framesOf.mpr h, hfl⟩
        · exact Or.inr ⟨t, rfl, mem_commitsOf.mpr h⟩
  rcases hanchor with hnil | hanchor
  · -- empty log: nothing can be recovered from no records
    subst hnil
    constructor <;> intro h
    · obtain ⟨a, k, htx, _, _⟩ := rearranged_recovers_run cfg H base mode [] hlog _ _ hF hC r h
      exact ⟨0, by simpa using htx⟩
    · obtain ⟨a, k, htx, _, _⟩ := rearranged_recovers_run cfg H base mode [] hlog _ _
        (fun f hf => hF f ((mem_sortBy _ f _).mp hf)) (fun c hc => hC c ((mem_sortBy _ c _).mp hc)) r h
      exact ⟨0, by simpa using htx⟩
  · constructor <;> intro h
    · exact rearranged_prefix cfg H base mode ts hlog _ _ hF hC hanchor r h
    · refine rearranged_prefix cfg H base mode ts hlog _ _
        (fun f hf => hF f ((mem_sortBy _ f _).mp hf)) (fun c hc => hC c ((mem_sortBy _ c _).mp hc)) ?_ r h
      rcases hanchor with ⟨f, hf, hfl⟩ | ⟨t, ht, htc⟩
      · exact Or.inl ⟨f, (mem_sortBy _ f _).mpr hf, hfl⟩
      · exact Or.inr ⟨t, ht, (mem_sortBy _ t.commit _).mpr htc⟩


/-! ### what the digests bind (explicit `Function.Injective H`: collision-freedom is a hypothesis) -/

/-- `record_integrity`: the per-record digest written by `append_segment_record` and compared by
    `read_segment_bytes` binds the record kind byte and the whole payload: a record that passes the
    check against the digest of a written record IS that record (kind and payload). -/
theorem record_integrity (cfg : Cfg) (H : HashFn) (hinj : Function.Injective H) (tag tag' : UInt8)
    (p p' : Bytes) (h : diskDigest cfg H tag' p' = diskDigest cfg H tag p) : tag' = tag ∧ p' = p :=
  diskDigest_binds cfg H hinj tag' tag p' p h

/-- non-vacuity: `H := id` is injective, and a changed payload byte changes the digest -/
example : Function.Injective (id : Bytes → Bytes) := fun _ _ h => h

/-- the reader really rejects: a record whose kind/payload differ from the written ones but which
    carries the written record's digest is `SegmentRecordDigestMismatch` (the head of the file is
    `magic ‖ kind' ‖ len' ‖ payload' ‖ digest(kind, payload) ‖ rest`). -/
theorem record_substitution_rejected {R : Type} (cfg : Cfg) (H : HashFn) (hinj : Function.Injective H)
    (h32 : Hash32 H) (dec : UInt8 → Bytes → Except RErr R) (tag tag' : UInt8) (p p' rest : Bytes)
    (hp' : p'.length < 2 ^ 64) (hne : ¬ (tag' = tag ∧ p' = p)) :
    scan cfg H dec (cfg.magic ++ (tag' :: (u64 p'.length ++ (p' ++ (diskDigest cfg H tag p ++ rest)))))
      = .error .digest := by
  have hd : (diskDigest cfg H tag p).length = 32 := h32 _
  rw [scan]
  have hlen : (cfg.magic ++ (tag' :: (u64 p'.length ++ (p' ++ (diskDigest cfg H tag p ++ rest))))).length
      = cfg.magic.length + 9 + p'.length + 32 + rest.length := by
    simp [u64, le_length, hd]; omega
  rw [if_neg (by rw [hlen]; omega), if_neg (by rw [hlen]; omega)]
  rw [List.take_left, if_neg (by simp), List.drop_left]
  simp only
  have h8 : (u64 p'.length).length = 8 := le_length _ _
  rw [List.take_left' h8, List.drop_left' h8, leNat_u64 _ hp']
  rw [if_neg (by simp [hd])]
  rw [List.take_left, List.drop_left, List.take_left' hd]
  rw [if_pos]
  intro heq
  exact hne (diskDigest_binds cfg H hinj tag' tag p' p heq.symm)

/-- `frame_integrity`: the frame digest (`WalFrame::digest`, the leaf of the records root) binds the
    whole frame: every header field (version, epoch, segment, LSN, transaction id, local index, kind,
    payload length and digest, codec/schema ids and versions, digest domain, compression, redaction,
    previous-frame digest, header checksum), the payload kind, schema version and bytes, and the
    trailer checksum.  Two well-sized frames that pass `validate_integrity` and have the same digest
    are equal. -/
theorem frame_integrity (cfg : Cfg) (H : HashFn) (hinj : Function.Injective H) (hlab : LabelInj cfg)
    (f g : Frame) (hf : FrameOK cfg H f) (hg : FrameOK cfg H g) (h : f.digest cfg H = g.digest cfg H) : f = g :=
  frame_digest_binds cfg H hinj hlab f g hf hg h

/-- `tx_integrity`, structure: what a successful `validate_transaction_frames` establishes — the
    frames are non-empty, each passes `validate_integrity`, carries the marker's transaction id and
    sits at LSN `first_lsn + i`; `last_lsn = first_lsn + n - 1`; the records root and the commit
    digest are the recomputed ones. -/
theorem tx_integrity_structure (cfg : Cfg) (H : HashFn) (fs : List Frame) (c : Commit)
    (h : validateTx cfg H fs c = .ok ()) :
    fs ≠ [] ∧ FramesAt cfg H c 0 fs ∧ c.lastLsn = c.firstLsn + fs.length - 1
      ∧ recordsRoot cfg H fs = c.recordsRoot ∧ c.computeDigest cfg H = c.commitDigest := by
  obtain ⟨a, b, d⟩ := validateTx_inv h
  obtain ⟨e, f⟩ := validateTx_digests h
  exact ⟨a, b, d, e, f⟩

/-- `tx_integrity`, binding: the 32-byte commit digest pins the whole transaction.  Two transactions
    that pass `validate_transaction_frames` and carry the same commit digest have the same marker
    (all twelve fields) and the same frames (all fields, all payload bytes).  (`hdf`/`hdg`: frame
    digests are 32 bytes, as the leaves of the records root are concatenated without length prefix.) -/
theorem tx_integrity (cfg : Cfg) (H : HashFn) (hinj : Function.Injective H) (hlab : LabelInj cfg)
    (fs gs : List Frame) (c d : Commit)
    (hf : ∀ f ∈ fs, FrameOK cfg H f) (hg : ∀ g ∈ gs, FrameOK cfg H g)
    (hdf : ∀ f ∈ fs, (f.digest cfg H).length = 32) (hdg : ∀ g ∈ gs, (g.digest cfg H).length = 32)
    (hc : CommitOK cfg c) (hd : CommitOK cfg d)
    (hv : validateTx cfg H fs c = .ok ()) (hw : validateTx cfg H gs d = .ok ())
    (hdig : c.commitDigest = d.commitDigest) : c = d ∧ fs = gs :=
  tx_bound_by_commit_digest cfg H hinj hlab fs gs c d hf hg hdf hdg hc hd hv hw hdig

/-- `structural_edit_prefix_partial` — splices.  The part that holds: as long as every commit MARKER
    handed to recovery is one of the committed log's own, the FRAMES may be anything at all (frames
    of a sibling log, forged frames, any mixture, any order): under collision-freedom a successful
    recovery still returns a contiguous run of the committed transactions with exactly their own
    frames — a marker only ever accepts the frames it was written for.  So history can only be
    changed by bringing in a foreign marker; that case is open (`transplant_not_prefix`, C11-K1). -/
theorem structural_edit_prefix_partial (cfg : Cfg) (H : HashFn) (hinj : Function.Injective H) (hlab : LabelInj cfg)
    (base : Nat) (mode : Mode) (ts : List Tx) (hlog : LogAt cfg H base ts)
    (F' : List Frame) (C' : List Commit)
    (hok : ∀ t ∈ ts, ∀ f ∈ t.frames, FrameOK cfg H f ∧ (f.digest cfg H).length = 32)
    (hF : ∀ f ∈ F', FrameOK cfg H f ∧ (f.digest cfg H).length = 32)
    (hC : ∀ c ∈ C', c ∈ ts.map (fun t => t.commit))
    (r : Report) (h : recoverFCT cfg H F' C' mode = .ok r) :
    ∃ a k, r.txs = recoveredOf ((ts.drop a).take k) := by
  simp only [recoverFCT] at h
  split at h
  · cases h
  · split at h
    · cases h
    · rename_i txs last hloop
      simp only [Except.ok.injEq] at h
      have hsel : ∀ t ∈ ts, validateTx cfg H (selectFrames F' t.commit) t.commit = .ok () →
          selectFrames F' t.commit = t.frames := by
        intro t ht hv
        obtain ⟨_, _, _, _, hv2⟩ := hlog.range t ht
        obtain ⟨r1, _⟩ := validateTx_digests hv
        obtain ⟨r2, _⟩ := validateTx_digests hv2
        apply recordsRoot_binds cfg H hinj hlab
        · intro f hf; exact (hF f (selectFrames_sub F' _ f hf)).1
        · intro f hf; exact (hok t ht f hf).1
        · intro f hf; exact (hF f (selectFrames_sub F' _ f hf)).2
        · intro f hf; exact (hok t ht f hf).2
        · rw [r1, r2]
      obtain ⟨A, B, hsplit, htx, _, _, _⟩ := recoverLoopT_sub_none hlog hsel C' hC txs last hloop
      refine ⟨A.length, C'.length, ?_⟩
      rw [← h, hsplit]; simpa using htx

/-! ### what does NOT hold (known findings C11-K2, C11-K1), proved for every log -/

theorem recoveredOf_injective : ∀ (xs ys : List Tx), recoveredOf xs = recoveredOf ys → xs = ys := by
  intro xs
  induction xs with
  | nil => intro ys h; cases ys with
    | nil => rfl
    | cons y ys => simp [recoveredOf] at h
  | cons x xs ih =>
    intro ys h
    cases ys with
    | nil => simp [recoveredOf] at h
    | cons y ys =>
      simp only [recoveredOf, List.map_cons, List.cons.injEq, RecoveredTx.mk.injEq] at h
      obtain ⟨⟨hc, hf⟩, hrest⟩ := h
      have : x = y := by cases x; cases y; simp_all
      rw [this, ih ys hrest]

/-- C11-K2 (`C11.log-head-unanchored`), for EVERY log: remove the first transaction completely
    (all its frames and its marker); what is left recovers successfully, cleanly, as the remaining
    suffix — which is not a prefix of what was committed.  Segment-level recovery has no anchor for
    the first LSN. -/
theorem head_removed_not_prefix (cfg : Cfg) (H : HashFn) (base : Nat) (mode : Mode) (t : Tx) (rest : List Tx)
    (hlog : LogAt cfg H base (t :: rest)) (hne : rest ≠ []) :
    recoverFCT cfg H (framesOfTxs rest) (rest.map (fun t => t.commit)) mode
        = .ok { txs := recoveredOf rest, tail := .clean }
    ∧ ¬ ∃ k, recoveredOf rest = recoveredOf ((t :: rest).take k) := by
  obtain ⟨hv, hb, hrest⟩ := hlog
  constructor
  · have := recoverFCT_prefix (cfg := cfg) (H := H) mode rest [] hrest (by simpa using hrest.chain)
    simpa using this
  · rintro ⟨k, hk⟩
    have heq := recoveredOf_injective _ _ hk
    cases rest with
    | nil => exact hne rfl
    | cons u us =>
      cases k with
      | zero => simp at heq
      | succ k =>
        simp only [List.take_succ_cons, List.cons.injEq] at heq
        obtain ⟨hne', _, _⟩ := validateTx_inv hv
        have hpos : 0 < t.frames.length := List.length_pos_iff.mpr hne'
        have hu := hrest.2.1
        rw [heq.1] at hu
        omega

/-- replacing one transaction of a well-formed log by ANY self-consistent transaction with the same
    LSN range gives a well-formed log again: nothing relates a transaction to its neighbours except
    the LSNs -/
theorem LogAt.replace {cfg : Cfg} {H : HashFn} {b : Nat} {pre post : List Tx} {t t' : Tx}
    (h : LogAt cfg H b (pre ++ t :: post)) (hv : validateTx cfg H t'.frames t'.commit = .ok ())
    (hfirst : t'.commit.firstLsn = t.commit.firstLsn) (hlen : t'.frames.length = t.frames.length) :
    LogAt cfg H b (pre ++ t' :: post) := by
  induction pre generalizing b with
  | nil =>
    obtain ⟨_, hb, hrest⟩ := h
    exact ⟨hv, by rw [hfirst]; exact hb, by rw [hlen]; exact hrest⟩
  | cons p pre ih =>
    obtain ⟨hpv, hpb, hrest⟩ := h
    exact ⟨hpv, hpb, ih hrest⟩

/-- C11-K1 (`C11.commit-chain-unchecked.transplant`), for EVERY log and EVERY donor: a whole
    transaction replaced by any other self-consistent transaction `t'` with the same LSN range (its
    frames and marker may come from a sibling log; NO condition relates
    `previous_committed_transaction_digest` / `previous_frame_digest` of `t'` or of its successor to
    their actual predecessors) recovers successfully and cleanly with `t'` in place — and if `t'`
    differs from the committed transaction the result is not a prefix of what was committed. -/
theorem transplant_not_prefix (cfg : Cfg) (H : HashFn) (base : Nat) (mode : Mode) (pre post : List Tx) (t t' : Tx)
    (hlog : LogAt cfg H base (pre ++ t :: post)) (hv : validateTx cfg H t'.frames t'.commit = .ok ())
    (hfirst : t'.commit.firstLsn = t.commit.firstLsn) (hlen : t'.frames.length = t.frames.length)
    (hdiff : t' ≠ t) :
    recoverFCT cfg H (framesOfTxs (pre ++ t' :: post)) ((pre ++ t' :: post).map (fun t => t.commit)) mode
        = .ok { txs := recoveredOf (pre ++ t' :: post), tail := .clean }
    ∧ ¬ ∃ k, recoveredOf (pre ++ t' :: post) = recoveredOf ((pre ++ t :: post).take k) := by
  have hlog' := LogAt.replace hlog hv hfirst hlen
  constructor
  · have := recoverFCT_prefix (cfg := cfg) (H := H) mode (pre ++ t' :: post) [] hlog' (by simpa using hlog'.chain)
    simpa using this
  · rintro ⟨k, hk⟩
    have heq := recoveredOf_injective _ _ hk
    have hlen2 := congrArg List.length heq
    simp only [List.length_append, List.length_cons, List.length_take] at hlen2
    have hk' : (pre ++ t :: post).take k = pre ++ t :: post := by
      apply List.take_of_length_le
      simp only [List.length_append, List.length_cons]
      omega
    rw [hk'] at heq
    have := List.append_cancel_left heq
    simp only [List.cons.injEq] at this
    exact hdiff this.1

/-! ### bit flips and zeroed ranges confined to one disk record -/

/-- `record_damage_rejected` — byte damage as a theorem.  The segment holds any number of whole records
    `rs`, then the bytes of one record `magic ‖ tag ‖ len(p) ‖ p ‖ digest(tag,p)`, then anything.
    Damage that record in place (same lengths) in ANY way that leaves its 8-byte LENGTH field intact
    and does not change BOTH the stored digest AND the (kind, payload) bytes: any bits of the magic, of
    the kind byte and the payload (digest intact), or of the stored digest (kind and payload intact) —
    every single-bit flip and every zeroed range inside one of these fields.  Then, under
    collision-freedom of the record digest, `recover_wal_segment_bytes` and `recover_filesystem_store`
    fail with SegmentRecordDigestMismatch and the doctor reports Obstructed — for every position of
    the record in the file.  NOT covered (see `length_damage_torn_or_mismatch` and NOTES): the length
    field, and ranges that rewrite payload and digest together. -/
theorem record_damage_rejected (cfg : Cfg) (H : HashFn) (hinj : Function.Injective H) (h32 : Hash32 H)
    (seg : Nat) (mode : Mode) (val : DRec → Rec) (rs : List DRec)
    (hlen : ∀ r ∈ rs, r.payload.length < 2 ^ 64)
    (hdec : ∀ r ∈ rs, decodeRec cfg H r.tag r.payload = .ok (val r))
    (tag t' : UInt8) (p p' m' d' rest : Bytes)
    (hm : m'.length = cfg.magic.length) (hpl : p'.length = p.length) (hp : p.length < 2 ^ 64)
    (hd : d'.length = 32)
    (hfield : d' = diskDigest cfg H tag p ∨ (t' = tag ∧ p' = p))
    (hne : ¬ (m' = cfg.magic ∧ t' = tag ∧ p' = p ∧ d' = diskDigest cfg H tag p)) :
    let bytes := encRecs cfg H rs ++ (m' ++ (t' :: (u64 p.length ++ (p' ++ (d' ++ rest)))))
    recoverSegmentBytesT cfg H seg bytes mode = .error .digest
      ∧ recoverFilesystemT cfg H bytes mode = .error .digest
      ∧ doctor cfg H bytes = .obstructed := by
  intro bytes
  have hbad : m' ≠ cfg.magic ∨ d' ≠ diskDigest cfg H t' p' := by
    by_cases hmm : m' = cfg.magic
    · right
      rcases hfield with hdig | ⟨ht, hpp⟩
      · intro heq
        have := diskDigest_binds cfg H hinj tag t' p p' (hdig ▸ heq)
        exact hne ⟨hmm, this.1.symm, this.2.symm, hdig⟩
      · subst ht hpp
        intro heq
        exact hne ⟨hmm, rfl, rfl, heq⟩
    · exact Or.inl hmm
  have hscan : scan cfg H (decodeRec cfg H) bytes = .error .digest := by
    have := scan_damaged_record cfg H h32 (decodeRec cfg H) val rs hlen hdec m' t' p' d' rest hm
      (by omega) hd hbad
    rw [hpl] at this
    exact this
  refine ⟨?_, ?_, ?_⟩
  · simp only [recoverSegmentBytesT, hscan]
  · simp only [recoverFilesystemT, hscan]
  · simp only [doctor, recoverFilesystemT, hscan]

/-- non-vacuity of the hypotheses: `H := id` is injective; a flipped payload byte with the digest field
    intact is an instance (`hfield` left, `hne` by the payload) -/
example : ([1] : Bytes) ≠ [0] ∧ ([1] : Bytes).length = ([0] : Bytes).length := by decide

/-- `length_damage_torn_or_mismatch` — the 8 length bytes of a record replaced by ANY 8 bytes `l'`
    (claiming `len'`): if fewer than `len' + 32` bytes follow, the reader reports a torn tail and
    returns exactly the records in front (a prefix of the file's records — recovery then proceeds as
    for a truncated file, `truncation_recovers_prefix`); otherwise it compares the 32 bytes at the
    displaced position with the digest of the displaced payload and fails with
    SegmentRecordDigestMismatch unless they coincide.  (That coincidence — 32 bytes of the file being
    the digest of a byte range ending right in front of them — is the one event collision-freedom
    does not exclude; it is an explicit hypothesis here and is covered by correspondence + oracle.) -/
theorem length_damage_torn_or_mismatch (cfg : Cfg) (H : HashFn) (h32 : Hash32 H)
    (val : DRec → Rec) (rs : List DRec)
    (hlen : ∀ r ∈ rs, r.payload.length < 2 ^ 64)
    (hdec : ∀ r ∈ rs, decodeRec cfg H r.tag r.payload = .ok (val r))
    (t' : UInt8) (l' body : Bytes) (hl : l'.length = 8) :
    (body.length < leNat l' + 32 →
      scan cfg H (decodeRec cfg H) (encRecs cfg H rs ++ (cfg.magic ++ (t' :: (l' ++ body))))
        = .ok (rs.map val, true))
    ∧ (leNat l' + 32 ≤ body.length →
        (body.drop (leNat l')).take 32 ≠ diskDigest cfg H t' (body.take (leNat l')) →
      scan cfg H (decodeRec cfg H) (encRecs cfg H rs ++ (cfg.magic ++ (t' :: (l' ++ body))))
        = .error .digest) :=
  scan_length_damage cfg H h32 (decodeRec cfg H) val rs hlen hdec t' l' body hl

/-! ### the writer-epoch ledger gate (`FilesystemWalStore::open`, every ledger reload, i.e. the first
    step of `TrustedRuntimeWal::from_config`): `reconcile_writer_epoch_closures` -/

/-- `ledger_gate_exact` — the exact acceptance condition of `reconcile_writer_epoch_closures`, for
    EVERY ledger and EVERY list of commit markers: it succeeds iff the ledger is non-empty (or there
    are no markers) and EVERY marker is admitted, i.e. was written by the active epoch / a retained
    closed epoch, or ends strictly below the retained start LSN.  No marker is exempt because of its
    position, its LSN range (closed-epoch ranges included) or the state of the closure map. -/
theorem ledger_gate_exact (l : Ledger) (cs : List Commit) :
    (∃ l', reconcile l cs = .ok l')
      ↔ (l.active.isSome = true ∨ l.closed ≠ [] ∨ cs = []) ∧ ∀ c ∈ cs, l.admits c = true :=
  reconcile_ok_iff l cs

/-- `foreign_epoch_commit_rejected` — any commit marker whose writer epoch is not in the ledger chain
    (neither the active nor a retained closed epoch) and which does not end strictly below the
    retained start LSN makes the reconciliation fail with a typed error, wherever it sits in the
    marker list — in particular inside the LSN range of a CLOSED epoch. -/
theorem foreign_epoch_commit_rejected (l : Ledger) (cs : List Commit) (c : Commit) (hc : c ∈ cs)
    (hunknown : l.knows c.writerEpoch = false) (hrange : l.belowRetained c = false) :
    reconcile l cs = .error .unknownPrev ∨ reconcile l cs = .error .missingLedger := by
  cases h : reconcile l cs with
  | ok l' =>
    have := ((reconcile_ok_iff l cs).mp ⟨l', h⟩).2 c hc
    simp [Ledger.admits, hunknown, hrange] at this
  | error e =>
    rcases reconcile_error l cs e h with he | he <;> subst he
    · exact Or.inl rfl
    · exact Or.inr rfl

/-- non-vacuity: a ledger with one closed epoch `[7]` started at LSN 0 and a marker of epoch `[9]` -/
example : (⟨none, [⟨[7], [], [], [], 0, none, none, []⟩], []⟩ : Ledger).knows [9] = false
    ∧ (⟨none, [⟨[7], [], [], [], 0, none, none, []⟩], []⟩ : Ledger).belowRetained
        ⟨[9], [], 0, 3, 4, 2, [], [], [], 0, 0, []⟩ = false := by decide

/-- the same at the level of `FilesystemWalStore::open`: whatever segment files the root holds (any
    number, any content that scans), if ANY scanned record is a commit marker of an epoch the decoded
    ledger does not know (and not below its retained start), `open` fails with
    `UnknownPreviousWriterEpoch` / `MissingWriterEpochLedger`. -/
theorem open_rejects_foreign_commit (cfg : Cfg) (H : HashFn) (lc : LedgerCfg) (ledgerFile : Option Bytes)
    (segs : List Bytes) (l : Ledger) (recs : List Rec) (torn : Bool)
    (hl : readLedger H lc ledgerFile = .ok l) (hs : scanSegments cfg H segs = .ok (recs, torn))
    (c : Commit) (hc : Rec.commit c ∈ recs)
    (hunknown : l.knows c.writerEpoch = false) (hrange : l.belowRetained c = false) :
    openStore cfg H lc ledgerFile segs = .error (.epoch .unknownPrev)
      ∨ openStore cfg H lc ledgerFile segs = .error (.epoch .missingLedger) := by
  obtain ⟨frames, commits, hrd, hmem⟩ := mem_readSegments_commits hs
  have hcm : c ∈ commits := (hmem c).mpr hc
  simp only [openStore, hl, hrd]
  rcases foreign_epoch_commit_rejected l commits c hcm hunknown hrange with h | h <;> simp [h]

/-- `transplant_foreign_epoch_rejected` — the splice of `transplant_not_prefix`, seen through `open`:
    for EVERY log `pre ++ t' :: post` on disk (the transaction `t'` at ANY position — inside a closed
    epoch's range, inside the active epoch's range), if the marker of `t'` carries a writer epoch the
    ledger does not know (and does not end below the retained start), the store does not open.
    Together with `transplant_not_prefix` (recovery alone accepts the splice) this makes the ledger
    reconciliation the ONLY barrier against a transaction spliced in from a log of other epochs. -/
theorem transplant_foreign_epoch_rejected (cfg : Cfg) (H : HashFn) (h32 : Hash32 H) (lc : LedgerCfg)
    (ledgerFile : Option Bytes) (l : Ledger) (hl : readLedger H lc ledgerFile = .ok l)
    (pre post : List Tx) (t' : Tx) (hcodec : Codec cfg H (pre ++ t' :: post))
    (hunknown : l.knows t'.commit.writerEpoch = false) (hrange : l.belowRetained t'.commit = false) :
    openStore cfg H lc ledgerFile [encLog cfg H (pre ++ t' :: post)] = .error (.epoch .unknownPrev)
      ∨ openStore cfg H lc ledgerFile [encLog cfg H (pre ++ t' :: post)] = .error (.epoch .missingLedger) := by
  obtain ⟨recs, hscan, hsub⟩ := scan_log_full cfg H h32 (pre ++ t' :: post) hcodec
  have hs : scanSegments cfg H [encLog cfg H (pre ++ t' :: post)] = .ok (recs, false) := by
    simp [scanSegments, hscan]
  refine open_rejects_foreign_commit cfg H lc ledgerFile _ l recs false hl hs t'.commit ?_ hunknown hrange
  exact hsub t' (by simp)

/-- `same_epoch_transplant_passes_ledger` — NEGATIVE, the exact extent of known findings C11-K1 / C11-K4:
    if a root opens, it still opens after ANY marker is replaced by a marker the ledger admits — one
    written under an epoch id the ledger knows (a sibling log with coinciding epoch ids: K1, only the
    unchecked commit chain could tell) or ending below the retained start LSN (the range of an epoch
    the bounded ledger has pruned: K4). -/
theorem same_epoch_transplant_passes_ledger (l : Ledger) (pre post : List Commit) (c c' : Commit)
    (hopen : ∃ l', reconcile l (pre ++ c :: post) = .ok l') (hadm : l.admits c' = true) :
    ∃ l', reconcile l (pre ++ c' :: post) = .ok l' := by
  obtain ⟨hne, hall⟩ := (reconcile_ok_iff l _).mp hopen
  refine (reconcile_ok_iff l _).mpr ⟨?_, ?_⟩
  · rcases hne with h | h | h
    · exact Or.inl h
    · exact Or.inr (Or.inl h)
    · simp at h
  · intro x hx
    simp only [List.mem_append, List.mem_cons] at hx
    rcases hx with hx | hx | hx
    · exact hall x (by simp [hx])
    · subst hx; exact hadm
    · exact hall x (by simp [hx])

end EchoVerif.C11
