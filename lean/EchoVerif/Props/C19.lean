/-
  C19 — deterministic math is bit-stable and canonical (PARTIAL by design: that rustc/LLVM emit
  IEEE-754 round-to-nearest-even for `+ - * / %` under every profile is a fact about code
  generation; the model carries the logic and is compared bit for bit with the real code).
  Model: EchoVerif/Model/Math.lean.  Tables: Generated/TrigLut.lean (trig_lut.rs),
  Generated/ScalarOps.lean (shape of every F32Scalar operator/constructor body in scalar.rs).
-/
import EchoVerif.Lemmas.Math
import EchoVerif.Lemmas.MathRound
import EchoVerif.Lemmas.MathLut
import EchoVerif.Generated.TrigLut
import EchoVerif.Generated.ScalarOps
set_option linter.unusedSimpArgs false

namespace EchoVerif.C19
open EchoVerif.Math EchoVerif.Generated

/-- the table lookup the driver runs the trig model with -/
def lut (i : Nat) : Option Nat := sinQtrLutBits[i]?

/-! ### canonical form -/

/-- `F32Scalar::new` over ALL 2^32 bit patterns: the stored value is never −0, never subnormal,
    never a NaN other than 0x7fc00000; and `new` is idempotent. -/
theorem canon_closed (b : Nat) (hb : b < two32) :
    Canonical (canon b) ∧ canon (canon b) = canon b :=
  ⟨Math.canon_closed b hb, Math.canon_idempotent b hb⟩

/-- canonical values are stored unchanged (`new` loses nothing but the three forbidden classes). -/
theorem canon_fixes_canonical (b : Nat) (h : Canonical b) : canon b = b :=
  Math.canon_fixes_canonical b h

/-- what exactly is lost: NaN payload/sign, subnormal magnitude, the sign of zero. -/
theorem canon_changes_only_forbidden (b : Nat) (h : canon b ≠ b) :
    isNaN b ∨ isSubnormal b ∨ b = negZero := by
  rcases canon_cases b with ⟨h1, _⟩ | ⟨_, h2, _⟩ | ⟨_, _, h3, _⟩ | ⟨_, _, _, e⟩
  · exact Or.inl h1
  · exact Or.inr (Or.inl h2)
  · exact Or.inr (Or.inr h3)
  · exact absurd e h

/-- every operator impl of `F32Scalar` is `Self::new(raw f32 op)` (table EXTRACTED from scalar.rs;
    extraction fails if any body has another shape, if the field becomes public or a struct literal
    appears outside `new`), hence every operator result is canonical whatever the raw IEEE op returns. -/
theorem scalar_ops_closed :
    f32ScalarAllViaNew = true ∧
    f32ScalarOps = [("add", .add), ("sub", .sub), ("mul", .mul), ("div", .div), ("neg", .neg)] ∧
    ∀ p ∈ f32ScalarOps, ∀ a b, a < two32 → Canonical (scalarOp p.2 a b) := by
  refine ⟨by decide, by decide, ?_⟩
  intro p _ a b ha
  exact Math.canon_closed _ (rawOp_lt p.2 ha)

/-- sin/cos results of `F32Scalar` are canonical for ANY |x| pipeline producing 32-bit patterns. -/
theorem trig_outputs_canonical (core : Nat → Option (Nat × Nat)) (da : Bool) (x s c : Nat)
    (hcore : ∀ a s c, core a = some (s, c) → s < two32 ∧ c < two32)
    (h : scalarSinCosWith core da x = some (s, c)) : Canonical s ∧ Canonical c := by
  unfold scalarSinCosWith at h
  cases hr : sinCosWith core da (canon x) with
  | none => rw [hr] at h; cases h
  | some p =>
    rw [hr] at h
    injection h with h
    injection h with h1 h2
    have b1 : p.1 < two32 := sinCosWith_fst_lt (fun a s c k => (hcore a s c k).1) hr
    have b2 : p.2 < two32 := by
      unfold sinCosWith at hr
      by_cases hf : isFiniteB (canon x)
      · rw [if_neg (by simpa using hf)] at hr
        cases hc : core (absBits (canon x)) with
        | none => rw [hc] at hr; cases hr
        | some q =>
          obtain ⟨s0, c0⟩ := q
          rw [hc] at hr
          injection hr with hr
          rw [← hr]
          show canonZero c0 < two32
          rcases canonZero_eq c0 with ⟨_, e⟩ | ⟨_, _, e⟩ <;> rw [e]
          · decide
          · exact (hcore _ _ _ hc).2
      · rw [if_pos hf] at hr
        cases da
        · injection hr with hr; rw [← hr]; decide
        · cases hr
    rw [← h1, ← h2]
    exact ⟨Math.canon_closed _ b1, Math.canon_closed _ b2⟩

example : ∀ a s c, (fun _ : Nat => some (0, oneBits)) a = some (s, c) → s < two32 ∧ c < two32 := by
  intro a s c h; injection h with h; injection h with h1 h2; rw [← h1, ← h2]; decide

/-! ### exact symmetry -/

/-- `sin_cos_f32`: sin(−x) is the exact negation of sin(x), bit for bit, for EVERY pattern x and ANY
    reduction/interpolation pipeline on |x| (sign captured first, applied last). -/
theorem sin_odd_raw (core : Nat → Option (Nat × Nat)) (da : Bool) (x : Nat) (hx : x < two32)
    (hcore : ∀ a s c, core a = some (s, c) → s < two32) :
    (sinCosWith core da (negBits x)).map (·.1) =
      (sinCosWith core da x).map (fun p => canonZero (negBits p.1)) :=
  raw_sin_odd core da x hx hcore

/-- `sin_cos_f32`: cos(−x) = cos(x) bit for bit, every pattern, any pipeline. -/
theorem cos_even_raw (core : Nat → Option (Nat × Nat)) (da : Bool) (x : Nat) (hx : x < two32) :
    (sinCosWith core da (negBits x)).map (·.2) = (sinCosWith core da x).map (·.2) :=
  raw_cos_even core da x hx

/-- `F32Scalar::sin(−x) = −F32Scalar::sin(x)` (through `F32Scalar::neg`), for every x not stored as
    zero (x = ±0 / subnormal: both sides are sin(+0), see `sin_zero_exact`). -/
theorem sin_odd (core : Nat → Option (Nat × Nat)) (da : Bool) (x : Nat) (hx : x < two32)
    (hcore : ∀ a s c, core a = some (s, c) → s < two32) (hnz : canon x ≠ 0) :
    (scalarSinCosWith core da (negBits x)).map (·.1) =
      (scalarSinCosWith core da x).map (fun p => scalarNeg p.1) :=
  Math.sin_odd core da x hx hcore hnz

/-- `F32Scalar::cos(−x) = F32Scalar::cos(x)` for every pattern. -/
theorem cos_even (core : Nat → Option (Nat × Nat)) (da : Bool) (x : Nat) (hx : x < two32) :
    (scalarSinCosWith core da (negBits x)).map (·.2) = (scalarSinCosWith core da x).map (·.2) :=
  Math.cos_even core da x hx

/-- with the real pipeline and the extracted table, sin(0) = +0 and cos(0) = 1 exactly (so oddness
    also holds at the inputs stored as zero). -/
theorem sin_zero_exact (da : Bool) :
    scalarSinCosWith (trigCore da lut sinQtrSegmentsF32) da 0 = some (0, oneBits) ∧
    scalarSinCosWith (trigCore da lut sinQtrSegmentsF32) da negZero = some (0, oneBits) ∧
    scalarSinCosWith (trigCore da lut sinQtrSegmentsF32) da 1 = some (0, oneBits) := by
  cases da <;> decide +kernel

/-! ### range -/

/-- the Boolean table check, evaluated by the kernel over the table extracted from trig_lut.rs -/
theorem lut_ok : lutOk sinQtrSegments sinQtrSegmentsF32 sinQtrLutBits.toList = true := by
  decide +kernel


/-- the extracted quarter-wave table: SEGMENTS+1 entries, first 0.0, last 1.0, all within [0,1],
    non-decreasing (bit order = value order on non-negative floats). A one-entry edit of trig_lut.rs
    that breaks any of these breaks this proof. -/
theorem lut_facts :
    sinQtrLutBits.size = sinQtrSegments + 1 ∧ sinQtrSegmentsF32 = sinQtrSegments ∧
    sinQtrLutBits[0]? = some 0 ∧ sinQtrLutBits[sinQtrSegments]? = some oneBits ∧
    (∀ (i v : Nat), sinQtrLutBits[i]? = some v → v ≤ oneBits) ∧
    (∀ (i j vi vj : Nat), i ≤ j → sinQtrLutBits[i]? = some vi → sinQtrLutBits[j]? = some vj → vi ≤ vj) := by
  have h := lut_ok
  simp only [lutOk, Bool.and_eq_true, beq_iff_eq, List.all_eq_true, decide_eq_true_eq] at h
  obtain ⟨⟨⟨⟨⟨h1, h2⟩, h3⟩, h4⟩, h5⟩, h6⟩ := h
  refine ⟨by simpa using h1, h2, by decide +kernel, by decide +kernel, ?_, ?_⟩
  · intro i v hv
    apply h5
    rw [← Array.getElem?_toList] at hv
    exact List.mem_of_getElem? hv
  · intro i j vi vj hij hi hj
    rw [← Array.getElem?_toList] at hi hj
    have pw := sortedLe_pairwise _ h6
    rcases Nat.lt_or_eq_of_le hij with hlt | rfl
    · obtain ⟨hi', rfl⟩ := List.getElem?_eq_some_iff.1 hi
      obtain ⟨hj', rfl⟩ := List.getElem?_eq_some_iff.1 hj
      exact (List.pairwise_iff_getElem.1 pw) i j hi' hj' hlt
    · rw [hi] at hj; injection hj with hj; omega

/-- the table pass (`Lemmas/MathLut.lean`, `decide +kernel` over the EXTRACTED table): `i as f32` exact
    for `i < SEGMENTS`; every segment has `y0 ≤ y1` non-negative finite and `y0 + (y1 − y0) ≤ 1` EXACTLY;
    the −0 argument gives +0. -/
theorem interp_facts : InterpFacts lut sinQtrSegmentsF32 := lutInterpFacts

/-- the rounded lerp `y0 + frac·(y1 − y0)` of `sin_qtr_interp` stays in [0,1] for EVERY argument
    pattern: `frac = t − ⌊t⌋ ∈ [0,1]`, and RNE rounding never crosses a representable bound
    (`roundPos_le_of_le`), so `frac·d ≤ d` and `y0 + frac·d ≤ y0 + d ≤ 1` survive the three roundings. -/
theorem interp_unit_range (da : Bool) (a v : Nat)
    (h : sinQtrInterp da lut sinQtrSegmentsF32 a = some v) : MagLeOne v :=
  interp_range interp_facts da a v h

/-- FULL: for every pattern x and either profile, if `sin_cos_f32 x` returns then both results lie in
    [−1, 1] (real pipeline, extracted table, exact-rational RNE soft-float). -/
theorem trig_range (da : Bool) (x s c : Nat)
    (h : sinCos da lut sinQtrSegmentsF32 x = some (s, c)) : MagLeOne s ∧ MagLeOne c :=
  trig_range_of_interp da lut sinQtrSegmentsF32 (interp_unit_range da) x s c h

/-- non-vacuity: sin/cos(1.0) returns in both profiles. -/
example : (sinCos true lut sinQtrSegmentsF32 oneBits).isSome = true ∧
    (sinCos false lut sinQtrSegmentsF32 oneBits).isSome = true := by decide +kernel

/-! ### totality and the debug tripwire -/

/-- `sin_cos_f32` panics exactly when (a) the |x| pipeline panics, or (b) the angle is non-finite AND
    debug assertions are on (any pipeline). -/
theorem trig_total_modulo_core (core : Nat → Option (Nat × Nat)) (da : Bool) (x : Nat) :
    sinCosWith core da x = none ↔
      ((¬ isFiniteB x ∧ da = true) ∨ (isFiniteB x ∧ core (absBits x) = none)) := by
  unfold sinCosWith
  by_cases hf : isFiniteB x
  · rw [if_neg (by simpa using hf)]
    cases hc : core (absBits x) with
    | none => simp [hf]
    | some p => simp [hf]
  · rw [if_pos hf]
    cases da <;> simp [hf]

/-- the table index of `sin_qtr_interp` is ALWAYS in range: with the real table the interpolation
    panics only through its own `debug_assert!` (argument outside [0, π/2] and debug assertions on). -/
theorem interp_index_in_range (da : Bool) (a : Nat) :
    sinQtrInterp da lut sinQtrSegmentsF32 a = none ↔
      (da = true ∧ (fle 0 a && fle a fracPi2) = false) :=
  interp_none_iff interp_facts da a

/-- FULL for the release profile: without debug assertions `sin_cos_f32` returns for EVERY pattern
    (finite or not) — no table index out of bounds, no other panic path. -/
theorem trig_total_release (x : Nat) : sinCos false lut sinQtrSegmentsF32 x ≠ none := by
  intro h
  rcases (trig_total_modulo_core _ false x).1 h with ⟨_, h⟩ | ⟨_, h⟩
  · cases h
  · unfold trigCore at h
    generalize reduceQuadrant (absBits x) = qa at h
    simp only [] at h
    split at h
    · cases h
    · rename_i hn
      cases h1 : sinQtrInterp false lut sinQtrSegmentsF32 qa.2 with
      | none => exact absurd ((interp_index_in_range false _).1 h1).1 (by decide)
      | some s =>
        cases h2 : sinQtrInterp false lut sinQtrSegmentsF32 (fsub fracPi2 qa.2) with
        | none => exact absurd ((interp_index_in_range false _).1 h2).1 (by decide)
        | some c => exact hn s c h1 h2

/-- FULL totality of `sin_cos_f32` (real pipeline, extracted table, both profiles): it panics iff the
    angle is non-finite AND debug assertions are on. In particular the `debug_assert!` inside
    `sin_qtr_interp` is dead code on every input (range reduction: `|x| % TAU ≤ pred TAU`, each
    quadrant offset and `π/2 − a` stay in [0, π/2] after rounding), and the table index is in range. -/
theorem trig_total (da : Bool) (x : Nat) (hx : x < two32) :
    sinCos da lut sinQtrSegmentsF32 x = none ↔ (¬ isFiniteB x ∧ da = true) :=
  sinCos_none_iff interp_facts da hx

/-- the same through `F32Scalar::sin_cos` (argument canonicalised first). -/
theorem scalar_trig_total (da : Bool) (x : Nat) (hx : x < two32) :
    scalarSinCosWith (trigCore da lut sinQtrSegmentsF32) da x = none ↔
      (¬ isFiniteB (canon x) ∧ da = true) := by
  have hc : canon x < two32 := (Math.canon_closed x hx).1
  have := trig_total da (canon x) hc
  unfold sinCos at this
  unfold scalarSinCosWith
  rw [← this]
  cases sinCosWith (trigCore da lut sinQtrSegmentsF32) da (canon x) <;> simp

/-- KNOWN FINDING (negation of "regardless of build profile" on a concrete witness): for angle = +∞
    a build with debug assertions panics, a build without returns (0.0, 1.0), whatever the pipeline. -/
theorem profile_dependence_nonfinite (core : Nat → Option (Nat × Nat)) :
    sinCosWith core true 0x7f800000 = none ∧ sinCosWith core false 0x7f800000 = some (0, oneBits) := by
  constructor <;> simp [sinCosWith, isFiniteB, expField]

/-! ### Q32.32 -/

/-- every Q32.32 operation is total and lands in the i64 range (saturation, never wrap-around). -/
theorem fx_total (a b : Int) (x : Nat) :
    InI64 (fxMul a b) ∧ InI64 (fxDiv a b) ∧ InI64 (fxAdd a b) ∧ InI64 (fxSub a b) ∧
    (InI64 a → InI64 (fxNeg a)) ∧ InI64 (fxFromF32 x) :=
  ⟨fxMul_range a b, fxDiv_range a b, fxAdd_range a b, fxSub_range a b, fxNeg_range, fxFromF32_range x⟩

/-- `mul_raw`: the exact product is rounded to the NEAREST representable value, ties to EVEN; if the
    rounded value fits i64 it is returned as is. -/
theorem fx_mul_round_even (a b : Int) :
    (-2147483648 ≤ roundQ32 (a * b) * 4294967296 - a * b ∧
      roundQ32 (a * b) * 4294967296 - a * b ≤ 2147483648) ∧
    ((roundQ32 (a * b) * 4294967296 - a * b = 2147483648 ∨
      roundQ32 (a * b) * 4294967296 - a * b = -2147483648) → roundQ32 (a * b) % 2 = 0) ∧
    (InI64 (roundQ32 (a * b)) → fxMul a b = roundQ32 (a * b)) :=
  ⟨(roundQ32_nearest_even _).1, (roundQ32_nearest_even _).2, fun h => sat64_id h⟩

/-- `div_raw` by zero: 0/0 = 0, otherwise saturate by the sign of the dividend. -/
theorem fx_div_zero_policy (a : Int) :
    fxDiv a 0 = if a = 0 then 0 else if a < 0 then i64Min else i64Max :=
  Math.fx_div_zero_policy a

/-- `to_f32` of ANY i64 is a finite canonical float (never −0, subnormal, ∞ or NaN). -/
theorem fx_to_f32_canonical (raw : Int) (h : InI64 raw) :
    Canonical (fxToF32 raw) ∧ isFiniteB (fxToF32 raw) :=
  fxToF32_canonical raw h

example : InI64 (-6442450944) := by unfold InI64 i64Min i64Max; omega

/-! ### PRNG -/

/-- the xoroshiro128+ state transition is a bijection of the 128-bit state space (explicit inverse),
    so no two states merge and the all-zero sink is reachable only from itself. -/
theorem prng_step_bijective :
    (∀ p q : Prng, p.step = q.step → p = q) ∧ (∀ q : Prng, ∃ p : Prng, p.step = q) ∧
    (∀ p : Prng, p.step = ⟨0, 0⟩ ↔ p = ⟨0, 0⟩) := by
  have inj : ∀ p q : Prng, p.step = q.step → p = q := by
    intro p q h
    have := congrArg Prng.unstep h
    rwa [unstep_step, unstep_step] at this
  refine ⟨inj, fun q => ⟨q.unstep, step_unstep q⟩, fun p => ⟨fun h => inj p ⟨0, 0⟩ (h.trans (by decide)), fun h => by rw [h]; decide⟩⟩

/-- both constructors avoid the all-zero state. -/
theorem prng_seed_nonzero (a b : BitVec 64) :
    Prng.fromSeed a b ≠ ⟨0, 0⟩ ∧ Prng.fromSeedU64 a ≠ ⟨0, 0⟩ := by
  have fix : ∀ p : Prng, p.fix ≠ ⟨0, 0⟩ := by
    intro p
    unfold Prng.fix
    by_cases h : p.s0 = 0 ∧ p.s1 = 0
    · rw [if_pos h]; intro k; injection k with k1 _; revert k1; unfold golden; decide
    · rw [if_neg h]; intro k; apply h; rw [k]; exact ⟨rfl, rfl⟩
  exact ⟨fix _, fix _⟩

/-! ### square root, vectors, quaternions (compositions of the modelled IEEE ops) -/

theorem roundDyadic_false_le (m : Nat) (e : Int) : roundDyadic false m e ≤ 0x7f800000 := by
  unfold roundDyadic signed
  simp only [Bool.false_eq_true, if_false]
  by_cases h : 0 ≤ e
  · rw [if_pos h]; exact roundPos_le _ _
  · rw [if_neg h]; exact roundPos_le _ _

/-- `det_sqrt_f32` is total and returns a non-negative, non-NaN pattern (0.0 for every non-finite or
    non-positive input), so `Vec3::length` is never NaN or negative. -/
theorem det_sqrt_range (b : Nat) : detSqrt b ≤ 0x7f800000 := by
  unfold detSqrt
  split
  · rename_i m e _
    by_cases h : m = 0
    · rw [if_pos h]; omega
    · rw [if_neg h]
      unfold sqrtPos
      exact roundDyadic_false_le _ _
  · omega

/-- FIXED defect (`fix: from_axis_angle returns identity when |axis|² is not finite`): whenever the
    squared axis length is not finite (overflow of a finite axis, or NaN/∞ components) the result is
    the identity in BOTH profiles, for any angle and any trig backend — no `1/det_sqrt(inf) = 1/0`
    NaN quaternion, no `Quat::new` debug panic. -/
theorem axis_angle_overflow_identity (da : Bool) (trig : Nat → Option (Nat × Nat)) (axis : V3) (angle : Nat)
    (h : ¬ isFiniteB (axis.dot axis)) : Q4.fromAxisAngle da trig axis angle = some Q4.identity := by
  unfold Q4.fromAxisAngle
  simp [finiteB, h]

/-- non-vacuity, and the former failing input (axis (2^65,0,0), angle 1): `|axis|²` overflows. -/
example : ¬ isFiniteB ((⟨0x60000000, 0, 0⟩ : V3).dot ⟨0x60000000, 0, 0⟩) := by decide +kernel

/-- KNOWN FINDING witness (model level): the Hamilton product of (1e38 i)·(1e38 i) panics under debug
    assertions (`Quat::new` debug_assert) and has an infinite component without them. -/
theorem quat_mul_overflow_witness :
    Q4.mul true ⟨0x7e967699, 0, 0, 0⟩ ⟨0x7e967699, 0, 0, 0⟩ = none ∧
    (∃ q, Q4.mul false ⟨0x7e967699, 0, 0, 0⟩ ⟨0x7e967699, 0, 0, 0⟩ = some q ∧ ¬ isFiniteB q.w) := by
  refine ⟨by decide +kernel, ?_⟩
  cases h : Q4.mul false ⟨0x7e967699, 0, 0, 0⟩ ⟨0x7e967699, 0, 0, 0⟩ with
  | none => exact absurd h (by decide +kernel)
  | some q => exact ⟨q, rfl, by
      have : (Q4.mul false ⟨0x7e967699, 0, 0, 0⟩ ⟨0x7e967699, 0, 0, 0⟩).map
          (fun q => decide (isFiniteB q.w)) = some false := by decide +kernel
      rw [h] at this; simpa using this⟩

/-! ### the rest of the public API: ordering and clamp -/

/-- `F32Scalar`'s `Eq`/`Ord` (total_cmp on the stored value): `cmp = Equal` iff the stored bit patterns
    are identical (so `==` is bitwise on canonical values, NaN == NaN included), and the order is
    antisymmetric. -/
theorem scalar_cmp_eq_iff_bits (a b : Nat) (ha : a < two32) (hb : b < two32) :
    (scalarCmp a b = 0 ↔ a = b) ∧ (scalarCmp a b = -1 ↔ scalarCmp b a = 1) := by
  have inj : totalKey a = totalKey b ↔ a = b := by
    unfold totalKey two32 at *
    by_cases h1 : 2147483648 ≤ a <;> by_cases h2 : 2147483648 ≤ b <;>
      simp only [h1, h2, if_true, if_false] <;> omega
  rw [← inj]
  unfold scalarCmp
  generalize totalKey a = ka
  generalize totalKey b = kb
  constructor <;> (repeat' split) <;> omega

/-- on canonical non-NaN values (no −0 is ever stored) the total order IS the numeric order. -/
theorem scalar_cmp_numeric (a b : Nat) (ha : Canonical a) (hb : Canonical b) (na : ¬ isNaN a) (nb : ¬ isNaN b) :
    (scalarCmp a b = -1 ↔ flt a b = true) := by
  unfold flt
  rw [if_neg (by intro h; rcases h with h | h; exact na h; exact nb h)]
  unfold Canonical negZero two32 at *
  unfold scalarCmp totalKey ordKey
  by_cases h1 : 2147483648 ≤ a <;> by_cases h2 : 2147483648 ≤ b <;>
    simp only [h1, h2, if_true, if_false, decide_eq_true_eq] <;> split <;> (try split) <;> omega

/-- `clamp` panics exactly when `min <= max` is false (NaN bounds included) — an `assert!`, so in every
    profile — and otherwise returns a value inside `[min, max]` for every non-NaN input. -/
theorem clamp_total_in_range (v lo hi : Nat) :
    (clampF v lo hi = none ↔ fle lo hi = false) ∧
    (∀ r, clampF v lo hi = some r → ¬ isNaN v → fle lo r = true ∧ fle r hi = true) := by
  have fltE : ∀ x y, ¬ isNaN x → ¬ isNaN y → flt x y = decide (ordKey x < ordKey y) := by
    intro x y nx ny; unfold flt
    rw [if_neg (by intro h; rcases h with h | h; exact nx h; exact ny h)]
  have fleE : ∀ x y, ¬ isNaN x → ¬ isNaN y → fle x y = decide (ordKey x ≤ ordKey y) := by
    intro x y nx ny; unfold fle
    rw [if_neg (by intro h; rcases h with h | h; exact nx h; exact ny h)]
  unfold clampF
  cases hle : fle lo hi
  · simp
  · simp only [Bool.not_true, Bool.false_eq_true, if_false]
    refine ⟨by simp, ?_⟩
    intro r hr nv
    have hr := Option.some.inj hr
    have hnn : ¬ (isNaN lo ∨ isNaN hi) := by
      intro h; unfold fle at hle; rw [if_pos h] at hle; cases hle
    have nlo : ¬ isNaN lo := fun h => hnn (Or.inl h)
    have nhi : ¬ isNaN hi := fun h => hnn (Or.inr h)
    have hk : ordKey lo ≤ ordKey hi := by
      rw [fleE lo hi nlo nhi] at hle; simpa using hle
    rw [fltE v lo nv nlo, fltE hi v nhi nv] at hr
    by_cases c1 : ordKey v < ordKey lo
    · rw [decide_eq_true c1] at hr; simp only [if_true] at hr; subst hr
      rw [fleE lo lo nlo nlo, fleE lo hi nlo nhi]
      simp [hk]
    · rw [decide_eq_false c1] at hr; simp only [Bool.false_eq_true, if_false] at hr
      by_cases c2 : ordKey hi < ordKey v
      · rw [decide_eq_true c2] at hr; simp only [if_true] at hr; subst hr
        rw [fleE lo hi nlo nhi, fleE hi hi nhi nhi]
        simp [hk]
      · rw [decide_eq_false c2] at hr; simp only [Bool.false_eq_true, if_false] at hr; subst hr
        rw [fleE lo v nlo nv, fleE v hi nv nhi]
        simp only [decide_eq_true_eq]
        omega

example : clampF 0x40000000 0 oneBits = some oneBits := by decide +kernel

end EchoVerif.C19
