/-
  C19 — deterministic math is bit-stable and canonical (PARTIAL by design: that rustc/LLVM emit
  IEEE-754 round-to-nearest-even for `+ - * / %` under every profile is a fact about code
  generation; the model carries the logic and is compared bit for bit with the real code).
  Model: EchoVerif/Model/Math.lean.  Tables: Generated/TrigLut.lean (trig_lut.rs),
  Generated/ScalarOps.lean (shape of every F32Scalar operator/constructor body in scalar.rs).
-/
import EchoVerif.Lemmas.Math
import EchoVerif.Generated.TrigLut
import EchoVerif.Generated.ScalarOps
set_option linter.unusedSimpArgs false

namespace EchoVerif.C19
open EchoVerif.Math EchoVerif.Generated

/-- the table lookup the driver runs the trig model with -/
def lut (i : Nat) : Option Nat := sinQtrLutBits[i]?

/-! ### canonical form -/

/-- `F32Scalar::new` over ALL 2^32 bit patterns: the stored value is never −0, never subnormal,
    never a NaN other than 0x7fc00000; and `new` is idempotent. -/
theorem canon_closed (b : Nat) (hb : b < two32) :
    Canonical (canon b) ∧ canon (canon b) = canon b :=
  ⟨Math.canon_closed b hb, Math.canon_idempotent b hb⟩

/-- canonical values are stored unchanged (`new` loses nothing but the three forbidden classes). -/
theorem canon_fixes_canonical (b : Nat) (h : Canonical b) : canon b = b :=
  Math.canon_fixes_canonical b h

/-- what exactly is lost: NaN payload/sign, subnormal magnitude, the sign of zero. -/
theorem canon_changes_only_forbidden (b : Nat) (h : canon b ≠ b) :
    isNaN b ∨ isSubnormal b ∨ b = negZero := by
  rcases canon_cases b with ⟨h1, _⟩ | ⟨_, h2, _⟩ | ⟨_, _, h3, _⟩ | ⟨_, _, _, e⟩
  · exact Or.inl h1
  · exact Or.inr (Or.inl h2)
  · exact Or.inr (Or.inr h3)
  · exact absurd e h

/-- every operator impl of `F32Scalar` is `Self::new(raw f32 op)` (table EXTRACTED from scalar.rs;
    extraction fails if any body has another shape, if the field becomes public or a struct literal
    appears outside `new`), hence every operator result is canonical whatever the raw IEEE op returns. -/
theorem scalar_ops_closed :
    f32ScalarAllViaNew = true ∧
    f32ScalarOps = [("add", .add), ("sub", .sub), ("mul", .mul), ("div", .div), ("neg", .neg)] ∧
    ∀ p ∈ f32ScalarOps, ∀ a b, a < two32 → Canonical (scalarOp p.2 a b) := by
  refine ⟨by decide, by decide, ?_⟩
  intro p _ a b ha
  exact Math.canon_closed _ (rawOp_lt p.2 ha)

/-- sin/cos results of `F32Scalar` are canonical for ANY |x| pipeline producing 32-bit patterns. -/
theorem trig_outputs_canonical (core : Nat → Option (Nat × Nat)) (da : Bool) (x s c : Nat)
    (hcore : ∀ a s c, core a = some (s, c) → s < two32 ∧ c < two32)
    (h : scalarSinCosWith core da x = some (s, c)) : Canonical s ∧ Canonical c := by
  unfold scalarSinCosWith at h
  cases hr : sinCosWith core da (canon x) with
  | none => rw [hr] at h; cases h
  | some p =>
    rw [hr] at h
    injection h with h
    injection h with h1 h2
    have b1 : p.1 < two32 := sinCosWith_fst_lt (fun a s c k => (hcore a s c k).1) hr
    have b2 : p.2 < two32 := by
      unfold sinCosWith at hr
      by_cases hf : isFiniteB (canon x)
      · rw [if_neg (by simpa using hf)] at hr
        cases hc : core (absBits (canon x)) with
        | none => rw [hc] at hr; cases hr
        | some q =>
          obtain ⟨s0, c0⟩ := q
          rw [hc] at hr
          injection hr with hr
          rw [← hr]
          show canonZero c0 < two32
          rcases canonZero_eq c0 with ⟨_, e⟩ | ⟨_, _, e⟩ <;> rw [e]
          · decide
          · exact (hcore _ _ _ hc).2
      · rw [if_pos hf] at hr
        cases da
        · injection hr with hr; rw [← hr]; decide
        · cases hr
    rw [← h1, ← h2]
    exact ⟨Math.canon_closed _ b1, Math.canon_closed _ b2⟩

example : ∀ a s c, (fun _ : Nat => some (0, oneBits)) a = some (s, c) → s < two32 ∧ c < two32 := by
  intro a s c h; injection h with h; injection h with h1 h2; rw [← h1, ← h2]; decide

/-! ### exact symmetry -/

/-- `sin_cos_f32`: sin(−x) is the exact negation of sin(x), bit for bit, for EVERY pattern x and ANY
    reduction/interpolation pipeline on |x| (sign captured first, applied last). -/
theorem sin_odd_raw (core : Nat → Option (Nat × Nat)) (da : Bool) (x : Nat) (hx : x < two32)
    (hcore : ∀ a s c, core a = some (s, c) → s < two32) :
    (sinCosWith core da (negBits x)).map (·.1) =
      (sinCosWith core da x).map (fun p => canonZero (negBits p.1)) :=
  raw_sin_odd core da x hx hcore

/-- `sin_cos_f32`: cos(−x) = cos(x) bit for bit, every pattern, any pipeline. -/
theorem cos_even_raw (core : Nat → Option (Nat × Nat)) (da : Bool) (x : Nat) (hx : x < two32) :
    (sinCosWith core da (negBits x)).map (·.2) = (sinCosWith core da x).map (·.2) :=
  raw_cos_even core da x hx

/-- `F32Scalar::sin(−x) = −F32Scalar::sin(x)` (through `F32Scalar::neg`), for every x not stored as
    zero (x = ±0 / subnormal: both sides are sin(+0), see `sin_zero_exact`). -/
theorem sin_odd (core : Nat → Option (Nat × Nat)) (da : Bool) (x : Nat) (hx : x < two32)
    (hcore : ∀ a s c, core a = some (s, c) → s < two32) (hnz : canon x ≠ 0) :
    (scalarSinCosWith core da (negBits x)).map (·.1) =
      (scalarSinCosWith core da x).map (fun p => scalarNeg p.1) :=
  Math.sin_odd core da x hx hcore hnz

/-- `F32Scalar::cos(−x) = F32Scalar::cos(x)` for every pattern. -/
theorem cos_even (core : Nat → Option (Nat × Nat)) (da : Bool) (x : Nat) (hx : x < two32) :
    (scalarSinCosWith core da (negBits x)).map (·.2) = (scalarSinCosWith core da x).map (·.2) :=
  Math.cos_even core da x hx

/-- with the real pipeline and the extracted table, sin(0) = +0 and cos(0) = 1 exactly (so oddness
    also holds at the inputs stored as zero). -/
theorem sin_zero_exact (da : Bool) :
    scalarSinCosWith (trigCore da lut sinQtrSegmentsF32) da 0 = some (0, oneBits) ∧
    scalarSinCosWith (trigCore da lut sinQtrSegmentsF32) da negZero = some (0, oneBits) ∧
    scalarSinCosWith (trigCore da lut sinQtrSegmentsF32) da 1 = some (0, oneBits) := by
  cases da <;> decide +kernel

/-! ### range -/

/-- the Boolean table check, evaluated by the kernel over the table extracted from trig_lut.rs -/
theorem lut_ok : lutOk sinQtrSegments sinQtrSegmentsF32 sinQtrLutBits.toList = true := by
  decide +kernel


/-- the extracted quarter-wave table: SEGMENTS+1 entries, first 0.0, last 1.0, all within [0,1],
    non-decreasing (bit order = value order on non-negative floats). A one-entry edit of trig_lut.rs
    that breaks any of these breaks this proof. -/
theorem lut_facts :
    sinQtrLutBits.size = sinQtrSegments + 1 ∧ sinQtrSegmentsF32 = sinQtrSegments ∧
    sinQtrLutBits[0]? = some 0 ∧ sinQtrLutBits[sinQtrSegments]? = some oneBits ∧
    (∀ (i v : Nat), sinQtrLutBits[i]? = some v → v ≤ oneBits) ∧
    (∀ (i j vi vj : Nat), i ≤ j → sinQtrLutBits[i]? = some vi → sinQtrLutBits[j]? = some vj → vi ≤ vj) := by
  have h := lut_ok
  simp only [lutOk, Bool.and_eq_true, beq_iff_eq, List.all_eq_true, decide_eq_true_eq] at h
  obtain ⟨⟨⟨⟨⟨h1, h2⟩, h3⟩, h4⟩, h5⟩, h6⟩ := h
  refine ⟨by simpa using h1, h2, by decide +kernel, by decide +kernel, ?_, ?_⟩
  · intro i v hv
    apply h5
    rw [← Array.getElem?_toList] at hv
    exact List.mem_of_getElem? hv
  · intro i j vi vj hij hi hj
    rw [← Array.getElem?_toList] at hi hj
    have pw := sortedLe_pairwise _ h6
    rcases Nat.lt_or_eq_of_le hij with hlt | rfl
    · obtain ⟨hi', rfl⟩ := List.getElem?_eq_some_iff.1 hi
      obtain ⟨hj', rfl⟩ := List.getElem?_eq_some_iff.1 hj
      exact (List.pairwise_iff_getElem.1 pw) i j hi' hj' hlt
    · rw [hi] at hj; injection hj with hj; omega

/-- PARTIAL. Full statement: for every x, `sin_cos_f32 x` lies in [−1,1]². Proved: quadrant
    reconstruction, sign application and zero canonicalisation preserve |·| ≤ 1, so the claim follows
    from `hinterp` (the rounded lerp `y0 + frac·(y1−y0)` stays in [0,1]); `hinterp` needs monotonicity
    of the RNE rounding and is left to the differential run + direct oracle. -/
theorem trig_range_partial (da : Bool) (lt : Nat → Option Nat) (segs : Nat)
    (hinterp : ∀ a v, sinQtrInterp da lt segs a = some v → MagLeOne v)
    (x s c : Nat) (h : sinCos da lt segs x = some (s, c)) : MagLeOne s ∧ MagLeOne c :=
  trig_range_of_interp da lt segs hinterp x s c h

/-- `hinterp` is satisfiable (a table with no entries: only the 0.0 / 1.0 / panic arms remain). -/
example : ∀ a v, sinQtrInterp false (fun _ => none) 1024 a = some v → MagLeOne v := by
  intro a v h
  unfold sinQtrInterp at h
  split at h
  · simp at h; rw [← h]; decide
  · simp only [] at h
    split at h
    · injection h with h; rw [← h]; decide
    · cases h

/-! ### totality and the debug tripwire -/

/-- `sin_cos_f32` panics exactly when (a) the |x| pipeline panics, or (b) the angle is non-finite AND
    debug assertions are on. -/
theorem trig_total_modulo_core (core : Nat → Option (Nat × Nat)) (da : Bool) (x : Nat) :
    sinCosWith core da x = none ↔
      ((¬ isFiniteB x ∧ da = true) ∨ (isFiniteB x ∧ core (absBits x) = none)) := by
  unfold sinCosWith
  by_cases hf : isFiniteB x
  · rw [if_neg (by simpa using hf)]
    cases hc : core (absBits x) with
    | none => simp [hf]
    | some p => simp [hf]
  · rw [if_pos hf]
    cases da <;> simp [hf]

/-- KNOWN FINDING (negation of "regardless of build profile" on a concrete witness): for angle = +∞
    a build with debug assertions panics, a build without returns (0.0, 1.0), whatever the pipeline. -/
theorem profile_dependence_nonfinite (core : Nat → Option (Nat × Nat)) :
    sinCosWith core true 0x7f800000 = none ∧ sinCosWith core false 0x7f800000 = some (0, oneBits) := by
  constructor <;> simp [sinCosWith, isFiniteB, expField]

/-! ### Q32.32 -/

/-- every Q32.32 operation is total and lands in the i64 range (saturation, never wrap-around). -/
theorem fx_total (a b : Int) (x : Nat) :
    InI64 (fxMul a b) ∧ InI64 (fxDiv a b) ∧ InI64 (fxAdd a b) ∧ InI64 (fxSub a b) ∧
    (InI64 a → InI64 (fxNeg a)) ∧ InI64 (fxFromF32 x) :=
  ⟨fxMul_range a b, fxDiv_range a b, fxAdd_range a b, fxSub_range a b, fxNeg_range, fxFromF32_range x⟩

/-- `mul_raw`: the exact product is rounded to the NEAREST representable value, ties to EVEN; if the
    rounded value fits i64 it is returned as is. -/
theorem fx_mul_round_even (a b : Int) :
    (-2147483648 ≤ roundQ32 (a * b) * 4294967296 - a * b ∧
      roundQ32 (a * b) * 4294967296 - a * b ≤ 2147483648) ∧
    ((roundQ32 (a * b) * 4294967296 - a * b = 2147483648 ∨
      roundQ32 (a * b) * 4294967296 - a * b = -2147483648) → roundQ32 (a * b) % 2 = 0) ∧
    (InI64 (roundQ32 (a * b)) → fxMul a b = roundQ32 (a * b)) :=
  ⟨(roundQ32_nearest_even _).1, (roundQ32_nearest_even _).2, fun h => sat64_id h⟩

/-- `div_raw` by zero: 0/0 = 0, otherwise saturate by the sign of the dividend. -/
theorem fx_div_zero_policy (a : Int) :
    fxDiv a 0 = if a = 0 then 0 else if a < 0 then i64Min else i64Max :=
  Math.fx_div_zero_policy a

/-- `to_f32` of ANY i64 is a finite canonical float (never −0, subnormal, ∞ or NaN). -/
theorem fx_to_f32_canonical (raw : Int) (h : InI64 raw) :
    Canonical (fxToF32 raw) ∧ isFiniteB (fxToF32 raw) :=
  fxToF32_canonical raw h

example : InI64 (-6442450944) := by unfold InI64 i64Min i64Max; omega

/-! ### PRNG -/

/-- the xoroshiro128+ state transition is a bijection of the 128-bit state space (explicit inverse),
    so no two states merge and the all-zero sink is reachable only from itself. -/
theorem prng_step_bijective :
    (∀ p q : Prng, p.step = q.step → p = q) ∧ (∀ q : Prng, ∃ p : Prng, p.step = q) ∧
    (∀ p : Prng, p.step = ⟨0, 0⟩ ↔ p = ⟨0, 0⟩) := by
  have inj : ∀ p q : Prng, p.step = q.step → p = q := by
    intro p q h
    have := congrArg Prng.unstep h
    rwa [unstep_step, unstep_step] at this
  refine ⟨inj, fun q => ⟨q.unstep, step_unstep q⟩, fun p => ⟨fun h => inj p ⟨0, 0⟩ (h.trans (by decide)), fun h => by rw [h]; decide⟩⟩

/-- both constructors avoid the all-zero state. -/
theorem prng_seed_nonzero (a b : BitVec 64) :
    Prng.fromSeed a b ≠ ⟨0, 0⟩ ∧ Prng.fromSeedU64 a ≠ ⟨0, 0⟩ := by
  have fix : ∀ p : Prng, p.fix ≠ ⟨0, 0⟩ := by
    intro p
    unfold Prng.fix
    by_cases h : p.s0 = 0 ∧ p.s1 = 0
    · rw [if_pos h]; intro k; injection k with k1 _; revert k1; unfold golden; decide
    · rw [if_neg h]; intro k; apply h; rw [k]; exact ⟨rfl, rfl⟩
  exact ⟨fix _, fix _⟩

/-! ### square root, vectors, quaternions (compositions of the modelled IEEE ops) -/

theorem roundDyadic_false_le (m : Nat) (e : Int) : roundDyadic false m e ≤ 0x7f800000 := by
  unfold roundDyadic signed
  simp only [Bool.false_eq_true, if_false]
  by_cases h : 0 ≤ e
  · rw [if_pos h]; exact roundPos_le _ _
  · rw [if_neg h]; exact roundPos_le _ _

/-- `det_sqrt_f32` is total and returns a non-negative, non-NaN pattern (0.0 for every non-finite or
    non-positive input), so `Vec3::length` is never NaN or negative. -/
theorem det_sqrt_range (b : Nat) : detSqrt b ≤ 0x7f800000 := by
  unfold detSqrt
  split
  · rename_i m e _
    by_cases h : m = 0
    · rw [if_pos h]; omega
    · rw [if_neg h]
      unfold sqrtPos
      exact roundDyadic_false_le _ _
  · omega

/-- KNOWN FINDING witnesses (model level, real pipeline + extracted table): a finite axis whose
    squared length overflows makes `from_axis_angle` panic under debug assertions and return a
    quaternion with a NaN component without them; the Hamilton product of (1e38 i)·(1e38 i)
    panics under debug assertions and has an infinite component without them. -/
theorem axis_angle_overflow_witness :
    Q4.fromAxisAngle true (sinCos true lut sinQtrSegmentsF32) ⟨0x60000000, 0, 0⟩ oneBits = none ∧
    (∃ q, Q4.fromAxisAngle false (sinCos false lut sinQtrSegmentsF32) ⟨0x60000000, 0, 0⟩ oneBits = some q ∧
      isNaN q.y) ∧
    Q4.mul true ⟨0x7e967699, 0, 0, 0⟩ ⟨0x7e967699, 0, 0, 0⟩ = none ∧
    (∃ q, Q4.mul false ⟨0x7e967699, 0, 0, 0⟩ ⟨0x7e967699, 0, 0, 0⟩ = some q ∧ ¬ isFiniteB q.w) := by
  refine ⟨by decide +kernel, ?_, by decide +kernel, ?_⟩
  · cases h : Q4.fromAxisAngle false (sinCos false lut sinQtrSegmentsF32) ⟨0x60000000, 0, 0⟩ oneBits with
    | none => exact absurd h (by decide +kernel)
    | some q => exact ⟨q, rfl, by
        have : (Q4.fromAxisAngle false (sinCos false lut sinQtrSegmentsF32) ⟨0x60000000, 0, 0⟩ oneBits).map
            (fun q => decide (isNaN q.y)) = some true := by decide +kernel
        rw [h] at this; simpa using this⟩
  · cases h : Q4.mul false ⟨0x7e967699, 0, 0, 0⟩ ⟨0x7e967699, 0, 0, 0⟩ with
    | none => exact absurd h (by decide +kernel)
    | some q => exact ⟨q, rfl, by
        have : (Q4.mul false ⟨0x7e967699, 0, 0, 0⟩ ⟨0x7e967699, 0, 0, 0⟩).map
            (fun q => decide (isFiniteB q.w)) = some false := by decide +kernel
        rw [h] at this; simpa using this⟩

end EchoVerif.C19
