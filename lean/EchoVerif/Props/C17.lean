/-
  C17 — external actions move once through request, claim and settlement — durably.
  PROPERTY THEOREMS ONLY (helpers are in Lemmas/ExtAct.lean, Lemmas/ExtActMerkle.lean).
  Model: Model/ExtAct.lean (`step` over request/claim/settle/retry/read/recover/trunc/fault ops).
  Every theorem about histories quantifies over ALL operation sequences from the empty store.
-/
import EchoVerif.Lemmas.ExtAct
import EchoVerif.Lemmas.ExtActCrash
import EchoVerif.Lemmas.ExtActIndex
import EchoVerif.Lemmas.ExtActWal
import EchoVerif.Props.C10

namespace EchoVerif.C17
open EchoVerif EchoVerif.ExtAct

/-- the system after an arbitrary operation history from the empty store -/
abbrev after (ops : List Op) : Sys := (run genesis ops).1
/-- the (operation, output) trace of that history -/
abbrev trace (ops : List Op) : List (Op × Out) := (run genesis ops).2

theorem good_after (ops : List Op) : Good (after ops) := run_good ops genesis good_genesis

/-- **lifecycle_prefix.** After any history (valid and invalid arguments, store faults, stops and
    recoveries anywhere), the committed transactions of every request id — in log order — are a
    prefix of requested, claimed, settled: no step is skipped, reordered or repeated. -/
theorem lifecycle_prefix (ops : List Op) (rid : Nat) :
    kindsFor rid (after ops).store.commits <+: [Kind.request, Kind.claim, Kind.settlement] := by
  obtain ⟨i, hi⟩ := (good_after ops).1
  obtain ⟨hw, hs⟩ := observeFrom_spec _ _ _ hi wfi_empty
  have := stages_prefix hw rid
  rw [hs rid] at this
  simpa [stages, get_empty] using this

/-- **lifecycle_index_agrees.** A ready coordinator's index entry of every request id stands for
    exactly the lifecycle recorded in the durable log. -/
theorem lifecycle_index_agrees (ops : List Op) (rid : Nat) (hr : (after ops).coord.ready = true) :
    stages ((after ops).coord.index.get rid) = kindsFor rid (after ops).store.commits := by
  obtain ⟨_, ho, _, _⟩ := (good_after ops).2 hr
  obtain ⟨_, hs⟩ := observeFrom_spec _ _ _ ho wfi_empty
  simpa [stages, get_empty] using hs rid

/-- **single_claim.** Over the whole history at most one claim grant is freshly issued per request
    id (re-issues by `claim_grant` after recovery are reads of that one durable claim). -/
theorem single_claim (ops : List Op) (rid : Nat) :
    ((trace ops).filter (isFreshClaim rid)).length ≤ 1 := by
  have h := run_claimTxs rid ops genesis
  have h1 : claimTxs rid genesis.store.commits = 0 := rfl
  have h2 := claimTxs_le_one (lifecycle_prefix ops rid)
  simp only [claimTxs] at h h1 h2
  simp only [trace, after] at *
  omega

/-- **grant_after_commit.** Each of the three transitions returns its grant only in the branch in
    which the transaction carrying exactly that step was appended and committed to the store,
    and the grant's commit digest is that transaction's. -/
theorem grant_after_commit (s s' : Sys) :
    (∀ r r' c, recordRequest s r = (s', .recorded r' c) →
        ∃ b a, s'.store.commits = s.store.commits ++ [⟨c, .request r', b, a⟩] ∧
          c = s.store.commits.length ∧ r' = r) ∧
    (∀ tok a b o l r' cl c, claimAction s tok a b o l = (s', .grant r' cl c) →
        ∃ b' a', s'.store.commits = s.store.commits ++ [⟨c, .claim cl, b', a'⟩] ∧
          c = s.store.commits.length ∧ r' = tok ∧ cl.rid = tok.rid) ∧
    (∀ gr gc gcm k st c, admitSettlement s gr gc gcm k = (s', .admitted st c) →
        ∃ b a, s'.store.commits = s.store.commits ++ [⟨c, .settlement st, b, a⟩] ∧
          c = s.store.commits.length ∧ st = Settlement.ofCandidate k) := by
  refine ⟨?_, ?_, ?_⟩
  · intro r r' c h
    rcases recordRequest_shape s r with ⟨err, he⟩ | ⟨_, _, _, he⟩
    · rw [he] at h; cases h
    · rw [he] at h
      rcases commitStep_out s (.request r) (entry0 r) (fun c => { entry0 r with reqCommit := c })
        (fun c => .recorded r c) with ⟨h1, h2, _⟩ | ⟨h1, _⟩
      · rw [h] at h1 h2
        simp only at h1 h2
        cases h1
        exact ⟨_, _, h2, rfl, rfl⟩
      · rw [h] at h1; cases h1
  · intro tok a b o l r' cl c h
    rcases claimAction_shape s tok a b o l with ⟨err, he⟩ | ⟨rec, _, _, _, _, _, _, _, _, _, _, _, _, _, he⟩
    · rw [he] at h; cases h
    · rw [he] at h
      rcases commitStep_out s (.claim (Claim.forRequest tok a.adapter o l a.policy))
        { rec with claim := some (Claim.forRequest tok a.adapter o l a.policy), claimCommit := none,
                   posture := .claimed }
        (fun c => { rec with claim := some (Claim.forRequest tok a.adapter o l a.policy),
                             claimCommit := some c, posture := .claimed })
        (fun c => .grant tok (Claim.forRequest tok a.adapter o l a.policy) c) with ⟨h1, h2, _⟩ | ⟨h1, _⟩
      · rw [h] at h1 h2
        simp only at h1 h2
        cases h1
        exact ⟨_, _, h2, rfl, rfl, rfl⟩
      · rw [h] at h1; cases h1
  · intro gr gc gcm k st c h
    rcases admitSettlement_shape s gr gc gcm k with ⟨err, he⟩ | ⟨rec, _, _, _, _, _, _, _, he⟩
    · rw [he] at h; cases h
    · rw [he] at h
      rcases commitStep_out s (.settlement (Settlement.ofCandidate k))
        { rec with posture := .settled k.kind, settlement := some (Settlement.ofCandidate k),
                   setCommit := none }
        (fun c => { rec with posture := .settled k.kind,
                             settlement := some (Settlement.ofCandidate k), setCommit := some c })
        (fun c => .admitted (Settlement.ofCandidate k) c) with ⟨h1, h2, _⟩ | ⟨h1, _⟩
      · rw [h] at h1 h2
        simp only at h1 h2
        cases h1
        exact ⟨_, _, h2, rfl, rfl⟩
      · rw [h] at h1; cases h1

/-- the lifecycle step an answer carries, with the commit it names -/
def answered : Out → Option (Nat × TxBody)
  | .recorded r c => some (c, .request r)
  | .grant _ cl c => some (c, .claim cl)
  | .admitted st c => some (c, .settlement st)
  | _ => none

def isTransition : Op → Bool
  | .request _ => true
  | .claim _ _ _ _ _ => true
  | .settle _ _ _ _ => true
  | _ => false

theorem prefix_getElem? {α : Type} {l1 l2 : List α} (h : l1 <+: l2) {i : Nat} {x : α}
    (hx : l1[i]? = some x) : l2[i]? = some x := by
  obtain ⟨t, rfl⟩ := h
  have hi : i < l1.length := by
    cases Nat.lt_or_ge i l1.length with
    | inl h => exact h
    | inr h => rw [List.getElem?_eq_none h] at hx; cases hx
  rw [List.getElem?_append_left hi]
  exact hx

/-- **grant_names_logged_step.** What the commit value in a grant MEANS, over whole histories: when
    any of the three transitions answers with its grant, the commit it names is the position of a
    transaction that is in the store at that moment, carries exactly that step (same request /
    claim / settlement), and stays at that position in every later store of the run — whatever
    happens afterwards (faults, stops, recoveries, truncations). In particular commit values in one
    store are pairwise different, so a grant identifies one log transaction. -/
theorem grant_names_logged_step (ops : List Op) :
    ∀ p ∈ trace ops, isTransition p.1 = true → ∀ c body, answered p.2 = some (c, body) →
      ∃ tx, (after ops).store.commits[c]? = some tx ∧ tx.commit = c ∧ tx.body = body := by
  have stepf : ∀ (s : Sys) (op : Op), isTransition op = true → ∀ c body,
      answered (step s op).2 = some (c, body) →
      ∃ tx, (step s op).1.store.commits[c]? = some tx ∧ tx.commit = c ∧ tx.body = body := by
    intro s op ht c body ha
    have hga := grant_after_commit s (step s op).1
    cases op with
    | request r =>
      cases hout : (recordRequest s r).2 with
      | recorded r' c' =>
        have heq : recordRequest s r = ((step s (.request r)).1, .recorded r' c') := by
          rw [← hout]; rfl
        obtain ⟨tb, ta, hc, hlen, _⟩ := hga.1 r r' c' heq
        have : answered (step s (.request r)).2 = some (c', .request r') := by
          show answered (recordRequest s r).2 = _
          rw [hout]; rfl
        rw [this] at ha
        cases ha
        refine ⟨⟨c, _, tb, ta⟩, ?_, rfl, rfl⟩
        rw [hc, hlen]
        simp
      | grant _ _ _ =>
        rcases recordRequest_shape s r with ⟨err, he⟩ | ⟨_, _, _, he⟩
        · rw [he] at hout; cases hout
        · rw [he] at hout
          rcases commitStep_out s (.request r) (entry0 r) (fun c => { entry0 r with reqCommit := c })
            (fun c => .recorded r c) with ⟨h1, _⟩ | ⟨h1, _⟩ <;> (rw [hout] at h1; cases h1)
      | admitted _ _ =>
        rcases recordRequest_shape s r with ⟨err, he⟩ | ⟨_, _, _, he⟩
        · rw [he] at hout; cases hout
        · rw [he] at hout
          rcases commitStep_out s (.request r) (entry0 r) (fun c => { entry0 r with reqCommit := c })
            (fun c => .recorded r c) with ⟨h1, _⟩ | ⟨h1, _⟩ <;> (rw [hout] at h1; cases h1)
      | err e =>
        have : answered (step s (.request r)).2 = none := by
          show answered (recordRequest s r).2 = _
          rw [hout]; rfl
        rw [this] at ha; cases ha
      | done =>
        have : answered (step s (.request r)).2 = none := by
          show answered (recordRequest s r).2 = _
          rw [hout]; rfl
        rw [this] at ha; cases ha
    | claim tok a b o l =>
      cases hout : (claimAction s tok a b o l).2 with
      | grant r' cl c' =>
        have heq : claimAction s tok a b o l = ((step s (.claim tok a b o l)).1, .grant r' cl c') := by
          rw [← hout]; rfl
        obtain ⟨tb, ta, hc, hlen, _⟩ := hga.2.1 tok a b o l r' cl c' heq
        have : answered (step s (.claim tok a b o l)).2 = some (c', .claim cl) := by
          show answered (claimAction s tok a b o l).2 = _
          rw [hout]; rfl
        rw [this] at ha
        cases ha
        refine ⟨⟨c, _, tb, ta⟩, ?_, rfl, rfl⟩
        rw [hc, hlen]
        simp
      | recorded _ _ =>
        rcases claimAction_shape s tok a b o l with ⟨err, he⟩ | ⟨rec, _, _, _, _, _, _, _, _, _, _, _, _, _, he⟩
        · rw [he] at hout; cases hout
        · rw [he] at hout
          rcases commitStep_out s _ _ _ _ with ⟨h1, _⟩ | ⟨h1, _⟩ <;> (rw [hout] at h1; cases h1)
      | admitted _ _ =>
        rcases claimAction_shape s tok a b o l with ⟨err, he⟩ | ⟨rec, _, _, _, _, _, _, _, _, _, _, _, _, _, he⟩
        · rw [he] at hout; cases hout
        · rw [he] at hout
          rcases commitStep_out s _ _ _ _ with ⟨h1, _⟩ | ⟨h1, _⟩ <;> (rw [hout] at h1; cases h1)
      | err e =>
        have : answered (step s (.claim tok a b o l)).2 = none := by
          show answered (claimAction s tok a b o l).2 = _
          rw [hout]; rfl
        rw [this] at ha; cases ha
      | done =>
        have : answered (step s (.claim tok a b o l)).2 = none := by
          show answered (claimAction s tok a b o l).2 = _
          rw [hout]; rfl
        rw [this] at ha; cases ha
    | settle gr gc gcm k =>
      cases hout : (admitSettlement s gr gc gcm k).2 with
      | admitted st c' =>
        have heq : admitSettlement s gr gc gcm k = ((step s (.settle gr gc gcm k)).1, .admitted st c') := by
          rw [← hout]; rfl
        obtain ⟨tb, ta, hc, hlen, _⟩ := hga.2.2 gr gc gcm k st c' heq
        have : answered (step s (.settle gr gc gcm k)).2 = some (c', .settlement st) := by
          show answered (admitSettlement s gr gc gcm k).2 = _
          rw [hout]; rfl
        rw [this] at ha
        cases ha
        refine ⟨⟨c, _, tb, ta⟩, ?_, rfl, rfl⟩
        rw [hc, hlen]
        simp
      | recorded _ _ =>
        rcases admitSettlement_shape s gr gc gcm k with ⟨err, he⟩ | ⟨rec, _, _, _, _, _, _, _, he⟩
        · rw [he] at hout; cases hout
        · rw [he] at hout
          rcases commitStep_out s _ _ _ _ with ⟨h1, _⟩ | ⟨h1, _⟩ <;> (rw [hout] at h1; cases h1)
      | grant _ _ _ =>
        rcases admitSettlement_shape s gr gc gcm k with ⟨err, he⟩ | ⟨rec, _, _, _, _, _, _, _, he⟩
        · rw [he] at hout; cases hout
        · rw [he] at hout
          rcases commitStep_out s _ _ _ _ with ⟨h1, _⟩ | ⟨h1, _⟩ <;> (rw [hout] at h1; cases h1)
      | err e =>
        have : answered (step s (.settle gr gc gcm k)).2 = none := by
          show answered (admitSettlement s gr gc gcm k).2 = _
          rw [hout]; rfl
        rw [this] at ha; cases ha
      | done =>
        have : answered (step s (.settle gr gc gcm k)).2 = none := by
          show answered (admitSettlement s gr gc gcm k).2 = _
          rw [hout]; rfl
        rw [this] at ha; cases ha
    | retry k => cases ht
    | recordedRequest rid => cases ht
    | claimGrant rid => cases ht
    | admittedSettlement rid => cases ht
    | recover => cases ht
    | trunc => cases ht
    | fault k => cases ht
  have runf : ∀ (ops : List Op) (s : Sys), ∀ p ∈ (run s ops).2, isTransition p.1 = true →
      ∀ c body, answered p.2 = some (c, body) →
      ∃ tx, (run s ops).1.store.commits[c]? = some tx ∧ tx.commit = c ∧ tx.body = body := by
    intro ops
    induction ops with
    | nil => intro s p hp; simp [run] at hp
    | cons op rest ih =>
      intro s p hp ht c body ha
      simp only [run, List.mem_cons] at hp
      rcases hp with hp | hp
      · subst hp
        obtain ⟨tx, h1, h2, h3⟩ := stepf s op ht c body ha
        exact ⟨tx, prefix_getElem? (run_commits_prefix rest (step s op).1) h1, h2, h3⟩
      · exact ih (step s op).1 p hp ht c body ha
  exact runf ops genesis

/-- **reject_unchanged.** Any operation that answers with a typed error other than the store's own
    failure leaves store and coordinator exactly as they were. -/
theorem reject_unchanged (s s' : Sys) (op : Op) (e : Err) (h : step s op = (s', .err e))
    (hne : e ≠ .walStore) : s' = s := by
  have key : ∀ (body : TxBody) (en : Entry) (fin : Nat → Entry) (mk : Nat → Out),
      (∀ c, mk c ≠ .err e) → commitStep s body en fin mk ≠ (s', .err e) := by
    intro body en fin mk hmk hc
    rcases commitStep_out s body en fin mk with ⟨h1, _⟩ | ⟨h1, _⟩
    · rw [hc] at h1; exact hmk _ h1.symm
    · rw [hc] at h1; simp only at h1; cases h1; exact hne rfl
  cases op with
  | request r =>
    simp only [step] at h
    rcases recordRequest_shape s r with ⟨err, he⟩ | ⟨_, _, _, he⟩
    · rw [he] at h; cases h; rfl
    · rw [he] at h; exact absurd h (key _ _ _ _ (fun c => by simp))
  | claim tok a b o l =>
    simp only [step] at h
    rcases claimAction_shape s tok a b o l with ⟨err, he⟩ | ⟨rec, _, _, _, _, _, _, _, _, _, _, _, _, _, he⟩
    · rw [he] at h; cases h; rfl
    · rw [he] at h; exact absurd h (key _ _ _ _ (fun c => by simp))
  | settle gr gc gcm k =>
    simp only [step] at h
    rcases admitSettlement_shape s gr gc gcm k with ⟨err, he⟩ | ⟨rec, _, _, _, _, _, _, _, he⟩
    · rw [he] at h; cases h; rfl
    · rw [he] at h; exact absurd h (key _ _ _ _ (fun c => by simp))
  | retry k => exact (congrArg Prod.fst h).symm
  | recordedRequest rid => exact (congrArg Prod.fst h).symm
  | claimGrant rid => exact (congrArg Prod.fst h).symm
  | admittedSettlement rid => exact (congrArg Prod.fst h).symm
  | recover =>
    simp only [step] at h
    cases hr : recover s.store with
    | error e' => simp only [hr] at h; cases h; rfl
    | ok c => simp only [hr] at h; cases h
  | trunc => simp only [step] at h; cases h
  | fault k => simp only [step] at h; cases h

/-- **settle_exact_attempt.** A settlement is admitted only when the grant is the recorded claim of
    that request (same request, claim and claim commit), nothing is settled yet, and the candidate
    names exactly the claimed attempt and adapter, the request's basis and schema, carries both
    evidences, fits the byte budget and declares the digest of its bytes; what is stored is the
    candidate itself. -/
theorem settle_exact_attempt (s s' : Sys) (gr : Request) (gc : Claim) (gcm : Nat) (k : Candidate)
    (st : Settlement) (c : Nat) (h : admitSettlement s gr gc gcm k = (s', .admitted st c)) :
    ∃ rec, s.coord.ready = true ∧ s.coord.index.get gr.rid = some rec ∧ rec.request = gr ∧
      rec.claim = some gc ∧ rec.claimCommit = some gcm ∧ rec.settlement = none ∧
      k.rid = gr.rid ∧ k.attempt = gc.attempt ∧ k.adapter = gc.adapter ∧ k.basis = gr.basis ∧
      k.schema = gr.setSchema ∧ k.schemaEv ≠ 0 ∧ k.extEv ≠ 0 ∧ k.bytes.length ≤ gr.maxBytes ∧
      k.digestOk = true ∧ st = Settlement.ofCandidate k := by
  rcases admitSettlement_shape s gr gc gcm k with ⟨err, he⟩ | ⟨rec, h1, h2, h3, h4, h5, h6, hv, he⟩
  · rw [he] at h; cases h
  · obtain ⟨_, _, _, _, hst⟩ := (grant_after_commit s s').2.2 gr gc gcm k st c h
    obtain ⟨v1, v2, v3, v4, v5, v6, v7, v8, v9⟩ := (validateCandidate_ok_iff gr gc k).mp hv
    exact ⟨rec, h1, h2, h3, h4, h5, h6, v1, v2, v3, v4, v5, v6, v7, v8, v9, hst⟩

/-- **settle_typed_errors.** With the grant matching the recorded claim, a candidate that fails
    validation is answered with exactly that validation's typed error and nothing changes; the
    errors are: wrong request/attempt/adapter/basis ⇒ `SettlementClaimMismatch`, then schema,
    schema evidence, external evidence, byte budget, result digest — in this order. -/
theorem settle_typed_errors (s : Sys) (gr : Request) (gc : Claim) (gcm : Nat) (k : Candidate)
    (rec : Entry) (hr : s.coord.ready = true) (hg : s.coord.index.get gr.rid = some rec)
    (h1 : rec.request = gr) (h2 : rec.claim = some gc) (h3 : rec.claimCommit = some gcm)
    (h4 : rec.settlement = none) :
    (∀ e, validateCandidate gr gc k = .error e → admitSettlement s gr gc gcm k = (s, .err e)) ∧
    ((k.rid ≠ gr.rid ∨ k.attempt ≠ gc.attempt ∨ k.adapter ≠ gc.adapter ∨ k.basis ≠ gr.basis) →
      validateCandidate gr gc k = .error .settlementClaimMismatch) ∧
    (k.rid = gr.rid → k.attempt = gc.attempt → k.adapter = gc.adapter → k.basis = gr.basis →
      (k.schema ≠ gr.setSchema → validateCandidate gr gc k = .error .settlementSchemaMismatch) ∧
      (k.schema = gr.setSchema → k.schemaEv ≠ 0 → k.extEv ≠ 0 → k.bytes.length > gr.maxBytes →
        validateCandidate gr gc k = .error .settlementBudgetExceeded)) := by
  refine ⟨?_, ?_, ?_⟩
  · intro e hv
    unfold admitSettlement
    simp [hr, hg, h2, h1, h3, h4, hv]
  · intro hb
    unfold validateCandidate
    simp only [ne_eq] at hb
    simp [hb]
  · intro a1 a2 a3 a4
    refine ⟨?_, ?_⟩
    · intro hs
      unfold validateCandidate
      simp [a1, a2, a3, a4, hs]
    · intro a5 a6 a7 a8
      unfold validateCandidate
      simp [a1, a2, a3, a4, a5, a6, a7, a8]

/-- **retry_from_retained.** A settlement retry never changes anything, and when it answers with a
    settlement, that is the retained one — the entry's settlement and its commit — and it equals the
    retried candidate. -/
theorem retry_from_retained (s : Sys) (k : Candidate) :
    (step s (.retry k)).1 = s ∧
    ∀ st sc, retrySettlement s.coord k = .admitted st sc →
      ∃ rec, s.coord.index.get k.rid = some rec ∧ rec.settlement = some st ∧
        rec.setCommit = some sc ∧ st = Settlement.ofCandidate k := by
  refine ⟨rfl, ?_⟩
  intro st sc h
  unfold retrySettlement at h
  split at h
  · cases h
  · split at h
    · cases h
    · rename_i rec hget
      split at h
      · cases h
      · split at h
        · cases h
        · split at h
          · cases h
          · cases h
          · rename_i st' sc' hs hc
            split at h
            · cases h
            · rename_i heq
              cases h
              exact ⟨rec, hget, hs, hc, by simpa using heq⟩

/-- **retry_after_settle.** Once a settlement has been admitted, retrying the same candidate is
    answered with exactly the admitted fact (same settlement, same commit). -/
theorem retry_after_settle (s s' : Sys) (hg : Good s) (gr : Request) (gc : Claim) (gcm : Nat)
    (k : Candidate) (st : Settlement) (c : Nat)
    (h : admitSettlement s gr gc gcm k = (s', .admitted st c)) :
    retrySettlement s'.coord k = .admitted st c := by
  rcases admitSettlement_shape s gr gc gcm k with ⟨err, he⟩ | ⟨rec, h1, h2, h3, h4, h5, h6, hv, he⟩
  · rw [he] at h; cases h
  · rw [he] at h
    have hw : WFI s.coord.index := good_wfi hg _ (hg.2 h1).2.1
    have hkey : rec.request.rid = gr.rid := (hw _ _ h2).1
    have hk : k.rid = gr.rid := ((validateCandidate_ok_iff gr gc k).mp hv).1
    rcases commitStep_cases s (.settlement (Settlement.ofCandidate k))
      { rec with posture := .settled k.kind, settlement := some (Settlement.ofCandidate k),
                 setCommit := none }
      (fun c => { rec with posture := .settled k.kind,
                           settlement := some (Settlement.ofCandidate k), setCommit := some c })
      (fun c => .admitted (Settlement.ofCandidate k) c) with ⟨o1, _, _, _, o5, _⟩ | ⟨o1, _⟩
    · rw [h] at o1 o5
      simp only at o1 o5
      cases o1
      rw [o5]
      unfold retrySettlement
      simp only [Bool.not_true, Bool.false_eq_true, if_false, Index.get, Index.apply]
      rw [SMap.find?_insert]
      simp only [hk, if_true, h4, h3, hv]
      simp
    · rw [h] at o1; cases o1

/-- **recover_eq_uninterrupted.** After any history, whenever the coordinator is usable it is
    exactly (index entries, stored Merkle nodes and hence root digest, WAL continuation) what
    `recover` rebuilds from the store alone — so stopping and recovering at that point continues
    the uninterrupted run, and every grant reconstructed from the recovered coordinator
    (`recorded_request`, `claim_grant`, `admitted_settlement`, retry) is the live one. -/
theorem recover_eq_uninterrupted (ops : List Op) (hr : (after ops).coord.ready = true) :
    recover (after ops).store = .ok (after ops).coord :=
  synced_recover (good_after ops).2 hr

/-- **recover_any_stop.** At every point of every history — also while the coordinator is unusable
    after a store fault — the store is recoverable once the uncommitted tail is dropped, the
    recovered index is the fold of the committed transactions, and its lifecycles are prefixes. -/
theorem recover_any_stop (ops : List Op) :
    ∃ c, recover { (after ops).store with dirty := false } = .ok c ∧
      observe (after ops).store.commits = .ok c.index ∧ c.ready = true ∧
      ∀ rid, stages (c.index.get rid) = kindsFor rid (after ops).store.commits := by
  obtain ⟨i, hi⟩ := (good_after ops).1
  refine ⟨{ index := i, nextLsn := (after ops).store.commits.length,
            prevCommit := lastCommit (after ops).store.commits, ready := true }, ?_, hi, rfl, ?_⟩
  · unfold recover
    simp [hi]
  · intro rid
    obtain ⟨_, hs⟩ := observeFrom_spec _ _ _ hi wfi_empty
    simpa [stages, get_empty] using hs rid

/-- **smt_incremental_eq_rebuild.** For every depth `n`, every digest algebra (`E` = empty-subtree
    digests, `N` = node hash — no assumption on either) and every history of leaf writes with
    `n`-bit keys: the root kept incrementally (one path per write over the *stored* sibling digests)
    equals the root recomputed from the complete entry list (latest write per key first). -/
theorem smt_incremental_eq_rebuild {D : Type} (E : Nat → D) (N : Nat → D → D → D) (n : Nat)
    (ups : List (List Bool × D)) (hl : ∀ kv ∈ ups, kv.1.length = n) :
    Trie.dig E 0 (applyUps E N Trie.nil ups) = build E N 0 n ups.reverse := by
  have := inv_applyUps E N n ups Trie.nil [] hl (inv_nil E N n 0)
  simpa using inv_dig E N this

/-- **smt_root_entry_set.** The recomputed root is a function of the key → leaf map alone: two entry
    lists with the same lookup function (whatever their order and shadowed older writes) have the
    same root. Together with the previous theorem: the incremental root does not depend on the
    order in which requests were recorded or advanced. -/
theorem smt_root_entry_set {D : Type} (E : Nat → D) (N : Nat → D → D → D) (n : Nat)
    (es es' : List (List Bool × D)) (h : ∀ kv ∈ es, kv.1.length = n) (h' : ∀ kv ∈ es', kv.1.length = n)
    (hl : ∀ k, lookup k es = lookup k es') : build E N 0 n es = build E N 0 n es' :=
  build_congr E N n 0 es es' h h' hl

/-- **index_root_eq_rebuild.** After ANY operation history whose request ids are 32-byte values,
    every index `observe_external_actions` rebuilds from the durable log — hence (first corollary)
    the live index of every usable coordinator, and the index recovered at any stop — has as root
    digest exactly the root REBUILT FROM ITS SORTED ENTRY MAP (key = the 256 request-id bits, leaf =
    the entry's request/claim/settlement), at the code's depth 256; and (second part) this holds
    under EVERY digest algebra `(E, L, N)` the pre-images are evaluated in (arbitrary hash). The
    write history, its order and overwritten leaves are irrelevant. -/
theorem index_root_eq_rebuild (ops : List Op) (hb : OpsBounded ops) :
    (∀ i, observe (after ops).store.commits = .ok i →
      i.rootDigest = build DX.empty DX.node 0 indexDepth i.leaves ∧
      ∀ {D : Type} (E : Nat → D) (L : Request → Option Claim → Option Settlement → D)
        (N : Nat → D → D → D),
        DX.eval E L N i.rootDigest =
          build E N 0 indexDepth (i.entries.map (fun p =>
            (keyBits indexDepth p.1, L p.2.request p.2.claim p.2.settlement)))) ∧
    ((after ops).coord.ready = true →
      (after ops).coord.index.rootDigest =
        build DX.empty DX.node 0 indexDepth (after ops).coord.index.leaves) := by
  have hlog : LogBounded (after ops).store.commits :=
    run_logBounded ops genesis hb (fun tx htx => by simp [genesis, Store.empty] at htx)
  have key : ∀ i, observe (after ops).store.commits = .ok i →
      i.rootDigest = build DX.empty DX.node 0 indexDepth i.leaves := fun i hi =>
    idxOK_root (observeFrom_idxOK _ _ _ hi idxOK_empty hlog)
  refine ⟨fun i hi => ⟨key i hi, ?_⟩, fun hr => key _ ((good_after ops).2 hr).2.1⟩
  intro D E L N
  rw [key i hi, eval_build]
  simp only [Index.leaves, List.map_map]
  rfl

/-! ### non-vacuity -/

def reqA : Request :=
  { rid := 5, idOk := true, worldline := 1, operation := 2, inSchema := 3, setSchema := 4, scope := 6,
    basis := 7, maxBytes := 2, maxAttempts := 1, input := 8, law := 9 }
def authA : Auth := { adapter := 11, operation := 2, scope := 6, rid := 5, basis := 7, policy := 12 }
def claimA : Claim := Claim.forRequest reqA 11 0 13 12
def candA : Candidate :=
  { rid := 5, attempt := claimA.attempt, adapter := 11, kind := 1, schema := 4, basis := 7,
    bytes := [1, 2], digestOk := true, schemaEv := 14, extEv := 15 }
/-- **crash_atomic.** After ANY history that leaves the coordinator usable, for EVERY next operation
    (valid or not) and a store failure at EVERY boundary of its one-frame transaction:
    frame append fails (1), frame stored but commit flush fails = stop mid-transaction (2) — dropping
    the uncommitted tail and recovering returns exactly the coordinator before the operation;
    commit stored but its acknowledgement lost (3) — recovery returns exactly the coordinator of the
    uninterrupted operation. (No fault: `recover_eq_uninterrupted`.) Whether the operation is admitted
    never depends on the armed fault (`step_fault_shape`). -/
theorem crash_atomic (ops : List Op) (op : Op) (hr : (after ops).coord.ready = true) :
    (∀ k, k = 1 ∨ k = 2 →
      recover { (step (withFault (after ops) k) op).1.store with dirty := false }
        = .ok (after ops).coord) ∧
    recover (step (withFault (after ops) 3) op).1.store
      = .ok (step (withFault (after ops) 0) op).1.coord :=
  step_crash_atomic (after ops) op (good_after ops) hr

/-- **recover_log_prefix.** The committed log only grows, one transaction per operation, so EVERY
    prefix of the final log (what survives a crash that loses a suffix) is the complete log of the
    same run after some `j` of its operations; the store holding it recovers, and to exactly that
    earlier coordinator whenever it was usable then. -/
theorem recover_log_prefix (ops : List Op) (k : Nat) (hk : k ≤ (after ops).store.commits.length) :
    ∃ j c, j ≤ ops.length ∧
      (after (ops.take j)).store.commits = (after ops).store.commits.take k ∧
      recoveredFrom ((after ops).store.commits.take k) = .ok c ∧
      observe ((after ops).store.commits.take k) = .ok c.index ∧
      ((after (ops.take j)).coord.ready = true → c = (after (ops.take j)).coord) := by
  obtain ⟨j, hj, hlog⟩ := run_reaches_prefix ops genesis k (Nat.zero_le _) hk
  obtain ⟨c, hc, hi, _, _⟩ := recover_any_stop (ops.take j)
  refine ⟨j, c, hj, hlog, ?_, by rw [← hlog]; exact hi, fun hr => ?_⟩
  · rw [← hlog]; exact hc
  · have h2 := recover_eq_uninterrupted (ops.take j) hr
    have hd : (after (ops.take j)).store.dirty = false := ((good_after (ops.take j)).2 hr).1
    rw [recover_congr (st' := { (after (ops.take j)).store with dirty := false }) hd rfl, hc] at h2
    cases h2
    rfl

/-- **crash_any_byte_cut.** Composition with the byte-level WAL model of C10/C11. Write the
    committed transactions of ANY history with the model WAL writer (`buildLog`: per transaction
    the frame record(s) then the commit marker; `enc` = any translation of a transaction into a
    writer spec) and cut the segment at ANY byte `m`. For every byte-level recovery function `R`
    with C10's prefix property on that segment: `R` returns exactly the WAL transactions of the
    first `k` commits with the exact tail posture; those `k` commits are the complete log of the
    same run after some `j` operations; the coordinator recovered from them exists, is the fold of
    that log, and IS the uninterrupted run's coordinator at point `j` whenever that was usable. -/
theorem crash_any_byte_cut {ε δ : Type} (ops : List Op) (enc : Tx → Wal.TxSpec)
    (cfg : Wal.Cfg) (H : Wal.HashFn) (p : Wal.BuildParams) (chain : Bool) (lsn : Nat) (pf pc : Bytes)
    (mode : Wal.Mode) (R : Bytes → Except ε (δ × Wal.Report))
    (hR : PrefixRecovery cfg H mode R
      (Wal.buildLog cfg H p chain lsn pf pc ((after ops).store.commits.map enc)))
    (m : Nat)
    (hm : m ≤ (Wal.encLog cfg H
      (Wal.buildLog cfg H p chain lsn pf pc ((after ops).store.commits.map enc))).length) :
    ∃ k d j c, k ≤ (after ops).store.commits.length ∧ j ≤ ops.length ∧
      R ((Wal.encLog cfg H (Wal.buildLog cfg H p chain lsn pf pc
            ((after ops).store.commits.map enc))).take m)
        = .ok (d, { txs := Wal.recoveredOf (Wal.buildLog cfg H p chain lsn pf pc
                      (((after ops).store.commits.take k).map enc)),
                    tail := if m = (Wal.encLog cfg H (Wal.buildLog cfg H p chain lsn pf pc
                                  (((after ops).store.commits.take k).map enc))).length
                            then .clean
                            else Wal.tailOf mode (Wal.lastLsnOf (Wal.buildLog cfg H p chain lsn pf pc
                                  (((after ops).store.commits.take k).map enc))) }) ∧
      (after (ops.take j)).store.commits = (after ops).store.commits.take k ∧
      recoveredFrom ((after ops).store.commits.take k) = .ok c ∧ c.ready = true ∧
      observe ((after ops).store.commits.take k) = .ok c.index ∧
      ((after (ops.take j)).coord.ready = true → c = (after (ops.take j)).coord) :=
  ExtAct.crash_any_byte_cut ops enc cfg H p chain lsn pf pc mode R hR m hm

/-- **crash_any_byte.** The previous theorem with its hypothesis discharged by C10's
    `recover_prefix_built`: for C10's model of `recover_wal_segment_bytes`, every 32-byte hash `H`,
    every well-formed writer configuration and every translation `enc` into well-formed writer specs. -/
theorem crash_any_byte (ops : List Op) (enc : Tx → Wal.TxSpec)
    (cfg : Wal.Cfg) (H : Wal.HashFn) (h32 : Wal.Hash32 H) (p : Wal.BuildParams) (hp : Wal.ParamsOK cfg p)
    (chain : Bool) (lsn : Nat) (pf pc : Bytes) (mode : Wal.Mode)
    (hpf : pf.length = 32) (hpc : pc.length = 32) (henc : ∀ tx, Wal.SpecOK cfg (enc tx))
    (hlsn : lsn + Wal.totalRecords ((after ops).store.commits.map enc) ≤ 2 ^ 64)
    (m : Nat)
    (hm : m ≤ (Wal.encLog cfg H
      (Wal.buildLog cfg H p chain lsn pf pc ((after ops).store.commits.map enc))).length) :
    ∃ k d j c, k ≤ (after ops).store.commits.length ∧ j ≤ ops.length ∧
      Wal.recoverSegmentBytesT cfg H p.segmentId ((Wal.encLog cfg H (Wal.buildLog cfg H p chain lsn pf pc
            ((after ops).store.commits.map enc))).take m) mode
        = .ok (d, { txs := Wal.recoveredOf (Wal.buildLog cfg H p chain lsn pf pc
                      (((after ops).store.commits.take k).map enc)),
                    tail := if m = (Wal.encLog cfg H (Wal.buildLog cfg H p chain lsn pf pc
                                  (((after ops).store.commits.take k).map enc))).length
                            then .clean
                            else Wal.tailOf mode (Wal.lastLsnOf (Wal.buildLog cfg H p chain lsn pf pc
                                  (((after ops).store.commits.take k).map enc))) }) ∧
      (after (ops.take j)).store.commits = (after ops).store.commits.take k ∧
      recoveredFrom ((after ops).store.commits.take k) = .ok c ∧ c.ready = true ∧
      observe ((after ops).store.commits.take k) = .ok c.index ∧
      ((after (ops.take j)).coord.ready = true → c = (after (ops.take j)).coord) :=
  ExtAct.crash_any_byte_cut ops enc cfg H p chain lsn pf pc mode
    (fun b => Wal.recoverSegmentBytesT cfg H p.segmentId b mode)
    (fun m hm => C10.recover_prefix_built cfg H h32 p hp chain lsn pf pc _ mode hpf hpc
      (fun s hs => by
        obtain ⟨tx, _, rfl⟩ := List.mem_map.mp hs
        exact henc tx) hlsn m hm) m hm

-- non-vacuity: a translation into well-formed one-record writer specs (C10's toy configuration)
example : ∀ tx : Tx, Wal.SpecOK C10.toyCfg
    ((fun _ => ⟨C10.z32, 1, [(⟨1, [65]⟩, [7, 7])], C10.z32⟩ : Tx → Wal.TxSpec) tx) := by
  intro _
  constructor <;> simp [C10.toyCfg, C10.z32, Wal.RecOK, Wal.u32Max]

-- the request ids of the sample history are 32-byte values
example : OpsBounded [Op.request reqA] := by
  intro op hop r hr
  simp only [List.mem_singleton] at hop
  subst hop
  cases hr
  show 5 < 2 ^ 256
  exact Nat.lt_of_lt_of_le (by decide : 5 < 2 ^ 3) (Nat.pow_le_pow_right (by decide) (by decide))

def happy : List Op :=
  [.request reqA, .claim reqA authA 7 0 13, .settle reqA claimA 1 candA, .retry candA]

set_option maxRecDepth 100000

-- the happy path commits three transactions, issues one claim grant and answers the retry
example : (after happy).store.commits.length = 3 := by decide
example : ((trace happy).filter (isFreshClaim 5)).length = 1 := by decide
example : kindsFor 5 (after happy).store.commits = [Kind.request, Kind.claim, Kind.settlement] := by decide
example : (trace happy).map (fun p => match p.2 with | .admitted _ c => c | _ => 99) = [99, 99, 2, 2] := by decide
-- a second claim, and a settlement for a foreign attempt, are refused with the typed errors
example : (step (after [.request reqA, .claim reqA authA 7 0 13]) (.claim reqA authA 7 0 13)).2
    = .err .duplicateClaim := by decide
example : (step (after [.request reqA, .claim reqA authA 7 0 13])
    (.settle reqA claimA 1 { candA with attempt := .raw 1 })).2 = .err .settlementClaimMismatch := by decide
-- a lost acknowledgement: no grant, coordinator down, yet the step is durable and recovery shows it
example : (after [.fault 3, .request reqA]).coord.ready = false := by decide
example : (trace [.fault 3, .request reqA, .recover, .recordedRequest 5]).map (fun p => p.2)
    = [.done, .err .walStore, .done, .recorded reqA 0] := by decide

end EchoVerif.C17
