/-
  C17 — external actions move once through request, claim and settlement — durably.
  PROPERTY THEOREMS ONLY (helpers are in Lemmas/ExtAct.lean, Lemmas/ExtActMerkle.lean).
  Model: Model/ExtAct.lean (`step` over request/claim/settle/retry/read/recover/trunc/fault ops).
  Every theorem about histories quantifies over ALL operation sequences from the empty store.
-/
import EchoVerif.Lemmas.ExtAct

namespace EchoVerif.C17
open EchoVerif EchoVerif.ExtAct

/-- the system after an arbitrary operation history from the empty store -/
abbrev after (ops : List Op) : Sys := (run genesis ops).1
/-- the (operation, output) trace of that history -/
abbrev trace (ops : List Op) : List (Op × Out) := (run genesis ops).2

theorem good_after (ops : List Op) : Good (after ops) := run_good ops genesis good_genesis

/-- **lifecycle_prefix.** After any history (valid and invalid arguments, store faults, stops and
    recoveries anywhere), the committed transactions of every request id — in log order — are a
    prefix of requested, claimed, settled: no step is skipped, reordered or repeated. -/
theorem lifecycle_prefix (ops : List Op) (rid : Nat) :
    kindsFor rid (after ops).store.commits <+: [Kind.request, Kind.claim, Kind.settlement] := by
  obtain ⟨i, hi⟩ := (good_after ops).1
  obtain ⟨hw, hs⟩ := observeFrom_spec _ _ _ hi wfi_empty
  have := stages_prefix hw rid
  rw [hs rid] at this
  simpa [stages, get_empty] using this

/-- **lifecycle_index_agrees.** A ready coordinator's index entry of every request id stands for
    exactly the lifecycle recorded in the durable log. -/
theorem lifecycle_index_agrees (ops : List Op) (rid : Nat) (hr : (after ops).coord.ready = true) :
    stages ((after ops).coord.index.get rid) = kindsFor rid (after ops).store.commits := by
  obtain ⟨_, ho, _, _⟩ := (good_after ops).2 hr
  obtain ⟨_, hs⟩ := observeFrom_spec _ _ _ ho wfi_empty
  simpa [stages, get_empty] using hs rid

/-- **single_claim.** Over the whole history at most one claim grant is freshly issued per request
    id (re-issues by `claim_grant` after recovery are reads of that one durable claim). -/
theorem single_claim (ops : List Op) (rid : Nat) :
    ((trace ops).filter (isFreshClaim rid)).length ≤ 1 := by
  have h := run_claimTxs rid ops genesis
  have h1 : claimTxs rid genesis.store.commits = 0 := rfl
  have h2 := claimTxs_le_one (lifecycle_prefix ops rid)
  simp only [claimTxs] at h h1 h2
  simp only [trace, after] at *
  omega

/-- **grant_after_commit.** Each of the three transitions returns its grant only in the branch in
    which the transaction carrying exactly that step was appended and committed to the store,
    and the grant's commit digest is that transaction's. -/
theorem grant_after_commit (s s' : Sys) :
    (∀ r r' c, recordRequest s r = (s', .recorded r' c) →
        ∃ b a, s'.store.commits = s.store.commits ++ [⟨c, .request r', b, a⟩] ∧
          c = s.store.commits.length ∧ r' = r) ∧
    (∀ tok a b o l r' cl c, claimAction s tok a b o l = (s', .grant r' cl c) →
        ∃ b' a', s'.store.commits = s.store.commits ++ [⟨c, .claim cl, b', a'⟩] ∧
          c = s.store.commits.length ∧ r' = tok ∧ cl.rid = tok.rid) ∧
    (∀ gr gc gcm k st c, admitSettlement s gr gc gcm k = (s', .admitted st c) →
        ∃ b a, s'.store.commits = s.store.commits ++ [⟨c, .settlement st, b, a⟩] ∧
          c = s.store.commits.length ∧ st = Settlement.ofCandidate k) := by
  refine ⟨?_, ?_, ?_⟩
  · intro r r' c h
    rcases recordRequest_shape s r with ⟨err, he⟩ | ⟨_, _, _, he⟩
    · rw [he] at h; cases h
    · rw [he] at h
      rcases commitStep_out s (.request r) (entry0 r) (fun c => { entry0 r with reqCommit := c })
        (fun c => .recorded r c) with ⟨h1, h2, _⟩ | ⟨h1, _⟩
      · rw [h] at h1 h2
        simp only at h1 h2
        cases h1
        exact ⟨_, _, h2, rfl, rfl⟩
      · rw [h] at h1; cases h1
  · intro tok a b o l r' cl c h
    rcases claimAction_shape s tok a b o l with ⟨err, he⟩ | ⟨rec, _, _, _, _, _, _, _, _, _, _, _, _, _, he⟩
    · rw [he] at h; cases h
    · rw [he] at h
      rcases commitStep_out s (.claim (Claim.forRequest tok a.adapter o l a.policy))
        { rec with claim := some (Claim.forRequest tok a.adapter o l a.policy), claimCommit := none,
                   posture := .claimed }
        (fun c => { rec with claim := some (Claim.forRequest tok a.adapter o l a.policy),
                             claimCommit := some c, posture := .claimed })
        (fun c => .grant tok (Claim.forRequest tok a.adapter o l a.policy) c) with ⟨h1, h2, _⟩ | ⟨h1, _⟩
      · rw [h] at h1 h2
        simp only at h1 h2
        cases h1
        exact ⟨_, _, h2, rfl, rfl, rfl⟩
      · rw [h] at h1; cases h1
  · intro gr gc gcm k st c h
    rcases admitSettlement_shape s gr gc gcm k with ⟨err, he⟩ | ⟨rec, _, _, _, _, _, _, _, he⟩
    · rw [he] at h; cases h
    · rw [he] at h
      rcases commitStep_out s (.settlement (Settlement.ofCandidate k))
        { rec with posture := .settled k.kind, settlement := some (Settlement.ofCandidate k),
                   setCommit := none }
        (fun c => { rec with posture := .settled k.kind,
                             settlement := some (Settlement.ofCandidate k), setCommit := some c })
        (fun c => .admitted (Settlement.ofCandidate k) c) with ⟨h1, h2, _⟩ | ⟨h1, _⟩
      · rw [h] at h1 h2
        simp only at h1 h2
        cases h1
        exact ⟨_, _, h2, rfl, rfl⟩
      · rw [h] at h1; cases h1

/-- **reject_unchanged.** Any operation that answers with a typed error other than the store's own
    failure leaves store and coordinator exactly as they were. -/
theorem reject_unchanged (s s' : Sys) (op : Op) (e : Err) (h : step s op = (s', .err e))
    (hne : e ≠ .walStore) : s' = s := by
  have key : ∀ (body : TxBody) (en : Entry) (fin : Nat → Entry) (mk : Nat → Out),
      (∀ c, mk c ≠ .err e) → commitStep s body en fin mk ≠ (s', .err e) := by
    intro body en fin mk hmk hc
    rcases commitStep_out s body en fin mk with ⟨h1, _⟩ | ⟨h1, _⟩
    · rw [hc] at h1; exact hmk _ h1.symm
    · rw [hc] at h1; simp only at h1; cases h1; exact hne rfl
  cases op with
  | request r =>
    simp only [step] at h
    rcases recordRequest_shape s r with ⟨err, he⟩ | ⟨_, _, _, he⟩
    · rw [he] at h; cases h; rfl
    · rw [he] at h; exact absurd h (key _ _ _ _ (fun c => by simp))
  | claim tok a b o l =>
    simp only [step] at h
    rcases claimAction_shape s tok a b o l with ⟨err, he⟩ | ⟨rec, _, _, _, _, _, _, _, _, _, _, _, _, _, he⟩
    · rw [he] at h; cases h; rfl
    · rw [he] at h; exact absurd h (key _ _ _ _ (fun c => by simp))
  | settle gr gc gcm k =>
    simp only [step] at h
    rcases admitSettlement_shape s gr gc gcm k with ⟨err, he⟩ | ⟨rec, _, _, _, _, _, _, _, he⟩
    · rw [he] at h; cases h; rfl
    · rw [he] at h; exact absurd h (key _ _ _ _ (fun c => by simp))
  | retry k => exact (congrArg Prod.fst h).symm
  | recordedRequest rid => exact (congrArg Prod.fst h).symm
  | claimGrant rid => exact (congrArg Prod.fst h).symm
  | admittedSettlement rid => exact (congrArg Prod.fst h).symm
  | recover =>
    simp only [step] at h
    cases hr : recover s.store with
    | error e' => simp only [hr] at h; cases h; rfl
    | ok c => simp only [hr] at h; cases h
  | trunc => simp only [step] at h; cases h
  | fault k => simp only [step] at h; cases h

/-- **settle_exact_attempt.** A settlement is admitted only when the grant is the recorded claim of
    that request (same request, claim and claim commit), nothing is settled yet, and the candidate
    names exactly the claimed attempt and adapter, the request's basis and schema, carries both
    evidences, fits the byte budget and declares the digest of its bytes; what is stored is the
    candidate itself. -/
theorem settle_exact_attempt (s s' : Sys) (gr : Request) (gc : Claim) (gcm : Nat) (k : Candidate)
    (st : Settlement) (c : Nat) (h : admitSettlement s gr gc gcm k = (s', .admitted st c)) :
    ∃ rec, s.coord.ready = true ∧ s.coord.index.get gr.rid = some rec ∧ rec.request = gr ∧
      rec.claim = some gc ∧ rec.claimCommit = some gcm ∧ rec.settlement = none ∧
      k.rid = gr.rid ∧ k.attempt = gc.attempt ∧ k.adapter = gc.adapter ∧ k.basis = gr.basis ∧
      k.schema = gr.setSchema ∧ k.schemaEv ≠ 0 ∧ k.extEv ≠ 0 ∧ k.bytes.length ≤ gr.maxBytes ∧
      k.digestOk = true ∧ st = Settlement.ofCandidate k := by
  rcases admitSettlement_shape s gr gc gcm k with ⟨err, he⟩ | ⟨rec, h1, h2, h3, h4, h5, h6, hv, he⟩
  · rw [he] at h; cases h
  · obtain ⟨_, _, _, _, hst⟩ := (grant_after_commit s s').2.2 gr gc gcm k st c h
    obtain ⟨v1, v2, v3, v4, v5, v6, v7, v8, v9⟩ := (validateCandidate_ok_iff gr gc k).mp hv
    exact ⟨rec, h1, h2, h3, h4, h5, h6, v1, v2, v3, v4, v5, v6, v7, v8, v9, hst⟩

/-- **settle_typed_errors.** With the grant matching the recorded claim, a candidate that fails
    validation is answered with exactly that validation's typed error and nothing changes; the
    errors are: wrong request/attempt/adapter/basis ⇒ `SettlementClaimMismatch`, then schema,
    schema evidence, external evidence, byte budget, result digest — in this order. -/
theorem settle_typed_errors (s : Sys) (gr : Request) (gc : Claim) (gcm : Nat) (k : Candidate)
    (rec : Entry) (hr : s.coord.ready = true) (hg : s.coord.index.get gr.rid = some rec)
    (h1 : rec.request = gr) (h2 : rec.claim = some gc) (h3 : rec.claimCommit = some gcm)
    (h4 : rec.settlement = none) :
    (∀ e, validateCandidate gr gc k = .error e → admitSettlement s gr gc gcm k = (s, .err e)) ∧
    ((k.rid ≠ gr.rid ∨ k.attempt ≠ gc.attempt ∨ k.adapter ≠ gc.adapter ∨ k.basis ≠ gr.basis) →
      validateCandidate gr gc k = .error .settlementClaimMismatch) ∧
    (k.rid = gr.rid → k.attempt = gc.attempt → k.adapter = gc.adapter → k.basis = gr.basis →
      (k.schema ≠ gr.setSchema → validateCandidate gr gc k = .error .settlementSchemaMismatch) ∧
      (k.schema = gr.setSchema → k.schemaEv ≠ 0 → k.extEv ≠ 0 → k.bytes.length > gr.maxBytes →
        validateCandidate gr gc k = .error .settlementBudgetExceeded)) := by
  refine ⟨?_, ?_, ?_⟩
  · intro e hv
    unfold admitSettlement
    simp [hr, hg, h2, h1, h3, h4, hv]
  · intro hb
    unfold validateCandidate
    simp only [ne_eq] at hb
    simp [hb]
  · intro a1 a2 a3 a4
    refine ⟨?_, ?_⟩
    · intro hs
      unfold validateCandidate
      simp [a1, a2, a3, a4, hs]
    · intro a5 a6 a7 a8
      unfold validateCandidate
      simp [a1, a2, a3, a4, a5, a6, a7, a8]

/-- **retry_from_retained.** A settlement retry never changes anything, and when it answers with a
    settlement, that is the retained one — the entry's settlement and its commit — and it equals the
    retried candidate. -/
theorem retry_from_retained (s : Sys) (k : Candidate) :
    (step s (.retry k)).1 = s ∧
    ∀ st sc, retrySettlement s.coord k = .admitted st sc →
      ∃ rec, s.coord.index.get k.rid = some rec ∧ rec.settlement = some st ∧
        rec.setCommit = some sc ∧ st = Settlement.ofCandidate k := by
  refine ⟨rfl, ?_⟩
  intro st sc h
  unfold retrySettlement at h
  split at h
  · cases h
  · split at h
    · cases h
    · rename_i rec hget
      split at h
      · cases h
      · split at h
        · cases h
        · split at h
          · cases h
          · cases h
          · rename_i st' sc' hs hc
            split at h
            · cases h
            · rename_i heq
              cases h
              exact ⟨rec, hget, hs, hc, by simpa using heq⟩

/-- **retry_after_settle.** Once a settlement has been admitted, retrying the same candidate is
    answered with exactly the admitted fact (same settlement, same commit). -/
theorem retry_after_settle (s s' : Sys) (hg : Good s) (gr : Request) (gc : Claim) (gcm : Nat)
    (k : Candidate) (st : Settlement) (c : Nat)
    (h : admitSettlement s gr gc gcm k = (s', .admitted st c)) :
    retrySettlement s'.coord k = .admitted st c := by
  rcases admitSettlement_shape s gr gc gcm k with ⟨err, he⟩ | ⟨rec, h1, h2, h3, h4, h5, h6, hv, he⟩
  · rw [he] at h; cases h
  · rw [he] at h
    have hw : WFI s.coord.index := good_wfi hg _ (hg.2 h1).2.1
    have hkey : rec.request.rid = gr.rid := (hw _ _ h2).1
    have hk : k.rid = gr.rid := ((validateCandidate_ok_iff gr gc k).mp hv).1
    rcases commitStep_cases s (.settlement (Settlement.ofCandidate k))
      { rec with posture := .settled k.kind, settlement := some (Settlement.ofCandidate k),
                 setCommit := none }
      (fun c => { rec with posture := .settled k.kind,
                           settlement := some (Settlement.ofCandidate k), setCommit := some c })
      (fun c => .admitted (Settlement.ofCandidate k) c) with ⟨o1, _, _, _, o5, _⟩ | ⟨o1, _⟩
    · rw [h] at o1 o5
      simp only at o1 o5
      cases o1
      rw [o5]
      unfold retrySettlement
      simp only [Bool.not_true, Bool.false_eq_true, if_false, Index.get, Index.apply]
      rw [SMap.find?_insert]
      simp only [hk, if_true, h4, h3, hv]
      simp
    · rw [h] at o1; cases o1

/-- **recover_eq_uninterrupted.** After any history, whenever the coordinator is usable it is
    exactly (index entries, stored Merkle nodes and hence root digest, WAL continuation) what
    `recover` rebuilds from the store alone — so stopping and recovering at that point continues
    the uninterrupted run, and every grant reconstructed from the recovered coordinator
    (`recorded_request`, `claim_grant`, `admitted_settlement`, retry) is the live one. -/
theorem recover_eq_uninterrupted (ops : List Op) (hr : (after ops).coord.ready = true) :
    recover (after ops).store = .ok (after ops).coord :=
  synced_recover (good_after ops).2 hr

/-- **recover_any_stop.** At every point of every history — also while the coordinator is unusable
    after a store fault — the store is recoverable once the uncommitted tail is dropped, the
    recovered index is the fold of the committed transactions, and its lifecycles are prefixes. -/
theorem recover_any_stop (ops : List Op) :
    ∃ c, recover { (after ops).store with dirty := false } = .ok c ∧
      observe (after ops).store.commits = .ok c.index ∧ c.ready = true ∧
      ∀ rid, stages (c.index.get rid) = kindsFor rid (after ops).store.commits := by
  obtain ⟨i, hi⟩ := (good_after ops).1
  refine ⟨{ index := i, nextLsn := (after ops).store.commits.length,
            prevCommit := lastCommit (after ops).store.commits, ready := true }, ?_, hi, rfl, ?_⟩
  · unfold recover
    simp [hi]
  · intro rid
    obtain ⟨_, hs⟩ := observeFrom_spec _ _ _ hi wfi_empty
    simpa [stages, get_empty] using hs rid

/-- **smt_incremental_eq_rebuild.** For every depth `n`, every digest algebra (`E` = empty-subtree
    digests, `N` = node hash — no assumption on either) and every history of leaf writes with
    `n`-bit keys: the root kept incrementally (one path per write over the *stored* sibling digests)
    equals the root recomputed from the complete entry list (latest write per key first). -/
theorem smt_incremental_eq_rebuild {D : Type} (E : Nat → D) (N : Nat → D → D → D) (n : Nat)
    (ups : List (List Bool × D)) (hl : ∀ kv ∈ ups, kv.1.length = n) :
    Trie.dig E 0 (applyUps E N Trie.nil ups) = build E N 0 n ups.reverse := by
  have := inv_applyUps E N n ups Trie.nil [] hl (inv_nil E N n 0)
  simpa using inv_dig E N this

/-- **smt_root_entry_set.** The recomputed root is a function of the key → leaf map alone: two entry
    lists with the same lookup function (whatever their order and shadowed older writes) have the
    same root. Together with the previous theorem: the incremental root does not depend on the
    order in which requests were recorded or advanced. -/
theorem smt_root_entry_set {D : Type} (E : Nat → D) (N : Nat → D → D → D) (n : Nat)
    (es es' : List (List Bool × D)) (h : ∀ kv ∈ es, kv.1.length = n) (h' : ∀ kv ∈ es', kv.1.length = n)
    (hl : ∀ k, lookup k es = lookup k es') : build E N 0 n es = build E N 0 n es' :=
  build_congr E N n 0 es es' h h' hl

/-- **index_root_eq_rebuild.** The coordinator's lifecycle-index root after any sequence of entry
    writes is the rebuilt root over the 256-bit request-id keys. -/
theorem index_root_eq_rebuild (es : List Entry) :
    (es.foldl Index.put Index.empty).rootDigest =
      build DX.empty DX.node 0 indexDepth
        ((es.map (fun e => (keyBits indexDepth e.request.rid, leafOf e))).reverse) := by
  have hfold : ∀ (l : List Entry) (i : Index),
      (l.foldl Index.put i).trie =
        applyUps DX.empty DX.node i.trie (l.map (fun e => (keyBits indexDepth e.request.rid, leafOf e))) := by
    intro l
    induction l with
    | nil => intro i; rfl
    | cons e rest ih =>
      intro i
      simp only [List.foldl_cons, List.map_cons, applyUps]
      rw [ih]
      rfl
  have hlen : ∀ kv ∈ es.map (fun e => (keyBits indexDepth e.request.rid, leafOf e)),
      kv.1.length = indexDepth := by
    intro kv hkv
    simp only [List.mem_map] at hkv
    obtain ⟨e, _, rfl⟩ := hkv
    simp [keyBits]
  simp only [Index.rootDigest, hfold es Index.empty]
  exact smt_incremental_eq_rebuild DX.empty DX.node indexDepth _ hlen

/-! ### non-vacuity -/

def reqA : Request :=
  { rid := 5, idOk := true, worldline := 1, operation := 2, inSchema := 3, setSchema := 4, scope := 6,
    basis := 7, maxBytes := 2, maxAttempts := 1, input := 8, law := 9 }
def authA : Auth := { adapter := 11, operation := 2, scope := 6, rid := 5, basis := 7, policy := 12 }
def claimA : Claim := Claim.forRequest reqA 11 0 13 12
def candA : Candidate :=
  { rid := 5, attempt := claimA.attempt, adapter := 11, kind := 1, schema := 4, basis := 7,
    bytes := [1, 2], digestOk := true, schemaEv := 14, extEv := 15 }
/-- **crash_atomic_partial.** The shared commit tail of the three transitions (`commitStep`; each
    transition is either a typed rejection or exactly one `commitStep`, see `*_shape`), taken from a
    usable coordinator, is all-or-nothing under every store fault: if the frame append fails, or the
    frame is stored but the commit flush fails (stop mid-transaction), then dropping the tail and
    recovering returns the coordinator exactly as before the step; if the commit is stored but its
    acknowledgement is lost, recovery returns exactly the coordinator of the uninterrupted step.
    (Full statement = the same for `step` on the three transition ops; the lifting over the
    rejection branches is not done.) -/
theorem crash_atomic_partial (s : Sys) (body : TxBody) (e : Entry) (fin : Nat → Entry)
    (mk : Nat → Out) (hg : Good s) (hr : s.coord.ready = true)
    (hbody : ∀ c, applyBody s.coord.index c body = .ok (s.coord.index.put (fin c)))
    (hleaf : ∀ c, leafOf (fin c) = leafOf e ∧ (fin c).request.rid = e.request.rid) :
    (∀ k, k = 1 ∨ k = 2 →
      recover { (commitStep (withFault s k) body e fin mk).1.store with dirty := false } = .ok s.coord) ∧
    recover (commitStep (withFault s 3) body e fin mk).1.store
      = .ok (commitStep (withFault s 0) body e fin mk).1.coord :=
  commitStep_crash_atomic s body e fin mk hg hr hbody hleaf

-- the hypotheses are met, e.g., by the request transition on the empty store
example : ∀ c, applyBody genesis.coord.index c (.request reqA)
    = .ok (genesis.coord.index.put { entry0 reqA with reqCommit := c }) := fun _ => rfl

def happy : List Op :=
  [.request reqA, .claim reqA authA 7 0 13, .settle reqA claimA 1 candA, .retry candA]

set_option maxRecDepth 100000

-- the happy path commits three transactions, issues one claim grant and answers the retry
example : (after happy).store.commits.length = 3 := by decide
example : ((trace happy).filter (isFreshClaim 5)).length = 1 := by decide
example : kindsFor 5 (after happy).store.commits = [Kind.request, Kind.claim, Kind.settlement] := by decide
example : (trace happy).map (fun p => match p.2 with | .admitted _ c => c | _ => 99) = [99, 99, 2, 2] := by decide
-- a second claim, and a settlement for a foreign attempt, are refused with the typed errors
example : (step (after [.request reqA, .claim reqA authA 7 0 13]) (.claim reqA authA 7 0 13)).2
    = .err .duplicateClaim := by decide
example : (step (after [.request reqA, .claim reqA authA 7 0 13])
    (.settle reqA claimA 1 { candA with attempt := .raw 1 })).2 = .err .settlementClaimMismatch := by decide
-- a lost acknowledgement: no grant, coordinator down, yet the step is durable and recovery shows it
example : (after [.fault 3, .request reqA]).coord.ready = false := by decide
example : (trace [.fault 3, .request reqA, .recover, .recordedRequest 5]).map (fun p => p.2)
    = [.done, .err .walStore, .done, .recorded reqA 0] := by decide

end EchoVerif.C17
