/-
  C05 — history is hash-chained and tamper-evident.

  Byte-level binding of the commit id and the patch digest (`Lemmas/ChainBytes.lean`), the
  append-only chain invariant of the store, and tamper evidence of replay: over the generic model
  `Model/Chain.lean` (any graph state, patch semantics, digest type), under explicit injectivity
  hypotheses on the digest functions.
-/
import EchoVerif.Lemmas.Chain
import EchoVerif.Lemmas.ChainBytes
import EchoVerif.Lemmas.PatchBytes
import EchoVerif.Props.C07

set_option linter.unusedSimpArgs false
set_option linter.unusedVariables false
set_option linter.unusedSectionVars false

namespace EchoVerif.C05
open EchoVerif EchoVerif.Chain

/-! ### commit_binds -/

/-- **commit_binds** (commit id): the pre-image hashed by `compute_commit_hash_v2` is injective in
    (parents, state root, patch digest, policy) — 32-byte digests, u64 parent count, u32 policy. -/
theorem commit_binds (ps ps' : List Bytes) (root root' pd pd' : Bytes) (policy policy' : Nat)
    (hps : ∀ p ∈ ps, p.length = 32) (hps' : ∀ p ∈ ps', p.length = 32)
    (hr : root.length = 32) (hr' : root'.length = 32) (hd : pd.length = 32) (hd' : pd'.length = 32)
    (hn : ps.length < 2 ^ 64) (hn' : ps'.length < 2 ^ 64)
    (hpol : policy < 2 ^ 32) (hpol' : policy' < 2 ^ 32)
    (h : ChainBytes.commitBytes ps root pd policy = ChainBytes.commitBytes ps' root' pd' policy') :
    ps = ps' ∧ root = root' ∧ pd = pd' ∧ policy = policy' :=
  ChainBytes.commitBytes_inj ps ps' root root' pd pd' policy policy' hps hps' hr hr' hd hd' hn hn' hpol hpol' h

/-- With a collision-free hash the commit id itself binds the four fields. -/
theorem commit_id_binds {Dg : Type} (H : Bytes → Dg) (hH : Function.Injective H)
    (ps ps' : List Bytes) (root root' pd pd' : Bytes) (policy policy' : Nat)
    (hps : ∀ p ∈ ps, p.length = 32) (hps' : ∀ p ∈ ps', p.length = 32)
    (hr : root.length = 32) (hr' : root'.length = 32) (hd : pd.length = 32) (hd' : pd'.length = 32)
    (hn : ps.length < 2 ^ 64) (hn' : ps'.length < 2 ^ 64)
    (hpol : policy < 2 ^ 32) (hpol' : policy' < 2 ^ 32)
    (h : H (ChainBytes.commitBytes ps root pd policy) = H (ChainBytes.commitBytes ps' root' pd' policy')) :
    ps = ps' ∧ root = root' ∧ pd = pd' ∧ policy = policy' :=
  commit_binds ps ps' root root' pd pd' policy policy' hps hps' hr hr' hd hd' hn hn' hpol hpol' (hH h)

example : Function.Injective (id : Bytes → Bytes) := fun _ _ h => h

/-- **patch_digest_binds**: the complete pre-image of `compute_patch_digest_v2` — tag, u16 version,
    u32 policy, 32-byte rule pack, status byte, then `encode_slots(in)`, `encode_slots(out)`,
    `encode_ops(ops)` with u64 counts, the extracted tag bytes of all 4 slot kinds, all 8 op kinds,
    portal init, option markers, attachment owner/plane/value tags and u64-length-prefixed atom bytes —
    is injective in EVERY field: (policy, rule pack, status, in_slots, out_slots, ops).
    Proved by prefix-unique parsing of each encoder (`Lemmas/PatchBytes.lean`). -/
theorem patch_digest_binds (policy policy' : Nat) (rp rp' : Bytes) (st st' : UInt8)
    (ins ins' outs outs' : List PatchBytes.FSlot) (ops ops' : List PatchBytes.FOp)
    (hrp : rp.length = 32) (hrp' : rp'.length = 32) (hpol : policy < 2 ^ 32) (hpol' : policy' < 2 ^ 32)
    (h1 : PatchBytes.wfList PatchBytes.FSlot.wf ins) (h1' : PatchBytes.wfList PatchBytes.FSlot.wf ins')
    (h2 : PatchBytes.wfList PatchBytes.FSlot.wf outs) (h2' : PatchBytes.wfList PatchBytes.FSlot.wf outs')
    (h3 : PatchBytes.wfList PatchBytes.FOp.wf ops) (h3' : PatchBytes.wfList PatchBytes.FOp.wf ops')
    (h : PatchBytes.patchBytesFull policy rp st ins outs ops
       = PatchBytes.patchBytesFull policy' rp' st' ins' outs' ops') :
    policy = policy' ∧ rp = rp' ∧ st = st' ∧ ins = ins' ∧ outs = outs' ∧ ops = ops' :=
  PatchBytes.patchBytesFull_inj policy policy' rp rp' st st' ins ins' outs outs' ops ops'
    hrp hrp' hpol hpol' h1 h1' h2 h2' h3 h3' h

/-- With a collision-free hash the patch digest itself binds every field of the patch contents. -/
theorem patch_digest_id_binds {Dg : Type} (H : Bytes → Dg) (hH : Function.Injective H)
    (policy policy' : Nat) (rp rp' : Bytes) (st st' : UInt8)
    (ins ins' outs outs' : List PatchBytes.FSlot) (ops ops' : List PatchBytes.FOp)
    (hrp : rp.length = 32) (hrp' : rp'.length = 32) (hpol : policy < 2 ^ 32) (hpol' : policy' < 2 ^ 32)
    (h1 : PatchBytes.wfList PatchBytes.FSlot.wf ins) (h1' : PatchBytes.wfList PatchBytes.FSlot.wf ins')
    (h2 : PatchBytes.wfList PatchBytes.FSlot.wf outs) (h2' : PatchBytes.wfList PatchBytes.FSlot.wf outs')
    (h3 : PatchBytes.wfList PatchBytes.FOp.wf ops) (h3' : PatchBytes.wfList PatchBytes.FOp.wf ops')
    (h : H (PatchBytes.patchBytesFull policy rp st ins outs ops)
       = H (PatchBytes.patchBytesFull policy' rp' st' ins' outs' ops')) :
    policy = policy' ∧ rp = rp' ∧ st = st' ∧ ins = ins' ∧ outs = outs' ∧ ops = ops' :=
  patch_digest_binds policy policy' rp rp' st st' ins ins' outs outs' ops ops'
    hrp hrp' hpol hpol' h1 h1' h2 h2' h3 h3' (hH h)

/-- The bytes the driver renders for the correspondence run (whose BLAKE3 is compared with the real
    `patch_digest` on every generated entry) are this full layout. -/
theorem patch_digest_layout (p : ChainGraph.Patch)
    (hin : ∀ s ∈ ChainGraph.canonSlots p.inSlots, s.1 = 1 ∨ s.1 = 2)
    (hout : ∀ s ∈ ChainGraph.canonSlots p.outSlots, s.1 = 1 ∨ s.1 = 2) :
    ChainGraph.patchBytes p = PatchBytes.patchBytesFull p.policy (ChainGraph.id32B p.rulePack)
      Generated.PatchTags.statusCommitted
      ((ChainGraph.canonSlots p.inSlots).map PatchBytes.embedSlot)
      ((ChainGraph.canonSlots p.outSlots).map PatchBytes.embedSlot)
      ((ChainGraph.canonOps p.ops).map PatchBytes.embedOp) :=
  PatchBytes.patchBytes_full_layout p hin hout

/-- non-vacuity: well-formed values of every shape exist (32-byte ids, a port slot, a portal op,
    an atom attachment). -/
example : PatchBytes.wfList PatchBytes.FSlot.wf
    [.node (ChainGraph.id32B 1) (ChainGraph.id32B 2), .port (ChainGraph.id32B 1) 7,
     .att { node := false, alpha := false, warp := ChainGraph.id32B 1, loc := ChainGraph.id32B 3 }] := by
  refine ⟨by decide, ?_⟩
  intro x hx
  simp only [List.mem_cons, List.mem_nil_iff, or_false] at hx
  rcases hx with h | h | h <;> subst h
  · exact ⟨PatchBytes.id32B_length _, PatchBytes.id32B_length _⟩
  · exact ⟨PatchBytes.id32B_length _, by decide⟩
  · exact ⟨PatchBytes.id32B_length _, PatchBytes.id32B_length _⟩
example : PatchBytes.FOp.wf (.openPortal
    { node := true, alpha := true, warp := ChainGraph.id32B 1, loc := ChainGraph.id32B 2 }
    (ChainGraph.id32B 4) (ChainGraph.id32B 5) (.empty (ChainGraph.id32B 6))) :=
  ⟨⟨PatchBytes.id32B_length _, PatchBytes.id32B_length _⟩, PatchBytes.id32B_length _,
    PatchBytes.id32B_length _, PatchBytes.id32B_length _⟩
example : PatchBytes.FOp.wf (.setAttachment
    { node := true, alpha := true, warp := ChainGraph.id32B 1, loc := ChainGraph.id32B 2 }
    (some (.atom (ChainGraph.id32B 9) [1, 2, 3]))) :=
  ⟨⟨PatchBytes.id32B_length _, PatchBytes.id32B_length _⟩, PatchBytes.id32B_length _, by decide⟩

variable {S P D O M : Type} [DecidableEq D] [DecidableEq M] [DecidableEq O]
variable (sem : Sem S P D O M)

/-! ### append_only_chain -/

/-- The chain invariant of a provenance store: in every worldline the entry at index `i` carries tick
    `i` and the worldline's id, and each of its parent refs names an entry that is present with exactly
    the recorded commit hash. -/
def ChainOk (pv : Prov S P D O M) : Prop :=
  ∀ (w : Nat) (h : Hist S P D O M), pv.get w = some h → ∀ (i : Nat) (e : Entry P D O),
    h.entries[i]? = some e →
    e.tick = i ∧ e.wl = w ∧
    ∀ p ∈ e.parents, ∃ (h' : Hist S P D O M) (e' : Entry P D O),
      pv.get p.wl = some h' ∧ h'.entries[p.tick]? = some e' ∧ e'.expCommit = p.commit

theorem get_set_same : ∀ (pv : Prov S P D O M) (w : Nat) (h : Hist S P D O M), (pv.set w h).get w = some h
  | [], w, h => by simp [Prov.set, Prov.get, List.lookup]
  | (w', h') :: rest, w, h => by
    unfold Prov.set
    by_cases e : w' = w
    · rw [if_pos e]; simp [Prov.get, List.lookup]
    · rw [if_neg e]
      have : (w == w') = false := by simp; exact fun x => e x.symm
      simp only [Prov.get, List.lookup, this]
      exact get_set_same rest w h

theorem get_set_other : ∀ (pv : Prov S P D O M) (w w2 : Nat) (h : Hist S P D O M), w2 ≠ w →
    (pv.set w h).get w2 = pv.get w2
  | [], w, w2, h, hne => by
    have : (w2 == w) = false := by simp; exact hne
    simp [Prov.set, Prov.get, List.lookup, this]
  | (w', h') :: rest, w, w2, h, hne => by
    unfold Prov.set
    by_cases e : w' = w
    · rw [if_pos e]
      subst e
      have : (w2 == w') = false := by simp; exact hne
      simp [Prov.get, List.lookup, this]
    · rw [if_neg e]
      simp only [Prov.get, List.lookup]
      cases hb : (w2 == w') with
      | true => rfl
      | false => exact get_set_other rest w w2 h hne

theorem parentsResolve_none (pv : Prov S P D O M) : ∀ (ps : List (PRef D)), parentsResolve pv ps = none →
    ∀ p ∈ ps, ∃ (h' : Hist S P D O M) (e' : Entry P D O),
      pv.get p.wl = some h' ∧ h'.entries[p.tick]? = some e' ∧ e'.expCommit = p.commit
  | [], _, p, hp => by cases hp
  | q :: rest, hr, p, hp => by
    unfold parentsResolve at hr
    cases hg : pv.get q.wl with
    | none => rw [hg] at hr; simp at hr
    | some h' =>
      rw [hg] at hr
      simp only [Option.bind] at hr
      cases he : h'.entries[q.tick]? with
      | none => rw [he] at hr; cases hr
      | some e' =>
        rw [he] at hr
        simp only [] at hr
        by_cases hc : e'.expCommit ≠ q.commit
        · rw [if_pos hc] at hr; cases hr
        · rw [if_neg hc] at hr
          rcases List.mem_cons.mp hp with hpq | hpr
          · subst hpq; exact ⟨h', e', hg, he, Decidable.of_not_not hc⟩
          · exact parentsResolve_none pv rest hr p hpr

theorem validateLocal_none (lt : D → D → Bool) (pv : Prov S P D O M) (len : Nat) (e : Entry P D O)
    (h : validateLocal sem lt pv len e = none) :
    e.tick = len ∧ parentsAscending lt e.parents = true ∧ parentsResolve pv e.parents = none ∧
      (∃ hid, e.head = some (e.wl, hid)) ∧ e.patch.isSome ∧ e.localKind = true := by
  unfold validateLocal at h
  by_cases h1 : e.tick ≠ len
  · rw [if_pos h1] at h; cases h
  rw [if_neg h1] at h
  cases h2 : parentsAscending lt e.parents with
  | false => rw [h2] at h; simp at h
  | true =>
    rw [h2] at h
    simp only [Bool.not_true, Bool.false_eq_true, if_false] at h
    cases h3 : parentsResolve pv e.parents with
    | some err => rw [h3] at h; cases h
    | none =>
      rw [h3] at h
      simp only [] at h
      cases h4 : e.head with
      | none => rw [h4] at h; cases h
      | some hk =>
        rw [h4] at h
        simp only [] at h
        by_cases h5 : hk.1 ≠ e.wl
        · rw [if_pos h5] at h; cases h
        rw [if_neg h5] at h
        cases h6 : e.patch with
        | none => rw [h6] at h; cases h
        | some p =>
          rw [h6] at h
          simp only [] at h
          cases h7 : e.localKind with
          | false =>
            rw [h7] at h
            split at h
            · cases h
            · simp at h
          | true =>
            refine ⟨Decidable.of_not_not h1, rfl, rfl, ⟨hk.2, ?_⟩, rfl, rfl⟩
            have : hk.1 = e.wl := Decidable.of_not_not h5
            rw [← this]

/-- **append_only_chain**: a successful `append_local_commit` extends exactly the entry's own
    worldline by exactly that entry at exactly the next tick, touches nothing else, and preserves the
    chain invariant (gap-free ticks, parents present with the recorded commit hash). -/
theorem append_only_chain (lt : D → D → Bool) (pv pv' : Prov S P D O M) (e : Entry P D O)
    (hok : ChainOk pv) (ha : appendLocal sem lt pv e = .ok pv') :
    ChainOk pv' ∧
    (∃ h, pv.get e.wl = some h ∧ pv'.get e.wl = some { h with entries := h.entries ++ [e] } ∧
      e.tick = h.entries.length) ∧
    (∀ w, w ≠ e.wl → pv'.get w = pv.get w) := by
  unfold appendLocal at ha
  cases hg : pv.get e.wl with
  | none => rw [hg] at ha; cases ha
  | some h =>
    rw [hg] at ha
    simp only [] at ha
    cases hv : validateLocal sem lt pv h.entries.length e with
    | some err => rw [hv] at ha; cases ha
    | none =>
      rw [hv] at ha
      simp only [] at ha
      injection ha with ha
      subst ha
      obtain ⟨htick, _, hres, _, _, _⟩ := validateLocal_none sem lt pv h.entries.length e hv
      have hsame := get_set_same pv e.wl { h with entries := h.entries ++ [e] }
      have hother := fun w (hne : w ≠ e.wl) => get_set_other pv e.wl w { h with entries := h.entries ++ [e] } hne
      -- entries only ever gain a suffix
      have mono : ∀ (w2 : Nat) (h2 : Hist S P D O M) (j : Nat) (e2 : Entry P D O),
          pv.get w2 = some h2 → h2.entries[j]? = some e2 →
          ∃ (h2' : Hist S P D O M), (pv.set e.wl { h with entries := h.entries ++ [e] }).get w2 = some h2' ∧ h2'.entries[j]? = some e2 := by
        intro w2 h2 j e2 hg2 he2
        by_cases hw : w2 = e.wl
        · subst hw
          rw [hg] at hg2
          injection hg2 with hg2
          subst hg2
          refine ⟨_, hsame, ?_⟩
          have hj : j < h.entries.length := by
            by_cases hh : j < h.entries.length
            · exact hh
            · rw [List.getElem?_eq_none (by omega)] at he2; cases he2
          simp only []
          rw [List.getElem?_append_left hj]; exact he2
        · exact ⟨h2, by rw [hother w2 hw]; exact hg2, he2⟩
      have liftParents : ∀ (ps : List (PRef D)),
          (∀ p ∈ ps, ∃ (h' : Hist S P D O M) (e' : Entry P D O),
            pv.get p.wl = some h' ∧ h'.entries[p.tick]? = some e' ∧ e'.expCommit = p.commit) →
          ∀ p ∈ ps, ∃ (h' : Hist S P D O M) (e' : Entry P D O), (pv.set e.wl { h with entries := h.entries ++ [e] }).get p.wl = some h' ∧
            h'.entries[p.tick]? = some e' ∧ e'.expCommit = p.commit := by
        intro ps hps p hp
        obtain ⟨h', e', h1, h2, h3⟩ := hps p hp
        obtain ⟨h2', h4, h5⟩ := mono p.wl h' p.tick e' h1 h2
        exact ⟨h2', e', h4, h5, h3⟩
      refine ⟨?_, ⟨h, rfl, hsame, htick⟩, hother⟩
      intro w h1 hg1 i e1 he1
      by_cases hw : w = e.wl
      · subst hw
        rw [hsame] at hg1
        injection hg1 with hg1
        subst hg1
        simp only [] at he1
        by_cases hi : i < h.entries.length
        · rw [List.getElem?_append_left hi] at he1
          obtain ⟨a, b, c⟩ := hok e.wl h hg i e1 he1
          exact ⟨a, b, liftParents e1.parents c⟩
        · have hi' : h.entries.length ≤ i := by omega
          rw [List.getElem?_append_right hi'] at he1
          have hi0 : i - h.entries.length = 0 := by
            by_cases hz : i - h.entries.length = 0
            · exact hz
            · rw [List.getElem?_eq_none (by simp; omega)] at he1; cases he1
          rw [hi0] at he1
          simp only [List.getElem?_cons_zero] at he1
          injection he1 with he1
          subst he1
          exact ⟨by omega, rfl, liftParents e.parents (parentsResolve_none pv e.parents hres)⟩
      · rw [hother w hw] at hg1
        obtain ⟨a, b, c⟩ := hok w h1 hg1 i e1 he1
        exact ⟨a, b, liftParents e1.parents c⟩

/-- Folding appends: any sequence of successful appends starting from registered, empty worldlines
    yields a store satisfying the chain invariant. -/
theorem appends_chain_ok (lt : D → D → Bool) :
    ∀ (es : List (Entry P D O)) (pv pv' : Prov S P D O M), ChainOk pv →
      es.foldlM (fun pv e => appendLocal sem lt pv e) pv = .ok pv' → ChainOk pv'
  | [], pv, pv', hok, h => by
    simp only [List.foldlM] at h
    injection h with h; subst h; exact hok
  | e :: rest, pv, pv', hok, h => by
    simp only [List.foldlM] at h
    cases ha : appendLocal sem lt pv e with
    | error err => rw [ha] at h; cases h
    | ok pv1 =>
      rw [ha] at h
      exact appends_chain_ok lt rest pv1 pv' (append_only_chain sem lt pv pv1 e hok ha).1 h

theorem chainOk_empty (ws : List (Nat × Nat × D)) :
    ChainOk (ws.map (fun (w, u0, b) => (w, ({ u0 := u0, boundary := b, entries := [], cps := [] } : Hist S P D O M)))) := by
  unfold ChainOk
  intro w h hg i e he
  have : h.entries = [] := by
    unfold Prov.get at hg
    induction ws with
    | nil => simp [List.lookup] at hg
    | cons x rest ih =>
      obtain ⟨w', u0, b⟩ := x
      simp only [List.map_cons, List.lookup] at hg
      cases hb : (w == w') with
      | true => rw [hb] at hg; injection hg with hg; rw [← hg]
      | false => rw [hb] at hg; exact ih hg
  rw [this] at he; cases he

/-- An entry whose tick is not the next one is rejected with a typed error (so swapped, duplicated or
    dropped entries cannot be rebuilt into a store). -/
theorem misplaced_entry_rejected (lt : D → D → Bool) (pv : Prov S P D O M) (e : Entry P D O)
    (h : Hist S P D O M) (hg : pv.get e.wl = some h) (hne : e.tick ≠ h.entries.length) :
    appendLocal sem lt pv e = .error .tickGap := by
  unfold appendLocal
  rw [hg]
  simp only []
  unfold validateLocal
  rw [if_pos hne]

/-! ### replay_verifies -/

/-- **replay_verifies**: every history recorded by the model runtime (any number of faithful commits)
    re-verifies at every tick: replay recomputes state root, commit id and patch digest per entry and
    succeeds, for the whole history and every prefix. -/
theorem replay_verifies (b : Base S) (wl headId : Nat) (ticks : List (C07.LiveTick S P O))
    (hw : Hist S P D O M × WState S D O M)
    (h0 : replayRef sem hw.1 b hw.1.entries.length = (hw.2, none))
    (hf : C07.Faithful sem wl headId hw ticks) (t : Nat)
    (ht : t ≤ (C07.liveRun sem wl headId hw ticks).1.entries.length) :
    ∃ w, replayRef sem (C07.liveRun sem wl headId hw ticks).1 b t = (w, none) :=
  replayRef_prefix_ok sem _ b _ t _ (C07.live_run_equals_replay sem b wl headId ticks hw h0 hf) ht

/-! ### single_field_tamper -/

/-- One alteration of a chain-bound field of a retained entry. `patch p'` is any alteration inside the
    patch (ops, slots, policy, rule pack, warp, stored digest). -/
inductive BoundMutation (P D : Type) where
  | expRoot (x : D)
  | expCommit (x : D)
  | expDigest (x : D)
  | parents (ps : List (PRef D))
  | patch (p' : P)
  | receipt (r : Nat × D)

def mutate : BoundMutation P D → Entry P D O → Entry P D O
  | .expRoot x, e => { e with expRoot := x }
  | .expCommit x, e => { e with expCommit := x }
  | .expDigest x, e => { e with expDigest := x }
  | .parents ps, e => { e with parents := ps }
  | .patch p', e => { e with patch := some p' }
  | .receipt r, e => { e with receipt := some r }

/-- Side conditions that make the alteration one of a *bound* field: a patch alteration leaves the
    diagnostic header digests alone (those are the unbound fields, see `unbound_fields`), a receipt
    alteration alters an existing receipt. -/
def Bound (e : Entry P D O) : BoundMutation P D → Prop
  | .patch p' => ∃ p, e.patch = some p ∧ sem.pmeta p' = sem.pmeta p ∧ sem.decision p' = sem.decision p
  | .receipt _ => e.receipt.isSome
  | _ => True

/-- The commit id binds its four arguments (what `commit_binds` + a collision-free hash give). -/
def CommitInjective : Prop :=
  ∀ ps ps' r r' d d' k k', sem.commit ps r d k = sem.commit ps' r' d' k' → ps = ps' ∧ r = r' ∧ d = d' ∧ k = k'

theorem mutate_outputs (m : BoundMutation P D) (e : Entry P D O) : (mutate m e).outputs = e.outputs := by
  cases m <;> rfl

/-- One verification step on the altered entry: a typed error, or exactly the original outcome. -/
theorem step_tamper (hR : Function.Injective sem.root) (hC : CommitInjective sem)
    (u0 k : Nat) (e : Entry P D O) (c c' : Core S D M) (m : BoundMutation P D)
    (hb : Bound sem e m) (hs : step sem u0 k e c = (c', none)) :
    (step sem u0 k (mutate m e) c).2 ≠ none ∨ step sem u0 k (mutate m e) c = (c', none) := by
  obtain ⟨p, g', a, hp, hw, hap, hroot, hcommit, hart, hc'⟩ := step_ok_inv sem hs
  obtain ⟨hd1, hd2, hrc, ha⟩ := artOf_ok_inv sem hart
  cases hst : step sem u0 k (mutate m e) c with
  | mk c2 r2 =>
    cases r2 with
    | some err => left; intro z; cases z
    | none =>
      right
      obtain ⟨p2, g2, a2, hp2, hw2, hap2, hroot2, hcommit2, hart2, hc2⟩ := step_ok_inv sem hst
      obtain ⟨hd1', hd2', hrc', ha2⟩ := artOf_ok_inv sem hart2
      rw [hc2, hc', ha2, ha]
      cases m with
      | expRoot x =>
        simp only [mutate] at hp2 hroot2 hcommit2 ⊢
        rw [hp] at hp2; injection hp2 with hp2; subst hp2
        rw [hap] at hap2; injection hap2 with hg; subst hg
        rw [← hroot2, hroot]
      | expCommit x =>
        simp only [mutate] at hp2 hroot2 hcommit2 ⊢
        rw [hp] at hp2; injection hp2 with hp2; subst hp2
        rw [hap] at hap2; injection hap2 with hg; subst hg
        rw [← hcommit2, hcommit]
      | expDigest x =>
        simp only [mutate] at hp2 hroot2 hcommit2 ⊢
        rw [hp] at hp2; injection hp2 with hp2; subst hp2
        rw [hap] at hap2; injection hap2 with hg; subst hg
        have := (hC _ _ _ _ _ _ _ _ (hcommit2.trans hcommit.symm)).2.2.1
        rw [this]
      | parents ps =>
        simp only [mutate] at hp2 hroot2 hcommit2 ⊢
        rw [hp] at hp2; injection hp2 with hp2; subst hp2
        rw [hap] at hap2; injection hap2 with hg; subst hg
        have := (hC _ _ _ _ _ _ _ _ (hcommit2.trans hcommit.symm)).1
        rw [this]
      | receipt r =>
        obtain ⟨tx, dg⟩ := r
        simp only [mutate] at hp2 hroot2 hcommit2 hrc' ⊢
        rw [hp] at hp2; injection hp2 with hp2; subst hp2
        rw [hap] at hap2; injection hap2 with hg; subst hg
        obtain ⟨t1, t2⟩ := hrc' tx dg rfl
        unfold Bound at hb
        cases hr : e.receipt with
        | none => rw [hr] at hb; cases hb
        | some r0 =>
          obtain ⟨tx0, dg0⟩ := r0
          obtain ⟨t3, t4⟩ := hrc tx0 dg0 hr
          rw [t1, t2, t3, t4]
      | patch p' =>
        obtain ⟨p0, hp0, hmeta, hdec⟩ := hb
        rw [hp] at hp0; injection hp0 with hp0; subst hp0
        simp only [mutate] at hp2 hroot2 hcommit2 ⊢
        injection hp2 with hp2; subst hp2
        have hg : g2 = g' := hR (by rw [hroot2, hroot])
        subst hg
        have hpol := (hC _ _ _ _ _ _ _ _ (hcommit2.trans hcommit.symm)).2.2.2
        rw [hpol, hmeta]

/-- A run over a list that differs at one index: a typed error, or exactly the original result. -/
theorem runFrom_tamper (hR : Function.Injective sem.root) (hC : CommitInjective sem)
    (u0 i : Nat) (es : List (Entry P D O)) (e : Entry P D O) (m : BoundMutation P D)
    (hei : es[i]? = some e) (hb : Bound sem e m) :
    ∀ (n k : Nat) (c c' : Core S D M), runFrom sem u0 es k n c = (c', none) →
      (runFrom sem u0 (es.set i (mutate m e)) k n c).2 ≠ none ∨
      runFrom sem u0 (es.set i (mutate m e)) k n c = (c', none)
  | 0, k, c, c', h => Or.inr h
  | n + 1, k, c, c', h => by
    simp only [runFrom] at h ⊢
    cases hk : es[k]? with
    | none => rw [hk] at h; cases h
    | some ek =>
      rw [hk] at h
      simp only [] at h
      cases hs : step sem u0 k ek c with
      | mk c1 r =>
        rw [hs] at h
        cases r with
        | some err => cases h
        | none =>
          simp only [] at h
          have hrest := runFrom_tamper hR hC u0 i es e m hei hb n (k + 1) c1 c' h
          by_cases hik : i = k
          · subst hik
            have hlt : i < es.length := by
              by_cases hh : i < es.length
              · exact hh
              · rw [List.getElem?_eq_none (by omega)] at hk; cases hk
            rw [List.getElem?_set_self hlt]
            simp only []
            rw [hei] at hk
            injection hk with hk
            subst hk
            rcases step_tamper sem hR hC u0 i e c c1 m hb hs with hl | hr
            · left
              cases hst : step sem u0 i (mutate m e) c with
              | mk c2 r2 =>
                rw [hst] at hl
                cases r2 with
                | none => exact absurd rfl hl
                | some err => simp
            · rw [hr]; exact hrest
          · rw [List.getElem?_set_ne hik, hk]
            simp only []
            rw [hs]
            exact hrest

/-- **single_field_tamper**: take any history that verifies up to `t`, alter one chain-bound field of
    one retained entry — the recorded state root, commit hash or patch digest, the parent refs, the
    receipt, or anything inside the patch other than the diagnostic header digests (each op, slot,
    policy, rule pack, warp, stored digest) — at any position `i`. Replaying the altered history to
    `t` then fails with a typed error or yields exactly the original result. Needs: the state root is
    injective and the commit id binds its arguments. -/
theorem single_field_tamper (hR : Function.Injective sem.root) (hC : CommitInjective sem)
    (h : Hist S P D O M) (b : Base S) (i t : Nat) (e : Entry P D O) (m : BoundMutation P D)
    (s : WState S D O M)
    (hei : h.entries[i]? = some e) (hb : Bound sem e m)
    (hs : replayRef sem h b t = (s, none)) :
    (replayRef sem { h with entries := h.entries.set i (mutate m e) } b t).2 ≠ none ∨
    replayRef sem { h with entries := h.entries.set i (mutate m e) } b t = (s, none) := by
  by_cases ht : t = 0
  · subst ht
    right
    rw [replayRef_zero] at hs ⊢
    exact hs
  · unfold replayRef at hs ⊢
    obtain ⟨c, el, hrun, hel, hw⟩ := advance_ok_inv sem h _ s 0 t (by omega) hs
    unfold advance
    rw [if_neg (by omega : (0 : Nat) ≠ t)]
    simp only []
    rcases runFrom_tamper sem hR hC h.u0 i h.entries e m hei hb (t - 0) 0 _ c hrun with hl | hr
    · left
      cases hst : runFrom sem h.u0 (h.entries.set i (mutate m e)) 0 (t - 0) (resetBase sem b).core with
      | mk c2 r2 =>
        rw [hst] at hl
        cases r2 with
        | none => exact absurd rfl hl
        | some err => simp
    · right
      rw [hr]
      simp only []
      rw [if_neg ht]
      -- the entry whose outputs become last_materialization carries the same outputs
      have hout : ∃ el', (h.entries.set i (mutate m e))[t - 1]? = some el' ∧ el'.outputs = el.outputs := by
        by_cases hit : i = t - 1
        · subst hit
          have hlt : t - 1 < h.entries.length := by
            by_cases hh : t - 1 < h.entries.length
            · exact hh
            · rw [List.getElem?_eq_none (by omega)] at hel; cases hel
          rw [hei] at hel
          injection hel with hel
          subst hel
          exact ⟨_, List.getElem?_set_self hlt, mutate_outputs m e⟩
        · exact ⟨el, by rw [List.getElem?_set_ne hit]; exact hel, rfl⟩
      obtain ⟨el', h1, h2⟩ := hout
      rw [h1]
      simp only []
      rw [if_pos (by omega : 0 < t), h2, hw]

/-- Truncation: a prefix of the history replays, for every tick it still covers, exactly as before. -/
theorem truncation_prefix (h : Hist S P D O M) (b : Base S) (n t : Nat) (ht : t ≤ n) :
    replayRef sem { h with entries := h.entries.take n } b t = replayRef sem h b t := by
  unfold replayRef advance
  by_cases h0 : 0 = t
  · rw [if_pos h0, if_pos h0]
  · rw [if_neg h0, if_neg h0]
    simp only []
    have hrun : runFrom sem h.u0 (h.entries.take n) 0 (t - 0) (resetBase sem b).core
        = runFrom sem h.u0 h.entries 0 (t - 0) (resetBase sem b).core := by
      apply runFrom_congr
      intro j _ hj
      rw [List.getElem?_take]
      rw [if_pos (by omega)]
      cases he : h.entries[j]? with
      | none => exact Or.inl ⟨rfl, rfl⟩
      | some e => exact Or.inr ⟨e, e, rfl, rfl, fun _ => rfl⟩
    rw [hrun]
    cases hr : runFrom sem h.u0 h.entries 0 (t - 0) (resetBase sem b).core with
    | mk c r =>
      cases r with
      | some err => rfl
      | none =>
        simp only []
        have ht0 : t ≠ 0 := fun z => h0 z.symm
        have hlt : t - 1 < n := by omega
        rw [if_neg ht0, if_neg ht0, List.getElem?_take, if_pos hlt]

/-! ### checkpoint_tamper -/

section CheckpointTamper

/-- One alteration of a retained field of a candidate checkpoint. `histAt j a` replaces the
    `tick_history` element at ANY index `j` by ANY value (any snapshot field, the receipt, the replay
    patch); `hist l` replaces the whole list (dropped / duplicated / swapped elements). -/
inductive CpMutation (S D O M : Type) where
  | tick (t : Nat)
  | hash (x : D)
  | graph (g : S)
  | histAt (j : Nat) (a : Art D M)
  | hist (l : List (Art D M))
  | lastMat (o : O)
  | txc (n : Nat)
  | warp (n : Nat)
  | s0 (s : S)
  | lastSnap (x : Option (Art D M))
  | ingress (n : Nat)
  | errs (n : Nat)

def mutateCp : CpMutation S D O M → Cp S D O M → Cp S D O M
  | .tick t, c => { c with tick := t }
  | .hash x, c => { c with hash := x }
  | .graph g, c => { c with w := { c.w with core := { c.w.core with g := g } } }
  | .histAt j a, c => { c with w := { c.w with core := { c.w.core with hist := c.w.core.hist.set j a } } }
  | .hist l, c => { c with w := { c.w with core := { c.w.core with hist := l } } }
  | .lastMat o, c => { c with w := { c.w with lastMat := o } }
  | .txc n, c => { c with w := { c.w with txc := n } }
  | .warp n, c => { c with warp := n }
  | .s0 s, c => { c with s0 := s }
  | .lastSnap x, c => { c with ls := x }
  | .ingress n, c => { c with nIngress := n }
  | .errs n, c => { c with nErrs := n }

/-- `h` is `h0` after some sequence of checkpoints was accepted by `add_checkpoint`. -/
def AcceptedFrom (h0 h : Hist S P D O M) : Prop :=
  ∃ cs : List (Cp S D O M), cs.foldlM (fun h c => addCheckpoint sem h c) h0 = .ok h

theorem addCheckpoint_shape {h h' : Hist S P D O M} {c : Cp S D O M}
    (ha : addCheckpoint sem h c = .ok h') : h' = { h with cps := insertCp c h.cps } := by
  unfold addCheckpoint at ha
  cases hv : validateCp sem h c with
  | some e => rw [hv] at ha; cases ha
  | none => rw [hv] at ha; injection ha with ha; exact ha.symm

/-- Whatever checkpoints were accepted on a verifying history, the set is sound and nothing else
    of the history changed. -/
theorem acceptedFrom_sound (hR : Function.Injective sem.root) (b : Base S) :
    ∀ (cs : List (Cp S D O M)) (h0 h : Hist S P D O M),
      validateBase sem h0 b = none → C07.Verifies sem h0 b → C07.CpSound sem h0 b →
      cs.foldlM (fun h c => addCheckpoint sem h c) h0 = .ok h →
      C07.CpSound sem h b ∧ validateBase sem h b = none ∧ C07.Verifies sem h b ∧
        h.entries = h0.entries ∧ ∀ t, replayRef sem h b t = replayRef sem h0 b t
  | [], h0, h, hb, hv, hcp, hf => by
    simp only [List.foldlM] at hf
    injection hf with hf; subst hf
    exact ⟨hcp, hb, hv, rfl, fun _ => rfl⟩
  | c :: rest, h0, h, hb, hv, hcp, hf => by
    simp only [List.foldlM] at hf
    cases ha : addCheckpoint sem h0 c with
    | error e => rw [ha] at hf; cases hf
    | ok h1 =>
      rw [ha] at hf
      have hs := addCheckpoint_shape sem ha
      have hcp1 := (C07.addCheckpoint_sound sem h0 h1 b c hR hb hv hcp ha).1
      subst hs
      have hb1 : validateBase sem { h0 with cps := insertCp c h0.cps } b = none := hb
      have hv1 : C07.Verifies sem { h0 with cps := insertCp c h0.cps } b := hv
      obtain ⟨r1, r2, r3, r4, r5⟩ := acceptedFrom_sound hR b rest _ h hb1 hv1 hcp1 hf
      exact ⟨r1, r2, r3, r4, fun t => (r5 t).trans rfl⟩

/-- **checkpoint_tamper**: take any history `h0` that verifies, any sequence of earlier checkpoints
    accepted by `add_checkpoint` (giving `h`), and any candidate checkpoint with ANY field altered —
    claimed tick, state hash, state graph, any `tick_history` element at any index (snapshot, receipt,
    replay patch) or the whole list, last materialization, tx counter, root warp, initial state, last
    snapshot, ingress ledger, materialization errors.  Then `add_checkpoint` rejects it with a typed
    error, or the stored candidate is exactly the replayed state of its tick (with `last_snapshot` =
    `tick_history.last`, empty ledgers) and EVERY later `replay_worldline_state_at` and every `seek_to`
    from a cursor holding replayed state — whichever checkpoint it restores from, the candidate
    included — returns exactly what the checkpoint-free replay of the untampered history returns.
    Needs injectivity of the state root (for the graph; all metadata is compared field by field). -/
theorem checkpoint_tamper (hR : Function.Injective sem.root) (h0 h : Hist S P D O M) (b : Base S)
    (hb : validateBase sem h0 b = none) (hv : C07.Verifies sem h0 b) (h0cps : h0.cps = [])
    (hacc : AcceptedFrom sem h0 h) (c : Cp S D O M) (m : CpMutation S D O M) :
    (∃ e, addCheckpoint sem h (mutateCp m c) = .error e) ∨
    (∃ h', addCheckpoint sem h (mutateCp m c) = .ok h' ∧ h'.entries = h0.entries ∧
      (mutateCp m c).w = (replayRef sem h0 b (mutateCp m c).tick).1 ∧
      (mutateCp m c).ls = (mutateCp m c).w.core.hist.getLast? ∧
      (mutateCp m c).nIngress = 0 ∧ (mutateCp m c).nErrs = 0 ∧
      (∀ t s, replayRef sem h0 b t = (s, none) → replayAt sem h' b t = .ok s) ∧
      (∀ (cur : Cursor S D O M) t s, C07.CurInv sem h' b cur → t ≤ cur.pin →
        replayRef sem h0 b t = (s, none) →
        ∃ cur', seekTo sem h' b cur t = (cur', none) ∧ cur'.tick = t ∧ cur'.w = s)) := by
  obtain ⟨cs, hf⟩ := hacc
  have hcp0 : C07.CpSound sem h0 b := by
    intro x hx; rw [h0cps] at hx; cases hx
  obtain ⟨hcp, hbh, hvh, hent, href⟩ := acceptedFrom_sound sem hR b cs h0 h hb hv hcp0 hf
  cases ha : addCheckpoint sem h (mutateCp m c) with
  | error e => exact Or.inl ⟨e, rfl⟩
  | ok h' =>
    right
    have hs := addCheckpoint_shape sem ha
    have hvc : validateCp sem h (mutateCp m c) = none := by
      unfold addCheckpoint at ha
      cases hv' : validateCp sem h (mutateCp m c) with
      | some e => rw [hv'] at ha; cases ha
      | none => rfl
    obtain ⟨hle, _, _, _, _, _, _, _, _, hing, herr, hls⟩ := validateCp_none_inv sem h _ hvc
    obtain ⟨wl, hwl⟩ := hvh
    obtain ⟨sc, hsc⟩ := replayRef_prefix_ok sem h b h.entries.length (mutateCp m c).tick wl hwl hle
    have hsound := (C07.checkpoint_sound sem h b (mutateCp m c) sc hR hbh hvc hsc).1
    obtain ⟨hcp', hent'⟩ := C07.addCheckpoint_sound sem h h' b (mutateCp m c) hR hbh ⟨wl, hwl⟩ hcp ha
    have hb' : validateBase sem h' b = none := by rw [hs]; exact hbh
    have href' : ∀ t, replayRef sem h' b t = replayRef sem h0 b t := by
      intro t; rw [hs]; exact (href t)
    refine ⟨h', rfl, by rw [hent', hent], ?_, hls, hing, herr, ?_, ?_⟩
    · rw [← href, hsc]; exact hsound
    · intro t s hts
      exact C07.replayAt_eq_ref sem h' b t s hb' hcp' (by rw [href' t]; exact hts)
    · intro cur t s hinv hpin hts
      obtain ⟨cur', h1, h2, h3, _⟩ :=
        C07.seek_path_free sem h' b cur t s hb' hinv hcp' hpin (by rw [href' t]; exact hts)
      exact ⟨cur', h1, h2, h3⟩

/-- `mutateCp` reaches every checkpoint value: the theorem is about arbitrary candidates. -/
theorem mutateCp_hist_reaches (c : Cp S D O M) (l : List (Art D M)) :
    (mutateCp (.hist l) c).w.core.hist = l := rfl

end CheckpointTamper

/-! ### unbound_fields: retained fields that replay accepts in altered form -/

section Unbound

/-- patch = (delta, plan digest, rewrites digest, decision digest). -/
abbrev TP := Nat × Nat × Nat × Nat

/-- A toy semantics for the witnesses: states, patches and digests are numbers. -/
def tsem : Sem Nat TP Nat (List Nat) (Nat × Nat × Nat) where
  apply s p := (s + p.1, none)
  root s := s
  pwarp _ := 0
  policy _ := 0
  stored p := p.1 + 1000
  computed p := p.1 + 1000
  decision p := p.2.2.2
  commit ps r d k := ps.sum + r + d + k + 7
  pmeta p := (p.2.1, p.2.2.1, p.2.2.2)
  noOut := []
  emptyRcpt := 0

def tEntry (gtick : Nat) (head : Nat) (p : TP) (rc : Option (Nat × Nat)) (outs : List Nat) (aw : Nat) :
    Entry TP Nat (List Nat) :=
  { wl := 1, tick := 0, gtick := gtick, head := some (1, head), parents := [], localKind := true
    expRoot := 5, expDigest := 1005, expCommit := 1017
    patch := some p, receipt := rc, outputs := outs, atomWrites := aw }

def tHist (e : Entry TP Nat (List Nat)) : Hist Nat TP Nat (List Nat) (Nat × Nat × Nat) :=
  { u0 := 0, boundary := 0, entries := [e], cps := [] }

def tBase : Base Nat := { warp := 0, s0 := 0 }

def tReplay (e : Entry TP Nat (List Nat)) := replayRef tsem (tHist e) tBase 1

/-- The replayed result as comparable data: (graph, tick history, last materialization, tx counter). -/
def view (r : WState Nat Nat (List Nat) (Nat × Nat × Nat) × Option RErr) :=
  (r.1.core.g, r.1.core.hist, r.1.lastMat, r.1.txc, r.2)

def e0 := tEntry 1 7 (5, 11, 12, 13) none [42] 0

/-- **unbound_fields**: for each retained field outside the chain, a concrete history on which the
    altered field is accepted by replay.  `commit_global_tick` (entry and header), `head_key.head_id`
    and `atom_writes` are not part of the replayed result at all (identical result); the header's
    `plan_digest` / `rewrites_digest` / `decision_digest` (no receipt retained) and a dropped receipt
    change only the diagnostic part of `tick_history`; **`outputs` changes `last_materialization`** —
    a different materialized result accepted as verified. -/
theorem unbound_fields :
    -- the original verifies
    (tReplay e0).2 = none ∧
    -- identical result: commit_global_tick, head id, atom writes
    view (tReplay (tEntry 99 7 (5, 11, 12, 13) none [42] 0)) = view (tReplay e0) ∧
    view (tReplay (tEntry 1 8 (5, 11, 12, 13) none [42] 0)) = view (tReplay e0) ∧
    view (tReplay (tEntry 1 7 (5, 11, 12, 13) none [42] 3)) = view (tReplay e0) ∧
    -- accepted, same graph state, different diagnostic digests in tick_history
    ((tReplay (tEntry 1 7 (5, 77, 12, 13) none [42] 0)).2 = none ∧
      (tReplay (tEntry 1 7 (5, 77, 12, 13) none [42] 0)).1.core.g = (tReplay e0).1.core.g ∧
      (tReplay (tEntry 1 7 (5, 77, 12, 13) none [42] 0)).1.core.hist ≠ (tReplay e0).1.core.hist) ∧
    ((tReplay (tEntry 1 7 (5, 11, 78, 13) none [42] 0)).2 = none ∧
      (tReplay (tEntry 1 7 (5, 11, 78, 13) none [42] 0)).1.core.hist ≠ (tReplay e0).1.core.hist) ∧
    ((tReplay (tEntry 1 7 (5, 11, 12, 79) none [42] 0)).2 = none ∧
      (tReplay (tEntry 1 7 (5, 11, 12, 79) none [42] 0)).1.core.hist ≠ (tReplay e0).1.core.hist) ∧
    -- a retained receipt can be dropped
    ((tReplay (tEntry 1 7 (5, 11, 12, 13) (some (1, 13)) [42] 0)).2 = none ∧
      (tReplay (tEntry 1 7 (5, 11, 12, 13) (some (1, 13)) [42] 0)).1.core.hist ≠ (tReplay e0).1.core.hist) ∧
    -- outputs: accepted with a different last_materialization
    ((tReplay (tEntry 1 7 (5, 11, 12, 13) none [43] 0)).2 = none ∧
      (tReplay (tEntry 1 7 (5, 11, 12, 13) none [43] 0)).1.core.g = (tReplay e0).1.core.g ∧
      (tReplay (tEntry 1 7 (5, 11, 12, 13) none [43] 0)).1.lastMat ≠ (tReplay e0).1.lastMat) :=
  ⟨by decide, by decide, by decide, by decide, ⟨by decide, by decide, by decide⟩, ⟨by decide, by decide⟩,
    ⟨by decide, by decide⟩, ⟨by decide, by decide⟩, ⟨by decide, by decide, by decide⟩⟩

/-- Digests as pre-image terms: the hypotheses of `single_field_tamper` are satisfiable. -/
inductive Dg where
  | root (s : Nat)
  | pd (p : Nat)
  | commit (ps : List Dg) (r d : Dg) (k : Nat)

def isem : Sem Nat Nat Dg Unit Unit where
  apply s p := (s + p, none)
  root s := .root s
  pwarp _ := 0
  policy _ := 0
  stored p := .pd p
  computed p := .pd p
  decision _ := .pd 0
  commit := .commit
  pmeta _ := ()
  noOut := ()
  emptyRcpt := .pd 0

example : Function.Injective isem.root := fun a b h => by
  simp only [isem] at h; injection h
example : CommitInjective isem := fun _ _ _ _ _ _ _ _ h => by
  simp only [isem] at h
  injection h with h1 h2 h3 h4; exact ⟨h1, h2, h3, h4⟩

/-! Non-vacuity of `checkpoint_tamper` on the toy instance: its hypotheses hold, the honest
    candidate is accepted, and candidates with one altered `tick_history` field (plan digest of
    entry 0 — a field the commit id does not bind), tx counter or last snapshot are rejected. -/
example : Function.Injective tsem.root := fun _ _ h => h
example : validateBase tsem (tHist e0) tBase = none := by decide
example : C07.Verifies tsem (tHist e0) tBase := ⟨(tReplay e0).1, Prod.ext rfl (by decide)⟩

def tCp : Cp Nat Nat (List Nat) (Nat × Nat × Nat) := Cp.ofState tsem tBase 1 (tReplay e0).1

def accepted (c : Cp Nat Nat (List Nat) (Nat × Nat × Nat)) : Bool :=
  match addCheckpoint tsem (tHist e0) c with
  | .ok _ => true
  | .error _ => false

example : accepted tCp = true := by decide
def tArtAltered : Art Nat (Nat × Nat × Nat) :=
  { hash := 1017, root := 5, parents := [], pdigest := 1005, policy := 0, tx := 1, rcpt := (1, 0), pm := (77, 12, 13) }
example : accepted (mutateCp (.histAt 0 tArtAltered) tCp) = false := by decide
example : accepted (mutateCp (.txc 2) tCp) = false := by decide
example : accepted (mutateCp (.lastSnap none) tCp) = false := by decide
example : accepted (mutateCp (.errs 1) tCp) = false := by decide

end Unbound

end EchoVerif.C05
