/-
  C04 — a tick patch replays to exactly the state the tick produced.
  PROPERTY THEOREMS ONLY. Models: Model/Graph.lean (apply), Model/Diff.lean (diff, sort key),
  Model/Patch.lean (`WarpTickPatchV1::new`, digest pre-image, in-place application);
  extracted table: Generated/OpTable.lean (phase ranks read from `WarpOp::sort_key`).

  The engine's tick patch IS `diff_state(pre, post)` (engine_impl.rs: `commit_with_receipt`,
  `commit_with_state`), so "the patch replays to the post-state" is the diff/apply law below.
-/
import EchoVerif.Lemmas.WfiCheck
import EchoVerif.Lemmas.PatchCanon

namespace EchoVerif.C04
open EchoVerif EchoVerif.Graph SMap

/-- **diff_apply** (the replay law at FULL strength): for ALL fully well-formed states `a`, `b`
    (`WFI`: sorted maps, attachments only on existing owners, instance table and store set have the
    same keys, every instance stored under its own warp id) — ANY instance tables: instances created
    (with or without OpenPortal canonicalisation, portal chains), deleted, re-rooted, re-parented,
    portals opened / retargeted / removed, and every node/edge/attachment edit inside new, surviving
    and deleted instances — if applying `diff_state(a, b)` to `a` succeeds, the result is exactly `b`.
    The one case in which the op loop itself ends in a state different from `b` (a NEW portal whose
    parent-slot edge is re-parented in the same diff, so the re-emitted SetAttachment is skipped) is
    proved to be rejected by `validate_portal_invariants`. -/
theorem diff_apply (a b c : WState) (ha : WFI a) (hb : WFI b)
    (h : applyOps a (diffState a b) = .ok c) : c = b := diff_apply_full ha hb h

/-- **diff_apply_total**: the outcome of replaying the delta is `b` or a typed error — never a
    third state. -/
theorem diff_apply_total (a b : WState) (ha : WFI a) (hb : WFI b) :
    applyOps a (diffState a b) = .ok b ∨ ∃ e, applyOps a (diffState a b) = .error e := by
  cases h : applyOps a (diffState a b) with
  | error e => exact Or.inr ⟨e, rfl⟩
  | ok c => rw [diff_apply a b c ha hb h]; exact Or.inl rfl

/-- **diff_apply_ok**: the replay is `.ok` (and then yields `b`) exactly when no op of the diff fails
    in sequence and, if some op touched the portal topology, the final portal validation passes —
    nothing else can go wrong. -/
theorem diff_apply_ok (a b : WState) (ha : WFI a) (hb : WFI b) :
    applyOps a (diffState a b) = .ok b ↔
      ∃ c t, applyLoop a false (diffState a b) = .ok (c, t) ∧
        (t = true → validatePortalInvariants c = .ok ()) := by
  constructor
  · intro h
    obtain ⟨t, hl⟩ := applyOps_loop h
    refine ⟨b, t, hl, ?_⟩
    intro ht; subst ht; exact applyOps_validated h hl
  · rintro ⟨c, t, hl, hv⟩
    have h : applyOps a (diffState a b) = .ok c := by
      simp only [applyOps, hl]
      cases t with
      | false => rfl
      | true => simp only [if_true, hv rfl]
    have e := diff_apply a b c ha hb h
    rw [e] at h; exact h

/-- **diff_apply_ok_validates**: a successful replay of a diff containing an instance-level op
    certifies that `b` itself satisfies the portal invariants (no orphan instance, no dangling
    portal) — a `b` violating them can only produce a typed error. -/
theorem diff_apply_ok_validates (a b : WState) (ha : WFI a) (hb : WFI b)
    (h : applyOps a (diffState a b) = .ok b) (hi : ∃ o ∈ diffState a b, o.isSkel = false) :
    validatePortalInvariants b = .ok () := by
  obtain ⟨t, hl⟩ := applyOps_loop h
  have ht : t = true := applyLoop_flag _ a false b t hl (Or.inr hi)
  subst ht
  exact applyOps_validated h hl

/-- **diff_apply_skeleton** (the replay law; full strength for every pair of well-formed states
    with the same instance table and store set — every node/edge/attachment edit incl. node
    deletion, edge retype/retarget/RE-PARENT, attachment set/clear, across any number of
    instances): if applying `diff a b` to `a` succeeds, the result is exactly `b` — every store,
    node, edge, attachment and the instance table. It can never yield a third state.

    Not covered by this theorem (covered by the correspondence run and the oracle only): pairs
    whose instance tables differ (OpenPortal canonicalisation, Upsert/DeleteWarpInstance). -/
theorem diff_apply_skeleton (a b c : WState) (ha : WF a) (hb : WF b) (hs : SameShape a b)
    (h : applyOps a (diffState a b) = .ok c) : c = b := by
  obtain ⟨t, hl⟩ := applyOps_loop h
  obtain ⟨ci, cs, ck, cn, ce, ca, cb⟩ :=
    applyLoop_skel (diffState a b) a false c t (diff_all_skel ha hb hs) ha.sorted hl
  apply wstate_ext cs hb.sorted (ci.trans hs.1) (fun w => (ck w).trans (hs.2 w))
  · intro w i; rw [cn, final_node ha hb hs]
  · intro w i; rw [ce, final_edge ha hb hs]
  · intro w i; rw [ca, final_natt ha hb hs]
  · intro w i; rw [cb, final_eatt ha hb hs]

/-- **diff_apply_never_third_state**: the same law in the property's own words — the outcome of
    replaying the delta is `b` or a typed error. -/
theorem diff_apply_never_third_state (a b : WState) (ha : WF a) (hb : WF b) (hs : SameShape a b) :
    applyOps a (diffState a b) = .ok b ∨ ∃ e, applyOps a (diffState a b) = .error e := by
  cases h : applyOps a (diffState a b) with
  | error e => exact Or.inr ⟨e, rfl⟩
  | ok c => rw [diff_apply_skeleton a b c ha hb hs h]; exact Or.inl rfl

/-- **diff_self_nil**: identical states have an empty patch. -/
theorem diff_self_nil (a : WState) (ha : WF a) : diffState a a = [] := by
  apply List.eq_nil_iff_forall_not_mem.mpr
  intro o ho
  have hs : SameShape a a := ⟨rfl, fun _ => rfl⟩
  obtain ⟨w, stB, stA, h1, h2, hf⟩ := (mem_diff_iff ha ha hs o).mp ho
  rw [h1] at h2; cases h2
  cases hf with
  | dn i h3 h4 => exact h3 h4
  | un i ty h3 h4 => exact h4 h3
  | sn i h3 h4 => exact h4 rfl
  | de id eB h3 h4 =>
    rcases h4 with h4 | ⟨eA, h4, h5⟩
    · rw [h3] at h4; cases h4
    · rw [h3] at h4; cases h4; exact h5 rfl
  | ue id eA h3 h4 => exact h4 h3
  | se id eA h3 h4 =>
    rcases h4 with h4 | ⟨_, eB, h5, h6⟩
    · exact h4 rfl
    · rw [h3] at h5; cases h5; exact h6 rfl

/-- **diff_canonical_order**: the emitted op list is sorted by the canonical sort key, hence by
    the phase ranks extracted from `WarpOp::sort_key` (deletes before upserts before attachments),
    and sorting loses or invents no op. -/
theorem diff_canonical_order (a b : WState) :
    (diffState a b).Pairwise KeyLe ∧ (diffState a b).Pairwise (fun x y => x.kind ≤ y.kind) := by
  refine ⟨?_, diffState_kind_sorted a b⟩
  unfold diffState; exact sortOps_sorted _

theorem sort_preserves_ops (l : List Op) (o : Op) : o ∈ sortOps l ↔ o ∈ l := mem_sortOps o l

/-- **apply_first_error**: application stops at the first failing op and reports that error —
    a failed application is never reported as success and no partial state is returned. -/
theorem apply_first_error (s s1 : WState) (t1 : Bool) (l1 l2 : List Op) (o : Op) (e : Err)
    (h1 : applyLoop s false l1 = .ok (s1, t1)) (h2 : applyOp s1 o = .error e) :
    applyOps s (l1 ++ o :: l2) = .error e := by
  have key : ∀ (l1 : List Op) (s : WState) (t : Bool), applyLoop s t l1 = .ok (s1, t1) →
      applyLoop s t (l1 ++ o :: l2) = .error e := by
    intro l1
    induction l1 with
    | nil =>
      intro s t h
      simp only [applyLoop] at h; cases h
      simp only [List.nil_append, applyLoop, h2]
    | cons x xs ih =>
      intro s t h
      simp only [applyLoop, List.cons_append] at h ⊢
      cases hx : applyOp s x with
      | error e' => rw [hx] at h; cases h
      | ok s' => rw [hx] at h; simp only at h ⊢; exact ih s' _ h
  simp only [applyOps, key l1 s false h1]

/-- **apply_ok_all_ok**: conversely a successful application means every op succeeded in turn. -/
theorem apply_ok_prefix (s c : WState) (l1 l2 : List Op) (h : applyOps s (l1 ++ l2) = .ok c) :
    ∃ s1 t1, applyLoop s false l1 = .ok (s1, t1) := by
  obtain ⟨t, hl⟩ := applyOps_loop h
  have key : ∀ (l1 : List Op) (s : WState) (t0 : Bool), applyLoop s t0 (l1 ++ l2) = .ok (c, t) →
      ∃ s1 t1, applyLoop s t0 l1 = .ok (s1, t1) := by
    intro l1
    induction l1 with
    | nil => intro s t0 _; exact ⟨s, t0, rfl⟩
    | cons x xs ih =>
      intro s t0 h
      simp only [applyLoop, List.cons_append] at h ⊢
      cases hx : applyOp s x with
      | error e' => rw [hx] at h; cases h
      | ok s' => rw [hx] at h; simp only at h ⊢; exact ih s' _ h
  exact key l1 s false hl

/-- **apply_error_not_success** (`apply_to_state` as the code has it — IN PLACE): the in-place run
    reports success exactly when `apply_ops_to_state` returns `Ok` (then the target holds the result),
    and reports error `e` exactly when it returns `Err(e)`; a failed application is never reported
    as success. -/
theorem apply_error_not_success (s : WState) (l : List Op) :
    (∀ c, applyOps s l = .ok c ↔ applyInPlace s false l = (c, none)) ∧
    (∀ e, applyOps s l = .error e ↔ ∃ s', applyInPlace s false l = (s', some e)) :=
  applyInPlace_result s l

/-- **apply_error_partial_state** (what the code does on error, NOT atomic): when op `o` fails, the
    `&mut` target is left as the successful prefix made it — partially modified — and the error
    reported is that op's error. The callers inherit this: `apply_to_worldline_state` mutates
    `state.warp_state` directly, `Engine::jump_to_tick` resets `self.state` to U0 and replays in place
    (after a failed jump the engine holds U0 + the successful prefix, with `Err(InternalCorruption)`),
    settlement applies to `frontier.state_mut()`. Each of them returns the error — none reports
    success — but none restores the previous state. -/
theorem apply_error_partial_state (s : WState) (l : List Op) (e : Err)
    (h : applyLoop s false l = .error e) :
    ∃ l1 o l2 s1 t1, l = l1 ++ o :: l2 ∧ applyLoop s false l1 = .ok (s1, t1) ∧
      applyOp s1 o = .error e ∧ applyInPlace s false l = (s1, some e) :=
  applyInPlace_error l s false e h

/-- **patch_new_canonical**: `WarpTickPatchV1::new` (BTreeMap keyed by the extracted
    `WarpOp::sort_key` ranks, last wins) is idempotent, and order-independent on every input in which
    ops sharing a sort key are identical (in particular duplicate-free input); it invents no op. -/
theorem patch_new_canonical :
    (∀ l : List Op, canonOps (canonOps l) = canonOps l) ∧
    (∀ l1 l2 : List Op, l1.Perm l2 → l1.Pairwise Swappable → canonOps l1 = canonOps l2) ∧
    (∀ (l : List Op) (o : Op), o ∈ canonOps l → o ∈ l) :=
  ⟨canonOps_idem, fun _ _ hp hd => canonOps_perm hp hd, fun _ _ h => canonOps_mem h⟩

/-- **patch_new_fixes_sorted**: an op list already strictly sorted by the canonical key (no two ops
    share a key) is left untouched by `new` — so `canon (diff a b) = diff a b` reduces to "a diff never
    contains two ops with the same sort key" (checked per case by the oracle, not proved). -/
theorem patch_new_fixes_sorted (l : List Op) (h : StrictKeys l) : canonOps l = l :=
  canonOps_of_strict l h

/-- the whole patch: `new` of an already-canonical patch's fields is the same patch. -/
theorem patch_new_idem (policy rulePack status : Nat) (ins outs : List Slot) (ops : List Op) :
    (Patch.new policy rulePack status ins outs (Patch.new policy rulePack status ins outs ops).ops).ops
      = (Patch.new policy rulePack status ins outs ops).ops := canonOps_idem ops

/-! ### non-vacuity: a concrete re-parented edge that carries an attachment
    (the case that replayed wrongly before the `fix:` commit in tick_patch.rs) -/

def exA : WState :=
  { stores := [(1, { nodes := [(1, 7), (2, 7), (3, 7)], edges := [(9, { src := 2, dst := 1, ty := 5 })],
                     nodeAtt := [(1, .atom 4 [1, 2])], edgeAtt := [(9, .atom 4 [3])] })],
    instances := [(1, { warp := 1, root := 1, parent := none })] }

def exB : WState :=
  { stores := [(1, { nodes := [(1, 7), (3, 8)], edges := [(9, { src := 3, dst := 1, ty := 5 })],
                     nodeAtt := [(3, .atom 4 [])], edgeAtt := [(9, .atom 4 [3])] })],
    instances := [(1, { warp := 1, root := 1, parent := none })] }

example : WF exA := wfB_sound exA (by decide)
example : WF exB := wfB_sound exB (by decide)
example : SameShape exA exB := sameShapeB_sound (wfB_sound exA (by decide)) (wfB_sound exB (by decide)) (by decide)
example : diffState exA exB =
    [.deleteEdge 1 2 9, .deleteNode 1 2, .upsertNode 1 3 8, .upsertEdge 1 9 3 1 5,
     .setAtt (AttKey.nodeAlpha 1 1) none, .setAtt (AttKey.nodeAlpha 1 3) (some (.atom 4 [])),
     .setAtt (AttKey.edgeBeta 1 9) (some (.atom 4 [3]))] := by decide
example : (match applyOps exA (diffState exA exB) with
    | .ok c => decide (c = exB)
    | .error _ => false) = true := by decide

/-! ### non-vacuity of `diff_apply`: instances created through OpenPortal, deleted, re-rooted -/

def exC : WState :=
  { stores := [(1, { nodes := [(1, 7), (2, 7)], edges := [(9, { src := 1, dst := 2, ty := 5 })],
                     nodeAtt := [(2, .descend 3)], edgeAtt := [] }),
               (3, { nodes := [(1, 7)], edges := [], nodeAtt := [], edgeAtt := [] })],
    instances := [(1, { warp := 1, root := 1, parent := none }),
                  (3, { warp := 3, root := 1, parent := some (AttKey.nodeAlpha 1 2) })] }

/-- instance 3 deleted (slot cleared), instance 4 opened on edge 9 (with a second node), instance 1 re-rooted. -/
def exD : WState :=
  { stores := [(1, { nodes := [(1, 7), (2, 7)], edges := [(9, { src := 1, dst := 2, ty := 5 })],
                     nodeAtt := [], edgeAtt := [(9, .descend 4)] }),
               (4, { nodes := [(1, 8), (2, 8)], edges := [], nodeAtt := [(2, .atom 4 [1])], edgeAtt := [] })],
    instances := [(1, { warp := 1, root := 2, parent := none }),
                  (4, { warp := 4, root := 1, parent := some (AttKey.edgeBeta 1 9) })] }

/-- as `exD`, but the parent-slot edge 9 is also re-parented: the exceptional case. -/
def exE : WState :=
  { stores := [(1, { nodes := [(1, 7), (2, 7)], edges := [(9, { src := 2, dst := 2, ty := 5 })],
                     nodeAtt := [], edgeAtt := [(9, .descend 4)] }),
               (4, { nodes := [(1, 8), (2, 8)], edges := [], nodeAtt := [(2, .atom 4 [1])], edgeAtt := [] })],
    instances := [(1, { warp := 1, root := 2, parent := none }),
                  (4, { warp := 4, root := 1, parent := some (AttKey.edgeBeta 1 9) })] }

example : WFI exC := wfiB_sound exC (by decide)
example : WFI exD := wfiB_sound exD (by decide)
example : WFI exE := wfiB_sound exE (by decide)
example : diffState exC exD =
    [.openPortal (AttKey.edgeBeta 1 9) 4 1 (.empty 8), .upsertInstance { warp := 1, root := 2, parent := none },
     .deleteInstance 3, .upsertNode 4 2 8, .setAtt (AttKey.nodeAlpha 1 2) none,
     .setAtt (AttKey.nodeAlpha 4 2) (some (.atom 4 [1]))] := by decide
example : (match applyOps exC (diffState exC exD) with
    | .ok c => decide (c = exD)
    | .error _ => false) = true := by decide
example : (match applyOps exD (diffState exD exC) with
    | .ok c => decide (c = exC)
    | .error _ => false) = true := by decide
/-- the exceptional case really ends in the typed portal error (never in a third state). -/
example : (match applyOps exC (diffState exC exE) with
    | .ok _ => false
    | .error e => decide (e = .portalInvariant)) = true := by decide
/-- `new` dedupes by sort key, last wins, whatever the input order. -/
example : canonOps [.upsertNode 1 2 7, .setAtt (AttKey.nodeAlpha 1 2) none, .upsertNode 1 2 8, .deleteNode 1 2]
    = [.deleteNode 1 2, .upsertNode 1 2 8, .setAtt (AttKey.nodeAlpha 1 2) none] := by decide

end EchoVerif.C04
