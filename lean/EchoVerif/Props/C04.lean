/-
  C04 — a tick patch replays to exactly the state the tick produced.
  PROPERTY THEOREMS ONLY. Models: Model/Graph.lean (apply), Model/Diff.lean (diff, sort key);
  extracted table: Generated/OpTable.lean (phase ranks read from `WarpOp::sort_key`).

  The engine's tick patch IS `diff_state(pre, post)` (engine_impl.rs: `commit_with_receipt`,
  `commit_with_state`), so "the patch replays to the post-state" is the diff/apply law below.
-/
import EchoVerif.Lemmas.WfCheck

namespace EchoVerif.C04
open EchoVerif EchoVerif.Graph SMap

/-- **diff_apply_skeleton** (the replay law; full strength for every pair of well-formed states
    with the same instance table and store set — every node/edge/attachment edit incl. node
    deletion, edge retype/retarget/RE-PARENT, attachment set/clear, across any number of
    instances): if applying `diff a b` to `a` succeeds, the result is exactly `b` — every store,
    node, edge, attachment and the instance table. It can never yield a third state.

    Not covered by this theorem (covered by the correspondence run and the oracle only): pairs
    whose instance tables differ (OpenPortal canonicalisation, Upsert/DeleteWarpInstance). -/
theorem diff_apply_skeleton (a b c : WState) (ha : WF a) (hb : WF b) (hs : SameShape a b)
    (h : applyOps a (diffState a b) = .ok c) : c = b := by
  obtain ⟨t, hl⟩ := applyOps_loop h
  obtain ⟨ci, cs, ck, cn, ce, ca, cb⟩ :=
    applyLoop_skel (diffState a b) a false c t (diff_all_skel ha hb hs) ha.sorted hl
  apply wstate_ext cs hb.sorted (ci.trans hs.1) (fun w => (ck w).trans (hs.2 w))
  · intro w i; rw [cn, final_node ha hb hs]
  · intro w i; rw [ce, final_edge ha hb hs]
  · intro w i; rw [ca, final_natt ha hb hs]
  · intro w i; rw [cb, final_eatt ha hb hs]

/-- **diff_apply_never_third_state**: the same law in the property's own words — the outcome of
    replaying the delta is `b` or a typed error. -/
theorem diff_apply_never_third_state (a b : WState) (ha : WF a) (hb : WF b) (hs : SameShape a b) :
    applyOps a (diffState a b) = .ok b ∨ ∃ e, applyOps a (diffState a b) = .error e := by
  cases h : applyOps a (diffState a b) with
  | error e => exact Or.inr ⟨e, rfl⟩
  | ok c => rw [diff_apply_skeleton a b c ha hb hs h]; exact Or.inl rfl

/-- **diff_self_nil**: identical states have an empty patch. -/
theorem diff_self_nil (a : WState) (ha : WF a) : diffState a a = [] := by
  apply List.eq_nil_iff_forall_not_mem.mpr
  intro o ho
  have hs : SameShape a a := ⟨rfl, fun _ => rfl⟩
  obtain ⟨w, stB, stA, h1, h2, hf⟩ := (mem_diff_iff ha ha hs o).mp ho
  rw [h1] at h2; cases h2
  cases hf with
  | dn i h3 h4 => exact h3 h4
  | un i ty h3 h4 => exact h4 h3
  | sn i h3 h4 => exact h4 rfl
  | de id eB h3 h4 =>
    rcases h4 with h4 | ⟨eA, h4, h5⟩
    · rw [h3] at h4; cases h4
    · rw [h3] at h4; cases h4; exact h5 rfl
  | ue id eA h3 h4 => exact h4 h3
  | se id eA h3 h4 =>
    rcases h4 with h4 | ⟨_, eB, h5, h6⟩
    · exact h4 rfl
    · rw [h3] at h5; cases h5; exact h6 rfl

/-- **diff_canonical_order**: the emitted op list is sorted by the canonical sort key, hence by
    the phase ranks extracted from `WarpOp::sort_key` (deletes before upserts before attachments),
    and sorting loses or invents no op. -/
theorem diff_canonical_order (a b : WState) :
    (diffState a b).Pairwise KeyLe ∧ (diffState a b).Pairwise (fun x y => x.kind ≤ y.kind) := by
  refine ⟨?_, diffState_kind_sorted a b⟩
  unfold diffState; exact sortOps_sorted _

theorem sort_preserves_ops (l : List Op) (o : Op) : o ∈ sortOps l ↔ o ∈ l := mem_sortOps o l

/-- **apply_first_error**: application stops at the first failing op and reports that error —
    a failed application is never reported as success and no partial state is returned. -/
theorem apply_first_error (s s1 : WState) (t1 : Bool) (l1 l2 : List Op) (o : Op) (e : Err)
    (h1 : applyLoop s false l1 = .ok (s1, t1)) (h2 : applyOp s1 o = .error e) :
    applyOps s (l1 ++ o :: l2) = .error e := by
  have key : ∀ (l1 : List Op) (s : WState) (t : Bool), applyLoop s t l1 = .ok (s1, t1) →
      applyLoop s t (l1 ++ o :: l2) = .error e := by
    intro l1
    induction l1 with
    | nil =>
      intro s t h
      simp only [applyLoop] at h; cases h
      simp only [List.nil_append, applyLoop, h2]
    | cons x xs ih =>
      intro s t h
      simp only [applyLoop, List.cons_append] at h ⊢
      cases hx : applyOp s x with
      | error e' => rw [hx] at h; cases h
      | ok s' => rw [hx] at h; simp only at h ⊢; exact ih s' _ h
  simp only [applyOps, key l1 s false h1]

/-- **apply_ok_all_ok**: conversely a successful application means every op succeeded in turn. -/
theorem apply_ok_prefix (s c : WState) (l1 l2 : List Op) (h : applyOps s (l1 ++ l2) = .ok c) :
    ∃ s1 t1, applyLoop s false l1 = .ok (s1, t1) := by
  obtain ⟨t, hl⟩ := applyOps_loop h
  have key : ∀ (l1 : List Op) (s : WState) (t0 : Bool), applyLoop s t0 (l1 ++ l2) = .ok (c, t) →
      ∃ s1 t1, applyLoop s t0 l1 = .ok (s1, t1) := by
    intro l1
    induction l1 with
    | nil => intro s t0 _; exact ⟨s, t0, rfl⟩
    | cons x xs ih =>
      intro s t0 h
      simp only [applyLoop, List.cons_append] at h ⊢
      cases hx : applyOp s x with
      | error e' => rw [hx] at h; cases h
      | ok s' => rw [hx] at h; simp only at h ⊢; exact ih s' _ h
  exact key l1 s false hl

/-! ### non-vacuity: a concrete re-parented edge that carries an attachment
    (the case that replayed wrongly before the `fix:` commit in tick_patch.rs) -/

def exA : WState :=
  { stores := [(1, { nodes := [(1, 7), (2, 7), (3, 7)], edges := [(9, { src := 2, dst := 1, ty := 5 })],
                     nodeAtt := [(1, .atom 4 [1, 2])], edgeAtt := [(9, .atom 4 [3])] })],
    instances := [(1, { warp := 1, root := 1, parent := none })] }

def exB : WState :=
  { stores := [(1, { nodes := [(1, 7), (3, 8)], edges := [(9, { src := 3, dst := 1, ty := 5 })],
                     nodeAtt := [(3, .atom 4 [])], edgeAtt := [(9, .atom 4 [3])] })],
    instances := [(1, { warp := 1, root := 1, parent := none })] }

example : WF exA := wfB_sound exA (by decide)
example : WF exB := wfB_sound exB (by decide)
example : SameShape exA exB := sameShapeB_sound (wfB_sound exA (by decide)) (wfB_sound exB (by decide)) (by decide)
example : diffState exA exB =
    [.deleteEdge 1 2 9, .deleteNode 1 2, .upsertNode 1 3 8, .upsertEdge 1 9 3 1 5,
     .setAtt (AttKey.nodeAlpha 1 1) none, .setAtt (AttKey.nodeAlpha 1 3) (some (.atom 4 [])),
     .setAtt (AttKey.edgeBeta 1 9) (some (.atom 4 [3]))] := by decide
example : (match applyOps exA (diffState exA exB) with
    | .ok c => decide (c = exB)
    | .error _ => false) = true := by decide

end EchoVerif.C04
