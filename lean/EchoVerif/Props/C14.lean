/-
  C14 — undeclared access never commits.
  PROPERTY THEOREMS ONLY (helpers: Lemmas/Guard.lean, Lemmas/GuardCover.lean).
  Model: Model/Guard.lean (+ Model/Graph.lean for `applyOp`); extracted table:
  Generated/WriteTargets.lean (`op_write_targets`, `op_kind_str`, the guarded accessor table of
  `graph_view.rs`, `extract_target_warp` / `collect_new_warps` of `parallel/merge.rs`).
-/
import EchoVerif.Lemmas.Guard
import EchoVerif.Lemmas.GuardCover

set_option linter.unusedSimpArgs false
set_option linter.unusedVariables false

namespace EchoVerif.C14
open EchoVerif EchoVerif.Graph EchoVerif.Generated EchoVerif.Guard SMap

/-- **guard_sound.** If the enforced run of an item completes without violation then: every guarded
    read of the program (including the reads of conditions) went through a declared key, the
    executor did not panic, the delta is exactly what the program emits on the pre-state, and every
    emitted op `o` has `targets o ⊆ declared writes`, `warp o = guard warp`, is an instance op
    only under a system guard, and the previous source of an edge it moves in the pre-state store is
    a declared node write — for every guard, store and program. -/
theorem guard_sound (g : Guard.Guard) (st : Store) (prog : List Instr) (ops : List Op)
    (h : runItem g st prog = .ok ops) :
    (∀ i ∈ prog, ∀ r ∈ i.reads, ReadDeclared g r) ∧ (∀ i ∈ prog, i.isPanic = false) ∧
    ops = emitted st prog ∧ (∀ o ∈ ops, OpWithinIn g st o) := by
  simp only [runItem] at h
  cases hx : exec g st prog [] with
  | mk ops' halt =>
    rw [hx] at h
    simp only at h
    cases halt with
    | some hl =>
      cases hfb : firstBadOp g st ops' with
      | none => rw [hfb] at h; cases hl <;> cases h
      | some v => rw [hfb] at h; cases hl <;> cases h
    | none =>
      cases hfb : firstBadOp g st ops' with
      | some v => rw [hfb] at h; cases h
      | none =>
        rw [hfb] at h
        cases h
        obtain ⟨h1, h2, h3⟩ := exec_complete prog [] ops hx
        refine ⟨?_, h2, by simpa using h3, ?_⟩
        · intro i hi r hr; exact (checkRead_none_iff g r).1 (h1 i hi r hr)
        · intro o ho; exact (checkOpIn_none_iff g st o).1 ((firstBadOp_none_iff g st ops).1 hfb o ho)

/-- **guard_complete_for_honest.** A program whose reads are all declared, whose emitted ops (on
    this pre-state) all stay inside the declared writes, and which does not panic, is never
    flagged: the item completes with exactly its emitted ops. -/
theorem guard_complete_for_honest (g : Guard.Guard) (st : Store) (prog : List Instr)
    (hr : ∀ i ∈ prog, ∀ r ∈ i.reads, ReadDeclared g r) (hp : ∀ i ∈ prog, i.isPanic = false)
    (hw : ∀ o ∈ emitted st prog, OpWithinIn g st o) :
    runItem g st prog = .ok (emitted st prog) := by
  have hx := exec_honest (g := g) (st := st) prog []
    (fun i hi r hr' => (checkRead_none_iff g r).2 (hr i hi r hr')) hp
  have hfb : firstBadOp g st (emitted st prog) = none :=
    (firstBadOp_none_iff g st _).2 (fun o ho => (checkOpIn_none_iff g st o).2 (hw o ho))
  simp only [runItem, hx, List.nil_append, hfb]

/-- **violation_detected.** Conversely, any undeclared read, any emitted op outside the
    declaration (cross-warp, instance op without system rights, undeclared node / edge / attachment
    target, undeclared previous source of a moved edge) or an executor panic makes the item fail. -/
theorem violation_detected (g : Guard.Guard) (st : Store) (prog : List Instr)
    (hbad : (∃ i ∈ prog, ∃ r ∈ i.reads, ¬ ReadDeclared g r) ∨ (∃ i ∈ prog, i.isPanic = true) ∨
            (∃ o ∈ emitted st prog, ¬ OpWithinIn g st o)) :
    (runItem g st prog).isOk = false := by
  cases hr : runItem g st prog with
  | violation v wp => rfl
  | panicked => rfl
  | ok ops =>
    exfalso
    obtain ⟨h1, h2, h3, h4⟩ := guard_sound g st prog ops hr
    rcases hbad with ⟨i, hi, r, hr', hn⟩ | ⟨i, hi, hp⟩ | ⟨o, ho, hn⟩
    · exact hn (h1 i hi r hr')
    · rw [h2 i hi] at hp; cases hp
    · exact hn (h4 o (h3 ▸ ho))

/-- **violation_no_commit.** For every merge-and-apply function, every pre-state and every
    assignment of items to workers (any schedule, any number of workers, the failing item at any
    position of any worker's list): if some item is not clean — footprint violation or executor
    panic, or its store is missing — the tick fails and the visible state is the pre-state. -/
theorem violation_no_commit (commit : WState → List (List Op) → Option WState) (s : WState)
    (workers : List (List Item)) (l : List Item) (hl : l ∈ workers) (it : Item) (hit : it ∈ l)
    (hbad : ∀ st, s.store? it.guard.warp = some st → (runItem it.guard st it.prog).isOk = false) :
    runTick commit s workers = .failed ∧ visible s (runTick commit s workers) = s := by
  have hfail : runTick commit s workers = .failed := by
    unfold runTick
    simp only
    split
    · rename_i hall
      exfalso
      rw [List.all_eq_true] at hall
      have hs := hall (runWorker s l []) (List.mem_map.2 ⟨l, hl, rfl⟩)
      cases hw : runWorker s l [] with
      | success ops =>
        obtain ⟨st, hst, hok⟩ := runWorker_success l [] ops hw it hit
        rw [hbad st hst] at hok; cases hok
      | poisoned r => rw [hw] at hs; cases hs
      | missingStore w => rw [hw] at hs; cases hs
    · rfl
  exact ⟨hfail, by rw [hfail]; rfl⟩

/-- The write-target part of a guard's declaration, location by location. -/
def Declared (g : Guard.Guard) : Loc → Prop
  | .node w i => w = g.warp ∧ i ∈ g.nodesWrite
  | .adj w n => w = g.warp ∧ n ∈ g.nodesWrite
  | .edge w e => w = g.warp ∧ e ∈ g.edgesWrite
  | .natt w i => AttKey.nodeAlpha w i ∈ g.attWrite
  | .eatt w e => AttKey.edgeBeta w e ∈ g.attWrite

/-- **targets_cover_change.** For every state with sorted maps (the representation invariant of
    `BTreeMap`s), EVERY op (re-parenting `UpsertEdge`, `OpenPortal` and instance ops included) and
    every observable location (node record, outgoing adjacency of a node, edge record, node / edge
    attachment): if applying the op changes the location then the location is attributed to the op
    by enforcement on that state — `op_write_targets`, or `moved_edge_previous_source` (the old
    source's adjacency of a moved edge), or, for instance-level ops only, it lies in the instance
    the op creates / replaces / deletes. -/
theorem targets_cover_change (s s' : WState) (o : Op) (hs : s.SortedAll)
    (h : applyOp s o = .ok s') (l : Loc) (hc : Changed s s' l) :
    coveredIn s o l = true := by
  have skel : o.isSkel = true → coveredIn s o l = true := by
    intro hsk
    rcases cover_skel_in hsk hs h l hc with h1 | h1
    · simp only [coveredIn, covered, h1, Bool.true_or]
    · simp only [coveredIn, h1, Bool.or_true]
  cases o with
  | openPortal key cw cr init => simp only [coveredIn, cover_openPortal h l hc, Bool.true_or]
  | upsertInstance inst => exact absurd hc (cover_upsertInstance h l)
  | deleteInstance w0 =>
    have := cover_deleteInstance hs h l hc
    simp [coveredIn, covered, instWarps, opTargets, newWarp, mergeTargetWarp, this]
  | upsertNode w i ty => exact skel rfl
  | deleteNode w i => exact skel rfl
  | upsertEdge w id src dst ty => exact skel rfl
  | deleteEdge w src id => exact skel rfl
  | setAtt key v => exact skel rfl

/-- The state of the witness: warp 1 with nodes 1, 2, 3 and edge 9 : 2 → 1. -/
def witnessState : WState :=
  { stores := [(1, { nodes := [(1, 0), (2, 0), (3, 0)], edges := [(9, { src := 2, dst := 1, ty := 0 })],
                     nodeAtt := [], edgeAtt := [] })],
    instances := [(1, { warp := 1, root := 1, parent := none })] }

/-- **stateless_targets_miss_reparent** (why the state-dependent target is needed, DESIGN §7-D):
    `UpsertEdge` of edge 9 under the new source 3 succeeds and empties the outgoing adjacency of the
    OLD source 2; the stateless table `op_write_targets` alone (nodes `[3]`, edges `[9]`) does not
    cover that location, `moved_edge_previous_source` does. -/
theorem stateless_targets_miss_reparent :
    ∃ s', applyOp witnessState (.upsertEdge 1 9 3 1 0) = .ok s' ∧
      Changed witnessState s' (.adj 1 2) ∧ covered (.upsertEdge 1 9 3 1 0) (.adj 1 2) = false ∧
      coveredIn witnessState (.upsertEdge 1 9 3 1 0) (.adj 1 2) = true ∧
      Reparents witnessState (.upsertEdge 1 9 3 1 0) :=
  ⟨_, rfl, ⟨9, by decide⟩, by decide, by decide, ⟨_, rfl, by decide⟩⟩

/-- **accepted_op_changes_only_declared** (the two halves composed, every op): an op that the
    enforced executor accepts (`check_op_in` against the pre-state store of the guard's warp)
    changes only locations the guard declares as writes — or, under a system guard, locations inside
    the instance an instance-level op targets. -/
theorem accepted_op_changes_only_declared (g : Guard.Guard) (s s' : WState) (st : Store) (o : Op)
    (hs : s.SortedAll) (hst : s.store? g.warp = some st) (hchk : checkOpIn g st o = none)
    (h : applyOp s o = .ok s') (l : Loc) (hc : Changed s s' l) :
    Declared g l ∨ (g.isSystem = true ∧ l.warp ∈ instWarps o) := by
  have hwi := (checkOpIn_none_iff g st o).1 hchk
  have hw := hwi.op
  have hcov := targets_cover_change s s' o hs h l hc
  simp only [coveredIn, covered, Bool.or_eq_true] at hcov
  rcases hcov with (hcov | hcov) | hcov
  · left
    cases l with
    | node w i =>
      simp only [covers, Bool.and_eq_true, beq_iff_eq, List.contains_iff_mem] at hcov
      rw [hw.warp] at hcov
      exact ⟨(Option.some.inj hcov.1).symm, hw.nodes i hcov.2⟩
    | adj w i =>
      simp only [covers, Bool.and_eq_true, beq_iff_eq, List.contains_iff_mem] at hcov
      rw [hw.warp] at hcov
      exact ⟨(Option.some.inj hcov.1).symm, hw.nodes i hcov.2⟩
    | edge w i =>
      simp only [covers, Bool.and_eq_true, beq_iff_eq, List.contains_iff_mem] at hcov
      rw [hw.warp] at hcov
      exact ⟨(Option.some.inj hcov.1).symm, hw.edges i hcov.2⟩
    | natt w i =>
      simp only [covers, List.contains_iff_mem] at hcov
      exact hw.atts _ hcov
    | eatt w i =>
      simp only [covers, List.contains_iff_mem] at hcov
      exact hw.atts _ hcov
  · right
    simp only [List.contains_iff_mem] at hcov
    refine ⟨?_, hcov⟩
    apply hw.inst
    cases hi : (opTargets o).inst with
    | true => rfl
    | false => simp [instWarps, hi] at hcov
  · left
    cases l with
    | adj w n =>
      simp only [movedAdj] at hcov
      cases hsw : s.store? w with
      | none => rw [hsw] at hcov; cases hcov
      | some st' =>
        rw [hsw] at hcov
        simp only [beq_iff_eq] at hcov
        have hwg : w = g.warp := by
          cases o with
          | upsertEdge w' id src dst ty =>
            have h1 := hw.warp
            simp only [opTargets, Option.some.injEq] at h1
            simp only [movedPrev] at hcov
            by_cases hww : w' = w
            · rw [← hww]; exact h1
            · simp [hww] at hcov
          | _ => simp [movedPrev] at hcov
        subst hwg
        rw [hst] at hsw
        cases hsw
        exact ⟨rfl, hwi.moved n hcov⟩
    | node w i => simp [movedAdj] at hcov
    | edge w i => simp [movedAdj] at hcov
    | natt w i => simp [movedAdj] at hcov
    | eatt w i => simp [movedAdj] at hcov

/-- **target_warp_agrees.** The warp the guard compares against its own (`op_warp` of the extracted
    table) is the warp the merge attributes the op to (`extract_target_warp`), for every op; the
    only op without a merge target is `OpenPortal`. -/
theorem target_warp_agrees (o : Op) :
    (∀ w, mergeTargetWarp o = some w → (opTargets o).warp = some w) ∧
    (mergeTargetWarp o = none ↔ o.tag = .openPortal) := by
  cases o <;> simp [mergeTargetWarp, opTargets, Op.tag]

/-- **instance_gate_exact.** The ops flagged as instance-level in the extracted table are exactly
    the three that can touch the instance table; every other op, when it applies, leaves the
    instance table and the set of stores untouched. -/
theorem instance_gate_exact (o : Op) :
    ((opTargets o).inst = true ↔ o.isSkel = false) ∧
    (∀ s s', (opTargets o).inst = false → s.SortedAll → applyOp s o = .ok s' →
      s'.instances = s.instances ∧ ∀ w, (s'.store? w).isSome = (s.store? w).isSome) := by
  constructor
  · cases o <;> simp [opTargets, Op.isSkel]
  · intro s s' hi hs h
    have hsk : o.isSkel = true := by cases o <;> simp [opTargets, Op.isSkel] at hi ⊢
    obtain ⟨h1, _, h3, _⟩ := applyOp_skel_laws hsk hs h
    exact ⟨h1, h3⟩

/-! ### non-vacuity -/

/-- A guard / program satisfying the hypotheses of `guard_complete_for_honest` with reads, a
    conditional and an unconditional emit. -/
def exGuard : Guard.Guard :=
  { warp := 1, nodesRead := [1], nodesWrite := [2], edgesRead := [], edgesWrite := [9],
    attRead := [], attWrite := [], isSystem := false }
def exProg : List Instr :=
  [.read ⟨.node, 1⟩, .emitIf (.nodeExists 1) (.upsertEdge 1 9 2 1 0), .emit (.upsertNode 1 2 7)]
def exStore : Store := { nodes := [(1, 0), (2, 0)], edges := [], nodeAtt := [], edgeAtt := [] }

example : runItem exGuard exStore exProg = .ok [.upsertEdge 1 9 2 1 0, .upsertNode 1 2 7] := by decide
example : (runItem { exGuard with nodesRead := [] } exStore exProg).isOk = false := by decide
example : (runItem { exGuard with nodesWrite := [] } exStore exProg).isOk = false := by decide
example : runItem exGuard exStore (exProg ++ [.emit (.upsertNode 2 2 7)])
    = .violation ⟨.crossWarp 2, "UpsertNode"⟩ false := by decide
example : runItem exGuard exStore (exProg ++ [.emit (.deleteInstance 1)])
    = .violation ⟨.unauthorizedInstanceOp, "DeleteWarpInstance"⟩ false := by decide
example : runItem exGuard exStore (.emit (.upsertNode 1 5 7) :: .panic :: exProg)
    = .violation ⟨.nodeWrite 5, "UpsertNode"⟩ true := by decide
/-- `SortedAll` holds of the witness state, and a non-re-parenting upsert on it is covered. -/
example : witnessState.SortedAll := by
  refine ⟨by simp [witnessState, Sorted, Above], ?_⟩
  intro w st h
  have hm := find?_mem h
  simp only [witnessState, List.mem_singleton, Prod.mk.injEq] at hm
  obtain ⟨_, rfl⟩ := hm
  simp [Store.Sorted4, Sorted, Above, LinOrd.lt]
example : ¬ Reparents witnessState (.upsertEdge 1 9 2 3 0) := by
  intro ⟨r, hr, hne⟩
  have : edgeAt witnessState 1 9 = some { src := 2, dst := 1, ty := 0 } := by decide
  rw [this] at hr; cases hr; exact hne rfl

end EchoVerif.C14
