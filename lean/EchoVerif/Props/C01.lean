/-
  C01 — a tick's outcome depends on the candidate set, never on arrival order.
  PROPERTY THEOREMS ONLY. Model: Model/Tick.lean (composition of Model/Sched — C03,
  Model/Exec, Model/Graph + Model/Diff — C04); extracted tables: Radix, Conflict, OpTable.
-/
import EchoVerif.Lemmas.TickCommit
import EchoVerif.Lemmas.TickRadix
import EchoVerif.Lemmas.TickSerial
import EchoVerif.Model.TickDigest
import EchoVerif.Generated.Radix
import EchoVerif.Generated.Conflict

namespace EchoVerif.C01
open EchoVerif EchoVerif.Graph EchoVerif.Exec EchoVerif.Tick SMap

/-- **tick_order_free_legacy** (full strength for the `Legacy` scheduler path): for a fixed pre-state,
    rule set (`progOf`) and configuration, two arrival lists with the same candidate SET — any
    permutation, any number of repetitions — give the same tick result: receipt entries with
    blockers, merged ops, patch, post-state, or the same failure. Hypothesis `Coherent`: the
    scheduler key (scope hash, rule) identifies the candidate, i.e. no scope-hash collision among
    this tick's candidates (explicit; hashes are inputs of the model, never computed). -/
theorem tick_order_free_legacy (cfg : Cfg) (progOf : Nat → Nat → Option Program) (pre : WState)
    (xs ys : List TCand) (hco : Coherent xs) (hset : ∀ c, c ∈ xs ↔ c ∈ ys) :
    (tick cfg progOf pre false xs).2 = (tick cfg progOf pre false ys).2 :=
  tick_legacy_set cfg progOf pre xs ys hco hset

/-- **tick_order_free** (full strength, BOTH scheduler paths, every batch size): for a fixed
    pre-state, rule set (`progOf`) and the extracted sort configuration, two arrival lists with the
    same candidate SET — any permutation, any number of repetitions, any size on either side of the
    extracted small-batch threshold — give the same tick result: receipt entries with blockers,
    merged ops, patch, post-state, or the same failure. Hypotheses: `Coherent` (no scope-hash
    collision among this tick's candidates; hashes are inputs of the model, never computed) and the
    field widths of the real key (32-byte scope hash, `u32` compact rule id). -/
theorem tick_order_free (cfg : Cfg) (hcfg : cfg.sort = Generated.sortCfg)
    (progOf : Nat → Nat → Option Program) (pre : WState) (radix : Bool)
    (xs ys : List TCand) (hco : Coherent xs)
    (hb : ∀ c ∈ xs, c.shash < 2 ^ 256 ∧ c.rule < 4294967296)
    (hset : ∀ c, c ∈ xs ↔ c ∈ ys) :
    (tick cfg progOf pre radix xs).2 = (tick cfg progOf pre radix ys).2 :=
  tick_set cfg hcfg progOf pre radix xs ys hco hb hset

/-- **tick_digests_order_free** (corollary of `tick_order_free`): the PRE-IMAGES of everything a
    committed tick publishes — state root, patch digest (canonical in/out slots + canonical ops +
    rule pack id + policy), commit id, receipt (= decision) digest, plan digest, rewrites digest —
    are the same for two arrival lists with the same candidate set, on both scheduler paths and for
    every batch size. The pre-images are tied to the real `Snapshot` fields per case by the
    correspondence run (`harness hashx` evaluates them with the real BLAKE3), so no assumption
    about the hash function is needed: equal pre-images are hashed to equal digests. -/
theorem tick_digests_order_free (ctx : TickDigest.Ctx) (cfg : Cfg) (hcfg : cfg.sort = Generated.sortCfg)
    (progOf : Nat → Nat → Option Program) (pre : WState) (radix : Bool)
    (xs ys : List TCand) (hco : Coherent xs)
    (hb : ∀ c ∈ xs, c.shash < 2 ^ 256 ∧ c.rule < 4294967296)
    (hset : ∀ c, c ∈ xs ↔ c ∈ ys) :
    TickDigest.tickDigests ctx cfg progOf pre radix xs = TickDigest.tickDigests ctx cfg progOf pre radix ys := by
  unfold TickDigest.tickDigests
  rw [tick_order_free cfg hcfg progOf pre radix xs ys hco hb hset]

/-- **digests_fun_of_result**: which part of the tick result each published digest commits to —
    the state root only to the post-state (and the root key), the receipt / plan / rewrites digests
    only to the receipt entries, the patch digest only to the emitted patch and the slots of the
    accepted rewrites, the commit id to root + patch. Equal results ⇒ equal pre-images. -/
theorem digests_fun_of_result (ctx : TickDigest.Ctx) (s1 s2 : Success) :
    (s1.post = s2.post → TickDigest.rootPre ctx s1 = TickDigest.rootPre ctx s2) ∧
    (s1.entries = s2.entries → TickDigest.receiptPre s1 = TickDigest.receiptPre s2 ∧
        TickDigest.planPre s1 = TickDigest.planPre s2 ∧ TickDigest.rewritesPre s1 = TickDigest.rewritesPre s2) ∧
    (s1.patch = s2.patch → s1.inSlots = s2.inSlots → s1.outSlots = s2.outSlots →
        TickDigest.patchPre ctx s1 = TickDigest.patchPre ctx s2) ∧
    (s1.post = s2.post → s1.patch = s2.patch → s1.inSlots = s2.inSlots → s1.outSlots = s2.outSlots →
        TickDigest.commitPre ctx s1 = TickDigest.commitPre ctx s2) := by
  refine ⟨?_, ?_, ?_, ?_⟩
  · intro h; simp only [TickDigest.rootPre, h]
  · intro h; simp only [TickDigest.receiptPre, TickDigest.planPre, TickDigest.rewritesPre, h, and_self]
  · intro h1 h2 h3; simp only [TickDigest.patchPre, h1, h2, h3]
  · intro h0 h1 h2 h3; simp only [TickDigest.commitPre, TickDigest.rootPre, TickDigest.patchPre, h0, h1, h2, h3]

/-- **radix_drain_eq_legacy_drain**: the payload hand-out of `PendingTx::drain_in_order`
    (`fat[handle].take()` along the sorted thin list) never hits one of its `unreachable!`s and
    returns, for every arrival list, exactly what the legacy `BTreeMap` scheduler drains: the
    last-enqueued payload per distinct `(scope hash, rule)` key, in ascending key order. -/
theorem radix_drain_eq_legacy_drain (matched : List (TCand × Program))
    (hb : ∀ cp ∈ matched, cp.1.shash < 2 ^ 256 ∧ cp.1.rule < 4294967296) :
    radixDrained Generated.sortCfg matched = some (legacyDrained matched) :=
  radixDrained_eq_legacy matched hb

/-- **tick_fun_of_drained**: on both scheduler paths everything after the drain — receipt,
    execution, merge, patch, post-state — is a function of the drained (canonically ordered) item
    list alone; arrival order can influence a tick only through the drain. Together with C03's
    `drain_order_canonical` (the drained keys are THE strictly ascending arrangement of the
    last-wins queue for every batch size, on both sides of the 1024 threshold) this is the
    order-independence of the `Radix` path up to payload hand-out, which is tied to the code by
    the correspondence run (radix batches > 1024 included). -/
theorem tick_fun_of_drained (cfg : Cfg) (pre : WState) (radix : Bool)
    (m1 m2 : List (TCand × Program))
    (h : (if radix then radixDrained cfg.sort m1 else some (legacyDrained m1)) =
         (if radix then radixDrained cfg.sort m2 else some (legacyDrained m2))) :
    commit cfg pre radix m1 = commit cfg pre radix m2 := by
  unfold commit; rw [h]

/-- **tick_post_exact**: a successful tick's post-state is exactly the pre-state with the merged
    ops applied in canonical order, the merged ops are exactly the merge of what the ACCEPTED
    rewrites emitted, each evaluated against the PRE-state (`execAll pre`), and the emitted patch is
    the diff of pre and post. Rejected rewrites are not executed at all. -/
theorem tick_post_exact {cfg : Cfg} {pre : WState} {radix : Bool} {items : List (TCand × Program)}
    {s : Success} (h : commitDrained cfg pre radix items = .ok s) :
    ∃ rows deltas,
      (if radix then Sched.receiptRadix cfg.confl (items.map fpOf)
        else Sched.receiptLegacy cfg.confl (items.map fpOf)) = some rows ∧
      execAll pre (acceptedOf items rows) = .ok deltas ∧
      mergeOps deltas = .ok s.merged ∧
      applyOps pre (patchCanon s.merged) = .ok s.post ∧
      s.patch = diffState pre s.post :=
  commitDrained_ok h

/-- **tick_changes_only_targeted**: every node / edge / attachment location whose content differs
    between pre- and post-state is the target of an op emitted by an ACCEPTED rewrite (so no effect
    of a rejected rewrite, and nothing else, is in the post-state); the instance table and the set
    of stores are unchanged (user rules cannot emit instance-level ops under enforcement). -/
theorem tick_changes_only_targeted {cfg : Cfg} {pre : WState} {radix : Bool}
    {items : List (TCand × Program)} {s : Success} (hpre : pre.SortedAll)
    (h : commitDrained cfg pre radix items = .ok s) :
    ∃ rows deltas,
      execAll pre (acceptedOf items rows) = .ok deltas ∧
      s.post.instances = pre.instances ∧
      (∀ w, (s.post.store? w).isSome = (pre.store? w).isSome) ∧
      (∀ w i, nodeAt s.post w i ≠ nodeAt pre w i → ∃ o ∈ deltas.flatten, effNode w i o ≠ none) ∧
      (∀ w i, edgeAt s.post w i ≠ edgeAt pre w i → ∃ o ∈ deltas.flatten, effEdge w i o ≠ none) ∧
      (∀ w i, nattAt s.post w i ≠ nattAt pre w i → ∃ o ∈ deltas.flatten, effNatt w i o ≠ none) ∧
      (∀ w i, eattAt s.post w i ≠ eattAt pre w i → ∃ o ∈ deltas.flatten, effEatt w i o ≠ none) := by
  obtain ⟨rows, deltas, _, hd, hm, hp, _⟩ := commitDrained_ok h
  have hmem : ∀ o ∈ patchCanon s.merged, o ∈ deltas.flatten :=
    fun o ho => mem_mergeOps hm (mem_patchCanon ho)
  have hsk : ∀ o ∈ patchCanon s.merged, o.isSkel = true :=
    fun o ho => execAll_skel hd o (hmem o ho)
  obtain ⟨t, hl⟩ := applyOps_loop hp
  obtain ⟨ci, _, ck, cn, ce, ca, cb⟩ := applyLoop_skel _ pre false s.post t hsk hpre hl
  refine ⟨rows, deltas, hd, ci, ck, ?_, ?_, ?_, ?_⟩
  all_goals intro w i hne
  · rw [cn] at hne
    have : ¬ ∀ o ∈ patchCanon s.merged, effNode w i o = none :=
      fun hall => hne (lastEff_none _ _ _ hall)
    have ⟨o, ho⟩ := Classical.not_forall.mp this
    have ⟨hmo, hne'⟩ := Classical.not_imp.mp ho
    exact ⟨o, hmem o hmo, hne'⟩
  · rw [ce] at hne
    have : ¬ ∀ o ∈ patchCanon s.merged, effEdge w i o = none :=
      fun hall => hne (lastEff_none _ _ _ hall)
    have ⟨o, ho⟩ := Classical.not_forall.mp this
    have ⟨hmo, hne'⟩ := Classical.not_imp.mp ho
    exact ⟨o, hmem o hmo, hne'⟩
  · rw [ca] at hne
    have : ¬ ∀ o ∈ patchCanon s.merged, effNatt w i o = none :=
      fun hall => hne (lastEff_none _ _ _ hall)
    have ⟨o, ho⟩ := Classical.not_forall.mp this
    have ⟨hmo, hne'⟩ := Classical.not_imp.mp ho
    exact ⟨o, hmem o hmo, hne'⟩
  · rw [cb] at hne
    have : ¬ ∀ o ∈ patchCanon s.merged, effEatt w i o = none :=
      fun hall => hne (lastEff_none _ _ _ hall)
    have ⟨o, ho⟩ := Classical.not_forall.mp this
    have ⟨hmo, hne'⟩ := Classical.not_imp.mp ho
    exact ⟨o, hmem o hmo, hne'⟩

private theorem C04_replay (a b c : WState) (ha : WF a) (hb : WF b) (hs : SameShape a b)
    (h : applyOps a (diffState a b) = .ok c) : c = b := by
  obtain ⟨t, hl⟩ := applyOps_loop h
  obtain ⟨ci, cs, ck, cn, ce, ca, cb⟩ :=
    applyLoop_skel (diffState a b) a false c t (diff_all_skel ha hb hs) ha.sorted hl
  apply wstate_ext cs hb.sorted (ci.trans hs.1) (fun w => (ck w).trans (hs.2 w))
  · intro w i; rw [cn, final_node ha hb hs]
  · intro w i; rw [ce, final_edge ha hb hs]
  · intro w i; rw [ca, final_natt ha hb hs]
  · intro w i; rw [cb, final_eatt ha hb hs]

/-- **tick_patch_replays** (C04 at tick level): the patch a tick emits, replayed on the pre-state,
    yields the post-state or a typed error — never a third state — whenever pre and post are
    well-formed (the post-state's well-formedness is re-checked per case by the executable
    checker `wfB` in the correspondence run). -/
theorem tick_patch_replays {cfg : Cfg} {pre : WState} {radix : Bool}
    {items : List (TCand × Program)} {s : Success} (hpre : WF pre) (hpost : WF s.post)
    (h : commitDrained cfg pre radix items = .ok s) (c : WState)
    (hr : applyOps pre s.patch = .ok c) : c = s.post := by
  obtain ⟨rows, deltas, hd, hi, hk, _⟩ := tick_changes_only_targeted hpre.sorted h
  obtain ⟨_, _, _, _, _, _, hpatch⟩ := commitDrained_ok h
  rw [hpatch] at hr
  exact C04_replay pre s.post c hpre hpost ⟨hi.symm, fun w => (hk w).symm⟩ hr

/-- **rejected_not_executed**: the accepted list is the sub-list of drained items whose receipt
    row says "applied"; a rejected candidate is not in it. -/
theorem rejected_not_executed (items : List (TCand × Program)) (rows : List Sched.Row)
    (cp : TCand × Program) (h : cp ∈ acceptedOf items rows) :
    ∃ r, (cp, r) ∈ items.zip rows ∧ r.1 = true := by
  simp only [acceptedOf, List.mem_filterMap, Prod.exists] at h
  obtain ⟨a, b, r1, r2, hm, hh⟩ := h
  split at hh
  · cases hh; rename_i hr; exact ⟨(r1, r2), hm, hr⟩
  · cases hh

private theorem mem_flatten_perm {σ deltas : List (List Op)} (hσ : σ.Perm deltas) (o : Op) :
    o ∈ σ.flatten ↔ o ∈ deltas.flatten := by
  simp only [List.mem_flatten]
  constructor
  · rintro ⟨d, hd, ho⟩; exact ⟨d, hσ.mem_iff.mp hd, ho⟩
  · rintro ⟨d, hd, ho⟩; exact ⟨d, hσ.mem_iff.mpr hd, ho⟩

/-- **tick_serial_commute** (DPO sequential commutation, full for node / edge / attachment ops - the
    only ops a user rewrite can emit under enforcement): let `deltas` be the op lists of the ACCEPTED
    rewrites of a committed tick, each computed against the PRE-state. If they are single-valued per
    location (`SingleValued`: at most one value is written to any node record, edge record, α or β
    attachment - what honest, pairwise write-disjoint footprints give), then applying them one after
    another in ANY two orders, whenever both succeed, reaches the same state. -/
theorem tick_serial_commute {cfg : Cfg} {pre : WState} {radix : Bool} {items : List (TCand × Program)}
    {s : Success} (hpre : pre.SortedAll) (h : commitDrained cfg pre radix items = .ok s) :
    ∃ rows deltas, execAll pre (acceptedOf items rows) = .ok deltas ∧
      (SingleValued deltas.flatten →
        ∀ σ1 σ2 : List (List Op), σ1.Perm deltas → σ2.Perm deltas →
        ∀ c1 c2, applySerial pre σ1 = .ok c1 → applySerial pre σ2 = .ok c2 → c1 = c2) := by
  obtain ⟨rows, deltas, _, hd, _, _, _⟩ := commitDrained_ok h
  refine ⟨rows, deltas, hd, ?_⟩
  intro hsv σ1 σ2 h1 h2 c1 c2 a1 a2
  have hsk : ∀ σ : List (List Op), σ.Perm deltas → ∀ d ∈ σ, ∀ o ∈ d, o.isSkel = true :=
    fun σ hσ d hdm o ho => execAll_skel hd o (List.mem_flatten.mpr ⟨d, hσ.mem_iff.mp hdm, ho⟩)
  exact serial_state_eq hpre deltas.flatten hsv σ1 σ2 (hsk σ1 h1) (hsk σ2 h2)
    (fun o ho => (mem_flatten_perm h1 o).mp ho) (fun o ho => (mem_flatten_perm h2 o).mp ho)
    (sameCover_of_mem (fun o => (mem_flatten_perm h1 o).trans (mem_flatten_perm h2 o).symm)) a1 a2

/-- **tick_serial_equiv_partial** (serial = merged). Full statement wanted: under `SingleValued`,
    every successful serial application of the accepted rewrites' op lists, in any order, reaches
    the tick's post-state `s.post` (which the engine computes by ONE canonical sorted pass over the
    merged ops). Proved here with one extra hypothesis, the named gap: `SameCover` - every location
    touched by an accepted rewrite's op is still touched by an op of the canonical merged patch
    (i.e. key-dedupe of the merge never drops the only op on a location; true when equal sort keys
    mean equal ops, which `mergeOps` has checked, but the survival lemma through
    `sortOps`/`dedupByKey`/`lastWins` is not proved). The oracle closes the gap differentially: it
    applies the accepted rewrites' ops serially in two orders on the real code and compares with the
    real post-state. Portal / instance ops cannot be emitted by user rewrites (`checkOp`), so they
    are outside this theorem by construction. -/
theorem tick_serial_equiv_partial {cfg : Cfg} {pre : WState} {radix : Bool}
    {items : List (TCand × Program)} {s : Success} (hpre : pre.SortedAll)
    (h : commitDrained cfg pre radix items = .ok s) :
    ∃ rows deltas, execAll pre (acceptedOf items rows) = .ok deltas ∧
      (SingleValued deltas.flatten → SameCover (patchCanon s.merged) deltas.flatten →
        ∀ σ : List (List Op), σ.Perm deltas →
        ∀ c, applySerial pre σ = .ok c → c = s.post) := by
  obtain ⟨rows, deltas, _, hd, hm, hp, _⟩ := commitDrained_ok h
  refine ⟨rows, deltas, hd, ?_⟩
  intro hsv hcov σ hσ c hc
  have hmem : ∀ o ∈ patchCanon s.merged, o ∈ deltas.flatten :=
    fun o ho => mem_mergeOps hm (mem_patchCanon ho)
  have hsk2 : ∀ d ∈ σ, ∀ o ∈ d, o.isSkel = true :=
    fun d hdm o ho => execAll_skel hd o (List.mem_flatten.mpr ⟨d, hσ.mem_iff.mp hdm, ho⟩)
  have hsk1 : ∀ d ∈ [patchCanon s.merged], ∀ o ∈ d, o.isSkel = true := by
    intro d hdm o ho
    simp only [List.mem_singleton] at hdm; subst hdm
    exact execAll_skel hd o (hmem o ho)
  have h1 : applySerial pre [patchCanon s.merged] = .ok s.post := by
    rw [applySerial_single]; exact hp
  have hcov' : SameCover [patchCanon s.merged].flatten σ.flatten := by
    have e : [patchCanon s.merged].flatten = patchCanon s.merged := by simp
    rw [e]
    have hc2 := sameCover_of_mem (fun o => (mem_flatten_perm hσ o).symm)
    exact ⟨fun w i => (hcov.node w i).trans (hc2.node w i), fun w i => (hcov.edge w i).trans (hc2.edge w i),
      fun w i => (hcov.natt w i).trans (hc2.natt w i), fun w i => (hcov.eatt w i).trans (hc2.eatt w i)⟩
  exact (serial_state_eq hpre deltas.flatten hsv [patchCanon s.merged] σ hsk1 hsk2
    (fun o ho => by simp at ho; exact hmem o ho) (fun o ho => (mem_flatten_perm hσ o).mp ho)
    hcov' h1 hc).symm

-- non-vacuity of `SingleValued`: two rewrites writing different nodes
example : SingleValued [Op.upsertNode 1 1 8, Op.upsertNode 1 3 8] := by
  constructor <;> intro w i a ha b hb va vb h1 h2 <;>
    simp only [List.mem_cons, List.mem_nil_iff, or_false] at ha hb <;>
    rcases ha with rfl | rfl <;> rcases hb with rfl | rfl <;>
    simp_all [effNode, effEdge, effNatt, effEatt] <;> omega

/-! ### non-vacuity: a concrete three-candidate tick with one rejection, run in two arrival orders -/

def exPre : WState :=
  { stores := [(1, { nodes := [(1, 7), (10, 9), (11, 9), (12, 9)], edges := [], nodeAtt := [], edgeAtt := [] })],
    instances := [(1, { warp := 1, root := 1, parent := none })] }

def exProg : Nat → Nat → Option Program
  | 1, 10 => some { fp := { nw := [1] }, body := [.emit (.upsertNode 1 1 8)] }
  | 1, 11 => some { fp := { nr := [1], nw := [2] }, body := [.ifNode 1 (.upsertNode 1 2 8)] }
  | 1, 12 => some { fp := { nw := [3] }, body := [.emit (.upsertNode 1 3 8)] }
  | _, _ => none

def exCfg : Cfg := { sort := Generated.sortCfg, confl := Generated.conflictCfg }
def cA : TCand := { rule := 0, warp := 1, scope := 10, shash := 500 }
def cB : TCand := { rule := 0, warp := 1, scope := 11, shash := 600 }
def cC : TCand := { rule := 0, warp := 1, scope := 12, shash := 400 }

example : Coherent [cA, cB, cC] := by
  intro a ha b hb h1 h2
  simp only [List.mem_cons, List.mem_nil_iff, or_false] at ha hb
  rcases ha with rfl | rfl | rfl <;> rcases hb with rfl | rfl | rfl <;> simp_all [cA, cB, cC]

-- one rejection (cB reads node 1 which cA writes; drained order is cC, cA, cB), two arrival orders:
example : (match (tick exCfg exProg exPre false [cA, cB, cC]).2 with
    | .ok s => s.entries.map (fun e => (e.cand.scope, e.applied, e.blockers))
    | .error _ => []) = [(12, true, []), (10, true, []), (11, false, [1])] := by decide +kernel
example : (match (tick exCfg exProg exPre false [cB, cC, cB, cA, cA]).2 with
    | .ok s => s.entries.map (fun e => (e.cand.scope, e.applied, e.blockers))
    | .error _ => []) = [(12, true, []), (10, true, []), (11, false, [1])] := by decide +kernel

-- the Radix path on the same example, through the theorem (its hypotheses are satisfiable):
example : (tick exCfg exProg exPre true [cA, cB, cC]).2 = (tick exCfg exProg exPre true [cB, cC, cB, cA, cA]).2 := by
  apply tick_order_free exCfg rfl exProg exPre true
  · intro a ha b hb h1 h2
    simp only [List.mem_cons, List.mem_nil_iff, or_false] at ha hb
    rcases ha with rfl | rfl | rfl <;> rcases hb with rfl | rfl | rfl <;> simp_all [cA, cB, cC]
  · intro c hc
    simp only [List.mem_cons, List.mem_nil_iff, or_false] at hc
    rcases hc with rfl | rfl | rfl <;> simp [cA, cB, cC]
  · intro c; simp only [List.mem_cons, List.mem_nil_iff, or_false]
    constructor
    · rintro (h | h | h) <;> simp [h]
    · rintro (h | h | h | h | h) <;> simp [h]
example : exCfg.sort = Generated.sortCfg ∧ ∀ c ∈ [cA, cB, cC], c.shash < 2 ^ 256 ∧ c.rule < 4294967296 := by
  refine ⟨rfl, ?_⟩
  intro c hc
  simp only [List.mem_cons, List.mem_nil_iff, or_false] at hc
  rcases hc with rfl | rfl | rfl <;> simp [cA, cB, cC]

-- the digests of the example tick exist (a committed tick), on both paths:
def exCtx : TickDigest.Ctx := { root := (1, 1), policy := 0x30504F4E, ruleIds := [0xF1, 0xF2], parents := [] }
example : (match TickDigest.tickDigests exCtx exCfg exProg exPre false [cA, cB, cC] with
    | .ok _ => true | .error _ => false) = true := by decide +kernel

end EchoVerif.C01
