/-
  Helper lemmas for C02 (Model/Merge.lean): insertion sort, run grouping, the membership
  characterisation of the merge result, schedules.
-/
import EchoVerif.Model.Merge

set_option linter.unusedSimpArgs false
set_option linter.unusedVariables false

namespace EchoVerif
namespace Merge
open Graph LinOrd

/-! ### insertion sort -/

section SortSec
variable {α κ : Type} [LinOrd κ] (k : α → κ)

/-- non-strictly sorted by key. -/
def KSorted (l : List α) : Prop := l.Pairwise (fun a b => lt (k b) (k a) = false)

theorem insertBy_perm (x : α) : ∀ l : List α, (insertBy k x l).Perm (x :: l)
  | [] => List.Perm.refl _
  | y :: ys => by
    simp only [insertBy]
    split
    · exact List.Perm.refl _
    · exact ((insertBy_perm x ys).cons y).trans (List.Perm.swap x y ys)

theorem sortBy_perm_aux (l : List α) : ∀ acc : List α,
    (l.foldl (fun acc x => insertBy k x acc) acc).Perm (acc ++ l) := by
  induction l with
  | nil => intro acc; simp
  | cons x xs ih =>
    intro acc
    simp only [List.foldl_cons]
    refine (ih _).trans ?_
    refine ((insertBy_perm k x acc).append_right xs).trans ?_
    simpa using (List.perm_middle (a := x) (l₁ := acc) (l₂ := xs)).symm

theorem sortBy_perm (l : List α) : (sortBy k l).Perm l := by
  have := sortBy_perm_aux k l []
  simpa [sortBy] using this

theorem insertBy_sorted (x : α) : ∀ {l : List α}, KSorted k l → KSorted k (insertBy k x l)
  | [], _ => by simp [insertBy, KSorted]
  | y :: ys, h => by
    have hy : ∀ b ∈ ys, lt (k b) (k y) = false := (List.pairwise_cons.mp h).1
    have hys : KSorted k ys := (List.pairwise_cons.mp h).2
    simp only [insertBy]
    split
    · rename_i hlt
      refine List.pairwise_cons.mpr ⟨?_, h⟩
      intro b hb
      rcases List.mem_cons.mp hb with rfl | hb'
      · exact lt_asymm hlt
      · -- x < y ≤ b
        cases hbx : lt (k b) (k x) with
        | false => rfl
        | true =>
          have := lt_trans _ _ _ hbx hlt
          rw [hy b hb'] at this; cases this
    · rename_i hnlt
      refine List.pairwise_cons.mpr ⟨?_, insertBy_sorted x hys⟩
      intro b hb
      have hb' := (insertBy_perm k x ys).mem_iff.mp hb
      rcases List.mem_cons.mp hb' with rfl | hb''
      · simpa using hnlt
      · exact hy b hb''

theorem sortBy_sorted_aux (l : List α) : ∀ acc : List α, KSorted k acc →
    KSorted k (l.foldl (fun acc x => insertBy k x acc) acc) := by
  induction l with
  | nil => intro acc h; simpa using h
  | cons x xs ih => intro acc h; simp only [List.foldl_cons]; exact ih _ (insertBy_sorted k x h)

theorem sortBy_sorted (l : List α) : KSorted k (sortBy k l) :=
  sortBy_sorted_aux k l [] List.Pairwise.nil

end SortSec

/-- the model's key sort is the `sortOps` of Model/Diff (same stable insertion). -/
theorem insertBy_eq_insertOp (o : Op) : ∀ l, insertBy Op.sortKey o l = insertOp o l
  | [] => rfl
  | x :: xs => by simp only [insertBy, insertOp, insertBy_eq_insertOp o xs]

theorem sortBy_eq_sortOps (l : List Op) : sortBy Op.sortKey l = sortOps l := by
  unfold sortBy sortOps
  congr 1
  funext acc o
  exact insertBy_eq_insertOp o acc

/-- sorted by `(key, origin)` lexicographically ⇒ the ops are sorted by key. -/
theorem ksorted_fst_of_entry {l : List Entry} (h : KSorted entryKey l) :
    KSorted Op.sortKey (l.map (·.1)) := by
  unfold KSorted at *
  rw [List.pairwise_map]
  refine h.imp ?_
  intro a b hab
  -- ¬ (kb, ob) < (ka, oa)  ⇒  ¬ kb < ka
  cases hk : lt b.1.sortKey a.1.sortKey with
  | false => rfl
  | true =>
    have : lt (entryKey b) (entryKey a) = true := by
      show (lt b.1.sortKey a.1.sortKey || (decide (b.1.sortKey = a.1.sortKey) && lt b.2.key a.2.key)) = true
      rw [hk]; rfl
    rw [hab] at this; cases this

/-! ### run grouping: variant B's window check + dedup is variant A's grouping loop -/

theorem conflictWindow_cons2 (a b : Op) (rest : List Op) :
    conflictWindow (a :: b :: rest) =
      ((decide (a.sortKey = b.sortKey) && decide (a ≠ b)) || conflictWindow (b :: rest)) := rfl

theorem groupFrom_eq_window (rest : List Op) : ∀ first : Op,
    groupFrom first rest =
      if conflictWindow (first :: rest) then .error .conflict
      else .ok (first :: dedupFrom first rest) := by
  induction rest with
  | nil => intro first; simp [groupFrom, conflictWindow, dedupFrom]
  | cons b rest ih =>
    intro first
    rw [conflictWindow_cons2]
    by_cases hk : b.sortKey = first.sortKey
    · by_cases hb : b = first
      · subst hb
        simp only [groupFrom, dedupFrom, if_true, ih b]
        simp
      · have hne : first ≠ b := fun e => hb e.symm
        simp [groupFrom, hk, hb, hne]
    · have hk' : first.sortKey ≠ b.sortKey := fun e => hk e.symm
      simp only [groupFrom, dedupFrom, hk, hk', if_false, decide_false, Bool.false_and,
        Bool.false_or, ih b]
      by_cases hc : conflictWindow (b :: rest) = true
      · simp [hc]
      · simp [hc]

theorem groupRuns_eq_window (s : List Op) :
    groupRuns s = if conflictWindow s then .error .conflict else .ok (dedupByKey s) := by
  cases s with
  | nil => simp [groupRuns, conflictWindow, dedupByKey]
  | cons a rest => simpa [groupRuns, dedupByKey] using groupFrom_eq_window rest a

/-! ### membership characterisation of the grouping result -/

/-- no key carries two distinct ops. -/
def NoConflict (l : List Op) : Prop := ∀ a ∈ l, ∀ b ∈ l, a.sortKey = b.sortKey → a = b

/-- strictly increasing keys. -/
def StrictK (l : List Op) : Prop := l.Pairwise (fun a b => lt a.sortKey b.sortKey = true)

theorem key_gt_of_sorted_ne {first b : Op} {rest : List Op}
    (hs : KSorted Op.sortKey (first :: b :: rest)) (hk : b.sortKey ≠ first.sortKey) :
    ∀ o ∈ b :: rest, lt first.sortKey o.sortKey = true := by
  intro o ho
  have h1 : ∀ x ∈ b :: rest, lt x.sortKey first.sortKey = false := (List.pairwise_cons.mp hs).1
  have hb : lt first.sortKey b.sortKey = true := by
    rcases lt_tri first.sortKey b.sortKey with h | h | h
    · exact h
    · exact absurd h.symm hk
    · rw [h1 b List.mem_cons_self] at h; cases h
  rcases List.mem_cons.mp ho with rfl | ho'
  · exact hb
  · have h2 : lt o.sortKey b.sortKey = false :=
      (List.pairwise_cons.mp (List.pairwise_cons.mp hs).2).1 o ho'
    rcases lt_tri b.sortKey o.sortKey with h | h | h
    · exact lt_trans _ _ _ hb h
    · rw [← h]; exact hb
    · rw [h2] at h; cases h

/-- On a key-sorted list the grouping loop returns exactly the strictly sorted list of the distinct
    ops when no key is contested … -/
theorem groupFrom_ok (rest : List Op) : ∀ first : Op, KSorted Op.sortKey (first :: rest) →
    NoConflict (first :: rest) →
    ∃ out, groupFrom first rest = .ok out ∧ StrictK out ∧ (∀ o, o ∈ out ↔ o ∈ first :: rest) := by
  induction rest with
  | nil =>
    intro first _ _
    exact ⟨[first], rfl, List.pairwise_singleton _ _, fun o => Iff.rfl⟩
  | cons b rest ih =>
    intro first hs hnc
    by_cases hk : b.sortKey = first.sortKey
    · have hb : b = first := hnc b (by simp) first (by simp) hk
      subst hb
      have hs' : KSorted Op.sortKey (b :: rest) := (List.pairwise_cons.mp hs).2
      have hnc' : NoConflict (b :: rest) := fun x hx y hy => hnc x (List.mem_cons_of_mem _ hx) y (List.mem_cons_of_mem _ hy)
      obtain ⟨out, ho, hst, hmem⟩ := ih b hs' hnc'
      refine ⟨out, ?_, hst, ?_⟩
      · simp [groupFrom, ho]
      · intro o; rw [hmem o]; simp
    · have hs' : KSorted Op.sortKey (b :: rest) := (List.pairwise_cons.mp hs).2
      have hnc' : NoConflict (b :: rest) := fun x hx y hy => hnc x (List.mem_cons_of_mem _ hx) y (List.mem_cons_of_mem _ hy)
      obtain ⟨out, ho, hst, hmem⟩ := ih b hs' hnc'
      refine ⟨first :: out, ?_, ?_, ?_⟩
      · simp [groupFrom, hk, ho]
      · refine List.pairwise_cons.mpr ⟨?_, hst⟩
        intro o hoo
        exact key_gt_of_sorted_ne hs hk o ((hmem o).mp hoo)
      · intro o
        simp only [List.mem_cons] at hmem ⊢
        rw [hmem o]

/-- … and `conflict` otherwise. -/
theorem groupFrom_conflict (rest : List Op) : ∀ first : Op, KSorted Op.sortKey (first :: rest) →
    ¬ NoConflict (first :: rest) → groupFrom first rest = .error .conflict := by
  induction rest with
  | nil =>
    intro first _ hnc
    exfalso; apply hnc
    intro a ha b hb _
    simp at ha hb; rw [ha, hb]
  | cons b rest ih =>
    intro first hs hnc
    by_cases hk : b.sortKey = first.sortKey
    · by_cases hb : b = first
      · subst hb
        have hs' : KSorted Op.sortKey (b :: rest) := (List.pairwise_cons.mp hs).2
        have hnc' : ¬ NoConflict (b :: rest) := by
          intro h; apply hnc
          intro x hx y hy
          have hx' : x ∈ b :: rest := by simpa using hx
          have hy' : y ∈ b :: rest := by simpa using hy
          exact h x hx' y hy'
        simp [groupFrom, ih b hs' hnc']
      · simp [groupFrom, hk, hb]
    · have hs' : KSorted Op.sortKey (b :: rest) := (List.pairwise_cons.mp hs).2
      have hgt := key_gt_of_sorted_ne hs hk
      have hnc' : ¬ NoConflict (b :: rest) := by
        intro h; apply hnc
        intro x hx y hy hxy
        rcases List.mem_cons.mp hx with rfl | hx' <;> rcases List.mem_cons.mp hy with rfl | hy'
        · rfl
        · have := hgt y hy'; rw [hxy, lt_irrefl] at this; cases this
        · have := hgt x hx'; rw [← hxy, lt_irrefl] at this; cases this
        · exact h x hx' y hy' hxy
      simp [groupFrom, hk, ih b hs' hnc']

/-- two strictly key-sorted lists with the same members are the same list. -/
theorem strictK_unique : ∀ {a b : List Op}, StrictK a → StrictK b → (∀ o, o ∈ a ↔ o ∈ b) → a = b
  | [], [], _, _, _ => rfl
  | [], y :: _, _, _, h => by have := (h y).mpr List.mem_cons_self; cases this
  | x :: _, [], _, _, h => by have := (h x).mp List.mem_cons_self; cases this
  | x :: a', y :: b', ha, hb, h => by
    have hax : ∀ o ∈ a', lt x.sortKey o.sortKey = true := (List.pairwise_cons.mp ha).1
    have hby : ∀ o ∈ b', lt y.sortKey o.sortKey = true := (List.pairwise_cons.mp hb).1
    have hxy : x = y := by
      rcases List.mem_cons.mp ((h x).mp List.mem_cons_self) with e | hx
      · exact e
      · rcases List.mem_cons.mp ((h y).mpr List.mem_cons_self) with e | hy
        · exact e.symm
        · have h1 := hby x hx
          have h2 := hax y hy
          rw [lt_asymm h1] at h2; cases h2
    subst hxy
    have : a' = b' := by
      apply strictK_unique (List.pairwise_cons.mp ha).2 (List.pairwise_cons.mp hb).2
      intro o
      constructor
      · intro ho
        rcases List.mem_cons.mp ((h o).mp (List.mem_cons_of_mem _ ho)) with e | ho'
        · subst e; have := hax o ho; rw [lt_irrefl] at this; cases this
        · exact ho'
      · intro ho
        rcases List.mem_cons.mp ((h o).mpr (List.mem_cons_of_mem _ ho)) with e | ho'
        · subst e; have := hby o ho; rw [lt_irrefl] at this; cases this
        · exact ho'
    rw [this]

theorem groupRuns_ok {s : List Op} (hs : KSorted Op.sortKey s) (hnc : NoConflict s) :
    ∃ out, groupRuns s = .ok out ∧ StrictK out ∧ (∀ o, o ∈ out ↔ o ∈ s) := by
  cases s with
  | nil => exact ⟨[], rfl, List.Pairwise.nil, fun o => Iff.rfl⟩
  | cons a rest => exact groupFrom_ok rest a hs hnc

theorem groupRuns_conflict {s : List Op} (hs : KSorted Op.sortKey s) (hnc : ¬ NoConflict s) :
    groupRuns s = .error .conflict := by
  cases s with
  | nil => exfalso; apply hnc; intro a ha; cases ha
  | cons a rest => exact groupFrom_conflict rest a hs hnc

theorem noConflict_congr {s t : List Op} (h : ∀ o, o ∈ s ↔ o ∈ t) : NoConflict s ↔ NoConflict t := by
  constructor
  · intro hs a ha b hb; exact hs a ((h a).mpr ha) b ((h b).mpr hb)
  · intro ht a ha b hb; exact ht a ((h a).mp ha) b ((h b).mp hb)

/-- the grouping result is a function of the *set* of ops, on key-sorted inputs. -/
theorem groupRuns_congr {s t : List Op} (hs : KSorted Op.sortKey s) (ht : KSorted Op.sortKey t)
    (h : ∀ o, o ∈ s ↔ o ∈ t) : groupRuns s = groupRuns t := by
  by_cases hnc : NoConflict s
  · obtain ⟨o1, e1, st1, m1⟩ := groupRuns_ok hs hnc
    obtain ⟨o2, e2, st2, m2⟩ := groupRuns_ok ht ((noConflict_congr h).mp hnc)
    have : o1 = o2 := strictK_unique st1 st2 (fun o => by rw [m1 o, m2 o, h o])
    rw [e1, e2, this]
  · rw [groupRuns_conflict hs hnc, groupRuns_conflict ht (fun h' => hnc ((noConflict_congr h).mpr h'))]

/-! ### the new-warp rule looks only at the set of ops -/

theorem mem_newWarps {ops : List Op} {w : Nat} :
    w ∈ newWarps ops ↔ ∃ key cr ty, Op.openPortal key w cr (.empty ty) ∈ ops := by
  unfold newWarps
  rw [List.mem_filterMap]
  constructor
  · rintro ⟨o, ho, hw⟩
    cases o with
    | openPortal key cw cr init =>
      cases init with
      | empty ty => simp at hw; subst hw; exact ⟨key, cr, ty, ho⟩
      | requireExisting => simp at hw
    | _ => simp at hw
  · rintro ⟨key, cr, ty, ho⟩
    exact ⟨_, ho, rfl⟩

theorem writesNewWarp_congr {s t : List Op} (h : ∀ o, o ∈ s ↔ o ∈ t) :
    writesNewWarp s = writesNewWarp t := by
  have hw : ∀ w, w ∈ newWarps s ↔ w ∈ newWarps t := by
    intro w; rw [mem_newWarps, mem_newWarps]
    constructor <;> rintro ⟨k, c, ty, ho⟩
    · exact ⟨k, c, ty, (h _).mp ho⟩
    · exact ⟨k, c, ty, (h _).mpr ho⟩
  have hh : ∀ o, hitsWarps (newWarps s) o = hitsWarps (newWarps t) o := by
    intro o
    unfold hitsWarps
    cases targetWarp o with
    | none => rfl
    | some w =>
      simp only []
      rw [Bool.eq_iff_iff]
      simp only [List.contains_iff_mem]
      exact hw w
  unfold writesNewWarp
  rw [Bool.eq_iff_iff, List.any_eq_true, List.any_eq_true]
  constructor
  · rintro ⟨o, ho, hx⟩; exact ⟨o, (h o).mp ho, by rw [← hh]; exact hx⟩
  · rintro ⟨o, ho, hx⟩; exact ⟨o, (h o).mpr ho, by rw [hh]; exact hx⟩

end Merge
end EchoVerif

namespace EchoVerif
namespace Merge
open Graph LinOrd

/-! ### `finishA` / `finishB` as functions of the set of ops -/

theorem finishB_eq (s : List Op) :
    finishB s = match groupRuns s with
      | .error e => .error e
      | .ok out => if writesNewWarp out then .error .newWarp else .ok out := by
  unfold finishB
  rw [groupRuns_eq_window]
  by_cases hc : conflictWindow s = true <;> simp [hc]

theorem finishB_congr {s t : List Op} (hs : KSorted Op.sortKey s) (ht : KSorted Op.sortKey t)
    (h : ∀ o, o ∈ s ↔ o ∈ t) : finishB s = finishB t := by
  rw [finishB_eq, finishB_eq, groupRuns_congr hs ht h]

theorem finishA_congr {s t : List Op} (hs : KSorted Op.sortKey s) (ht : KSorted Op.sortKey t)
    (h : ∀ o, o ∈ s ↔ o ∈ t) : finishA s = finishA t := by
  unfold finishA
  rw [writesNewWarp_congr h, groupRuns_congr hs ht h]

/-- the two variants commit the same ops (they differ only in which error they report when a
    tick both conflicts and writes into a new warp). -/
theorem finish_agree {s t : List Op} (hs : KSorted Op.sortKey s) (ht : KSorted Op.sortKey t)
    (h : ∀ o, o ∈ s ↔ o ∈ t) (out : List Op) : finishA s = .ok out ↔ finishB t = .ok out := by
  rw [finishB_eq, ← groupRuns_congr hs ht h]
  unfold finishA
  by_cases hnc : NoConflict s
  · obtain ⟨o1, e1, _, m1⟩ := groupRuns_ok hs hnc
    rw [e1]
    simp only []
    rw [writesNewWarp_congr m1]
  · rw [groupRuns_conflict hs hnc]
    by_cases hw : writesNewWarp s = true <;> simp [hw]

/-! ### worker runs -/

section Run
variable {ι : Type} (f : Nat → ι → ItemOut) (hs : Nat → Bool)

/-- one unit is fine: its store exists and none of its items is poisoned. -/
def GoodUnit (u : WUnit ι) : Prop := hs u.warp = true ∧ ∀ it ∈ u.items, f u.warp it ≠ .poison

theorem runItems_good (g : ι → ItemOut) : ∀ (its : List ι) (d : List Entry),
    (∀ it ∈ its, g it ≠ .poison) →
    runItems g its d = some (d ++ its.flatMap (fun it => (g it).entries))
  | [], d, _ => by simp [runItems]
  | it :: rest, d, h => by
    have h1 : g it ≠ .poison := h it List.mem_cons_self
    have h2 : ∀ x ∈ rest, g x ≠ .poison := fun x hx => h x (List.mem_cons_of_mem _ hx)
    cases hg : g it with
    | poison => exact absurd hg h1
    | ok es =>
      simp only [runItems, hg]
      rw [runItems_good g rest (d ++ es) h2]
      simp [ItemOut.entries, hg, List.append_assoc]

theorem runItems_some (g : ι → ItemOut) : ∀ (its : List ι) (d d' : List Entry),
    runItems g its d = some d' → ∀ it ∈ its, g it ≠ .poison
  | [], _, _, _, it, hit => by cases hit
  | x :: rest, d, d', h, it, hit => by
    cases hg : g x with
    | poison => simp [runItems, hg] at h
    | ok es =>
      simp only [runItems, hg] at h
      rcases List.mem_cons.mp hit with rfl | hr
      · rw [hg]; intro e; cases e
      · exact runItems_some g rest _ _ h it hr

theorem runWorker_good : ∀ (us : List (WUnit ι)) (d : List Entry),
    (∀ u ∈ us, GoodUnit f hs u) →
    runWorker f hs us d = .success (d ++ us.flatMap (unitEntries f))
  | [], d, _ => by simp [runWorker]
  | u :: rest, d, h => by
    have hu := h u List.mem_cons_self
    have hr : ∀ x ∈ rest, GoodUnit f hs x := fun x hx => h x (List.mem_cons_of_mem _ hx)
    simp only [runWorker, hu.1, Bool.not_true, Bool.false_eq_true, if_false]
    rw [runItems_good (f u.warp) u.items d hu.2]
    simp only []
    rw [runWorker_good rest _ hr]
    simp [unitEntries, List.append_assoc]

theorem runWorker_success : ∀ (us : List (WUnit ι)) (d d' : List Entry),
    runWorker f hs us d = .success d' → ∀ u ∈ us, GoodUnit f hs u
  | [], _, _, _, u, hu => by cases hu
  | x :: rest, d, d', h, u, hu => by
    simp only [runWorker] at h
    by_cases hx : hs x.warp = true
    · simp only [hx, Bool.not_true, Bool.false_eq_true, if_false] at h
      cases hri : runItems (f x.warp) x.items d with
      | none => simp [hri] at h
      | some d1 =>
        simp only [hri] at h
        rcases List.mem_cons.mp hu with rfl | hr
        · exact ⟨hx, runItems_some _ _ _ _ hri⟩
        · exact runWorker_success rest _ _ h u hr
    · simp [hx] at h

/-! ### schedules -/

theorem resolve_range : ∀ (units : List (WUnit ι)), resolve units (List.range units.length) = units
  | [] => rfl
  | u :: rest => by
    have ih := resolve_range rest
    unfold resolve at *
    rw [List.length_cons, List.range_succ_eq_map, List.filterMap_cons]
    simp only [List.getElem?_cons_zero, List.filterMap_map]
    exact congrArg (u :: ·) ih

theorem resolve_perm (units : List (WUnit ι)) {σ : Schedule} (hv : σ.Valid units.length) :
    (σ.map (resolve units)).flatten.Perm units := by
  have h1 : (σ.map (resolve units)).flatten = resolve units σ.flatten := by
    unfold resolve; rw [List.filterMap_flatten]
  rw [h1]
  have h2 : (resolve units σ.flatten).Perm (resolve units (List.range units.length)) :=
    List.Perm.filterMap _ hv
  rw [resolve_range] at h2
  exact h2

/-- every unit is claimed by some worker of a valid schedule. -/
theorem unit_claimed (units : List (WUnit ι)) {σ : Schedule} (hv : σ.Valid units.length)
    {u : WUnit ι} (hu : u ∈ units) : ∃ claims ∈ σ, u ∈ resolve units claims := by
  have : u ∈ (σ.map (resolve units)).flatten := (resolve_perm units hv).mem_iff.mpr hu
  obtain ⟨l, hl, hul⟩ := List.mem_flatten.mp this
  obtain ⟨claims, hc, rfl⟩ := List.mem_map.mp hl
  exact ⟨claims, hc, hul⟩

theorem resolve_subset (units : List (WUnit ι)) (claims : List Nat) :
    ∀ u ∈ resolve units claims, u ∈ units := by
  intro u hu
  unfold resolve at hu
  obtain ⟨i, _, hi⟩ := List.mem_filterMap.mp hu
  exact List.mem_iff_getElem?.mpr ⟨i, hi⟩

/-- all workers of a schedule succeed when every unit is good, each with the concatenation of its
    units' entries. -/
theorem runSchedule_good (units : List (WUnit ι)) (σ : Schedule)
    (hg : ∀ u ∈ units, GoodUnit f hs u) :
    runSchedule f hs units σ =
      σ.map (fun claims => WorkerRes.success ((resolve units claims).flatMap (unitEntries f))) := by
  unfold runSchedule
  apply List.map_congr_left
  intro claims _
  rw [runWorker_good f hs _ [] (fun u hu => hg u (resolve_subset units claims u hu))]
  simp

theorem entries_of_good (units : List (WUnit ι)) (σ : Schedule)
    (hg : ∀ u ∈ units, GoodUnit f hs u) :
    (runSchedule f hs units σ).flatMap WorkerRes.entries =
      ((σ.map (resolve units)).flatten).flatMap (unitEntries f) := by
  rw [runSchedule_good f hs units σ hg]
  induction σ with
  | nil => rfl
  | cons c rest ih =>
    simp only [List.map_cons, List.flatMap_cons, List.flatten_cons, List.flatMap_append,
      WorkerRes.entries]
    rw [ih]

end Run

/-! ### partition by an owner function (policies, shards) -/

theorem filter_split_perm {α : Type} (owner : α → Nat) (w : Nat) : ∀ l : List α,
    (l.filter (fun a => decide (owner a < w)) ++ l.filter (fun a => owner a == w)).Perm
      (l.filter (fun a => decide (owner a < w + 1)))
  | [] => List.Perm.refl _
  | a :: l => by
    have ih := filter_split_perm owner w l
    by_cases h1 : owner a < w
    · have h2 : owner a < w + 1 := by omega
      have h3 : (owner a == w) = false := by simp; omega
      simp only [List.filter_cons, h1, h2, h3, decide_true, if_true, Bool.false_eq_true, if_false,
        List.cons_append]
      exact ih.cons a
    · by_cases h2 : owner a = w
      · have h3 : owner a < w + 1 := by omega
        have h4 : (owner a == w) = true := by simp [h2]
        simp only [List.filter_cons, h1, h3, h4, decide_true, decide_false, if_true,
          Bool.false_eq_true, if_false]
        exact (List.perm_middle).trans (ih.cons a)
      · have h3 : ¬ owner a < w + 1 := by omega
        have h4 : (owner a == w) = false := by simp [h2]
        simp only [List.filter_cons, h1, h3, h4, decide_false, Bool.false_eq_true, if_false]
        exact ih

/-- grouping a list by an owner in `0..w` and concatenating the groups in owner order is a
    permutation of the elements whose owner is `< w`. -/
theorem group_by_owner_perm {α : Type} (owner : α → Nat) (l : List α) : ∀ w : Nat,
    ((List.range w).map (fun i => l.filter (fun a => owner a == i))).flatten.Perm
      (l.filter (fun a => decide (owner a < w)))
  | 0 => by simp
  | w + 1 => by
    rw [List.range_succ, List.map_append, List.flatten_append]
    simp only [List.map_cons, List.map_nil, List.flatten_cons, List.flatten_nil, List.append_nil]
    exact ((group_by_owner_perm owner l w).append_right _).trans (filter_split_perm owner w l)

theorem group_by_owner_perm_all {α : Type} (owner : α → Nat) (l : List α) (w : Nat)
    (h : ∀ a ∈ l, owner a < w) :
    ((List.range w).map (fun i => l.filter (fun a => owner a == i))).flatten.Perm l := by
  have := group_by_owner_perm owner l w
  rwa [List.filter_eq_self.mpr (fun a ha => by simpa using h a ha)] at this

end Merge
end EchoVerif

namespace EchoVerif
namespace Merge

/-! ### `build_work_units` partitions the items -/

theorem flatMap_perm_pointwise {α β : Type} (f g : α → List β) : ∀ l : List α,
    (∀ a ∈ l, (f a).Perm (g a)) → (l.flatMap f).Perm (l.flatMap g)
  | [], _ => List.Perm.refl _
  | a :: l, h => by
    simp only [List.flatMap_cons]
    exact (h a List.mem_cons_self).append
      (flatMap_perm_pointwise f g l (fun x hx => h x (List.mem_cons_of_mem _ hx)))

theorem insert_fresh_flat {ι : Type} (k : Nat) (v : List ι) : ∀ m : SMap Nat (List ι),
    SMap.find? k m = none →
    ((SMap.insert k v m).flatMap (·.2)).Perm (m.flatMap (·.2) ++ v)
  | [], _ => by simp [SMap.insert]
  | (k', v') :: rest, h => by
    simp only [SMap.find?] at h
    simp only [SMap.insert]
    by_cases h1 : LinOrd.lt k k' = true
    · simp only [h1, if_true, List.flatMap_cons]
      exact List.perm_append_comm
    · simp only [h1, if_false, Bool.false_eq_true] at h ⊢
      by_cases h2 : k = k'
      · simp [h2] at h
      · simp only [h2, if_false] at h ⊢
        simp only [List.flatMap_cons, List.append_assoc]
        exact (insert_fresh_flat k v rest h).append_left v'

theorem insert_push_flat {ι : Type} (k : Nat) (it : ι) : ∀ (m : SMap Nat (List ι)) (l : List ι),
    SMap.find? k m = some l →
    ((SMap.insert k (l ++ [it]) m).flatMap (·.2)).Perm (m.flatMap (·.2) ++ [it])
  | [], _, h => by simp [SMap.find?] at h
  | (k', v') :: rest, l, h => by
    simp only [SMap.find?] at h
    simp only [SMap.insert]
    by_cases h1 : LinOrd.lt k k' = true
    · simp [h1] at h
    · simp only [h1, if_false, Bool.false_eq_true] at h ⊢
      by_cases h2 : k = k'
      · simp only [h2, if_true, Option.some.injEq] at h ⊢
        subst h
        simp only [List.flatMap_cons, List.append_assoc]
        exact List.Perm.append_left _ List.perm_append_comm
      · simp only [h2, if_false] at h ⊢
        simp only [List.flatMap_cons, List.append_assoc]
        exact (insert_push_flat k it rest l h).append_left v'

theorem groupStep_flat {ι : Type} (warp : ι → Nat) (m : SMap Nat (List ι)) (it : ι) :
    ((groupStep warp m it).flatMap (fun p : Nat × List ι => p.2)).Perm
      (m.flatMap (fun p : Nat × List ι => p.2) ++ [it]) := by
  unfold groupStep
  cases hf : SMap.find? (warp it) m with
  | none => exact insert_fresh_flat _ _ m hf
  | some l => exact insert_push_flat _ it m l hf

theorem groupByWarp_perm_aux {ι : Type} (warp : ι → Nat) (items : List ι) :
    ∀ m : SMap Nat (List ι),
    ((items.foldl (groupStep warp) m).flatMap (fun p : Nat × List ι => p.2)).Perm
      (m.flatMap (fun p : Nat × List ι => p.2) ++ items) := by
  induction items with
  | nil => intro m; simp
  | cons it rest ih =>
    intro m
    simp only [List.foldl_cons]
    refine (ih _).trans ?_
    refine ((groupStep_flat warp m it).append_right rest).trans ?_
    simp [List.append_assoc]

theorem groupByWarp_perm {ι : Type} (warp : ι → Nat) (items : List ι) :
    ((groupByWarp warp items).flatMap (fun p : Nat × List ι => p.2)).Perm items := by
  have := groupByWarp_perm_aux warp items []
  simpa [groupByWarp] using this

end Merge
end EchoVerif
