import EchoVerif.Lemmas.DiffFinal
set_option linter.unusedSimpArgs false
set_option linter.unusedVariables false
namespace EchoVerif
namespace Graph
open SMap

theorem store_ext {x y : Store} (hx : x.Sorted4) (hy : y.Sorted4)
    (h1 : ∀ i, find? i x.nodes = find? i y.nodes) (h2 : ∀ i, find? i x.edges = find? i y.edges)
    (h3 : ∀ i, find? i x.nodeAtt = find? i y.nodeAtt) (h4 : ∀ i, find? i x.edgeAtt = find? i y.edgeAtt) :
    x = y := by
  cases x; cases y
  simp only [Store.mk.injEq]
  exact ⟨SMap.ext hx.1 hy.1 h1, SMap.ext hx.2.1 hy.2.1 h2, SMap.ext hx.2.2.1 hy.2.2.1 h3,
    SMap.ext hx.2.2.2 hy.2.2.2 h4⟩

/-- Two states with sorted maps that agree on the instance table, on which stores exist and on
    every location are equal. -/
theorem wstate_ext {x y : WState} (hx : x.SortedAll) (hy : y.SortedAll)
    (hi : x.instances = y.instances)
    (hk : ∀ w, (x.store? w).isSome = (y.store? w).isSome)
    (h1 : ∀ w i, nodeAt x w i = nodeAt y w i) (h2 : ∀ w i, edgeAt x w i = edgeAt y w i)
    (h3 : ∀ w i, nattAt x w i = nattAt y w i) (h4 : ∀ w i, eattAt x w i = eattAt y w i) :
    x = y := by
  have hst : x.stores = y.stores := by
    apply SMap.ext hx.1 hy.1
    intro w
    have hkw := hk w
    simp only [WState.store?] at hkw
    cases hxw : find? w x.stores with
    | none =>
      cases hyw : find? w y.stores with
      | none => rfl
      | some sy => rw [hxw, hyw] at hkw; cases hkw
    | some sx =>
      cases hyw : find? w y.stores with
      | none => rw [hxw, hyw] at hkw; cases hkw
      | some sy =>
        congr 1
        apply store_ext (hx.2 w sx hxw) (hy.2 w sy hyw)
        · intro i; have := h1 w i; simpa [nodeAt, WState.store?, hxw, hyw] using this
        · intro i; have := h2 w i; simpa [edgeAt, WState.store?, hxw, hyw] using this
        · intro i; have := h3 w i; simpa [nattAt, WState.store?, hxw, hyw] using this
        · intro i; have := h4 w i; simpa [eattAt, WState.store?, hxw, hyw] using this
  cases x; cases y
  simp only [WState.mk.injEq]
  exact ⟨hst, hi⟩

end Graph
end EchoVerif
