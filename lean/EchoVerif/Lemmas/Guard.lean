/-
  Helper lemmas for C14: exactness of `checkOp` / `checkRead`, the executor loop, the worker loop.
-/
import EchoVerif.Model.Guard

set_option linter.unusedSimpArgs false
set_option linter.unusedVariables false

namespace EchoVerif
namespace Guard
open Graph Generated

/-- A guarded read goes through a declared key (stated per accessor, *not* through the generated
    accessor table — the table is what `checkRead_none_iff` ties to this). -/
def ReadDeclared (g : Guard) (r : Read) : Prop :=
  match r.acc with
  | .node => r.id ∈ g.nodesRead
  | .adj => r.id ∈ g.nodesRead
  | .nodeAtt => AttKey.nodeAlpha g.warp r.id ∈ g.attRead
  | .edgeAtt => AttKey.edgeBeta g.warp r.id ∈ g.attRead
  | .hasEdge => r.id ∈ g.edgesRead

/-- An emitted op stays inside the declared writes of the guard. -/
structure OpWithin (g : Guard) (o : Op) : Prop where
  inst : (opTargets o).inst = true → g.isSystem = true
  warp : (opTargets o).warp = some g.warp
  nodes : ∀ n ∈ (opTargets o).nodes, n ∈ g.nodesWrite
  edges : ∀ e ∈ (opTargets o).edges, e ∈ g.edgesWrite
  atts : ∀ a ∈ (opTargets o).atts, a ∈ g.attWrite

theorem firstMissing_none_iff {α : Type} [DecidableEq α] (decl l : List α) :
    firstMissing decl l = none ↔ ∀ x ∈ l, x ∈ decl := by
  induction l with
  | nil => simp [firstMissing]
  | cons x xs ih =>
    simp only [firstMissing]
    split
    · rename_i h; rw [ih]; simp [h]
    · rename_i h; simp [h]

/-- Every arm of the extracted `op_write_targets` names a target warp. -/
theorem opTargets_warp_some (o : Op) : ∃ w, (opTargets o).warp = some w := by
  cases o <;> exact ⟨_, rfl⟩

theorem checkRead_none_iff (g : Guard) (r : Read) : checkRead g r = none ↔ ReadDeclared g r := by
  obtain ⟨acc, id⟩ := r
  cases acc <;> simp [checkRead, ReadDeclared, accessorSet, accessorNodeKey, Read.attKey]

theorem checkOp_none_iff (g : Guard) (o : Op) : checkOp g o = none ↔ OpWithin g o := by
  obtain ⟨w, hw⟩ := opTargets_warp_some o
  constructor
  · intro h
    unfold checkOp at h
    simp only [hw] at h
    split at h
    · cases h
    · rename_i hinst
      by_cases hwg : w = g.warp
      · subst hwg
        simp only [ne_eq, not_true_eq_false, if_false] at h
        split at h
        · cases h
        · rename_i hn
          split at h
          · cases h
          · rename_i he
            split at h
            · cases h
            · rename_i ha
              refine ⟨?_, hw, (firstMissing_none_iff _ _).1 hn, (firstMissing_none_iff _ _).1 he,
                (firstMissing_none_iff _ _).1 ha⟩
              intro hi
              cases hs : g.isSystem with
              | true => rfl
              | false => exact absurd (by simp [hi, hs]) hinst
      · simp only [ne_eq, hwg, not_false_eq_true, if_true] at h
        cases h
  · intro ⟨hi, hwarp, hn, he, ha⟩
    have hwg : w = g.warp := by rw [hw] at hwarp; exact Option.some.inj hwarp
    subst hwg
    unfold checkOp
    simp only [hw]
    have h1 : ((opTargets o).inst && !g.isSystem) = false := by
      cases hinst : (opTargets o).inst with
      | false => rfl
      | true => simp [hi hinst]
    simp only [h1, Bool.false_eq_true, if_false, ne_eq, not_true_eq_false,
      (firstMissing_none_iff _ _).2 hn, (firstMissing_none_iff _ _).2 he, (firstMissing_none_iff _ _).2 ha]

/-- An emitted op stays inside the declared writes, including the state-dependent target (the
    previous source of an edge it moves in the pre-state store `st`). -/
structure OpWithinIn (g : Guard) (st : Store) (o : Op) : Prop where
  op : OpWithin g o
  moved : ∀ n, movedPrev g.warp st o = some n → n ∈ g.nodesWrite

theorem checkOpIn_none_iff (g : Guard) (st : Store) (o : Op) :
    checkOpIn g st o = none ↔ OpWithinIn g st o := by
  unfold checkOpIn
  cases hc : checkOp g o with
  | some v =>
    simp only
    constructor
    · intro h; cases h
    · intro h; have := (checkOp_none_iff g o).2 h.op; rw [hc] at this; cases this
  | none =>
    have hw := (checkOp_none_iff g o).1 hc
    simp only
    cases hm : movedPrev g.warp st o with
    | none =>
      constructor
      · intro _; exact ⟨hw, fun n hn => by rw [hm] at hn; cases hn⟩
      · intro _; rfl
    | some n =>
      by_cases hn : n ∈ g.nodesWrite
      · constructor
        · intro _; exact ⟨hw, fun m hm' => by rw [hm] at hm'; cases hm'; exact hn⟩
        · intro _; simp only [hn, if_true]
      · constructor
        · intro h; simp only [hn, if_false] at h; cases h
        · intro h; exact absurd (h.moved n hm) hn

theorem firstBadOp_none_iff (g : Guard) (st : Store) (ops : List Op) :
    firstBadOp g st ops = none ↔ ∀ o ∈ ops, checkOpIn g st o = none := by
  induction ops with
  | nil => simp [firstBadOp]
  | cons o os ih =>
    simp only [firstBadOp]
    cases h : checkOpIn g st o with
    | some v => simp [h]
    | none => simp [h, ih]

/-! ### the executor loop -/

def Instr.reads : Instr → List Read
  | .read r => [r]
  | .emitIf c _ => [c.read]
  | _ => []

def Instr.isPanic : Instr → Bool
  | .panic => true
  | _ => false

/-- The ops a program emits on a store when nothing stops it (conditions evaluated on the store). -/
def emitted (st : Store) : List Instr → List Op
  | [] => []
  | .emit o :: rest => o :: emitted st rest
  | .emitIf c o :: rest => if c.eval st then o :: emitted st rest else emitted st rest
  | _ :: rest => emitted st rest

theorem exec_complete {g : Guard} {st : Store} :
    ∀ (prog : List Instr) (acc ops : List Op), exec g st prog acc = (ops, none) →
      (∀ i ∈ prog, ∀ r ∈ i.reads, checkRead g r = none) ∧ (∀ i ∈ prog, i.isPanic = false) ∧
      ops = acc ++ emitted st prog := by
  intro prog
  induction prog with
  | nil => intro acc ops h; simp [exec] at h; simp [emitted, h]
  | cons i rest ih =>
    intro acc ops h
    cases i with
    | read r =>
      simp only [exec] at h
      cases hr : checkRead g r with
      | some v => rw [hr] at h; cases h
      | none =>
        rw [hr] at h
        obtain ⟨h1, h2, h3⟩ := ih _ _ h
        refine ⟨?_, ?_, ?_⟩
        · intro i hi r' hr'
          cases hi with
          | head => simp [Instr.reads] at hr'; subst hr'; exact hr
          | tail _ hi => exact h1 i hi r' hr'
        · intro i hi
          cases hi with
          | head => rfl
          | tail _ hi => exact h2 i hi
        · simpa [emitted] using h3
    | emit o =>
      simp only [exec] at h
      obtain ⟨h1, h2, h3⟩ := ih _ _ h
      refine ⟨?_, ?_, ?_⟩
      · intro i hi r' hr'
        cases hi with
        | head => simp [Instr.reads] at hr'
        | tail _ hi => exact h1 i hi r' hr'
      · intro i hi
        cases hi with
        | head => rfl
        | tail _ hi => exact h2 i hi
      · simp [emitted, h3]
    | emitIf c o =>
      simp only [exec] at h
      cases hr : checkRead g c.read with
      | some v => rw [hr] at h; cases h
      | none =>
        rw [hr] at h
        simp only at h
        by_cases hc : c.eval st = true
        · simp only [hc, if_true] at h
          obtain ⟨h1, h2, h3⟩ := ih _ _ h
          refine ⟨?_, ?_, ?_⟩
          · intro i hi r' hr'
            cases hi with
            | head => simp [Instr.reads] at hr'; subst hr'; exact hr
            | tail _ hi => exact h1 i hi r' hr'
          · intro i hi
            cases hi with
            | head => rfl
            | tail _ hi => exact h2 i hi
          · simp [emitted, hc, h3]
        · simp only [hc, if_false] at h
          obtain ⟨h1, h2, h3⟩ := ih _ _ h
          refine ⟨?_, ?_, ?_⟩
          · intro i hi r' hr'
            cases hi with
            | head => simp [Instr.reads] at hr'; subst hr'; exact hr
            | tail _ hi => exact h1 i hi r' hr'
          · intro i hi
            cases hi with
            | head => rfl
            | tail _ hi => exact h2 i hi
          · simp [emitted, hc, h3]
    | panic => simp [exec] at h

theorem exec_honest {g : Guard} {st : Store} :
    ∀ (prog : List Instr) (acc : List Op),
      (∀ i ∈ prog, ∀ r ∈ i.reads, checkRead g r = none) → (∀ i ∈ prog, i.isPanic = false) →
      exec g st prog acc = (acc ++ emitted st prog, none) := by
  intro prog
  induction prog with
  | nil => intro acc _ _; simp [exec, emitted]
  | cons i rest ih =>
    intro acc hr hp
    have hr' : ∀ i ∈ rest, ∀ r ∈ i.reads, checkRead g r = none :=
      fun j hj => hr j (List.mem_cons_of_mem _ hj)
    have hp' : ∀ i ∈ rest, i.isPanic = false := fun j hj => hp j (List.mem_cons_of_mem _ hj)
    cases i with
    | read r =>
      have := hr (.read r) (List.mem_cons_self ..) r (by simp [Instr.reads])
      simp only [exec, this, emitted]
      exact ih _ hr' hp'
    | emit o =>
      simp only [exec, emitted]
      rw [ih _ hr' hp']; simp
    | emitIf c o =>
      have := hr (.emitIf c o) (List.mem_cons_self ..) c.read (by simp [Instr.reads])
      simp only [exec, this, emitted]
      by_cases hc : c.eval st = true
      · simp only [hc, if_true]; rw [ih _ hr' hp']; simp
      · simp only [hc, if_false]; exact ih _ hr' hp'
    | panic =>
      have := hp .panic (List.mem_cons_self ..)
      simp [Instr.isPanic] at this

/-! ### the worker loop -/

theorem runWorker_success {s : WState} :
    ∀ (l : List Item) (acc ops : List Op), runWorker s l acc = .success ops →
      ∀ it ∈ l, ∃ st, s.store? it.guard.warp = some st ∧ (runItem it.guard st it.prog).isOk = true := by
  intro l
  induction l with
  | nil => intro _ _ _ it hit; cases hit
  | cons x rest ih =>
    intro acc ops h it hit
    simp only [runWorker] at h
    cases hst : s.store? x.guard.warp with
    | none => rw [hst] at h; cases h
    | some st =>
      rw [hst] at h
      simp only at h
      cases hr : runItem x.guard st x.prog with
      | ok o =>
        rw [hr] at h
        simp only at h
        cases hit with
        | head => exact ⟨st, hst, by rw [hr]; rfl⟩
        | tail _ hit => exact ih _ _ h it hit
      | violation v wp => rw [hr] at h; cases h
      | panicked => rw [hr] at h; cases h

end Guard
end EchoVerif
