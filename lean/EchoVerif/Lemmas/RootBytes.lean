/-
  Lemmas about Model/Root.lean, part 3: the byte encoding is prefix-free field by field.
  Fixed-width ids / u64 lengths are injective below 2^256 / 2^64.
-/
import EchoVerif.Model.Root

set_option linter.unusedSimpArgs false
set_option linter.unusedVariables false

namespace EchoVerif
namespace Root
open Graph

/-! ### fixed-width integers -/

theorem natToBE_length (len n : Nat) : (natToBE len n).length = len := by
  simp [natToBE]

theorem natToLE_length (len n : Nat) : (natToLE len n).length = len := by
  simp [natToLE]

theorem ofNat_toNat_mod (x : Nat) : (UInt8.ofNat (x % 256)).toNat = x % 256 := by
  have : x % 256 < 256 := Nat.mod_lt _ (by decide)
  simp [UInt8.toNat_ofNat, Nat.mod_eq_of_lt this]

theorem natToBE_succ (len n : Nat) :
    natToBE (len + 1) n = natToBE len (n / 256) ++ [UInt8.ofNat (n % 256)] := by
  unfold natToBE
  rw [List.range_succ, List.map_append]
  congr 1
  · apply List.map_congr_left
    intro i hi
    have hi' : i < len := List.mem_range.mp hi
    have e : len + 1 - 1 - i = (len - 1 - i) + 1 := by omega
    rw [e, Nat.pow_succ, Nat.mul_comm, ← Nat.div_div_eq_div_mul]
  · simp

theorem beNat_append_single (xs : Bytes) (b : UInt8) : beNat (xs ++ [b]) = beNat xs * 256 + b.toNat := by
  simp [beNat, List.foldl_append]

theorem beNat_natToBE : ∀ (len n : Nat), beNat (natToBE len n) = n % 256 ^ len
  | 0, n => by simp [natToBE, beNat, Nat.mod_one]
  | len + 1, n => by
    rw [natToBE_succ, beNat_append_single, beNat_natToBE len (n / 256), ofNat_toNat_mod]
    rw [Nat.pow_succ, Nat.mul_comm (256 ^ len) 256, Nat.mod_mul]
    omega

theorem natToLE_succ (len n : Nat) :
    natToLE (len + 1) n = UInt8.ofNat (n % 256) :: natToLE len (n / 256) := by
  unfold natToLE
  rw [List.range_succ_eq_map, List.map_cons, List.map_map]
  congr 1
  · simp
  · apply List.map_congr_left
    intro i _
    simp only [Function.comp]
    rw [Nat.pow_succ, Nat.mul_comm, ← Nat.div_div_eq_div_mul]

theorem leNat_natToLE : ∀ (len n : Nat), leNat (natToLE len n) = n % 256 ^ len
  | 0, n => by simp [natToLE, leNat, Nat.mod_one]
  | len + 1, n => by
    rw [natToLE_succ]
    simp only [leNat, List.foldr_cons]
    have ih := leNat_natToLE len (n / 256)
    simp only [leNat] at ih
    rw [ih, ofNat_toNat_mod, Nat.pow_succ, Nat.mul_comm (256 ^ len) 256, Nat.mod_mul]

def IdOk (n : Nat) : Prop := n < 256 ^ 32
def LenOk (n : Nat) : Prop := n < 256 ^ 8

theorem id32_length (n : Nat) : (id32 n).length = 32 := natToBE_length 32 n
theorem u64le_length (n : Nat) : (u64le n).length = 8 := natToLE_length 8 n

theorem id32_inj {n m : Nat} (hn : IdOk n) (hm : IdOk m) (h : id32 n = id32 m) : n = m := by
  have := congrArg beNat h
  simp only [id32, beNat_natToBE] at this
  rwa [Nat.mod_eq_of_lt hn, Nat.mod_eq_of_lt hm] at this

theorem u64le_inj {n m : Nat} (hn : LenOk n) (hm : LenOk m) (h : u64le n = u64le m) : n = m := by
  have := congrArg leNat h
  simp only [u64le, leNat_natToLE] at this
  rwa [Nat.mod_eq_of_lt hn, Nat.mod_eq_of_lt hm] at this

/-! ### splitting equal streams -/

theorem append_split {a b x y : Bytes} (hl : a.length = b.length) (h : a ++ x = b ++ y) :
    a = b ∧ x = y := List.append_inj h hl

theorem id32_split {n m : Nat} {x y : Bytes} (hn : IdOk n) (hm : IdOk m)
    (h : id32 n ++ x = id32 m ++ y) : n = m ∧ x = y := by
  obtain ⟨h1, h2⟩ := append_split (by rw [id32_length, id32_length]) h
  exact ⟨id32_inj hn hm h1, h2⟩

theorem u64le_split {n m : Nat} {x y : Bytes} (hn : LenOk n) (hm : LenOk m)
    (h : u64le n ++ x = u64le m ++ y) : n = m ∧ x = y := by
  obtain ⟨h1, h2⟩ := append_split (by rw [u64le_length, u64le_length]) h
  exact ⟨u64le_inj hn hm h1, h2⟩

/-! ### well-formedness of contents and tag tables -/

structure TagsOk (t : Tags) : Prop where
  att : t.attNone ≠ t.attSome
  kind : t.attAtom ≠ t.attDescend
  key : t.keyNone ≠ t.keySome
  owner : t.ownerNode ≠ t.ownerEdge
  plane : t.planeAlpha ≠ t.planeBeta

def AttOk : Option Att → Prop
  | none => True
  | some (.atom ty b) => IdOk ty ∧ LenOk b.length
  | some (.descend w) => IdOk w

def KeyOk : Option AttKey → Prop
  | none => True
  | some k => match k.owner with
    | .node w i => IdOk w ∧ IdOk i
    | .edge w i => IdOk w ∧ IdOk i

def NodeOk (n : NodeC) : Prop := IdOk n.id ∧ IdOk n.ty ∧ AttOk n.att
def EdgeOk (e : EdgeC) : Prop := IdOk e.id ∧ IdOk e.ty ∧ IdOk e.dst ∧ AttOk e.att
def BucketOk (b : BucketC) : Prop := IdOk b.src ∧ LenOk b.edges.length ∧ ∀ e, e ∈ b.edges → EdgeOk e
def InstOk (i : InstC) : Prop :=
  IdOk i.warp ∧ IdOk i.root ∧ KeyOk i.parent ∧ (∀ n, n ∈ i.nodes → NodeOk n) ∧ (∀ b, b ∈ i.buckets → BucketOk b)
def ContentOk (c : Content) : Prop :=
  IdOk c.rootWarp ∧ IdOk c.rootNode ∧ ∀ i, i ∈ c.insts → InstOk i

/-! ### prefix-freeness, bottom up -/

theorem encAtt_split {t : Tags} (ht : TagsOk t) {a b : Option Att} {x y : Bytes}
    (ha : AttOk a) (hb : AttOk b) (h : encAtt t a ++ x = encAtt t b ++ y) : a = b ∧ x = y := by
  cases a with
  | none =>
    cases b with
    | none => simp only [encAtt, List.cons_append, List.nil_append, List.cons.injEq, true_and] at h; exact ⟨rfl, h⟩
    | some b =>
      cases b <;> (simp only [encAtt, List.cons_append, List.nil_append, List.cons.injEq] at h; exact absurd h.1 ht.att)
  | some a =>
    cases b with
    | none =>
      cases a <;> (simp only [encAtt, List.cons_append, List.nil_append, List.cons.injEq] at h; exact absurd h.1.symm ht.att)
    | some b =>
      cases a with
      | atom ty bs =>
        cases b with
        | atom ty' bs' =>
          simp only [encAtt, List.cons_append, List.cons.injEq, true_and, List.append_assoc] at h
          obtain ⟨e1, h1⟩ := id32_split ha.1 hb.1 h
          obtain ⟨e2, h2⟩ := u64le_split ha.2 hb.2 h1
          obtain ⟨e3, h3⟩ := append_split e2 h2
          subst e1; subst e3
          exact ⟨rfl, h3⟩
        | descend w' =>
          simp only [encAtt, List.cons_append, List.cons.injEq] at h
          exact absurd h.2.1 ht.kind
      | descend w =>
        cases b with
        | atom ty' bs' =>
          simp only [encAtt, List.cons_append, List.cons.injEq] at h
          exact absurd h.2.1.symm ht.kind
        | descend w' =>
          simp only [encAtt, List.cons_append, List.cons.injEq, true_and] at h
          obtain ⟨e1, h1⟩ := id32_split ha hb h
          subst e1
          exact ⟨rfl, h1⟩


theorem plane_tag_inj {t : Tags} (ht : TagsOk t) {pa pb : Plane}
    (h : (match pa with | .alpha => t.planeAlpha | .beta => t.planeBeta) =
         (match pb with | .alpha => t.planeAlpha | .beta => t.planeBeta)) : pa = pb := by
  cases pa <;> cases pb
  · rfl
  · exact absurd h ht.plane
  · exact absurd h.symm ht.plane
  · rfl

theorem encKey_split {t : Tags} (ht : TagsOk t) {a b : Option AttKey} {x y : Bytes}
    (ha : KeyOk a) (hb : KeyOk b) (h : encKey t a ++ x = encKey t b ++ y) : a = b ∧ x = y := by
  cases a with
  | none =>
    cases b with
    | none =>
      simp only [encKey, List.cons_append, List.nil_append, List.cons.injEq, true_and] at h
      exact ⟨rfl, h⟩
    | some kb =>
      obtain ⟨ob, pb⟩ := kb
      cases ob <;>
        (simp only [encKey, List.cons_append, List.nil_append, List.cons.injEq] at h
         exact absurd h.1 ht.key)
  | some ka =>
    cases b with
    | none =>
      obtain ⟨oa, pa⟩ := ka
      cases oa <;>
        (simp only [encKey, List.cons_append, List.nil_append, List.cons.injEq] at h
         exact absurd h.1.symm ht.key)
    | some kb =>
      obtain ⟨oa, pa⟩ := ka
      obtain ⟨ob, pb⟩ := kb
      cases oa with
      | node w i =>
        cases ob with
        | node w' i' =>
          simp only [encKey, List.cons_append, List.cons.injEq, List.append_assoc] at h
          simp only [KeyOk] at ha hb
          obtain ⟨_, _, hp, hr⟩ := h
          obtain ⟨e1, h1⟩ := id32_split ha.1 hb.1 hr
          obtain ⟨e2, h2⟩ := id32_split ha.2 hb.2 h1
          have e3 := plane_tag_inj ht hp
          subst e1; subst e2; subst e3
          exact ⟨rfl, h2⟩
        | edge w' i' =>
          simp only [encKey, List.cons_append, List.cons.injEq] at h
          exact absurd h.2.1 ht.owner
      | edge w i =>
        cases ob with
        | node w' i' =>
          simp only [encKey, List.cons_append, List.cons.injEq] at h
          exact absurd h.2.1.symm ht.owner
        | edge w' i' =>
          simp only [encKey, List.cons_append, List.cons.injEq, List.append_assoc] at h
          simp only [KeyOk] at ha hb
          obtain ⟨_, _, hp, hr⟩ := h
          obtain ⟨e1, h1⟩ := id32_split ha.1 hb.1 hr
          obtain ⟨e2, h2⟩ := id32_split ha.2 hb.2 h1
          have e3 := plane_tag_inj ht hp
          subst e1; subst e2; subst e3
          exact ⟨rfl, h2⟩

theorem encNode_split {t : Tags} (ht : TagsOk t) {a b : NodeC} {x y : Bytes}
    (ha : NodeOk a) (hb : NodeOk b) (h : encNode t a ++ x = encNode t b ++ y) : a = b ∧ x = y := by
  obtain ⟨ai, aty, aat⟩ := a
  obtain ⟨bi, bty, bat⟩ := b
  simp only [encNode, List.append_assoc] at h
  obtain ⟨e1, h1⟩ := id32_split ha.1 hb.1 h
  obtain ⟨e2, h2⟩ := id32_split ha.2.1 hb.2.1 h1
  obtain ⟨e3, h3⟩ := encAtt_split ht ha.2.2 hb.2.2 h2
  simp only at e1 e2 e3
  subst e1; subst e2; subst e3
  exact ⟨rfl, h3⟩

theorem encEdge_split {t : Tags} (ht : TagsOk t) {a b : EdgeC} {x y : Bytes}
    (ha : EdgeOk a) (hb : EdgeOk b) (h : encEdge t a ++ x = encEdge t b ++ y) : a = b ∧ x = y := by
  obtain ⟨ai, aty, ad, aat⟩ := a
  obtain ⟨bi, bty, bd, bat⟩ := b
  simp only [encEdge, List.append_assoc] at h
  obtain ⟨e1, h1⟩ := id32_split ha.1 hb.1 h
  obtain ⟨e2, h2⟩ := id32_split ha.2.1 hb.2.1 h1
  obtain ⟨e3, h3⟩ := id32_split ha.2.2.1 hb.2.2.1 h2
  obtain ⟨e4, h4⟩ := encAtt_split ht ha.2.2.2 hb.2.2.2 h3
  simp only at e1 e2 e3 e4
  subst e1; subst e2; subst e3; subst e4
  exact ⟨rfl, h4⟩

/-- two lists that are consumed in lockstep: same length, related element-wise -/
inductive Lock {α : Type} (R : α → α → Prop) : List α → List α → Prop
  | nil : Lock R [] []
  | cons {a b : α} {l l' : List α} : R a b → Lock R l l' → Lock R (a :: l) (b :: l')

theorem lock_of_length {α : Type} (P : α → Prop) : ∀ (l l' : List α), l.length = l'.length →
    (∀ a, a ∈ l → P a) → (∀ a, a ∈ l' → P a) → Lock (fun a b => P a ∧ P b) l l'
  | [], [], _, _, _ => Lock.nil
  | [], _ :: _, h, _, _ => by simp at h
  | _ :: _, [], h, _, _ => by simp at h
  | a :: l, b :: l', h, h1, h2 =>
    Lock.cons ⟨h1 a List.mem_cons_self, h2 b List.mem_cons_self⟩
      (lock_of_length P l l' (by simpa using h) (fun x hx => h1 x (List.mem_cons_of_mem _ hx))
        (fun x hx => h2 x (List.mem_cons_of_mem _ hx)))

theorem flatMap_split {α : Type} (enc : α → Bytes) (R : α → α → Prop)
    (hsplit : ∀ a b x y, R a b → enc a ++ x = enc b ++ y → a = b ∧ x = y) :
    ∀ {l l' : List α} {x y : Bytes}, Lock R l l' →
      l.flatMap enc ++ x = l'.flatMap enc ++ y → l = l' ∧ x = y := by
  intro l l' x y hl
  induction hl generalizing x y with
  | nil => intro h; exact ⟨rfl, by simpa using h⟩
  | cons hab _ ih =>
    intro h
    simp only [List.flatMap_cons, List.append_assoc] at h
    obtain ⟨e1, h1⟩ := hsplit _ _ _ _ hab h
    obtain ⟨e2, h2⟩ := ih h1
    subst e1; subst e2
    exact ⟨rfl, h2⟩

theorem encBucket_split {t : Tags} (ht : TagsOk t) {a b : BucketC} {x y : Bytes}
    (ha : BucketOk a) (hb : BucketOk b) (h : encBucket t a ++ x = encBucket t b ++ y) :
    a = b ∧ x = y := by
  obtain ⟨as, ae⟩ := a
  obtain ⟨bs, be⟩ := b
  simp only [encBucket, List.append_assoc] at h
  obtain ⟨e1, h1⟩ := id32_split ha.1 hb.1 h
  obtain ⟨e2, h2⟩ := u64le_split ha.2.1 hb.2.1 h1
  simp only at e1 e2
  have hl := lock_of_length EdgeOk ae be e2 ha.2.2 hb.2.2
  obtain ⟨e3, h3⟩ := flatMap_split (encEdge t) _
    (fun a b x y hab hh => encEdge_split ht hab.1 hab.2 hh) hl h2
  subst e1; subst e3
  exact ⟨rfl, h3⟩

/-- same numbers of node entries and of buckets -/
def SameShape (a b : InstC) : Prop :=
  a.nodes.length = b.nodes.length ∧ a.buckets.length = b.buckets.length

theorem encInst_split {t : Tags} (ht : TagsOk t) {a b : InstC} {x y : Bytes}
    (ha : InstOk a) (hb : InstOk b) (hs : SameShape a b)
    (h : encInst t a ++ x = encInst t b ++ y) : a = b ∧ x = y := by
  obtain ⟨aw, ar, ap, an, ab⟩ := a
  obtain ⟨bw, br, bp, bn, bb⟩ := b
  simp only [encInst, List.append_assoc] at h
  obtain ⟨e1, h1⟩ := id32_split ha.1 hb.1 h
  obtain ⟨e2, h2⟩ := id32_split ha.2.1 hb.2.1 h1
  obtain ⟨e3, h3⟩ := encKey_split ht ha.2.2.1 hb.2.2.1 h2
  simp only at e1 e2 e3
  obtain ⟨e4, h4⟩ := flatMap_split (encNode t) _
    (fun a b x y hab hh => encNode_split ht hab.1 hab.2 hh)
    (lock_of_length NodeOk an bn hs.1 ha.2.2.2.1 hb.2.2.2.1) h3
  obtain ⟨e5, h5⟩ := flatMap_split (encBucket t) _
    (fun a b x y hab hh => encBucket_split ht hab.1 hab.2 hh)
    (lock_of_length BucketOk ab bb hs.2 ha.2.2.2.2 hb.2.2.2.2) h4
  subst e1; subst e2; subst e3; subst e4; subst e5
  exact ⟨rfl, h5⟩

theorem lock_strengthen {α : Type} (P : α → Prop) (R : α → α → Prop) {l l' : List α} (h : Lock R l l') :
    (∀ a, a ∈ l → P a) → (∀ a, a ∈ l' → P a) → Lock (fun a b => P a ∧ P b ∧ R a b) l l' := by
  induction h with
  | nil => intro _ _; exact Lock.nil
  | cons hab _ ih =>
    intro h1 h2
    exact Lock.cons ⟨h1 _ List.mem_cons_self, h2 _ List.mem_cons_self, hab⟩
      (ih (fun i hi => h1 i (List.mem_cons_of_mem _ hi)) (fun i hi => h2 i (List.mem_cons_of_mem _ hi)))

/-- **Injectivity of the stream for equal shapes**: same number of instance entries, and per entry
    the same numbers of nodes and buckets. -/
theorem encode_inj_shape {t : Tags} (ht : TagsOk t) {c c' : Content} (hc : ContentOk c) (hc' : ContentOk c')
    (hs : Lock SameShape c.insts c'.insts) (h : encode t c = encode t c') : c = c' := by
  obtain ⟨rw, rn, is⟩ := c
  obtain ⟨rw', rn', is'⟩ := c'
  simp only [encode] at h
  obtain ⟨e1, h1⟩ := id32_split hc.1 hc'.1 h
  obtain ⟨e2, h2⟩ := id32_split hc.2.1 hc'.2.1 h1
  simp only at e1 e2 hs
  have hl := lock_strengthen InstOk SameShape hs hc.2.2 hc'.2.2
  have h2' : is.flatMap (encInst t) ++ [] = is'.flatMap (encInst t) ++ [] := by simpa using h2
  obtain ⟨e3, _⟩ := flatMap_split (encInst t) _
    (fun a b x y hab hh => encInst_split ht hab.1 hab.2.1 hab.2.2 hh) hl h2'
  subst e1; subst e2; subst e3
  rfl


/-! ### one instance: the parse is forced without any count -/

theorem encBucket_ne_nil (t : Tags) (b : BucketC) (x : Bytes) : encBucket t b ++ x ≠ [] := by
  intro h
  have := congrArg List.length h
  simp only [encBucket, List.length_append, id32_length, List.length_nil] at this
  omega

theorem encNode_ne_nil (t : Tags) (n : NodeC) (x : Bytes) : encNode t n ++ x ≠ [] := by
  intro h
  have := congrArg List.length h
  simp only [encNode, List.length_append, id32_length, List.length_nil] at this
  omega

/-- buckets at the very end of the stream need no count -/
theorem buckets_end {t : Tags} (ht : TagsOk t) : ∀ (bs bs' : List BucketC),
    (∀ b, b ∈ bs → BucketOk b) → (∀ b, b ∈ bs' → BucketOk b) →
    bs.flatMap (encBucket t) = bs'.flatMap (encBucket t) → bs = bs'
  | [], [], _, _, _ => rfl
  | [], b :: bs', _, _, h => by
    simp only [List.flatMap_nil, List.flatMap_cons] at h
    exact absurd h.symm (encBucket_ne_nil t b _)
  | b :: bs, [], _, _, h => by
    simp only [List.flatMap_nil, List.flatMap_cons] at h
    exact absurd h (encBucket_ne_nil t b _)
  | b :: bs, b' :: bs', h1, h2, h => by
    simp only [List.flatMap_cons] at h
    obtain ⟨e, hr⟩ := encBucket_split ht (h1 b List.mem_cons_self) (h2 b' List.mem_cons_self) h
    rw [e, buckets_end ht bs bs' (fun x hx => h1 x (List.mem_cons_of_mem _ hx))
      (fun x hx => h2 x (List.mem_cons_of_mem _ hx)) hr]

def Asc (ns : List NodeC) : Prop := ns.Pairwise (fun a b => a.id < b.id)

/-- Node entries followed by buckets, both without counts: forced as long as node ids ascend
    strictly and every bucket source is a listed node (`P` = ids already consumed). -/
theorem tail_split {t : Tags} (ht : TagsOk t) : ∀ (ns ns' : List NodeC) (P : List Nat)
    (bs bs' : List BucketC),
    (∀ n, n ∈ ns → NodeOk n) → (∀ n, n ∈ ns' → NodeOk n) →
    (∀ b, b ∈ bs → BucketOk b) → (∀ b, b ∈ bs' → BucketOk b) →
    Asc ns → Asc ns' →
    (∀ n, n ∈ ns → ∀ p, p ∈ P → p < n.id) → (∀ n, n ∈ ns' → ∀ p, p ∈ P → p < n.id) →
    (∀ b, b ∈ bs → b.src ∈ P ∨ ∃ n, n ∈ ns ∧ b.src = n.id) →
    (∀ b, b ∈ bs' → b.src ∈ P ∨ ∃ n, n ∈ ns' ∧ b.src = n.id) →
    ns.flatMap (encNode t) ++ bs.flatMap (encBucket t)
      = ns'.flatMap (encNode t) ++ bs'.flatMap (encBucket t) →
    ns = ns' ∧ bs = bs'
  | [], [], P, bs, bs', _, _, hb, hb', _, _, _, _, _, _, h => by
    simp only [List.flatMap_nil, List.nil_append] at h
    exact ⟨rfl, buckets_end ht bs bs' hb hb' h⟩
  | [], n' :: ns', P, bs, bs', _, hn', hb, _, _, _, _, hP', hs, _, h => by
    exfalso
    simp only [List.flatMap_nil, List.nil_append, List.flatMap_cons, List.append_assoc] at h
    cases bs with
    | nil =>
      simp only [List.flatMap_nil] at h
      exact encNode_ne_nil t n' _ h.symm
    | cons b bs =>
      simp only [List.flatMap_cons, encBucket, encNode, List.append_assoc] at h
      have hbo := hb b List.mem_cons_self
      have hno := hn' n' List.mem_cons_self
      obtain ⟨e, _⟩ := id32_split hbo.1 hno.1 h
      rcases hs b List.mem_cons_self with hp | ⟨n, hn, _⟩
      · have := hP' n' List.mem_cons_self _ hp
        omega
      · cases hn
  | n :: ns, [], P, bs, bs', hn, _, _, hb', _, _, hP, _, _, hs', h => by
    exfalso
    simp only [List.flatMap_nil, List.nil_append, List.flatMap_cons, List.append_assoc] at h
    cases bs' with
    | nil =>
      simp only [List.flatMap_nil] at h
      exact encNode_ne_nil t n _ h
    | cons b bs' =>
      simp only [List.flatMap_cons, encBucket, encNode, List.append_assoc] at h
      have hbo := hb' b List.mem_cons_self
      have hno := hn n List.mem_cons_self
      obtain ⟨e, _⟩ := id32_split hno.1 hbo.1 h
      rcases hs' b List.mem_cons_self with hp | ⟨m, hm, _⟩
      · have := hP n List.mem_cons_self _ hp
        omega
      · cases hm
  | n :: ns, n' :: ns', P, bs, bs', hn, hn', hb, hb', ha, ha', hP, hP', hs, hs', h => by
    simp only [List.flatMap_cons, List.append_assoc] at h
    obtain ⟨e, hr⟩ := encNode_split ht (hn n List.mem_cons_self) (hn' n' List.mem_cons_self) h
    subst e
    have ha1 := List.pairwise_cons.mp ha
    have ha1' := List.pairwise_cons.mp ha'
    have := tail_split ht ns ns' (n.id :: P) bs bs'
      (fun x hx => hn x (List.mem_cons_of_mem _ hx)) (fun x hx => hn' x (List.mem_cons_of_mem _ hx))
      hb hb' ha1.2 ha1'.2
      (by
        intro m hm p hp
        cases hp with
        | head => exact ha1.1 m hm
        | tail _ hp => exact hP m (List.mem_cons_of_mem _ hm) p hp)
      (by
        intro m hm p hp
        cases hp with
        | head => exact ha1'.1 m hm
        | tail _ hp => exact hP' m (List.mem_cons_of_mem _ hm) p hp)
      (by
        intro b hbm
        rcases hs b hbm with hp | ⟨m, hm, e⟩
        · exact Or.inl (List.mem_cons_of_mem _ hp)
        · cases hm with
          | head => exact Or.inl (by rw [e]; exact List.mem_cons_self)
          | tail _ hm => exact Or.inr ⟨m, hm, e⟩)
      (by
        intro b hbm
        rcases hs' b hbm with hp | ⟨m, hm, e⟩
        · exact Or.inl (List.mem_cons_of_mem _ hp)
        · cases hm with
          | head => exact Or.inl (by rw [e]; exact List.mem_cons_self)
          | tail _ hm => exact Or.inr ⟨m, hm, e⟩)
      hr
    exact ⟨by rw [this.1], this.2⟩

/-- extra well-formedness used when no counts are assumed -/
def InstCanon (i : InstC) : Prop :=
  Asc i.nodes ∧ ∀ b, b ∈ i.buckets → ∃ n, n ∈ i.nodes ∧ b.src = n.id

/-- **Injectivity for single-instance contents**, with no assumption on counts. -/
theorem encode_inj_single {t : Tags} (ht : TagsOk t) {c c' : Content} (hc : ContentOk c) (hc' : ContentOk c')
    {i i' : InstC} (hi : c.insts = [i]) (hi' : c'.insts = [i']) (hw : InstCanon i) (hw' : InstCanon i')
    (h : encode t c = encode t c') : c = c' := by
  obtain ⟨rw, rn, is⟩ := c
  obtain ⟨rw', rn', is'⟩ := c'
  simp only at hi hi'
  subst hi; subst hi'
  simp only [encode, List.flatMap_cons, List.flatMap_nil, List.append_nil] at h
  obtain ⟨e1, h1⟩ := id32_split hc.1 hc'.1 h
  obtain ⟨e2, h2⟩ := id32_split hc.2.1 hc'.2.1 h1
  have io : InstOk i := hc.2.2 i (by simp)
  have io' : InstOk i' := hc'.2.2 i' (by simp)
  obtain ⟨iw, ir, ip, inn, ib⟩ := i
  obtain ⟨iw', ir', ip', inn', ib'⟩ := i'
  simp only [encInst] at h2
  obtain ⟨e3, h3⟩ := id32_split io.1 io'.1 h2
  obtain ⟨e4, h4⟩ := id32_split io.2.1 io'.2.1 h3
  obtain ⟨e5, h5⟩ := encKey_split ht io.2.2.1 io'.2.2.1 h4
  obtain ⟨e6, e7⟩ := tail_split ht inn inn' [] ib ib' io.2.2.2.1 io'.2.2.2.1 io.2.2.2.2 io'.2.2.2.2
    hw.1 hw'.1 (fun _ _ p hp => by cases hp) (fun _ _ p hp => by cases hp)
    (fun b hb => Or.inr (hw.2 b hb)) (fun b hb => Or.inr (hw'.2 b hb)) h5
  simp only at e1 e2 e3 e4 e5 e6 e7
  subst e1; subst e2; subst e3; subst e4; subst e5; subst e6; subst e7
  rfl

/-! ### the well-formedness predicates are decidable (used by the non-vacuity examples) -/

instance (n : Nat) : Decidable (IdOk n) := by unfold IdOk; infer_instance
instance (n : Nat) : Decidable (LenOk n) := by unfold LenOk; infer_instance
instance (a : Option Att) : Decidable (AttOk a) := by
  unfold AttOk; split <;> infer_instance
instance (k : Option AttKey) : Decidable (KeyOk k) := by
  unfold KeyOk; split
  · infer_instance
  · split <;> infer_instance
instance (n : NodeC) : Decidable (NodeOk n) := by unfold NodeOk; infer_instance
instance (e : EdgeC) : Decidable (EdgeOk e) := by unfold EdgeOk; infer_instance
instance (b : BucketC) : Decidable (BucketOk b) := by unfold BucketOk; infer_instance
instance (i : InstC) : Decidable (InstOk i) := by unfold InstOk; infer_instance
instance (c : Content) : Decidable (ContentOk c) := by unfold ContentOk; infer_instance
instance (i : InstC) : Decidable (InstCanon i) := by unfold InstCanon Asc; infer_instance

end Root
end EchoVerif
