/-
  Lemmas about the writer-epoch ledger reconciliation (Model/WalLedger.lean), for C11.
-/
import EchoVerif.Model.WalLedger
import EchoVerif.Lemmas.WalEdit
import EchoVerif.Lemmas.WalLog
set_option linter.unusedSimpArgs false
set_option linter.unusedVariables false

namespace EchoVerif.Wal

/-- a marker passes the loop of `reconcile_writer_epoch_closures` iff its epoch is known to the ledger
    or it lies strictly below the retained start LSN -/
def Ledger.admits (l : Ledger) (c : Commit) : Bool := l.knows c.writerEpoch || l.belowRetained c

/-- the marker loop can only fail with `UnknownPreviousWriterEpoch` -/
theorem reconcileLoop_error (l : Ledger) : ∀ (cs : List Commit) (cl : Closures) (e : EErr),
    reconcileLoop l cl cs = .error e → e = .unknownPrev := by
  intro cs
  induction cs with
  | nil => intro cl e h; simp [reconcileLoop] at h
  | cons c cs ih =>
    intro cl e h
    simp only [reconcileLoop] at h
    split at h
    · exact ih _ e h
    · split at h
      · exact ih _ e h
      · simp only [Except.error.injEq] at h
        exact h.symm

/-- the marker loop succeeds exactly when EVERY marker is admitted — whatever the closure map is,
    wherever the marker sits (no position, LSN range or closure state exempts a marker) -/
theorem reconcileLoop_ok_iff (l : Ledger) : ∀ (cs : List Commit) (cl : Closures),
    (∃ cl', reconcileLoop l cl cs = .ok cl') ↔ ∀ c ∈ cs, l.admits c = true := by
  intro cs
  induction cs with
  | nil => intro cl; simp [reconcileLoop]
  | cons c cs ih =>
    intro cl
    simp only [reconcileLoop, List.mem_cons, forall_eq_or_imp, Ledger.admits]
    by_cases hk : l.knows c.writerEpoch = true
    · simp only [hk, if_true, Bool.true_or, true_and]
      exact ih _
    · simp only [hk, Bool.false_or]
      by_cases hb : l.belowRetained c = true
      · simp only [hb, if_true, true_and, Bool.false_eq_true, if_false]
        exact ih _
      · simp [hb]

theorem reconcile_ok_iff (l : Ledger) (cs : List Commit) :
    (∃ l', reconcile l cs = .ok l')
      ↔ (l.active.isSome = true ∨ l.closed ≠ [] ∨ cs = []) ∧ ∀ c ∈ cs, l.admits c = true := by
  unfold reconcile
  by_cases hm : l.active.isNone = true ∧ l.closed.isEmpty = true ∧ ¬ cs.isEmpty = true
  · rw [if_pos hm]
    obtain ⟨h1, h2, h3⟩ := hm
    constructor
    · rintro ⟨_, h⟩; cases h
    · rintro ⟨h, _⟩
      rcases h with h | h | h
      · cases ha : l.active <;> simp_all
      · exact absurd (List.isEmpty_iff.mp h2) h
      · subst h; simp at h3
  · rw [if_neg hm]
    have hne : l.active.isSome = true ∨ l.closed ≠ [] ∨ cs = [] := by
      by_cases h1 : l.active.isSome = true
      · exact Or.inl h1
      · by_cases h2 : l.closed = []
        · by_cases h3 : cs = []
          · exact Or.inr (Or.inr h3)
          · exfalso; apply hm
            refine ⟨?_, ?_, ?_⟩
            · cases ha : l.active <;> simp_all
            · simp [h2]
            · simpa using h3
        · exact Or.inr (Or.inl h2)
    rw [← reconcileLoop_ok_iff l cs l.closures]
    constructor
    · rintro ⟨l', h⟩
      refine ⟨hne, ?_⟩
      cases hl : reconcileLoop l l.closures cs with
      | error e => simp [hl] at h
      | ok cl => exact ⟨cl, rfl⟩
    · rintro ⟨_, cl, h⟩
      exact ⟨{ l with closures := cl }, by simp [h]⟩

/-- every failure of `reconcile_writer_epoch_closures` is one of its two typed errors -/
theorem reconcile_error (l : Ledger) (cs : List Commit) (e : EErr) (h : reconcile l cs = .error e) :
    e = .unknownPrev ∨ e = .missingLedger := by
  unfold reconcile at h
  split at h
  · simp only [Except.error.injEq] at h; exact Or.inr h.symm
  · cases hl : reconcileLoop l l.closures cs with
    | error e' =>
      simp only [hl, Except.error.injEq] at h
      exact Or.inl (h ▸ reconcileLoop_error l cs _ e' hl)
    | ok cl => simp [hl] at h

/-- reconcile never touches the epoch lists: what the ledger knows is decided by the ledger FILE -/
theorem reconcile_keeps_epochs (l l' : Ledger) (cs : List Commit) (h : reconcile l cs = .ok l') :
    l'.active = l.active ∧ l'.closed = l.closed := by
  unfold reconcile at h
  split at h
  · cases h
  · cases hl : reconcileLoop l l.closures cs with
    | error e => simp [hl] at h
    | ok cl =>
      simp only [hl, Except.ok.injEq] at h
      subst h
      exact ⟨rfl, rfl⟩

/-! ### through `read_filesystem_segments` -/

theorem mem_readSegments_commits {cfg : Cfg} {H : HashFn} {segs : List Bytes} {recs : List Rec} {torn : Bool}
    (hs : scanSegments cfg H segs = .ok (recs, torn)) :
    ∃ frames commits, readSegments cfg H segs = .ok (frames, commits, torn)
      ∧ ∀ c, c ∈ commits ↔ Rec.commit c ∈ recs := by
  refine ⟨sortBy (fun f => f.header.lsn) (framesOf recs), sortBy (fun c => c.lastLsn) (commitsOf recs),
    by simp only [readSegments, hs], ?_⟩
  intro c
  rw [mem_sortBy, mem_commitsOf]

/-- records of every segment file end up in the scanned record list -/
theorem scanSegments_mem {cfg : Cfg} {H : HashFn} : ∀ (segs : List Bytes) (recs : List Rec) (torn : Bool),
    scanSegments cfg H segs = .ok (recs, torn) →
    ∀ b ∈ segs, ∀ rs t, scan cfg H (decodeRec cfg H) b = .ok (rs, t) → ∀ r ∈ rs, r ∈ recs := by
  intro segs
  induction segs with
  | nil => intro recs torn _ b hb; cases hb
  | cons s segs ih =>
    intro recs torn h b hb rs t hsc r hr
    simp only [scanSegments] at h
    cases h1 : scan cfg H (decodeRec cfg H) s with
    | error e => simp [h1] at h
    | ok v1 =>
      obtain ⟨rs1, t1⟩ := v1
      simp only [h1] at h
      cases h2 : scanSegments cfg H segs with
      | error e => simp [h2] at h
      | ok v2 =>
        obtain ⟨rs2, t2⟩ := v2
        simp only [h2, Except.ok.injEq, Prod.mk.injEq] at h
        obtain ⟨hrecs, _⟩ := h
        subst hrecs
        rw [List.mem_cons] at hb
        rcases hb with hb | hb
        · subst hb
          rw [h1] at hsc
          simp only [Except.ok.injEq, Prod.mk.injEq] at hsc
          rw [List.mem_append]; left; rw [hsc.1]; exact hr
        · rw [List.mem_append]; right
          exact ih rs2 t2 h2 b hb rs t hsc r hr

/-! ### the reader on a whole log -/

theorem encLog_append (cfg : Cfg) (H : HashFn) (a b : List Tx) :
    encLog cfg H (a ++ b) = encLog cfg H a ++ encLog cfg H b := by
  simp [encLog]

/-- `read_segment_bytes` on the bytes of a whole log returns (at least) every record of every
    transaction, no torn tail -/
theorem scan_log_full (cfg : Cfg) (H : HashFn) (h32 : Hash32 H) (ts : List Tx) (hc : Codec cfg H ts) :
    ∃ recs, scan cfg H (decodeRec cfg H) (encLog cfg H ts) = .ok (recs, false)
      ∧ ∀ t ∈ ts, Rec.commit t.commit ∈ recs := by
  obtain ⟨k, extra, torn, hk, _, hscan, hle, hnext, hiff⟩ :=
    scan_log_prefix cfg H h32 ts hc (encLog cfg H ts).length (Nat.le_refl _)
  rw [List.take_length] at hscan
  have hkl : k = ts.length := by
    by_cases hlt : k < ts.length
    · have h1 := hnext hlt
      have h2 : encLog cfg H ts = encLog cfg H (ts.take (k + 1)) ++ encLog cfg H (ts.drop (k + 1)) := by
        rw [← encLog_append, List.take_append_drop]
      have h3 := congrArg List.length h2
      simp only [List.length_append] at h3
      omega
    · omega
  subst hkl
  rw [List.take_length] at hscan hiff
  obtain ⟨he, ht⟩ := hiff.mpr rfl
  subst he ht
  refine ⟨_, hscan, ?_⟩
  intro t ht
  simp only [List.map_nil, List.append_nil, List.mem_flatMap]
  exact ⟨t, ht, by simp [recsT]⟩

end EchoVerif.Wal
