import EchoVerif.Lemmas.Graph
set_option linter.unusedSimpArgs false
set_option linter.unusedVariables false
namespace EchoVerif
namespace Graph
open SMap

theorem mem_iff_find? {ν : Type} {m : SMap Nat ν} (hs : Sorted m) (k : Nat) (v : ν) :
    (k, v) ∈ m ↔ find? k m = some v := ⟨mem_find? hs, find?_mem⟩

/-! ### what `diff_instance` emits (no skip sets) -/

theorem diffNodes_elim {w : Nat} {B A : Store} (hB : B.Sorted4) (hA : A.Sorted4) {o : Op}
    (h : o ∈ diffNodes w B A []) :
    (∃ i, o = .deleteNode w i ∧ find? i B.nodes ≠ none ∧ find? i A.nodes = none) ∨
    (∃ i ty, o = .upsertNode w i ty ∧ find? i A.nodes = some ty ∧ find? i B.nodes ≠ some ty) := by
  simp only [diffNodes, List.mem_append, List.mem_filterMap, List.contains_nil, Bool.false_eq_true,
    if_false, Prod.exists] at h
  rcases h with ⟨j, tyB, hm, h⟩ | ⟨j, tyA, hm, h⟩
  · have hb := (mem_iff_find? hB.1 _ _).mp hm
    split at h
    · cases h; rename_i hn
      exact Or.inl ⟨j, rfl, by rw [hb]; simp, hn⟩
    · rename_i tyA hsome
      split at h
      · cases h
      · cases h; rename_i hne
        exact Or.inr ⟨j, tyA, rfl, hsome, by rw [hb]; intro e; cases e; exact hne rfl⟩
  · have ha := (mem_iff_find? hA.1 _ _).mp hm
    split at h
    · cases h; rename_i hn
      exact Or.inr ⟨j, tyA, rfl, ha, by rw [hn]; simp⟩
    · cases h

theorem diffNodes_DN {w : Nat} {B A : Store} (hB : B.Sorted4) (i : Nat)
    (hb : find? i B.nodes ≠ none) (ha : find? i A.nodes = none) :
    Op.deleteNode w i ∈ diffNodes w B A [] := by
  simp only [diffNodes, List.mem_append, List.mem_filterMap, List.contains_nil, Bool.false_eq_true,
    if_false, Prod.exists]
  left
  cases hbn : find? i B.nodes with
  | none => exact absurd hbn hb
  | some ty => exact ⟨i, ty, (mem_iff_find? hB.1 _ _).mpr hbn, by simp [ha]⟩

theorem diffNodes_UN {w : Nat} {B A : Store} (hB : B.Sorted4) (hA : A.Sorted4) (i ty : Nat)
    (ha : find? i A.nodes = some ty) (hb : find? i B.nodes ≠ some ty) :
    Op.upsertNode w i ty ∈ diffNodes w B A [] := by
  simp only [diffNodes, List.mem_append, List.mem_filterMap, List.contains_nil, Bool.false_eq_true,
    if_false, Prod.exists]
  cases hbn : find? i B.nodes with
  | none => right; exact ⟨i, ty, (mem_iff_find? hA.1 _ _).mpr ha, by simp [hbn]⟩
  | some tyB =>
    left
    refine ⟨i, tyB, (mem_iff_find? hB.1 _ _).mpr hbn, ?_⟩
    simp only [ha]
    have : tyB ≠ ty := by intro e; subst e; exact hb hbn
    simp [this]

theorem diffNodeAtts_elim {w : Nat} {B A : Store} (hA : A.Sorted4) {o : Op}
    (h : o ∈ diffNodeAtts w B A []) :
    ∃ i, o = .setAtt (AttKey.nodeAlpha w i) (find? i A.nodeAtt) ∧ find? i A.nodes ≠ none ∧
      find? i B.nodeAtt ≠ find? i A.nodeAtt := by
  simp only [diffNodeAtts, List.mem_filterMap, List.contains_nil, Bool.false_eq_true, if_false,
    Prod.exists] at h
  obtain ⟨i, ty, hm, h⟩ := h
  have ha := (mem_iff_find? hA.1 _ _).mp hm
  split at h
  · cases h
  · cases h; rename_i hne
    exact ⟨i, rfl, by rw [ha]; simp, hne⟩

theorem diffNodeAtts_intro {w : Nat} {B A : Store} (hA : A.Sorted4) (i : Nat)
    (hn : find? i A.nodes ≠ none) (hne : find? i B.nodeAtt ≠ find? i A.nodeAtt) :
    Op.setAtt (AttKey.nodeAlpha w i) (find? i A.nodeAtt) ∈ diffNodeAtts w B A [] := by
  simp only [diffNodeAtts, List.mem_filterMap, List.contains_nil, Bool.false_eq_true, if_false,
    Prod.exists]
  cases han : find? i A.nodes with
  | none => exact absurd han hn
  | some ty => exact ⟨i, ty, (mem_iff_find? hA.1 _ _).mpr han, by simp [hne]⟩

theorem diffEdges_elim {w : Nat} {B A : Store} (hB : B.Sorted4) (hA : A.Sorted4) {o : Op}
    (h : o ∈ diffEdges w B A) :
    (∃ id eB, o = .deleteEdge w eB.src id ∧ find? id B.edges = some eB ∧
        (find? id A.edges = none ∨ ∃ eA, find? id A.edges = some eA ∧ eB.src ≠ eA.src)) ∨
    (∃ id eA, o = .upsertEdge w id eA.src eA.dst eA.ty ∧ find? id A.edges = some eA ∧
        find? id B.edges ≠ some eA) := by
  simp only [diffEdges, List.mem_append, List.mem_filterMap, List.mem_flatMap, Prod.exists] at h
  rcases h with ⟨id, eB, hm, h⟩ | ⟨id, eA, hm, h⟩
  · have hb := (mem_iff_find? hB.2.1 _ _).mp hm
    split at h
    · cases h; rename_i hn
      exact Or.inl ⟨id, eB, rfl, hb, Or.inl hn⟩
    · cases h
  · have ha := (mem_iff_find? hA.2.1 _ _).mp hm
    split at h
    · rename_i hn
      simp only [List.mem_singleton] at h
      subst h
      exact Or.inr ⟨id, eA, rfl, ha, by rw [hn]; simp⟩
    · rename_i eB hb
      split at h
      · cases h
      · rename_i hne
        simp only [List.mem_append, List.mem_singleton] at h
        rcases h with h | h
        · split at h
          · simp only [List.mem_singleton] at h
            subst h; rename_i hsrc
            exact Or.inl ⟨id, eB, rfl, hb, Or.inr ⟨eA, ha, hsrc⟩⟩
          · cases h
        · subst h
          exact Or.inr ⟨id, eA, rfl, ha, by rw [hb]; intro e; cases e; exact hne rfl⟩

theorem diffEdges_DE_gone {w : Nat} {B A : Store} (hB : B.Sorted4) (id : Nat) (eB : EdgeRec)
    (hb : find? id B.edges = some eB) (ha : find? id A.edges = none) :
    Op.deleteEdge w eB.src id ∈ diffEdges w B A := by
  simp only [diffEdges, List.mem_append, List.mem_filterMap, List.mem_flatMap, Prod.exists]
  left
  exact ⟨id, eB, (mem_iff_find? hB.2.1 _ _).mpr hb, by simp [ha]⟩

theorem diffEdges_DE_moved {w : Nat} {B A : Store} (hA : A.Sorted4) (id : Nat) (eB eA : EdgeRec)
    (hb : find? id B.edges = some eB) (ha : find? id A.edges = some eA) (hsrc : eB.src ≠ eA.src) :
    Op.deleteEdge w eB.src id ∈ diffEdges w B A := by
  simp only [diffEdges, List.mem_append, List.mem_filterMap, List.mem_flatMap, Prod.exists]
  right
  refine ⟨id, eA, (mem_iff_find? hA.2.1 _ _).mpr ha, ?_⟩
  simp only [hb]
  have : eB ≠ eA := by intro e; subst e; exact hsrc rfl
  simp [this, hsrc]

theorem diffEdges_UE {w : Nat} {B A : Store} (hA : A.Sorted4) (id : Nat) (eA : EdgeRec)
    (ha : find? id A.edges = some eA) (hb : find? id B.edges ≠ some eA) :
    Op.upsertEdge w id eA.src eA.dst eA.ty ∈ diffEdges w B A := by
  simp only [diffEdges, List.mem_append, List.mem_filterMap, List.mem_flatMap, Prod.exists]
  right
  refine ⟨id, eA, (mem_iff_find? hA.2.1 _ _).mpr ha, ?_⟩
  cases hbn : find? id B.edges with
  | none => simp
  | some eB =>
    have : eB ≠ eA := by intro e; subst e; exact hb hbn
    simp [this]

/-- "migrated": the edge keeps its id, changes its source, and carries an attachment afterwards. -/
def migratedAtt (B A : Store) (id : Nat) (eA : EdgeRec) : Prop :=
  (find? id A.edgeAtt).isSome = true ∧ ∃ eB, find? id B.edges = some eB ∧ eB.src ≠ eA.src

theorem edgeMigrated_iff (B : Store) (id : Nat) (eA : EdgeRec) :
    edgeMigrated B id eA = true ↔ ∃ eB, find? id B.edges = some eB ∧ eB.src ≠ eA.src := by
  unfold edgeMigrated
  cases h : find? id B.edges with
  | none => simp
  | some eB => simp

theorem diffEdgeAtts_elim {w : Nat} {B A : Store} (hA : A.Sorted4) {o : Op}
    (h : o ∈ diffEdgeAtts w B A []) :
    ∃ id eA, o = .setAtt (AttKey.edgeBeta w id) (find? id A.edgeAtt) ∧ find? id A.edges = some eA ∧
      (find? id B.edgeAtt ≠ find? id A.edgeAtt ∨ migratedAtt B A id eA) := by
  simp only [diffEdgeAtts, List.mem_filterMap, List.contains_nil, Bool.false_eq_true, if_false,
    Prod.exists] at h
  obtain ⟨id, eA, hm, h⟩ := h
  have ha := (mem_iff_find? hA.2.1 _ _).mp hm
  split at h
  · cases h
  · cases h; rename_i hc
    refine ⟨id, eA, rfl, ha, ?_⟩
    by_cases he : find? id B.edgeAtt = find? id A.edgeAtt
    · right
      simp only [he, decide_true, Bool.true_and, Bool.not_eq_true', Bool.not_eq_false,
        Bool.and_eq_true] at hc
      exact ⟨hc.1, (edgeMigrated_iff B id eA).mp hc.2⟩
    · exact Or.inl he

theorem diffEdgeAtts_intro {w : Nat} {B A : Store} (hA : A.Sorted4) (id : Nat) (eA : EdgeRec)
    (ha : find? id A.edges = some eA)
    (hc : find? id B.edgeAtt ≠ find? id A.edgeAtt ∨ migratedAtt B A id eA) :
    Op.setAtt (AttKey.edgeBeta w id) (find? id A.edgeAtt) ∈ diffEdgeAtts w B A [] := by
  simp only [diffEdgeAtts, List.mem_filterMap, List.contains_nil, Bool.false_eq_true, if_false,
    Prod.exists]
  refine ⟨id, eA, (mem_iff_find? hA.2.1 _ _).mpr ha, ?_⟩
  rcases hc with hc | ⟨h1, hex⟩
  · simp [hc]
  · have := (edgeMigrated_iff B id eA).mpr hex
    simp [h1, this]

end Graph
end EchoVerif
