/-
  Helper lemmas for the WAL export-profile model (Model/WscExport.lean), used by Props/C20.lean.
-/
import EchoVerif.Model.WscExport
import EchoVerif.Lemmas.WscStore

set_option linter.unusedSimpArgs false
set_option linter.unusedVariables false
set_option linter.unusedSectionVars false

namespace EchoVerif.WscExp
open EchoVerif SMap Wsc LinOrd

/-! ## sorted maps: inserting above everything appends -/

section SMapTail
variable {κ ν : Type} [DecidableEq κ] [LinOrd κ]

theorem lt_of_sorted_append {k0 k : κ} {v0 v : ν} {acc rest : SMap κ ν}
    (hs : Sorted ((k0, v0) :: (acc ++ (k, v) :: rest))) : lt k0 k = true :=
  all_above hs.1 hs.2 (k, v) (List.mem_append_right _ (List.mem_cons_self))

theorem find?_none_of_sorted_append {k : κ} {v : ν} : ∀ {acc rest : SMap κ ν},
    Sorted (acc ++ (k, v) :: rest) → find? k acc = none
  | [], _, _ => rfl
  | (k0, v0) :: acc, rest, hs => by
    have hlt : lt k0 k = true := lt_of_sorted_append hs
    simp only [SMap.find?]
    rw [lt_asymm hlt]
    have hne : k ≠ k0 := fun e => ne_of_lt hlt e.symm
    simp only [hne, if_false, Bool.false_eq_true]
    exact find?_none_of_sorted_append hs.2

theorem insert_of_sorted_append {k : κ} {v : ν} : ∀ {acc rest : SMap κ ν},
    Sorted (acc ++ (k, v) :: rest) → insert k v acc = acc ++ [(k, v)]
  | [], _, _ => rfl
  | (k0, v0) :: acc, rest, hs => by
    have hlt : lt k0 k = true := lt_of_sorted_append hs
    simp only [SMap.insert]
    rw [lt_asymm hlt]
    have hne : k ≠ k0 := fun e => ne_of_lt hlt e.symm
    simp only [hne, if_false, Bool.false_eq_true, List.cons_append]
    rw [insert_of_sorted_append hs.2]

theorem mem_insert {k : κ} {v : ν} {m : SMap κ ν} (hs : Sorted m) {p : κ × ν}
    (hp : p ∈ insert k v m) : p = (k, v) ∨ p ∈ m := by
  obtain ⟨k', v'⟩ := p
  have hf := mem_find? (sorted_insert k v hs) hp
  rw [find?_insert] at hf
  by_cases e : k' = k
  · subst e
    simp only [if_true] at hf
    cases hf; exact Or.inl rfl
  · simp only [e, if_false] at hf
    exact Or.inr (find?_mem hf)

end SMapTail

/-! ## the canonicalisation loop -/

section Canon
variable {κ ρ : Type} [DecidableEq κ] [LinOrd κ] [DecidableEq ρ] (key : ρ → κ) (err : ρ → Nat)

/-- Map invariant: sorted, every entry filed under its own key. -/
def KeyOk (m : SMap κ ρ) : Prop := Sorted m ∧ ∀ p ∈ m, p.1 = key p.2

theorem keyOk_insert {m : SMap κ ρ} (h : KeyOk key m) (r : ρ) : KeyOk key (insert (key r) r m) := by
  refine ⟨sorted_insert _ _ h.1, ?_⟩
  intro p hp
  rcases mem_insert h.1 hp with e | hm
  · rw [e]
  · exact h.2 p hm

/-- A successful run keeps the invariant, and everything in the result came from the start map or the
    input. -/
theorem canonGo_ok : ∀ (ps : List ρ) (m m' : SMap κ ρ), KeyOk key m → canonGo key err m ps = .ok m' →
    KeyOk key m' ∧ ∀ p ∈ m', p ∈ m ∨ p.2 ∈ ps
  | [], m, m', hk, h => by
    simp only [canonGo] at h
    cases h
    exact ⟨hk, fun p hp => Or.inl hp⟩
  | r :: ps, m, m', hk, h => by
    have step : canonGo key err (insert (key r) r m) ps = .ok m' := by
      simp only [canonGo] at h
      split at h
      · split at h
        · exact h
        · cases h
      · exact h
    obtain ⟨hk', hm⟩ := canonGo_ok ps _ m' (keyOk_insert key hk r) step
    refine ⟨hk', fun p hp => ?_⟩
    rcases hm p hp with h1 | h1
    · rcases mem_insert hk.1 h1 with e | h2
      · exact Or.inr (by rw [e]; exact List.mem_cons_self)
      · exact Or.inl h2
    · exact Or.inr (List.mem_cons_of_mem _ h1)

/-- One loop step that does not fail continues from the map with the item inserted; an item already
    filed under the key is the item itself. -/
theorem canonGo_cons {r : ρ} {ps : List ρ} {m m' : SMap κ ρ} (h : canonGo key err m (r :: ps) = .ok m') :
    canonGo key err (insert (key r) r m) ps = .ok m' ∧ ∀ ex, find? (key r) m = some ex → ex = r := by
  simp only [canonGo] at h
  split at h
  · rename_i ex hex
    split at h
    · rename_i e
      exact ⟨h, fun ex' h' => by rw [hex] at h'; cases h'; exact e⟩
    · cases h
  · rename_i hnone
    exact ⟨h, fun ex' h' => by rw [hnone] at h'; cases h'⟩

/-- Entries persist through a successful run (a key is only ever re-filed with the same item). -/
theorem canonGo_persist : ∀ (ps : List ρ) (m m' : SMap κ ρ), canonGo key err m ps = .ok m' →
    ∀ k v, find? k m = some v → find? k m' = some v
  | [], m, m', h, k, v, hf => by
    simp only [canonGo] at h
    cases h; exact hf
  | r :: ps, m, m', h, k, v, hf => by
    obtain ⟨step, hsame⟩ := canonGo_cons key err h
    apply canonGo_persist ps _ m' step k v
    rw [find?_insert]
    by_cases e : k = key r
    · subst e
      simp only [if_true]
      rw [hsame v hf]
    · simp only [e, if_false]
      exact hf

/-- Everything of the input is in the result (under its key). -/
theorem canonGo_complete : ∀ (ps : List ρ) (m m' : SMap κ ρ), canonGo key err m ps = .ok m' →
    ∀ r ∈ ps, find? (key r) m' = some r
  | [], _, _, _, r, hr => by cases hr
  | q :: ps, m, m', h, r, hr => by
    obtain ⟨step, _⟩ := canonGo_cons key err h
    rcases List.mem_cons.mp hr with e | hr'
    · subst e
      exact canonGo_persist key err ps _ m' step _ _ (find?_insert_self _ _ _)
    · exact canonGo_complete ps _ m' step r hr'

/-- Re-running the loop over its own (sorted) output reproduces it. -/
theorem canonGo_values : ∀ (rest acc : SMap κ ρ), KeyOk key (acc ++ rest) →
    canonGo key err acc (values rest) = .ok (acc ++ rest)
  | [], acc, _ => by simp [values, canonGo]
  | (k, v) :: rest, acc, hk => by
    have hkv : k = key v := hk.2 (k, v) (List.mem_append_right _ List.mem_cons_self)
    subst hkv
    simp only [values, List.map_cons, canonGo]
    rw [find?_none_of_sorted_append hk.1]
    simp only
    rw [insert_of_sorted_append hk.1]
    have : acc ++ [(key v, v)] ++ rest = acc ++ (key v, v) :: rest := by simp
    rw [← this] at hk ⊢
    exact canonGo_values rest _ hk

theorem keyOk_nil : KeyOk key ([] : SMap κ ρ) := ⟨True.intro, fun p hp => by cases hp⟩

/-- **Idempotence**: canonicalising a canonical list returns it. -/
theorem canonBy_idem (ps out : List ρ) (h : canonBy key err ps = .ok out) : canonBy key err out = .ok out := by
  unfold canonBy at h
  cases hg : canonGo key err [] ps with
  | error d => rw [hg] at h; cases h
  | ok m =>
    rw [hg] at h
    cases h
    have hk := (canonGo_ok key err ps [] m (keyOk_nil key) hg).1
    unfold canonBy
    have := canonGo_values key err m [] (by simpa using hk)
    simp only [List.nil_append] at this
    rw [this]

/-- The canonical list contains exactly the input items. -/
theorem canonBy_mem (ps out : List ρ) (h : canonBy key err ps = .ok out) : ∀ r, r ∈ out ↔ r ∈ ps := by
  unfold canonBy at h
  cases hg : canonGo key err [] ps with
  | error d => rw [hg] at h; cases h
  | ok m =>
    rw [hg] at h
    cases h
    obtain ⟨hk, hm⟩ := canonGo_ok key err ps [] m (keyOk_nil key) hg
    have hc := canonGo_complete key err ps [] m hg
    intro r
    constructor
    · intro hr
      obtain ⟨p, hp, e⟩ := List.mem_map.mp hr
      rcases hm p hp with h0 | h1
      · cases h0
      · rw [← e]; exact h1
    · intro hr
      exact List.mem_map.mpr ⟨(key r, r), find?_mem (hc r hr), rfl⟩

/-- In a canonical list the key identifies the item. -/
theorem canonBy_key_unique (ps out : List ρ) (h : canonBy key err ps = .ok out) :
    ∀ a ∈ out, ∀ b ∈ out, key a = key b → a = b := by
  unfold canonBy at h
  cases hg : canonGo key err [] ps with
  | error d => rw [hg] at h; cases h
  | ok m =>
    rw [hg] at h
    cases h
    obtain ⟨hk, _⟩ := canonGo_ok key err ps [] m (keyOk_nil key) hg
    intro a ha b hb e
    obtain ⟨p, hp, ea⟩ := List.mem_map.mp ha
    obtain ⟨q, hq, eb⟩ := List.mem_map.mp hb
    have h1 := mem_find? hk.1 (show (p.1, p.2) ∈ m from hp)
    have h2 := mem_find? hk.1 (show (q.1, q.2) ∈ m from hq)
    rw [hk.2 p hp, ea] at h1
    rw [hk.2 q hq, eb, ← e, h1] at h2
    cases h2; rfl

end Canon

/-! ## the payload rule -/

variable (H : Bytes → Nat)

theorem firstHashMismatch_none_iff (ps : List Payload) :
    firstHashMismatch H ps = none ↔ ∀ p ∈ ps, H p.bytes = p.material.digest := by
  induction ps with
  | nil => simp [firstHashMismatch]
  | cons p ps ih =>
    simp only [firstHashMismatch, List.mem_cons, forall_eq_or_imp]
    by_cases h : H p.bytes = p.material.digest
    · simp only [h, if_true, true_and]; exact ih
    · simp only [h, if_false, false_and]; simp

theorem firstHashMismatch_some (ps : List Payload) (e : Nat) (b : Bytes)
    (h : firstHashMismatch H ps = some (e, b)) :
    ∃ p ∈ ps, p.material.digest = e ∧ p.bytes = b ∧ H b ≠ e := by
  induction ps with
  | nil => simp [firstHashMismatch] at h
  | cons p ps ih =>
    simp only [firstHashMismatch] at h
    by_cases hp : H p.bytes = p.material.digest
    · simp only [hp, if_true] at h
      obtain ⟨q, hq, r⟩ := ih h
      exact ⟨q, List.mem_cons_of_mem _ hq, r⟩
    · simp only [hp, if_false] at h
      cases h
      exact ⟨p, List.mem_cons_self, rfl, rfl, hp⟩

/-- **The rule, as a characterisation**: the validator accepts exactly when EVERY embedded payload
    hashes to its digest (no posture involved), every Present record is covered, and no payload is
    filed under an unrecorded digest. -/
theorem validatePayloads_none_iff (ms : List Material) (ps : List Payload) :
    validatePayloads H ms ps = none ↔
      (∀ p ∈ ps, H p.bytes = p.material.digest) ∧
      (∀ m ∈ ms, isPresent m = true → ∃ p ∈ ps, p.material.digest = m.digest) ∧
      (∀ p ∈ ps, ∃ m ∈ ms, m.digest = p.material.digest) := by
  unfold validatePayloads
  cases hh : firstHashMismatch H ps with
  | some x =>
    obtain ⟨e, b⟩ := x
    obtain ⟨p, hp, he, hb, hne⟩ := firstHashMismatch_some H ps e b hh
    simp only [reduceCtorEq, false_iff, not_and]
    intro hall
    exact absurd (by rw [← hb, ← he]; exact hall p hp) hne
  | none =>
    have hall := (firstHashMismatch_none_iff H ps).mp hh
    simp only
    cases hm : List.find? (fun m => !(ps.any (fun p => decide (p.material.digest = m.digest)))) (ms.filter isPresent) with
    | some m =>
      simp only [reduceCtorEq, false_iff, not_and]
      intro _ hcov
      have hmem := List.mem_of_find?_eq_some hm
      have hprop := List.find?_some hm
      obtain ⟨hm1, hm2⟩ := List.mem_filter.mp hmem
      obtain ⟨p, hp, e⟩ := hcov m hm1 hm2
      simp only [Bool.not_eq_true', List.any_eq_false, decide_eq_true_eq] at hprop
      exact absurd e (hprop p hp)
    | none =>
      have hcov : ∀ m ∈ ms, isPresent m = true → ∃ p ∈ ps, p.material.digest = m.digest := by
        intro m hm1 hm2
        have := List.find?_eq_none.mp hm m (List.mem_filter.mpr ⟨hm1, hm2⟩)
        simp only [Bool.not_eq_true, Bool.not_eq_false', List.any_eq_true, decide_eq_true_eq] at this
        exact this
      simp only
      cases hx : List.find? (fun p => !(ms.any (fun m => decide (m.digest = p.material.digest)))) ps with
      | some p =>
        simp only [reduceCtorEq, false_iff, not_and]
        intro _ _ hex
        have hmem := List.mem_of_find?_eq_some hx
        have hprop := List.find?_some hx
        obtain ⟨m, hm1, e⟩ := hex p hmem
        simp only [Bool.not_eq_true', List.any_eq_false, decide_eq_true_eq] at hprop
        exact absurd e (hprop m hm1)
      | none =>
        simp only [true_iff]
        refine ⟨hall, hcov, ?_⟩
        intro p hp
        have := List.find?_eq_none.mp hx p hp
        simp only [Bool.not_eq_true, Bool.not_eq_false', List.any_eq_true, decide_eq_true_eq] at this
        exact this

/-- The verdict depends on the record list only through its members. -/
theorem validatePayloads_none_congr (ms ms' : List Material) (ps : List Payload)
    (hm : ∀ r, r ∈ ms' ↔ r ∈ ms) (h : validatePayloads H ms ps = none) : validatePayloads H ms' ps = none := by
  rw [validatePayloads_none_iff] at h ⊢
  obtain ⟨h1, h2, h3⟩ := h
  refine ⟨h1, fun m hm1 hp => h2 m ((hm m).mp hm1) hp, fun p hp => ?_⟩
  obtain ⟨m, hm1, e⟩ := h3 p hp
  exact ⟨m, (hm m).mpr hm1, e⟩

/-! ## CAS references as sets -/

theorem mem_dedup (xs : List RefKey) (k : RefKey) : k ∈ dedup xs ↔ k ∈ xs := by
  induction xs with
  | nil => simp [dedup]
  | cons x xs ih =>
    simp only [dedup]
    split
    · rename_i hc
      have hx : x ∈ dedup xs := by simpa using hc
      simp only [List.mem_cons]
      constructor
      · intro h; exact Or.inr (ih.mp h)
      · rintro (e | h)
        · rw [e]; exact hx
        · exact ih.mpr h
    · simp only [List.mem_cons, ih]

theorem refsMismatch_none_iff (ms : List Material) (refs : List CasRef) :
    refsMismatch ms refs = none ↔
      (∀ m ∈ ms, isPresent m = true → ∃ r ∈ refs, (r.kind, r.contentHash, r.coord) = (m.kind, m.digest, m.coord)) ∧
      (∀ r ∈ refs, ∃ m ∈ ms, isPresent m = true ∧ (m.kind, m.digest, m.coord) = (r.kind, r.contentHash, r.coord)) := by
  unfold refsMismatch
  simp only
  have hex : ∀ k, k ∈ expectedRefKeys ms ↔ ∃ m ∈ ms, isPresent m = true ∧ (m.kind, m.digest, m.coord) = k := by
    intro k
    simp only [expectedRefKeys, mem_dedup, List.mem_map, List.mem_filter]
    constructor
    · rintro ⟨m, ⟨h1, h2⟩, e⟩; exact ⟨m, h1, h2, e⟩
    · rintro ⟨m, h1, h2, e⟩; exact ⟨m, ⟨h1, h2⟩, e⟩
  have hac : ∀ k, k ∈ actualRefKeys refs ↔ ∃ r ∈ refs, (r.kind, r.contentHash, r.coord) = k := by
    intro k
    simp only [actualRefKeys, mem_dedup, List.mem_map]
  constructor
  · intro h
    split at h
    · rename_i hz
      obtain ⟨h1, h2⟩ := hz
      have f1 := List.eq_nil_of_length_eq_zero h1
      have f2 := List.eq_nil_of_length_eq_zero h2
      refine ⟨fun m hm hp => ?_, fun r hr => ?_⟩
      · have hk : (m.kind, m.digest, m.coord) ∈ expectedRefKeys ms := (hex _).mpr ⟨m, hm, hp, rfl⟩
        have := List.filter_eq_nil_iff.mp f1 _ hk
        simp only [Bool.not_eq_true, Bool.not_eq_false', List.contains_iff_mem] at this
        exact (hac _).mp this
      · have hk : (r.kind, r.contentHash, r.coord) ∈ actualRefKeys refs := (hac _).mpr ⟨r, hr, rfl⟩
        have := List.filter_eq_nil_iff.mp f2 _ hk
        simp only [Bool.not_eq_true, Bool.not_eq_false', List.contains_iff_mem] at this
        exact (hex _).mp this
    · cases h
  · rintro ⟨h1, h2⟩
    have f1 : (expectedRefKeys ms).filter (fun k => !(actualRefKeys refs).contains k) = [] := by
      apply List.filter_eq_nil_iff.mpr
      intro k hk
      obtain ⟨m, hm, hp, e⟩ := (hex k).mp hk
      simp only [Bool.not_eq_true, Bool.not_eq_false', List.contains_iff_mem]
      rw [← e]
      exact (hac _).mpr (h1 m hm hp)
    have f2 : (actualRefKeys refs).filter (fun k => !(expectedRefKeys ms).contains k) = [] := by
      apply List.filter_eq_nil_iff.mpr
      intro k hk
      obtain ⟨r, hr, e⟩ := (hac k).mp hk
      simp only [Bool.not_eq_true, Bool.not_eq_false', List.contains_iff_mem]
      rw [← e]
      exact (hex _).mpr (h2 r hr)
    rw [f1, f2]
    simp

theorem refsMismatch_none_congr (ms ms' : List Material) (refs : List CasRef)
    (hm : ∀ r, r ∈ ms' ↔ r ∈ ms) (h : refsMismatch ms refs = none) : refsMismatch ms' refs = none := by
  rw [refsMismatch_none_iff] at h ⊢
  obtain ⟨h1, h2⟩ := h
  refine ⟨fun m hm1 hp => h1 m ((hm m).mp hm1) hp, fun r hr => ?_⟩
  obtain ⟨m, hm1, hp, e⟩ := h2 r hr
  exact ⟨m, (hm m).mpr hm1, hp, e⟩

theorem firstBlobFault_none_iff (cas : Nat → Option Bytes) (refs : List CasRef) :
    firstBlobFault H cas refs = none ↔
      ∀ r ∈ refs, ∃ b, cas r.contentHash = some b ∧ H b = r.contentHash ∧ b.length = r.byteLen := by
  induction refs with
  | nil => simp [firstBlobFault]
  | cons r rs ih =>
    simp only [firstBlobFault, List.mem_cons, forall_eq_or_imp]
    cases hc : cas r.contentHash with
    | none => simp
    | some b =>
      simp only [Option.some.injEq, exists_eq_left']
      by_cases h1 : H b = r.contentHash
      · by_cases h2 : b.length = r.byteLen
        · simp only [h1, h2, ne_eq, not_true_eq_false, if_false, true_and]; exact ih
        · simp [h1, h2]
      · simp [h1]

theorem firstBlobFault_some (cas : Nat → Option Bytes) : ∀ (refs : List CasRef) (err : ImpErr),
    firstBlobFault H cas refs = some err →
    ∃ r ∈ refs,
      (cas r.contentHash = none ∧ err = .missingBlob r.contentHash r.coord) ∨
      (∃ b, cas r.contentHash = some b ∧ H b ≠ r.contentHash ∧ err = .blobHashMismatch r.contentHash b) ∨
      (∃ b, cas r.contentHash = some b ∧ H b = r.contentHash ∧ b.length ≠ r.byteLen ∧
        err = .blobLenMismatch r.byteLen b.length)
  | [], err, hf => by simp [firstBlobFault] at hf
  | r :: rs, err, hf => by
    simp only [firstBlobFault] at hf
    cases hc : cas r.contentHash with
    | none =>
      rw [hc] at hf
      cases hf
      exact ⟨r, List.mem_cons_self, Or.inl ⟨hc, rfl⟩⟩
    | some b =>
      rw [hc] at hf
      simp only at hf
      by_cases h1 : H b = r.contentHash
      · by_cases h2 : b.length = r.byteLen
        · simp only [h1, h2, ne_eq, not_true_eq_false, if_false] at hf
          obtain ⟨q, hq, hcase⟩ := firstBlobFault_some cas rs err hf
          exact ⟨q, List.mem_cons_of_mem _ hq, hcase⟩
        · simp only [h1, h2, ne_eq, not_true_eq_false, not_false_eq_true, if_false, if_true] at hf
          cases hf
          exact ⟨r, List.mem_cons_self, Or.inr (Or.inr ⟨b, hc, h1, h2, rfl⟩)⟩
      · simp only [h1, ne_eq, not_false_eq_true, if_true] at hf
        cases hf
        exact ⟨r, List.mem_cons_self, Or.inr (Or.inl ⟨b, hc, h1, rfl⟩)⟩

end EchoVerif.WscExp
