/-
  Lemmas about WAL recovery over a well-formed list of transactions
  (`recover_from_frames_and_commits` on "all frames of the first k transactions + some frames of the
  next one").
-/
import EchoVerif.Lemmas.Wal
set_option linter.unusedSimpArgs false
set_option linter.unusedVariables false

namespace EchoVerif.Wal

/-- frames with valid integrity and consecutive LSNs `b, b+1, …` (all ≤ u64::MAX) -/
def Chain (cfg : Cfg) (H : HashFn) : Nat → List Frame → Prop
  | _, [] => True
  | b, f :: fs => validateIntegrity cfg H f = .ok () ∧ f.header.lsn = b ∧ b ≤ u64Max ∧ Chain cfg H (b + 1) fs

theorem Chain.append {cfg : Cfg} {H : HashFn} {b : Nat} {xs ys : List Frame} :
    Chain cfg H b (xs ++ ys) ↔ Chain cfg H b xs ∧ Chain cfg H (b + xs.length) ys := by
  induction xs generalizing b with
  | nil => simp [Chain]
  | cons x xs ih =>
    simp only [List.cons_append, Chain, List.length_cons, ih]
    have : b + 1 + xs.length = b + (xs.length + 1) := by omega
    rw [this]
    constructor
    · rintro ⟨a, b', c, d, e⟩; exact ⟨⟨a, b', c, d⟩, e⟩
    · rintro ⟨⟨a, b', c, d⟩, e⟩; exact ⟨a, b', c, d, e⟩

theorem Chain.take {cfg : Cfg} {H : HashFn} {b : Nat} {xs : List Frame} (h : Chain cfg H b xs) (i : Nat) :
    Chain cfg H b (xs.take i) := by
  have : xs = xs.take i ++ xs.drop i := (List.take_append_drop i xs).symm
  rw [this] at h
  exact (Chain.append.mp h).1

theorem Chain.lsn_range {cfg : Cfg} {H : HashFn} {b : Nat} {xs : List Frame} (h : Chain cfg H b xs) :
    ∀ f ∈ xs, b ≤ f.header.lsn ∧ f.header.lsn < b + xs.length := by
  induction xs generalizing b with
  | nil => simp
  | cons x xs ih =>
    obtain ⟨_, hl, _, hrest⟩ := h
    intro f hf
    simp only [List.mem_cons] at hf
    rcases hf with rfl | hf
    · simp [hl]
    · have := ih hrest f hf
      simp only [List.length_cons]; omega

theorem sortBy_chain {cfg : Cfg} {H : HashFn} {b : Nat} {xs : List Frame} (h : Chain cfg H b xs) :
    sortBy (fun f => f.header.lsn) xs = xs := by
  induction xs generalizing b with
  | nil => rfl
  | cons x xs ih =>
    obtain ⟨_, hl, _, hrest⟩ := h
    rw [sortBy, ih hrest]
    cases xs with
    | nil => rfl
    | cons y ys =>
      obtain ⟨_, hy, _, _⟩ := hrest
      simp [insSorted, hl, hy]

theorem frameOrderLoop_chain {cfg : Cfg} {H : HashFn} {b : Nat} {xs : List Frame}
    (h : Chain cfg H b xs) (prev : Option Nat) (hp : prev = none ∨ (prev = some (b - 1) ∧ 0 < b)) :
    frameOrderLoop cfg H prev xs = .ok () := by
  induction xs generalizing b prev with
  | nil => rfl
  | cons x xs ih =>
    obtain ⟨hv, hl, hb, hrest⟩ := h
    have hnext : frameOrderLoop cfg H (some x.header.lsn) xs = .ok () := by
      apply ih hrest
      right; rw [hl]; exact ⟨by simp, by omega⟩
    rcases hp with rfl | ⟨rfl, hpos⟩
    · simp only [frameOrderLoop, hv]
      exact hnext
    · simp only [frameOrderLoop, hv]
      rw [if_neg (by omega), if_neg (by rw [hl]; omega)]
      exact hnext

theorem validateFrameOrder_chain {cfg : Cfg} {H : HashFn} {b : Nat} {xs : List Frame}
    (h : Chain cfg H b xs) : validateFrameOrder cfg H xs = .ok () := by
  rw [validateFrameOrder, sortBy_chain h]
  exact frameOrderLoop_chain h none (Or.inl rfl)


/-! ### what `validate_transaction_frames` establishes -/

def FramesAt (cfg : Cfg) (H : HashFn) (c : Commit) : Nat → List Frame → Prop
  | _, [] => True
  | i, f :: fs => validateIntegrity cfg H f = .ok () ∧ f.header.txId = c.txId
      ∧ f.header.lsn = c.firstLsn + i ∧ c.firstLsn + i ≤ u64Max ∧ FramesAt cfg H c (i + 1) fs

theorem checkTxFrames_inv {cfg : Cfg} {H : HashFn} {c : Commit} {i : Nat} {fs : List Frame}
    (h : checkTxFrames cfg H c i fs = .ok ()) : FramesAt cfg H c i fs := by
  induction fs generalizing i with
  | nil => trivial
  | cons f fs ih =>
    simp only [checkTxFrames] at h
    split at h
    · cases h
    · rename_i hv
      split at h
      · cases h
      · split at h
        · cases h
        · split at h
          · cases h
          · split at h
            · cases h
            · split at h
              · cases h
              · rename_i h1 _ _ h4 h5
                refine ⟨?_, ?_, ?_, ?_, ih h⟩
                · cases hval : validateIntegrity cfg H f with
                  | error e => rw [hval] at hv; cases hv
                  | ok u => rfl
                · simpa using h1
                · simpa using h5
                · omega

theorem FramesAt.chain {cfg : Cfg} {H : HashFn} {c : Commit} {i : Nat} {fs : List Frame}
    (h : FramesAt cfg H c i fs) : Chain cfg H (c.firstLsn + i) fs := by
  induction fs generalizing i with
  | nil => trivial
  | cons f fs ih =>
    obtain ⟨a, _, l, bnd, rest⟩ := h
    exact ⟨a, l, bnd, by have := ih rest; rwa [Nat.add_assoc]⟩

theorem FramesAt.txId {cfg : Cfg} {H : HashFn} {c : Commit} {i : Nat} {fs : List Frame}
    (h : FramesAt cfg H c i fs) : ∀ f ∈ fs, f.header.txId = c.txId := by
  induction fs generalizing i with
  | nil => simp
  | cons f fs ih =>
    obtain ⟨_, t, _, _, rest⟩ := h
    intro g hg
    simp only [List.mem_cons] at hg
    rcases hg with rfl | hg
    · exact t
    · exact ih rest g hg

theorem FramesAt.last {cfg : Cfg} {H : HashFn} {c : Commit} {i : Nat} {fs : List Frame}
    (h : FramesAt cfg H c i fs) {l : Frame} (hl : fs.getLast? = some l) :
    l.header.lsn = c.firstLsn + i + fs.length - 1 := by
  induction fs generalizing i with
  | nil => simp at hl
  | cons f fs ih =>
    obtain ⟨_, _, lf, _, rest⟩ := h
    cases fs with
    | nil =>
      simp at hl; subst hl; simp [lf]
    | cons g gs =>
      rw [List.getLast?_cons_cons] at hl
      have := ih rest hl
      simp only [List.length_cons] at this ⊢
      omega

/-- everything recovery relies on, extracted from a successful `validate_transaction_frames` -/
theorem validateTx_inv {cfg : Cfg} {H : HashFn} {fs : List Frame} {c : Commit}
    (h : validateTx cfg H fs c = .ok ()) :
    fs ≠ [] ∧ FramesAt cfg H c 0 fs ∧ c.lastLsn = c.firstLsn + fs.length - 1 := by
  unfold validateTx at h
  split at h
  · rename_i first last hfirst hlast
    split at h
    · cases h
    · split at h
      · cases h
      · split at h
        · cases h
        · split at h
          · cases h
          · rename_i hl _ _ _ hchk
            have hfa := checkTxFrames_inv hchk
            refine ⟨?_, hfa, ?_⟩
            · intro hnil; subst hnil; simp at hfirst
            · have := hfa.last hlast
              have hl' : last.header.lsn = c.lastLsn := by simpa using hl
              omega
  · cases h

/-- the log: transaction `t₀` starts at LSN `b`, each next one right after the previous, and every
    transaction passes `validate_transaction_frames` against its own frames -/
def LogAt (cfg : Cfg) (H : HashFn) : Nat → List Tx → Prop
  | _, [] => True
  | b, t :: ts => validateTx cfg H t.frames t.commit = .ok () ∧ t.commit.firstLsn = b
      ∧ LogAt cfg H (b + t.frames.length) ts

def framesOfTxs (ts : List Tx) : List Frame := ts.flatMap (fun t => t.frames)

theorem LogAt.chain {cfg : Cfg} {H : HashFn} {b : Nat} {ts : List Tx} (h : LogAt cfg H b ts) :
    Chain cfg H b (framesOfTxs ts) := by
  induction ts generalizing b with
  | nil => trivial
  | cons t ts ih =>
    obtain ⟨hv, hb, rest⟩ := h
    obtain ⟨_, hfa, _⟩ := validateTx_inv hv
    simp only [framesOfTxs, List.flatMap_cons]
    rw [Chain.append]
    refine ⟨?_, ih rest⟩
    have := hfa.chain
    rwa [Nat.add_zero, hb] at this

theorem LogAt.take {cfg : Cfg} {H : HashFn} {b : Nat} {ts : List Tx} (h : LogAt cfg H b ts) (k : Nat) :
    LogAt cfg H b (ts.take k) := by
  induction ts generalizing b k with
  | nil => simp [LogAt]
  | cons t ts ih =>
    cases k with
    | zero => simp [LogAt]
    | succ k =>
      obtain ⟨hv, hb, rest⟩ := h
      exact ⟨hv, hb, ih rest k⟩

/-- the frames selected for a commit marker are exactly the transaction's own frames, whatever
    (LSN-consecutive) frames surround them -/
theorem selectFrames_exact {cfg : Cfg} {H : HashFn} {base : Nat} {pre post : List Frame} {t : Tx}
    (hchain : Chain cfg H base (pre ++ t.frames ++ post))
    (hv : validateTx cfg H t.frames t.commit = .ok ()) (hfirst : t.commit.firstLsn = base + pre.length) :
    selectFrames (pre ++ t.frames ++ post) t.commit = t.frames := by
  obtain ⟨hne, hfa, hlast⟩ := validateTx_inv hv
  rw [Chain.append, Chain.append] at hchain
  obtain ⟨⟨hpre, hmid⟩, hpost⟩ := hchain
  have hlen : 0 < t.frames.length := List.length_pos_iff.mpr hne
  unfold selectFrames
  rw [List.filter_append, List.filter_append]
  have h1 : pre.filter (fun f => decide (f.header.txId = t.commit.txId ∧ t.commit.firstLsn ≤ f.header.lsn
      ∧ f.header.lsn ≤ t.commit.lastLsn)) = [] := by
    rw [List.filter_eq_nil_iff]
    intro f hf
    have := hpre.lsn_range f hf
    simp; intro _ _; omega
  have h3 : post.filter (fun f => decide (f.header.txId = t.commit.txId ∧ t.commit.firstLsn ≤ f.header.lsn
      ∧ f.header.lsn ≤ t.commit.lastLsn)) = [] := by
    rw [List.filter_eq_nil_iff]
    intro f hf
    have := hpost.lsn_range f hf
    simp only [List.length_append] at this
    simp; intro _ _; omega
  have h2 : t.frames.filter (fun f => decide (f.header.txId = t.commit.txId ∧ t.commit.firstLsn ≤ f.header.lsn
      ∧ f.header.lsn ≤ t.commit.lastLsn)) = t.frames := by
    rw [List.filter_eq_self]
    intro f hf
    have := hmid.lsn_range f hf
    have ht := hfa.txId f hf
    simp [ht]; omega
  rw [h1, h2, h3]; simp


/-! ### the commit-marker loop and the tail posture on a prefix of the log -/

def recoveredOf (ts : List Tx) : List RecoveredTx := ts.map (fun t => ⟨t.commit, t.frames⟩)

def lastLsnOf (ts : List Tx) : Option Nat := ts.getLast?.map (fun t => t.commit.lastLsn)

theorem recoverLoop_log {cfg : Cfg} {H : HashFn} {base : Nat} (ts : List Tx) (pre post G : List Frame)
    (hG : G = pre ++ framesOfTxs ts ++ post) (hchain : Chain cfg H base G)
    (hlog : LogAt cfg H (base + pre.length) ts) :
    recoverLoop cfg H G (ts.map (fun t => t.commit)) = .ok (recoveredOf ts, lastLsnOf ts) := by
  induction ts generalizing pre with
  | nil => simp [recoverLoop, recoveredOf, lastLsnOf]
  | cons t ts ih =>
    obtain ⟨hv, hfirst, hrest⟩ := hlog
    have hG' : G = pre ++ t.frames ++ (framesOfTxs ts ++ post) := by
      rw [hG]; simp [framesOfTxs, List.append_assoc]
    have hsel : selectFrames G t.commit = t.frames := by
      rw [hG']; rw [hG'] at hchain
      exact selectFrames_exact hchain hv hfirst
    have hih := ih (pre ++ t.frames) (by rw [hG]; simp [framesOfTxs, List.append_assoc])
      (by simpa [Nat.add_assoc] using hrest)
    simp only [List.map_cons, recoverLoop, hsel, hv, hih]
    cases ts with
    | nil => simp [recoveredOf, lastLsnOf]
    | cons u us =>
      simp only [recoveredOf, lastLsnOf, List.getLast?_cons_cons, List.map_cons]
      have : ∃ l, (u :: us).getLast? = some l := by
        cases hx : (u :: us).getLast? with
        | none => simp at hx
        | some l => exact ⟨l, rfl⟩
      obtain ⟨l, hl⟩ := this
      simp [hl]

theorem LogAt.lastLsn {cfg : Cfg} {H : HashFn} {b : Nat} {ts : List Tx} (h : LogAt cfg H b ts)
    (hne : ts ≠ []) :
    lastLsnOf ts = some (b + (framesOfTxs ts).length - 1) ∧ 0 < (framesOfTxs ts).length := by
  induction ts generalizing b with
  | nil => exact absurd rfl hne
  | cons t ts ih =>
    obtain ⟨hv, hfirst, hrest⟩ := h
    obtain ⟨hnz, _, hlast⟩ := validateTx_inv hv
    have hpos : 0 < t.frames.length := List.length_pos_iff.mpr hnz
    cases ts with
    | nil =>
      simp [lastLsnOf, framesOfTxs, hlast, hfirst, hpos]
    | cons u us =>
      have := ih hrest (by simp)
      simp only [lastLsnOf, List.getLast?_cons_cons] at this ⊢
      simp only [framesOfTxs, List.flatMap_cons, List.length_append] at this ⊢
      refine ⟨?_, by omega⟩
      rw [this.1]; congr 1; omega

theorem lastCommittedLsn_log {cfg : Cfg} {H : HashFn} {b : Nat} {ts : List Tx} (h : LogAt cfg H b ts) :
    lastCommittedLsn (recoveredOf ts) = lastLsnOf ts := by
  induction ts generalizing b with
  | nil => rfl
  | cons t ts ih =>
    obtain ⟨hv, hfirst, hrest⟩ := h
    obtain ⟨hnz, _, hlast⟩ := validateTx_inv hv
    have hpos : 0 < t.frames.length := List.length_pos_iff.mpr hnz
    have hih := ih hrest
    simp only [recoveredOf, List.map_cons, lastCommittedLsn] at hih ⊢
    rw [hih]
    cases ts with
    | nil => simp [lastLsnOf]
    | cons u us =>
      have := (LogAt.lastLsn hrest (by simp)).1
      rw [this]
      simp only [lastLsnOf, List.getLast?_cons_cons] at this ⊢
      rw [this]
      simp only [Option.some.injEq]
      have := (LogAt.lastLsn hrest (by simp)).2
      omega

/-- `recover_from_frames_and_commits` on: all frames of the transactions `ts`, followed by `extra`
    frames (LSN-consecutive) that no commit marker covers, and the commit markers of `ts` -/
theorem recoverFC_prefix {cfg : Cfg} {H : HashFn} {base : Nat} (mode : Mode) (ts : List Tx)
    (extra : List Frame) (hlog : LogAt cfg H base ts)
    (hchain : Chain cfg H base (framesOfTxs ts ++ extra)) :
    recoverFC cfg H (framesOfTxs ts ++ extra) (ts.map (fun t => t.commit)) mode
      = .ok { txs := recoveredOf ts,
              tail := if extra = [] then .clean else tailOf mode (lastLsnOf ts) } := by
  have hloop := recoverLoop_log (cfg := cfg) (H := H) (base := base) ts [] extra
    (framesOfTxs ts ++ extra) (by simp) hchain (by simpa using hlog)
  simp only [recoverFC, validateFrameOrder_chain hchain, hloop]
  congr 2
  rw [Chain.append] at hchain
  obtain ⟨hc1, hc2⟩ := hchain
  by_cases hts : ts = []
  · subst hts
    simp only [framesOfTxs, List.flatMap_nil, List.nil_append, lastLsnOf, List.getLast?_nil, Option.map_none]
    cases extra with
    | nil => simp
    | cons e es => simp
  · obtain ⟨hl, hpos⟩ := LogAt.lastLsn hlog hts
    rw [hl]
    simp only [List.any_append]
    have h1 : (framesOfTxs ts).any (fun f => decide (f.header.lsn > base + (framesOfTxs ts).length - 1)) = false := by
      rw [List.any_eq_false]
      intro f hf
      have := hc1.lsn_range f hf
      simp; omega
    rw [h1]
    cases extra with
    | nil => simp
    | cons e es =>
      have := hc2.lsn_range e (by simp)
      have he : decide (e.header.lsn > base + (framesOfTxs ts).length - 1) = true := by
        simp; omega
      simp [he]

end EchoVerif.Wal
