/-
  Lemmas about `Model/Chain.lean`: composition of the replay loop, what a successful run
  establishes, independence of the fields `fork` rewrites.
-/
import EchoVerif.Model.Chain

set_option linter.unusedSimpArgs false
set_option linter.unusedVariables false
set_option linter.unusedSectionVars false

namespace EchoVerif.Chain

variable {S P D O M : Type} [DecidableEq D] [DecidableEq M] [DecidableEq O]
variable (sem : Sem S P D O M)

/-! ### the loop composes -/

theorem runFrom_zero (u0 : Nat) (es : List (Entry P D O)) (k : Nat) (c : Core S D M) :
    runFrom sem u0 es k 0 c = (c, none) := rfl

theorem runFrom_add (u0 : Nat) (es : List (Entry P D O)) :
    ∀ (a b k : Nat) (c : Core S D M),
      runFrom sem u0 es k (a + b) c =
        match runFrom sem u0 es k a c with
        | (c', some e) => (c', some e)
        | (c', none) => runFrom sem u0 es (k + a) b c'
  | 0, b, k, c => by simp [runFrom]
  | a + 1, b, k, c => by
    have e1 : a + 1 + b = (a + b) + 1 := by omega
    rw [e1]
    simp only [runFrom]
    cases hk : es[k]? with
    | none => rfl
    | some e =>
      simp only []
      cases hs : step sem u0 k e c with
      | mk c1 r =>
        cases r with
        | some err => rfl
        | none =>
          simp only []
          rw [runFrom_add u0 es a b (k + 1) c1]
          have e2 : k + 1 + a = k + (a + 1) := by omega
          rw [e2]

/-- A run that succeeds stayed inside the history. -/
theorem runFrom_ok_len (u0 : Nat) (es : List (Entry P D O)) :
    ∀ (n k : Nat) (c c' : Core S D M), runFrom sem u0 es k n c = (c', none) →
      n = 0 ∨ k + n ≤ es.length
  | 0, k, c, c', h => Or.inl rfl
  | n + 1, k, c, c', h => by
    simp only [runFrom] at h
    cases hk : es[k]? with
    | none => rw [hk] at h; cases h
    | some e =>
      have hklt : k < es.length := by
        by_cases hh : k < es.length
        · exact hh
        · rw [List.getElem?_eq_none (by omega)] at hk; cases hk
      rw [hk] at h
      simp only [] at h
      cases hs : step sem u0 k e c with
      | mk c1 r =>
        rw [hs] at h
        cases r with
        | some err => cases h
        | none =>
          simp only [] at h
          rcases runFrom_ok_len u0 es n (k + 1) c1 c' h with h0 | h1
          · right; omega
          · right; omega

/-- Everything a successful loop body established. -/
theorem step_ok_inv {u0 k : Nat} {e : Entry P D O} {c c' : Core S D M}
    (h : step sem u0 k e c = (c', none)) :
    ∃ p g' a, e.patch = some p ∧ sem.pwarp p = u0 ∧ sem.apply c.g p = (g', none) ∧
      sem.root g' = e.expRoot ∧
      sem.commit (e.parents.map (·.commit)) (sem.root g') e.expDigest (sem.policy p) = e.expCommit ∧
      artOf sem k e p = .ok a ∧ c' = { g := g', hist := c.hist ++ [a] } := by
  unfold step at h
  cases hp : e.patch with
  | none => rw [hp] at h; cases h
  | some p =>
    rw [hp] at h
    simp only [] at h
    by_cases hw : sem.pwarp p ≠ u0
    · rw [if_pos hw] at h; cases h
    · rw [if_neg hw] at h
      cases ha : sem.apply c.g p with
      | mk g' r =>
        rw [ha] at h
        cases r with
        | some code => cases h
        | none =>
          simp only [] at h
          by_cases hr : sem.root g' ≠ e.expRoot
          · rw [if_pos hr] at h; cases h
          · rw [if_neg hr] at h
            by_cases hc : sem.commit (e.parents.map (·.commit)) (sem.root g') e.expDigest (sem.policy p) ≠ e.expCommit
            · rw [if_pos hc] at h; cases h
            · rw [if_neg hc] at h
              cases hart : artOf sem k e p with
              | error err => rw [hart] at h; cases h
              | ok a =>
                rw [hart] at h
                simp only [] at h
                exact ⟨p, g', a, rfl, Decidable.of_not_not hw, ha, Decidable.of_not_not hr,
                  Decidable.of_not_not hc, hart, (Prod.mk.inj h).1.symm⟩


/-- Everything `replay_artifacts_for_entry` established when it succeeded. -/
theorem artOf_ok_inv {k : Nat} {e : Entry P D O} {p : P} {a : Art D M}
    (h : artOf sem k e p = .ok a) :
    e.expDigest = sem.stored p ∧ sem.computed p = sem.stored p ∧
    (∀ tx dg, e.receipt = some (tx, dg) → tx = k + 1 ∧ dg = sem.decision p) ∧
    a = { hash := e.expCommit, root := e.expRoot, parents := e.parents.map (·.commit),
          pdigest := e.expDigest, policy := sem.policy p, tx := k + 1,
          rcpt := (match e.receipt with | some r => r | none => (k + 1, sem.emptyRcpt)),
          pm := sem.pmeta p } := by
  unfold artOf at h
  by_cases h1 : e.expDigest ≠ sem.stored p
  · rw [if_pos h1] at h; cases h
  rw [if_neg h1] at h
  by_cases h2 : sem.computed p ≠ sem.stored p
  · rw [if_pos h2] at h; cases h
  rw [if_neg h2] at h
  simp only [] at h
  cases hr : e.receipt with
  | none =>
    rw [hr] at h
    simp only [] at h
    injection h with h
    exact ⟨Decidable.of_not_not h1, Decidable.of_not_not h2, (fun _ _ hh => by cases hh), h.symm⟩
  | some r =>
    obtain ⟨tx0, dg0⟩ := r
    rw [hr] at h
    simp only [] at h
    by_cases h3 : tx0 ≠ k + 1
    · rw [if_pos h3] at h; cases h
    rw [if_neg h3] at h
    by_cases h4 : dg0 ≠ sem.decision p
    · rw [if_pos h4] at h; cases h
    rw [if_neg h4] at h
    injection h with h
    refine ⟨Decidable.of_not_not h1, Decidable.of_not_not h2, ?_, h.symm⟩
    intro tx dg hh
    injection hh with hh
    injection hh with e1 e2
    exact ⟨by rw [← e1]; exact Decidable.of_not_not h3, by rw [← e2]; exact Decidable.of_not_not h4⟩

/-- After a non-empty successful run the graph hashes to the last entry's recorded state root. -/
theorem runFrom_ok_root (u0 : Nat) (es : List (Entry P D O)) (n k : Nat) (c c' : Core S D M)
    (h : runFrom sem u0 es k (n + 1) c = (c', none)) :
    ∃ e, es[k + n]? = some e ∧ sem.root c'.g = e.expRoot := by
  rw [runFrom_add sem u0 es n 1 k c] at h
  cases h1 : runFrom sem u0 es k n c with
  | mk c1 r =>
    rw [h1] at h
    cases r with
    | some err => cases h
    | none =>
      simp only [] at h
      simp only [runFrom] at h
      cases hk : es[k + n]? with
      | none => rw [hk] at h; cases h
      | some e =>
        rw [hk] at h
        simp only [] at h
        cases hs : step sem u0 (k + n) e c1 with
        | mk c2 r2 =>
          rw [hs] at h
          cases r2 with
          | some err => cases h
          | none =>
            simp only [] at h
            obtain ⟨p, g', a, _, _, _, hr, _, _, hc2⟩ := step_ok_inv sem hs
            have : c' = c2 := (Prod.mk.inj h).1.symm
            subst this
            refine ⟨e, rfl, ?_⟩
            rw [hc2]; exact hr

/-- A prefix of a successful run is successful. -/
theorem runFrom_prefix_ok (u0 : Nat) (es : List (Entry P D O)) (a b k : Nat) (c c' : Core S D M)
    (h : runFrom sem u0 es k (a + b) c = (c', none)) :
    ∃ c1, runFrom sem u0 es k a c = (c1, none) := by
  rw [runFrom_add] at h
  cases h1 : runFrom sem u0 es k a c with
  | mk c1 r =>
    rw [h1] at h
    cases r with
    | some err => cases h
    | none => exact ⟨c1, rfl⟩

/-- The loop reads only the entries it fetches. -/
theorem runFrom_congr (u0 : Nat) (es es' : List (Entry P D O)) :
    ∀ (n k : Nat) (c : Core S D M),
      (∀ i, k ≤ i → i < k + n →
        (es[i]? = none ∧ es'[i]? = none) ∨
        (∃ e e', es[i]? = some e ∧ es'[i]? = some e' ∧ ∀ c, step sem u0 i e c = step sem u0 i e' c)) →
      runFrom sem u0 es k n c = runFrom sem u0 es' k n c
  | 0, k, c, _ => rfl
  | n + 1, k, c, h => by
    simp only [runFrom]
    rcases h k (Nat.le_refl k) (by omega) with ⟨h1, h2⟩ | ⟨e, e', h1, h2, hs⟩
    · rw [h1, h2]
    · rw [h1, h2]
      simp only []
      rw [hs c]
      cases hst : step sem u0 k e' c with
      | mk c1 r =>
        cases r with
        | some err => rfl
        | none =>
          simp only []
          exact runFrom_congr u0 es es' n (k + 1) c1 (fun i hi hi2 => h i (by omega) (by omega))

/-! ### advance -/

theorem advance_self (h : Hist S P D O M) (w : WState S D O M) (k : Nat) :
    advance sem h w k k = (w, none) := by
  unfold advance; simp

/-- `advance_compose` in the form used below: start `j`, middle `k`, target `t`. -/
theorem advance_compose_gen (h : Hist S P D O M) (w wk : WState S D O M) (j k t : Nat)
    (hjk : j ≤ k) (hkt : k ≤ t) (h1 : advance sem h w j k = (wk, none)) :
    (advance sem h wk k t).2 = (advance sem h w j t).2 ∧
    ((advance sem h w j t).2 = none → (advance sem h wk k t).1 = (advance sem h w j t).1) := by
  by_cases ejk : j = k
  · subst ejk
    rw [advance_self] at h1
    have : wk = w := (Prod.mk.inj h1).1.symm
    subst this
    exact ⟨rfl, fun _ => rfl⟩
  by_cases ekt : k = t
  · subst ekt
    rw [advance_self, h1]
    exact ⟨rfl, fun _ => rfl⟩
  have hjk' : j < k := by omega
  have hkt' : k < t := by omega
  have hk0 : k ≠ 0 := by omega
  have ht0 : t ≠ 0 := by omega
  have hjt : j ≠ t := by omega
  -- unfold the first leg
  unfold advance at h1
  rw [if_neg ejk] at h1
  cases hr1 : runFrom sem h.u0 h.entries j (k - j) w.core with
  | mk ck r1 =>
    rw [hr1] at h1
    cases r1 with
    | some err => cases h1
    | none =>
      simp only [] at h1
      rw [if_neg hk0] at h1
      have hwk : wk.core = ck := by
        have := (Prod.mk.inj h1).1
        rw [← this]
      -- second leg and the direct run
      have hsplit : t - j = (k - j) + (t - k) := by omega
      have hdirect : runFrom sem h.u0 h.entries j (t - j) w.core
          = runFrom sem h.u0 h.entries k (t - k) ck := by
        rw [hsplit, runFrom_add, hr1]
        simp only []
        have : j + (k - j) = k := by omega
        rw [this]
      unfold advance
      rw [if_neg ekt, if_neg hjt, hdirect, hwk]
      cases hr2 : runFrom sem h.u0 h.entries k (t - k) ck with
      | mk c2 r2 =>
        cases r2 with
        | some err => exact ⟨rfl, fun hn => by cases hn⟩
        | none =>
          simp only []
          rw [if_neg ht0, if_neg ht0]
          refine ⟨rfl, fun _ => ?_⟩
          have hlen := runFrom_ok_len sem h.u0 h.entries (t - k) k ck c2 hr2
          have hlt : t - 1 < h.entries.length := by omega
          have hsome : h.entries[t - 1]? = some (h.entries[t - 1]'hlt) := List.getElem?_eq_getElem hlt
          rw [hsome]
          simp only []
          rw [if_pos hkt', if_pos (show j < t by omega)]

/-! ### what a successful reference replay establishes -/

theorem replayRef_zero (h : Hist S P D O M) (b : Base S) :
    replayRef sem h b 0 = (resetBase sem b, none) := by
  unfold replayRef; exact advance_self sem h _ 0

/-- Inversion of a successful `advance` from a strictly earlier tick. -/
theorem advance_ok_inv (h : Hist S P D O M) (w w' : WState S D O M) (k t : Nat) (hkt : k < t)
    (ha : advance sem h w k t = (w', none)) :
    ∃ c e, runFrom sem h.u0 h.entries k (t - k) w.core = (c, none) ∧
      h.entries[t - 1]? = some e ∧ w' = { core := c, lastMat := e.outputs, txc := t } := by
  unfold advance at ha
  rw [if_neg (by omega : k ≠ t)] at ha
  cases hr : runFrom sem h.u0 h.entries k (t - k) w.core with
  | mk c r =>
    rw [hr] at ha
    cases r with
    | some err => cases ha
    | none =>
      simp only [] at ha
      rw [if_neg (by omega : t ≠ 0)] at ha
      have hlen := runFrom_ok_len sem h.u0 h.entries (t - k) k w.core c hr
      have hlt : t - 1 < h.entries.length := by omega
      have hsome : h.entries[t - 1]? = some (h.entries[t - 1]'hlt) := List.getElem?_eq_getElem hlt
      rw [hsome] at ha
      simp only [] at ha
      rw [if_pos hkt] at ha
      exact ⟨c, _, rfl, hsome, (Prod.mk.inj ha).1.symm⟩

/-- The root the chain records for tick `t` is the root of the replayed state. -/
theorem replayRef_ok_expected (h : Hist S P D O M) (b : Base S) (t : Nat) (w : WState S D O M)
    (hb : validateBase sem h b = none) (hr : replayRef sem h b t = (w, none)) :
    expectedRootAt h t = .ok (sem.root w.core.g) := by
  unfold expectedRootAt
  by_cases ht : t = 0
  · subst ht
    rw [replayRef_zero] at hr
    have : w = resetBase sem b := (Prod.mk.inj hr).1.symm
    subst this
    simp only [if_pos, resetBase]
    unfold validateBase at hb
    by_cases h1 : b.warp ≠ h.u0
    · rw [if_pos h1] at hb; cases hb
    · rw [if_neg h1] at hb
      by_cases h2 : sem.root b.s0 ≠ h.boundary
      · rw [if_pos h2] at hb; cases hb
      · have := Decidable.of_not_not h2
        rw [this]
  · rw [if_neg ht]
    unfold replayRef at hr
    obtain ⟨c, e, hrun, he, hw⟩ := advance_ok_inv sem h _ w 0 t (by omega) hr
    have ht1 : t - 0 = (t - 1) + 1 := by omega
    rw [ht1] at hrun
    obtain ⟨e', he', hroot⟩ := runFrom_ok_root sem h.u0 h.entries (t - 1) 0 _ c hrun
    rw [Nat.zero_add] at he'
    rw [he']
    simp only []
    rw [hw]
    simp only []
    rw [hroot]

theorem replayRef_ok_len (h : Hist S P D O M) (b : Base S) (t : Nat) (w : WState S D O M)
    (hr : replayRef sem h b t = (w, none)) : t ≤ h.entries.length := by
  by_cases ht : t = 0
  · omega
  · unfold replayRef at hr
    obtain ⟨c, e, hrun, _, _⟩ := advance_ok_inv sem h _ w 0 t (by omega) hr
    have := runFrom_ok_len sem h.u0 h.entries (t - 0) 0 _ c hrun
    omega

/-- If the whole history verifies, so does every prefix. -/
theorem replayRef_prefix_ok (h : Hist S P D O M) (b : Base S) (n t : Nat) (w : WState S D O M)
    (hr : replayRef sem h b n = (w, none)) (ht : t ≤ n) :
    ∃ w', replayRef sem h b t = (w', none) := by
  by_cases e0 : t = 0
  · subst e0; exact ⟨_, replayRef_zero sem h b⟩
  by_cases etn : t = n
  · subst etn; exact ⟨w, hr⟩
  unfold replayRef at hr
  obtain ⟨c, e, hrun, _, _⟩ := advance_ok_inv sem h _ w 0 n (by omega) hr
  have hs : n - 0 = (t - 0) + (n - t) := by omega
  rw [hs] at hrun
  obtain ⟨c1, hc1⟩ := runFrom_prefix_ok sem h.u0 h.entries (t - 0) (n - t) 0 _ c hrun
  have hlen := runFrom_ok_len sem h.u0 h.entries (t - 0) 0 _ c1 hc1
  have hlt : t - 1 < h.entries.length := by omega
  refine ⟨{ core := c1, lastMat := (h.entries[t - 1]'hlt).outputs, txc := t }, ?_⟩
  unfold replayRef advance
  rw [if_neg (by omega : (0 : Nat) ≠ t), hc1]
  simp only []
  rw [if_neg e0, List.getElem?_eq_getElem hlt]
  simp only []
  rw [if_pos (by omega : 0 < t)]


/-- Resuming from the state replayed up to `k` reaches the state replayed up to `t`. -/
theorem advance_of_ref (h : Hist S P D O M) (b : Base S) (k t : Nat) (wk s : WState S D O M)
    (hkt : k ≤ t) (hk : replayRef sem h b k = (wk, none)) (hs : replayRef sem h b t = (s, none)) :
    advance sem h wk k t = (s, none) := by
  obtain ⟨h1, h2⟩ := advance_compose_gen sem h (resetBase sem b) wk 0 k t (Nat.zero_le k) hkt hk
  have e1 : advance sem h (resetBase sem b) 0 t = (s, none) := hs
  rw [e1] at h1 h2
  have h3 := h2 rfl
  exact Prod.ext h3 h1

/-- Everything `validate_checkpoint_for_history` established when it accepted. -/
theorem validateCp_none_inv (h : Hist S P D O M) (c : Cp S D O M) (hv : validateCp sem h c = none) :
    c.tick ≤ h.entries.length ∧ c.warp = h.u0 ∧ sem.root c.s0 = h.boundary ∧
    sem.root c.w.core.g = c.hash ∧
    (∃ ex, expectedRootAt h c.tick = .ok ex ∧ sem.root c.w.core.g = ex) ∧
    c.w.core.hist.length = c.tick ∧ c.w.txc = c.tick ∧
    (c.tick = 0 → c.w.lastMat = sem.noOut) ∧
    (c.tick ≠ 0 → histMatches sem h.entries 0 c.w.core.hist = true ∧
      ∃ e, h.entries[c.tick - 1]? = some e ∧ c.w.lastMat = e.outputs) ∧
    c.nIngress = 0 ∧ c.nErrs = 0 ∧ c.ls = c.w.core.hist.getLast? := by
  unfold validateCp at hv
  by_cases h1 : c.tick > h.entries.length
  · rw [if_pos h1] at hv; cases hv
  rw [if_neg h1] at hv
  by_cases h2 : c.warp ≠ h.u0
  · rw [if_pos h2] at hv; cases hv
  rw [if_neg h2] at hv
  by_cases h3 : sem.root c.s0 ≠ h.boundary
  · rw [if_pos h3] at hv; cases hv
  rw [if_neg h3] at hv
  by_cases h4 : sem.root c.w.core.g ≠ c.hash
  · rw [if_pos h4] at hv; cases hv
  rw [if_neg h4] at hv
  cases hex : expectedRootAt h c.tick with
  | error e => rw [hex] at hv; cases hv
  | ok ex =>
    rw [hex] at hv
    simp only [] at hv
    by_cases h5 : sem.root c.w.core.g ≠ ex
    · rw [if_pos h5] at hv; cases hv
    rw [if_neg h5] at hv
    by_cases h6 : c.w.core.hist.length ≠ c.tick
    · rw [if_pos h6] at hv; cases hv
    rw [if_neg h6] at hv
    by_cases h7 : c.w.txc ≠ c.tick
    · rw [if_pos h7] at hv; cases hv
    rw [if_neg h7] at hv
    by_cases h7a : c.nIngress ≠ 0
    · rw [if_pos h7a] at hv; cases hv
    rw [if_neg h7a] at hv
    by_cases h7b : c.nErrs ≠ 0
    · rw [if_pos h7b] at hv; cases hv
    rw [if_neg h7b] at hv
    have hlen : c.w.core.hist.length = c.tick := Decidable.of_not_not h6
    by_cases h0 : c.tick = 0
    · rw [if_pos h0] at hv
      cases hls : c.ls with
      | some x => rw [hls] at hv; simp at hv
      | none =>
        rw [hls] at hv
        simp only [Option.isSome_none, Bool.false_eq_true, if_false] at hv
        have hnil : c.w.core.hist = [] := List.eq_nil_of_length_eq_zero (by omega)
        refine ⟨by omega, Decidable.of_not_not h2, Decidable.of_not_not h3, Decidable.of_not_not h4,
          ⟨ex, rfl, Decidable.of_not_not h5⟩, hlen, Decidable.of_not_not h7, ?_, fun hn => absurd h0 hn,
          Decidable.of_not_not h7a, Decidable.of_not_not h7b, by rw [hnil]; rfl⟩
        intro _
        by_cases h8 : c.w.lastMat ≠ sem.noOut
        · rw [if_pos h8] at hv; cases hv
        · exact Decidable.of_not_not h8
    · rw [if_neg h0] at hv
      cases hm : histMatches sem h.entries 0 c.w.core.hist with
      | false => rw [hm] at hv; simp at hv
      | true =>
        rw [hm] at hv
        simp only [Bool.not_true, Bool.false_eq_true, if_false] at hv
        cases he : h.entries[c.tick - 1]? with
        | none => rw [he] at hv; cases hv
        | some e =>
          rw [he] at hv
          simp only [] at hv
          by_cases h9 : c.w.lastMat ≠ e.outputs
          · rw [if_pos h9] at hv; cases hv
          rw [if_neg h9] at hv
          by_cases h10 : c.ls.isNone = true
          · rw [if_pos h10] at hv; cases hv
          rw [if_neg h10] at hv
          by_cases h11 : c.ls ≠ c.w.core.hist.getLast?
          · rw [if_pos h11] at hv; cases hv
          exact ⟨by omega, Decidable.of_not_not h2, Decidable.of_not_not h3, Decidable.of_not_not h4,
            ⟨ex, rfl, Decidable.of_not_not h5⟩, hlen, Decidable.of_not_not h7, fun hz => absurd hz h0,
            fun _ => ⟨rfl, e, rfl, Decidable.of_not_not h9⟩,
            Decidable.of_not_not h7a, Decidable.of_not_not h7b, Decidable.of_not_not h11⟩

/-! ### `cpBefore` -/

theorem cpBefore_mem {cps : List (Cp S D O M)} {t : Nat} {c : Cp S D O M}
    (h : cpBefore cps t = some c) : c ∈ cps ∧ c.tick < t := by
  unfold cpBefore at h
  have hm := List.mem_of_getLast? h
  rw [List.mem_filter] at hm
  exact ⟨hm.1, by simpa using hm.2⟩

/-! ### fields that `fork` rewrites are not read by replay -/

theorem artOf_rewrite (src new k : Nat) (e : Entry P D O) (p : P) :
    artOf sem k (rewriteEntry src new e) p = artOf sem k e p := by
  unfold artOf rewriteEntry
  simp only [List.map_map]
  have : (fun (x : PRef D) => x.commit) ∘ (fun p => if p.wl = src then { p with wl := new } else p)
      = fun (x : PRef D) => x.commit := by
    funext x; simp only [Function.comp]; split <;> rfl
  rw [this]

theorem step_rewrite (u0 src new k : Nat) (e : Entry P D O) (c : Core S D M) :
    step sem u0 k (rewriteEntry src new e) c = step sem u0 k e c := by
  have ha := artOf_rewrite sem src new k e
  unfold step
  have hp : (rewriteEntry src new e).patch = e.patch := rfl
  have hr : (rewriteEntry src new e).expRoot = e.expRoot := rfl
  have hd : (rewriteEntry src new e).expDigest = e.expDigest := rfl
  have hc : (rewriteEntry src new e).expCommit = e.expCommit := rfl
  have hpar : (rewriteEntry src new e).parents.map (·.commit) = e.parents.map (·.commit) := by
    unfold rewriteEntry
    simp only [List.map_map]
    congr 1
    funext x; simp only [Function.comp]; split <;> rfl
  rw [hp, hr, hd, hc, hpar]
  cases e.patch with
  | none => rfl
  | some p => simp only [ha p]

end EchoVerif.Chain
