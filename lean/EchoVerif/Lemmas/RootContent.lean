/-
  Lemmas about Model/Root.lean, part 2: the store path — fuel universe, exactness of `reach`,
  and independence of the byte stream from everything outside the reachable part.
-/
import EchoVerif.Lemmas.Root
import EchoVerif.Lemmas.FoldPerm

set_option linter.unusedSimpArgs false
set_option linter.unusedVariables false

namespace EchoVerif
namespace Root
open Graph SMap

/-! ### universes (fuel bounds) -/

theorem store_mem_of_find {s : WState} {w : Nat} {st : Store} (h : s.store? w = some st) :
    (w, st) ∈ s.stores := SMap.find?_mem h

def storeUniverse (s : WState) : Universe (storeView s) where
  keys := storeKeys s
  out_mem := by
    intro k p hp
    simp only [storeView] at hp
    split at hp
    · cases hp
    · rename_i st hst
      simp only [List.mem_map] at hp
      obtain ⟨e, he, rfl⟩ := hp
      have he' : e ∈ st.edges := (List.mem_filter.mp he).1
      simp only [storeKeys, List.mem_append, List.mem_flatMap, List.mem_map]
      exact Or.inl ⟨(k.1, st), store_mem_of_find hst, e, he', rfl⟩
  inst_mem := by
    intro c r h
    simp only [storeView, Option.map_eq_some_iff] at h
    obtain ⟨inst, hi, rfl⟩ := h
    simp only [storeKeys, List.mem_append, List.mem_map]
    exact Or.inr ⟨(c, inst), SMap.find?_mem hi, rfl⟩

def accUniverse (a : Acc) : Universe (accView a) where
  keys := accKeys a
  out_mem := by
    intro k p hp
    simp only [accView, List.mem_map] at hp
    obtain ⟨e, he, rfl⟩ := hp
    have hm := List.mem_filter.mp he
    simp only [Bool.and_eq_true, beq_iff_eq] at hm
    simp only [accKeys, List.mem_append, List.mem_map]
    refine Or.inl ⟨e, hm.1, ?_⟩
    rw [hm.2.1]
  inst_mem := by
    intro c r h
    simp only [accView, Option.map_eq_some_iff] at h
    obtain ⟨inst, hi, rfl⟩ := h
    simp only [accKeys, List.mem_append, List.mem_map]
    exact Or.inr ⟨(c, inst), SMap.find?_mem hi, rfl⟩

/-! ### the traversal is exact -/

theorem loop_exact {V : View} (U : Universe V) (r : NKey) (f : Nat) (hf : U.keys.length + 1 ≤ f) :
    (loop V f (init r)).queue = [] ∧
    (∀ k, k ∈ (loop V f (init r)).nodes ↔ Reach V r k) ∧
    (∀ c, c ∈ (loop V f (init r)).warps ↔ ReachW V r c) := by
  have hd := loop_done U f (init r) (Nat.le_trans (init_pot U.keys r) hf)
  have hs := loop_sound (V := V) (r := r) f (init r) (init_sound V r)
  have hc := closed_of_done (loop_closing (V := V) (r := r) f (init r) (init_closing V r)) hd
  exact ⟨hd, fun k => ⟨hs.nodes k, hc.1 k⟩, fun c => ⟨hs.warps c, hc.2 c⟩⟩

theorem reach_exact (s : WState) (r : NKey) :
    (reach s r).queue = [] ∧
    (∀ k, k ∈ (reach s r).nodes ↔ Reach (storeView s) r k) ∧
    (∀ c, c ∈ (reach s r).warps ↔ ReachW (storeView s) r c) :=
  loop_exact (storeUniverse s) r (storeFuel s) (by simp [storeFuel, storeUniverse])

theorem accReach_exact (a : Acc) (r : NKey) :
    (accReach a r).queue = [] ∧
    (∀ k, k ∈ (accReach a r).nodes ↔ Reach (accView a) r k) ∧
    (∀ c, c ∈ (accReach a r).warps ↔ ReachW (accView a) r c) :=
  loop_exact (accUniverse a) r (accFuel a) (by simp [accFuel, accUniverse])

theorem reach_warp_of_reach {V : View} {r k : NKey} (h : Reach V r k) : ReachW V r k.1 := by
  induction h with
  | root => exact Or.inl rfl
  | step hk hs ih =>
    cases hs with
    | edge p hp => exact ih
    | portal c r' hport hr => exact Or.inr ⟨_, hk, hport⟩

/-! ### what the stream does not depend on -/

/-- Views that agree on the reachable part give the same traversal, whatever the fuel formulas. -/
theorem reach_congr (s s' : WState) (r : NKey)
    (hag : ∀ k, Reach (storeView s) r k → AgreeAt (storeView s) (storeView s') k) :
    reach s' r = reach s r := by
  have h1 : reach s' r = loop (storeView s) (storeFuel s') (init r) :=
    loop_congr hag (storeFuel s') (init r) (init_sound _ r)
  have hd' : (loop (storeView s) (storeFuel s') (init r)).queue = [] := by
    rw [← h1]; exact (reach_exact s' r).1
  have hd : (loop (storeView s) (storeFuel s) (init r)).queue = [] := (reach_exact s r).1
  rw [h1]
  unfold reach
  rcases Nat.le_total (storeFuel s) (storeFuel s') with h | h
  · exact loop_stable _ _ _ _ hd h
  · exact (loop_stable _ _ _ _ hd' h).symm

theorem flatMap_congr_mem {α β : Type} (f g : α → List β) :
    ∀ (l : List α), (∀ a, a ∈ l → f a = g a) → l.flatMap f = l.flatMap g
  | [], _ => rfl
  | a :: as, h => by
    simp only [List.flatMap_cons]
    rw [h a List.mem_cons_self, flatMap_congr_mem f g as (fun b hb => h b (List.mem_cons_of_mem _ hb))]

/-- **General form.** If `s'` reads the same as `s` at every reachable key and yields the same
    instance entry for every reachable warp, the byte stream is the same. -/
theorem rootBytes_congr (s s' : WState) (r : NKey)
    (hag : ∀ k, Reach (storeView s) r k → AgreeAt (storeView s) (storeView s') k)
    (hinst : ∀ c, ReachW (storeView s) r c →
      storeInst s' (reach s r).nodes c = storeInst s (reach s r).nodes c) :
    rootBytes s' r = rootBytes s r := by
  unfold rootBytes content
  rw [reach_congr s s' r hag]
  unfold contentOf
  rw [flatMap_congr_mem _ _ _ (fun c hc => hinst c (((reach_exact s r).2.2 c).mp hc))]

/-! ### SMap filter helpers -/

theorem filter_insert_fresh {ν : Type} (p : Nat × ν → Bool) (k : Nat) (v : ν) :
    ∀ (m : SMap Nat ν), SMap.find? k m = none → p (k, v) = false →
      (SMap.insert k v m).filter p = m.filter p
  | [], _, hp => by simp [SMap.insert, hp]
  | (k', v') :: rest, hf, hp => by
    simp only [SMap.insert]
    split
    · simp [List.filter_cons, hp]
    · split
      · rename_i h1 h2
        subst h2
        simp [SMap.find?, LinOrd.lt_irrefl] at hf
      · rename_i h1 h2
        have hf' : SMap.find? k rest = none := by
          simp only [SMap.find?] at hf
          rw [if_neg h1, if_neg h2] at hf
          exact hf
        simp only [List.filter_cons, filter_insert_fresh p k v rest hf' hp]

theorem find?_putStore (s : WState) (w w' : Nat) (st : Store) :
    (s.putStore w st).store? w' = if w' = w then some st else s.store? w' := by
  simp only [WState.putStore, WState.store?, SMap.find?_insert]


/-! ### concrete edits of unreachable content -/

theorem putStore_instances (s : WState) (w : Nat) (st : Store) :
    (s.putStore w st).instances = s.instances := rfl


/-- replacing the store of warp `w` by one with the same edges and attachment planes leaves every
    view lookup unchanged -/
theorem agree_putStore_nodes (s : WState) (w : Nat) (st st' : Store) (hst : s.store? w = some st)
    (he : st'.edges = st.edges) (hea : st'.edgeAtt = st.edgeAtt) (hna : st'.nodeAtt = st.nodeAtt) (k : NKey) :
    AgreeAt (storeView s) (storeView (s.putStore w st')) k := by
  refine ⟨?_, ?_, fun c _ => rfl⟩
  · simp only [storeView, find?_putStore]
    by_cases hk : k.1 = w
    · simp only [hk, if_true, hst, outEdges, he, hea]
    · simp only [if_neg hk]
  · simp only [storeView, find?_putStore]
    by_cases hk : k.1 = w
    · simp only [hk, if_true, hst, hna]
    · simp only [if_neg hk]

/-- **Adding an unreachable node** (any type) does not change the stream. -/
theorem add_unreachable_node (s : WState) (r : NKey) (w n ty : Nat) (st : Store)
    (hst : s.store? w = some st) (hfresh : SMap.find? n st.nodes = none)
    (hun : ¬ Reach (storeView s) r (w, n)) :
    rootBytes (s.putStore w { st with nodes := SMap.insert n ty st.nodes }) r = rootBytes s r := by
  apply rootBytes_congr
  · intro k _
    exact agree_putStore_nodes s w st { st with nodes := SMap.insert n ty st.nodes } hst rfl rfl rfl k
  · intro c _
    have hnv : (w, n) ∉ (reach s r).nodes := fun h => hun (((reach_exact s r).2.1 _).mp h)
    have hn : storeNodes w { st with nodes := SMap.insert n ty st.nodes } (reach s r).nodes
        = storeNodes w st (reach s r).nodes := by
      simp only [storeNodes]
      rw [filter_insert_fresh _ n ty st.nodes hfresh (by simp [hnv])]
    have hb : storeBuckets w { st with nodes := SMap.insert n ty st.nodes } (reach s r).nodes
        = storeBuckets w st (reach s r).nodes := rfl
    by_cases hc : c = w
    · subst hc
      simp only [storeInst, find?_putStore, putStore_instances, if_true, hst]
      cases hfi : SMap.find? c s.instances with
      | none => rfl
      | some inst => simp only [hn, hb]
    · simp only [storeInst, find?_putStore, putStore_instances, if_neg hc]

/-- **Replacing an unreachable instance** — its record and its whole store, or creating it — does not
    change the stream. -/
theorem replace_unreachable_instance (s : WState) (r : NKey) (inst : Instance) (st : Store)
    (hun : ¬ ReachW (storeView s) r inst.warp) :
    rootBytes (upsertInstanceWith s inst st) r = rootBytes s r := by
  have hstore : ∀ c, c ≠ inst.warp → (upsertInstanceWith s inst st).store? c = s.store? c := by
    intro c hc
    simp only [upsertInstanceWith, WState.store?, SMap.find?_insert, if_neg hc]
  have hinst : ∀ c, c ≠ inst.warp →
      SMap.find? c (upsertInstanceWith s inst st).instances = SMap.find? c s.instances := by
    intro c hc
    simp only [upsertInstanceWith, SMap.find?_insert, if_neg hc]
  apply rootBytes_congr
  · intro k hk
    have hk1 : k.1 ≠ inst.warp := fun e => hun (e ▸ reach_warp_of_reach hk)
    refine ⟨?_, ?_, ?_⟩
    · simp only [storeView, hstore k.1 hk1]
    · simp only [storeView, hstore k.1 hk1]
    · intro c hp
      have hc : c ≠ inst.warp := fun e => hun (e ▸ Or.inr ⟨k, hk, hp⟩)
      simp only [storeView, hinst c hc]
  · intro c hc
    have hc' : c ≠ inst.warp := fun e => hun (e ▸ hc)
    simp only [storeInst, hstore c hc', hinst c hc']

/-! ### construction order -/

/-- how the driver (and `GraphStore`/`BTreeMap`) builds a map from rows in arrival order -/
def buildMap {ν : Type} (rows : List (Nat × ν)) : SMap Nat ν :=
  rows.foldl (fun m p => SMap.insert p.1 p.2 m) []

theorem buildMap_sorted {ν : Type} (rows : List (Nat × ν)) : SMap.Sorted (buildMap rows) := by
  unfold buildMap
  have : ∀ (l : List (Nat × ν)) (m : SMap Nat ν), SMap.Sorted m →
      SMap.Sorted (l.foldl (fun m p => SMap.insert p.1 p.2 m) m) := by
    intro l
    induction l with
    | nil => intro m h; exact h
    | cons p ps ih => intro m h; exact ih _ (SMap.sorted_insert _ _ h)
  exact this rows [] trivial

end Root
end EchoVerif
