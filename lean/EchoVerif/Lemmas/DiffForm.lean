import EchoVerif.Lemmas.DiffShape
set_option linter.unusedSimpArgs false
set_option linter.unusedVariables false
namespace EchoVerif
namespace Graph
open SMap

/-- The six shapes of op `diff_state` emits between same-shape states, with their guards. -/
inductive DiffForm (w : Nat) (B A : Store) : Op → Prop where
  | dn (i : Nat) : find? i B.nodes ≠ none → find? i A.nodes = none → DiffForm w B A (.deleteNode w i)
  | un (i ty : Nat) : find? i A.nodes = some ty → find? i B.nodes ≠ some ty →
      DiffForm w B A (.upsertNode w i ty)
  | sn (i : Nat) : find? i A.nodes ≠ none → find? i B.nodeAtt ≠ find? i A.nodeAtt →
      DiffForm w B A (.setAtt (AttKey.nodeAlpha w i) (find? i A.nodeAtt))
  | de (id : Nat) (eB : EdgeRec) : find? id B.edges = some eB →
      (find? id A.edges = none ∨ ∃ eA, find? id A.edges = some eA ∧ eB.src ≠ eA.src) →
      DiffForm w B A (.deleteEdge w eB.src id)
  | ue (id : Nat) (eA : EdgeRec) : find? id A.edges = some eA → find? id B.edges ≠ some eA →
      DiffForm w B A (.upsertEdge w id eA.src eA.dst eA.ty)
  | se (id : Nat) (eA : EdgeRec) : find? id A.edges = some eA →
      (find? id B.edgeAtt ≠ find? id A.edgeAtt ∨ migratedAtt B A id eA) →
      DiffForm w B A (.setAtt (AttKey.edgeBeta w id) (find? id A.edgeAtt))

theorem diffInstance_iff {w : Nat} {B A : Store} (hB : B.Sorted4) (hA : A.Sorted4) (o : Op) :
    o ∈ diffInstance w B A [] [] ↔ DiffForm w B A o := by
  simp only [diffInstance, List.mem_append]
  constructor
  · rintro (((h | h) | h) | h)
    · rcases diffNodes_elim hB hA h with ⟨i, rfl, h1, h2⟩ | ⟨i, ty, rfl, h1, h2⟩
      · exact .dn i h1 h2
      · exact .un i ty h1 h2
    · obtain ⟨i, rfl, h1, h2⟩ := diffNodeAtts_elim hA h
      exact .sn i h1 h2
    · rcases diffEdges_elim hB hA h with ⟨id, eB, rfl, h1, h2⟩ | ⟨id, eA, rfl, h1, h2⟩
      · exact .de id eB h1 h2
      · exact .ue id eA h1 h2
    · obtain ⟨id, eA, rfl, h1, h2⟩ := diffEdgeAtts_elim hA h
      exact .se id eA h1 h2
  · intro h
    cases h with
    | dn i h1 h2 => exact Or.inl (Or.inl (Or.inl (diffNodes_DN hB i h1 h2)))
    | un i ty h1 h2 => exact Or.inl (Or.inl (Or.inl (diffNodes_UN hB hA i ty h1 h2)))
    | sn i h1 h2 => exact Or.inl (Or.inl (Or.inr (diffNodeAtts_intro hA i h1 h2)))
    | de id eB h1 h2 =>
      rcases h2 with h2 | ⟨eA, h2, h3⟩
      · exact Or.inl (Or.inr (diffEdges_DE_gone hB id eB h1 h2))
      · exact Or.inl (Or.inr (diffEdges_DE_moved hA id eB eA h1 h2 h3))
    | ue id eA h1 h2 => exact Or.inl (Or.inr (diffEdges_UE hA id eA h1 h2))
    | se id eA h1 h2 => exact Or.inr (diffEdgeAtts_intro hA id eA h1 h2)

/-- Membership in the diff of two same-shape well-formed states. -/
theorem mem_diff_iff {a b : WState} (ha : WF a) (hb : WF b) (hs : SameShape a b) (o : Op) :
    o ∈ diffState a b ↔
      ∃ w stB stA, a.store? w = some stB ∧ b.store? w = some stA ∧ DiffForm w stB stA o := by
  rw [mem_diffState_sameShape hb.instSorted hs, mem_perOps hb.sorted.1]
  constructor
  · rintro ⟨w, stA, hf, ho⟩
    have hbw : b.store? w = some stA := hf
    have haw : (a.store? w).isSome = true := by rw [hs.2 w, hbw]; rfl
    cases hst : a.store? w with
    | none => rw [hst] at haw; cases haw
    | some stB =>
      have hst' : find? w a.stores = some stB := hst
      rw [hst'] at ho
      exact ⟨w, stB, stA, hst, hbw, (diffInstance_iff (ha.sorted.2 w stB hst) (hb.sorted.2 w stA hf) o).mp ho⟩
  · rintro ⟨w, stB, stA, h1, h2, hf⟩
    refine ⟨w, stA, h2, ?_⟩
    have h1' : find? w a.stores = some stB := h1
    rw [h1']
    exact (diffInstance_iff (ha.sorted.2 w stB h1) (hb.sorted.2 w stA h2) o).mpr hf

theorem diff_all_skel {a b : WState} (ha : WF a) (hb : WF b) (hs : SameShape a b) :
    ∀ o ∈ diffState a b, o.isSkel = true := by
  intro o ho
  obtain ⟨w, stB, stA, _, _, hf⟩ := (mem_diff_iff ha hb hs o).mp ho
  cases hf <;> rfl

end Graph
end EchoVerif
