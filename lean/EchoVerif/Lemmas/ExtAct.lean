/-
  Helper lemmas for C17 (external-action coordinator). Property theorems live in Props/C17.lean.
-/
import EchoVerif.Model.ExtAct
import EchoVerif.Lemmas.ExtActMerkle

set_option linter.unusedSimpArgs false
set_option linter.unusedVariables false

namespace EchoVerif
namespace ExtAct
open SMap

/-! ### vocabulary of the property statements -/

inductive Kind where
  | request | claim | settlement
  deriving DecidableEq, Repr

def bodyRid : TxBody → Nat
  | .request r => r.rid
  | .claim c => c.rid
  | .settlement s => s.rid

def bodyKind : TxBody → Kind
  | .request _ => .request
  | .claim _ => .claim
  | .settlement _ => .settlement

/-- the recorded lifecycle of one request id: the kinds of its committed transactions, in log order -/
def kindsFor (rid : Nat) (log : List Tx) : List Kind :=
  (log.filter (fun tx => bodyRid tx.body = rid)).map (fun tx => bodyKind tx.body)

/-- the lifecycle an index entry stands for -/
def stages : Option Entry → List Kind
  | none => []
  | some e => [Kind.request] ++ (if e.claim.isSome then [Kind.claim] else []) ++
      (if e.settlement.isSome then [Kind.settlement] else [])

def WFI (i : Index) : Prop :=
  ∀ rid e, i.get rid = some e → e.request.rid = rid ∧ (e.settlement.isSome = true → e.claim.isSome = true)

/-- the log is readable by `observe_external_actions` -/
def Recoverable (s : Sys) : Prop := ∃ i, observe s.store.commits = .ok i

/-- a ready coordinator is exactly what recovery of its store yields -/
def Synced (s : Sys) : Prop :=
  s.coord.ready = true →
    s.store.dirty = false ∧ observe s.store.commits = .ok s.coord.index ∧
    s.coord.nextLsn = s.store.commits.length ∧ s.coord.prevCommit = lastCommit s.store.commits

def Good (s : Sys) : Prop := Recoverable s ∧ Synced s

/-! ### index plumbing -/

theorem get_put (i : Index) (e : Entry) (rid : Nat) :
    (i.put e).get rid = if rid = e.request.rid then some e else i.get rid := by
  simp only [Index.put, Index.apply, Index.get]
  exact find?_insert _ _ _ _

theorem plan_congr (i : Index) {e e' : Entry} (hl : leafOf e = leafOf e')
    (hr : e.request.rid = e'.request.rid) : i.plan e = i.plan e' := by
  simp only [Index.plan, hl, hr]

theorem apply_plan_eq_put (i : Index) {e e' : Entry} (hl : leafOf e' = leafOf e)
    (hr : e'.request.rid = e.request.rid) : i.apply e' (i.plan e) = i.put e' := by
  simp only [Index.put, plan_congr i hl hr]

theorem root_put (i : Index) (e : Entry) : (i.put e).rootDigest = Trie.dig DX.empty 0 (i.plan e) := rfl

theorem get_empty (rid : Nat) : Index.empty.get rid = none := rfl

theorem wfi_empty : WFI Index.empty := by
  intro rid e h
  simp [get_empty] at h

/-! ### recovery as a fold -/

theorem observeFrom_append (i : Index) (l1 l2 : List Tx) :
    observeFrom i (l1 ++ l2) =
      match observeFrom i l1 with
      | .error e => .error e
      | .ok i' => observeFrom i' l2 := by
  induction l1 generalizing i with
  | nil => simp [observeFrom]
  | cons tx rest ih =>
    simp only [List.cons_append, observeFrom]
    cases h : applyTx i tx with
    | error e => simp
    | ok i' => simp [ih]

theorem observeFrom_snoc (i i' : Index) (l : List Tx) (tx : Tx) (h : observeFrom i l = .ok i') :
    observeFrom i (l ++ [tx]) = applyTx i' tx := by
  rw [observeFrom_append, h]
  simp only [observeFrom]
  cases applyTx i' tx <;> rfl

theorem lastCommit_snoc (l : List Tx) (tx : Tx) : lastCommit (l ++ [tx]) = some tx.commit := by
  induction l with
  | nil => rfl
  | cons a rest ih =>
    cases rest with
    | nil => rfl
    | cons b r =>
      simp only [List.cons_append] at ih ⊢
      simp only [lastCommit]
      exact ih

theorem applyTx_ok {i i' : Index} {tx : Tx} (h : applyTx i tx = .ok i') :
    applyBody i tx.commit tx.body = .ok i' := by
  unfold applyTx at h
  cases hb : applyBody i tx.commit tx.body with
  | error e => simp [hb] at h
  | ok j =>
    simp only [hb] at h
    split at h
    · cases h; rfl
    · cases h

/-- what one admitted transaction does to the index: the lifecycle of its request id grows by its
    kind, everything else is untouched, and well-formedness is kept. -/
theorem applyBody_spec {i i' : Index} {c : Nat} {body : TxBody} (h : applyBody i c body = .ok i')
    (hw : WFI i) :
    WFI i' ∧ ∀ rid, stages (i'.get rid) =
      stages (i.get rid) ++ (if bodyRid body = rid then [bodyKind body] else []) := by
  cases body with
  | request r =>
    simp only [applyBody] at h
    split at h
    · cases h
    · split at h
      · cases h
      · rename_i hnone
        cases h
        refine ⟨?_, ?_⟩
        · intro rid e he
          rw [get_put] at he
          split at he
          · rename_i hrid
            cases he
            exact ⟨hrid.symm, by simp⟩
          · exact hw rid e he
        · intro rid
          rw [get_put]
          simp only [bodyRid, bodyKind]
          by_cases hrid : rid = r.rid
          · subst hrid
            simp [hnone, stages]
          · have : ¬ r.rid = rid := fun x => hrid x.symm
            simp [hrid, this]
  | claim cl =>
    simp only [applyBody] at h
    split at h
    · cases h
    · rename_i e hsome
      split at h
      · cases h
      · rename_i hnc
        split at h
        · cases h
        · cases h
          have hkey := (hw _ _ hsome).1
          have hset : e.settlement.isSome = false := by
            cases hs : e.settlement.isSome with
            | false => rfl
            | true => exact absurd ((hw _ _ hsome).2 hs) hnc
          refine ⟨?_, ?_⟩
          · intro rid e' he
            rw [get_put] at he
            split at he
            · rename_i hrid
              cases he
              refine ⟨?_, by simp⟩
              simp only at hrid
              rw [hrid]
            · exact hw rid e' he
          · intro rid
            rw [get_put]
            simp only [bodyRid, bodyKind]
            by_cases hrid : rid = cl.rid
            · subst hrid
              simp only [hkey, if_true, hsome, stages]
              simp at hnc
              simp [hnc, hset]
            · have h1 : ¬ cl.rid = rid := fun x => hrid x.symm
              have h2 : ¬ rid = e.request.rid := by rw [hkey]; exact hrid
              simp [h1, h2]
  | settlement st =>
    simp only [applyBody] at h
    split at h
    · cases h
    · rename_i e hsome
      split at h
      · cases h
      · rename_i cl hcl
        split at h
        · cases h
        · split at h
          · cases h
          · split at h <;> cases h
          · rename_i hnoset
            cases h
            have hkey := (hw _ _ hsome).1
            refine ⟨?_, ?_⟩
            · intro rid e' he
              rw [get_put] at he
              split at he
              · rename_i hrid
                cases he
                refine ⟨?_, ?_⟩
                · simp only at hrid
                  rw [hrid]
                · intro _
                  simp [hcl]
              · exact hw rid e' he
            · intro rid
              rw [get_put]
              simp only [bodyRid, bodyKind]
              by_cases hrid : rid = st.rid
              · subst hrid
                simp only [hkey, if_true, hsome, stages]
                simp [hcl, hnoset]
              · have h1 : ¬ st.rid = rid := fun x => hrid x.symm
                have h2 : ¬ rid = e.request.rid := by rw [hkey]; exact hrid
                simp [h1, h2]

theorem kindsFor_cons (rid : Nat) (tx : Tx) (l : List Tx) :
    kindsFor rid (tx :: l) = (if bodyRid tx.body = rid then [bodyKind tx.body] else []) ++ kindsFor rid l := by
  simp only [kindsFor, List.filter_cons]
  split
  · rename_i h
    simp at h
    simp [h]
  · rename_i h
    simp at h
    simp [h]

theorem observeFrom_spec : ∀ (l : List Tx) (i i' : Index), observeFrom i l = .ok i' → WFI i →
    WFI i' ∧ ∀ rid, stages (i'.get rid) = stages (i.get rid) ++ kindsFor rid l
  | [], i, i', h, hw => by
    simp only [observeFrom] at h
    cases h
    exact ⟨hw, fun rid => by simp [kindsFor]⟩
  | tx :: rest, i, i', h, hw => by
    simp only [observeFrom] at h
    cases h1 : applyTx i tx with
    | error e => simp [h1] at h
    | ok j =>
      simp only [h1] at h
      obtain ⟨hwj, hj⟩ := applyBody_spec (applyTx_ok h1) hw
      obtain ⟨hw', h'⟩ := observeFrom_spec rest j i' h hwj
      refine ⟨hw', fun rid => ?_⟩
      rw [h' rid, hj rid, kindsFor_cons, List.append_assoc]

theorem stages_prefix {i : Index} (hw : WFI i) (rid : Nat) :
    stages (i.get rid) <+: [Kind.request, Kind.claim, Kind.settlement] := by
  cases h : i.get rid with
  | none => simp [stages]
  | some e =>
    have := (hw rid e h).2
    simp only [stages]
    cases hc : e.claim.isSome <;> cases hs : e.settlement.isSome <;> simp_all [List.IsPrefix]

/-! ### the transitions keep the coordinator equal to what recovery would rebuild -/

theorem good_genesis : Good genesis := by
  refine ⟨⟨Index.empty, rfl⟩, fun _ => ⟨rfl, rfl, rfl, rfl⟩⟩

theorem synced_recover {s : Sys} (h : Synced s) (hr : s.coord.ready = true) :
    recover s.store = .ok s.coord := by
  obtain ⟨hd, ho, hl, hp⟩ := h hr
  unfold recover
  rw [hd, ho]
  simp only [Bool.false_eq_true, if_false]
  cases hc : s.coord with
  | mk index nextLsn prevCommit ready =>
    simp only [hc] at hl hp hr
    simp [hl, hp, hr]

/-- the transaction a `commitStep` writes -/
def stepTx (s : Sys) (body : TxBody) (e : Entry) : Tx :=
  { commit := s.store.commits.length, body, before := s.coord.index.rootDigest,
    after := Trie.dig DX.empty 0 (s.coord.index.plan e) }

theorem applyTx_stepTx (s : Sys) (body : TxBody) (e e' : Entry)
    (hbody : applyBody s.coord.index s.store.commits.length body = .ok (s.coord.index.put e'))
    (hl : leafOf e' = leafOf e) (hr : e'.request.rid = e.request.rid) :
    applyTx s.coord.index (stepTx s body e) = .ok (s.coord.index.put e') := by
  simp only [applyTx, stepTx, hbody, root_put, plan_congr s.coord.index hl hr, and_self, if_true]

/-- every outcome of `commitStep` (success and the three store faults) -/
theorem commitStep_cases (s : Sys) (body : TxBody) (e : Entry) (fin : Nat → Entry) (mk : Nat → Out) :
    let c := s.store.commits.length
    let r := commitStep s body e fin mk
    (r.2 = mk c ∧ r.1.store.commits = s.store.commits ++ [stepTx s body e] ∧
      r.1.store.dirty = s.store.dirty ∧ r.1.store.fault = 0 ∧
      r.1.coord = { index := s.coord.index.apply (fin c) (s.coord.index.plan e),
                    nextLsn := s.coord.nextLsn + 1, prevCommit := some c, ready := true } ∧
      s.store.fault ≠ 1 ∧ s.store.fault ≠ 2 ∧ s.store.fault ≠ 3) ∨
    (r.2 = .err .walStore ∧ r.1.coord = { s.coord with ready := false } ∧ r.1.store.fault = 0 ∧
      ((s.store.fault = 1 ∧ r.1.store.commits = s.store.commits ∧ r.1.store.dirty = s.store.dirty) ∨
       (s.store.fault = 2 ∧ r.1.store.commits = s.store.commits ∧ r.1.store.dirty = true) ∨
       (s.store.fault = 3 ∧ r.1.store.commits = s.store.commits ++ [stepTx s body e] ∧
          r.1.store.dirty = s.store.dirty))) := by
  intro c r
  simp only [r, c, commitStep, appendTx, stepTx]
  by_cases h1 : s.store.fault = 1
  · right; simp [h1]
  · by_cases h2 : s.store.fault = 2
    · right; simp [h1, h2]
    · by_cases h3 : s.store.fault = 3
      · right; simp [h1, h2, h3]
      · left; simp [h1, h2, h3]

theorem commitStep_good (s : Sys) (body : TxBody) (e : Entry) (fin : Nat → Entry) (mk : Nat → Out)
    (hg : Good s) (hr : s.coord.ready = true)
    (hbody : ∀ c, applyBody s.coord.index c body = .ok (s.coord.index.put (fin c)))
    (hleaf : ∀ c, leafOf (fin c) = leafOf e ∧ (fin c).request.rid = e.request.rid) :
    Good (commitStep s body e fin mk).1 := by
  obtain ⟨hd, ho, hl, hp⟩ := hg.2 hr
  have htx := applyTx_stepTx s body e (fin s.store.commits.length) (hbody _) (hleaf _).1 (hleaf _).2
  have hobs : observe (s.store.commits ++ [stepTx s body e]) =
      .ok (s.coord.index.put (fin s.store.commits.length)) := by
    unfold observe
    rw [observeFrom_snoc _ _ _ _ ho, htx]
  rcases commitStep_cases s body e fin mk with ⟨_, hc, hdirty, _, hcoord, _⟩ | ⟨_, hcoord, _, hf⟩
  · refine ⟨⟨_, by rw [hc]; exact hobs⟩, fun _ => ?_⟩
    rw [hc, hdirty, hcoord]
    refine ⟨hd, ?_, ?_, ?_⟩
    · simp only
      rw [apply_plan_eq_put _ (hleaf _).1 (hleaf _).2]
      exact hobs
    · simp [hl]
    · simp [lastCommit_snoc, stepTx]
  · refine ⟨?_, fun hready => ?_⟩
    · rcases hf with ⟨_, hc, _⟩ | ⟨_, hc, _⟩ | ⟨_, hc, _⟩
      · exact ⟨_, by rw [hc]; exact ho⟩
      · exact ⟨_, by rw [hc]; exact ho⟩
      · exact ⟨_, by rw [hc]; exact hobs⟩
    · rw [hcoord] at hready
      simp at hready

theorem validate_toCandidate {r : Request} {c : Claim} {k : Candidate}
    (h : validateCandidate r c k = .ok ()) :
    validateCandidate r c (Settlement.ofCandidate k).toCandidate = .ok () := by
  have hk : (Settlement.ofCandidate k).toCandidate = k := by
    have hd : k.digestOk = true := by
      unfold validateCandidate at h
      repeat (split at h; · cases h)
      rename_i hd
      simpa using hd
    cases k
    simp_all [Settlement.ofCandidate, Settlement.toCandidate]
  rw [hk]; exact h

theorem recordRequest_good (s : Sys) (r : Request) (hg : Good s) : Good (recordRequest s r).1 := by
  unfold recordRequest
  split
  · exact hg
  · rename_i hready
    split
    · exact hg
    · rename_i hnone
      simp only
      split
      · exact hg
      · rename_i hval
        apply commitStep_good _ _ _ _ _ hg (by simpa using hready)
        · intro c
          simp only [applyBody, hval]
          simp at hnone
          simp [hnone]
        · intro c
          exact ⟨rfl, rfl⟩

theorem claimAction_good (s : Sys) (tok : Request) (a : Auth) (b o l : Nat) (hg : Good s) :
    Good (claimAction s tok a b o l).1 := by
  unfold claimAction
  split
  · exact hg
  · rename_i hready
    split
    · exact hg
    · split
      · exact hg
      · rename_i rec hget
        split
        · exact hg
        · rename_i hreq
          split
          · exact hg
          · rename_i hnc
            split
            · exact hg
            · split
              · exact hg
              · rename_i hauth
                split
                · exact hg
                · split
                  · exact hg
                  · rename_i hord
                    split
                    · exact hg
                    · rename_i hlease
                      simp only
                      have hreq' : rec.request = tok := by simpa using hreq
                      apply commitStep_good _ _ _ _ _ hg (by simpa using hready)
                      · intro c
                        have hpol : ¬ a.policy = 0 := by
                          intro hp; exact hauth (Or.inr (Or.inr hp))
                        have hget' : s.coord.index.get (Claim.forRequest tok a.adapter o l a.policy).rid = some rec := by
                          simpa [Claim.forRequest] using hget
                        simp only [applyBody, hget']
                        simp only [hnc, Bool.false_eq_true, if_false]
                        have hv : validateClaim rec.request (Claim.forRequest tok a.adapter o l a.policy) = .ok () := by
                          unfold validateClaim
                          rw [hreq']
                          simp only [Claim.forRequest, ne_eq, not_true_eq_false, if_false]
                          simp only [ge_iff_le] at hord
                          simp [hord, hlease, hpol]
                        simp only [hv]
                      · intro c
                        exact ⟨rfl, rfl⟩

theorem admitSettlement_good (s : Sys) (gr : Request) (gc : Claim) (gcm : Nat) (k : Candidate)
    (hg : Good s) : Good (admitSettlement s gr gc gcm k).1 := by
  unfold admitSettlement
  split
  · exact hg
  · rename_i hready
    split
    · exact hg
    · rename_i rec hget
      split
      · exact hg
      · rename_i rc hrc
        split
        · exact hg
        · rename_i hmatch
          split
          · exact hg
          · rename_i hns
            split
            · exact hg
            · rename_i hval
              simp only
              have hm : rec.request = gr ∧ rc = gc ∧ rec.claimCommit = some gcm := by
                simp only [not_or, ne_eq, Decidable.not_not] at hmatch
                exact hmatch
              have hw : WFI s.coord.index := by
                obtain ⟨_, ho, _, _⟩ := hg.2 (by simpa using hready)
                exact (observeFrom_spec _ _ _ ho wfi_empty).1
              have hkrid : k.rid = gr.rid := by
                unfold validateCandidate at hval
                split at hval
                · cases hval
                · rename_i h
                  simp only [not_or, ne_eq, Decidable.not_not] at h
                  exact h.1
              apply commitStep_good _ _ _ _ _ hg (by simpa using hready)
              · intro c
                have hget' : s.coord.index.get (Settlement.ofCandidate k).rid = some rec := by
                  simpa [Settlement.ofCandidate, hkrid] using hget
                simp only [applyBody, hget', hrc]
                have hv := validate_toCandidate hval
                rw [← hm.1, ← hm.2.1] at hv
                simp only [hv]
                have hnone : rec.settlement = none := by
                  cases hs : rec.settlement with
                  | none => rfl
                  | some x => simp [hs] at hns
                simp only [hnone]
              · intro c
                exact ⟨rfl, rfl⟩

theorem step_good (s : Sys) (op : Op) (hg : Good s) : Good (step s op).1 := by
  cases op with
  | request r => exact recordRequest_good s r hg
  | claim tok a b o l => exact claimAction_good s tok a b o l hg
  | settle gr gc gcm k => exact admitSettlement_good s gr gc gcm k hg
  | retry k => exact hg
  | recordedRequest rid => exact hg
  | claimGrant rid => exact hg
  | admittedSettlement rid => exact hg
  | recover =>
    simp only [step]
    cases hrec : recover s.store with
    | error e => exact hg
    | ok c =>
      simp only
      unfold recover at hrec
      split at hrec
      · cases hrec
      · rename_i hd
        cases hobs : observe s.store.commits with
        | error e => simp [hobs] at hrec
        | ok i =>
          simp only [hobs] at hrec
          cases hrec
          exact ⟨⟨i, hobs⟩, fun _ => ⟨by simpa using hd, hobs, rfl, rfl⟩⟩
  | trunc =>
    simp only [step]
    refine ⟨hg.1, fun hr => ?_⟩
    obtain ⟨_, ho, hl, hp⟩ := hg.2 hr
    exact ⟨rfl, ho, hl, hp⟩
  | fault k =>
    simp only [step]
    exact ⟨hg.1, fun hr => hg.2 hr⟩

theorem run_good : ∀ (ops : List Op) (s : Sys), Good s → Good (run s ops).1
  | [], s, h => h
  | op :: ops, s, h => by
    simp only [run]
    exact run_good ops _ (step_good s op h)

theorem good_wfi {s : Sys} (hg : Good s) : ∀ i, observe s.store.commits = .ok i → WFI i :=
  fun i h => (observeFrom_spec _ _ _ h wfi_empty).1

/-! ### the shape of each transition: rejected with the state untouched, or a `commitStep` -/

def entry0 (r : Request) : Entry :=
  { request := r, reqCommit := 0, claim := none, claimCommit := none, settlement := none,
    setCommit := none, posture := .requested }

theorem recordRequest_shape (s : Sys) (r : Request) :
    (∃ err, recordRequest s r = (s, .err err)) ∨
    (s.coord.ready = true ∧ s.coord.index.get r.rid = none ∧ r.validateIdentity = .ok () ∧
      recordRequest s r = commitStep s (.request r) (entry0 r)
        (fun c => { entry0 r with reqCommit := c }) (fun c => .recorded r c)) := by
  unfold recordRequest
  split
  · exact Or.inl ⟨_, rfl⟩
  · rename_i hready
    split
    · exact Or.inl ⟨_, rfl⟩
    · rename_i hnone
      simp only
      split
      · exact Or.inl ⟨_, rfl⟩
      · rename_i hval
        right
        refine ⟨by simpa using hready, by simpa using hnone, hval, rfl⟩

theorem claimAction_shape (s : Sys) (tok : Request) (a : Auth) (b o l : Nat) :
    (∃ err, claimAction s tok a b o l = (s, .err err)) ∨
    (∃ rec, s.coord.ready = true ∧ s.coord.index.get tok.rid = some rec ∧ rec.request = tok ∧
      rec.claim = none ∧ tok.validateIdentity = .ok () ∧ a.operation = tok.operation ∧
      a.scope = tok.scope ∧ a.rid = tok.rid ∧ a.basis = tok.basis ∧ a.policy ≠ 0 ∧ b = tok.basis ∧
      o < tok.maxAttempts ∧ l ≠ 0 ∧
      claimAction s tok a b o l =
        commitStep s (.claim (Claim.forRequest tok a.adapter o l a.policy))
          { rec with claim := some (Claim.forRequest tok a.adapter o l a.policy), claimCommit := none,
                     posture := .claimed }
          (fun c => { rec with claim := some (Claim.forRequest tok a.adapter o l a.policy),
                               claimCommit := some c, posture := .claimed })
          (fun c => .grant tok (Claim.forRequest tok a.adapter o l a.policy) c)) := by
  unfold claimAction
  split
  · exact Or.inl ⟨_, rfl⟩
  · rename_i hready
    split
    · exact Or.inl ⟨_, rfl⟩
    · rename_i hval
      split
      · exact Or.inl ⟨_, rfl⟩
      · rename_i rec hget
        split
        · exact Or.inl ⟨_, rfl⟩
        · rename_i hreq
          split
          · exact Or.inl ⟨_, rfl⟩
          · rename_i hnc
            split
            · exact Or.inl ⟨_, rfl⟩
            · rename_i hop
              split
              · exact Or.inl ⟨_, rfl⟩
              · rename_i hauth
                split
                · exact Or.inl ⟨_, rfl⟩
                · rename_i hbasis
                  split
                  · exact Or.inl ⟨_, rfl⟩
                  · rename_i hord
                    split
                    · exact Or.inl ⟨_, rfl⟩
                    · rename_i hlease
                      right
                      simp only [not_or, ne_eq, Decidable.not_not] at hop hauth hreq hbasis
                      have hcn : rec.claim = none := by
                        cases hc : rec.claim with
                        | none => rfl
                        | some x => simp [hc] at hnc
                      exact ⟨rec, by simpa using hready, hget, hreq, hcn, hval, hop.1, hop.2, hauth.1,
                        hauth.2.1, hauth.2.2, hbasis, by omega, hlease, rfl⟩

theorem admitSettlement_shape (s : Sys) (gr : Request) (gc : Claim) (gcm : Nat) (k : Candidate) :
    (∃ err, admitSettlement s gr gc gcm k = (s, .err err)) ∨
    (∃ rec, s.coord.ready = true ∧ s.coord.index.get gr.rid = some rec ∧ rec.request = gr ∧
      rec.claim = some gc ∧ rec.claimCommit = some gcm ∧ rec.settlement = none ∧
      validateCandidate gr gc k = .ok () ∧
      admitSettlement s gr gc gcm k =
        commitStep s (.settlement (Settlement.ofCandidate k))
          { rec with posture := .settled k.kind, settlement := some (Settlement.ofCandidate k),
                     setCommit := none }
          (fun c => { rec with posture := .settled k.kind,
                               settlement := some (Settlement.ofCandidate k), setCommit := some c })
          (fun c => .admitted (Settlement.ofCandidate k) c)) := by
  unfold admitSettlement
  split
  · exact Or.inl ⟨_, rfl⟩
  · rename_i hready
    split
    · exact Or.inl ⟨_, rfl⟩
    · rename_i rec hget
      split
      · exact Or.inl ⟨_, rfl⟩
      · rename_i rc hrc
        split
        · exact Or.inl ⟨_, rfl⟩
        · rename_i hmatch
          split
          · exact Or.inl ⟨_, rfl⟩
          · rename_i hns
            split
            · exact Or.inl ⟨_, rfl⟩
            · rename_i hval
              right
              simp only [not_or, ne_eq, Decidable.not_not] at hmatch
              have hnone : rec.settlement = none := by
                cases hs : rec.settlement with
                | none => rfl
                | some x => simp [hs] at hns
              exact ⟨rec, by simpa using hready, hget, hmatch.1, by rw [hrc, hmatch.2.1], hmatch.2.2,
                hnone, hval, rfl⟩

/-- outcome of a `commitStep`, as seen from outside -/
theorem commitStep_out (s : Sys) (body : TxBody) (e : Entry) (fin : Nat → Entry) (mk : Nat → Out) :
    ((commitStep s body e fin mk).2 = mk s.store.commits.length ∧
      (commitStep s body e fin mk).1.store.commits = s.store.commits ++ [stepTx s body e] ∧
      (commitStep s body e fin mk).1.coord.index =
        s.coord.index.apply (fin s.store.commits.length) (s.coord.index.plan e)) ∨
    ((commitStep s body e fin mk).2 = .err .walStore ∧
      (commitStep s body e fin mk).1.coord.index = s.coord.index ∧
      (commitStep s body e fin mk).1.coord.ready = false ∧
      ((commitStep s body e fin mk).1.store.commits = s.store.commits ∨
       (commitStep s body e fin mk).1.store.commits = s.store.commits ++ [stepTx s body e])) := by
  rcases commitStep_cases s body e fin mk with ⟨h1, h2, _, _, h5, _⟩ | ⟨h1, h2, _, h4⟩
  · left
    refine ⟨h1, h2, ?_⟩
    rw [h5]
  · right
    refine ⟨h1, by rw [h2], by rw [h2], ?_⟩
    rcases h4 with ⟨_, h, _⟩ | ⟨_, h, _⟩ | ⟨_, h, _⟩
    · exact Or.inl h
    · exact Or.inl h
    · exact Or.inr h

/-! ### counting claim transactions and claim grants -/

theorem kindsFor_append (rid : Nat) (l1 l2 : List Tx) :
    kindsFor rid (l1 ++ l2) = kindsFor rid l1 ++ kindsFor rid l2 := by
  simp [kindsFor, List.filter_append]

def claimTxs (rid : Nat) (log : List Tx) : Nat := (kindsFor rid log).count Kind.claim

theorem claimTxs_append (rid : Nat) (l1 l2 : List Tx) :
    claimTxs rid (l1 ++ l2) = claimTxs rid l1 + claimTxs rid l2 := by
  simp [claimTxs, kindsFor_append, List.count_append]

/-- a claim grant freshly issued by `claim_external_action` for request `rid` -/
def isFreshClaim (rid : Nat) : Op × Out → Bool
  | (.claim _ _ _ _ _, .grant r _ _) => r.rid == rid
  | _ => false

theorem claimTxs_commitStep (rid : Nat) (s : Sys) (body : TxBody) (e : Entry) (fin : Nat → Entry)
    (mk : Nat → Out) : claimTxs rid s.store.commits ≤ claimTxs rid (commitStep s body e fin mk).1.store.commits := by
  rcases commitStep_out s body e fin mk with ⟨_, h, _⟩ | ⟨_, _, _, h | h⟩
  · rw [h, claimTxs_append]; omega
  · rw [h]; exact Nat.le_refl _
  · rw [h, claimTxs_append]; omega

theorem step_claimTxs (rid : Nat) (s : Sys) (op : Op) :
    claimTxs rid s.store.commits + (isFreshClaim rid (op, (step s op).2)).toNat
      ≤ claimTxs rid (step s op).1.store.commits := by
  cases op with
  | request r =>
    show claimTxs rid s.store.commits + 0 ≤ claimTxs rid (recordRequest s r).1.store.commits
    rcases recordRequest_shape s r with ⟨err, h⟩ | ⟨_, _, _, h⟩
    · rw [h]; exact Nat.le_refl _
    · rw [h]; exact claimTxs_commitStep ..
  | claim tok a b o l =>
    show claimTxs rid s.store.commits +
        (isFreshClaim rid (.claim tok a b o l, (claimAction s tok a b o l).2)).toNat
      ≤ claimTxs rid (claimAction s tok a b o l).1.store.commits
    rcases claimAction_shape s tok a b o l with ⟨err, h⟩ | ⟨rec, _, _, _, _, _, _, _, _, _, _, _, _, _, h⟩
    · rw [h]; simp [isFreshClaim]
    · rw [h]
      rcases commitStep_out s (.claim (Claim.forRequest tok a.adapter o l a.policy))
        { rec with claim := some (Claim.forRequest tok a.adapter o l a.policy), claimCommit := none,
                   posture := .claimed }
        (fun c => { rec with claim := some (Claim.forRequest tok a.adapter o l a.policy),
                             claimCommit := some c, posture := .claimed })
        (fun c => .grant tok (Claim.forRequest tok a.adapter o l a.policy) c) with ⟨h1, h2, _⟩ | ⟨h1, _, _, h2⟩
      · rw [h1, h2, claimTxs_append]
        simp only [isFreshClaim]
        by_cases hrid : tok.rid = rid
        · simp [claimTxs, kindsFor, stepTx, bodyRid, bodyKind, Claim.forRequest, hrid]
        · have : (tok.rid == rid) = false := by simpa using hrid
          simp [this]
      · rw [h1]
        simp only [isFreshClaim, Bool.toNat_false, Nat.add_zero]
        rcases h2 with h2 | h2
        · rw [h2]; exact Nat.le_refl _
        · rw [h2, claimTxs_append]; omega
  | settle gr gc gcm k =>
    show claimTxs rid s.store.commits + 0 ≤ claimTxs rid (admitSettlement s gr gc gcm k).1.store.commits
    rcases admitSettlement_shape s gr gc gcm k with ⟨err, h⟩ | ⟨rec, _, _, _, _, _, _, _, h⟩
    · rw [h]; exact Nat.le_refl _
    · rw [h]; exact claimTxs_commitStep ..
  | retry k => simp [step, isFreshClaim]
  | recordedRequest r => simp [step, isFreshClaim]
  | claimGrant r => simp [step, isFreshClaim]
  | admittedSettlement r => simp [step, isFreshClaim]
  | recover =>
    show claimTxs rid s.store.commits + 0 ≤ _
    simp only [step]
    cases recover s.store <;> exact Nat.le_refl _
  | trunc => simp [step, isFreshClaim]
  | fault k => simp [step, isFreshClaim]

theorem run_claimTxs (rid : Nat) : ∀ (ops : List Op) (s : Sys),
    claimTxs rid s.store.commits + ((run s ops).2.filter (isFreshClaim rid)).length
      ≤ claimTxs rid (run s ops).1.store.commits
  | [], s => by simp [run]
  | op :: ops, s => by
    have h1 := step_claimTxs rid s op
    have h2 := run_claimTxs rid ops (step s op).1
    simp only [run]
    cases hf : isFreshClaim rid (op, (step s op).2) with
    | true =>
      simp only [hf, Bool.toNat_true] at h1
      simp only [List.filter_cons, hf, if_true, List.length_cons]
      omega
    | false =>
      simp only [hf, Bool.toNat_false] at h1
      simp only [List.filter_cons, hf, Bool.false_eq_true, if_false]
      omega

theorem claimTxs_le_one {l : List Kind} (h : l <+: [Kind.request, Kind.claim, Kind.settlement]) :
    l.count Kind.claim ≤ 1 := by
  have := h.sublist.count_le Kind.claim
  simpa using this

/-! ### settlement validation, spelled out -/

theorem validateCandidate_ok_iff (r : Request) (c : Claim) (k : Candidate) :
    validateCandidate r c k = .ok () ↔
      (k.rid = r.rid ∧ k.attempt = c.attempt ∧ k.adapter = c.adapter ∧ k.basis = r.basis ∧
       k.schema = r.setSchema ∧ k.schemaEv ≠ 0 ∧ k.extEv ≠ 0 ∧ k.bytes.length ≤ r.maxBytes ∧
       k.digestOk = true) := by
  unfold validateCandidate
  constructor
  · intro h
    split at h
    · cases h
    · rename_i h1
      split at h
      · cases h
      · rename_i h2
        split at h
        · cases h
        · rename_i h3
          split at h
          · cases h
          · rename_i h4
            split at h
            · cases h
            · rename_i h5
              split at h
              · cases h
              · rename_i h6
                simp only [not_or, ne_eq, Decidable.not_not] at h1 h2
                refine ⟨h1.1, h1.2.1, h1.2.2.1, h1.2.2.2, h2, h3, h4, by omega, by simpa using h6⟩
  · rintro ⟨a1, a2, a3, a4, a5, a6, a7, a8, a9⟩
    have : ¬ k.bytes.length > r.maxBytes := by omega
    simp [a1, a2, a3, a4, a5, a6, a7, this, a9]

/-! ### a transition interrupted by a store fault is all-or-nothing after recovery -/

/-- the same system with another armed store fault -/
def withFault (s : Sys) (k : Nat) : Sys := { s with store := { s.store with fault := k } }

theorem recover_congr {st st' : Store} (hd : st.dirty = st'.dirty) (hc : st.commits = st'.commits) :
    recover st = recover st' := by
  unfold recover
  rw [hd, hc]

theorem commitStep_crash_atomic (s : Sys) (body : TxBody) (e : Entry) (fin : Nat → Entry)
    (mk : Nat → Out) (hg : Good s) (hr : s.coord.ready = true)
    (hbody : ∀ c, applyBody s.coord.index c body = .ok (s.coord.index.put (fin c)))
    (hleaf : ∀ c, leafOf (fin c) = leafOf e ∧ (fin c).request.rid = e.request.rid) :
    (∀ k, k = 1 ∨ k = 2 →
      recover { (commitStep (withFault s k) body e fin mk).1.store with dirty := false } = .ok s.coord) ∧
    recover (commitStep (withFault s 3) body e fin mk).1.store
      = .ok (commitStep (withFault s 0) body e fin mk).1.coord := by
  obtain ⟨hd, ho, hl, hp⟩ := hg.2 hr
  refine ⟨?_, ?_⟩
  · intro k hk
    have hsame : (commitStep (withFault s k) body e fin mk).1.store.commits = s.store.commits := by
      rcases commitStep_cases (withFault s k) body e fin mk with ⟨_, _, _, _, _, n1, n2, _⟩ | ⟨_, _, _, hf⟩
      · rcases hk with hk | hk
        · exact absurd hk n1
        · exact absurd hk n2
      · rcases hf with ⟨_, h, _⟩ | ⟨_, h, _⟩ | ⟨h3, _, _⟩
        · exact h
        · exact h
        · rcases hk with hk | hk <;> (simp only [withFault] at h3; omega)
    have := recover_congr (st := { (commitStep (withFault s k) body e fin mk).1.store with dirty := false })
      (st' := s.store) (by simp [hd]) hsame
    rw [this]
    exact synced_recover hg.2 hr
  · have htx := applyTx_stepTx s body e (fin s.store.commits.length) (hbody _) (hleaf _).1 (hleaf _).2
    have hobs : observe (s.store.commits ++ [stepTx s body e]) =
        .ok (s.coord.index.put (fin s.store.commits.length)) := by
      unfold observe
      rw [observeFrom_snoc _ _ _ _ ho, htx]
    rcases commitStep_cases (withFault s 0) body e fin mk with ⟨_, _, _, _, hcoord, _⟩ | ⟨_, _, _, hf⟩
    · rcases commitStep_cases (withFault s 3) body e fin mk with ⟨_, _, _, _, _, _, _, n3⟩ | ⟨_, _, _, hf3⟩
      · exact absurd rfl n3
      · rcases hf3 with ⟨h1, _⟩ | ⟨h2, _⟩ | ⟨_, hc, hdirty⟩
        · simp [withFault] at h1
        · simp [withFault] at h2
        · rw [hcoord]
          have hc' : (commitStep (withFault s 3) body e fin mk).1.store.commits =
              s.store.commits ++ [stepTx s body e] := hc
          have hd' : (commitStep (withFault s 3) body e fin mk).1.store.dirty = false := by
            rw [hdirty]; exact hd
          unfold recover
          rw [hd', hc', hobs]
          simp only [Bool.false_eq_true, if_false, withFault]
          rw [apply_plan_eq_put _ (hleaf _).1 (hleaf _).2]
          simp [lastCommit_snoc, stepTx, hl]
    · rcases hf with ⟨h1, _⟩ | ⟨h2, _⟩ | ⟨h3, _⟩
      · simp [withFault] at h1
      · simp [withFault] at h2
      · simp [withFault] at h3

end ExtAct
end EchoVerif
