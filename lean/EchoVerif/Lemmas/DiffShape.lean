import EchoVerif.Lemmas.SortOps
set_option linter.unusedSimpArgs false
set_option linter.unusedVariables false
namespace EchoVerif
namespace Graph
open SMap

/-- Well-formed state: sorted maps everywhere, attachments only on existing owners. -/
structure WF (s : WState) : Prop where
  sorted : s.SortedAll
  instSorted : Sorted s.instances
  natt_sub : ∀ w i, nattAt s w i ≠ none → nodeAt s w i ≠ none
  eatt_sub : ∀ w i, eattAt s w i ≠ none → edgeAt s w i ≠ none

/-- Same instance table and same set of stores (so the diff contains only skeleton ops). -/
def SameShape (a b : WState) : Prop :=
  a.instances = b.instances ∧ ∀ w, (a.store? w).isSome = (b.store? w).isSome

theorem portalOps_nil {a b : WState} (hb : Sorted b.instances) (h : a.instances = b.instances) :
    portalOps a b = [] := by
  unfold portalOps
  rw [List.filterMap_eq_nil_iff]
  intro ⟨w, inst⟩ hm
  have := mem_find? hb hm
  simp only [h, this]

/-- The raw (unsorted) op list of `diff_state` when the shape is unchanged. -/
def perOps (a b : WState) : List Op :=
  b.stores.flatMap (fun (w, stA) =>
    let stB := match SMap.find? w a.stores with | some s => s | none => Store.empty
    diffInstance w stB stA [] [])

theorem diffState_kind_sorted (a b : WState) :
    (diffState a b).Pairwise (fun x y => x.kind ≤ y.kind) := by
  unfold diffState; exact sortOps_kind_sorted _

theorem mem_diffState_sameShape {a b : WState} (hb : Sorted b.instances) (h : SameShape a b) (o : Op) :
    o ∈ diffState a b ↔ o ∈ perOps a b := by
  unfold diffState
  rw [portalOps_nil hb h.1]
  simp only [List.map_nil, List.nil_append, mem_sortOps, List.mem_append, perOps]
  constructor
  · rintro ((hd | hu) | hp)
    · exfalso
      simp only [List.mem_filterMap, Prod.exists] at hd
      obtain ⟨w, inst, hm, hd⟩ := hd
      rw [h.1] at hm
      simp only [mem_find? hb hm] at hd
      cases hd
    · exfalso
      simp only [List.mem_filterMap, Prod.exists] at hu
      obtain ⟨w, inst, hm, hu⟩ := hu
      simp only [h.1, mem_find? hb hm, if_true] at hu
      cases hu
    · exact hp
  · intro hp; exact Or.inr hp

theorem mem_perOps {a b : WState} (hbs : Sorted b.stores) {o : Op} :
    o ∈ perOps a b ↔ ∃ w stA, find? w b.stores = some stA ∧
      o ∈ diffInstance w (match SMap.find? w a.stores with | some s => s | none => Store.empty) stA [] [] := by
  simp only [perOps, List.mem_flatMap, Prod.exists]
  constructor
  · rintro ⟨w, stA, hm, ho⟩; exact ⟨w, stA, mem_find? hbs hm, ho⟩
  · rintro ⟨w, stA, hf, ho⟩; exact ⟨w, stA, find?_mem hf, ho⟩

end Graph
end EchoVerif
