/-
  Structural edits (`Edit.apply`) never invent elements, keep all but at most one, and commute with `map`;
  `sortBy` is a permutation; the reader's view (`framesOf` / `commitsOf`) of an edited record list.
-/
import EchoVerif.Lemmas.WalTiling
set_option linter.unusedSimpArgs false
set_option linter.unusedVariables false

namespace EchoVerif.Wal

theorem mem_insertAt {α : Type} (x y : α) : ∀ (j : Nat) (xs : List α), y ∈ insertAt x j xs ↔ y = x ∨ y ∈ xs := by
  intro j xs
  induction xs generalizing j with
  | nil => cases j <;> simp [insertAt]
  | cons z zs ih =>
    cases j with
    | zero => simp [insertAt]
    | succ j =>
      simp only [insertAt, List.mem_cons, ih]
      constructor
      · rintro (h | h | h)
        · exact Or.inr (Or.inl h)
        · exact Or.inl h
        · exact Or.inr (Or.inr h)
      · rintro (h | h | h)
        · exact Or.inr (Or.inl h)
        · exact Or.inl h
        · exact Or.inr (Or.inr h)

theorem mem_of_mem_eraseIdx' {α : Type} (y : α) : ∀ (i : Nat) (xs : List α), y ∈ xs.eraseIdx i → y ∈ xs := by
  intro i xs
  induction xs generalizing i with
  | nil => simp
  | cons z zs ih =>
    cases i with
    | zero => simp only [List.eraseIdx_cons_zero, List.mem_cons]; exact Or.inr
    | succ i =>
      simp only [List.eraseIdx_cons_succ, List.mem_cons]
      rintro (h | h)
      · exact Or.inl h
      · exact Or.inr (ih i h)

theorem eraseIdx_keeps_one {α : Type} {x y : α} (hxy : x ≠ y) :
    ∀ (i : Nat) (xs : List α), x ∈ xs → y ∈ xs → x ∈ xs.eraseIdx i ∨ y ∈ xs.eraseIdx i := by
  intro i xs
  induction xs generalizing i with
  | nil => simp
  | cons z zs ih =>
    intro hx hy
    simp only [List.mem_cons] at hx hy
    cases i with
    | zero =>
      simp only [List.eraseIdx_cons_zero]
      rcases hx with rfl | hx
      · rcases hy with rfl | hy
        · exact absurd rfl hxy
        · exact Or.inr hy
      · exact Or.inl hx
    | succ i =>
      simp only [List.eraseIdx_cons_succ, List.mem_cons]
      rcases hx with rfl | hx
      · exact Or.inl (Or.inl rfl)
      · rcases hy with rfl | hy
        · exact Or.inr (Or.inl rfl)
        · rcases ih i hx hy with h | h
          · exact Or.inl (Or.inr h)
          · exact Or.inr (Or.inr h)

theorem mem_eraseIdx_or_get {α : Type} (y : α) :
    ∀ (i : Nat) (xs : List α), y ∈ xs → y ∈ xs.eraseIdx i ∨ xs[i]? = some y := by
  intro i xs
  induction xs generalizing i with
  | nil => simp
  | cons z zs ih =>
    intro hy
    simp only [List.mem_cons] at hy
    cases i with
    | zero =>
      rcases hy with rfl | hy
      · exact Or.inr (by simp)
      · exact Or.inl (by simpa using hy)
    | succ i =>
      simp only [List.eraseIdx_cons_succ, List.mem_cons, List.getElem?_cons_succ]
      rcases hy with rfl | hy
      · exact Or.inl (Or.inl rfl)
      · rcases ih i hy with h | h
        · exact Or.inl (Or.inr h)
        · exact Or.inr h

theorem split_two {α : Type} {a b : α} : ∀ (i : Nat) (xs : List α), xs[i]? = some a → xs[i + 1]? = some b →
    xs = xs.take i ++ a :: b :: xs.drop (i + 2) := by
  intro i xs
  induction xs generalizing i with
  | nil => simp
  | cons z zs ih =>
    intro ha hb
    cases i with
    | zero =>
      cases zs with
      | nil => simp at hb
      | cons w ws =>
        simp at ha hb
        subst ha; subst hb
        simp
    | succ i =>
      simp only [List.getElem?_cons_succ] at ha hb
      have := ih i ha hb
      simp only [List.take_succ_cons, List.drop_succ_cons, List.cons_append]
      rw [← this]

/-- an edit never invents an element -/
theorem Edit.mem_of_mem_apply {α : Type} (e : Edit) (xs : List α) (y : α) : y ∈ e.apply xs → y ∈ xs := by
  cases e with
  | del i => exact mem_of_mem_eraseIdx' y i xs
  | dup i j =>
    simp only [Edit.apply]
    cases h : xs[i]? with
    | none => exact id
    | some x =>
      simp only [mem_insertAt]
      rintro (rfl | hy)
      · exact List.mem_of_getElem? h
      · exact hy
  | move i j =>
    simp only [Edit.apply]
    cases h : xs[i]? with
    | none => exact id
    | some x =>
      simp only [mem_insertAt]
      rintro (rfl | hy)
      · exact List.mem_of_getElem? h
      · exact mem_of_mem_eraseIdx' y i xs hy
  | swap i =>
    simp only [Edit.apply]
    cases ha : xs[i]? with
    | none => exact id
    | some a =>
      cases hb : xs[i + 1]? with
      | none => exact id
      | some b =>
        intro hy
        rw [split_two i xs ha hb]
        simp only [List.mem_append, List.mem_cons] at hy ⊢
        rcases hy with h | h | h | h
        · exact Or.inl h
        · exact Or.inr (Or.inr (Or.inl h))
        · exact Or.inr (Or.inl h)
        · exact Or.inr (Or.inr (Or.inr h))

/-- a single edit removes at most one element: of two different elements at least one survives -/
theorem Edit.keeps_one {α : Type} (e : Edit) (xs : List α) {x y : α} (hxy : x ≠ y) (hx : x ∈ xs) (hy : y ∈ xs) :
    x ∈ e.apply xs ∨ y ∈ e.apply xs := by
  cases e with
  | del i => exact eraseIdx_keeps_one hxy i xs hx hy
  | dup i j =>
    simp only [Edit.apply]
    cases h : xs[i]? with
    | none => exact Or.inl hx
    | some z => exact Or.inl ((mem_insertAt z x j xs).mpr (Or.inr hx))
  | move i j =>
    simp only [Edit.apply]
    cases h : xs[i]? with
    | none => exact Or.inl hx
    | some z =>
      left
      rw [mem_insertAt]
      rcases mem_eraseIdx_or_get x i xs hx with h1 | h1
      · exact Or.inr h1
      · rw [h] at h1; simp only [Option.some.injEq] at h1; exact Or.inl h1.symm
  | swap i =>
    simp only [Edit.apply]
    cases ha : xs[i]? with
    | none => exact Or.inl hx
    | some a =>
      cases hb : xs[i + 1]? with
      | none => exact Or.inl hx
      | some b =>
        left
        rw [split_two i xs ha hb] at hx
        simp only [List.mem_append, List.mem_cons] at hx ⊢
        rcases hx with h | h | h | h
        · exact Or.inl h
        · exact Or.inr (Or.inr (Or.inl h))
        · exact Or.inr (Or.inl h)
        · exact Or.inr (Or.inr (Or.inr h))

/-! ### `sortBy` is a permutation (membership) -/

theorem mem_insSorted {α : Type} (key : α → Nat) (x y : α) (xs : List α) :
    y ∈ insSorted key x xs ↔ y = x ∨ y ∈ xs := by
  induction xs with
  | nil => simp [insSorted]
  | cons z zs ih =>
    simp only [insSorted]
    split
    · simp
    · simp only [List.mem_cons, ih]
      constructor
      · rintro (h | h | h)
        · exact Or.inr (Or.inl h)
        · exact Or.inl h
        · exact Or.inr (Or.inr h)
      · rintro (h | h | h)
        · exact Or.inr (Or.inl h)
        · exact Or.inl h
        · exact Or.inr (Or.inr h)

theorem mem_sortBy {α : Type} (key : α → Nat) (y : α) (xs : List α) : y ∈ sortBy key xs ↔ y ∈ xs := by
  induction xs with
  | nil => simp [sortBy]
  | cons z zs ih => simp [sortBy, mem_insSorted, ih]

/-! ### the reader's view of a record list -/

theorem mem_framesOf {f : Frame} {rs : List Rec} : f ∈ framesOf rs ↔ Rec.frame f ∈ rs := by
  induction rs with
  | nil => simp [framesOf]
  | cons r rs ih => cases r <;> simp [framesOf, ih]

theorem mem_commitsOf {c : Commit} {rs : List Rec} : c ∈ commitsOf rs ↔ Rec.commit c ∈ rs := by
  induction rs with
  | nil => simp [commitsOf]
  | cons r rs ih => cases r <;> simp [commitsOf, ih]

/-- the records of a log in file order, as the reader returns them -/
def logRecs (ts : List Tx) : List Rec := ts.flatMap recsT

theorem framesOf_logRecs (ts : List Tx) : framesOf (logRecs ts) = framesOfTxs ts := by
  have := framesOf_log ts []
  simpa [logRecs] using this

theorem commitsOf_logRecs (ts : List Tx) : commitsOf (logRecs ts) = ts.map (fun t => t.commit) := by
  have := commitsOf_log ts []
  simpa [logRecs] using this

end EchoVerif.Wal
