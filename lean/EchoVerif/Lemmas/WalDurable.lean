/-
  Lemmas for the durability theorems of C10 over the CURRENT recovery loop:
    * `recover_filesystem_store` on every byte cut of a well-formed log;
    * the truncation rewrite keeps exactly the recovered transactions, and what it writes recovers to the
      same transactions with a Clean tail (idempotence);
    * monotonicity facts about `encLog` used to relate "synced before the crash" to "recovered".
-/
import EchoVerif.Lemmas.WalTiling
import EchoVerif.Model.WalDurable
set_option linter.unusedSimpArgs false
set_option linter.unusedVariables false

namespace EchoVerif.Wal

/-- every transaction of a log ends before the log's next LSN -/
theorem LogAt.lastLsn_lt {cfg : Cfg} {H : HashFn} {b : Nat} {ts : List Tx} (h : LogAt cfg H b ts) :
    ∀ t ∈ ts, t.commit.lastLsn + 1 ≤ b + (framesOfTxs ts).length := by
  induction ts generalizing b with
  | nil => simp
  | cons t ts ih =>
    obtain ⟨hv, hfirst, hrest⟩ := h
    obtain ⟨hnz, _, hlast⟩ := validateTx_inv hv
    have hpos : 0 < t.frames.length := List.length_pos_iff.mpr hnz
    intro t' ht'
    simp only [framesOfTxs, List.flatMap_cons, List.length_append]
    simp only [List.mem_cons] at ht'
    rcases ht' with rfl | ht'
    · omega
    · have := ih hrest t' ht'
      simp only [framesOfTxs] at this
      omega

/-- `read_filesystem_segments` sorts the commit markers by `last_lsn`: a no-op on a well-formed log -/
theorem sortBy_commits_log {cfg : Cfg} {H : HashFn} {b : Nat} {ts : List Tx} (h : LogAt cfg H b ts) :
    sortBy (fun c : Commit => c.lastLsn) (ts.map (fun t => t.commit)) = ts.map (fun t => t.commit) := by
  induction ts generalizing b with
  | nil => rfl
  | cons t ts ih =>
    obtain ⟨hv, hfirst, hrest⟩ := h
    simp only [List.map_cons, sortBy]
    rw [ih hrest]
    cases ts with
    | nil => rfl
    | cons u us =>
      obtain ⟨hv2, hfirst2, _⟩ := hrest
      obtain ⟨hnz, _, hlast⟩ := validateTx_inv hv
      obtain ⟨hnz2, _, hlast2⟩ := validateTx_inv hv2
      have hpos : 0 < t.frames.length := List.length_pos_iff.mpr hnz
      have hpos2 : 0 < u.frames.length := List.length_pos_iff.mpr hnz2
      have hle : t.commit.lastLsn ≤ u.commit.lastLsn := by omega
      simp [insSorted, hle]

/-- `recover_filesystem_store` on the records "all of `ts`, then `extra` uncovered frames" -/
theorem recoverFilesystemT_recs {cfg : Cfg} {H : HashFn} {base : Nat} (mode : Mode) (ts : List Tx)
    (extra : List Frame) (torn : Bool) (bs : Bytes) (recs : List Rec)
    (hlog : LogAt cfg H base ts) (hchain : Chain cfg H base (framesOfTxs ts ++ extra))
    (hscan : scan cfg H (decodeRec cfg H) bs = .ok (recs, torn))
    (hf : framesOf recs = framesOfTxs ts ++ extra) (hcm : commitsOf recs = ts.map (fun t => t.commit)) :
    recoverFilesystemT cfg H bs mode
      = .ok (applyTorn mode torn { txs := recoveredOf ts,
                                   tail := if extra = [] then .clean else tailOf mode (lastLsnOf ts) }) := by
  simp only [recoverFilesystemT, hscan, hf, hcm, sortBy_chain hchain, sortBy_commits_log hlog,
    recoverFCT_prefix mode ts extra hlog hchain]

/-- `recover_filesystem_store` on EVERY byte cut of a well-formed log (current loop) -/
theorem recoverFilesystemT_cut (cfg : Cfg) (H : HashFn) (h32 : Hash32 H) (base : Nat) (mode : Mode)
    (ts : List Tx) (hlog : LogAt cfg H base ts) (hc : Codec cfg H ts)
    (m : Nat) (hm : m ≤ (encLog cfg H ts).length) :
    ∃ k extra torn, k ≤ ts.length
      ∧ (encLog cfg H (ts.take k)).length ≤ m
      ∧ (k < ts.length → m < (encLog cfg H (ts.take (k + 1))).length)
      ∧ scan cfg H (decodeRec cfg H) ((encLog cfg H ts).take m)
          = .ok ((ts.take k).flatMap recsT ++ extra.map Rec.frame, torn)
      ∧ Chain cfg H base (framesOfTxs (ts.take k) ++ extra)
      ∧ recoverFilesystemT cfg H ((encLog cfg H ts).take m) mode
          = .ok { txs := recoveredOf (ts.take k),
                  tail := if m = (encLog cfg H (ts.take k)).length then .clean
                          else tailOf mode (lastLsnOf (ts.take k)) } := by
  obtain ⟨k, extra, torn, hk, ⟨i, hex⟩, hscan, hle, hnext, hiff⟩ := scan_log_prefix cfg H h32 ts hc m hm
  have hchain : Chain cfg H base (framesOfTxs (ts.take k) ++ extra) := by
    rw [hex]; exact hlog.chain_next k i
  refine ⟨k, extra, torn, hk, hle, hnext, hscan, hchain, ?_⟩
  rw [recoverFilesystemT_recs mode (ts.take k) extra torn _ _ (hlog.take k) hchain hscan
    (framesOf_log _ _) (commitsOf_log _ _)]
  congr 1
  simp only [applyTorn]
  by_cases hb : m = (encLog cfg H (ts.take k)).length
  · obtain ⟨he, ht⟩ := hiff.mpr hb
    simp [he, ht, hb]
  · rw [if_neg hb]
    by_cases he : extra = []
    · have ht : torn = true := by
        cases torn with
        | true => rfl
        | false => exact absurd (hiff.mp ⟨he, rfl⟩) hb
      simp [he, ht, lastCommittedLsn_log (hlog.take k)]
    · have hne : tailOf mode (lastLsnOf (ts.take k)) ≠ Tail.clean := by
        cases mode <;> cases lastLsnOf (ts.take k) <;> simp [tailOf]
      simp [he, hne]

/-! ### the truncation rewrite -/

/-- the rewrite keeps exactly the frames of the committed transactions -/
theorem keptFrames_log {cfg : Cfg} {H : HashFn} {b : Nat} {ts : List Tx} {extra : List Frame}
    (hlog : LogAt cfg H b ts) (hne : ts ≠ []) (hchain : Chain cfg H b (framesOfTxs ts ++ extra))
    (recs : List Rec) (hf : framesOf recs = framesOfTxs ts ++ extra) (l : Nat) (hl : lastLsnOf ts = some l) :
    keptFrames recs l = framesOfTxs ts := by
  obtain ⟨hlast, hpos⟩ := hlog.lastLsn hne
  rw [hl] at hlast
  have hl' : l = b + (framesOfTxs ts).length - 1 := by simpa using hlast
  have hc2 := Chain.append.mp hchain
  simp only [keptFrames, hf, sortBy_chain hchain, List.filter_append]
  have h1 : (framesOfTxs ts).filter (fun f => decide (f.header.lsn ≤ l)) = framesOfTxs ts := by
    rw [List.filter_eq_self]
    intro f hfm
    have := hc2.1.lsn_range f hfm
    simp only [decide_eq_true_eq]; omega
  have h2 : extra.filter (fun f => decide (f.header.lsn ≤ l)) = [] := by
    rw [List.filter_eq_nil_iff]
    intro f hfm
    have := hc2.2.lsn_range f hfm
    simp only [decide_eq_true_eq]; omega
  rw [h1, h2, List.append_nil]

/-- … and every commit marker of the committed transactions -/
theorem keptCommits_log {cfg : Cfg} {H : HashFn} {b : Nat} {ts : List Tx}
    (hlog : LogAt cfg H b ts) (hne : ts ≠ [])
    (recs : List Rec) (hcm : commitsOf recs = ts.map (fun t => t.commit)) (l : Nat) (hl : lastLsnOf ts = some l) :
    keptCommits recs l = ts.map (fun t => t.commit) := by
  obtain ⟨hlast, hpos⟩ := hlog.lastLsn hne
  rw [hl] at hlast
  have hl' : l = b + (framesOfTxs ts).length - 1 := by simpa using hlast
  simp only [keptCommits, hcm, sortBy_commits_log hlog]
  rw [List.filter_eq_self]
  intro c hcmem
  simp only [List.mem_map] at hcmem
  obtain ⟨t, ht, rfl⟩ := hcmem
  have := hlog.lastLsn_lt t ht
  simp only [decide_eq_true_eq]; omega

/-- the rewritten segment (all kept frames, then all kept markers) reads back completely, untorn -/
theorem scan_encodeRecords (cfg : Cfg) (H : HashFn) (h32 : Hash32 H) (ts : List Tx) (hc : Codec cfg H ts) :
    scan cfg H (decodeRec cfg H) (encodeRecords cfg H (framesOfTxs ts) (ts.map (fun t => t.commit)))
      = .ok ((framesOfTxs ts).map Rec.frame ++ (ts.map (fun t => t.commit)).map Rec.commit, false) := by
  have henc : encodeRecords cfg H (framesOfTxs ts) (ts.map (fun t => t.commit))
      = encRecs cfg H ((framesOfTxs ts).map (frameD cfg) ++ (ts.map (fun t => t.commit)).map (commitD cfg)) ++ [] := by
    simp [encodeRecords, encRecs, List.flatMap_append, List.flatMap_map, DRec.enc, frameD, commitD]
  have hfr : ∀ f ∈ framesOfTxs ts, decodeFrame cfg H (encodeFrame f) = .ok f ∧ (encodeFrame f).length < 2 ^ 64 := by
    intro f hf
    simp only [framesOfTxs, List.mem_flatMap] at hf
    obtain ⟨t, ht, hft⟩ := hf
    exact hc.frame t ht f hft
  rw [henc, scan_encRecs_append cfg H h32 (decodeRec cfg H) (valOf cfg H)]
  · rw [scan_nil]
    simp only [List.append_nil, List.map_append, List.map_map]
    congr 2
    · congr 1
      · apply List.map_congr_left
        intro f hf
        have := decodeRec_frameD (H := H) hc.ftag (hfr f hf).1
        simp [valOf, this]
      · apply List.map_congr_left
        intro t ht
        have := decodeRec_commitD (H := H) hc.ctag hc.distinct (hc.commit t ht).1
        simp [valOf, this]
  · intro r hr
    simp only [List.mem_append, List.mem_map] at hr
    rcases hr with ⟨f, hf, rfl⟩ | ⟨c, ⟨t, ht, rfl⟩, rfl⟩
    · exact (hfr f hf).2
    · exact (hc.commit t ht).2
  · intro r hr
    simp only [List.mem_append, List.mem_map] at hr
    rcases hr with ⟨f, hf, rfl⟩ | ⟨c, ⟨t, ht, rfl⟩, rfl⟩
    · have := decodeRec_frameD (H := H) hc.ftag (hfr f hf).1
      simp [valOf, this]
    · have := decodeRec_commitD (H := H) hc.ctag hc.distinct (hc.commit t ht).1
      simp [valOf, this]

theorem commitsOf_map_commit (cs : List Commit) : commitsOf (cs.map Rec.commit) = cs := by
  induction cs with
  | nil => rfl
  | cons c cs ih => simp [commitsOf, ih]

theorem framesOf_map_commit (cs : List Commit) : framesOf (cs.map Rec.commit) = [] := by
  induction cs with
  | nil => rfl
  | cons c cs ih => simp [framesOf, ih]

/-- what the rewrite wrote recovers — in either mode — to exactly the same transactions, tail Clean -/
theorem recoverFilesystemT_rewritten (cfg : Cfg) (H : HashFn) (h32 : Hash32 H) (base : Nat) (mode : Mode)
    (ts : List Tx) (hlog : LogAt cfg H base ts) (hc : Codec cfg H ts) :
    recoverFilesystemT cfg H (encodeRecords cfg H (framesOfTxs ts) (ts.map (fun t => t.commit))) mode
      = .ok { txs := recoveredOf ts, tail := .clean } := by
  have hchain : Chain cfg H base (framesOfTxs ts ++ []) := by simpa using hlog.chain
  rw [recoverFilesystemT_recs mode ts [] false _ _ hlog hchain (scan_encodeRecords cfg H h32 ts hc)
    (by rw [framesOf_append, framesOf_map_frame, framesOf_map_commit])
    (by rw [commitsOf_append, commitsOf_map_frame, commitsOf_map_commit, List.nil_append])]
  simp [applyTorn]

theorem Codec.take {cfg : Cfg} {H : HashFn} {ts : List Tx} (h : Codec cfg H ts) (k : Nat) :
    Codec cfg H (ts.take k) :=
  ⟨h.ftag, h.ctag, h.distinct, fun t ht => h.frame t (List.mem_of_mem_take ht),
    fun t ht => h.commit t (List.mem_of_mem_take ht)⟩

/-! ### `encLog` is monotone in the number of transactions -/

theorem encLog_append (cfg : Cfg) (H : HashFn) (a b : List Tx) :
    encLog cfg H (a ++ b) = encLog cfg H a ++ encLog cfg H b := by
  simp [encLog]

theorem encLog_take_mono (cfg : Cfg) (H : HashFn) (ts : List Tx) {j k : Nat} (h : j ≤ k) :
    (encLog cfg H (ts.take j)).length ≤ (encLog cfg H (ts.take k)).length := by
  have h1 : (ts.take k).take j = ts.take j := by rw [List.take_take, Nat.min_eq_left h]
  have : ts.take k = ts.take j ++ (ts.take k).drop j := by rw [← h1, List.take_append_drop]
  rw [this, encLog_append, List.length_append]
  omega

end EchoVerif.Wal
