/-
  The writer side: transactions produced by the model of `WalTransactionBuilder` pass
  `validate_transaction_frames`, so logs built by the writer satisfy `LogAt`.
-/
import EchoVerif.Lemmas.WalRecover
set_option linter.unusedSimpArgs false
set_option linter.unusedVariables false

namespace EchoVerif.Wal

theorem mkFrame_valid (cfg : Cfg) (H : HashFn) (p : BuildParams) (txId : Bytes) (lsn idx : Nat) (k : Kind)
    (bytes prev : Bytes) : validateIntegrity cfg H (mkFrame cfg H p txId lsn idx k bytes prev) = .ok () := by
  simp [validateIntegrity, mkFrame, Frame.payloadDigest, FrameHeader.computeChecksum,
    Frame.computeChecksum, FrameHeader.checksumInput]

theorem mkFrame_fields (cfg : Cfg) (H : HashFn) (p : BuildParams) (txId : Bytes) (lsn idx : Nat) (k : Kind)
    (bytes prev : Bytes) :
    (mkFrame cfg H p txId lsn idx k bytes prev).header.txId = txId
    ∧ (mkFrame cfg H p txId lsn idx k bytes prev).header.writerEpoch = p.writerEpoch
    ∧ (mkFrame cfg H p txId lsn idx k bytes prev).header.localIndex = idx
    ∧ (mkFrame cfg H p txId lsn idx k bytes prev).header.lsn = lsn
    ∧ (mkFrame cfg H p txId lsn idx k bytes prev).header.segmentId = p.segmentId := by
  simp [mkFrame]

theorem mkFrames_length (cfg : Cfg) (H : HashFn) (p : BuildParams) (txId : Bytes) (lsn idx : Nat)
    (prev : Bytes) (recs : List (Kind × Bytes)) :
    (mkFrames cfg H p txId lsn idx prev recs).length = recs.length := by
  induction recs generalizing lsn idx prev with
  | nil => rfl
  | cons r rs ih => obtain ⟨k, b⟩ := r; simp [mkFrames, ih]

theorem mkFrames_check (cfg : Cfg) (H : HashFn) (p : BuildParams) (c : Commit) (i : Nat) (prev : Bytes)
    (recs : List (Kind × Bytes)) (hep : c.writerEpoch = p.writerEpoch)
    (hb : c.firstLsn + i + recs.length ≤ u64Max + 1) (hi : i + recs.length ≤ u32Max + 1) :
    checkTxFrames cfg H c i (mkFrames cfg H p c.txId (c.firstLsn + i) i prev recs) = .ok () := by
  induction recs generalizing i prev with
  | nil => rfl
  | cons r rs ih =>
    obtain ⟨k, b⟩ := r
    simp only [List.length_cons] at hb hi
    obtain ⟨h1, h2, h3, h4, _⟩ := mkFrame_fields cfg H p c.txId (c.firstLsn + i) i k b prev
    simp only [mkFrames, checkTxFrames, mkFrame_valid, h1, h2, h3, h4, hep]
    rw [if_neg (by simp), if_neg (by simp), if_neg (by simp [u32Max] at hi ⊢; omega), if_neg (by omega), if_neg (by simp)]
    have := ih (i + 1) ((mkFrame cfg H p c.txId (c.firstLsn + i) i k b prev).digest cfg H) (by omega) (by omega)
    rwa [← Nat.add_assoc] at this

theorem mkFrames_head_last (cfg : Cfg) (H : HashFn) (p : BuildParams) (txId : Bytes) (lsn idx : Nat)
    (prev : Bytes) (recs : List (Kind × Bytes)) (hne : recs ≠ []) :
    (∃ f, (mkFrames cfg H p txId lsn idx prev recs).head? = some f ∧ f.header.lsn = lsn)
    ∧ (∃ l, (mkFrames cfg H p txId lsn idx prev recs).getLast? = some l ∧ l.header.lsn = lsn + recs.length - 1) := by
  induction recs generalizing lsn idx prev with
  | nil => exact absurd rfl hne
  | cons r rs ih =>
    obtain ⟨k, b⟩ := r
    refine ⟨⟨_, by simp [mkFrames], (mkFrame_fields cfg H p txId lsn idx k b prev).2.2.2.1⟩, ?_⟩
    cases rs with
    | nil =>
      exact ⟨mkFrame cfg H p txId lsn idx k b prev, by simp [mkFrames], by simp [mkFrame]⟩
    | cons r2 rs2 =>
      obtain ⟨_, l, hl, hlsn⟩ := ih (lsn + 1) (idx + 1) ((mkFrame cfg H p txId lsn idx k b prev).digest cfg H) (by simp)
      refine ⟨l, ?_, ?_⟩
      · obtain ⟨k2, b2⟩ := r2
        simp only [mkFrames] at hl ⊢
        rw [List.getLast?_cons_cons]; exact hl
      · simp only [List.length_cons] at hlsn ⊢; omega

/-- a transaction produced by `WalTransactionBuilder::commit` validates against its own frames -/
theorem mkTx_valid (cfg : Cfg) (H : HashFn) (p : BuildParams) (txId : Bytes) (txKind firstLsn : Nat)
    (prevFrame prevCommit : Bytes) (recs : List (Kind × Bytes)) (fr : Bytes) (hne : recs ≠ [])
    (hb : firstLsn + recs.length ≤ u64Max + 1) (hi : recs.length ≤ u32Max + 1) :
    validateTx cfg H (mkTx cfg H p txId txKind firstLsn prevFrame prevCommit recs fr).frames
      (mkTx cfg H p txId txKind firstLsn prevFrame prevCommit recs fr).commit = .ok () := by
  obtain ⟨⟨f, hf, hfl⟩, ⟨l, hl, hll⟩⟩ := mkFrames_head_last cfg H p txId firstLsn 0 prevFrame recs hne
  have hchk := mkFrames_check cfg H p
    (mkTx cfg H p txId txKind firstLsn prevFrame prevCommit recs fr).commit 0 prevFrame recs
    (by simp [mkTx]) (by simpa [mkTx] using hb) (by simpa using hi)
  simp only [mkTx, Nat.add_zero] at hchk
  simp only [validateTx, mkTx, hf, hl, hfl, hll, mkFrames_length]
  simp only [hchk]
  simp [Commit.computeDigest]

theorem mkTx_frames_length (cfg : Cfg) (H : HashFn) (p : BuildParams) (txId : Bytes) (txKind firstLsn : Nat)
    (prevFrame prevCommit : Bytes) (recs : List (Kind × Bytes)) (fr : Bytes) :
    (mkTx cfg H p txId txKind firstLsn prevFrame prevCommit recs fr).frames.length = recs.length := by
  simp [mkTx, mkFrames_length]

end EchoVerif.Wal
