/-
  Helper lemmas for C17: the sparse Merkle index. Incremental path update over stored sibling
  digests (`Trie.update`) = root recomputed from the entry list (`build`), for every depth and
  every digest algebra `(E, N)`.
-/
import EchoVerif.Model.ExtAct

set_option linter.unusedSimpArgs false
set_option linter.unusedVariables false

namespace EchoVerif
namespace ExtAct
open Trie

variable {D : Type} (E : Nat → D) (N : Nat → D → D → D)

/-- the stored digest of every node is the rebuilt root of the entries below its prefix. -/
def Inv : Nat → Nat → Trie D → List (List Bool × D) → Prop
  | d, 0, t, es => dig E d t = build E N d 0 es
  | d, rem + 1, t, es =>
    dig E d t = build E N d (rem + 1) es ∧
    Inv (d + 1) rem t.left (sub false es) ∧ Inv (d + 1) rem t.right (sub true es)

theorem inv_dig {d rem : Nat} {t : Trie D} {es : List (List Bool × D)} (h : Inv E N d rem t es) :
    dig E d t = build E N d rem es := by
  cases rem with
  | zero => exact h
  | succ n => exact h.1

theorem dig_node (d : Nat) (x : D) (l r : Trie D) : dig E d (node x l r) = x := rfl

theorem sub_nil (b : Bool) : sub b ([] : List (List Bool × D)) = [] := rfl

theorem inv_nil : ∀ (rem d : Nat), Inv E N d rem (Trie.nil : Trie D) []
  | 0, d => by simp [Inv, dig, build]
  | rem + 1, d => by
    refine ⟨by simp [dig, build], ?_, ?_⟩
    · simpa [Trie.left, sub_nil] using inv_nil rem (d + 1)
    · simpa [Trie.right, sub_nil] using inv_nil rem (d + 1)

theorem sub_cons_same (b : Bool) (ks : List Bool) (v : D) (es : List (List Bool × D)) :
    sub b ((b :: ks, v) :: es) = (ks, v) :: sub b es := by
  simp [sub, List.filterMap_cons]

theorem sub_cons_other (b b' : Bool) (hb : b' ≠ b) (ks : List Bool) (v : D)
    (es : List (List Bool × D)) : sub b ((b' :: ks, v) :: es) = sub b es := by
  simp [sub, List.filterMap_cons, hb]

/-- one `plan_entry`/`apply_mutation` keeps the invariant for the entry list with the new entry in
    front (first entry for a key wins = last write wins). -/
theorem inv_update (leaf : D) : ∀ (rem d : Nat) (k : List Bool) (t : Trie D)
    (es : List (List Bool × D)), k.length = rem → Inv E N d rem t es →
    Inv E N d rem (update E N leaf d k t) ((k, leaf) :: es)
  | 0, d, k, t, es, hk, _ => by
    have : k = [] := List.length_eq_zero_iff.mp hk
    subst this
    simp [Inv, update, dig, build]
  | rem + 1, d, k, t, es, hk, h => by
    match k, hk with
    | b :: bs, hk =>
      have hbs : bs.length = rem := by simpa using hk
      obtain ⟨_, hl, hr⟩ := h
      cases b with
      | true =>
        have ih := inv_update leaf rem (d + 1) bs t.right (sub true es) hbs hr
        simp only [update, if_true]
        refine ⟨?_, ?_, ?_⟩
        · rw [dig_node]
          simp only [build]
          rw [sub_cons_other false true (by decide), sub_cons_same, inv_dig E N hl, inv_dig E N ih]
        · simp only [Trie.left]
          rw [sub_cons_other false true (by decide)]
          exact hl
        · simp only [Trie.right]
          rw [sub_cons_same]
          exact ih
      | false =>
        have ih := inv_update leaf rem (d + 1) bs t.left (sub false es) hbs hl
        simp only [update, Bool.false_eq_true, if_false]
        refine ⟨?_, ?_, ?_⟩
        · rw [dig_node]
          simp only [build]
          rw [sub_cons_other true false (by decide), sub_cons_same, inv_dig E N hr, inv_dig E N ih]
        · simp only [Trie.left]
          rw [sub_cons_same]
          exact ih
        · simp only [Trie.right]
          rw [sub_cons_other true false (by decide)]
          exact hr

/-- a history of path updates, oldest first. -/
def applyUps (t : Trie D) (ups : List (List Bool × D)) : Trie D :=
  ups.foldl (fun t kv => update E N kv.2 0 kv.1 t) t

theorem inv_applyUps (n : Nat) : ∀ (ups : List (List Bool × D)) (t : Trie D)
    (es : List (List Bool × D)), (∀ kv ∈ ups, kv.1.length = n) → Inv E N 0 n t es →
    Inv E N 0 n (applyUps E N t ups) (ups.reverse ++ es)
  | [], t, es, _, h => by simpa [applyUps] using h
  | kv :: rest, t, es, hl, h => by
    have h1 := inv_update E N kv.2 n 0 kv.1 t es (hl kv (by simp)) h
    have h2 := inv_applyUps n rest _ _ (fun x hx => hl x (by simp [hx])) h1
    simpa [applyUps, List.reverse_cons, List.append_assoc] using h2

/-! ### the rebuilt root depends only on the first-match lookup function of the entry list -/

theorem lookup_sub (b : Bool) (k : List Bool) : ∀ es : List (List Bool × D),
    lookup k (sub b es) = lookup (b :: k) es
  | [] => rfl
  | (key, v) :: rest => by
    cases key with
    | nil =>
      have : sub b (([], v) :: rest) = sub b rest := by simp [sub, List.filterMap_cons]
      rw [this, lookup_sub b k rest]
      simp [lookup]
    | cons b' ks =>
      by_cases hb : b' = b
      · subst hb
        rw [sub_cons_same]
        simp only [lookup, List.cons.injEq, true_and]
        split
        · rfl
        · exact lookup_sub b' k rest
      · rw [sub_cons_other b b' hb]
        simp only [lookup, List.cons.injEq, hb, false_and, if_false]
        exact lookup_sub b k rest

theorem sub_len (b : Bool) (rem : Nat) (es : List (List Bool × D))
    (h : ∀ kv ∈ es, kv.1.length = rem + 1) : ∀ kv ∈ sub b es, kv.1.length = rem := by
  intro kv hkv
  simp only [sub, List.mem_filterMap] at hkv
  obtain ⟨x, hx, hm⟩ := hkv
  have hlen := h x hx
  match hxk : x.1, hm with
  | [], hm => simp [hxk] at hm
  | b' :: ks, hm =>
    simp only [hxk] at hm
    split at hm
    · cases hm
      rw [hxk] at hlen
      simpa using hlen
    · cases hm

theorem build_congr : ∀ (rem d : Nat) (es es' : List (List Bool × D)),
    (∀ kv ∈ es, kv.1.length = rem) → (∀ kv ∈ es', kv.1.length = rem) →
    (∀ k, lookup k es = lookup k es') → build E N d rem es = build E N d rem es'
  | 0, d, es, es', h, h', hl => by
    cases es with
    | nil =>
      cases es' with
      | nil => rfl
      | cons kv' r' =>
        have := hl kv'.1
        simp [lookup] at this
    | cons kv r =>
      cases es' with
      | nil =>
        have := hl kv.1
        simp [lookup] at this
      | cons kv' r' =>
        have e1 : kv.1 = [] := List.length_eq_zero_iff.mp (h kv (by simp))
        have e2 : kv'.1 = [] := List.length_eq_zero_iff.mp (h' kv' (by simp))
        have := hl []
        simp only [lookup, e1, e2, if_true, Option.some.injEq] at this
        simpa [build] using this
  | rem + 1, d, es, es', h, h', hl => by
    have ih := fun b => build_congr rem (d + 1) (sub b es) (sub b es') (sub_len b rem es h)
      (sub_len b rem es' h') (fun k => by rw [lookup_sub, lookup_sub]; exact hl (b :: k))
    cases es with
    | nil =>
      cases es' with
      | nil => rfl
      | cons kv' r' =>
        have := hl kv'.1
        simp [lookup] at this
    | cons kv r =>
      cases es' with
      | nil =>
        have := hl kv.1
        simp [lookup] at this
      | cons kv' r' =>
        simp only [build]
        rw [ih false, ih true]

end ExtAct
end EchoVerif
