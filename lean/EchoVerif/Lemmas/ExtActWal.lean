/-
  Helper lemmas for C17: composition of the coordinator model with the byte-level WAL model of
  C10/C11 (`Model/Wal.lean`). The committed transactions of a history, written by the model WAL
  writer (`buildLog`, one frame record + one commit marker each) and cut at ANY byte, recover to a
  log prefix; that prefix is the complete log of an earlier point of the same run, and the
  coordinator recovered from it is the uninterrupted run's coordinator at that point.
-/
import EchoVerif.Lemmas.ExtActCrash
import EchoVerif.Lemmas.WalBuilt
import EchoVerif.Lemmas.WalRecover

set_option linter.unusedSimpArgs false
set_option linter.unusedVariables false

namespace EchoVerif
namespace ExtAct

theorem buildLog_take (cfg : Wal.Cfg) (H : Wal.HashFn) (p : Wal.BuildParams) (chain : Bool) :
    ∀ (specs : List Wal.TxSpec) (lsn : Nat) (pf pc : Bytes) (k : Nat),
    (Wal.buildLog cfg H p chain lsn pf pc specs).take k =
      Wal.buildLog cfg H p chain lsn pf pc (specs.take k)
  | [], _, _, _, k => by simp [Wal.buildLog]
  | s :: ss, lsn, pf, pc, 0 => by simp [Wal.buildLog]
  | s :: ss, lsn, pf, pc, k + 1 => by
    simp only [Wal.buildLog, List.take_succ_cons]
    rw [buildLog_take cfg H p chain ss]

theorem buildLog_length (cfg : Wal.Cfg) (H : Wal.HashFn) (p : Wal.BuildParams) (chain : Bool) :
    ∀ (specs : List Wal.TxSpec) (lsn : Nat) (pf pc : Bytes),
    (Wal.buildLog cfg H p chain lsn pf pc specs).length = specs.length
  | [], _, _, _ => by simp [Wal.buildLog]
  | s :: ss, lsn, pf, pc => by
    simp only [Wal.buildLog, List.length_cons]
    rw [buildLog_length cfg H p chain ss]

/-- the conclusion of C10's `recover_prefix_built` for one written segment `ts`, as a property of
    a byte-level recovery function `R` (cut at EVERY byte: exactly the completely written
    transactions, exact tail posture). -/
def PrefixRecovery {ε δ : Type} (cfg : Wal.Cfg) (H : Wal.HashFn) (mode : Wal.Mode)
    (R : Bytes → Except ε (δ × Wal.Report)) (ts : List Wal.Tx) : Prop :=
  ∀ m, m ≤ (Wal.encLog cfg H ts).length →
    ∃ k d, k ≤ ts.length
      ∧ (Wal.encLog cfg H (ts.take k)).length ≤ m
      ∧ (k < ts.length → m < (Wal.encLog cfg H (ts.take (k + 1))).length)
      ∧ R ((Wal.encLog cfg H ts).take m)
          = .ok (d, { txs := Wal.recoveredOf (ts.take k),
                      tail := if m = (Wal.encLog cfg H (ts.take k)).length then .clean
                              else Wal.tailOf mode (Wal.lastLsnOf (ts.take k)) })

/-- the coordinator `recover` rebuilds from a clean store holding exactly `log` -/
def recoveredFrom (log : List Tx) : Except Err Coord :=
  recover { commits := log, dirty := false, fault := 0 }

theorem crash_any_byte_cut {ε δ : Type} (ops : List Op) (enc : Tx → Wal.TxSpec)
    (cfg : Wal.Cfg) (H : Wal.HashFn) (p : Wal.BuildParams) (chain : Bool) (lsn : Nat) (pf pc : Bytes)
    (mode : Wal.Mode) (R : Bytes → Except ε (δ × Wal.Report))
    (hR : PrefixRecovery cfg H mode R
      (Wal.buildLog cfg H p chain lsn pf pc ((run genesis ops).1.store.commits.map enc)))
    (m : Nat)
    (hm : m ≤ (Wal.encLog cfg H
      (Wal.buildLog cfg H p chain lsn pf pc ((run genesis ops).1.store.commits.map enc))).length) :
    ∃ k d j c, k ≤ (run genesis ops).1.store.commits.length ∧ j ≤ ops.length ∧
      -- byte level (C10): exactly the WAL transactions of the first k commits, exact tail posture
      R ((Wal.encLog cfg H (Wal.buildLog cfg H p chain lsn pf pc
            ((run genesis ops).1.store.commits.map enc))).take m)
        = .ok (d, { txs := Wal.recoveredOf (Wal.buildLog cfg H p chain lsn pf pc
                      (((run genesis ops).1.store.commits.take k).map enc)),
                    tail := if m = (Wal.encLog cfg H (Wal.buildLog cfg H p chain lsn pf pc
                                  (((run genesis ops).1.store.commits.take k).map enc))).length
                            then .clean
                            else Wal.tailOf mode (Wal.lastLsnOf (Wal.buildLog cfg H p chain lsn pf pc
                                  (((run genesis ops).1.store.commits.take k).map enc))) }) ∧
      -- those k commits are the complete log of the run after its first j operations
      (run genesis (ops.take j)).1.store.commits = (run genesis ops).1.store.commits.take k ∧
      -- and the coordinator recovered from them is the uninterrupted run's at that point
      recoveredFrom ((run genesis ops).1.store.commits.take k) = .ok c ∧ c.ready = true ∧
      observe ((run genesis ops).1.store.commits.take k) = .ok c.index ∧
      ((run genesis (ops.take j)).1.coord.ready = true → c = (run genesis (ops.take j)).1.coord) := by
  obtain ⟨k, d, hk, _, _, hrec⟩ := hR m hm
  rw [buildLog_length, List.length_map] at hk
  obtain ⟨j, hj, hlog⟩ := run_reaches_prefix ops genesis k (Nat.zero_le _) hk
  have hg : Good (run genesis (ops.take j)).1 := run_good _ _ good_genesis
  obtain ⟨i, hi⟩ := hg.1
  rw [hlog] at hi
  rw [buildLog_take, ← List.map_take] at hrec
  refine ⟨k, d, j, (⟨i, ((run genesis ops).1.store.commits.take k).length,
    lastCommit ((run genesis ops).1.store.commits.take k), true⟩ : Coord),
    hk, hj, hrec, hlog, ?_, rfl, hi, ?_⟩
  · simp [recoveredFrom, recover, hi]
  · intro hr
    obtain ⟨hd, ho, hl, hp⟩ := hg.2 hr
    rw [hlog] at ho hl hp
    rw [hi] at ho
    cases ho
    cases hc : (run genesis (ops.take j)).1.coord with
    | mk index nextLsn prevCommit ready =>
      simp only [hc] at hl hp hr
      simp [hl, hp, hr]

end ExtAct
end EchoVerif
