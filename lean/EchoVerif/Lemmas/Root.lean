/-
  Lemmas about Model/Root.lean, part 1: the traversal.
  * `Reach` — the inductive reachability relation the BFS is supposed to compute;
  * soundness (`loop_sound`), completeness for a run that ends with an empty queue
    (`closed_of_done`), fuel sufficiency through a potential function (`loop_done`);
  * congruence: two views that agree on the reachable part give the same traversal.
-/
import EchoVerif.Model.Root

set_option linter.unusedSimpArgs false
set_option linter.unusedVariables false

namespace EchoVerif
namespace Root
open Graph

/-! ### the specification of reachability -/

/-- key `k` carries a portal into warp `c` (α slot of the node, or β slot of an out-edge) -/
inductive Portal (V : View) (k : NKey) (c : Nat) : Prop
  | node : V.natt k = some (.descend c) → Portal V k c
  | edge (p : Nat × Option Att) : p ∈ V.out k → p.2 = some (.descend c) → Portal V k c

inductive Step (V : View) (k : NKey) : NKey → Prop
  | edge (p : Nat × Option Att) : p ∈ V.out k → Step V k (k.1, p.1)
  | portal (c r : Nat) : Portal V k c → V.instRoot c = some r → Step V k (c, r)

inductive Reach (V : View) (r : NKey) : NKey → Prop
  | root : Reach V r r
  | step {k k' : NKey} : Reach V r k → Step V k k' → Reach V r k'

/-- warps that end up in `reachable_warps` -/
def ReachW (V : View) (r : NKey) (c : Nat) : Prop :=
  c = r.1 ∨ ∃ k, Reach V r k ∧ Portal V k c

/-! ### `insertW` -/

theorem mem_insertW {w x : Nat} : ∀ {l : List Nat}, x ∈ insertW w l ↔ x = w ∨ x ∈ l
  | [] => by simp [insertW]
  | y :: ys => by
    simp only [insertW]
    split
    · simp
    · split
      · rename_i h1 h2; subst h2; simp
      · simp only [List.mem_cons, mem_insertW (l := ys)]
        constructor
        · rintro (h | h | h)
          · exact Or.inr (Or.inl h)
          · exact Or.inl h
          · exact Or.inr (Or.inr h)
        · rintro (h | h | h)
          · exact Or.inr (Or.inl h)
          · exact Or.inl h
          · exact Or.inr (Or.inr h)

/-! ### extension order on traversal states -/

structure Ext (v v' : Vis) : Prop where
  nodes_mono : ∀ k, k ∈ v.nodes → k ∈ v'.nodes
  queue_mono : ∀ k, k ∈ v.queue → k ∈ v'.queue
  new_queued : ∀ k, k ∈ v'.nodes → k ∈ v.nodes ∨ k ∈ v'.queue
  warps_mono : ∀ c, c ∈ v.warps → c ∈ v'.warps

theorem Ext.refl (v : Vis) : Ext v v :=
  ⟨fun _ h => h, fun _ h => h, fun _ h => Or.inl h, fun _ h => h⟩

theorem Ext.trans {a b c : Vis} (h1 : Ext a b) (h2 : Ext b c) : Ext a c where
  nodes_mono k h := h2.nodes_mono k (h1.nodes_mono k h)
  queue_mono k h := h2.queue_mono k (h1.queue_mono k h)
  new_queued k h := by
    rcases h2.new_queued k h with h | h
    · rcases h1.new_queued k h with h | h
      · exact Or.inl h
      · exact Or.inr (h2.queue_mono k h)
    · exact Or.inr h
  warps_mono k h := h2.warps_mono k (h1.warps_mono k h)

theorem visit_ext (v : Vis) (k : NKey) : Ext v (v.visit k) := by
  unfold Vis.visit
  split
  · exact Ext.refl v
  · refine ⟨fun x h => List.mem_cons_of_mem _ h, fun x h => List.mem_append_left _ h, ?_, fun _ h => h⟩
    intro x hx
    simp only [List.mem_cons] at hx
    rcases hx with hx | hx
    · subst hx; exact Or.inr (by simp)
    · exact Or.inl hx

theorem visit_mem (v : Vis) (k : NKey) : k ∈ (v.visit k).nodes := by
  unfold Vis.visit
  split
  · assumption
  · simp

theorem descend_ext (V : View) (v : Vis) (a : Option Att) : Ext v (descend V v a) := by
  unfold descend
  split
  · rename_i c
    have h1 : Ext v { v with warps := insertW c v.warps } :=
      ⟨fun _ h => h, fun _ h => h, fun _ h => Or.inl h, fun x h => mem_insertW.mpr (Or.inr h)⟩
    split
    · exact h1
    · exact h1.trans (visit_ext _ _)
  · exact Ext.refl v

theorem edgeStep_ext (V : View) (cur : NKey) (v : Vis) (p : Nat × Option Att) :
    Ext v (edgeStep V cur v p) :=
  (visit_ext v _).trans (descend_ext V _ _)

theorem foldl_edgeStep_ext (V : View) (cur : NKey) :
    ∀ (l : List (Nat × Option Att)) (v : Vis), Ext v (l.foldl (edgeStep V cur) v)
  | [], v => Ext.refl v
  | p :: ps, v => by
    simp only [List.foldl_cons]
    exact (edgeStep_ext V cur v p).trans (foldl_edgeStep_ext V cur ps _)

theorem expand_ext (V : View) (v : Vis) (cur : NKey) : Ext v (expand V v cur) :=
  (foldl_edgeStep_ext V cur _ v).trans (descend_ext V _ _)

/-! ### every successor of the expanded key is inserted -/

theorem descend_portal_mem (V : View) (v : Vis) {c r : Nat} (h : V.instRoot c = some r) :
    (c, r) ∈ (descend V v (some (.descend c))).nodes ∧ c ∈ (descend V v (some (.descend c))).warps := by
  simp only [descend, h]
  refine ⟨visit_mem _ _, ?_⟩
  exact (visit_ext _ _).warps_mono c (mem_insertW.mpr (Or.inl rfl))

theorem descend_warp_mem (V : View) (v : Vis) (c : Nat) :
    c ∈ (descend V v (some (.descend c))).warps := by
  simp only [descend]
  split
  · exact mem_insertW.mpr (Or.inl rfl)
  · exact (visit_ext _ _).warps_mono c (mem_insertW.mpr (Or.inl rfl))

theorem foldl_edgeStep_mem (V : View) (cur : NKey) :
    ∀ (l : List (Nat × Option Att)) (v : Vis) (p : Nat × Option Att), p ∈ l →
      (cur.1, p.1) ∈ (l.foldl (edgeStep V cur) v).nodes ∧
      (∀ c, p.2 = some (.descend c) → c ∈ (l.foldl (edgeStep V cur) v).warps ∧
        ∀ r, V.instRoot c = some r → (c, r) ∈ (l.foldl (edgeStep V cur) v).nodes)
  | [], _, _, h => by cases h
  | q :: qs, v, p, h => by
    simp only [List.foldl_cons]
    cases h with
    | head =>
      have hrest := foldl_edgeStep_ext V cur qs (edgeStep V cur v q)
      refine ⟨hrest.nodes_mono _ ?_, ?_⟩
      · exact (descend_ext V _ _).nodes_mono _ (visit_mem v _)
      · intro c hc
        refine ⟨hrest.warps_mono _ ?_, fun r hr => hrest.nodes_mono _ ?_⟩
        · unfold edgeStep; rw [hc]; exact descend_warp_mem V _ c
        · unfold edgeStep; rw [hc]; exact (descend_portal_mem V _ hr).1
    | tail _ h' => exact foldl_edgeStep_mem V cur qs _ p h'

theorem expand_step_mem (V : View) (v : Vis) (cur : NKey) {k' : NKey} (h : Step V cur k') :
    k' ∈ (expand V v cur).nodes := by
  unfold expand
  cases h with
  | edge p hp =>
    exact (descend_ext V _ _).nodes_mono _ (foldl_edgeStep_mem V cur _ v p hp).1
  | portal c r hport hr =>
    cases hport with
    | node hn => rw [hn]; exact (descend_portal_mem V _ hr).1
    | edge p hp hc =>
      exact (descend_ext V _ _).nodes_mono _ (((foldl_edgeStep_mem V cur _ v p hp).2 c hc).2 r hr)

theorem expand_portal_mem (V : View) (v : Vis) (cur : NKey) {c : Nat} (h : Portal V cur c) :
    c ∈ (expand V v cur).warps := by
  unfold expand
  cases h with
  | node hn => rw [hn]; exact descend_warp_mem V _ c
  | edge p hp hc =>
    exact (descend_ext V _ _).warps_mono _ ((foldl_edgeStep_mem V cur _ v p hp).2 c hc).1

/-! ### soundness -/

/-- all inserted keys/warps are reachable, and queued keys have been inserted -/
structure Sound (V : View) (r : NKey) (v : Vis) : Prop where
  nodes : ∀ k, k ∈ v.nodes → Reach V r k
  warps : ∀ c, c ∈ v.warps → ReachW V r c
  queue : ∀ k, k ∈ v.queue → k ∈ v.nodes

theorem visit_sound {V : View} {r : NKey} {v : Vis} (h : Sound V r v) {k : NKey} (hk : Reach V r k) :
    Sound V r (v.visit k) := by
  unfold Vis.visit
  split
  · exact h
  · refine ⟨?_, h.warps, ?_⟩
    · intro x hx
      simp only [List.mem_cons] at hx
      rcases hx with hx | hx
      · subst hx; exact hk
      · exact h.nodes x hx
    · intro x hx
      simp only [List.mem_append, List.mem_singleton] at hx
      rcases hx with hx | hx
      · exact List.mem_cons_of_mem _ (h.queue x hx)
      · subst hx; simp

theorem descend_sound {V : View} {r : NKey} {v : Vis} (h : Sound V r v) {k : NKey} (hk : Reach V r k)
    (a : Option Att) (ha : ∀ c, a = some (.descend c) → Portal V k c) :
    Sound V r (descend V v a) := by
  unfold descend
  split
  · rename_i c
    have hp := ha c rfl
    have h1 : Sound V r { v with warps := insertW c v.warps } := by
      refine ⟨h.nodes, ?_, h.queue⟩
      intro x hx
      rcases mem_insertW.mp hx with hx | hx
      · subst hx; exact Or.inr ⟨k, hk, hp⟩
      · exact h.warps x hx
    split
    · exact h1
    · rename_i rr hr
      exact visit_sound h1 (Reach.step hk (Step.portal c rr hp hr))
  · exact h

theorem foldl_edgeStep_sound {V : View} {r : NKey} {cur : NKey} (hcur : Reach V r cur) :
    ∀ (l : List (Nat × Option Att)) (v : Vis), (∀ p, p ∈ l → p ∈ V.out cur) → Sound V r v →
      Sound V r (l.foldl (edgeStep V cur) v)
  | [], v, _, h => h
  | p :: ps, v, hl, h => by
    simp only [List.foldl_cons]
    apply foldl_edgeStep_sound hcur ps _ (fun q hq => hl q (List.mem_cons_of_mem _ hq))
    unfold edgeStep
    have hp := hl p List.mem_cons_self
    apply descend_sound (visit_sound h (Reach.step hcur (Step.edge p hp))) hcur
    intro c hc
    exact Portal.edge p hp hc

theorem expand_sound {V : View} {r : NKey} {v : Vis} {cur : NKey} (h : Sound V r v)
    (hcur : Reach V r cur) : Sound V r (expand V v cur) := by
  unfold expand
  apply descend_sound (foldl_edgeStep_sound hcur _ v (fun _ hp => hp) h) hcur
  intro c hc
  exact Portal.node hc

theorem loop_sound {V : View} {r : NKey} : ∀ (f : Nat) (v : Vis), Sound V r v → Sound V r (loop V f v)
  | 0, v, h => h
  | f + 1, v, h => by
    unfold loop
    split
    · exact h
    · rename_i cur q hq
      apply loop_sound f
      have hcur : Reach V r cur := h.nodes cur (h.queue cur (by rw [hq]; simp))
      apply expand_sound _ hcur
      exact ⟨h.nodes, h.warps, fun k hk => h.queue k (by rw [hq]; exact List.mem_cons_of_mem _ hk)⟩

theorem init_sound (V : View) (r : NKey) : Sound V r (init r) := by
  refine ⟨?_, ?_, ?_⟩
  · intro k hk; simp only [init, List.mem_singleton] at hk; subst hk; exact Reach.root
  · intro c hc; simp only [init, List.mem_singleton] at hc; exact Or.inl hc
  · intro k hk; simpa [init] using hk

/-! ### completeness (for a run that ends with an empty queue) -/

/-- every inserted key is either still queued or has all its successors/portals inserted -/
structure Closing (V : View) (r : NKey) (v : Vis) : Prop where
  root : r ∈ v.nodes ∧ r.1 ∈ v.warps
  closed : ∀ k, k ∈ v.nodes → k ∈ v.queue ∨
    ((∀ k', Step V k k' → k' ∈ v.nodes) ∧ (∀ c, Portal V k c → c ∈ v.warps))

theorem init_closing (V : View) (r : NKey) : Closing V r (init r) := by
  refine ⟨by simp [init], ?_⟩
  intro k hk
  exact Or.inl (by simpa [init] using hk)

theorem pop_closing {V : View} {r : NKey} {v : Vis} {cur : NKey} {q : List NKey}
    (h : Closing V r v) (hq : v.queue = cur :: q) :
    Closing V r (expand V { v with queue := q } cur) := by
  have hext := expand_ext V { v with queue := q } cur
  refine ⟨⟨hext.nodes_mono _ h.root.1, hext.warps_mono _ h.root.2⟩, ?_⟩
  intro k hk
  rcases hext.new_queued k hk with hold | hnew
  · rcases h.closed k hold with hqk | hcl
    · rw [hq] at hqk
      simp only [List.mem_cons] at hqk
      rcases hqk with hqk | hqk
      · subst hqk
        exact Or.inr ⟨fun k' hs => expand_step_mem V _ k hs, fun c hp => expand_portal_mem V _ k hp⟩
      · exact Or.inl (hext.queue_mono k hqk)
    · exact Or.inr ⟨fun k' hs => hext.nodes_mono _ (hcl.1 k' hs), fun c hp => hext.warps_mono _ (hcl.2 c hp)⟩
  · exact Or.inl hnew

theorem loop_closing {V : View} {r : NKey} : ∀ (f : Nat) (v : Vis), Closing V r v →
    Closing V r (loop V f v)
  | 0, v, h => h
  | f + 1, v, h => by
    unfold loop
    split
    · exact h
    · rename_i cur q hq
      exact loop_closing f _ (pop_closing h hq)

theorem closed_of_done {V : View} {r : NKey} {v : Vis} (h : Closing V r v) (hd : v.queue = []) :
    (∀ k, Reach V r k → k ∈ v.nodes) ∧ (∀ c, ReachW V r c → c ∈ v.warps) := by
  have hn : ∀ k, Reach V r k → k ∈ v.nodes := by
    intro k hk
    induction hk with
    | root => exact h.root.1
    | step _ hs ih =>
      rcases h.closed _ ih with hq | hc
      · rw [hd] at hq; cases hq
      · exact hc.1 _ hs
  refine ⟨hn, ?_⟩
  intro c hc
  rcases hc with hc | ⟨k, hk, hp⟩
  · rw [hc]; exact h.root.2
  · rcases h.closed k (hn k hk) with hq | hcl
    · rw [hd] at hq; cases hq
    · exact hcl.2 c hp

/-! ### fuel: a potential that drops on every pop -/

def unseen (U : List NKey) (nodes : List NKey) : Nat :=
  (U.filter (fun k => decide (k ∉ nodes))).length

def pot (U : List NKey) (v : Vis) : Nat := v.queue.length + unseen U v.nodes

theorem filter_length_le_of_imp {α : Type} (p q : α → Bool) (h : ∀ x, p x = true → q x = true) :
    ∀ (l : List α), (l.filter p).length ≤ (l.filter q).length
  | [] => Nat.le_refl _
  | x :: xs => by
    have ih := filter_length_le_of_imp p q h xs
    simp only [List.filter_cons]
    cases hp : p x with
    | true =>
      rw [h x hp]
      simp only [if_true, List.length_cons]; omega
    | false =>
      cases hq : q x with
      | true => simp only [if_true, Bool.false_eq_true, if_false, List.length_cons]; omega
      | false => simp only [Bool.false_eq_true, if_false]; exact ih

theorem filter_length_lt_of_imp {α : Type} (p q : α → Bool) (h : ∀ x, p x = true → q x = true)
    (k : α) (hq : q k = true) (hp : p k = false) :
    ∀ (l : List α), k ∈ l → (l.filter p).length + 1 ≤ (l.filter q).length
  | [], hk => by cases hk
  | x :: xs, hk => by
    have hle := filter_length_le_of_imp p q h xs
    simp only [List.filter_cons]
    cases hk with
    | head =>
      rw [hq, hp]
      simp only [if_true, Bool.false_eq_true, if_false, List.length_cons]; omega
    | tail _ hk' =>
      have ih := filter_length_lt_of_imp p q h k hq hp xs hk'
      cases hpx : p x with
      | true =>
        rw [h x hpx]
        simp only [if_true, List.length_cons]; omega
      | false =>
        cases hqx : q x with
        | true => simp only [if_true, Bool.false_eq_true, if_false, List.length_cons]; omega
        | false => simp only [Bool.false_eq_true, if_false]; exact ih

theorem unseen_cons_lt (U : List NKey) (nodes : List NKey) (k : NKey) (hk : k ∈ U) (hn : k ∉ nodes) :
    unseen U (k :: nodes) + 1 ≤ unseen U nodes := by
  unfold unseen
  apply filter_length_lt_of_imp _ _ _ k _ _ U hk
  · intro x hx
    simp only [decide_eq_true_eq] at hx ⊢
    exact fun h => hx (List.mem_cons_of_mem _ h)
  · simp [hn]
  · simp

theorem visit_pot (U : List NKey) (v : Vis) (k : NKey) (hk : k ∈ U) : pot U (v.visit k) ≤ pot U v := by
  unfold Vis.visit
  split
  · exact Nat.le_refl _
  · rename_i hn
    have := unseen_cons_lt U v.nodes k hk hn
    simp only [pot, List.length_append, List.length_singleton]
    omega

theorem descend_pot {V : View} (U : Universe V) (v : Vis) (a : Option Att) :
    pot U.keys (descend V v a) ≤ pot U.keys v := by
  unfold descend
  split
  · rename_i c
    split
    · exact Nat.le_refl _
    · rename_i r hr
      exact visit_pot U.keys { v with warps := insertW c v.warps } (c, r) (U.inst_mem c r hr)
  · exact Nat.le_refl _

theorem foldl_edgeStep_pot {V : View} (U : Universe V) (cur : NKey) :
    ∀ (l : List (Nat × Option Att)) (v : Vis), (∀ p, p ∈ l → p ∈ V.out cur) →
      pot U.keys (l.foldl (edgeStep V cur) v) ≤ pot U.keys v
  | [], v, _ => Nat.le_refl _
  | p :: ps, v, hl => by
    simp only [List.foldl_cons]
    have h1 := foldl_edgeStep_pot U cur ps (edgeStep V cur v p) (fun q hq => hl q (List.mem_cons_of_mem _ hq))
    have h2 : pot U.keys (edgeStep V cur v p) ≤ pot U.keys v := by
      unfold edgeStep
      exact Nat.le_trans (descend_pot U _ _) (visit_pot U.keys v _ (U.out_mem cur p (hl p List.mem_cons_self)))
    exact Nat.le_trans h1 h2

theorem expand_pot {V : View} (U : Universe V) (v : Vis) (cur : NKey) :
    pot U.keys (expand V v cur) ≤ pot U.keys v := by
  unfold expand
  exact Nat.le_trans (descend_pot U _ _) (foldl_edgeStep_pot U cur _ v (fun _ h => h))

/-- enough fuel ⇒ the loop stops because the queue is empty -/
theorem loop_done {V : View} (U : Universe V) : ∀ (f : Nat) (v : Vis), pot U.keys v ≤ f →
    (loop V f v).queue = []
  | 0, v, h => by
    unfold loop
    have : v.queue.length = 0 := by unfold pot at h; omega
    exact List.eq_nil_of_length_eq_zero this
  | f + 1, v, h => by
    unfold loop
    split
    · assumption
    · rename_i cur q hq
      apply loop_done U f
      have h1 := expand_pot U { v with queue := q } cur
      have h2 : pot U.keys { v with queue := q } + 1 = pot U.keys v := by
        simp only [pot, hq, List.length_cons]; omega
      omega

theorem init_pot (U : List NKey) (r : NKey) : pot U (init r) ≤ U.length + 1 := by
  have h : unseen U [r] ≤ U.length := List.length_filter_le _ U
  simp only [pot, init, List.length_singleton]
  omega

/-- once the queue is empty more fuel changes nothing -/
theorem loop_stable (V : View) : ∀ (f g : Nat) (v : Vis), (loop V f v).queue = [] → f ≤ g →
    loop V g v = loop V f v
  | 0, g, v, h, _ => by
    simp only [loop] at h
    cases g with
    | zero => rfl
    | succ g => simp only [loop, h]
  | f + 1, g, v, h, hg => by
    cases g with
    | zero => omega
    | succ g =>
      unfold loop at h ⊢
      split
      · rfl
      · rename_i cur q hq
        simp only [hq] at h
        exact loop_stable V f g _ h (by omega)

/-! ### congruence: views that agree on the reachable part -/

theorem foldl_congr_mem {α β : Type} (f g : β → α → β) :
    ∀ (l : List α) (b : β), (∀ b a, a ∈ l → f b a = g b a) → l.foldl f b = l.foldl g b
  | [], _, _ => rfl
  | a :: as, b, h => by
    simp only [List.foldl_cons]
    rw [h b a List.mem_cons_self]
    exact foldl_congr_mem f g as _ (fun b' a' ha => h b' a' (List.mem_cons_of_mem _ ha))

/-- `V'` reads the same as `V` at key `k` (out-edges, α slot, and the instance roots behind its portals) -/
structure AgreeAt (V V' : View) (k : NKey) : Prop where
  out : V'.out k = V.out k
  natt : V'.natt k = V.natt k
  inst : ∀ c, Portal V k c → V'.instRoot c = V.instRoot c

theorem descend_congr {V V' : View} (v : Vis) (a : Option Att)
    (h : ∀ c, a = some (.descend c) → V'.instRoot c = V.instRoot c) :
    descend V' v a = descend V v a := by
  unfold descend
  split
  · rename_i c
    rw [h c rfl]
  · rfl

theorem expand_congr {V V' : View} (v : Vis) (cur : NKey) (h : AgreeAt V V' cur) :
    expand V' v cur = expand V v cur := by
  unfold expand
  rw [h.out, h.natt]
  have hf : (V.out cur).foldl (edgeStep V' cur) v = (V.out cur).foldl (edgeStep V cur) v := by
    apply foldl_congr_mem
    intro b p hp
    unfold edgeStep
    exact descend_congr _ _ (fun c hc => h.inst c (Portal.edge p hp hc))
  rw [hf]
  exact descend_congr _ _ (fun c hc => h.inst c (Portal.node hc))

theorem loop_congr {V V' : View} {r : NKey} (hag : ∀ k, Reach V r k → AgreeAt V V' k) :
    ∀ (f : Nat) (v : Vis), Sound V r v → loop V' f v = loop V f v
  | 0, _, _ => rfl
  | f + 1, v, h => by
    unfold loop
    split
    · rfl
    · rename_i cur q hq
      have hcur : Reach V r cur := h.nodes cur (h.queue cur (by rw [hq]; simp))
      rw [expand_congr _ cur (hag cur hcur)]
      apply loop_congr hag f
      apply expand_sound _ hcur
      exact ⟨h.nodes, h.warps, fun k hk => h.queue k (by rw [hq]; exact List.mem_cons_of_mem _ hk)⟩

end Root
end EchoVerif
