/-
  Logs produced by the model writer (`buildLog`) satisfy the hypotheses of `recover_prefix`:
  `LogAt` (every transaction validates, LSNs run on) and `Codec` (every record decodes to itself).
-/
import EchoVerif.Lemmas.WalBuild
import EchoVerif.Lemmas.WalCodec
import EchoVerif.Lemmas.WalLog
set_option linter.unusedSimpArgs false
set_option linter.unusedVariables false

namespace EchoVerif.Wal

theorem leNat_lt (bs : Bytes) : leNat bs < 256 ^ bs.length := by
  induction bs with
  | nil => simp [leNat]
  | cons b bs ih =>
    rw [leNat_cons, List.length_cons, Nat.pow_succ]
    have := b.toNat_lt
    omega

theorem checksum32_lt (H : HashFn) (d b : Bytes) : checksum32 H d b < 2 ^ 32 := by
  unfold checksum32
  have h1 := leNat_lt ((H (d ++ b)).take 4)
  have h2 : ((H (d ++ b)).take 4).length ≤ 4 := by rw [List.length_take]; omega
  have h3 : 256 ^ ((H (d ++ b)).take 4).length ≤ 256 ^ 4 := Nat.pow_le_pow_right (by decide) h2
  have : (256 : Nat) ^ 4 = 2 ^ 32 := by decide
  omega

structure ParamsOK (cfg : Cfg) (p : BuildParams) : Prop where
  ver : cfg.walVersion < 2 ^ 16
  epoch : p.writerEpoch.length = 32
  seg : p.segmentId < 2 ^ 64
  codec : p.codecId.length = 32
  schema : p.schemaId.length = 32
  dom : p.digestDomain.length = 32
  sv : p.schemaVersion < 2 ^ 16
  ev : p.encodingVersion < 2 ^ 16
  dur : p.durability < 256 ∧ cfg.durabilityOk p.durability = true
  comp : cfg.compressionOk 0 = true
  red : cfg.redactionOk 1 = true
  ftag : cfg.frameTag < 256
  ctag : cfg.commitTag < 256
  distinct : cfg.frameTag ≠ cfg.commitTag

def RecOK (cfg : Cfg) (r : Kind × Bytes) : Prop :=
  r.1.code < 256 ∧ cfg.label r.1.code = some r.1.label ∧ r.2.length + 279 < 2 ^ 64

structure SpecOK (cfg : Cfg) (s : TxSpec) : Prop where
  txId : s.txId.length = 32
  kind : s.txKind < 256 ∧ cfg.txKindOk s.txKind = true
  nonempty : s.records ≠ []
  small : s.records.length ≤ u32Max + 1
  recs : ∀ r ∈ s.records, RecOK cfg r
  frontiers : s.frontiers.length = 32

theorem mkFrame_ok (cfg : Cfg) (H : HashFn) (h32 : Hash32 H) (p : BuildParams) (hp : ParamsOK cfg p)
    (txId : Bytes) (lsn idx : Nat) (k : Kind) (bytes prev : Bytes) (htx : txId.length = 32)
    (hlsn : lsn < 2 ^ 64) (hidx : idx < 2 ^ 32) (hr : RecOK cfg (k, bytes)) (hprev : prev.length = 32) :
    FrameOK cfg H (mkFrame cfg H p txId lsn idx k bytes prev) := by
  obtain ⟨hk1, hk2, hk3⟩ := hr
  have hv := mkFrame_valid cfg H p txId lsn idx k bytes prev
  constructor
  all_goals (try simp only [mkFrame])
  · exact hp.ver
  · exact hp.epoch
  · exact hp.seg
  · exact hlsn
  · exact htx
  · exact hidx
  · exact ⟨hk1, hk2⟩
  · simp only at hk3; omega
  · exact h32 _
  · exact hp.codec
  · exact hp.schema
  · exact hp.sv
  · exact hp.ev
  · exact hp.dom
  · exact ⟨by decide, hp.comp⟩
  · exact ⟨by decide, hp.red⟩
  · exact hprev
  · exact checksum32_lt _ _ _
  · exact hp.sv
  · simp only at hk3; omega
  · exact checksum32_lt _ _ _
  · exact hv

theorem mkFrames_ok (cfg : Cfg) (H : HashFn) (h32 : Hash32 H) (p : BuildParams) (hp : ParamsOK cfg p)
    (txId : Bytes) (htx : txId.length = 32) (lsn idx : Nat) (prev : Bytes) (recs : List (Kind × Bytes))
    (hlsn : lsn + recs.length ≤ 2 ^ 64) (hidx : idx + recs.length ≤ 2 ^ 32)
    (hr : ∀ r ∈ recs, RecOK cfg r) (hprev : prev.length = 32) :
    ∀ f ∈ mkFrames cfg H p txId lsn idx prev recs, FrameOK cfg H f ∧ f.header.segmentId = p.segmentId := by
  induction recs generalizing lsn idx prev with
  | nil => simp [mkFrames]
  | cons r rs ih =>
    obtain ⟨k, b⟩ := r
    simp only [List.length_cons] at hlsn hidx
    intro f hf
    simp only [mkFrames, List.mem_cons] at hf
    rcases hf with rfl | hf
    · exact ⟨mkFrame_ok cfg H h32 p hp txId lsn idx k b prev htx (by omega) (by omega) (hr _ (by simp)) hprev,
        (mkFrame_fields cfg H p txId lsn idx k b prev).2.2.2.2⟩
    · exact ih (lsn + 1) (idx + 1) _ (by omega) (by omega) (fun r' h => hr r' (by simp [h])) (h32 _) f hf

theorem mkFrames_payload_bound (cfg : Cfg) (H : HashFn) (p : BuildParams) (txId : Bytes) (lsn idx : Nat)
    (prev : Bytes) (recs : List (Kind × Bytes)) (hr : ∀ r ∈ recs, RecOK cfg r) :
    ∀ f ∈ mkFrames cfg H p txId lsn idx prev recs, f.payloadBytes.length + 279 < 2 ^ 64 := by
  induction recs generalizing lsn idx prev with
  | nil => simp [mkFrames]
  | cons r rs ih =>
    obtain ⟨k, b⟩ := r
    intro f hf
    simp only [mkFrames, List.mem_cons] at hf
    rcases hf with rfl | hf
    · have := (hr (k, b) (by simp)).2.2
      simpa [mkFrame] using this
    · exact ih _ _ _ (fun r' h => hr r' (by simp [h])) f hf

theorem mkTx_commit_ok (cfg : Cfg) (H : HashFn) (h32 : Hash32 H) (p : BuildParams) (hp : ParamsOK cfg p)
    (s : TxSpec) (hs : SpecOK cfg s) (lsn : Nat) (pf pc : Bytes) (hpc : pc.length = 32)
    (hlsn : lsn + s.records.length ≤ 2 ^ 64) :
    CommitOK cfg (mkTx cfg H p s.txId s.txKind lsn pf pc s.records s.frontiers).commit := by
  have hpos : 0 < s.records.length := List.length_pos_iff.mpr hs.nonempty
  have hsm := hs.small
  constructor
  all_goals (try simp only [mkTx])
  · exact hp.epoch
  · exact hs.txId
  · exact hs.kind
  · omega
  · omega
  · simp only [u32Max] at hsm; omega
  · exact h32 _
  · exact hs.frontiers
  · exact hpc
  · exact hp.dur
  · exact hp.ver
  · exact h32 _

def totalRecords : List TxSpec → Nat
  | [] => 0
  | s :: ss => s.records.length + totalRecords ss

theorem buildLog_ok (cfg : Cfg) (H : HashFn) (h32 : Hash32 H) (p : BuildParams) (hp : ParamsOK cfg p)
    (chain : Bool) (lsn : Nat) (pf pc : Bytes) (specs : List TxSpec)
    (hpf : pf.length = 32) (hpc : pc.length = 32) (hs : ∀ s ∈ specs, SpecOK cfg s)
    (hlsn : lsn + totalRecords specs ≤ 2 ^ 64) :
    LogAt cfg H lsn (buildLog cfg H p chain lsn pf pc specs)
    ∧ Codec cfg H (buildLog cfg H p chain lsn pf pc specs)
    ∧ (∀ t ∈ buildLog cfg H p chain lsn pf pc specs, ∀ f ∈ t.frames, f.header.segmentId = p.segmentId) := by
  induction specs generalizing lsn pf pc with
  | nil =>
    exact ⟨trivial, ⟨hp.ftag, hp.ctag, hp.distinct, by simp [buildLog], by simp [buildLog]⟩, by simp [buildLog]⟩
  | cons s ss ih =>
    have hsok := hs s (by simp)
    simp only [totalRecords] at hlsn
    have hu : (2 : Nat) ^ 64 = u64Max + 1 := by decide
    have hvalid := mkTx_valid cfg H p s.txId s.txKind lsn pf pc s.records s.frontiers hsok.nonempty
      (by omega) hsok.small
    have hlen := mkTx_frames_length cfg H p s.txId s.txKind lsn pf pc s.records s.frontiers
    have hframes := mkFrames_ok cfg H h32 p hp s.txId hsok.txId lsn 0 pf s.records (by omega)
      (by have := hsok.small; simp only [u32Max] at this; omega) hsok.recs hpf
    have hcommit := mkTx_commit_ok cfg H h32 p hp s hsok lsn pf pc hpc (by omega)
    have hpf' : (if chain then (match (mkTx cfg H p s.txId s.txKind lsn pf pc s.records s.frontiers).frames.getLast? with
        | some f => f.digest cfg H | none => pf) else pf).length = 32 := by
      split
      · split
        · exact h32 _
        · exact hpf
      · exact hpf
    have hpc' : (if chain then (mkTx cfg H p s.txId s.txKind lsn pf pc s.records s.frontiers).commit.commitDigest
        else pc).length = 32 := by
      split
      · exact h32 _
      · exact hpc
    obtain ⟨ihlog, ihcodec, ihseg⟩ := ih (lsn + s.records.length) _ _ hpf' hpc'
      (fun s' h => hs s' (by simp [h])) (by omega)
    refine ⟨?_, ?_, ?_⟩
    · simp only [buildLog]
      refine ⟨hvalid, by simp [mkTx], ?_⟩
      rw [hlen]; exact ihlog
    · simp only [buildLog]
      refine ⟨hp.ftag, hp.ctag, hp.distinct, ?_, ?_⟩
      · intro t ht f hf
        simp only [List.mem_cons] at ht
        rcases ht with rfl | ht
        · have hfo := (hframes f (by simpa [mkTx] using hf)).1
          exact ⟨decodeFrame_encodeFrame cfg H f hfo, by
            rw [encodeFrame_length cfg H f hfo]
            have := hfo.bytes
            have hb : f.payloadBytes.length + 279 < 2 ^ 64 := by
              simp only [mkTx] at hf
              -- payload sizes are bounded by RecOK; recover it from the builder
              exact mkFrames_payload_bound cfg H p s.txId lsn 0 pf s.records hsok.recs f hf
            omega⟩
        · exact ihcodec.frame t ht f hf
      · intro t ht
        simp only [List.mem_cons] at ht
        rcases ht with rfl | ht
        · exact ⟨decodeCommit_encodeCommit cfg _ hcommit, by rw [encodeCommit_length cfg _ hcommit]; decide⟩
        · exact ihcodec.commit t ht
    · intro t ht f hf
      simp only [buildLog, List.mem_cons] at ht
      rcases ht with rfl | ht
      · exact (hframes f (by simpa [mkTx] using hf)).2
      · exact ihseg t ht f hf

end EchoVerif.Wal
