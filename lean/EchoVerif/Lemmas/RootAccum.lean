/-
  Lemmas about Model/Root.lean, part 6: the accumulator path agrees with the store path.
  For every state with sorted maps in which every instance has a store:
  * the accumulator's read-view equals the store's read-view at every key, the fuels coincide,
    hence `accReach (Acc.ofState s) r = reach s r` literally;
  * per reachable warp the table walk (`accNodes`, `accBuckets`) yields the same entries as the
    store walk (`storeNodes`, `storeBuckets`) — the latter filters buckets by source and edges by
    target, the former filters edges by both and regroups; they coincide because the visited set
    is closed under out-edges;
  hence `accContent (Acc.ofState s) r = content s r`.
-/
import EchoVerif.Lemmas.RootFlat
import EchoVerif.Lemmas.RootContent

set_option linter.unusedSimpArgs false
set_option linter.unusedVariables false

namespace EchoVerif
namespace Root
open Graph SMap

/-! ### strictly ascending id lists (`BTreeSet` / `BTreeMap` key order) -/

def AscN (l : List Nat) : Prop := l.Pairwise (· < ·)

theorem insertW_asc (w : Nat) : ∀ {l : List Nat}, AscN l → AscN (insertW w l)
  | [], _ => by simp [insertW, AscN]
  | x :: xs, h => by
    unfold AscN at h ⊢
    simp only [insertW]
    cases h with
    | cons h1 h2 =>
      split
      · rename_i hlt
        refine List.Pairwise.cons ?_ (List.Pairwise.cons h1 h2)
        intro y hy
        cases hy with
        | head => exact hlt
        | tail _ hy' => exact Nat.lt_trans hlt (h1 y hy')
      · split
        · exact List.Pairwise.cons h1 h2
        · rename_i hnlt hne
          refine List.Pairwise.cons ?_ (insertW_asc w (l := xs) h2)
          intro y hy
          rcases mem_insertW.mp hy with hy | hy
          · subst hy; omega
          · exact h1 y hy

theorem asc_ext : ∀ {a b : List Nat}, AscN a → AscN b → (∀ x, x ∈ a ↔ x ∈ b) → a = b
  | [], [], _, _, _ => rfl
  | [], y :: ys, _, _, h => by have := (h y).mpr List.mem_cons_self; cases this
  | x :: xs, [], _, _, h => by have := (h x).mp List.mem_cons_self; cases this
  | x :: xs, y :: ys, ha, hb, h => by
    unfold AscN at ha hb
    cases ha with
    | cons ha1 ha2 =>
      cases hb with
      | cons hb1 hb2 =>
        have hxy : x = y := by
          have h1 := (h x).mp List.mem_cons_self
          have h2 := (h y).mpr List.mem_cons_self
          simp only [List.mem_cons] at h1 h2
          rcases h1 with h1 | h1
          · exact h1
          · rcases h2 with h2 | h2
            · exact h2.symm
            · have := hb1 x h1; have := ha1 y h2; omega
        subst hxy
        congr 1
        apply asc_ext ha2 hb2
        intro z
        constructor
        · intro hz
          have := (h z).mp (List.mem_cons_of_mem _ hz)
          simp only [List.mem_cons] at this
          rcases this with e | hz'
          · have := ha1 z hz; omega
          · exact hz'
        · intro hz
          have := (h z).mpr (List.mem_cons_of_mem _ hz)
          simp only [List.mem_cons] at this
          rcases this with e | hz'
          · have := hb1 z hz; omega
          · exact hz'

/-- the key set of a `BTreeMap<NodeId, Vec<_>>` filled by `entry(g p).or_default().push(..)` -/
theorem insW_fold {α : Type} (g : α → Nat) : ∀ (l : List α) (acc : List Nat), AscN acc →
    AscN (l.foldl (fun acc p => insertW (g p) acc) acc) ∧
    ∀ x, x ∈ l.foldl (fun acc p => insertW (g p) acc) acc ↔ x ∈ acc ∨ ∃ p, p ∈ l ∧ g p = x
  | [], acc, h => ⟨h, fun x => by simp⟩
  | q :: qs, acc, h => by
    simp only [List.foldl_cons]
    have ih := insW_fold g qs (insertW (g q) acc) (insertW_asc _ h)
    refine ⟨ih.1, fun x => ?_⟩
    rw [ih.2 x, mem_insertW]
    constructor
    · rintro ((h1 | h1) | ⟨p, hp, e⟩)
      · exact Or.inr ⟨q, List.mem_cons_self, h1.symm⟩
      · exact Or.inl h1
      · exact Or.inr ⟨p, List.mem_cons_of_mem _ hp, e⟩
    · rintro (h1 | ⟨p, hp, e⟩)
      · exact Or.inl (Or.inr h1)
      · cases hp with
        | head => exact Or.inl (Or.inl e.symm)
        | tail _ hp' => exact Or.inr ⟨p, hp', e⟩

/-! ### the read-views coincide -/

theorem flatAtt_lookup {f : Store → SMap Nat Att} {s : WState} (hs : s.SortedAll)
    (hf : ∀ w st, find? w s.stores = some st → Sorted (f st)) (w i : Nat) :
    alookup (w, i) (flat f s.stores) = match find? w s.stores with
      | none => none
      | some st => find? i (f st) := by
  rw [alookup_eq_find? (flat_sorted f hs.1 hf), find?_flat f hs.1 hf]
  rfl

theorem accView_agree {s : WState} (hs : s.SortedAll) (k : NKey) :
    AgreeAt (storeView s) (accView (Acc.ofState s)) k := by
  have hea : ∀ w st, find? w s.stores = some st → Sorted st.edgeAtt := fun w st h => (hs.2 w st h).2.2.2
  have hna : ∀ w st, find? w s.stores = some st → Sorted st.nodeAtt := fun w st h => (hs.2 w st h).2.2.1
  refine ⟨?_, ?_, fun c _ => rfl⟩
  · have hF := flat_filter_warp Store.edges k.1 (fun x => x.2.src == k.2) hs.1
    simp only [accView, storeView, ofState_edges, ofState_edgeAtt, WState.store?]
    rw [hF]
    cases hst : find? k.1 s.stores with
    | none => rfl
    | some st =>
      simp only [outEdges, List.map_map]
      apply List.map_congr_left
      intro p _
      simp only [Function.comp]
      have := flatAtt_lookup (f := Store.edgeAtt) hs hea k.1 p.1
      simp only [hst] at this
      rw [this]
  · simp only [accView, storeView, ofState_nodeAtt, WState.store?]
    exact flatAtt_lookup (f := Store.nodeAtt) hs hna k.1 k.2

theorem accFuel_ofState (s : WState) : accFuel (Acc.ofState s) = storeFuel s := by
  simp only [accFuel, storeFuel, accKeys, storeKeys, Acc.ofState, List.length_append, List.length_map,
    List.length_flatMap]

theorem accReach_ofState {s : WState} (hs : s.SortedAll) (r : NKey) :
    accReach (Acc.ofState s) r = reach s r := by
  unfold accReach reach
  rw [accFuel_ofState]
  exact loop_congr (fun k _ => accView_agree hs k) _ _ (init_sound _ r)

/-! ### the table walk yields the store walk -/

theorem accNodes_ofState {s : WState} (hs : s.SortedAll) {w : Nat} {st : Store}
    (hst : s.store? w = some st) (vis : List NKey) :
    accNodes (Acc.ofState s) w vis = storeNodes w st vis := by
  have hna : ∀ w st, find? w s.stores = some st → Sorted st.nodeAtt := fun w st h => (hs.2 w st h).2.2.1
  have hF := flat_filter_warp Store.nodes w (fun x => decide ((w, x.1) ∈ vis)) hs.1
  simp only [WState.store?] at hst
  simp only [hst] at hF
  simp only [accNodes, storeNodes, ofState_nodes, ofState_nodeAtt]
  have hc : (flat Store.nodes s.stores).filter (fun p => p.1.1 == w && decide (p.1 ∈ vis))
      = (flat Store.nodes s.stores).filter (fun p => p.1.1 == w && decide ((w, p.1.2) ∈ vis)) := by
    apply List.filter_congr
    intro p _
    obtain ⟨⟨pw, pi⟩, pv⟩ := p
    by_cases h : pw = w
    · subst h; rfl
    · have : (pw == w) = false := by simpa using h
      simp only [this, Bool.false_and]
  rw [hc, hF, List.map_map]
  apply List.map_congr_left
  intro p _
  simp only [Function.comp]
  have := flatAtt_lookup (f := Store.nodeAtt) hs hna w p.1
  simp only [hst] at this
  rw [this]

theorem accBuckets_ofState {s : WState} (hs : s.SortedAll) {w : Nat} {st : Store}
    (hst : s.store? w = some st) (vis : List NKey)
    (hcl : ∀ p, p ∈ st.edges → (w, p.2.src) ∈ vis → (w, p.2.dst) ∈ vis) :
    accBuckets (Acc.ofState s) w vis = storeBuckets w st vis := by
  have hea : ∀ w st, find? w s.stores = some st → Sorted st.edgeAtt := fun w st h => (hs.2 w st h).2.2.2
  have hF := flat_filter_warp Store.edges w
    (fun x => decide ((w, x.2.src) ∈ vis) && decide ((w, x.2.dst) ∈ vis)) hs.1
  have hst' := hst
  simp only [WState.store?] at hst
  simp only [hst] at hF
  -- the edges the accumulator keeps are the edges with a visited source
  have hE : st.edges.filter (fun x => decide ((w, x.2.src) ∈ vis) && decide ((w, x.2.dst) ∈ vis))
      = st.edges.filter (fun x => decide ((w, x.2.src) ∈ vis)) := by
    apply List.filter_congr
    intro p hp
    by_cases h : (w, p.2.src) ∈ vis
    · simp [h, hcl p hp h]
    · simp [h]
  have hes : accEdges (Acc.ofState s) w vis
      = (st.edges.filter (fun x => decide ((w, x.2.src) ∈ vis))).map (fun p => ((w, p.1), p.2)) := by
    simp only [accEdges, ofState_edges]
    rw [← hE, ← hF]
    apply List.filter_congr
    intro p _
    simp only [Bool.and_assoc]
  simp only [accBuckets, storeBuckets, hes, ofState_edgeAtt]
  rw [List.foldl_map]
  -- same bucket keys
  have hsrc : (st.edges.filter (fun x => decide ((w, x.2.src) ∈ vis))).foldl
        (fun acc p => insertW p.2.src acc) []
      = (sources st).filter (fun src => decide ((w, src) ∈ vis)) := by
    have h1 := insW_fold (fun p : Nat × EdgeRec => p.2.src)
      (st.edges.filter (fun x => decide ((w, x.2.src) ∈ vis))) [] List.Pairwise.nil
    have h2 := insW_fold (fun p : Nat × EdgeRec => p.2.src) st.edges [] List.Pairwise.nil
    apply asc_ext h1.1 (List.Pairwise.filter _ h2.1)
    intro x
    rw [h1.2 x, List.mem_filter]
    show _ ↔ x ∈ st.edges.foldl (fun acc p => insertW p.2.src acc) [] ∧ _
    rw [h2.2 x]
    simp only [List.not_mem_nil, false_or, List.mem_filter, decide_eq_true_eq]
    constructor
    · rintro ⟨p, ⟨hp, hv⟩, e⟩
      exact ⟨⟨p, hp, e⟩, e ▸ hv⟩
    · rintro ⟨⟨p, hp, e⟩, hv⟩
      exact ⟨p, ⟨hp, e ▸ hv⟩, e⟩
  rw [hsrc]
  apply List.map_congr_left
  intro src hsrcm
  have hv : (w, src) ∈ vis := by
    have := (List.mem_filter.mp hsrcm).2
    simpa using this
  simp only [storeBucket, outEdges, List.filter_map, List.map_map, List.filter_filter]
  congr 1
  have hl : st.edges.filter (fun a =>
        (((fun p : NKey × EdgeRec => p.2.src == src) ∘ fun p : Nat × EdgeRec => ((w, p.1), p.2)) a &&
          decide ((w, a.2.src) ∈ vis)))
      = st.edges.filter (fun a => a.2.src == src) := by
    apply List.filter_congr
    intro p _
    by_cases h : p.2.src = src
    · simp [h, hv]
    · simp [h]
  have hr : st.edges.filter (fun a => (decide ((w, a.2.dst) ∈ vis) && a.2.src == src))
      = st.edges.filter (fun a => a.2.src == src) := by
    apply List.filter_congr
    intro p hp
    by_cases h : p.2.src = src
    · have := hcl p hp (h ▸ hv)
      simp [h, this]
    · simp [h]
  rw [hl, hr]
  apply List.map_congr_left
  intro p _
  simp only [Function.comp]
  have := flatAtt_lookup (f := Store.edgeAtt) hs hea w p.1
  simp only [hst] at this
  rw [this]

/-- the visited set of a finished traversal is closed under the out-edges of a store -/
theorem reach_closed (s : WState) (r : NKey) {w : Nat} {st : Store} (hst : s.store? w = some st) :
    ∀ p, p ∈ st.edges → (w, p.2.src) ∈ (reach s r).nodes → (w, p.2.dst) ∈ (reach s r).nodes := by
  intro p hp hv
  have hr := ((reach_exact s r).2.1 _).mp hv
  apply ((reach_exact s r).2.1 _).mpr
  refine Reach.step hr (Step.edge (p.2.dst, find? p.1 st.edgeAtt) ?_)
  simp only [storeView, hst, outEdges, List.mem_map, List.mem_filter]
  exact ⟨p, ⟨hp, by simp⟩, rfl⟩

/-- **the two table walks list the same abstract content** -/
theorem accContent_ofState {s : WState} (hs : s.SortedAll)
    (hkeys : ∀ w, (find? w s.instances).isSome = true → (s.store? w).isSome = true) (r : NKey) :
    accContent (Acc.ofState s) r = content s r := by
  unfold accContent content accContentOf contentOf
  rw [accReach_ofState hs r]
  congr 1
  apply flatMap_congr_mem
  intro w _
  unfold accInst storeInst
  show (match find? w s.instances with | some inst => _ | none => _) = _
  cases hi : find? w s.instances with
  | none => rfl
  | some inst =>
    obtain ⟨st, hst⟩ := Option.isSome_iff_exists.mp (hkeys w (by rw [hi]; rfl))
    simp only [hst]
    rw [accNodes_ofState hs hst, accBuckets_ofState hs hst _ (reach_closed s r hst)]

end Root
end EchoVerif
