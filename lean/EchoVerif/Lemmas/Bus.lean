/-
  Helper lemmas for C18 (materialization bus). Property theorems live in Props/C18.lean.
-/
import EchoVerif.Model.Bus
import EchoVerif.Lemmas.FoldPerm

set_option linter.unusedSimpArgs false

namespace EchoVerif
namespace Bus
open SMap

/-! ### lexicographic order on byte strings is a strict total order -/

theorem bytesLt_irrefl : ∀ a : Bytes, bytesLt a a = false
  | [] => rfl
  | x :: xs => by simp [bytesLt, bytesLt_irrefl xs]

theorem bytesLt_trans : ∀ a b c : Bytes, bytesLt a b = true → bytesLt b c = true → bytesLt a c = true
  | [], [], _, h, _ => by simp [bytesLt] at h
  | [], _ :: _, [], _, h => by simp [bytesLt] at h
  | [], _ :: _, _ :: _, _, _ => by simp [bytesLt]
  | _ :: _, [], _, h, _ => by simp [bytesLt] at h
  | _ :: _, _ :: _, [], _, h => by simp [bytesLt] at h
  | x :: xs, y :: ys, z :: zs, h1, h2 => by
    simp only [bytesLt, Bool.or_eq_true, decide_eq_true_eq, Bool.and_eq_true] at *
    rcases h1 with h1 | ⟨e1, h1⟩ <;> rcases h2 with h2 | ⟨e2, h2⟩
    · left; omega
    · left; omega
    · left; omega
    · right; exact ⟨by omega, bytesLt_trans xs ys zs h1 h2⟩

theorem bytesLt_tri : ∀ a b : Bytes, bytesLt a b = true ∨ a = b ∨ bytesLt b a = true
  | [], [] => Or.inr (Or.inl rfl)
  | [], _ :: _ => Or.inl rfl
  | _ :: _, [] => Or.inr (Or.inr rfl)
  | x :: xs, y :: ys => by
    simp only [bytesLt, Bool.or_eq_true, decide_eq_true_eq, Bool.and_eq_true, List.cons.injEq]
    rcases Nat.lt_trichotomy x.toNat y.toNat with h | h | h
    · exact Or.inl (Or.inl h)
    · have hxy : x = y := UInt8.toNat_inj.mp h
      rcases bytesLt_tri xs ys with h' | h' | h'
      · exact Or.inl (Or.inr ⟨h, h'⟩)
      · exact Or.inr (Or.inl ⟨hxy, h'⟩)
      · exact Or.inr (Or.inr (Or.inr ⟨h.symm, h'⟩))
    · exact Or.inr (Or.inr (Or.inl h))

instance : LinOrd Bytes where
  lt := bytesLt
  lt_irrefl := bytesLt_irrefl
  lt_trans := bytesLt_trans
  lt_tri := bytesLt_tri

theorem bytesLt_asymm {a b : Bytes} (h : bytesLt a b = true) : bytesLt b a = false :=
  LinOrd.lt_asymm (κ := Bytes) h

/-- "not less" in both directions forces equality. -/
theorem bytes_eq_of_not_lt {a b : Bytes} (h1 : bytesLt a b = false) (h2 : bytesLt b a = false) :
    a = b := by
  rcases bytesLt_tri a b with h | h | h
  · rw [h] at h1; cases h1
  · exact h
  · rw [h] at h2; cases h2

theorem maxB_comm (a b : Bytes) : maxB a b = maxB b a := by
  unfold maxB
  cases h1 : bytesLt b a <;> cases h2 : bytesLt a b <;> simp
  · exact (bytes_eq_of_not_lt h2 h1).symm
  · rw [bytesLt_asymm h1] at h2; cases h2

theorem maxB_assoc (a b c : Bytes) : maxB (maxB a b) c = maxB a (maxB b c) := by
  unfold maxB
  cases hba : bytesLt b a <;> cases hcb : bytesLt c b <;> cases hca : bytesLt c a <;>
    simp [hba, hcb, hca]
  all_goals first
    | (rcases bytesLt_tri a b with h | h | h
       · have := bytesLt_trans c a b hca h; rw [this] at hcb; cases hcb
       · subst h; rw [hca] at hcb; cases hcb
       · rw [h] at hba; cases hba)
    | (have := bytesLt_trans c b a hcb hba; rw [this] at hca; cases hca)

theorem minB_comm (a b : Bytes) : minB a b = minB b a := by
  unfold minB
  cases h1 : bytesLt b a <;> cases h2 : bytesLt a b <;> simp
  · exact bytes_eq_of_not_lt h2 h1
  · rw [bytesLt_asymm h1] at h2; cases h2

theorem minB_assoc (a b c : Bytes) : minB (minB a b) c = minB a (minB b c) := by
  unfold minB
  cases hba : bytesLt b a <;> cases hcb : bytesLt c b <;> cases hca : bytesLt c a <;>
    simp [hba, hcb, hca]
  all_goals first
    | (rcases bytesLt_tri a b with h | h | h
       · have := bytesLt_trans c a b hca h; rw [this] at hcb; cases hcb
       · subst h; rw [hca] at hcb; cases hcb
       · rw [h] at hba; cases hba)
    | (have := bytesLt_trans c b a hcb hba; rw [this] at hca; cases hca)

theorem bor_comm : ∀ a b : Bytes, bor a b = bor b a
  | [], [] => rfl
  | [], _ :: _ => rfl
  | _ :: _, [] => rfl
  | x :: a, y :: b => by simp [bor, UInt8.or_comm x y, bor_comm a b]

theorem bor_nil_right (a : Bytes) : bor a [] = a := by cases a <;> rfl

theorem bor_assoc : ∀ a b c : Bytes, bor (bor a b) c = bor a (bor b c)
  | [], b, c => by simp [bor]
  | x :: a, [], c => by simp [bor]
  | x :: a, y :: b, [] => by simp [bor]
  | x :: a, y :: b, z :: c => by simp [bor, UInt8.or_assoc, bor_assoc a b c]

theorem band_comm : ∀ a b : Bytes, band a b = band b a
  | [], [] => rfl
  | [], _ :: _ => rfl
  | _ :: _, [] => rfl
  | x :: a, y :: b => by simp [band, UInt8.and_comm x y, band_comm a b]

theorem band_assoc : ∀ a b c : Bytes, band (band a b) c = band a (band b c)
  | [], b, c => by simp [band]
  | x :: a, [], c => by simp [band]
  | x :: a, y :: b, [] => by simp [band]
  | x :: a, y :: b, z :: c => by simp [band, UInt8.and_assoc, band_assoc a b c]

/-! ### `iter.reduce(f)` for associative–commutative `f` is permutation-invariant -/

def optStep (f : Bytes → Bytes → Bytes) (o : Option Bytes) (v : Bytes) : Option Bytes :=
  some (match o with | none => v | some a => f a v)

theorem foldl_optStep_some (f : Bytes → Bytes → Bytes) :
    ∀ (xs : List Bytes) (a : Bytes), xs.foldl (optStep f) (some a) = some (xs.foldl f a)
  | [], _ => rfl
  | x :: xs, a => by simp only [List.foldl_cons, optStep]; exact foldl_optStep_some f xs (f a x)

theorem reduce1_eq (f : Bytes → Bytes → Bytes) (l : List Bytes) :
    reduce1 f l = (l.foldl (optStep f) none).getD [] := by
  cases l with
  | nil => rfl
  | cons x xs =>
    simp only [reduce1, List.foldl_cons, optStep]
    rw [foldl_optStep_some]; rfl

theorem reduce1_perm (f : Bytes → Bytes → Bytes)
    (hc : ∀ a b, f a b = f b a) (ha : ∀ a b c, f (f a b) c = f a (f b c))
    {xs ys : List Bytes} (hp : xs.Perm ys) : reduce1 f xs = reduce1 f ys := by
  rw [reduce1_eq, reduce1_eq]
  congr 1
  apply foldl_perm_of_comm' _ _ hp
  intro s a b
  cases s with
  | none => simp [optStep, hc a b]
  | some s => simp only [optStep]; rw [ha, ha, hc a b]

/-! ### `emit` -/

/-- Well-formed bus: the channel map and every per-channel map are strictly sorted. -/
def WF (s : State) : Prop :=
  Sorted s.pending ∧ ∀ ch m, find? ch s.pending = some m → Sorted m

/-- What `emit` stores for the emitting channel. -/
def addInner (om : Option (SMap EmitKey Bytes)) (k : EmitKey) (d : Bytes) : SMap EmitKey Bytes :=
  match om with
  | none => [(k, d)]
  | some m => match find? k m with
    | some _ => m
    | none => SMap.insert k d m

def innerGet (om : Option (SMap EmitKey Bytes)) (k : EmitKey) : Option Bytes :=
  match om with
  | none => none
  | some m => find? k m

theorem emit_policies (s : State) (e : Emission) : (emit s e).1.policies = s.policies := by
  unfold emit; split
  · rfl
  · split <;> rfl

theorem find?_emit (s : State) (e : Emission) (c : Nat) :
    find? c (emit s e).1.pending =
      if c = e.chan then some (addInner (find? e.chan s.pending) e.key e.data)
      else find? c s.pending := by
  unfold emit
  split
  · rename_i h
    simp only [find?_insert, h, addInner]
  · rename_i m h
    split
    · rename_i v hv
      simp only [h, addInner, hv]
      split
      · rename_i hc; subst hc; exact h
      · rfl
    · rename_i hv
      simp only [find?_insert, h, addInner, hv]

theorem sorted_addInner {om : Option (SMap EmitKey Bytes)} (k : EmitKey) (d : Bytes)
    (h : ∀ m, om = some m → Sorted m) : Sorted (addInner om k d) := by
  unfold addInner
  cases om with
  | none => exact ⟨trivial, trivial⟩
  | some m =>
    simp only
    split
    · exact h m rfl
    · exact sorted_insert _ _ (h m rfl)

theorem emit_sorted (s : State) (e : Emission) (h : WF s) : Sorted (emit s e).1.pending := by
  unfold emit
  split
  · exact sorted_insert _ _ h.1
  · split
    · exact h.1
    · exact sorted_insert _ _ h.1

theorem emit_wf (s : State) (e : Emission) (h : WF s) : WF (emit s e).1 := by
  refine ⟨emit_sorted s e h, ?_⟩
  intro ch m hm
  rw [find?_emit] at hm
  split at hm
  · cases hm
    exact sorted_addInner _ _ (fun m hm => h.2 _ m hm)
  · exact h.2 ch m hm

theorem find?_addInner (om : Option (SMap EmitKey Bytes)) (k k0 : EmitKey) (d : Bytes) :
    find? k0 (addInner om k d) =
      if k0 = k then some ((innerGet om k).getD d) else innerGet om k0 := by
  unfold addInner innerGet
  cases om with
  | none =>
    simp only [find?]
    by_cases h : k0 = k
    · subst h; simp [LinOrd.lt_irrefl]
    · simp only [if_neg h]
      split <;> rfl
  | some m =>
    simp only
    split
    · rename_i v hv
      split
      · rename_i h; subst h; simp [hv]
      · rfl
    · rename_i hv
      rw [find?_insert]
      simp [hv]

theorem addInner_comm {om : Option (SMap EmitKey Bytes)} (hs : ∀ m, om = some m → Sorted m)
    {k1 k2 : EmitKey} (hne : k1 ≠ k2) (d1 d2 : Bytes) :
    addInner (some (addInner om k1 d1)) k2 d2 = addInner (some (addInner om k2 d2)) k1 d1 := by
  have s1 := sorted_addInner k1 d1 hs
  have s2 := sorted_addInner k2 d2 hs
  apply SMap.ext
  · exact sorted_addInner _ _ (fun m hm => by cases hm; exact s1)
  · exact sorted_addInner _ _ (fun m hm => by cases hm; exact s2)
  intro k
  simp only [find?_addInner, innerGet]
  by_cases h1 : k = k1 <;> by_cases h2 : k = k2
  · subst h1; subst h2; exact absurd rfl hne
  · subst h1; simp [hne, find?_addInner]
  · subst h2; simp [h1, Ne.symm hne, find?_addInner]
  · simp [h1, h2, find?_addInner]

/-- Emissions with different `(channel, key)` commute, whatever is already pending. -/
theorem emit_comm (s : State) (hwf : WF s) (e1 e2 : Emission)
    (hne : (e1.chan, e1.key) ≠ (e2.chan, e2.key)) :
    (emit (emit s e1).1 e2).1 = (emit (emit s e2).1 e1).1 := by
  have w1 := emit_wf s e1 hwf
  have w2 := emit_wf s e2 hwf
  have hp : (emit (emit s e1).1 e2).1.pending = (emit (emit s e2).1 e1).1.pending := by
    apply SMap.ext (emit_sorted _ _ w1) (emit_sorted _ _ w2)
    intro c
    simp only [find?_emit]
    by_cases hch : e1.chan = e2.chan
    · have hk : e1.key ≠ e2.key := by
        intro hk; apply hne; rw [hch, hk]
      by_cases hc : c = e2.chan
      · subst hc
        simp only [hch, if_true]
        rw [addInner_comm (fun m hm => hwf.2 _ m hm) hk]
      · simp [hc, hch]
    · by_cases hc1 : c = e1.chan
      · subst hc1
        simp [hch, Ne.symm hch]
      · by_cases hc2 : c = e2.chan
        · subst hc2
          simp [hch, Ne.symm hch]
        · simp [hc1, hc2]
  have hq : (emit (emit s e1).1 e2).1.policies = (emit (emit s e2).1 e1).1.policies := by
    simp only [emit_policies]
  cases h1 : (emit (emit s e1).1 e2).1
  cases h2 : (emit (emit s e2).1 e1).1
  rw [h1] at hp hq; rw [h2] at hp hq
  simp only at hp hq
  rw [hp, hq]

theorem emit_dup_of_present (t : State) (e : Emission) {m : SMap EmitKey Bytes} {v : Bytes}
    (hm : find? e.chan t.pending = some m) (hv : find? e.key m = some v) :
    emit t e = (t, EmitResult.duplicate) := by
  unfold emit; simp only [hm, hv]

theorem emitAll_wf (s : State) (es : List Emission) (h : WF s) : WF (emitAll s es) := by
  induction es generalizing s with
  | nil => exact h
  | cons e es ih => exact ih _ (emit_wf s e h)

end Bus
end EchoVerif
