/-
  Byte damage confined to ONE disk record (bit flips, zeroed ranges), in front of which any number of
  whole records have been written (Model/Wal.scan = read_segment_bytes).  For C11.
-/
import EchoVerif.Lemmas.WalLog
set_option linter.unusedSimpArgs false
set_option linter.unusedVariables false

namespace EchoVerif.Wal

/-- the head of the input has the shape of one disk record — `m'` (as long as the magic), kind byte
    `t'`, an intact length field for `p'`, `p'`, 32 stored digest bytes `d'` — whatever these bytes
    are: the reader fails with SegmentRecordDigestMismatch unless the magic is the magic AND the stored
    digest is the digest of (kind, payload) as found. -/
theorem scan_record_shape {R : Type} (cfg : Cfg) (H : HashFn)
    (dec : UInt8 → Bytes → Except RErr R) (m' : Bytes) (t' : UInt8) (p' d' rest : Bytes)
    (hm : m'.length = cfg.magic.length) (hp' : p'.length < 2 ^ 64) (hd : d'.length = 32)
    (hbad : m' ≠ cfg.magic ∨ d' ≠ diskDigest cfg H t' p') :
    scan cfg H dec (m' ++ (t' :: (u64 p'.length ++ (p' ++ (d' ++ rest))))) = .error .digest := by
  rw [scan]
  have hlen : (m' ++ (t' :: (u64 p'.length ++ (p' ++ (d' ++ rest))))).length
      = cfg.magic.length + 9 + p'.length + 32 + rest.length := by
    simp [u64, le_length, hd, hm]; omega
  rw [if_neg (by rw [hlen]; omega), if_neg (by rw [hlen]; omega)]
  rw [← hm, List.take_left]
  by_cases hmm : m' = cfg.magic
  · rw [if_neg (by simpa using hmm), List.drop_left]
    simp only
    have h8 : (u64 p'.length).length = 8 := le_length _ _
    rw [List.take_left' h8, List.drop_left' h8, leNat_u64 _ hp']
    rw [if_neg (by simp [hd])]
    rw [List.take_left, List.drop_left, List.take_left' hd]
    rw [if_pos]
    rcases hbad with h | h
    · exact absurd hmm h
    · exact h
  · rw [if_pos hmm]

/-- the same behind any number of whole, decodable records -/
theorem scan_damaged_record {R : Type} (cfg : Cfg) (H : HashFn) (h32 : Hash32 H)
    (dec : UInt8 → Bytes → Except RErr R) (val : DRec → R) (rs : List DRec)
    (hlen : ∀ r ∈ rs, r.payload.length < 2 ^ 64) (hdec : ∀ r ∈ rs, dec r.tag r.payload = .ok (val r))
    (m' : Bytes) (t' : UInt8) (p' d' rest : Bytes)
    (hm : m'.length = cfg.magic.length) (hp' : p'.length < 2 ^ 64) (hd : d'.length = 32)
    (hbad : m' ≠ cfg.magic ∨ d' ≠ diskDigest cfg H t' p') :
    scan cfg H dec (encRecs cfg H rs ++ (m' ++ (t' :: (u64 p'.length ++ (p' ++ (d' ++ rest))))))
      = .error .digest := by
  rw [scan_encRecs_append cfg H h32 dec val rs _ hlen hdec,
    scan_record_shape cfg H dec m' t' p' d' rest hm hp' hd hbad]

/-- a damaged LENGTH field (any 8 bytes `l'`): either fewer than `len' + 32` bytes follow — torn tail,
    the records before it are returned (a prefix) — or the reader compares the 32 bytes found at the
    displaced position with the digest of the displaced payload. -/
theorem scan_length_damage {R : Type} (cfg : Cfg) (H : HashFn) (h32 : Hash32 H)
    (dec : UInt8 → Bytes → Except RErr R) (val : DRec → R) (rs : List DRec)
    (hlen : ∀ r ∈ rs, r.payload.length < 2 ^ 64) (hdec : ∀ r ∈ rs, dec r.tag r.payload = .ok (val r))
    (t' : UInt8) (l' body : Bytes) (hl : l'.length = 8) :
    (body.length < leNat l' + 32 →
      scan cfg H dec (encRecs cfg H rs ++ (cfg.magic ++ (t' :: (l' ++ body)))) = .ok (rs.map val, true))
    ∧ (leNat l' + 32 ≤ body.length →
        (body.drop (leNat l')).take 32 ≠ diskDigest cfg H t' (body.take (leNat l')) →
      scan cfg H dec (encRecs cfg H rs ++ (cfg.magic ++ (t' :: (l' ++ body)))) = .error .digest) := by
  have hhead : (cfg.magic ++ (t' :: (l' ++ body))).length = cfg.magic.length + 9 + body.length := by
    simp [hl]; omega
  constructor
  · intro hshort
    rw [scan_encRecs_append cfg H h32 dec val rs _ hlen hdec]
    rw [scan, if_neg (by rw [hhead]; omega), if_neg (by rw [hhead]; omega)]
    rw [List.take_left, if_neg (by simp), List.drop_left]
    simp only
    rw [List.take_left' hl, List.drop_left' hl, if_pos hshort]
    simp
  · intro hlong hne
    rw [scan_encRecs_append cfg H h32 dec val rs _ hlen hdec]
    rw [scan, if_neg (by rw [hhead]; omega), if_neg (by rw [hhead]; omega)]
    rw [List.take_left, if_neg (by simp), List.drop_left]
    simp only
    rw [List.take_left' hl, List.drop_left' hl, if_neg (by omega), if_pos hne]

end EchoVerif.Wal
