/-
  Lemmas for the Edict CBOR cost model (C13): invariants carried through `items`/`entries`/`decValue`.
-/
import EchoVerif.Model.CostEdict

set_option linter.unusedSimpArgs false
set_option linter.unusedVariables false

namespace EchoVerif.CostEdict

/-- The invariants are all of the shape "a projection of the state moves only in a permitted way":
    `Q st st'` relates the state before and after a step, is reflexive and transitive. -/
structure Rel where
  Q : St → St → Prop
  refl : ∀ s, Q s s
  trans : ∀ a b c, Q a b → Q b c → Q a c

def Keeps (q : Rel) {α : Type} (f : Bytes → St → St × α) : Prop := ∀ bs st, q.Q st (f bs st).1

theorem items_keeps (q : Rel) {dv : Bytes → St → R} (h : Keeps q dv) :
    ∀ n bs st acc, q.Q st (items dv n bs st acc).1
  | 0, bs, st, acc => q.refl st
  | n + 1, bs, st, acc => by
    have h1 := h bs st
    unfold items
    split
    · rename_i st' rest c heq
      rw [heq] at h1
      exact q.trans _ _ _ h1 (items_keeps q h n rest st' (c :: acc))
    · rename_i st' e heq
      rw [heq] at h1
      exact h1

theorem entries_keeps (q : Rel) {dv : Bytes → St → R} (h : Keeps q dv) :
    ∀ n bs st acc, q.Q st (entries dv n bs st acc).1
  | 0, bs, st, acc => q.refl st
  | n + 1, bs, st, acc => by
    have h1 := h bs st
    unfold entries
    split
    · rename_i st1 e heq
      rw [heq] at h1; exact h1
    · rename_i st1 r1 kc heq
      rw [heq] at h1
      split
      · exact h1
      · have h2 := h r1 st1
        split
        · rename_i st2 e heq2
          rw [heq2] at h2
          exact q.trans _ _ _ h1 h2
        · rename_i st2 r2 vc heq2
          rw [heq2] at h2
          exact q.trans _ _ _ h1 (q.trans _ _ _ h2 (entries_keeps q h n r2 st2 ((kc, vc) :: acc)))

/-- A relation is kept by `decValue` as soon as `tick`, `reserve` and the `copied` update keep it. -/
theorem decValue_keeps (q : Rel) (p : Params) (B : Nat)
    (htick : ∀ st depth st1, depth ≤ B → tick st depth = .ok st1 → q.Q st st1)
    (hres : ∀ n st st2, reserve p n st = .ok st2 → q.Q st st2)
    (hcopy : ∀ (st : St) c, q.Q st { st with copied := st.copied + c }) :
    ∀ room depth, depth + room ≤ B → Keeps q (decValue p room depth)
  | 0, depth, hB => fun bs st => by
    unfold decValue
    split
    · exact q.refl st
    · rename_i st1 ht
      have h1 := htick _ _ _ (by omega) ht
      split
      · exact q.trans _ _ _ h1 (hcopy st1 _)
      · exact h1
      · exact h1
      · exact h1
  | room + 1, depth, hB => fun bs st => by
    unfold decValue
    split
    · exact q.refl st
    · rename_i st1 ht
      have h1 := htick _ _ _ (by omega) ht
      split
      · exact q.trans _ _ _ h1 (hcopy st1 _)
      · exact h1
      · rename_i len rest hh
        split
        · exact h1
        · rename_i st2 hr
          have h2 := hres _ _ _ hr
          have h3 := items_keeps q (decValue_keeps q p B htick hres hcopy room (depth + 1) (by omega)) len rest st2 []
          split
          · rename_i st3 r acc heq
            rw [heq] at h3
            exact q.trans _ _ _ h1 (q.trans _ _ _ h2 h3)
          · rename_i st3 e heq
            rw [heq] at h3
            exact q.trans _ _ _ h1 (q.trans _ _ _ h2 h3)
      · rename_i len rest hh
        split
        · exact h1
        · rename_i st2 hr
          have h2 := hres _ _ _ hr
          have h3 := entries_keeps q (decValue_keeps q p B htick hres hcopy room (depth + 1) (by omega)) len rest st2 []
          split
          · rename_i st3 r acc heq
            rw [heq] at h3
            exact q.trans _ _ _ h1 (q.trans _ _ _ h2 h3)
          · rename_i st3 e heq
            rw [heq] at h3
            exact q.trans _ _ _ h1 (q.trans _ _ _ h2 h3)

/-! ### the three conserved / monotone quantities -/

/-- `reserved + resv` is conserved (needs the reservation before every `with_capacity`) -/
def relResv : Rel where
  Q a b := b.reserved + b.resv = a.reserved + a.resv
  refl _ := rfl
  trans _ _ _ h1 h2 := by omega

/-- `steps + nodes` is conserved -/
def relNodes : Rel where
  Q a b := b.steps + b.nodes = a.steps + a.nodes
  refl _ := rfl
  trans _ _ _ h1 h2 := by omega

/-- no depth above `B` is ever recorded -/
def relDepth (B : Nat) : Rel where
  Q a b := b.maxDepth ≤ max a.maxDepth B
  refl _ := Nat.le_max_left _ _
  trans _ _ _ h1 h2 := by omega

theorem tick_ok {st st1 : St} {depth : Nat} (h : tick st depth = .ok st1) :
    st1 = { st with nodes := st.nodes - 1, steps := st.steps + 1, maxDepth := max st.maxDepth depth }
      ∧ st.nodes ≠ 0 := by
  unfold tick at h
  split at h
  · cases h
  · cases h; exact ⟨rfl, by assumption⟩

theorem reserve_ok_checked {p : Params} (hp : p.reserveChecked = true) {n : Nat} {st st2 : St}
    (h : reserve p n st = .ok st2) :
    st2 = { st with resv := st.resv - n, reserved := st.reserved + n } ∧ n ≤ st.resv := by
  unfold reserve at h
  rw [if_pos hp] at h
  split at h
  · cases h
  · split at h
    · cases h
    · cases h; exact ⟨rfl, by omega⟩

theorem reserve_ok_fields {p : Params} {n : Nat} {st st2 : St} (h : reserve p n st = .ok st2) :
    st2.steps = st.steps ∧ st2.nodes = st.nodes ∧ st2.maxDepth = st.maxDepth := by
  unfold reserve at h
  repeat' split at h
  all_goals first
    | (cases h; done)
    | (cases h; exact ⟨rfl, rfl, rfl⟩)

/-! ### the model-only `fuel` outcome is unreachable when the container depth check is present -/

theorem argument_err {info : Nat} {bs : Bytes} {e : Err} (h : argument info bs = .error e) : e ≠ .fuel := by
  unfold argument at h
  simp only at h
  repeat' split at h
  all_goals first
    | (cases h; done)
    | (cases h; decide)

theorem length_err {p : Params} {info : Nat} {bs : Bytes} {e : Err} (h : length p info bs = .error e) :
    e ≠ .fuel := by
  unfold length at h
  split at h
  · rename_i e' ha
    cases h
    exact argument_err ha
  · split at h
    · cases h; decide
    · cases h

/-- heads never produce `fuel` -/
def HeadNf : Head → Prop
  | .done (.error e) _ => e ≠ .fuel
  | _ => True

theorem headInt_nf (major info : Nat) (rest : Bytes) : HeadNf (headInt major info rest) := by
  unfold headInt
  split
  · trivial
  · rename_i e ha
    exact argument_err ha

theorem headStr_nf (p : Params) (major info : Nat) (rest : Bytes) : HeadNf (headStr p major info rest) := by
  unfold headStr
  split
  · repeat' split
    all_goals first
      | trivial
      | (show _ ≠ _; decide)
  · rename_i e ha
    exact length_err ha

theorem headCont_nf (p : Params) (a : Bool) (major info : Nat) (rest : Bytes) :
    HeadNf (headCont p a major info rest) := by
  unfold headCont
  split
  · trivial
  · split
    · split <;> trivial
    · rename_i e ha
      exact length_err ha

theorem decHead_nf (p : Params) (a : Bool) : ∀ bs, HeadNf (decHead p a bs)
  | [] => by show _ ≠ _; decide
  | b0 :: rest => by
    unfold decHead dispatch
    repeat' split
    all_goals first
      | exact headInt_nf _ _ _
      | exact headStr_nf _ _ _ _
      | exact headCont_nf _ _ _ _ _
      | trivial
      | (show _ ≠ _; decide)

theorem tick_err {st : St} {depth : Nat} {e : Err} (h : tick st depth = .error e) : e ≠ .fuel := by
  unfold tick at h
  split at h
  · cases h; decide
  · cases h

theorem reserve_err {p : Params} {n : Nat} {st : St} {e : Err} (h : reserve p n st = .error e) : e ≠ .fuel := by
  unfold reserve at h
  repeat' split at h
  all_goals first
    | (cases h; done)
    | (cases h; decide)

def Nf (f : Bytes → St → R) : Prop := ∀ bs st, (f bs st).2 ≠ .error .fuel

theorem items_nf {dv : Bytes → St → R} (h : Nf dv) :
    ∀ n bs st acc, (items dv n bs st acc).2 ≠ .error .fuel
  | 0, bs, st, acc => by simp [items]
  | n + 1, bs, st, acc => by
    have h1 := h bs st
    unfold items
    split
    · rename_i st' rest c heq
      exact items_nf h n rest st' (c :: acc)
    · rename_i st' e heq
      rw [heq] at h1
      intro hc; cases hc; exact h1 rfl

theorem entries_nf {dv : Bytes → St → R} (h : Nf dv) :
    ∀ n bs st acc, (entries dv n bs st acc).2 ≠ .error .fuel
  | 0, bs, st, acc => by simp [entries]
  | n + 1, bs, st, acc => by
    have h1 := h bs st
    unfold entries
    split
    · rename_i st1 e heq
      rw [heq] at h1
      intro hc; cases hc; exact h1 rfl
    · rename_i st1 r1 kc heq
      split
      · simp
      · have h2 := h r1 st1
        split
        · rename_i st2 e heq2
          rw [heq2] at h2
          intro hc; cases hc; exact h2 rfl
        · rename_i st2 r2 vc heq2
          exact entries_nf h n r2 st2 ((kc, vc) :: acc)

theorem decValue_nf {p : Params} (hp : p.depthChecked = true) : ∀ room depth, Nf (decValue p room depth)
  | 0, depth => fun bs st => by
    unfold decValue
    split
    · rename_i e ht
      have := tick_err ht
      intro hc; cases hc; exact this rfl
    · rename_i st1 ht
      have hh := decHead_nf p true bs
      split
      · rename_i r c heq
        rw [heq] at hh
        cases r with
        | ok x => simp
        | error e => intro hc; cases hc; exact hh rfl
      · simp [noRoom, hp]
      · simp [noRoom, hp]
      · simp [noRoom, hp]
  | room + 1, depth => fun bs st => by
    unfold decValue
    split
    · rename_i e ht
      have := tick_err ht
      intro hc; cases hc; exact this rfl
    · rename_i st1 ht
      have hh := decHead_nf p false bs
      split
      · rename_i r c heq
        rw [heq] at hh
        cases r with
        | ok x => simp
        | error e => intro hc; cases hc; exact hh rfl
      · simp [noRoom, hp]
      · rename_i len rest hhd
        split
        · rename_i e hr
          have := reserve_err hr
          intro hc; cases hc; exact this rfl
        · rename_i st2 hr
          have h3 := items_nf (decValue_nf hp room (depth + 1)) len rest st2 []
          split
          · simp
          · rename_i st3 e heq
            rw [heq] at h3
            intro hc; cases hc; exact h3 rfl
      · rename_i len rest hhd
        split
        · rename_i e hr
          have := reserve_err hr
          intro hc; cases hc; exact this rfl
        · rename_i st2 hr
          have h3 := entries_nf (decValue_nf hp room (depth + 1)) len rest st2 []
          split
          · simp
          · rename_i st3 e heq
            rw [heq] at h3
            intro hc; cases hc; exact h3 rfl

theorem decode_fst (p : Params) (bs : Bytes) :
    (decode p bs).1 = (decValue p (rootRoom p bs) 0 bs (St.init p)).1 := by
  unfold decode
  generalize decValue p (rootRoom p bs) 0 bs (St.init p) = res
  obtain ⟨st, r⟩ := res
  cases r with
  | error e => rfl
  | ok x =>
    obtain ⟨rest, c⟩ := x
    cases rest with
    | nil => simp only; split <;> rfl
    | cons a t => rfl

theorem decode_snd_fuel (p : Params) (bs : Bytes)
    (h : (decValue p (rootRoom p bs) 0 bs (St.init p)).2 ≠ .error .fuel) :
    (decode p bs).2 ≠ .error .fuel := by
  unfold decode
  generalize decValue p (rootRoom p bs) 0 bs (St.init p) = res at h
  obtain ⟨st, r⟩ := res
  cases r with
  | error e => simp only; intro hc; cases hc; exact h rfl
  | ok x =>
    obtain ⟨rest, c⟩ := x
    cases rest with
    | nil => simp only; split <;> simp
    | cons a t => simp

end EchoVerif.CostEdict
