import EchoVerif.Model.Tick
import EchoVerif.Lemmas.FoldPerm
set_option linter.unusedSimpArgs false
set_option linter.unusedVariables false
namespace EchoVerif
namespace Tick
open Graph Exec SMap

/-! ### matching phase -/

theorem matchAll_bad (progOf : Nat → Nat → Option Program) (pre : WState) :
    ∀ cs : List TCand, (matchAll progOf pre cs).2.2 = true ↔ ∃ c ∈ cs, pre.store? c.warp = none
  | [] => by simp [matchAll]
  | c :: rest => by
    simp only [matchAll]
    cases hst : pre.store? c.warp with
    | none => simp [hst]
    | some st =>
      simp only
      have ih := matchAll_bad progOf pre rest
      cases hp : progOf c.warp c.scope <;> simp only [List.mem_cons, exists_eq_or_imp, hst] <;>
        simp [ih]

theorem mem_matchAll (progOf : Nat → Nat → Option Program) (pre : WState) :
    ∀ (cs : List TCand), (matchAll progOf pre cs).2.2 = false →
      ∀ cp, cp ∈ (matchAll progOf pre cs).2.1 ↔
        cp.1 ∈ cs ∧ progOf cp.1.warp cp.1.scope = some cp.2
  | [], _, cp => by simp [matchAll]
  | c :: rest, hb, cp => by
    simp only [matchAll] at hb ⊢
    cases hst : pre.store? c.warp with
    | none => simp [hst] at hb
    | some st =>
      simp only [hst] at hb ⊢
      cases hp : progOf c.warp c.scope with
      | none =>
        simp only [hp] at hb ⊢
        rw [mem_matchAll progOf pre rest hb cp]
        simp only [List.mem_cons]
        constructor
        · rintro ⟨h1, h2⟩; exact ⟨Or.inr h1, h2⟩
        · rintro ⟨h1 | h1, h2⟩
          · rw [h1, hp] at h2; cases h2
          · exact ⟨h1, h2⟩
      | some p =>
        simp only [hp] at hb ⊢
        simp only [List.mem_cons, mem_matchAll progOf pre rest hb cp]
        constructor
        · rintro (h | ⟨h1, h2⟩)
          · subst h; exact ⟨Or.inl rfl, hp⟩
          · exact ⟨Or.inr h1, h2⟩
        · rintro ⟨h1 | h1, h2⟩
          · left
            obtain ⟨c', p'⟩ := cp
            simp only at h1 h2
            subst h1; rw [hp] at h2; cases h2; rfl
          · exact Or.inr ⟨h1, h2⟩

/-! ### the legacy queue is a function of the candidate set -/

def keyOf (cp : TCand × Program) : Nat × Nat := (cp.1.shash, ruleBase + cp.1.rule)

/-- No two different queued items share the scheduler key (collision-freedom of the scope hash on
    the candidates of this tick, plus the payload being a function of the candidate). -/
def KeyInj (l : List (TCand × Program)) : Prop :=
  ∀ a ∈ l, ∀ b ∈ l, keyOf a = keyOf b → a = b

theorem legacyFold_sorted (l : List (TCand × Program)) :
    ∀ m : SMap (Nat × Nat) (TCand × Program), Sorted m →
      Sorted (l.foldl (fun m cp => SMap.insert (cp.1.shash, ruleBase + cp.1.rule) cp m) m) := by
  induction l with
  | nil => intro m h; exact h
  | cons x xs ih => intro m h; exact ih _ (sorted_insert _ _ h)

theorem find?_legacyFold (l : List (TCand × Program)) :
    ∀ (m : SMap (Nat × Nat) (TCand × Program)) (k : Nat × Nat),
      find? k (l.foldl (fun m cp => SMap.insert (cp.1.shash, ruleBase + cp.1.rule) cp m) m) =
        match l.reverse.find? (fun cp => decide (keyOf cp = k)) with
        | some cp => some cp
        | none => find? k m := by
  induction l with
  | nil => intro m k; rfl
  | cons x xs ih =>
    intro m k
    rw [List.foldl_cons, ih]
    simp only [List.reverse_cons, List.find?_append]
    cases hx : xs.reverse.find? (fun cp => decide (keyOf cp = k)) with
    | some cp => simp
    | none =>
      simp only [Option.none_or, List.find?_cons, List.find?_nil]
      by_cases hk : keyOf x = k
      · subst hk
        simp only [decide_true]
        exact find?_insert_self (x.1.shash, ruleBase + x.1.rule) x m
      · have : decide (keyOf x = k) = false := by simp [hk]
        simp only [this]
        exact find?_insert_ne x (fun e => hk e.symm) m

/-- lookup in the legacy queue: the queued item with that key, if any -/
theorem find?_legacyQueue {l : List (TCand × Program)} (hk : KeyInj l) (k : Nat × Nat)
    (v : TCand × Program) :
    find? k (legacyQueue l) = some v ↔ v ∈ l ∧ keyOf v = k := by
  unfold legacyQueue
  rw [find?_legacyFold]
  cases hf : l.reverse.find? (fun cp => decide (keyOf cp = k)) with
  | some cp =>
    have h1 := List.find?_some hf
    have h2 : cp ∈ l := List.mem_reverse.mp (List.mem_of_find?_eq_some hf)
    simp only [decide_eq_true_eq] at h1
    constructor
    · intro h; cases h; exact ⟨h2, h1⟩
    · rintro ⟨hv, hkv⟩
      rw [hk cp h2 v hv (h1.trans hkv.symm)]
  | none =>
    show find? k ([] : SMap (Nat × Nat) (TCand × Program)) = some v ↔ _
    simp only [find?]
    constructor
    · intro h; cases h
    · rintro ⟨hv, hkv⟩
      have := List.find?_eq_none.mp hf v (List.mem_reverse.mpr hv)
      simp [hkv] at this

theorem legacyQueue_set {xs ys : List (TCand × Program)} (hk : KeyInj xs)
    (hset : ∀ cp, cp ∈ xs ↔ cp ∈ ys) : legacyQueue xs = legacyQueue ys := by
  have hky : KeyInj ys := fun a ha b hb e => hk a ((hset a).mpr ha) b ((hset b).mpr hb) e
  apply SMap.ext (legacyFold_sorted xs [] trivial) (legacyFold_sorted ys [] trivial)
  intro k
  show find? k (legacyQueue xs) = find? k (legacyQueue ys)
  cases h1 : find? k (legacyQueue xs) with
  | some v =>
    have := (find?_legacyQueue hk k v).mp h1
    exact ((find?_legacyQueue hky k v).mpr ⟨(hset v).mp this.1, this.2⟩).symm
  | none =>
    cases h2 : find? k (legacyQueue ys) with
    | none => rfl
    | some v =>
      have := (find?_legacyQueue hky k v).mp h2
      have := (find?_legacyQueue hk k v).mpr ⟨(hset v).mpr this.1, this.2⟩
      rw [h1] at this; cases this

end Tick
end EchoVerif
