/-
  Helper lemmas for C20 (Model/Cas.lean): how one operation changes what `get` sees, the
  hash-soundness invariant, and the content projections of both tiers.
-/
import EchoVerif.Model.Cas

set_option linter.unusedSimpArgs false
set_option linter.unusedVariables false

namespace EchoVerif.Cas
open EchoVerif SMap

variable (H : Bytes → Hash)

/-- Every stored value hashes to the key it is stored under. -/
def Sound (m : SMap Hash Bytes) : Prop := ∀ h b, find? h m = some b → H b = h

theorem Op.writes_sound {H : Bytes → Hash} {h : Hash} {op : Op} {b : Bytes}
    (hw : Op.writes H h op = some b) : H b = h := by
  cases op <;> simp only [Op.writes] at hw
  · split at hw
    · rename_i e; cases hw; exact e
    · cases hw
  · split at hw
    · rename_i e; cases hw; exact e.1.trans e.2
    · cases hw
  all_goals cases hw

/-! ### rewrite lemmas stated for a variable state -/

theorem Mem.put_of_present {s : Mem} {b x : Bytes} (hx : find? (H b) s.blobs = some x) :
    s.put H b = (s, H b) := by
  unfold Mem.put; rw [hx]

theorem Mem.putVerified_of_present {s : Mem} {b x : Bytes} (hx : find? (H b) s.blobs = some x) :
    s.putVerified H (H b) b = (s, none) := by
  unfold Mem.putVerified; simp [hx]

theorem Mem.present_after_put (s : Mem) (b : Bytes) :
    ∃ x, find? (H b) (s.put H b).1.blobs = some x := by
  unfold Mem.put
  cases hf : find? (H b) s.blobs with
  | some x => exact ⟨x, by simp [hf]⟩
  | none => exact ⟨b, by simp [find?_insert]⟩

theorem Mem.put_snd (s : Mem) (b : Bytes) : (s.put H b).2 = H b := by
  unfold Mem.put; split <;> rfl

/-! ### memory tier: one step as seen through `get` -/

theorem Mem.get_put (s : Mem) (b : Bytes) (h : Hash) :
    (s.put H b).1.get h =
      match s.get h with
      | some x => some x
      | none => if H b = h then some b else none := by
  unfold Mem.put Mem.get
  cases hf : find? (H b) s.blobs with
  | some x =>
    simp only
    cases hg : find? h s.blobs with
    | some y => rfl
    | none =>
      have : H b ≠ h := by intro e; rw [e, hg] at hf; cases hf
      simp [this]
  | none =>
    simp only [find?_insert]
    by_cases e : h = H b
    · subst e; simp [hf]
    · have e' : H b ≠ h := fun x => e x.symm
      simp only [if_neg e, if_neg e']
      cases find? h s.blobs <;> rfl

theorem Mem.get_putVerified (s : Mem) (e : Hash) (b : Bytes) (h : Hash) :
    (s.putVerified H e b).1.get h =
      match s.get h with
      | some x => some x
      | none => if H b = e ∧ e = h then some b else none := by
  unfold Mem.putVerified Mem.get
  by_cases hm : H b = e
  · subst hm
    simp only [ne_eq, not_true_eq_false, if_false, true_and]
    have := Mem.get_put H s b h
    unfold Mem.put Mem.get at this
    cases hf : find? (H b) s.blobs with
    | some x => rw [hf] at this; exact this
    | none => rw [hf] at this; exact this
  · simp only [ne_eq, hm, not_false_eq_true, if_true, false_and, if_false]
    cases find? h s.blobs <;> rfl

theorem Mem.get_step (s : Mem) (op : Op) (h : Hash) :
    (s.step H op).get h =
      match s.get h with
      | some x => some x
      | none => op.writes H h := by
  cases op <;> simp only [Mem.step, Op.writes]
  · exact Mem.get_put H s _ h
  · exact Mem.get_putVerified H s _ _ h
  all_goals (simp only [Mem.get, Mem.pin, Mem.unpin]; cases find? h s.blobs <;> rfl)

theorem Mem.get_run (ops : List Op) : ∀ (s : Mem) (h : Hash),
    (Mem.run H s ops).get h =
      match s.get h with
      | some x => some x
      | none => refFirst H h ops := by
  induction ops with
  | nil => intro s h; simp only [Mem.run, List.foldl_nil, refFirst]; cases s.get h <;> rfl
  | cons op rest ih =>
    intro s h
    have := ih (s.step H op) h
    simp only [Mem.run, List.foldl_cons] at this ⊢
    rw [this, Mem.get_step]
    cases s.get h with
    | some x => rfl
    | none =>
      simp only [refFirst]
      cases Op.writes H h op <;> rfl

theorem refFirst_some {H : Bytes → Hash} {h : Hash} {b : Bytes} :
    ∀ {ops : List Op}, refFirst H h ops = some b → ∃ op ∈ ops, op.writes H h = some b
  | [], hr => by cases hr
  | op :: rest, hr => by
    simp only [refFirst] at hr
    cases hw : Op.writes H h op with
    | some x =>
      rw [hw] at hr; cases hr
      exact ⟨op, List.mem_cons_self, hw⟩
    | none =>
      rw [hw] at hr
      obtain ⟨o, ho, hx⟩ := refFirst_some hr
      exact ⟨o, List.mem_cons_of_mem _ ho, hx⟩

theorem refFirst_isSome_of_mem {H : Bytes → Hash} {h : Hash} {b : Bytes} :
    ∀ {ops : List Op} {op : Op}, op ∈ ops → op.writes H h = some b → ∃ b', refFirst H h ops = some b'
  | o :: rest, op, hm, hw => by
    simp only [refFirst]
    cases ho : Op.writes H h o with
    | some x => exact ⟨x, rfl⟩
    | none =>
      rcases List.mem_cons.mp hm with e | hm'
      · subst e; rw [hw] at ho; cases ho
      · exact refFirst_isSome_of_mem hm' hw

/-- Operations that cannot write leave `refFirst` unchanged when filtered out. -/
theorem refFirst_filter {H : Bytes → Hash} {h : Hash} (p : Op → Bool)
    (hp : ∀ op, p op = false → op.writes H h = none) :
    ∀ ops : List Op, refFirst H h (ops.filter p) = refFirst H h ops
  | [] => rfl
  | op :: rest => by
    cases hpo : p op with
    | true =>
      rw [List.filter_cons_of_pos (by simp [hpo])]
      simp only [refFirst]
      rw [refFirst_filter p hp rest]
    | false =>
      rw [List.filter_cons_of_neg (by simp [hpo])]
      simp only [refFirst, hp op hpo]
      exact refFirst_filter p hp rest

/-! ### hash-soundness is an invariant of the memory tier -/

theorem Mem.sound_step (s : Mem) (op : Op) (hs : Sound H s.blobs) : Sound H (s.step H op).blobs := by
  intro h b hf
  have := Mem.get_step H s op h
  unfold Mem.get at this
  rw [hf] at this
  cases hg : find? h s.blobs with
  | some x => rw [hg] at this; cases this; exact hs h _ hg
  | none => rw [hg] at this; exact Op.writes_sound this.symm

theorem Mem.sound_run (ops : List Op) : ∀ (s : Mem), Sound H s.blobs → Sound H (Mem.run H s ops).blobs := by
  induction ops with
  | nil => intro s hs; exact hs
  | cons op rest ih => intro s hs; exact ih _ (Mem.sound_step H s op hs)

/-! ### disk tier -/

/-- The files component after one step, as a function of the files only. -/
def stepFiles (f : SMap Hash Bytes) : Op → SMap Hash Bytes
  | .put b => insert (H b) b f
  | .putv e b => if H b ≠ e then f else insert e b f
  | .advWrite h b => insert h b f
  | .advDelete h => erase h f
  | _ => f

theorem Disk.files_step (s : Disk) (op : Op) : (s.step H op).files = stepFiles H s.files op := by
  cases op <;> simp only [Disk.step, stepFiles, Disk.put, Disk.putVerified, Disk.pin, Disk.unpin,
    Disk.reopen, Disk.advWrite, Disk.advDelete]
  · simp
  · split <;> rfl

theorem Disk.files_run (ops : List Op) : ∀ (s : Disk),
    (Disk.run H s ops).files = ops.foldl (stepFiles H) s.files := by
  induction ops with
  | nil => intro s; rfl
  | cons op rest ih =>
    intro s
    simp only [Disk.run, List.foldl_cons] at ih ⊢
    rw [ih, Disk.files_step]

theorem sorted_stepFiles (f : SMap Hash Bytes) (op : Op) (hs : Sorted f) : Sorted (stepFiles H f op) := by
  cases op <;> simp only [stepFiles]
  · exact sorted_insert _ _ hs
  · split
    · exact hs
    · exact sorted_insert _ _ hs
  all_goals first | exact hs | exact sorted_insert _ _ hs | exact sorted_erase _ hs

theorem sorted_foldl_stepFiles (ops : List Op) : ∀ (f : SMap Hash Bytes), Sorted f →
    Sorted (ops.foldl (stepFiles H) f) := by
  induction ops with
  | nil => intro f hs; exact hs
  | cons op rest ih => intro f hs; exact ih _ (sorted_stepFiles H f op hs)

/-- One untampered step, seen through `find?`: a successful write under `h` replaces the file. -/
theorem find?_stepFiles (f : SMap Hash Bytes) (hs : Sorted f) (op : Op) (h : Hash)
    (ht : op.tampers h = false) :
    find? h (stepFiles H f op) =
      match op.writes H h with
      | some b => some b
      | none => find? h f := by
  cases op <;> simp only [stepFiles, Op.writes, Op.tampers] at ht ⊢
  · rename_i b
    rw [find?_insert]
    by_cases e : h = H b
    · subst e; simp
    · have e' : H b ≠ h := fun x => e x.symm
      simp [e, e']
  · rename_i ex b
    by_cases hm : H b = ex
    · subst hm
      simp only [ne_eq, not_true_eq_false, if_false, true_and, find?_insert]
      by_cases e : h = H b
      · subst e; simp
      · have e' : H b ≠ h := fun x => e x.symm
        simp [e, e']
    · simp [hm]
  · rename_i h' b
    have hne : h ≠ h' := by
      intro e; subst e; simp at ht
    rw [find?_insert, if_neg hne]
  · rename_i h'
    have hne : h ≠ h' := by
      intro e; subst e; simp at ht
    rw [find?_erase _ _ hs, if_neg hne]

/-- Disk reference: the LAST successful write under `h` wins (every verified write replaces the file). -/
def refLast (h : Hash) : List Op → Option Bytes
  | [] => none
  | op :: rest => match refLast h rest with
    | some b => some b
    | none => op.writes H h

theorem refLast_sound {H : Bytes → Hash} {h : Hash} {b : Bytes} :
    ∀ {ops : List Op}, refLast H h ops = some b → H b = h
  | [], hr => by cases hr
  | op :: rest, hr => by
    simp only [refLast] at hr
    cases hl : refLast H h rest with
    | some x => rw [hl] at hr; cases hr; exact refLast_sound hl
    | none => rw [hl] at hr; exact Op.writes_sound hr

theorem find?_foldl_stepFiles (h : Hash) (ops : List Op) : ∀ (f : SMap Hash Bytes), Sorted f →
    (∀ op ∈ ops, op.tampers h = false) →
    find? h (ops.foldl (stepFiles H) f) =
      match refLast H h ops with
      | some b => some b
      | none => find? h f := by
  induction ops with
  | nil => intro f _ _; rfl
  | cons op rest ih =>
    intro f hs ht
    simp only [List.foldl_cons]
    rw [ih _ (sorted_stepFiles H f op hs) (fun o ho => ht o (List.mem_cons_of_mem _ ho))]
    simp only [refLast]
    cases refLast H h rest with
    | some x => rfl
    | none =>
      simp only
      exact find?_stepFiles H f hs op h (ht op List.mem_cons_self)

/-- Folding a step function that ignores the operations rejected by `p`. -/
theorem foldl_filter_inert {α β : Type} (f : α → β → α) (p : β → Bool)
    (hp : ∀ a x, p x = false → f a x = a) : ∀ (xs : List β) (a : α),
    (xs.filter p).foldl f a = xs.foldl f a
  | [], _ => rfl
  | x :: xs, a => by
    cases hx : p x with
    | true =>
      rw [List.filter_cons_of_pos (by simp [hx])]
      simp only [List.foldl_cons]
      exact foldl_filter_inert f p hp xs _
    | false =>
      rw [List.filter_cons_of_neg (by simp [hx])]
      simp only [List.foldl_cons, hp a x hx]
      exact foldl_filter_inert f p hp xs _

/-! ### retention index -/

/-- Every descriptor is filed under its own coordinate. -/
def IndexWF (ix : Index) : Prop := ∀ c d, ix.find c = some d → d.coord = c

theorem Index.find_cons (c c' : Coord) (d : Desc) (ix : Index) :
    Index.find ((c', d) :: ix) c = if c' = c then some d else ix.find c := rfl

end EchoVerif.Cas
