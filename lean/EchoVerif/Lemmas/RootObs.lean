/-
  Lemmas about Model/Root.lean, part 8: "state edit ⇒ content edit".
  `Differs s s' r` has one constructor per kind of semantic difference at an element that is
  reachable in `s` (instance record; node presence/type/α attachment; edge presence/record/β
  attachment). `content_eq_no_diff`: equal abstract contents leave no such difference, and the
  root keys coincide. Together with an injectivity theorem for the byte stream this makes the
  root sensitive to every single semantic mutation (Props/C06 `root_sensitive`).
-/
import EchoVerif.Lemmas.RootAccum
import EchoVerif.Lemmas.RootWf
import EchoVerif.Lemmas.RootTyped

set_option linter.unusedSimpArgs false
set_option linter.unusedVariables false

namespace EchoVerif
namespace Root
open Graph SMap

/-- an instance is stored under its own warp id (`WarpState::upsert_instance`) -/
def WarpKeyed (s : WState) : Prop := ∀ w inst, find? w s.instances = some inst → inst.warp = w

/-- one semantic difference between `s` and `s'` at an element reachable in `s` -/
inductive Differs (s s' : WState) (r : NKey) : Prop
  /-- the record of a reachable instance (root node, parent key) differs or is gone -/
  | inst (w : Nat) (inst : Instance) (st : Store) :
      ReachW (storeView s) r w → find? w s.instances = some inst → s.store? w = some st →
      find? w s'.instances ≠ some inst → Differs s s' r
  /-- a reachable node is gone / has another type, or its α attachment differs in any way
      (presence, Atom↔Descend, type id, bytes, length, portal target) -/
  | node (w n ty : Nat) (inst : Instance) (st : Store) :
      Reach (storeView s) r (w, n) → find? w s.instances = some inst → s.store? w = some st →
      find? n st.nodes = some ty →
      (nodeAt s' w n ≠ some ty ∨ nattAt s' w n ≠ find? n st.nodeAtt) → Differs s s' r
  /-- an edge leaving a reachable node is gone / has another source, target or type, or its β
      attachment differs in any way -/
  | edge (w e : Nat) (rec : EdgeRec) (inst : Instance) (st : Store) :
      find? w s.instances = some inst → s.store? w = some st → find? e st.edges = some rec →
      Reach (storeView s) r (w, rec.src) →
      (edgeAt s' w e ≠ some rec ∨ eattAt s' w e ≠ find? e st.edgeAtt) → Differs s s' r

theorem mem_sources_iff (st : Store) (x : Nat) : x ∈ sources st ↔ ∃ p, p ∈ st.edges ∧ p.2.src = x := by
  have := (insW_fold (fun p : Nat × EdgeRec => p.2.src) st.edges [] List.Pairwise.nil).2 x
  unfold sources
  rw [this]
  simp

/-- the entry of a live reachable warp is in the content, and equal contents carry it over -/
theorem live_transfer {s s' : WState} {r r' : NKey} (hk : WarpKeyed s) (hk' : WarpKeyed s')
    (h : content s r = content s' r') {w : Nat} {inst : Instance} {st : Store}
    (hw : w ∈ (reach s r).warps) (hi : find? w s.instances = some inst) (hst : s.store? w = some st) :
    ∃ st', find? w s'.instances = some inst ∧ s'.store? w = some st' ∧
      storeNodes w st (reach s r).nodes = storeNodes w st' (reach s' r').nodes ∧
      storeBuckets w st (reach s r).nodes = storeBuckets w st' (reach s' r').nodes := by
  have hmem : InstC.mk inst.warp inst.root inst.parent (storeNodes w st (reach s r).nodes)
      (storeBuckets w st (reach s r).nodes) ∈ (content s r).insts := by
    simp only [content, contentOf, List.mem_flatMap]
    refine ⟨w, hw, ?_⟩
    simp only [storeInst, hi, hst, List.mem_singleton]
  rw [h] at hmem
  simp only [content, contentOf, List.mem_flatMap] at hmem
  obtain ⟨w', _, hm⟩ := hmem
  unfold storeInst at hm
  split at hm
  · rename_i inst' st' hi' hst'
    simp only [List.mem_singleton, InstC.mk.injEq] at hm
    obtain ⟨e1, e2, e3, e4, e5⟩ := hm
    have hw' : w' = w := by rw [← hk' w' inst' hi', ← e1, hk w inst hi]
    subst hw'
    have : inst' = inst := by
      obtain ⟨a, b, c⟩ := inst; obtain ⟨a', b', c'⟩ := inst'
      simp only at e1 e2 e3; subst e1; subst e2; subst e3; rfl
    subst this
    exact ⟨st', hi', hst', e4, e5⟩
  · cases hm

/-- **equal contents leave no semantic difference on the reachable part** -/
theorem content_eq_no_diff {s s' : WState} {r r' : NKey} (hs' : s'.SortedAll)
    (hk : WarpKeyed s) (hk' : WarpKeyed s') (h : content s r = content s' r') :
    r = r' ∧ ¬ Differs s s' r := by
  refine ⟨?_, ?_⟩
  · have h1 := congrArg Content.rootWarp h
    have h2 := congrArg Content.rootNode h
    simp only [content, contentOf] at h1 h2
    exact Prod.ext h1 h2
  · intro hd
    cases hd with
    | inst w inst st hw hi hst hne =>
      have hw' := ((reach_exact s r).2.2 w).mpr hw
      obtain ⟨st', hi', _⟩ := live_transfer hk hk' h hw' hi hst
      exact hne hi'
    | node w n ty inst st hr hi hst hty hne =>
      have hw' := ((reach_exact s r).2.2 w).mpr (reach_warp_of_reach hr)
      have hv := ((reach_exact s r).2.1 _).mpr hr
      obtain ⟨st', _, hst', hn, _⟩ := live_transfer hk hk' h hw' hi hst
      have hmem : ({ id := n, ty := ty, att := find? n st.nodeAtt } : NodeC)
          ∈ storeNodes w st (reach s r).nodes := by
        simp only [storeNodes, List.mem_map, List.mem_filter, decide_eq_true_eq]
        exact ⟨(n, ty), ⟨find?_mem hty, hv⟩, rfl⟩
      rw [hn] at hmem
      simp only [storeNodes, List.mem_map, List.mem_filter, NodeC.mk.injEq] at hmem
      obtain ⟨p, ⟨hp, _⟩, e1, e2, e3⟩ := hmem
      have h4 := hs'.2 w st' hst'
      subst e1
      have hfind : find? p.1 st'.nodes = some ty := by
        apply mem_find? h4.1
        rw [← e2]; exact hp
      rcases hne with hne | hne
      · exact hne (by simp only [nodeAt, hst']; exact hfind)
      · exact hne (by simp only [nattAt, hst']; exact e3)
    | edge w e rec inst st hi hst hrec hr hne =>
      have hw' := ((reach_exact s r).2.2 w).mpr (reach_warp_of_reach hr)
      have hv := ((reach_exact s r).2.1 _).mpr hr
      have hem := find?_mem hrec
      have hvd := reach_closed s r hst (e, rec) hem hv
      obtain ⟨st', _, hst', _, hb⟩ := live_transfer hk hk' h hw' hi hst
      have hbm : storeBucket w st (reach s r).nodes rec.src ∈ storeBuckets w st (reach s r).nodes := by
        simp only [storeBuckets, List.mem_map, List.mem_filter, decide_eq_true_eq]
        exact ⟨rec.src, ⟨(mem_sources_iff st _).mpr ⟨(e, rec), hem, rfl⟩, hv⟩, rfl⟩
      rw [hb] at hbm
      simp only [storeBuckets, List.mem_map, List.mem_filter] at hbm
      obtain ⟨src', _, hbe⟩ := hbm
      have hedge : ({ id := e, ty := rec.ty, dst := rec.dst, att := find? e st.edgeAtt } : EdgeC)
          ∈ (storeBucket w st (reach s r).nodes rec.src).edges := by
        simp only [storeBucket, outEdges, List.mem_map, List.mem_filter, decide_eq_true_eq, beq_iff_eq]
        exact ⟨(e, rec), ⟨⟨hem, rfl⟩, hvd⟩, rfl⟩
      have hsrc : src' = rec.src := by
        have := congrArg BucketC.src hbe
        simpa [storeBucket] using this
      rw [← hbe] at hedge
      simp only [storeBucket, outEdges, List.mem_map, List.mem_filter, EdgeC.mk.injEq, beq_iff_eq] at hedge
      obtain ⟨q, ⟨⟨hq, hqs⟩, _⟩, e1, e2, e3, e4⟩ := hedge
      have h4 := hs'.2 w st' hst'
      have hqrec : q.2 = rec := by
        have hs1 : q.2.src = rec.src := by rw [← hsrc]; exact hqs
        cases hq2 : q.2 with
        | mk qs qd qt =>
          rw [hq2] at hs1 e2 e3
          cases rec with
          | mk rs rd rt =>
            simp only at hs1 e2 e3
            rw [hs1, e2, e3]
      subst e1
      have hfind : find? q.1 st'.edges = some rec := by
        apply mem_find? h4.2.1
        rw [← hqrec]; exact hq
      rcases hne with hne | hne
      · exact hne (by simp only [edgeAt, hst']; exact hfind)
      · exact hne (by simp only [eattAt, hst']; exact e4)

/-! ### the regimes in which the byte stream determines the content -/

/-- typed id universe (warp ids and node ids cannot alias), or equal shapes, or one instance each;
    outside these the stream is NOT injective (`root_not_injective_multi`, finding C06-H) -/
inductive Regime (s s' : WState) (r r' : NKey) : Prop
  | typed (W : Nat → Prop) : TypedIds W s → TypedIds W s' → Regime s s' r r'
  | shape : Lock SameShape (content s r).insts (content s' r').insts → Regime s s' r r'
  | single (i i' : InstC) : (content s r).insts = [i] → (content s' r').insts = [i'] → Regime s s' r r'

theorem encode_inj_regime {t : Tags} (ht : TagsOk t) {s s' : WState} {r r' : NKey}
    (hs : StateOk s) (hs' : StateOk s') (hr : IdOk r.1 ∧ IdOk r.2) (hr' : IdOk r'.1 ∧ IdOk r'.2)
    (hreg : Regime s s' r r') (h : encode t (content s r) = encode t (content s' r')) :
    content s r = content s' r' := by
  have hc := content_ok hs hr
  have hc' := content_ok hs' hr'
  cases hreg with
  | typed W hw hw' =>
    exact encode_inj_typed ht W hc.1 hc'.1 (fun i hi => ⟨hc.2 i hi, content_typed hw r i hi⟩)
      (fun i hi => ⟨hc'.2 i hi, content_typed hw' r' i hi⟩) h
  | shape hsh => exact encode_inj_shape ht hc.1 hc'.1 hsh h
  | single i i' hi hi' =>
    exact encode_inj_single ht hc.1 hc'.1 hi hi' (hc.2 i (by rw [hi]; simp)) (hc'.2 i' (by rw [hi']; simp)) h

/-! ### concrete edits are differences (general in the state, the element and the new value) -/

theorem differs_set_node_type {s : WState} {r : NKey} {w n ty ty' : Nat} {inst : Instance} {st : Store}
    (hr : Reach (storeView s) r (w, n)) (hi : find? w s.instances = some inst) (hst : s.store? w = some st)
    (hty : find? n st.nodes = some ty) (hne : ty' ≠ ty) :
    Differs s (s.putStore w { st with nodes := SMap.insert n ty' st.nodes }) r := by
  refine Differs.node w n ty inst st hr hi hst hty (Or.inl ?_)
  simp only [nodeAt, store?_putStore, if_true, find?_insert]
  intro h; exact hne (Option.some.inj h)

theorem differs_set_node_att {s : WState} {r : NKey} {w n ty : Nat} {inst : Instance} {st : Store}
    (hr : Reach (storeView s) r (w, n)) (hi : find? w s.instances = some inst) (hst : s.store? w = some st)
    (hty : find? n st.nodes = some ty) (hsa : Sorted st.nodeAtt) (a' : Option Att)
    (hne : a' ≠ find? n st.nodeAtt) :
    Differs s (s.putStore w { st with nodeAtt := setOpt n a' st.nodeAtt }) r := by
  refine Differs.node w n ty inst st hr hi hst hty (Or.inr ?_)
  simp only [nattAt, store?_putStore, if_true, find?_setOpt n n a' hsa]
  exact hne

theorem differs_set_edge {s : WState} {r : NKey} {w e : Nat} {rec rec' : EdgeRec} {inst : Instance}
    {st : Store} (hi : find? w s.instances = some inst) (hst : s.store? w = some st)
    (hrec : find? e st.edges = some rec) (hr : Reach (storeView s) r (w, rec.src)) (hne : rec' ≠ rec) :
    Differs s (s.putStore w (st.upsertEdge e rec')) r := by
  refine Differs.edge w e rec inst st hi hst hrec hr (Or.inl ?_)
  simp only [edgeAt, store?_putStore, if_true, Store.upsertEdge, find?_insert]
  intro h; exact hne (Option.some.inj h)

theorem differs_delete_edge {s : WState} {r : NKey} {w e : Nat} {rec : EdgeRec} {inst : Instance}
    {st : Store} (hi : find? w s.instances = some inst) (hst : s.store? w = some st)
    (hse : Sorted st.edges) (hrec : find? e st.edges = some rec) (hr : Reach (storeView s) r (w, rec.src)) :
    Differs s (s.putStore w { st with edges := SMap.erase e st.edges, edgeAtt := SMap.erase e st.edgeAtt }) r := by
  refine Differs.edge w e rec inst st hi hst hrec hr (Or.inl ?_)
  simp only [edgeAt, store?_putStore, if_true, find?_erase e e hse]
  intro h; cases h

theorem differs_set_edge_att {s : WState} {r : NKey} {w e : Nat} {rec : EdgeRec} {inst : Instance}
    {st : Store} (hi : find? w s.instances = some inst) (hst : s.store? w = some st)
    (hrec : find? e st.edges = some rec) (hr : Reach (storeView s) r (w, rec.src))
    (hsa : Sorted st.edgeAtt) (a' : Option Att) (hne : a' ≠ find? e st.edgeAtt) :
    Differs s (s.putStore w { st with edgeAtt := setOpt e a' st.edgeAtt }) r := by
  refine Differs.edge w e rec inst st hi hst hrec hr (Or.inr ?_)
  simp only [eattAt, store?_putStore, if_true, find?_setOpt e e a' hsa]
  exact hne

theorem differs_set_instance {s : WState} {r : NKey} {w : Nat} {inst inst' : Instance} {st : Store}
    (hw : ReachW (storeView s) r w) (hi : find? w s.instances = some inst) (hst : s.store? w = some st)
    (hne : inst' ≠ inst) :
    Differs s { s with instances := SMap.insert w inst' s.instances } r := by
  refine Differs.inst w inst st hw hi hst ?_
  simp only [find?_insert, if_true]
  intro h; exact hne (Option.some.inj h)

end Root
end EchoVerif
