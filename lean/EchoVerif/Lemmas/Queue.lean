/-
  C03: the pending queue keeps (scope, rule) keys distinct and fields in range, so both sorts are
  applied to a list with pairwise distinct key values.
-/
import EchoVerif.Lemmas.Counting

set_option linter.unusedSimpArgs false
set_option linter.unusedVariables false

namespace EchoVerif.Sched
open EchoVerif

/-- the dedupe key of the `index` map -/
def Thin.key (t : Thin) : Nat × Nat := (t.scope, t.rule)

/-- Queue invariant: `(scope, rule)` pairwise distinct (what the `index` map guarantees), every
    field within its width, next nonce a `u32`. -/
structure QInv {P : Type} (q : PendingTx P) : Prop where
  distinct : (q.thin.map Thin.key).Pairwise (· ≠ ·)
  bounded : ∀ t ∈ q.thin, Bounded t
  nonce : q.nextNonce < 4294967296

theorem refresh_none {scope rule n : Nat} : ∀ {l : List Thin}, refresh scope rule n l = none →
    ∀ t ∈ l, t.key ≠ (scope, rule)
  | [], _, _, h => by cases h
  | x :: xs, h, t, ht => by
    unfold refresh at h
    split at h
    · cases h
    · rename_i hx
      cases hr : refresh scope rule n xs with
      | some v => rw [hr] at h; cases h
      | none =>
        rcases List.mem_cons.1 ht with e | ht'
        · subst e; intro e; injection e with e1 e2; exact hx ⟨e1, e2⟩
        · exact refresh_none hr t ht'

/-- `refresh` changes no key. -/
theorem refresh_keys {scope rule n : Nat} : ∀ {l l' : List Thin} {h : Nat},
    refresh scope rule n l = some (h, l') → l'.map Thin.key = l.map Thin.key
  | [], _, _, hh => by cases hh
  | x :: xs, l', h, hh => by
    unfold refresh at hh
    split at hh
    · injection hh with hh; injection hh with _ h2; subst h2; rfl
    · cases hr : refresh scope rule n xs with
      | none => rw [hr] at hh; cases hh
      | some v =>
        obtain ⟨h', xs'⟩ := v
        rw [hr] at hh
        injection hh with hh; injection hh with _ h2; subst h2
        simp only [List.map_cons, refresh_keys hr]

theorem refresh_bounded {scope rule n : Nat} (hn : n < 4294967296) : ∀ {l l' : List Thin} {h : Nat},
    refresh scope rule n l = some (h, l') → (∀ t ∈ l, Bounded t) → ∀ t ∈ l', Bounded t
  | [], _, _, hh, _ => by cases hh
  | x :: xs, l', h, hh, hb => by
    unfold refresh at hh
    split at hh
    · injection hh with hh; injection hh with _ h2; subst h2
      intro t ht
      rcases List.mem_cons.1 ht with e | ht'
      · subst e
        obtain ⟨h1, h2, _⟩ := hb x List.mem_cons_self
        exact ⟨h1, h2, hn⟩
      · exact hb t (List.mem_cons_of_mem _ ht')
    · cases hr : refresh scope rule n xs with
      | none => rw [hr] at hh; cases hh
      | some v =>
        obtain ⟨h', xs'⟩ := v
        rw [hr] at hh
        injection hh with hh; injection hh with _ h2; subst h2
        intro t ht
        rcases List.mem_cons.1 ht with e | ht'
        · subst e; exact hb t List.mem_cons_self
        · exact refresh_bounded hn hr (fun t ht => hb t (List.mem_cons_of_mem _ ht)) t ht'

/-- **enqueue preserves the queue invariant** (keys stay distinct: a repeated key refreshes the
    existing entry instead of adding one). -/
theorem enqueue_inv {P : Type} (q : PendingTx P) (scope rule : Nat) (p : P)
    (hs : scope < 2 ^ 256) (hr : rule < 4294967296) (h : QInv q) : QInv (q.enqueue scope rule p) := by
  cases hf : refresh scope rule q.nextNonce q.thin with
  | some v =>
    obtain ⟨hd, thin'⟩ := v
    simp only [PendingTx.enqueue, hf]
    refine ⟨?_, refresh_bounded h.nonce hf h.bounded, Nat.mod_lt _ (by decide : 0 < 4294967296)⟩
    rw [refresh_keys hf]; exact h.distinct
  | none =>
    simp only [PendingTx.enqueue, hf]
    refine ⟨?_, ?_, Nat.mod_lt _ (by decide : 0 < 4294967296)⟩
    · rw [List.map_append, List.pairwise_append]
      refine ⟨h.distinct, by simp, ?_⟩
      intro a ha b hb
      simp at hb; subst hb
      obtain ⟨t, ht, rfl⟩ := List.mem_map.1 ha
      exact refresh_none hf t ht
    · intro t ht
      rcases List.mem_append.1 ht with ht | ht
      · exact h.bounded t ht
      · simp at ht; subst ht; exact ⟨hs, hr, h.nonce⟩

theorem qinv_empty {P : Type} : QInv ({} : PendingTx P) := by
  constructor
  · exact List.Pairwise.nil
  · intro t ht; cases ht
  · show (0 : Nat) < 4294967296; decide

theorem qinv_K_distinct {P : Type} {q : PendingTx P} (h : QInv q) :
    q.thin.Pairwise (fun a b => K a ≠ K b) := by
  have h1 := List.pairwise_map.1 h.distinct
  refine List.Pairwise.imp_of_mem ?_ h1
  intro a b ha hb hne e
  have := K_inj (h.bounded a ha) (h.bounded b hb) e
  apply hne
  unfold Thin.key; rw [this.1, this.2.1]

end EchoVerif.Sched
