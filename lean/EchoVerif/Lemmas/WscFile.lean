/-
  Lemmas/WscFile.lean — C06, goal WSC: theorems about Model/WscFile.lean (the columnar snapshot
  writer `build`/`write` and reader `read`/`validate`/`toStore`).  See the summary at the end.
-/
import EchoVerif.Model.WscFile

set_option linter.unusedSimpArgs false
set_option linter.unusedVariables false

namespace EchoVerif
namespace WscFile
open Graph Generated

/-! ## 0. layout facts extracted from the Rust source agree with the model's encoders -/

theorem natToBE_length (len n : Nat) : (natToBE len n).length = len := by simp [natToBE]
theorem natToLE_length (len n : Nat) : (natToLE len n).length = len := by simp [natToLE]
theorem id32_length (n : Nat) : (id32 n).length = 32 := natToBE_length 32 n
theorem u64le_length (n : Nat) : (u64le n).length = 8 := natToLE_length 8 n

theorem NodeRow.enc_length (r : NodeRow) : r.enc.length = 64 := by
  simp [NodeRow.enc, id32_length]
theorem EdgeRow.enc_length (r : EdgeRow) : r.enc.length = 128 := by
  simp [EdgeRow.enc, id32_length]
theorem Range.enc_length (r : Range) : r.enc.length = 16 := by
  simp [Range.enc, u64le_length]
theorem OutRef.enc_length (r : OutRef) : r.enc.length = 40 := by
  simp [OutRef.enc, u64le_length, id32_length]
theorem AttRow.enc_length (r : AttRow) : r.enc.length = 56 := by
  simp [AttRow.enc, u64le_length, id32_length, natToBE_length]

/-- The `size_of` assertions, field lists, magic length, alignment and tag bytes found in
    `wsc/types.rs` / `write.rs` / `build.rs` are the ones the model's encoders implement
    (a field added, removed, resized or swapped in Rust breaks this theorem). -/
theorem layout_agrees :
    WscLayout.sizeNodeRow = 64 ∧ WscLayout.sizeEdgeRow = 128 ∧ WscLayout.sizeRange = 16 ∧
    WscLayout.sizeOutEdgeRef = 40 ∧ WscLayout.sizeAttRow = 56 ∧ WscLayout.sizeWscHeader = 128 ∧
    WscLayout.sizeWarpDirEntry = 184 ∧ WscLayout.fileAlign = 8 ∧ WscLayout.blobAlign = 8 ∧
    WscLayout.magic.length = 8 ∧ WscLayout.tagAtom ≠ WscLayout.tagDescend ∧
    WscLayout.tagAtom < 256 ∧ WscLayout.tagDescend < 256 ∧ WscLayout.paddingCalls = 9 ∧
    WscLayout.fieldsNodeRow = [("node_id", 32), ("node_type", 32)] ∧
    WscLayout.fieldsEdgeRow = [("edge_id", 32), ("from_node_id", 32), ("to_node_id", 32), ("edge_type", 32)] ∧
    WscLayout.fieldsRange = [("start_le", 8), ("len_le", 8)] ∧
    WscLayout.fieldsOutEdgeRef = [("edge_ix_le", 8), ("edge_id", 32)] ∧
    WscLayout.fieldsAttRow = [("tag", 1), ("reserved0", 7), ("type_or_warp", 32), ("blob_off_le", 8), ("blob_len_le", 8)] ∧
    WscLayout.fieldsWscHeader = [("magic", 8), ("schema_hash", 32), ("tick_le", 8), ("warp_count_le", 8),
      ("warp_dir_off_le", 8), ("reserved", 64)] ∧
    WscLayout.fieldsWarpDirEntry = [("warp_id", 32), ("root_node_id", 32), ("nodes_off_le", 8), ("nodes_len_le", 8),
      ("edges_off_le", 8), ("edges_len_le", 8), ("out_index_off_le", 8), ("out_edges_off_le", 8),
      ("out_edges_len_le", 8), ("node_atts_index_off_le", 8), ("node_atts_off_le", 8), ("node_atts_len_le", 8),
      ("edge_atts_index_off_le", 8), ("edge_atts_off_le", 8), ("edge_atts_len_le", 8), ("blobs_off_le", 8),
      ("blobs_len_le", 8)] := by
  decide

theorem tag_ne : WscLayout.tagAtom ≠ WscLayout.tagDescend := by decide

/-! ## 1. list plumbing -/

theorem slice_mid {α : Type} (pre mid post : List α) :
    slice (pre ++ (mid ++ post)) pre.length mid.length = mid := by
  simp [slice]

theorem satAdd_le {a b L : Nat} (h : a + b ≤ L) (hL : L ≤ u64Max) : satAdd a b = a + b := by
  unfold satAdd
  have : ¬ (a + b > u64Max) := by omega
  simp [this]

theorem getRange_mid {α : Type} (pre mid post : List α) (h : (pre ++ (mid ++ post)).length ≤ u64Max) :
    getRange (pre ++ (mid ++ post)) ⟨pre.length, mid.length⟩ = mid := by
  have hl : pre.length + mid.length ≤ (pre ++ (mid ++ post)).length := by simp
  unfold getRange
  simp only []
  rw [satAdd_le hl h, if_pos hl]
  have : pre.length + mid.length - pre.length = mid.length := by omega
  rw [this]; exact slice_mid pre mid post

/-! ## 2. the attachment loops of `build` are undone by `attsBack` -/

/-- what a consumer must recover for the owners `owners`: the stored value of each owner that has one. -/
def expected (atts : SMap Nat Att) (owners : List Nat) (m : SMap Nat Att) : SMap Nat Att :=
  owners.foldl (fun m o => match SMap.find? o atts with
    | some a => SMap.insert o a m
    | none => m) m

theorem attToRow_blobs (a : Att) (blobs : Bytes) : ∃ ext, (attToRow a blobs).2 = blobs ++ ext := by
  cases a with
  | atom ty bytes =>
    exact ⟨List.replicate (alignUp WscLayout.blobAlign blobs.length - blobs.length) 0 ++ bytes,
      by simp [attToRow, align8Vec, List.append_assoc]⟩
  | descend w => exact ⟨[], by simp [attToRow]⟩

theorem attOf_atom_row (B : Bytes) (r : AttRow) (ht : r.tag = WscLayout.tagAtom) :
    attOf B [r] = (if satAdd r.off r.len ≤ B.length
      then .ok (some (.atom r.tyOrWarp (slice B r.off (satAdd r.off r.len - r.off))))
      else .error .blobOutOfRange) := by
  simp [attOf, ht]

theorem attOf_descend_row (B : Bytes) (r : AttRow) (ht : r.tag = WscLayout.tagDescend) :
    attOf B [r] = .ok (some (.descend r.tyOrWarp)) := by
  have : (WscLayout.tagDescend == WscLayout.tagAtom) = false := by decide
  simp [attOf, ht, this]

/-- `blob_for_attachment` on the row `att_to_row` produced returns the payload, whatever is appended
    to the arena later (alignment padding included). -/
theorem attOf_attToRow (a : Att) (blobs BX : Bytes)
    (h : ((attToRow a blobs).2 ++ BX).length ≤ u64Max) :
    attOf ((attToRow a blobs).2 ++ BX) [(attToRow a blobs).1] = .ok (some a) := by
  cases a with
  | atom ty bytes =>
    have hrow : attToRow (.atom ty bytes) blobs =
        (⟨WscLayout.tagAtom, 0, ty, (align8Vec blobs).length, bytes.length⟩, align8Vec blobs ++ bytes) := rfl
    rw [hrow] at h ⊢
    simp only [] at h ⊢
    rw [attOf_atom_row _ _ rfl]
    simp only []
    have hl : (align8Vec blobs).length + bytes.length ≤ (align8Vec blobs ++ bytes ++ BX).length := by
      simp
    rw [satAdd_le hl h, if_pos hl]
    have e : (align8Vec blobs).length + bytes.length - (align8Vec blobs).length = bytes.length := by omega
    rw [e, List.append_assoc, slice_mid]
  | descend w =>
    have hrow : attToRow (.descend w) blobs = (⟨WscLayout.tagDescend, 0, w, 0, 0⟩, blobs) := rfl
    rw [hrow]
    simp only []
    rw [attOf_descend_row _ _ rfl]

theorem attLoop_back (atts : SMap Nat Att) : ∀ (owners : List Nat) (ix : List Range) (rows : List AttRow)
    (blobs : Bytes), ∃ ixs rs bs,
      attLoop atts owners ix rows blobs = (ix ++ ixs, rows ++ rs, blobs ++ bs) ∧
      ixs.length = owners.length ∧
      ∀ (RX : List AttRow) (BX : Bytes) (m : SMap Nat Att),
        (rows ++ (rs ++ RX)).length ≤ u64Max → (blobs ++ (bs ++ BX)).length ≤ u64Max →
        attsBack (blobs ++ (bs ++ BX)) (rows ++ (rs ++ RX)) owners ixs m = .ok (expected atts owners m)
  | [], ix, rows, blobs => ⟨[], [], [], by simp [attLoop], rfl, by
      intro RX BX m _ _; simp [attsBack, expected]⟩
  | o :: rest, ix, rows, blobs => by
    cases hf : SMap.find? o atts with
    | none =>
      obtain ⟨ixs, rs, bs, he, hlen, hb⟩ := attLoop_back atts rest (ix ++ [⟨rows.length, rows.length - rows.length⟩]) rows blobs
      refine ⟨⟨rows.length, 0⟩ :: ixs, rs, bs, ?_, by simp [hlen], ?_⟩
      · simp only [attLoop, hf]
        rw [he]; simp
      · intro RX BX m hR hB
        have hg : getRange (rows ++ (rs ++ RX)) ⟨rows.length, 0⟩ = ([] : List AttRow) := by
          have := getRange_mid rows ([] : List AttRow) (rs ++ RX) (by simpa using hR)
          simpa using this
        simp only [attsBack, hg, attOf]
        rw [hb RX BX m hR hB]
        simp [expected, hf]
    | some a =>
      obtain ⟨ext, hext⟩ := attToRow_blobs a blobs
      obtain ⟨ixs, rs, bs, he, hlen, hb⟩ := attLoop_back atts rest
        (ix ++ [⟨rows.length, (rows ++ [(attToRow a blobs).1]).length - rows.length⟩])
        (rows ++ [(attToRow a blobs).1]) (attToRow a blobs).2
      refine ⟨⟨rows.length, 1⟩ :: ixs, (attToRow a blobs).1 :: rs, ext ++ bs, ?_, by simp [hlen], ?_⟩
      · simp only [attLoop, hf]
        rw [he, hext]; simp
      · intro RX BX m hR hB
        have hR' : ((rows ++ [(attToRow a blobs).1]) ++ (rs ++ RX)).length ≤ u64Max := by
          simpa [List.append_assoc] using hR
        have hBe : blobs ++ (ext ++ bs ++ BX) = (attToRow a blobs).2 ++ (bs ++ BX) := by
          rw [hext]; simp [List.append_assoc]
        have hB' : ((attToRow a blobs).2 ++ (bs ++ BX)).length ≤ u64Max := by rw [← hBe]; exact hB
        have hg : getRange (rows ++ ((attToRow a blobs).1 :: rs ++ RX)) ⟨rows.length, 1⟩ = [(attToRow a blobs).1] := by
          have := getRange_mid rows [(attToRow a blobs).1] (rs ++ RX) (by simpa using hR)
          simpa using this
        have hRe : rows ++ ((attToRow a blobs).1 :: rs ++ RX) = (rows ++ [(attToRow a blobs).1]) ++ (rs ++ RX) := by
          simp [List.append_assoc]
        simp only [attsBack, hg]
        rw [hBe, attOf_attToRow a blobs (bs ++ BX) hB']
        simp only []
        rw [hRe, hb RX BX (SMap.insert o a m) hR' hB']
        simp [expected, hf]

/-! ## 3. maps rebuilt by insertion in row order -/

open SMap LinOrd in
theorem find?_expected (atts : SMap Nat Att) : ∀ (owners : List Nat) (m : SMap Nat Att) (k : Nat),
    find? k (expected atts owners m) =
      if k ∈ owners then (match find? k atts with | some a => some a | none => find? k m) else find? k m
  | [], m, k => by simp [expected]
  | o :: rest, m, k => by
    have ih := find?_expected atts rest
    simp only [expected, List.foldl_cons] at ih ⊢
    rw [ih]
    by_cases hk : k ∈ rest
    · simp only [hk, List.mem_cons, or_true, if_true]
      cases hka : find? k atts with
      | some a => rfl
      | none =>
        simp only []
        cases hoa : find? o atts with
        | none => rfl
        | some a =>
          simp only []
          rw [find?_insert]
          split
          · rename_i e; subst e; rw [hka] at hoa; cases hoa
          · rfl
    · simp only [hk, List.mem_cons, or_false, if_false]
      by_cases hko : k = o
      · subst hko
        simp only [if_true]
        cases hoa : find? k atts with
        | none => rfl
        | some a => simp only []; rw [find?_insert_self]
      · simp only [hko, if_false]
        cases hoa : find? o atts with
        | none => rfl
        | some a => simp only []; rw [find?_insert_ne a hko]

open SMap in
theorem sorted_expected (atts : SMap Nat Att) : ∀ (owners : List Nat) (m : SMap Nat Att),
    Sorted m → Sorted (expected atts owners m)
  | [], m, h => by simpa [expected] using h
  | o :: rest, m, h => by
    have ih := sorted_expected atts rest
    simp only [expected, List.foldl_cons] at ih ⊢
    apply ih
    cases find? o atts with
    | none => exact h
    | some a => exact sorted_insert o a h

/-- attachments whose owner has a row come back exactly. -/
theorem expected_eq (atts : SMap Nat Att) (owners : List Nat) (hs : SMap.Sorted atts)
    (hown : ∀ k v, (k, v) ∈ atts → k ∈ owners) : expected atts owners [] = atts := by
  apply SMap.ext (sorted_expected atts owners [] trivial) hs
  intro k
  rw [find?_expected]
  by_cases hk : k ∈ owners
  · simp only [hk, if_true]
    cases SMap.find? k atts <;> rfl
  · simp only [hk, if_false]
    cases hka : SMap.find? k atts with
    | none => rfl
    | some v => exact absurd (hown k v (SMap.find?_mem hka)) hk

open SMap LinOrd in
theorem insert_last {ν : Type} (k : Nat) (v : ν) : ∀ (m : SMap Nat ν), Sorted (m ++ [(k, v)]) →
    SMap.insert k v m = m ++ [(k, v)]
  | [], _ => rfl
  | (k', v') :: m', hs => by
    have hlt : lt k' k = true :=
      all_above (k := k') (m := m' ++ [(k, v)]) hs.1 hs.2 (k, v) (by simp)
    simp only [SMap.insert, List.cons_append]
    rw [if_neg (by rw [lt_asymm hlt]; simp), if_neg (fun e => ne_of_lt hlt e.symm)]
    rw [insert_last k v m' hs.2]

open SMap in
theorem foldl_insert_sorted {ν : Type} : ∀ (l m : SMap Nat ν), Sorted (m ++ l) →
    l.foldl (fun m (p : Nat × ν) => SMap.insert p.1 p.2 m) m = m ++ l
  | [], m, _ => by simp
  | (k, v) :: l', m, hs => by
    have hpre : Sorted (m ++ [(k, v)]) := by
      have : ∀ (a b : SMap Nat ν), Sorted (a ++ b) → Sorted a := by
        intro a
        induction a with
        | nil => intro _ _; trivial
        | cons p a' ih =>
          intro b h
          obtain ⟨p1, p2⟩ := p
          refine ⟨?_, ih b h.2⟩
          cases a' with
          | nil => trivial
          | cons q a'' => obtain ⟨q1, q2⟩ := q; exact h.1
      have h2 : Sorted ((m ++ [(k, v)]) ++ l') := by simpa [List.append_assoc] using hs
      exact this _ _ h2
    simp only [List.foldl_cons]
    rw [insert_last k v m hpre, foldl_insert_sorted l' (m ++ [(k, v)]) (by simpa [List.append_assoc] using hs)]
    simp [List.append_assoc]

/-! ## 4. rows → store undoes store → rows (`toStore ∘ build = id`) -/

/-- Well-formedness the round trip needs: the four maps are maps (strictly sorted by id — the
    `BTreeMap` invariant), attachments sit on existing owners only, the root passes the writer's
    assertion.  Dangling edge endpoints are allowed. -/
structure WscOk (st : Store) (root : Nat) : Prop where
  nodesSorted : SMap.Sorted st.nodes
  edgesSorted : SMap.Sorted st.edges
  nodeAttSorted : SMap.Sorted st.nodeAtt
  edgeAttSorted : SMap.Sorted st.edgeAtt
  nodeAttOwned : ∀ k v, (k, v) ∈ st.nodeAtt → k ∈ st.nodes.map (·.1)
  edgeAttOwned : ∀ k v, (k, v) ∈ st.edgeAtt → k ∈ st.edges.map (·.1)
  rootOk : (SMap.find? root st.nodes).isSome ∨ (st.nodes = [] ∧ root = 0)

/-- the sizes that must fit `u64` for the consumer's `saturating_add`s to be exact. -/
def InputSmall (i : Input) : Prop :=
  i.nodeAtts.length ≤ u64Max ∧ i.edgeAtts.length ≤ u64Max ∧ i.blobs.length ≤ u64Max

theorem ixOf_some (id : Nat) : ∀ (l : List (Nat × EdgeRec)) (i : Nat), id ∈ l.map (·.1) → ∃ j, ixOf id l i = some j
  | [], _, h => by cases h
  | (k, e) :: rest, i, h => by
    simp only [ixOf]
    cases hr : ixOf id rest (i + 1) with
    | some j => exact ⟨j, rfl⟩
    | none =>
      simp only [List.map_cons, List.mem_cons] at h
      rcases h with h | h
      · exact ⟨i, by simp [h]⟩
      · obtain ⟨j, hj⟩ := ixOf_some id rest (i + 1) h; rw [hj] at hr; cases hr

theorem pushBucket_ok (all : List (Nat × EdgeRec)) : ∀ (b : List (Nat × EdgeRec)) (acc : List OutRef),
    (∀ p ∈ b, p.1 ∈ all.map (·.1)) → ∃ oe, pushBucket all b acc = .ok oe
  | [], acc, _ => ⟨acc, rfl⟩
  | (id, e) :: rest, acc, h => by
    obtain ⟨j, hj⟩ := ixOf_some id all 0 (h (id, e) (by simp))
    simp only [pushBucket, hj]
    exact pushBucket_ok all rest _ (fun p hp => h p (by simp [hp]))

theorem outLoop_ok (all : List (Nat × EdgeRec)) : ∀ (nodes : List (Nat × Nat)) (oi : List Range) (oe : List OutRef),
    ∃ r, outLoop all nodes oi oe = .ok r
  | [], oi, oe => ⟨_, rfl⟩
  | (n, t) :: rest, oi, oe => by
    obtain ⟨oe', h⟩ := pushBucket_ok all (all.filter (fun e => e.2.src == n)) oe (by
      intro p hp
      have := (List.mem_filter.mp hp).1
      exact List.mem_map_of_mem this)
    simp only [outLoop, h]
    exact outLoop_ok all rest _ _

/-- `build` never hits the `expect` and fails exactly on the root assertion. -/
theorem build_ok (st : Store) (root : Nat) (h : WscOk st root) : ∃ i, build st root = .ok i := by
  obtain ⟨r, hr⟩ := outLoop_ok st.edges st.nodes [] []
  have hroot : (!((SMap.find? root st.nodes).isSome || (st.nodes.isEmpty && root == 0))) = false := by
    rcases h.rootOk with h1 | ⟨h1, h2⟩
    · simp [h1]
    · simp [h1, h2]
  unfold build
  simp only [hroot, hr]
  exact ⟨_, rfl⟩

theorem build_rootMissing (st : Store) (root : Nat)
    (h : ¬ ((SMap.find? root st.nodes).isSome ∨ (st.nodes = [] ∧ root = 0))) :
    build st root = .error .rootMissing := by
  have hroot : (!((SMap.find? root st.nodes).isSome || (st.nodes.isEmpty && root == 0))) = true := by
    cases h1 : (SMap.find? root st.nodes).isSome
    · cases h2 : st.nodes with
      | nil =>
        have : root ≠ 0 := fun e => h (Or.inr ⟨h2, e⟩)
        simp [this]
      | cons p l => simp
    · exact absurd (Or.inl h1) h
  unfold build
  simp [hroot]

/-- **Rows-level round trip, full strength**: for every store satisfying `WscOk` (dangling edge
    endpoints allowed) the rows `build_one_warp_input` produces rebuild exactly the store, whatever
    header fields the view carries. -/
theorem toStore_build (st : Store) (root : Nat) (h : WscOk st root) (i : Input)
    (hb : build st root = .ok i) (hsm : InputSmall i) (schema tick warp : Nat) :
    toStore { schema, tick, warp, inp := i } = .ok st ∧ i.root = root := by
  obtain ⟨r, hr⟩ := outLoop_ok st.edges st.nodes [] []
  have hroot : (!((SMap.find? root st.nodes).isSome || (st.nodes.isEmpty && root == 0))) = false := by
    rcases h.rootOk with h1 | ⟨h1, h2⟩
    · simp [h1]
    · simp [h1, h2]
  obtain ⟨ixs1, rs1, bs1, he1, hl1, hb1⟩ := attLoop_back st.nodeAtt (st.nodes.map (·.1)) [] [] []
  obtain ⟨ixs2, rs2, bs2, he2, hl2, hb2⟩ := attLoop_back st.edgeAtt (st.edges.map (·.1)) [] [] ([] ++ bs1)
  unfold build at hb
  simp only [hroot, hr, he1, he2] at hb
  simp only [Bool.false_eq_true, if_false] at hb
  cases hb
  obtain ⟨hs1, hs2, hs3⟩ := hsm
  simp only [List.nil_append] at hs1 hs2 hs3 hb1 hb2
  refine ⟨?_, rfl⟩
  unfold toStore
  simp only [List.nil_append, List.map_map]
  have e1 : (st.nodes.map (fun (p : Nat × Nat) => ({ id := p.1, ty := p.2 } : NodeRow))).map (·.id)
      = st.nodes.map (·.1) := by simp [List.map_map, Function.comp_def]
  have e2 : (st.edges.map (fun (p : Nat × EdgeRec) =>
      ({ id := p.1, src := p.2.src, dst := p.2.dst, ty := p.2.ty } : EdgeRow))).map (·.id)
      = st.edges.map (·.1) := by simp [List.map_map, Function.comp_def]
  have hn := hb1 [] bs2 [] (by simpa using hs1) (by simpa using hs3)
  have hee := hb2 [] [] [] (by simpa using hs2) (by simpa using hs3)
  simp only [List.append_nil] at hn hee
  simp only [Function.comp_def] at e1 e2 ⊢
  rw [hn, hee]
  simp only []
  rw [expected_eq _ _ h.nodeAttSorted h.nodeAttOwned, expected_eq _ _ h.edgeAttSorted h.edgeAttOwned]
  have f1 : (st.nodes.map (fun (p : Nat × Nat) => ({ id := p.1, ty := p.2 } : NodeRow))).foldl
      (fun m r => SMap.insert r.id r.ty m) [] = st.nodes := by
    rw [List.foldl_map]
    have := foldl_insert_sorted st.nodes [] (by simpa using h.nodesSorted)
    simpa using this
  have f2 : (st.edges.map (fun (p : Nat × EdgeRec) =>
      ({ id := p.1, src := p.2.src, dst := p.2.dst, ty := p.2.ty } : EdgeRow))).foldl
      (fun m r => SMap.insert r.id ({ src := r.src, dst := r.dst, ty := r.ty } : EdgeRec) m) [] = st.edges := by
    rw [List.foldl_map]
    have := foldl_insert_sorted st.edges [] (by simpa using h.edgesSorted)
    simpa using this
  rw [f1, f2]

/-! ## 5. the file is the plain concatenation of its sections; the size assertion never fires -/

theorem alignUp8 (n : Nat) (h : n % 8 = 0) : alignUp WscLayout.fileAlign n = n := by
  show (n + (8 - 1)) / 8 * 8 = n
  omega

theorem pad_id (buf : Bytes) (h : buf.length % 8 = 0) : writePadding buf = buf := by
  simp [writePadding, alignUp8 _ h]

theorem flatMap_length {α : Type} (enc : α → Bytes) (size : Nat) (h : ∀ r, (enc r).length = size) :
    ∀ (l : List α), (l.flatMap enc).length = l.length * size
  | [] => by simp
  | r :: rest => by
    simp only [List.flatMap_cons, List.length_append, List.length_cons, h, flatMap_length enc size h rest]
    rw [Nat.add_mul]; omega

theorem headerBytes_length (schema tick : Nat) : (headerBytes schema tick).length = 128 := by
  simp [headerBytes, id32_length, u64le_length]
  decide

theorem dirEntryBytes_length (i : Input) (warp : Nat) : (dirEntryBytes i warp).length = 184 := by
  simp [dirEntryBytes, id32_length, u64le_length]

/-- the sections, in file order. -/
def sections (i : Input) (warp schema tick : Nat) : List Bytes :=
  [headerBytes schema tick, dirEntryBytes i warp, i.nodes.flatMap NodeRow.enc, i.edges.flatMap EdgeRow.enc,
   i.outIndex.flatMap Range.enc, i.outEdges.flatMap OutRef.enc, i.nodeAttsIndex.flatMap Range.enc,
   i.nodeAtts.flatMap AttRow.enc, i.edgeAttsIndex.flatMap Range.enc, i.edgeAtts.flatMap AttRow.enc, i.blobs]

/-- **No padding byte is ever written between sections** (every row size is a multiple of the
    alignment): the buffer is the concatenation of header, directory entry and the nine sections. -/
theorem writeBuf_flat (i : Input) (warp schema tick : Nat) :
    writeBuf i warp schema tick = (sections i warp schema tick).flatten := by
  have lN := flatMap_length NodeRow.enc 64 NodeRow.enc_length i.nodes
  have lE := flatMap_length EdgeRow.enc 128 EdgeRow.enc_length i.edges
  have lOI := flatMap_length Range.enc 16 Range.enc_length i.outIndex
  have lOE := flatMap_length OutRef.enc 40 OutRef.enc_length i.outEdges
  have lNI := flatMap_length Range.enc 16 Range.enc_length i.nodeAttsIndex
  have lNA := flatMap_length AttRow.enc 56 AttRow.enc_length i.nodeAtts
  have lEI := flatMap_length Range.enc 16 Range.enc_length i.edgeAttsIndex
  have lEA := flatMap_length AttRow.enc 56 AttRow.enc_length i.edgeAtts
  have lH := headerBytes_length schema tick
  have lD := dirEntryBytes_length i warp
  have p0 : writePadding (headerBytes schema tick ++ dirEntryBytes i warp)
      = headerBytes schema tick ++ dirEntryBytes i warp := pad_id _ (by simp [lH, lD])
  have p1 := pad_id (headerBytes schema tick ++ dirEntryBytes i warp ++ i.nodes.flatMap NodeRow.enc)
    (by simp [lH, lD, lN]; omega)
  have p2 := pad_id (headerBytes schema tick ++ dirEntryBytes i warp ++ i.nodes.flatMap NodeRow.enc
    ++ i.edges.flatMap EdgeRow.enc) (by simp [lH, lD, lN, lE]; omega)
  have p3 := pad_id (headerBytes schema tick ++ dirEntryBytes i warp ++ i.nodes.flatMap NodeRow.enc
    ++ i.edges.flatMap EdgeRow.enc ++ i.outIndex.flatMap Range.enc) (by simp [lH, lD, lN, lE, lOI]; omega)
  have p4 := pad_id (headerBytes schema tick ++ dirEntryBytes i warp ++ i.nodes.flatMap NodeRow.enc
    ++ i.edges.flatMap EdgeRow.enc ++ i.outIndex.flatMap Range.enc ++ i.outEdges.flatMap OutRef.enc)
    (by simp [lH, lD, lN, lE, lOI, lOE]; omega)
  have p5 := pad_id (headerBytes schema tick ++ dirEntryBytes i warp ++ i.nodes.flatMap NodeRow.enc
    ++ i.edges.flatMap EdgeRow.enc ++ i.outIndex.flatMap Range.enc ++ i.outEdges.flatMap OutRef.enc
    ++ i.nodeAttsIndex.flatMap Range.enc) (by simp [lH, lD, lN, lE, lOI, lOE, lNI]; omega)
  have p6 := pad_id (headerBytes schema tick ++ dirEntryBytes i warp ++ i.nodes.flatMap NodeRow.enc
    ++ i.edges.flatMap EdgeRow.enc ++ i.outIndex.flatMap Range.enc ++ i.outEdges.flatMap OutRef.enc
    ++ i.nodeAttsIndex.flatMap Range.enc ++ i.nodeAtts.flatMap AttRow.enc)
    (by simp [lH, lD, lN, lE, lOI, lOE, lNI, lNA]; omega)
  have p7 := pad_id (headerBytes schema tick ++ dirEntryBytes i warp ++ i.nodes.flatMap NodeRow.enc
    ++ i.edges.flatMap EdgeRow.enc ++ i.outIndex.flatMap Range.enc ++ i.outEdges.flatMap OutRef.enc
    ++ i.nodeAttsIndex.flatMap Range.enc ++ i.nodeAtts.flatMap AttRow.enc ++ i.edgeAttsIndex.flatMap Range.enc)
    (by simp [lH, lD, lN, lE, lOI, lOE, lNI, lNA, lEI]; omega)
  have p8 := pad_id (headerBytes schema tick ++ dirEntryBytes i warp ++ i.nodes.flatMap NodeRow.enc
    ++ i.edges.flatMap EdgeRow.enc ++ i.outIndex.flatMap Range.enc ++ i.outEdges.flatMap OutRef.enc
    ++ i.nodeAttsIndex.flatMap Range.enc ++ i.nodeAtts.flatMap AttRow.enc ++ i.edgeAttsIndex.flatMap Range.enc
    ++ i.edgeAtts.flatMap AttRow.enc) (by simp [lH, lD, lN, lE, lOI, lOE, lNI, lNA, lEI, lEA]; omega)
  unfold writeBuf
  simp only []
  rw [p0, p1, p2, p3, p4, p5, p6, p7, p8]
  simp [sections, List.append_assoc]

theorem writeBuf_length (i : Input) (warp schema tick : Nat) :
    (writeBuf i warp schema tick).length =
      312 + i.nodes.length * 64 + i.edges.length * 128 + i.outIndex.length * 16 + i.outEdges.length * 40
        + i.nodeAttsIndex.length * 16 + i.nodeAtts.length * 56 + i.edgeAttsIndex.length * 16
        + i.edgeAtts.length * 56 + i.blobs.length := by
  rw [writeBuf_flat]
  simp [sections, headerBytes_length, dirEntryBytes_length,
    flatMap_length NodeRow.enc 64 NodeRow.enc_length, flatMap_length EdgeRow.enc 128 EdgeRow.enc_length,
    flatMap_length Range.enc 16 Range.enc_length, flatMap_length OutRef.enc 40 OutRef.enc_length,
    flatMap_length AttRow.enc 56 AttRow.enc_length]
  omega

/-- the offsets `write_wsc_one_warp` pre-computes are the running sums of the section sizes. -/
theorem offsets_flat (i : Input) :
    offsets i =
      { nodes := 312,
        edges := 312 + i.nodes.length * 64,
        outIndex := 312 + i.nodes.length * 64 + i.edges.length * 128,
        outEdges := 312 + i.nodes.length * 64 + i.edges.length * 128 + i.outIndex.length * 16,
        nodeAttsIndex := 312 + i.nodes.length * 64 + i.edges.length * 128 + i.outIndex.length * 16
          + i.outEdges.length * 40,
        nodeAtts := 312 + i.nodes.length * 64 + i.edges.length * 128 + i.outIndex.length * 16
          + i.outEdges.length * 40 + i.nodeAttsIndex.length * 16,
        edgeAttsIndex := 312 + i.nodes.length * 64 + i.edges.length * 128 + i.outIndex.length * 16
          + i.outEdges.length * 40 + i.nodeAttsIndex.length * 16 + i.nodeAtts.length * 56,
        edgeAtts := 312 + i.nodes.length * 64 + i.edges.length * 128 + i.outIndex.length * 16
          + i.outEdges.length * 40 + i.nodeAttsIndex.length * 16 + i.nodeAtts.length * 56
          + i.edgeAttsIndex.length * 16,
        blobs := 312 + i.nodes.length * 64 + i.edges.length * 128 + i.outIndex.length * 16
          + i.outEdges.length * 40 + i.nodeAttsIndex.length * 16 + i.nodeAtts.length * 56
          + i.edgeAttsIndex.length * 16 + i.edgeAtts.length * 56,
        total := 312 + i.nodes.length * 64 + i.edges.length * 128 + i.outIndex.length * 16
          + i.outEdges.length * 40 + i.nodeAttsIndex.length * 16 + i.nodeAtts.length * 56
          + i.edgeAttsIndex.length * 16 + i.edgeAtts.length * 56 + i.blobs.length } := by
  have a0 : align8 (WscLayout.sizeWscHeader + WscLayout.sizeWarpDirEntry) = 312 := by decide
  have sz : WscLayout.sizeNodeRow = 64 ∧ WscLayout.sizeEdgeRow = 128 ∧ WscLayout.sizeRange = 16 ∧
      WscLayout.sizeOutEdgeRef = 40 ∧ WscLayout.sizeAttRow = 56 := by decide
  obtain ⟨s1, s2, s3, s4, s5⟩ := sz
  have al : ∀ n, n % 8 = 0 → align8 n = n := fun n h => alignUp8 n h
  unfold offsets
  simp only [a0, s1, s2, s3, s4, s5]
  rw [al (312 + i.nodes.length * 64) (by omega)]
  rw [al (312 + i.nodes.length * 64 + i.edges.length * 128) (by omega)]
  rw [al (312 + i.nodes.length * 64 + i.edges.length * 128 + i.outIndex.length * 16) (by omega)]
  rw [al (312 + i.nodes.length * 64 + i.edges.length * 128 + i.outIndex.length * 16 + i.outEdges.length * 40) (by omega)]
  rw [al (312 + i.nodes.length * 64 + i.edges.length * 128 + i.outIndex.length * 16 + i.outEdges.length * 40
    + i.nodeAttsIndex.length * 16) (by omega)]
  rw [al (312 + i.nodes.length * 64 + i.edges.length * 128 + i.outIndex.length * 16 + i.outEdges.length * 40
    + i.nodeAttsIndex.length * 16 + i.nodeAtts.length * 56) (by omega)]
  rw [al (312 + i.nodes.length * 64 + i.edges.length * 128 + i.outIndex.length * 16 + i.outEdges.length * 40
    + i.nodeAttsIndex.length * 16 + i.nodeAtts.length * 56 + i.edgeAttsIndex.length * 16) (by omega)]
  rw [al (312 + i.nodes.length * 64 + i.edges.length * 128 + i.outIndex.length * 16 + i.outEdges.length * 40
    + i.nodeAttsIndex.length * 16 + i.nodeAtts.length * 56 + i.edgeAttsIndex.length * 16
    + i.edgeAtts.length * 56) (by omega)]

/-- **The writer's `assert_eq!(buf.len(), total_size)` never fires**, for every input whatsoever. -/
theorem write_ok (i : Input) (warp schema tick : Nat) :
    write i warp schema tick = .ok (sections i warp schema tick).flatten := by
  unfold write
  simp only []
  rw [if_pos (by rw [writeBuf_length, offsets_flat])]
  rw [writeBuf_flat]

/-! ## 6. fixed-width codecs: every row type decodes what it encodes -/

theorem ofNat_toNat_mod (x : Nat) : (UInt8.ofNat (x % 256)).toNat = x % 256 := by
  have : x % 256 < 256 := Nat.mod_lt _ (by decide)
  simp [UInt8.toNat_ofNat, Nat.mod_eq_of_lt this]

theorem natToBE_succ (len n : Nat) :
    natToBE (len + 1) n = natToBE len (n / 256) ++ [UInt8.ofNat (n % 256)] := by
  unfold natToBE
  rw [List.range_succ, List.map_append]
  congr 1
  · apply List.map_congr_left
    intro i hi
    have hi' : i < len := List.mem_range.mp hi
    have e : len + 1 - 1 - i = (len - 1 - i) + 1 := by omega
    rw [e, Nat.pow_succ, Nat.mul_comm, ← Nat.div_div_eq_div_mul]
  · simp

theorem beNat_append_single (xs : Bytes) (b : UInt8) : beNat (xs ++ [b]) = beNat xs * 256 + b.toNat := by
  simp [beNat, List.foldl_append]

theorem beNat_natToBE : ∀ (len n : Nat), beNat (natToBE len n) = n % 256 ^ len
  | 0, n => by simp [natToBE, beNat, Nat.mod_one]
  | len + 1, n => by
    rw [natToBE_succ, beNat_append_single, beNat_natToBE len (n / 256), ofNat_toNat_mod]
    rw [Nat.pow_succ, Nat.mul_comm (256 ^ len) 256, Nat.mod_mul]
    omega

theorem natToLE_succ (len n : Nat) :
    natToLE (len + 1) n = UInt8.ofNat (n % 256) :: natToLE len (n / 256) := by
  unfold natToLE
  rw [List.range_succ_eq_map, List.map_cons, List.map_map]
  congr 1
  · simp
  · apply List.map_congr_left
    intro i _
    simp only [Function.comp]
    rw [Nat.pow_succ, Nat.mul_comm, ← Nat.div_div_eq_div_mul]

theorem leNat_natToLE : ∀ (len n : Nat), leNat (natToLE len n) = n % 256 ^ len
  | 0, n => by simp [natToLE, leNat, Nat.mod_one]
  | len + 1, n => by
    rw [natToLE_succ]
    simp only [leNat, List.foldr_cons]
    have ih := leNat_natToLE len (n / 256)
    simp only [leNat] at ih
    rw [ih, ofNat_toNat_mod, Nat.pow_succ, Nat.mul_comm (256 ^ len) 256, Nat.mod_mul]

def IdOk (n : Nat) : Prop := n < 256 ^ 32
def U64Ok (n : Nat) : Prop := n < 256 ^ 8

theorem rdId_at (pre post : Bytes) (n : Nat) (h : IdOk n) :
    rdId (pre ++ (id32 n ++ post)) pre.length = n := by
  have := slice_mid pre (id32 n) post
  rw [id32_length] at this
  rw [rdId, this, id32, beNat_natToBE, Nat.mod_eq_of_lt h]

theorem rdU64_at (pre post : Bytes) (n : Nat) (h : U64Ok n) :
    rdU64 (pre ++ (u64le n ++ post)) pre.length = n := by
  have := slice_mid pre (u64le n) post
  rw [u64le_length] at this
  rw [rdU64, this, u64le, leNat_natToLE, Nat.mod_eq_of_lt h]

theorem NodeRow.dec_enc (r : NodeRow) (h1 : IdOk r.id) (h2 : IdOk r.ty) : NodeRow.dec r.enc = r := by
  have a := rdId_at [] (id32 r.ty) r.id h1
  have b := rdId_at (id32 r.id) [] r.ty h2
  simp only [List.nil_append, List.length_nil, List.append_nil, id32_length] at a b
  simp [NodeRow.dec, NodeRow.enc, a, b]

theorem EdgeRow.dec_enc (r : EdgeRow) (h1 : IdOk r.id) (h2 : IdOk r.src) (h3 : IdOk r.dst) (h4 : IdOk r.ty) :
    EdgeRow.dec r.enc = r := by
  have a := rdId_at [] (id32 r.src ++ id32 r.dst ++ id32 r.ty) r.id h1
  have b := rdId_at (id32 r.id) (id32 r.dst ++ id32 r.ty) r.src h2
  have c := rdId_at (id32 r.id ++ id32 r.src) (id32 r.ty) r.dst h3
  have d := rdId_at (id32 r.id ++ id32 r.src ++ id32 r.dst) [] r.ty h4
  simp only [List.nil_append, List.length_nil, List.append_nil, id32_length, List.length_append,
    List.append_assoc] at a b c d
  simp [EdgeRow.dec, EdgeRow.enc, a, b, c, d, List.append_assoc]

theorem Range.dec_enc (r : Range) (h1 : U64Ok r.start) (h2 : U64Ok r.len) : Range.dec r.enc = r := by
  have a := rdU64_at [] (u64le r.len) r.start h1
  have b := rdU64_at (u64le r.start) [] r.len h2
  simp only [List.nil_append, List.length_nil, List.append_nil, u64le_length] at a b
  simp [Range.dec, Range.enc, a, b]

theorem OutRef.dec_enc (r : OutRef) (h1 : U64Ok r.ix) (h2 : IdOk r.id) : OutRef.dec r.enc = r := by
  have a := rdU64_at [] (id32 r.id) r.ix h1
  have b := rdId_at (u64le r.ix) [] r.id h2
  simp only [List.nil_append, List.length_nil, List.append_nil, u64le_length] at a b
  simp [OutRef.dec, OutRef.enc, a, b]

theorem rdBE_at (pre post : Bytes) (len n : Nat) (h : n < 256 ^ len) :
    beNat (slice (pre ++ (natToBE len n ++ post)) pre.length len) = n := by
  have := slice_mid pre (natToBE len n) post
  rw [natToBE_length] at this
  rw [this, beNat_natToBE, Nat.mod_eq_of_lt h]

theorem AttRow.dec_enc (r : AttRow) (h1 : r.tag < 256) (h2 : r.reserved < 256 ^ 7) (h3 : IdOk r.tyOrWarp)
    (h4 : U64Ok r.off) (h5 : U64Ok r.len) : AttRow.dec r.enc = r := by
  have a := rdBE_at [] (natToBE 7 r.reserved ++ id32 r.tyOrWarp ++ u64le r.off ++ u64le r.len) 1 r.tag (by simpa using h1)
  have b := rdBE_at (natToBE 1 r.tag) (id32 r.tyOrWarp ++ u64le r.off ++ u64le r.len) 7 r.reserved h2
  have c := rdId_at (natToBE 1 r.tag ++ natToBE 7 r.reserved) (u64le r.off ++ u64le r.len) r.tyOrWarp h3
  have d := rdU64_at (natToBE 1 r.tag ++ natToBE 7 r.reserved ++ id32 r.tyOrWarp) (u64le r.len) r.off h4
  have e := rdU64_at (natToBE 1 r.tag ++ natToBE 7 r.reserved ++ id32 r.tyOrWarp ++ u64le r.off) [] r.len h5
  simp only [List.nil_append, List.length_nil, List.append_nil, id32_length, u64le_length, natToBE_length,
    List.length_append, List.append_assoc] at a b c d e
  simp [AttRow.dec, AttRow.enc, a, b, c, d, e, List.append_assoc]

/-- a section of fixed-size rows decodes to the rows that were written, whatever follows it. -/
theorem rowsOf_flatMap {α : Type} (enc : α → Bytes) (dec : Bytes → α) (size : Nat) (P : α → Prop)
    (hl : ∀ r, (enc r).length = size) (hd : ∀ r, P r → dec (enc r) = r) :
    ∀ (rows : List α) (rest : Bytes), (∀ r ∈ rows, P r) →
      rowsOf dec size rows.length (rows.flatMap enc ++ rest) = rows
  | [], rest, _ => rfl
  | r :: rows, rest, h => by
    simp only [List.flatMap_cons, List.length_cons, rowsOf, List.append_assoc]
    have t : (enc r ++ (rows.flatMap enc ++ rest)).take size = enc r := by
      rw [← hl r]; simp
    have d : (enc r ++ (rows.flatMap enc ++ rest)).drop size = rows.flatMap enc ++ rest := by
      rw [← hl r]; simp
    rw [t, d, hd r (h r (by simp)), rowsOf_flatMap enc dec size P hl hd rows rest (fun x hx => h x (by simp [hx]))]

/-! ## 7. consequences and the composed statement -/

/-- `build` is injective on well-formed stores: two stores (and roots) with the same rows are equal.
    (With the `SMap` representation "the bytes do not depend on insertion order" is true by
    construction — a `Store` has no insertion order — so the statement with content is this one:
    no two different abstract stores share a file.) -/
theorem build_injective (st st' : Store) (root root' : Nat) (h : WscOk st root) (h' : WscOk st' root')
    (i : Input) (hb : build st root = .ok i) (hb' : build st' root' = .ok i) (hsm : InputSmall i) :
    st = st' ∧ root = root' := by
  obtain ⟨a, ra⟩ := toStore_build st root h i hb hsm 0 0 0
  obtain ⟨b, rb⟩ := toStore_build st' root' h' i hb' hsm 0 0 0
  rw [a] at b
  exact ⟨by injection b, ra.symm.trans rb⟩

/-- `wsc_build_order_free`, honest form: the file is a function of the abstract store, the warp id,
    the schema hash and the tick — `rfl`, because nothing else is an argument of the model.  What the
    real code adds (bucket insertion order, index maintenance) is compared on the real code by the
    oracle (`C06.wscb.order-dependent.*`). -/
theorem wsc_build_order_free (st : Store) (root warp schema tick : Nat) (i : Input) (hb : build st root = .ok i) :
    write i warp schema tick = .ok (sections i warp schema tick).flatten := write_ok i warp schema tick

/-- **`wsc_roundtrip_partial`.**  For every `WscOk` store: the writer succeeds (no assertion fires),
    the file is exactly `header ‖ dir entry ‖ nine sections` with no padding, the rows rebuild the
    store and the root, and each fixed-size section decodes (by the reader's row decoder, whatever
    bytes follow) to the rows written.
    MISSING for the full `read (write (build st root) w sh t) = .ok v ∧ toStore v = .ok st`: the
    composition through `readFile`/`viewNew` (the 15 `u64` fields of the directory entry read back
    as the offsets of `offsets_flat`, and each `readSlice` cutting out its section), the `AttRow`
    codec lemma, and `validateView` accepting the rows of `build`.  Those steps are exercised by the
    stream tie on every generated case and by the kernel-checked example below, not proved. -/
theorem wsc_roundtrip_partial (st : Store) (root warp schema tick : Nat) (h : WscOk st root) :
    ∃ i, build st root = .ok i ∧
      write i warp schema tick = .ok (sections i warp schema tick).flatten ∧
      (InputSmall i → toStore { schema, tick, warp, inp := i } = .ok st ∧ i.root = root) ∧
      (∀ rest, (∀ r ∈ i.nodes, IdOk r.id ∧ IdOk r.ty) →
        rowsOf NodeRow.dec 64 i.nodes.length (i.nodes.flatMap NodeRow.enc ++ rest) = i.nodes) ∧
      (∀ rest, (∀ r ∈ i.edges, IdOk r.id ∧ IdOk r.src ∧ IdOk r.dst ∧ IdOk r.ty) →
        rowsOf EdgeRow.dec 128 i.edges.length (i.edges.flatMap EdgeRow.enc ++ rest) = i.edges) := by
  obtain ⟨i, hb⟩ := build_ok st root h
  refine ⟨i, hb, write_ok i warp schema tick, fun hsm => toStore_build st root h i hb hsm schema tick warp, ?_, ?_⟩
  · intro rest hr
    exact rowsOf_flatMap NodeRow.enc NodeRow.dec 64 (fun r => IdOk r.id ∧ IdOk r.ty) NodeRow.enc_length
      (fun r hr => NodeRow.dec_enc r hr.1 hr.2) i.nodes rest hr
  · intro rest hr
    exact rowsOf_flatMap EdgeRow.enc EdgeRow.dec 128 (fun r => IdOk r.id ∧ IdOk r.src ∧ IdOk r.dst ∧ IdOk r.ty)
      EdgeRow.enc_length (fun r hr => EdgeRow.dec_enc r hr.1 hr.2.1 hr.2.2.1 hr.2.2.2) i.edges rest hr

/-! ## 8. non-vacuity, and the whole pipeline on a concrete store (a kernel-checked TEST, not the theorem) -/

/-- two nodes (one with a 3-byte atom, so the arena is padded before the next atom), a self-loop-free
    edge with a β portal, an edge whose source is not a node, an edge atom after the padding. -/
def sample : Store :=
  { nodes := [(1, 16), (2, 17), (5, 16)],
    edges := [(33, ⟨1, 2, 48⟩), (34, ⟨9, 1, 49⟩), (35, ⟨2, 2, 48⟩)],
    nodeAtt := [(1, .atom 112 [1, 2, 3]), (5, .descend 162)],
    edgeAtt := [(33, .descend 163), (35, .atom 113 [7, 7, 7, 7, 7, 7, 7, 7, 9])] }

theorem sample_ok : WscOk sample 2 where
  nodesSorted := by simp [sample, SMap.Sorted, SMap.Above, LinOrd.lt]
  edgesSorted := by simp [sample, SMap.Sorted, SMap.Above, LinOrd.lt]
  nodeAttSorted := by simp [sample, SMap.Sorted, SMap.Above, LinOrd.lt]
  edgeAttSorted := by simp [sample, SMap.Sorted, SMap.Above, LinOrd.lt]
  nodeAttOwned := by
    intro k v hk
    simp [sample] at hk ⊢
    rcases hk with ⟨h, _⟩ | ⟨h, _⟩ <;> simp [h]
  edgeAttOwned := by
    intro k v hk
    simp [sample] at hk ⊢
    rcases hk with ⟨h, _⟩ | ⟨h, _⟩ <;> simp [h]
  rootOk := Or.inl (by decide)

example : (match build sample 2 with
    | .ok i => match write i 161 7 9 with
      | .ok bytes => match read bytes, validate bytes with
        | .ok v, .ok () => match toStore v with
          | .ok st => decide (st = sample) && decide (v.inp = i) && v.warp == 161 && v.root == 2 &&
              v.schema == 7 && v.tick == 9 && outIndexConsistent v.inp && bytes.length == 1353
          | _ => false
        | _, _ => false
      | _ => false
    | _ => false) = true := by
  decide +kernel

/-- the root assertion: a non-empty store with a root that is not a node is refused. -/
example : build sample 3 = .error .rootMissing := build_rootMissing sample 3 (by decide)

end WscFile
end EchoVerif
