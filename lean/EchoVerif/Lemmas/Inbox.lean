/-
  Helper lemmas for C08 (Model/Inbox.lean).
-/
import EchoVerif.Model.Inbox
import EchoVerif.Lemmas.FoldPerm

set_option linter.unusedSimpArgs false
set_option linter.unusedVariables false
set_option linter.unusedSectionVars false

namespace EchoVerif
namespace SMap
variable {κ ν : Type} [DecidableEq κ] [LinOrd κ]
open LinOrd

/-- Building a sorted set by repeated insertion. -/
def insertAll (ks : List κ) (m : SMap κ Unit) : SMap κ Unit := ks.foldl (fun m k => insert k () m) m

theorem sorted_insertAll (ks : List κ) : ∀ {m : SMap κ Unit}, Sorted m → Sorted (insertAll ks m) := by
  induction ks with
  | nil => intro m h; exact h
  | cons k ks ih => intro m h; exact ih (sorted_insert k () h)

theorem find?_insertAll (q : κ) (ks : List κ) : ∀ (m : SMap κ Unit),
    find? q (insertAll ks m) = if q ∈ ks then some () else find? q m := by
  induction ks with
  | nil => intro m; simp [insertAll]
  | cons k ks ih =>
    intro m
    show find? q (insertAll ks (insert k () m)) = _
    rw [ih, find?_insert]
    by_cases h1 : q ∈ ks
    · simp [h1]
    · by_cases h2 : q = k
      · simp [h1, h2]
      · simp [h1, h2]

theorem insertAll_congr {xs ys : List κ} (h : ∀ q, q ∈ xs ↔ q ∈ ys) {m : SMap κ Unit} (hs : Sorted m) :
    insertAll xs m = insertAll ys m := by
  apply ext (sorted_insertAll xs hs) (sorted_insertAll ys hs)
  intro q
  rw [find?_insertAll, find?_insertAll]
  by_cases hq : q ∈ xs
  · simp [hq, (h q).mp hq]
  · have : q ∉ ys := fun hy => hq ((h q).mpr hy)
    simp [hq, this]

theorem mem_keys_iff {m : SMap κ ν} (hs : Sorted m) (k : κ) : k ∈ keys m ↔ ∃ v, find? k m = some v := by
  constructor
  · intro h
    obtain ⟨p, hp, rfl⟩ := List.mem_map.mp h
    exact ⟨p.2, mem_find? hs hp⟩
  · intro ⟨v, hv⟩
    exact List.mem_map.mpr ⟨(k, v), find?_mem hv, rfl⟩

/-- Keys of a sorted map are strictly ascending. -/
theorem pairwise_keys : ∀ {m : SMap κ ν}, Sorted m → (keys m).Pairwise (fun a b => lt a b = true)
  | [], _ => List.Pairwise.nil
  | (k, v) :: rest, hs => by
    show List.Pairwise _ (k :: keys rest)
    refine List.Pairwise.cons ?_ (pairwise_keys hs.2)
    intro b hb
    obtain ⟨p, hp, rfl⟩ := List.mem_map.mp hb
    exact all_above hs.1 hs.2 p hp

theorem nodup_keys {m : SMap κ ν} (hs : Sorted m) : (keys m).Nodup :=
  (pairwise_keys hs).imp (fun h => ne_of_lt h)

theorem sorted_tail {p : κ × ν} {rest : SMap κ ν} (hs : Sorted (p :: rest)) : Sorted rest := by
  obtain ⟨k, v⟩ := p; exact hs.2

theorem sorted_drop : ∀ (n : Nat) {m : SMap κ ν}, Sorted m → Sorted (m.drop n)
  | 0, _, h => h
  | _ + 1, [], _ => trivial
  | n + 1, (k, v) :: rest, h => sorted_drop n h.2

theorem sorted_filter (f : κ × ν → Bool) : ∀ {m : SMap κ ν}, Sorted m → Sorted (m.filter f)
  | [], _ => trivial
  | (k, v) :: rest, hs => by
    have ih := sorted_filter f hs.2
    simp only [List.filter]
    split
    · refine ⟨?_, ih⟩
      cases hf : rest.filter f with
      | nil => trivial
      | cons q r =>
        obtain ⟨q1, q2⟩ := q
        have hm : (q1, q2) ∈ rest := (List.mem_filter.mp (hf ▸ List.mem_cons_self)).1
        exact all_above hs.1 hs.2 (q1, q2) hm
    · exact ih

theorem find?_filter (f : κ × ν → Bool) {m : SMap κ ν} (hs : Sorted m) (k : κ) :
    find? k (m.filter f) = (find? k m).filter (fun v => f (k, v)) := by
  cases h : find? k m with
  | none =>
    cases h2 : find? k (m.filter f) with
    | none => rfl
    | some v =>
      have := (List.mem_filter.mp (find?_mem h2)).1
      rw [mem_find? hs this] at h; cases h
  | some v =>
    simp only [Option.filter]
    have hm := find?_mem h
    by_cases hf : f (k, v) = true
    · simp only [hf, if_true]
      exact mem_find? (sorted_filter f hs) (List.mem_filter.mpr ⟨hm, hf⟩)
    · simp only [hf]
      cases h2 : find? k (m.filter f) with
      | none => rfl
      | some v' =>
        have hm' := List.mem_filter.mp (find?_mem h2)
        have : v' = v := by
          have := mem_find? hs hm'.1; rw [h] at this; exact (Option.some.inj this).symm
        subst this; exact absurd hm'.2 hf

end SMap

namespace Inbox
open SMap LinOrd

/-! ### canonical parents -/

theorem canonParents_eq (ps : List Parent) : canonParents ps = keys (insertAll ps []) := rfl

theorem canonParents_congr {xs ys : List Parent} (h : ∀ p, p ∈ xs ↔ p ∈ ys) :
    canonParents xs = canonParents ys := by
  rw [canonParents_eq, canonParents_eq, insertAll_congr h (m := []) trivial]

theorem mem_canonParents (ps : List Parent) (p : Parent) : p ∈ canonParents ps ↔ p ∈ ps := by
  rw [canonParents_eq, mem_keys_iff (sorted_insertAll ps (m := []) trivial)]
  constructor
  · intro ⟨v, hv⟩
    rw [find?_insertAll] at hv
    by_cases hp : p ∈ ps
    · exact hp
    · simp [hp, find?] at hv
  · intro hp
    exact ⟨(), by rw [find?_insertAll]; simp [hp]⟩

theorem canonParents_sorted (ps : List Parent) :
    (canonParents ps).Pairwise (fun a b => lt a b = true) :=
  pairwise_keys (sorted_insertAll ps (m := []) trivial)

/-! ### `HeadInbox::ingest` -/

theorem ingest_policy (ib : HeadInbox) (e : Envelope) : (ingest ib e).1.policy = ib.policy := by
  unfold ingest; split
  · split <;> rfl
  · rfl

theorem sorted_ingest (ib : HeadInbox) (e : Envelope) (hs : Sorted ib.pending) :
    Sorted (ingest ib e).1.pending := by
  unfold ingest; split
  · split
    · exact hs
    · exact sorted_insert _ _ hs
  · exact hs

theorem find?_ingest (ib : HeadInbox) (e : Envelope) (k : Nat) :
    find? k (ingest ib e).1.pending =
      match find? k ib.pending with
      | some v => some v
      | none => if k = e.id ∧ policyAccepts ib.policy e = true then some e else none := by
  unfold ingest
  by_cases hp : policyAccepts ib.policy e = true
  · simp only [hp, if_true, and_true]
    cases he : find? e.id ib.pending with
    | some v =>
      simp only
      cases hk : find? k ib.pending with
      | some w => rfl
      | none =>
        simp only
        by_cases hke : k = e.id
        · subst hke; rw [he] at hk; cases hk
        · simp [hke]
    | none =>
      simp only [find?_insert]
      by_cases hke : k = e.id
      · subst hke; simp [he]
      · simp only [if_neg hke]
        cases find? k ib.pending <;> rfl
  · simp only [hp, and_false, if_false]
    cases h : find? k ib.pending <;> simp [h]

/-- The disposition, explicitly. -/
theorem ingest_result (ib : HeadInbox) (e : Envelope) :
    (ingest ib e).2 =
      if policyAccepts ib.policy e = true then
        (if (find? e.id ib.pending).isSome then IngestResult.duplicate else IngestResult.accepted)
      else IngestResult.rejected := by
  unfold ingest
  split
  · cases find? e.id ib.pending <;> rfl
  · rfl

def ingestAll (ib : HeadInbox) (es : List Envelope) : HeadInbox := es.foldl (fun ib e => (ingest ib e).1) ib

theorem ingestAll_policy (es : List Envelope) : ∀ ib, (ingestAll ib es).policy = ib.policy := by
  induction es with
  | nil => intro ib; rfl
  | cons e es ih => intro ib; show (ingestAll (ingest ib e).1 es).policy = _; rw [ih, ingest_policy]

theorem sorted_ingestAll (es : List Envelope) : ∀ ib, Sorted ib.pending → Sorted (ingestAll ib es).pending := by
  induction es with
  | nil => intro ib h; exact h
  | cons e es ih => intro ib h; exact ih _ (sorted_ingest ib e h)

/-- What is pending after a run of ingests: what was pending before, plus — for every other id —
    the FIRST envelope of the run with that id that the policy accepts. -/
theorem find?_ingestAll (k : Nat) (es : List Envelope) : ∀ ib,
    find? k (ingestAll ib es).pending =
      match find? k ib.pending with
      | some v => some v
      | none => es.find? (fun e => decide (k = e.id) && policyAccepts ib.policy e) := by
  induction es with
  | nil => intro ib; show find? k ib.pending = _; cases find? k ib.pending <;> rfl
  | cons e es ih =>
    intro ib
    show find? k (ingestAll (ingest ib e).1 es).pending = _
    rw [ih, find?_ingest, ingest_policy]
    cases hk : find? k ib.pending with
    | some v => rfl
    | none =>
      simp only [List.find?]
      by_cases hc : k = e.id ∧ policyAccepts ib.policy e = true
      · simp [hc]
      · simp only [if_neg hc]
        have : (decide (k = e.id) && policyAccepts ib.policy e) = false := by
          cases hd : policyAccepts ib.policy e
          · simp
          · simp only [Bool.and_true, decide_eq_false_iff_not]
            intro hke; exact hc ⟨hke, hd⟩
        simp [this]

/-- Envelopes with the same id are the same envelope (content addressing). -/
def IdFaithful (es : List Envelope) : Prop := ∀ a ∈ es, ∀ b ∈ es, a.id = b.id → a = b

theorem find?_congr_of_faithful {xs ys : List Envelope} (hm : ∀ e, e ∈ xs ↔ e ∈ ys)
    (hf : IdFaithful xs) (k : Nat) (pol : Policy) :
    xs.find? (fun e => decide (k = e.id) && policyAccepts pol e)
      = ys.find? (fun e => decide (k = e.id) && policyAccepts pol e) := by
  have hfy : IdFaithful ys := fun a ha b hb h => hf a ((hm a).mpr ha) b ((hm b).mpr hb) h
  cases hx : xs.find? (fun e => decide (k = e.id) && policyAccepts pol e) with
  | none =>
    symm
    rw [List.find?_eq_none] at hx ⊢
    intro e he
    exact hx e ((hm e).mpr he)
  | some a =>
    have ha := List.find?_some hx
    have hax := List.mem_of_find?_eq_some hx
    cases hy : ys.find? (fun e => decide (k = e.id) && policyAccepts pol e) with
    | none =>
      rw [List.find?_eq_none] at hy
      exact absurd ha (hy a ((hm a).mp hax))
    | some b =>
      have hb := List.find?_some hy
      have hby := List.mem_of_find?_eq_some hy
      simp only [Bool.and_eq_true, decide_eq_true_eq] at ha hb
      have : a = b := hf a hax b ((hm b).mpr hby) (ha.1.symm.trans hb.1)
      rw [this]

/-! ### `HeadInbox::admit`, `set_policy` -/

theorem erase_head (k : Nat) (v : Envelope) (rest : SMap Nat Envelope) : erase k ((k, v) :: rest) = rest := by
  simp [erase, lt_irrefl]

/-- Removing the keys of the first `n` entries one by one leaves exactly the other entries. -/
theorem eraseAll_take_keys : ∀ (n : Nat) (m : SMap Nat Envelope), eraseAll (keys (m.take n)) m = m.drop n
  | 0, m => rfl
  | _ + 1, [] => rfl
  | n + 1, (k, v) :: rest => by
    show eraseAll (keys (List.take n rest)) (erase k ((k, v) :: rest)) = _
    rw [erase_head]; exact eraseAll_take_keys n rest

/-- Every `admit` is a split of the pending list at some position: the batch is a prefix (in key
    order), what stays pending is the matching suffix, the policy is untouched. -/
theorem admit_split (ib : HeadInbox) : ∃ n,
    (admitBatch ib).2 = values (ib.pending.take n) ∧ (admitBatch ib).1.pending = ib.pending.drop n ∧
    (admitBatch ib).1.policy = ib.policy ∧
    n = (match ib.policy with | .budgeted b => b | _ => ib.pending.length) := by
  unfold admitBatch
  cases hp : ib.policy with
  | budgeted b => exact ⟨b, rfl, eraseAll_take_keys b ib.pending, rfl, rfl⟩
  | acceptAll => exact ⟨ib.pending.length, by simp, by simp, rfl, rfl⟩
  | kindFilter ks => exact ⟨ib.pending.length, by simp, by simp, rfl, rfl⟩

theorem find?_of_find?_drop {m : SMap Nat Envelope} (hs : Sorted m) (n k : Nat) {e : Envelope}
    (h : find? k (m.drop n) = some e) : find? k m = some e :=
  mem_find? hs (List.mem_of_mem_drop (find?_mem h))

theorem sorted_take : ∀ (n : Nat) {m : SMap Nat Envelope}, Sorted m → Sorted (m.take n)
  | 0, _, _ => trivial
  | _ + 1, [], _ => trivial
  | n + 1, (k, v) :: rest, h => by
    refine ⟨?_, sorted_take n h.2⟩
    cases n with
    | zero => trivial
    | succ n =>
      cases rest with
      | nil => trivial
      | cons q r => obtain ⟨q1, q2⟩ := q; exact h.1

/-- A key of the admitted prefix is not a key of the remaining suffix. -/
theorem not_in_drop_of_in_take {m : SMap Nat Envelope} (hs : Sorted m) (n k : Nat)
    (h : k ∈ keys (m.take n)) : find? k (m.drop n) = none := by
  cases hf : find? k (m.drop n) with
  | none => rfl
  | some e =>
    exfalso
    have h2 : k ∈ keys (m.drop n) := List.mem_map.mpr ⟨(k, e), find?_mem hf, rfl⟩
    have hnd : (keys (m.take n) ++ keys (m.drop n)).Nodup := by
      have : keys (m.take n) ++ keys (m.drop n) = keys m := by
        simp only [keys, ← List.map_append, List.take_append_drop]
      rw [this]; exact nodup_keys hs
    exact (List.nodup_append.mp hnd).2.2 k h k h2 rfl

theorem setPolicy_find? (ib : HeadInbox) (p : Policy) (hs : Sorted ib.pending) (k : Nat) :
    find? k (setPolicy ib p).pending = (find? k ib.pending).filter (fun e => policyAccepts p e) :=
  find?_filter (fun kv => policyAccepts p kv.2) hs k

/-! ### one head: the at-most-once invariant -/

theorem recordCommitted_eq (c : SMap Nat Unit) (batch : List Envelope) :
    recordCommitted c batch = insertAll (batch.map (·.id)) c := by
  unfold recordCommitted insertAll; rw [List.foldl_map]

theorem contains_recordCommitted (c : SMap Nat Unit) (batch : List Envelope) (k : Nat) :
    contains k (recordCommitted c batch) = (decide (k ∈ batch.map (·.id)) || contains k c) := by
  unfold contains
  rw [recordCommitted_eq, find?_insertAll]
  by_cases h : k ∈ batch.map (·.id)
  · simp [h]
  · simp [h]

/-- Pending and committed are sorted maps, pending is keyed by ingress id, and nothing is both
    pending and committed. -/
structure Head.Inv (h : Head) : Prop where
  sp : Sorted h.inbox.pending
  sc : Sorted h.committed
  keyed : ∀ k e, find? k h.inbox.pending = some e → e.id = k
  disj : ∀ k, contains k h.committed = true → find? k h.inbox.pending = none

def Head.empty (p : Policy) : Head := { inbox := { pending := [], policy := p }, committed := [] }

theorem Head.inv_empty (p : Policy) : (Head.empty p).Inv :=
  ⟨trivial, trivial, fun k e h => (by cases h), fun k h => rfl⟩

theorem Head.ingest_committed (h : Head) (e : Envelope) : (h.ingest e).1.committed = h.committed := by
  unfold Head.ingest; split <;> rfl

theorem Head.inv_ingest (h : Head) (e : Envelope) (hi : h.Inv) : (h.ingest e).1.Inv := by
  unfold Head.ingest
  split
  · exact hi
  · rename_i hc
    refine ⟨sorted_ingest _ _ hi.sp, hi.sc, ?_, ?_⟩
    · intro k v hv
      show v.id = k
      have := find?_ingest h.inbox e k
      simp only at hv
      rw [this] at hv
      cases hk : find? k h.inbox.pending with
      | some w => rw [hk] at hv; cases hv; exact hi.keyed k _ hk
      | none =>
        rw [hk] at hv
        simp only at hv
        split at hv
        · rename_i hc2; cases hv; exact hc2.1.symm
        · cases hv
    · intro k hk
      simp only at hk ⊢
      rw [find?_ingest, hi.disj k hk]
      simp only
      split
      · rename_i hc2
        rw [hc2.1] at hk; exact absurd hk hc
      · rfl

theorem keys_eq_ids {m : SMap Nat Envelope} (hs : Sorted m)
    (hk : ∀ k e, find? k m = some e → e.id = k) (n : Nat) :
    (values (m.take n)).map (·.id) = keys (m.take n) := by
  simp only [values, keys, List.map_map]
  apply List.map_congr_left
  intro p hp
  obtain ⟨k, e⟩ := p
  exact hk k e (mem_find? hs (List.mem_of_mem_take hp))

theorem Head.tick_spec (h : Head) : ∃ n,
    (h.tick).1.inbox.pending = h.inbox.pending.drop n ∧
    (h.tick).1.inbox.policy = h.inbox.policy ∧
    (h.tick).2 = values (h.inbox.pending.take n) ∧
    (h.tick).1.committed = recordCommitted h.committed (h.tick).2 := by
  obtain ⟨n, h1, h2, h3, _⟩ := admit_split h.inbox
  refine ⟨n, ?_⟩
  unfold Head.tick
  simp only
  split
  · rename_i he
    refine ⟨h2, h3, ?_, ?_⟩
    · rw [← h1]; simp only [List.isEmpty_iff] at he; rw [he]
    · simp [recordCommitted]
  · exact ⟨h2, h3, h1, rfl⟩

theorem Head.inv_tick (h : Head) (hi : h.Inv) : (h.tick).1.Inv := by
  obtain ⟨n, hp, _, hb, hc⟩ := Head.tick_spec h
  refine ⟨?_, ?_, ?_, ?_⟩
  · rw [hp]; exact sorted_drop n hi.sp
  · rw [hc, recordCommitted_eq]; exact sorted_insertAll _ hi.sc
  · intro k e he
    rw [hp] at he
    exact hi.keyed k e (find?_of_find?_drop hi.sp n k he)
  · intro k hk
    rw [hc, contains_recordCommitted, hb, keys_eq_ids hi.sp hi.keyed n] at hk
    rw [hp]
    simp only [Bool.or_eq_true, decide_eq_true_eq] at hk
    rcases hk with hk | hk
    · exact not_in_drop_of_in_take hi.sp n k hk
    · cases hf : find? k (h.inbox.pending.drop n) with
      | none => rfl
      | some e =>
        have := find?_of_find?_drop hi.sp n k hf
        rw [hi.disj k hk] at this; cases this

theorem Head.inv_setPolicy (h : Head) (p : Policy) (hi : h.Inv) : (h.setPolicy p).Inv := by
  refine ⟨sorted_filter _ hi.sp, hi.sc, ?_, ?_⟩
  · intro k e he
    have := setPolicy_find? h.inbox p hi.sp k
    simp only [Head.setPolicy] at he
    rw [this] at he
    cases hk : find? k h.inbox.pending with
    | none => rw [hk] at he; cases he
    | some w =>
      rw [hk] at he
      simp only [Option.filter] at he
      split at he
      · cases he; exact hi.keyed k _ hk
      · cases he
  · intro k hk
    show find? k (Inbox.setPolicy h.inbox p).pending = none
    rw [setPolicy_find? h.inbox p hi.sp k, hi.disj k hk]; rfl

theorem Head.inv_restart (h : Head) (hi : h.Inv) : (h.restart).Inv :=
  ⟨trivial, hi.sc, fun k e he => (by cases he), fun k hk => rfl⟩

theorem Head.inv_step (h : Head) (o : Op) (hi : h.Inv) : (h.step o).1.Inv := by
  cases o with
  | ingest e => exact Head.inv_ingest h e hi
  | tick => exact Head.inv_tick h hi
  | policy p => exact Head.inv_setPolicy h p hi
  | restart => exact Head.inv_restart h hi

theorem Head.inv_run (ops : List Op) : ∀ (h : Head), h.Inv → (h.run ops).Inv := by
  induction ops with
  | nil => intro h hi; exact hi
  | cons o os ih => intro h hi; exact ih _ (Head.inv_step h o hi)

/-- The committed set only grows. -/
theorem Head.committed_mono_step (h : Head) (o : Op) (k : Nat) (hk : contains k h.committed = true) :
    contains k (h.step o).1.committed = true := by
  cases o with
  | ingest e => show contains k (h.ingest e).1.committed = true; rw [Head.ingest_committed]; exact hk
  | tick =>
    obtain ⟨n, _, _, _, hc⟩ := Head.tick_spec h
    show contains k (h.tick).1.committed = true
    rw [hc, contains_recordCommitted, hk]; simp
  | policy p => exact hk
  | restart => exact hk

theorem Head.committed_mono_run (ops : List Op) : ∀ (h : Head) (k : Nat),
    contains k h.committed = true → contains k (h.run ops).committed = true := by
  induction ops with
  | nil => intro h k hk; exact hk
  | cons o os ih => intro h k hk; exact ih _ k (Head.committed_mono_step h o k hk)

/-- Ids of all batches committed during a run. -/
def Head.batchIds (h : Head) (ops : List Op) : List Nat := ((Head.batches h ops).flatten).map (·.id)

theorem Head.batches_cons_nontick (h : Head) (o : Op) (os : List Op) (hn : o ≠ .tick) :
    Head.batches h (o :: os) = Head.batches (h.step o).1 os := by
  cases o with
  | tick => exact absurd rfl hn
  | ingest e => rfl
  | policy p => rfl
  | restart => rfl

theorem Head.batches_cons_tick (h : Head) (os : List Op) :
    Head.batches h (.tick :: os) =
      if (h.tick).2.isEmpty then Head.batches (h.tick).1 os else (h.tick).2 :: Head.batches (h.tick).1 os := rfl

theorem Head.step_committed_nontick (h : Head) (o : Op) (hn : o ≠ .tick) :
    (h.step o).1.committed = h.committed := by
  cases o with
  | tick => exact absurd rfl hn
  | ingest e => exact Head.ingest_committed h e
  | policy p => rfl
  | restart => rfl

theorem Head.batchIds_spec (ops : List Op) : ∀ (h : Head), h.Inv →
    (h.batchIds ops).Nodup ∧ ∀ k ∈ h.batchIds ops, contains k h.committed = false := by
  induction ops with
  | nil => intro h hi; exact ⟨List.nodup_nil, fun k hk => by cases hk⟩
  | cons o os ih =>
    intro h hi
    by_cases ht : o = .tick
    · subst ht
      obtain ⟨n, hp, _, hb, hc⟩ := Head.tick_spec h
      have hi' := Head.inv_tick h hi
      obtain ⟨ihn, ihd⟩ := ih _ hi'
      have hbids : (h.tick).2.map (·.id) = keys (h.inbox.pending.take n) := by
        rw [hb]; exact keys_eq_ids hi.sp hi.keyed n
      have hfresh : ∀ k ∈ (h.tick).2.map (·.id), contains k h.committed = false := by
        intro k hk
        rw [hbids] at hk
        obtain ⟨p, hp', rfl⟩ := List.mem_map.mp hk
        have hf := mem_find? hi.sp (List.mem_of_mem_take hp')
        cases hcc : contains p.1 h.committed with
        | false => rfl
        | true => rw [hi.disj p.1 hcc] at hf; cases hf
      have hrest : ∀ k ∈ (h.tick).1.batchIds os, contains k h.committed = false ∧ k ∉ (h.tick).2.map (·.id) := by
        intro k hk
        have := ihd k hk
        rw [hc, contains_recordCommitted] at this
        simp only [Bool.or_eq_false_iff, decide_eq_false_iff_not] at this
        exact ⟨this.2, this.1⟩
      unfold Head.batchIds
      rw [Head.batches_cons_tick]
      split
      · exact ⟨ihn, fun k hk => (hrest k hk).1⟩
      · simp only [List.flatten_cons, List.map_append]
        refine ⟨?_, ?_⟩
        · rw [List.nodup_append]
          refine ⟨?_, ihn, ?_⟩
          · rw [hbids]; exact nodup_keys (sorted_take n hi.sp)
          · intro a ha b hb' hab
            subst hab
            exact (hrest a hb').2 ha
        · intro k hk
          rcases List.mem_append.mp hk with hk | hk
          · exact hfresh k hk
          · exact (hrest k hk).1
    · have hi' := Head.inv_step h o hi
      obtain ⟨ihn, ihd⟩ := ih _ hi'
      unfold Head.batchIds
      rw [Head.batches_cons_nontick h o os ht]
      refine ⟨ihn, ?_⟩
      intro k hk
      have := ihd k hk
      rw [Head.step_committed_nontick h o ht] at this
      exact this

end Inbox
end EchoVerif
