import EchoVerif.Lemmas.DiffForm
set_option linter.unusedSimpArgs false
set_option linter.unusedVariables false
namespace EchoVerif
namespace Graph
open SMap

theorem kind_DE (w f i : Nat) : (Op.deleteEdge w f i).kind = 4 := rfl
theorem kind_DN (w i : Nat) : (Op.deleteNode w i).kind = 5 := rfl
theorem kind_UE (w i f t ty : Nat) : (Op.upsertEdge w i f t ty).kind = 7 := rfl
theorem kind_SA (k : AttKey) (v : Option Att) : (Op.setAtt k v).kind = 8 := rfl

section
variable {a b : WState} (ha : WF a) (hb : WF b) (hs : SameShape a b)
include ha hb hs

theorem final_node (w i : Nat) :
    lastEff (effNode w i) (diffState a b) (nodeAt a w i) = nodeAt b w i := by
  apply lastEff_same
  · intro o ho
    obtain ⟨w', stB, stA, h1, h2, hf⟩ := (mem_diff_iff ha hb hs o).mp ho
    cases hf with
    | dn i' h3 h4 =>
      simp only [effNode]
      by_cases hc : w' = w ∧ i' = i
      · obtain ⟨rfl, rfl⟩ := hc
        simp [nodeAt, h2, h4]
      · simp [hc]
    | un i' ty h3 h4 =>
      simp only [effNode]
      by_cases hc : w' = w ∧ i' = i
      · obtain ⟨rfl, rfl⟩ := hc
        simp [nodeAt, h2, h3]
      · simp [hc]
    | sn => simp [effNode]
    | de => simp [effNode]
    | ue => simp [effNode]
    | se => simp [effNode]
  · by_cases hxy : nodeAt a w i = nodeAt b w i
    · exact Or.inr hxy
    · left
      cases hbw : b.store? w with
      | none =>
        have : (a.store? w).isSome = false := by rw [hs.2 w, hbw]; rfl
        exfalso; apply hxy
        cases haw : a.store? w with
        | none => simp [nodeAt, haw, hbw]
        | some st => rw [haw] at this; cases this
      | some stA =>
        have haw : (a.store? w).isSome = true := by rw [hs.2 w, hbw]; rfl
        cases hst : a.store? w with
        | none => rw [hst] at haw; cases haw
        | some stB =>
          simp only [nodeAt, hst, hbw] at hxy ⊢
          cases hy : find? i stA.nodes with
          | none =>
            refine ⟨.deleteNode w i, (mem_diff_iff ha hb hs _).mpr ⟨w, stB, stA, hst, hbw, .dn i ?_ hy⟩, by simp [effNode]⟩
            intro hx; exact hxy (hx.trans hy.symm)
          | some ty =>
            refine ⟨.upsertNode w i ty, (mem_diff_iff ha hb hs _).mpr ⟨w, stB, stA, hst, hbw, .un i ty hy ?_⟩, by simp [effNode]⟩
            intro hx; exact hxy (hx.trans hy.symm)

omit ha hb in
theorem shape_cases (w : Nat) :
    (a.store? w = none ∧ b.store? w = none) ∨
    ∃ stB stA, a.store? w = some stB ∧ b.store? w = some stA := by
  have h := hs.2 w
  cases h1 : a.store? w with
  | none =>
    cases h2 : b.store? w with
    | none => exact Or.inl ⟨rfl, rfl⟩
    | some st => rw [h1, h2] at h; cases h
  | some stB =>
    cases h2 : b.store? w with
    | none => rw [h1, h2] at h; cases h
    | some stA => exact Or.inr ⟨stB, stA, rfl, rfl⟩


theorem final_edge (w i : Nat) :
    lastEff (effEdge w i) (diffState a b) (edgeAt a w i) = edgeAt b w i := by
  rcases shape_cases hs w with ⟨h1, h2⟩ | ⟨stB, stA, h1, h2⟩
  · -- no store: nothing touches the location
    have : edgeAt a w i = edgeAt b w i := by simp [edgeAt, h1, h2]
    rw [← this]
    apply lastEff_none
    intro o ho
    obtain ⟨w', sB, sA, g1, g2, hf⟩ := (mem_diff_iff ha hb hs o).mp ho
    have hne : w' ≠ w := by intro e; subst e; rw [h2] at g2; cases g2
    cases hf <;> simp [effEdge, hne]
  · simp only [edgeAt, h1, h2]
    cases hy : find? i stA.edges with
    | none =>
      apply lastEff_same
      · intro o ho
        obtain ⟨w', sB, sA, g1, g2, hf⟩ := (mem_diff_iff ha hb hs o).mp ho
        cases hf with
        | de id eB h3 h4 =>
          simp only [effEdge]
          by_cases hc : w' = w ∧ id = i <;> simp [hc]
        | ue id eA h3 h4 =>
          simp only [effEdge]
          by_cases hc : w' = w ∧ id = i
          · obtain ⟨rfl, rfl⟩ := hc
            rw [h2] at g2; cases g2
            rw [hy] at h3; cases h3
          · simp [hc]
        | dn => simp [effEdge]
        | un => simp [effEdge]
        | sn => simp [effEdge]
        | se => simp [effEdge]
      · cases hx : find? i stB.edges with
        | none => exact Or.inr rfl
        | some eB =>
          left
          exact ⟨.deleteEdge w eB.src i,
            (mem_diff_iff ha hb hs _).mpr ⟨w, stB, stA, h1, h2, .de i eB hx (Or.inl hy)⟩,
            by simp [effEdge]⟩
    | some eA =>
      by_cases hx : find? i stB.edges = some eA
      · -- unchanged edge: nothing touches it
        rw [hx]
        apply lastEff_none
        intro o ho
        obtain ⟨w', sB, sA, g1, g2, hf⟩ := (mem_diff_iff ha hb hs o).mp ho
        cases hf with
        | de id eB h3 h4 =>
          simp only [effEdge]
          by_cases hc : w' = w ∧ id = i
          · obtain ⟨rfl, rfl⟩ := hc
            rw [h1] at g1; cases g1
            rw [h2] at g2; cases g2
            rw [hx] at h3; cases h3
            rcases h4 with h4 | ⟨e', h4, h5⟩
            · rw [hy] at h4; cases h4
            · rw [hy] at h4; cases h4; exact absurd rfl h5
          · simp [hc]
        | ue id eA' h3 h4 =>
          simp only [effEdge]
          by_cases hc : w' = w ∧ id = i
          · obtain ⟨rfl, rfl⟩ := hc
            rw [h1] at g1; cases g1
            rw [h2] at g2; cases g2
            rw [hy] at h3; cases h3
            exact absurd hx h4
          · simp [hc]
        | dn => simp [effEdge]
        | un => simp [effEdge]
        | sn => simp [effEdge]
        | se => simp [effEdge]
      · -- changed or new edge: the UpsertEdge (phase 7) is the last toucher
        apply lastEff_of_top (effEdge w i) Op.kind _ (diffState_kind_sorted a b)
          (.upsertEdge w i eA.src eA.dst eA.ty)
          ((mem_diff_iff ha hb hs _).mpr ⟨w, stB, stA, h1, h2, .ue i eA hy hx⟩)
        · simp [effEdge]
        · intro o ho hk
          obtain ⟨w', sB, sA, g1, g2, hf⟩ := (mem_diff_iff ha hb hs o).mp ho
          cases hf with
          | de id eB h3 h4 =>
            rw [kind_UE, kind_DE] at hk; omega
          | ue id eA' h3 h4 =>
            simp only [effEdge]
            by_cases hc : w' = w ∧ id = i
            · obtain ⟨rfl, rfl⟩ := hc
              rw [h2] at g2; cases g2
              rw [hy] at h3; cases h3
              simp
            · simp [hc]
          | dn => simp [effEdge]
          | un => simp [effEdge]
          | sn => simp [effEdge]
          | se => simp [effEdge]

theorem final_natt (w i : Nat) :
    lastEff (effNatt w i) (diffState a b) (nattAt a w i) = nattAt b w i := by
  rcases shape_cases hs w with ⟨h1, h2⟩ | ⟨stB, stA, h1, h2⟩
  · have : nattAt a w i = nattAt b w i := by simp [nattAt, h1, h2]
    rw [← this]
    apply lastEff_none
    intro o ho
    obtain ⟨w', sB, sA, g1, g2, hf⟩ := (mem_diff_iff ha hb hs o).mp ho
    have hne : w' ≠ w := by intro e; subst e; rw [h2] at g2; cases g2
    cases hf <;> simp [effNatt, hne, AttKey.nodeAlpha, AttKey.edgeBeta]
  · have hbsub := hb.natt_sub w i
    have hasub := ha.natt_sub w i
    simp only [nattAt, nodeAt, h1, h2] at hbsub hasub ⊢
    apply lastEff_same
    · intro o ho
      obtain ⟨w', sB, sA, g1, g2, hf⟩ := (mem_diff_iff ha hb hs o).mp ho
      cases hf with
      | dn i' h3 h4 =>
        simp only [effNatt]
        by_cases hc : w' = w ∧ i' = i
        · obtain ⟨rfl, rfl⟩ := hc
          rw [h2] at g2; cases g2
          right
          simp only [if_true, and_self]
          congr 1
          cases hy : find? i' stA.nodeAtt with
          | none => rfl
          | some v => exact absurd h4 (hbsub (by rw [hy]; simp))
        · simp [hc]
      | sn i' h3 h4 =>
        simp only [effNatt, AttKey.nodeAlpha]
        by_cases hc : w' = w ∧ i' = i
        · obtain ⟨rfl, rfl⟩ := hc
          rw [h2] at g2; cases g2
          simp
        · simp [hc]
      | un => simp [effNatt]
      | de => simp [effNatt]
      | ue => simp [effNatt]
      | se => simp [effNatt, AttKey.edgeBeta]
    · by_cases hxy : find? i stB.nodeAtt = find? i stA.nodeAtt
      · exact Or.inr hxy
      · left
        by_cases hn : find? i stA.nodes = none
        · -- node gone: its attachment is gone in b, so a had one, so the node existed in a
          have hy : find? i stA.nodeAtt = none := by
            cases hy : find? i stA.nodeAtt with
            | none => rfl
            | some v => exact absurd hn (hbsub (by rw [hy]; simp))
          have hxn : find? i stB.nodes ≠ none := hasub (by rw [hy] at hxy; exact hxy)
          exact ⟨.deleteNode w i, (mem_diff_iff ha hb hs _).mpr ⟨w, stB, stA, h1, h2, .dn i hxn hn⟩,
            by simp [effNatt, hy]⟩
        · exact ⟨.setAtt (AttKey.nodeAlpha w i) (find? i stA.nodeAtt),
            (mem_diff_iff ha hb hs _).mpr ⟨w, stB, stA, h1, h2, .sn i hn hxy⟩,
            by simp [effNatt, AttKey.nodeAlpha]⟩

theorem final_eatt (w i : Nat) :
    lastEff (effEatt w i) (diffState a b) (eattAt a w i) = eattAt b w i := by
  rcases shape_cases hs w with ⟨h1, h2⟩ | ⟨stB, stA, h1, h2⟩
  · have : eattAt a w i = eattAt b w i := by simp [eattAt, h1, h2]
    rw [← this]
    apply lastEff_none
    intro o ho
    obtain ⟨w', sB, sA, g1, g2, hf⟩ := (mem_diff_iff ha hb hs o).mp ho
    have hne : w' ≠ w := by intro e; subst e; rw [h2] at g2; cases g2
    cases hf <;> simp [effEatt, hne, AttKey.nodeAlpha, AttKey.edgeBeta]
  · have hbsub := hb.eatt_sub w i
    have hasub := ha.eatt_sub w i
    simp only [eattAt, edgeAt, h1, h2] at hbsub hasub ⊢
    -- is the SetAttachment for this edge in the diff?
    by_cases hse : ∃ eA, find? i stA.edges = some eA ∧
        (find? i stB.edgeAtt ≠ find? i stA.edgeAtt ∨ migratedAtt stB stA i eA)
    · obtain ⟨eA, hy, hc⟩ := hse
      apply lastEff_of_top (effEatt w i) Op.kind _ (diffState_kind_sorted a b)
        (.setAtt (AttKey.edgeBeta w i) (find? i stA.edgeAtt))
        ((mem_diff_iff ha hb hs _).mpr ⟨w, stB, stA, h1, h2, .se i eA hy hc⟩)
      · simp [effEatt, AttKey.edgeBeta]
      · intro o ho hk
        obtain ⟨w', sB, sA, g1, g2, hf⟩ := (mem_diff_iff ha hb hs o).mp ho
        cases hf with
        | de id eB h3 h4 => rw [kind_SA, kind_DE] at hk; omega
        | se id eA' h3 h4 =>
          simp only [effEatt, AttKey.edgeBeta]
          by_cases hc : w' = w ∧ id = i
          · obtain ⟨rfl, rfl⟩ := hc
            rw [h2] at g2; cases g2
            simp
          · simp [hc]
        | dn => simp [effEatt]
        | un => simp [effEatt]
        | sn => simp [effEatt, AttKey.nodeAlpha]
        | ue => simp [effEatt]
    · -- no SetAttachment: every toucher is a DeleteEdge, and b carries no attachment then
      apply lastEff_same
      · intro o ho
        obtain ⟨w', sB, sA, g1, g2, hf⟩ := (mem_diff_iff ha hb hs o).mp ho
        cases hf with
        | de id eB h3 h4 =>
          simp only [effEatt]
          by_cases hc : w' = w ∧ id = i
          · obtain ⟨rfl, rfl⟩ := hc
            rw [h1] at g1; cases g1
            rw [h2] at g2; cases g2
            right
            simp only [if_true, and_self]
            congr 1
            cases hy : find? id stA.edgeAtt with
            | none => rfl
            | some v =>
              exfalso
              rcases h4 with h4 | ⟨eA, h4, h5⟩
              · exact hbsub (by rw [hy]; simp) h4
              · exact hse ⟨eA, h4, Or.inr ⟨by rw [hy]; rfl, eB, h3, h5⟩⟩
          · simp [hc]
        | se id eA' h3 h4 =>
          simp only [effEatt, AttKey.edgeBeta]
          by_cases hc : w' = w ∧ id = i
          · obtain ⟨rfl, rfl⟩ := hc
            rw [h1] at g1; cases g1
            rw [h2] at g2; cases g2
            exact absurd ⟨eA', h3, h4⟩ hse
          · simp [hc]
        | dn => simp [effEatt]
        | un => simp [effEatt]
        | sn => simp [effEatt, AttKey.nodeAlpha]
        | ue => simp [effEatt]
      · by_cases hxy : find? i stB.edgeAtt = find? i stA.edgeAtt
        · exact Or.inr hxy
        · left
          -- attachments differ but no SetAttachment ⇒ the edge is gone in b
          have hyn : find? i stA.edges = none := by
            cases hy : find? i stA.edges with
            | none => rfl
            | some eA => exact absurd ⟨eA, hy, Or.inl hxy⟩ hse
          have hya : find? i stA.edgeAtt = none := by
            cases hy : find? i stA.edgeAtt with
            | none => rfl
            | some v => exact absurd hyn (hbsub (by rw [hy]; simp))
          have hxe : find? i stB.edges ≠ none := hasub (by rw [hya] at hxy; exact hxy)
          cases hx : find? i stB.edges with
          | none => exact absurd hx hxe
          | some eB =>
            exact ⟨.deleteEdge w eB.src i,
              (mem_diff_iff ha hb hs _).mpr ⟨w, stB, stA, h1, h2, .de i eB hx (Or.inl hyn)⟩,
              by simp [effEatt, hya]⟩

end
end Graph
end EchoVerif
