/-
  Lemmas for Model/MergePolicy.lean (C02): the deltas returned by the five policy executors carry,
  as a multiset, exactly the entries of all shards; a worker never reports a missing store when the
  engine pre-validated the stores.
-/
import EchoVerif.Lemmas.Merge
import EchoVerif.Model.MergePolicy

set_option linter.unusedSimpArgs false
set_option linter.unusedVariables false

namespace EchoVerif
namespace Merge
open Graph LinOrd

section Run
variable {ι : Type} (f : Nat → ι → ItemOut) (hs : Nat → Bool)

/-- `apply_reserved_rewrites` step 1 validated every store: no worker returns `MissingStore`. -/
theorem runWorker_not_missing : ∀ (us : List (WUnit ι)) (d : List Entry),
    (∀ u ∈ us, hs u.warp = true) → runWorker f hs us d ≠ .missingStore
  | [], d, _ => by simp [runWorker]
  | u :: rest, d, h => by
    have hu : hs u.warp = true := h u List.mem_cons_self
    simp only [runWorker, hu, Bool.not_true, Bool.false_eq_true, if_false]
    cases hr : runItems (f u.warp) u.items d with
    | none => intro e; cases e
    | some d' =>
      exact runWorker_not_missing rest d' (fun v hv => h v (List.mem_cons_of_mem _ hv))

theorem runSchedule_no_missing (units : List (WUnit ι)) (σ : Schedule)
    (hst : ∀ u ∈ units, hs u.warp = true) :
    (runSchedule f hs units σ).any WorkerRes.isMissing = false := by
  rw [List.any_eq_false]
  intro r hr
  obtain ⟨claims, _, rfl⟩ := List.mem_map.mp hr
  have := runWorker_not_missing f hs (resolve units claims) []
    (fun u hu => hst u (resolve_subset units claims u hu))
  cases hw : runWorker f hs (resolve units claims) [] with
  | missingStore => exact absurd hw this
  | success d => simp [WorkerRes.isMissing]
  | poisoned => simp [WorkerRes.isMissing]

/-- a bad unit raises a failure flag under every valid schedule. -/
theorem bad_unit_flag (units : List (WUnit ι)) {u : WUnit ι} (hu : u ∈ units)
    (hbad : ¬ GoodUnit f hs u) {σ : Schedule} (hv : σ.Valid units.length) :
    (runSchedule f hs units σ).any WorkerRes.isMissing = true ∨
      (runSchedule f hs units σ).any WorkerRes.isPoisoned = true := by
  obtain ⟨claims, hc, huc⟩ := unit_claimed units hv hu
  have hmem : runWorker f hs (resolve units claims) [] ∈ runSchedule f hs units σ :=
    List.mem_map.mpr ⟨claims, hc, rfl⟩
  cases hr : runWorker f hs (resolve units claims) [] with
  | success d => exact absurd (runWorker_success f hs _ _ _ hr u huc) hbad
  | poisoned =>
    right; rw [List.any_eq_true]; exact ⟨_, hmem, by rw [hr]; rfl⟩
  | missingStore =>
    left; rw [List.any_eq_true]; exact ⟨_, hmem, by rw [hr]; rfl⟩

end Run

/-! ### deltas of the policy executors -/

section Pol
variable {ι : Type} (g : ι → List Entry) (sh : Nat → List ι)

theorem success_entries_flatten : ∀ L : List (List Entry),
    (L.map WorkerRes.success).flatMap WorkerRes.entries = L.flatten
  | [] => rfl
  | d :: L => by
    simp only [List.map_cons, List.flatMap_cons, List.flatten_cons, WorkerRes.entries,
      success_entries_flatten L]

theorem success_no_flags (L : List (List Entry)) :
    (L.map WorkerRes.success).any WorkerRes.isMissing = false ∧
    (L.map WorkerRes.success).any WorkerRes.isPoisoned = false := by
  constructor <;>
  · rw [List.any_eq_false]
    intro r hr
    obtain ⟨d, _, rfl⟩ := List.mem_map.mp hr
    simp [WorkerRes.isMissing, WorkerRes.isPoisoned]

theorem perWorker_flatten : ∀ σ : Schedule,
    (perWorkerDeltas g sh σ).flatten = σ.flatten.flatMap (shardDelta g sh)
  | [] => rfl
  | c :: σ => by
    have ih := perWorker_flatten σ
    unfold perWorkerDeltas at *
    simp only [List.map_cons, List.flatten_cons, List.flatMap_append, ih]

theorem flatMap_filter_nonempty : ∀ L : List Nat,
    (L.filter (fun s => !(sh s).isEmpty)).flatMap (shardDelta g sh) = L.flatMap (shardDelta g sh)
  | [] => rfl
  | s :: L => by
    rw [List.filter_cons, List.flatMap_cons]
    by_cases he : (sh s).isEmpty = true
    · have : shardDelta g sh s = [] := by
        unfold shardDelta; rw [List.isEmpty_iff.mp he]; rfl
      simp only [he, Bool.not_true, Bool.false_eq_true, if_false, this, List.nil_append]
      exact flatMap_filter_nonempty L
    · have he' : (sh s).isEmpty = false := by
        cases h : (sh s).isEmpty with
        | true => exact absurd h he
        | false => rfl
      simp only [he', Bool.not_false, if_true, List.flatMap_cons]
      rw [flatMap_filter_nonempty L]

theorem perShardTagged_snd : ∀ σ : Schedule,
    (perShardTagged g sh σ).map (·.2) =
      (σ.flatten.filter (fun s => !(sh s).isEmpty)).map (shardDelta g sh)
  | [] => rfl
  | c :: σ => by
    have ih := perShardTagged_snd σ
    unfold perShardTagged at *
    simp only [List.flatMap_cons, List.map_append, List.flatten_cons, List.filter_append,
      List.map_map, ih]
    rfl

/-- `PerShard` accumulation under ANY valid claim outcome returns exactly one delta per non-empty
    shard (as a multiset of deltas; the list is additionally sorted by shard id). -/
theorem perShard_perm {σ : Schedule} {n : Nat} (hv : σ.Valid n) :
    (perShardDeltas g sh σ).Perm
      (((List.range n).filter (fun s => !(sh s).isEmpty)).map (shardDelta g sh)) := by
  unfold perShardDeltas
  have h0 := (sortBy_perm (fun p : Nat × List Entry => p.1) (perShardTagged g sh σ)).map
    (fun p : Nat × List Entry => p.2)
  refine h0.trans ?_
  rw [perShardTagged_snd]
  exact (List.Perm.filter _ hv).map _

theorem perShard_flatten_perm {σ : Schedule} {n : Nat} (hv : σ.Valid n) :
    (perShardDeltas g sh σ).flatten.Perm ((List.range n).flatMap (shardDelta g sh)) := by
  have h := List.Perm.flatMap_right (fun d : List Entry => d) (perShard_perm g sh hv)
  rw [List.flatMap_id', List.flatMap_id', ← List.flatMap_def, flatMap_filter_nonempty] at h
  exact h

/-- whatever the policy and the claim outcome, the returned deltas carry (as a multiset) exactly the
    entries of all shards — including the `total_items == 0` early return. -/
theorem execPolicy_flatten_perm (owner : Nat → Nat) (p : Policy) (w n : Nat)
    (hv : (p.schedule owner w n).Valid n) :
    (execPolicy g sh owner p w n).flatten.Perm ((List.range n).flatMap (shardDelta g sh)) := by
  unfold execPolicy
  by_cases hall : (List.range n).all (fun s => (sh s).isEmpty) = true
  · have hR : (List.range n).flatMap (shardDelta g sh) = [] := by
      rw [List.flatMap_eq_nil_iff]
      intro s hs'
      have := List.all_eq_true.mp hall s hs'
      unfold shardDelta
      rw [List.isEmpty_iff.mp this]; rfl
    rw [if_pos hall, hR]
    have hL : ∀ k : Nat, ((List.range k).map (fun _ => ([] : List Entry))).flatten = [] := by
      intro k
      rw [List.flatten_eq_nil_iff]
      intro l hl
      obtain ⟨_, _, rfl⟩ := List.mem_map.mp hl
      rfl
    by_cases hp : p = .dedicatedPerShard
    · rw [if_pos hp]; exact List.Perm.refl _
    · rw [if_neg hp, hL]
  · rw [if_neg hall]
    by_cases hacc : p.perShardAcc = true
    · rw [if_pos hacc]; exact perShard_flatten_perm g sh hv
    · rw [if_neg hacc, perWorker_flatten]
      exact List.Perm.flatMap_right _ hv

/-- the shard with index `s < n` as a unit. -/
theorem shardUnits_get (warp : Nat) {n s : Nat} (h : s < n) :
    (shardUnits warp sh n)[s]? = some { warp := warp, items := sh s } := by
  unfold shardUnits
  rw [List.getElem?_map, List.getElem?_range h]
  rfl

theorem resolve_shardUnits (warp n : Nat) : ∀ claims : List Nat, (∀ s ∈ claims, s < n) →
    (resolve (shardUnits warp sh n) claims).flatMap (unitEntries (fun _ it => ItemOut.ok (g it))) =
      claims.flatMap (shardDelta g sh)
  | [], _ => rfl
  | s :: c, h => by
    have hs' : s < n := h s List.mem_cons_self
    have ih := resolve_shardUnits warp n c (fun x hx => h x (List.mem_cons_of_mem _ hx))
    unfold resolve at *
    rw [List.filterMap_cons, shardUnits_get sh warp hs']
    simp only [List.flatMap_cons, ih]
    rfl

/-- `PerWorker` accumulation under the claim outcome `σ` IS the worker loop of the schedule model
    on the shard units (raw executor = never poisoned, store present). -/
theorem perWorker_eq_runSchedule (warp n : Nat) (σ : Schedule) (hb : ∀ c ∈ σ, ∀ s ∈ c, s < n) :
    (perWorkerDeltas g sh σ).map WorkerRes.success =
      runSchedule (fun _ it => ItemOut.ok (g it)) (fun _ => true) (shardUnits warp sh n) σ := by
  rw [runSchedule_good _ _ _ _ (fun u _ => ⟨rfl, fun _ _ h => by cases h⟩)]
  unfold perWorkerDeltas
  rw [List.map_map]
  apply List.map_congr_left
  intro c hc
  simp only [Function.comp]
  rw [resolve_shardUnits g sh warp n c (hb c hc)]

end Pol

end Merge
end EchoVerif
