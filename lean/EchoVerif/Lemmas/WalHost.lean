/-
  The host's durability discipline (Model/WalDurable.lean, namespace `Wal.Host`): the invariant
  "acknowledged / published / de-dup index ⊆ committed transactions" holds in every reachable state,
  including every state in the middle of an operation, under every injected store fault.
-/
import EchoVerif.Model.WalDurable
set_option linter.unusedSimpArgs false
set_option linter.unusedVariables false

namespace EchoVerif.Wal.Host

theorem lookup_some_mem {β : Type} : ∀ (l : List (Nat × β)) (k : Nat) (v : β), l.lookup k = some v → (k, v) ∈ l := by
  intro l
  induction l with
  | nil => intro k v h; simp [List.lookup] at h
  | cons x xs ih =>
    intro k v h
    obtain ⟨k', v'⟩ := x
    simp only [List.lookup] at h
    by_cases hk : k = k'
    · subst hk
      simp at h
      subst h
      simp
    · have : (k == k') = false := by simpa using hk
      simp only [this] at h
      exact List.mem_cons_of_mem _ (ih k v h)

theorem mem_lookup_isSome {β : Type} : ∀ (l : List (Nat × β)) (k : Nat) (v : β), (k, v) ∈ l → (l.lookup k).isSome := by
  intro l
  induction l with
  | nil => intro k v h; simp at h
  | cons x xs ih =>
    intro k v h
    obtain ⟨k', v'⟩ := x
    simp only [List.lookup]
    by_cases hk : k = k'
    · subst hk; simp
    · have hb : (k == k') = false := by simpa using hk
      simp only [hb]
      simp only [List.mem_cons, Prod.mk.injEq] at h
      rcases h with ⟨h1, _⟩ | h
      · exact absurd h1 hk
      · exact ih k v h

theorem lookup_cons_isSome {β : Type} (l : List (Nat × β)) (k k' : Nat) (v : β)
    (h : (l.lookup k).isSome) : (((k', v) :: l).lookup k).isSome := by
  simp only [List.lookup]
  cases hk : (k == k') <;> simp [h]

theorem lookup_cons_self {β : Type} (l : List (Nat × β)) (k : Nat) (v : β) :
    ((k, v) :: l).lookup k = some v := by
  simp [List.lookup]

theorem mem_accIndex (c : List ATx) (p : Nat × Nat) : p ∈ accIndex c ↔ ATx.accept p.1 p.2 ∈ c := by
  simp only [accIndex, List.mem_reverse, List.mem_filterMap]
  constructor
  · rintro ⟨a, ha, hp⟩
    cases a with
    | accept s e => simp [acc?] at hp; subst hp; exact ha
    | tick s r root => simp [acc?] at hp
  · intro h
    exact ⟨_, h, by simp [acc?]⟩

theorem mem_subsOf (c : List ATx) (p : Nat × Nat) : p ∈ subsOf c ↔ ATx.accept p.2 p.1 ∈ c := by
  simp only [subsOf, List.mem_reverse, List.mem_filterMap]
  constructor
  · rintro ⟨a, ha, hp⟩
    cases a with
    | accept s e => simp [sub?] at hp; subst hp; exact ha
    | tick s r root => simp [sub?] at hp
  · intro h
    exact ⟨_, h, by simp [sub?]⟩

theorem mem_ticksOf (c : List ATx) (p : Nat × Nat × Nat) : p ∈ ticksOf c ↔ ATx.tick p.1 p.2.1 p.2.2 ∈ c := by
  simp only [ticksOf, List.mem_reverse, List.mem_filterMap]
  constructor
  · rintro ⟨a, ha, hp⟩
    cases a with
    | accept s e => simp [tick?] at hp
    | tick s r root => simp [tick?] at hp; subst hp; exact ha
  · intro h
    exact ⟨_, h, by simp [tick?]⟩

theorem accIndex_snoc_accept (c : List ATx) (s e : Nat) :
    accIndex (c ++ [ATx.accept s e]) = (s, e) :: accIndex c := by
  simp [accIndex, List.filterMap_append, acc?]

theorem ticksOf_snoc_tick (c : List ATx) (s r root : Nat) :
    ticksOf (c ++ [ATx.tick s r root]) = (s, r, root) :: ticksOf c := by
  simp [ticksOf, List.filterMap_append, tick?]

/-- the safety invariant -/
structure Inv (h : Host) : Prop where
  acked : ∀ p ∈ h.acked, ATx.accept p.1 p.2 ∈ h.disk.committed
  published : ∀ p ∈ h.published, ATx.tick p.1 p.2.1 p.2.2 ∈ h.disk.committed
  dedup : ∀ p ∈ h.dedup, ATx.accept p.1 p.2 ∈ h.disk.committed
  ticks : ∀ s r root, ATx.tick s r root ∈ h.disk.committed → (h.outcomes.lookup s).isSome

theorem Inv.of {h h' : Host} (hi : Inv h)
    (hc : ∀ a ∈ h.disk.committed, a ∈ h'.disk.committed)
    (ha : ∀ p ∈ h'.acked, p ∈ h.acked ∨ ATx.accept p.1 p.2 ∈ h'.disk.committed)
    (hp : ∀ p ∈ h'.published, p ∈ h.published ∨ ATx.tick p.1 p.2.1 p.2.2 ∈ h'.disk.committed)
    (hd : ∀ p ∈ h'.dedup, p ∈ h.dedup ∨ ATx.accept p.1 p.2 ∈ h'.disk.committed)
    (ht : ∀ s r root, ATx.tick s r root ∈ h'.disk.committed → (h'.outcomes.lookup s).isSome) : Inv h' :=
  ⟨fun p hp' => (ha p hp').elim (fun h1 => hc _ (hi.acked p h1)) id,
   fun p hp' => (hp p hp').elim (fun h1 => hc _ (hi.published p h1)) id,
   fun p hp' => (hd p hp').elim (fun h1 => hc _ (hi.dedup p h1)) id, ht⟩

theorem init_inv : Inv init := ⟨by simp [init], by simp [init], by simp [init], by simp [init]⟩

theorem restart_inv {h : Host} (hi : Inv h) : Inv (restart h) := by
  refine ⟨fun p hp => by simpa [restart, truncated] using hi.acked p hp,
    fun p hp => by simpa [restart, truncated] using hi.published p hp, ?_, ?_⟩
  · intro p hp
    simp only [restart, truncated] at hp ⊢
    exact (mem_accIndex _ p).mp hp
  · intro s r root hmem
    simp only [restart, truncated] at hmem ⊢
    exact mem_lookup_isSome _ s (r, root) ((mem_ticksOf _ (s, r, root)).mpr hmem)

/-- where a state of `commitStates` can come from -/
theorem commitStates_cases {h1 : Host} {a : ATx} {f : Fault} {onOk onErr : ADisk → Host} {h' : Host}
    (hm : h' ∈ commitStates h1 a f onOk onErr) :
    (∃ d : ADisk, (d.committed = h1.disk.committed ∨ d.committed = h1.disk.committed ++ [a])
        ∧ (h' = { h1 with mid := true, disk := d }
           ∨ h' = { h1 with mid := true, disk := d, dedup := accIndex d.committed }))
    ∨ h' = onOk ⟨h1.disk.committed ++ [a], none⟩
    ∨ h' = onErr ⟨h1.disk.committed, none⟩
    ∨ h' = onErr ⟨h1.disk.committed ++ [a], none⟩ := by
  cases f <;> simp only [commitStates, appendTx, truncated, List.nil_append, List.cons_append, List.map_cons,
    List.map_nil, List.mem_cons, List.mem_append, List.mem_singleton, List.not_mem_nil, or_false, if_true,
    if_false, Bool.false_eq_true, reduceIte] at hm
  · rcases hm with rfl | rfl | rfl
    · exact Or.inl ⟨⟨h1.disk.committed, some a⟩, Or.inl rfl, Or.inl rfl⟩
    · exact Or.inl ⟨⟨h1.disk.committed ++ [a], none⟩, Or.inr rfl, Or.inl rfl⟩
    · exact Or.inr (Or.inl rfl)
  · rcases hm with rfl | rfl | rfl
    · exact Or.inl ⟨⟨h1.disk.committed, some a⟩, Or.inl rfl, Or.inl rfl⟩
    · exact Or.inl ⟨⟨h1.disk.committed, none⟩, Or.inl rfl, Or.inr rfl⟩
    · exact Or.inr (Or.inr (Or.inl rfl))
  · rcases hm with rfl | rfl | rfl
    · exact Or.inl ⟨⟨h1.disk.committed, some a⟩, Or.inl rfl, Or.inl rfl⟩
    · exact Or.inl ⟨⟨h1.disk.committed, none⟩, Or.inl rfl, Or.inr rfl⟩
    · exact Or.inr (Or.inr (Or.inl rfl))
  · rcases hm with rfl | rfl | rfl | rfl
    · exact Or.inl ⟨⟨h1.disk.committed, some a⟩, Or.inl rfl, Or.inl rfl⟩
    · exact Or.inl ⟨⟨h1.disk.committed ++ [a], none⟩, Or.inr rfl, Or.inl rfl⟩
    · exact Or.inl ⟨⟨h1.disk.committed ++ [a], none⟩, Or.inr rfl, Or.inr rfl⟩
    · exact Or.inr (Or.inr (Or.inr rfl))

/-- the states in the middle of an append keep the invariant -/
theorem mid_inv {h1 : Host} {a : ATx} (hi : Inv h1)
    (hta : ∀ s r root, a = ATx.tick s r root → (h1.outcomes.lookup s).isSome)
    {d : ADisk} (hd : d.committed = h1.disk.committed ∨ d.committed = h1.disk.committed ++ [a]) :
    Inv { h1 with mid := true, disk := d } ∧ Inv { h1 with mid := true, disk := d, dedup := accIndex d.committed } := by
  have hc : ∀ x ∈ h1.disk.committed, x ∈ d.committed := by
    intro x hx
    rcases hd with hd | hd <;> rw [hd]
    · exact hx
    · exact List.mem_append_left _ hx
  have ht : ∀ s r root, ATx.tick s r root ∈ d.committed → (h1.outcomes.lookup s).isSome := by
    intro s r root hm
    rcases hd with hd | hd <;> rw [hd] at hm
    · exact hi.ticks s r root hm
    · rcases List.mem_append.mp hm with hm | hm
      · exact hi.ticks s r root hm
      · exact hta s r root (List.mem_singleton.mp hm).symm
  exact ⟨hi.of hc (fun p hp => Or.inl hp) (fun p hp => Or.inl hp) (fun p hp => Or.inl hp) ht,
    hi.of hc (fun p hp => Or.inl hp) (fun p hp => Or.inl hp)
      (fun p hp => Or.inr ((mem_accIndex _ p).mp hp)) ht⟩

theorem submitWith_inv (h : Host) (known : Bool) (sid : Nat) (subs1 : List (Nat × Nat)) (env : Nat) (f : Fault)
    (hi : Inv h) : ∀ h' ∈ submitWith h known sid subs1 env f, Inv h' := by
  intro h' hmem
  simp only [submitWith] at hmem
  split at hmem
  · -- duplicate answered from the de-dup index
    rename_i hdup
    simp only [List.mem_singleton] at hmem
    subst hmem
    refine hi.of (fun a ha => ha) ?_ (fun p hp => Or.inl hp) (fun p hp => Or.inl hp) hi.ticks
    intro p hp
    simp only [List.mem_cons] at hp
    rcases hp with rfl | hp
    · exact Or.inr (hi.dedup _ (lookup_some_mem _ _ _ hdup.2))
    · exact Or.inl hp
  · have hi1 : Inv { h with subs := subs1 } := ⟨hi.acked, hi.published, hi.dedup, hi.ticks⟩
    have hnt : ∀ s r root, ATx.accept sid env = ATx.tick s r root →
        ((({ h with subs := subs1 } : Host).outcomes).lookup s).isSome := by
      intro s r root hx; cases hx
    rcases commitStates_cases hmem with ⟨d, hd, rfl | rfl⟩ | rfl | hrest
    · exact (mid_inv hi1 hnt hd).1
    · exact (mid_inv hi1 hnt hd).2
    · -- appended and flushed: acknowledge
      refine hi.of (fun a ha => List.mem_append_left _ ha) ?_ (fun p hp => Or.inl hp) ?_ ?_
      · intro p hp
        simp only [List.mem_cons] at hp
        rcases hp with rfl | hp
        · exact Or.inr (by simp)
        · exact Or.inl hp
      · intro p hp
        simp only [List.mem_cons] at hp
        rcases hp with rfl | hp
        · exact Or.inr (by simp)
        · exact Or.inl hp
      · intro s r root hm
        simp only [List.mem_append, List.mem_singleton] at hm
        rcases hm with hm | hm
        · exact hi.ticks s r root hm
        · cases hm
    · -- `Err` from the store: the log was re-read; acknowledged only if found committed
      have key : ∀ c' : List ATx, (∀ a ∈ h.disk.committed, a ∈ c') →
          (∀ s r root, ATx.tick s r root ∈ c' → (h.outcomes.lookup s).isSome) →
          Inv (if (accIndex c').lookup sid = some env then
                ({ h with subs := subs1, disk := ⟨c', none⟩, dedup := accIndex c', acked := (sid, env) :: h.acked,
                          resps := .ackNew sid env :: h.resps } : Host)
              else { h with disk := ⟨c', none⟩, dedup := accIndex c', resps := .err :: h.resps }) := by
        intro c' hc ht
        split
        · rename_i hfound
          refine hi.of hc ?_ (fun p hp => Or.inl hp) (fun p hp => Or.inr ((mem_accIndex _ p).mp hp)) ht
          intro p hp
          simp only [List.mem_cons] at hp
          rcases hp with rfl | hp
          · exact Or.inr ((mem_accIndex _ (sid, env)).mp (lookup_some_mem _ _ _ hfound))
          · exact Or.inl hp
        · exact hi.of hc (fun p hp => Or.inl hp) (fun p hp => Or.inl hp)
            (fun p hp => Or.inr ((mem_accIndex _ p).mp hp)) ht
      rcases hrest with rfl | rfl
      · exact key _ (fun a ha => ha) hi.ticks
      · refine key _ (fun a ha => List.mem_append_left _ ha) ?_
        intro s r root hm
        simp only [List.mem_append, List.mem_singleton] at hm
        rcases hm with hm | hm
        · exact hi.ticks s r root hm
        · cases hm

theorem submit_inv (sidOf : Nat → Nat) (h : Host) (env : Nat) (f : Fault) (hi : Inv h) :
    ∀ h' ∈ submitStates sidOf h env f, Inv h' := by
  intro h' hmem
  simp only [submitStates] at hmem
  split at hmem
  · exact submitWith_inv h _ _ _ env f hi h' hmem
  · exact submitWith_inv h _ _ _ env f hi h' hmem

theorem tick_inv (h : Host) (env receipt root : Nat) (f : Fault) (hi : Inv h) :
    ∀ h' ∈ tickStates h env receipt root f, Inv h' := by
  intro h' hmem
  have hidle : Inv { h with resps := Resp.idle :: h.resps } := ⟨hi.acked, hi.published, hi.dedup, hi.ticks⟩
  simp only [tickStates] at hmem
  split at hmem
  · simp only [List.mem_singleton] at hmem; subst hmem; exact hidle
  · rename_i sid hsid
    split at hmem
    · simp only [List.mem_singleton] at hmem; subst hmem; exact hidle
    · rename_i hnone
      have hout : ∀ s, (h.outcomes.lookup s).isSome → (((sid, receipt, root) :: h.outcomes).lookup s).isSome :=
        fun s hs => lookup_cons_isSome _ _ _ _ hs
      have hi1 : Inv { h with outcomes := (sid, receipt, root) :: h.outcomes } :=
        ⟨hi.acked, hi.published, hi.dedup, fun s r rt hm => hout s (hi.ticks s r rt hm)⟩
      have hself : ((((sid, receipt, root) :: h.outcomes).lookup sid)).isSome := by
        rw [lookup_cons_self]; rfl
      have hta : ∀ s r rt, ATx.tick sid receipt root = ATx.tick s r rt →
          ((({ h with outcomes := (sid, receipt, root) :: h.outcomes } : Host).outcomes).lookup s).isSome := by
        intro s r rt hx; cases hx; exact hself
      have htnew : ∀ s r rt, ATx.tick s r rt ∈ h.disk.committed ++ [ATx.tick sid receipt root] →
          ((((sid, receipt, root) :: h.outcomes).lookup s)).isSome := by
        intro s r rt hm
        simp only [List.mem_append, List.mem_singleton] at hm
        rcases hm with hm | hm
        · exact hout s (hi.ticks s r rt hm)
        · cases hm; exact hself
      rcases commitStates_cases hmem with ⟨d, hd, rfl | rfl⟩ | rfl | hrest
      · exact (mid_inv hi1 hta hd).1
      · exact (mid_inv hi1 hta hd).2
      · -- appended and flushed: publish
        refine hi.of (fun a ha => List.mem_append_left _ ha) (fun p hp => Or.inl hp) ?_ (fun p hp => Or.inl hp) htnew
        intro p hp
        simp only [List.mem_cons] at hp
        rcases hp with rfl | hp
        · exact Or.inr (by simp)
        · exact Or.inl hp
      · rcases hrest with rfl | rfl
        · -- nothing committed: the lookup cannot succeed (no tick of `sid` is in the log), roll back
          have hno : (ticksOf h.disk.committed).lookup sid = none := by
            cases hl : (ticksOf h.disk.committed).lookup sid with
            | none => rfl
            | some v =>
              have hm := (mem_ticksOf _ (sid, v)).mp (lookup_some_mem _ _ _ hl)
              exact absurd (hi.ticks _ _ _ hm) hnone
          simp only [hno, Option.map_none, reduceCtorEq, if_false]
          exact hi.of (fun a ha => ha) (fun p hp => Or.inl hp) (fun p hp => Or.inl hp)
            (fun p hp => Or.inr ((mem_accIndex _ p).mp hp)) hi.ticks
        · -- the marker had been synced before the failure: found, publish
          simp only [ticksOf_snoc_tick, lookup_cons_self, Option.map_some, if_true]
          refine hi.of (fun a ha => List.mem_append_left _ ha) (fun p hp => Or.inl hp) ?_
            (fun p hp => Or.inr ((mem_accIndex _ p).mp hp)) htnew
          intro p hp
          simp only [List.mem_cons] at hp
          rcases hp with rfl | hp
          · exact Or.inr (by simp)
          · exact Or.inl hp

/-- the invariant holds in every reachable state -/
theorem reach_inv {sidOf : Nat → Nat} {h : Host} (hr : Reach sidOf h) : Inv h := by
  induction hr with
  | init => exact init_inv
  | step op _ _ hmem ih =>
    cases op with
    | submit env f => exact submit_inv sidOf _ env f ih _ hmem
    | tick env receipt root f => exact tick_inv _ env receipt root f ih _ hmem
  | restart _ ih => exact restart_inv ih

/-! ### identities: every acceptance in the log and every runtime submission carries `sidOf env` -/

structure Inv2 (sidOf : Nat → Nat) (h : Host) : Prop where
  log : ∀ s e, ATx.accept s e ∈ h.disk.committed → s = sidOf e
  subs : ∀ p ∈ h.subs, p.2 = sidOf p.1

theorem commit_shape {h1 : Host} {a : ATx} {f : Fault} {onOk onErr : ADisk → Host} {h' : Host}
    (hm : h' ∈ commitStates h1 a f onOk onErr) (P : Host → Prop)
    (hmid : ∀ d : ADisk, (d.committed = h1.disk.committed ∨ d.committed = h1.disk.committed ++ [a]) →
      ∀ dd, P { h1 with mid := true, disk := d, dedup := dd })
    (hok : P (onOk ⟨h1.disk.committed ++ [a], none⟩))
    (he1 : P (onErr ⟨h1.disk.committed, none⟩)) (he2 : P (onErr ⟨h1.disk.committed ++ [a], none⟩)) : P h' := by
  rcases commitStates_cases hm with ⟨d, hd, rfl | rfl⟩ | rfl | rfl | rfl
  · exact hmid d hd _
  · exact hmid d hd _
  · exact hok
  · exact he1
  · exact he2

theorem inv2_snoc {sidOf : Nat → Nat} {c : List ATx} {a : ATx}
    (hc : ∀ s e, ATx.accept s e ∈ c → s = sidOf e) (ha : ∀ s e, a = ATx.accept s e → s = sidOf e) :
    ∀ s e, ATx.accept s e ∈ c ++ [a] → s = sidOf e := by
  intro s e hm
  simp only [List.mem_append, List.mem_singleton] at hm
  rcases hm with hm | hm
  · exact hc s e hm
  · exact ha s e hm.symm

theorem submitWith_inv2 (sidOf : Nat → Nat) (h : Host) (known : Bool) (sid : Nat) (subs1 : List (Nat × Nat))
    (env : Nat) (f : Fault) (hi : Inv2 sidOf h) (hsid : sid = sidOf env) (hs1 : ∀ p ∈ subs1, p.2 = sidOf p.1) :
    ∀ h' ∈ submitWith h known sid subs1 env f, Inv2 sidOf h' := by
  intro h' hmem
  simp only [submitWith] at hmem
  split at hmem
  · simp only [List.mem_singleton] at hmem; subst hmem; exact ⟨hi.log, hi.subs⟩
  · have hnew : ∀ s e, ATx.accept sid env = ATx.accept s e → s = sidOf e := by
      intro s e hx; cases hx; exact hsid
    have hl2 := inv2_snoc hi.log hnew
    refine commit_shape hmem (Inv2 sidOf) ?_ ⟨hl2, hs1⟩ ?_ ?_
    · intro d hd dd
      refine ⟨?_, hs1⟩
      rcases hd with hd | hd <;> simp only [hd]
      · exact hi.log
      · exact hl2
    · split
      · exact ⟨hi.log, hs1⟩
      · exact ⟨hi.log, hi.subs⟩
    · split
      · exact ⟨hl2, hs1⟩
      · exact ⟨hl2, hi.subs⟩

theorem submit_inv2 (sidOf : Nat → Nat) (h : Host) (env : Nat) (f : Fault) (hi : Inv2 sidOf h) :
    ∀ h' ∈ submitStates sidOf h env f, Inv2 sidOf h' := by
  intro h' hmem
  simp only [submitStates] at hmem
  split at hmem
  · rename_i s hs
    exact submitWith_inv2 sidOf h _ _ _ env f hi (hi.subs _ (lookup_some_mem _ _ _ hs)) hi.subs h' hmem
  · refine submitWith_inv2 sidOf h _ _ _ env f hi rfl ?_ h' hmem
    intro p hp
    simp only [List.mem_cons] at hp
    rcases hp with rfl | hp
    · rfl
    · exact hi.subs p hp

theorem tick_inv2 (sidOf : Nat → Nat) (h : Host) (env receipt root : Nat) (f : Fault) (hi : Inv2 sidOf h) :
    ∀ h' ∈ tickStates h env receipt root f, Inv2 sidOf h' := by
  intro h' hmem
  simp only [tickStates] at hmem
  split at hmem
  · simp only [List.mem_singleton] at hmem; subst hmem; exact ⟨hi.log, hi.subs⟩
  · rename_i sid hsid
    split at hmem
    · simp only [List.mem_singleton] at hmem; subst hmem; exact ⟨hi.log, hi.subs⟩
    · have hnew : ∀ s e, ATx.tick sid receipt root = ATx.accept s e → s = sidOf e := by
        intro s e hx; cases hx
      have hl2 := inv2_snoc hi.log hnew
      refine commit_shape hmem (Inv2 sidOf) ?_ ⟨hl2, hi.subs⟩ ?_ ?_
      · intro d hd dd
        refine ⟨?_, hi.subs⟩
        rcases hd with hd | hd <;> simp only [hd]
        · exact hi.log
        · exact hl2
      · split
        · exact ⟨hi.log, hi.subs⟩
        · exact ⟨hi.log, hi.subs⟩
      · split
        · exact ⟨hl2, hi.subs⟩
        · exact ⟨hl2, hi.subs⟩

theorem reach_inv2 {sidOf : Nat → Nat} {h : Host} (hr : Reach sidOf h) : Inv2 sidOf h := by
  induction hr with
  | init => exact ⟨by simp [init], by simp [init]⟩
  | step op _ _ hmem ih =>
    cases op with
    | submit env f => exact submit_inv2 sidOf _ env f ih _ hmem
    | tick env receipt root f => exact tick_inv2 sidOf _ env receipt root f ih _ hmem
  | restart _ ih =>
    refine ⟨by simpa [restart, truncated] using ih.log, ?_⟩
    intro p hp
    simp only [restart] at hp
    exact ih.log _ _ ((mem_subsOf _ p).mp hp)

end EchoVerif.Wal.Host
