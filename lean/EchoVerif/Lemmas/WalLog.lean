/-
  From bytes to transactions: a segment written by `append_transaction` (frames, then the commit
  marker, per transaction), cut at an arbitrary byte.
-/
import EchoVerif.Lemmas.WalRecover
set_option linter.unusedSimpArgs false
set_option linter.unusedVariables false

namespace EchoVerif.Wal

def frameD (cfg : Cfg) (f : Frame) : DRec := ⟨UInt8.ofNat cfg.frameTag, encodeFrame f⟩
def commitD (cfg : Cfg) (c : Commit) : DRec := ⟨UInt8.ofNat cfg.commitTag, encodeCommit c⟩

/-- the disk records of one transaction, in the order `append_transaction` writes them -/
def recsD (cfg : Cfg) (t : Tx) : List DRec := t.frames.map (frameD cfg) ++ [commitD cfg t.commit]

/-- the same records as the reader returns them -/
def recsT (t : Tx) : List Rec := t.frames.map Rec.frame ++ [Rec.commit t.commit]

theorem encTx_eq (cfg : Cfg) (H : HashFn) (t : Tx) : encTx cfg H t = encRecs cfg H (recsD cfg t) := by
  simp [encTx, encRecs, recsD, List.flatMap_append, List.flatMap_map, DRec.enc, frameD, commitD]

/-- the codecs round-trip on the records of the log, and the two kind tags are distinct bytes
    (discharged for concrete logs by the codec theorems / by evaluation) -/
structure Codec (cfg : Cfg) (H : HashFn) (ts : List Tx) : Prop where
  ftag : cfg.frameTag < 256
  ctag : cfg.commitTag < 256
  distinct : cfg.frameTag ≠ cfg.commitTag
  frame : ∀ t ∈ ts, ∀ f ∈ t.frames, decodeFrame cfg H (encodeFrame f) = .ok f ∧ (encodeFrame f).length < 2 ^ 64
  commit : ∀ t ∈ ts, decodeCommit cfg (encodeCommit t.commit) = .ok t.commit ∧ (encodeCommit t.commit).length < 2 ^ 64

theorem Codec.tail {cfg : Cfg} {H : HashFn} {t : Tx} {ts : List Tx} (h : Codec cfg H (t :: ts)) : Codec cfg H ts :=
  ⟨h.ftag, h.ctag, h.distinct, fun t' ht' => h.frame t' (by simp [ht']), fun t' ht' => h.commit t' (by simp [ht'])⟩

/-- value of a disk record: whatever the decoder returns for it -/
def valOf (cfg : Cfg) (H : HashFn) (d : DRec) : Rec :=
  match decodeRec cfg H d.tag d.payload with
  | .ok r => r
  | .error _ => .commit ⟨[], [], 0, 0, 0, 0, [], [], [], 0, 0, []⟩

theorem decodeRec_frameD {cfg : Cfg} {H : HashFn} {f : Frame} (hf : cfg.frameTag < 256)
    (h : decodeFrame cfg H (encodeFrame f) = .ok f) :
    decodeRec cfg H (frameD cfg f).tag (frameD cfg f).payload = .ok (.frame f) := by
  have : (UInt8.ofNat cfg.frameTag).toNat = cfg.frameTag := by
    simp [UInt8.toNat_ofNat']; omega
  simp [decodeRec, frameD, this, h]

theorem decodeRec_commitD {cfg : Cfg} {H : HashFn} {c : Commit} (hc : cfg.commitTag < 256)
    (hd : cfg.frameTag ≠ cfg.commitTag) (h : decodeCommit cfg (encodeCommit c) = .ok c) :
    decodeRec cfg H (commitD cfg c).tag (commitD cfg c).payload = .ok (.commit c) := by
  have : (UInt8.ofNat cfg.commitTag).toNat = cfg.commitTag := by
    simp [UInt8.toNat_ofNat']; omega
  simp [decodeRec, commitD, this, h, Ne.symm hd]

theorem recsD_ok {cfg : Cfg} {H : HashFn} {t : Tx} {ts : List Tx} (hc : Codec cfg H ts) (ht : t ∈ ts) :
    (∀ r ∈ recsD cfg t, r.payload.length < 2 ^ 64)
    ∧ (∀ r ∈ recsD cfg t, decodeRec cfg H r.tag r.payload = .ok (valOf cfg H r))
    ∧ (recsD cfg t).map (valOf cfg H) = recsT t := by
  have hfr := hc.frame t ht
  have hcm := hc.commit t ht
  refine ⟨?_, ?_, ?_⟩
  · intro r hr
    simp only [recsD, List.mem_append, List.mem_map, List.mem_singleton] at hr
    rcases hr with ⟨f, hf, rfl⟩ | rfl
    · exact (hfr f hf).2
    · exact hcm.2
  · intro r hr
    simp only [recsD, List.mem_append, List.mem_map, List.mem_singleton] at hr
    rcases hr with ⟨f, hf, rfl⟩ | rfl
    · have := decodeRec_frameD (H := H) hc.ftag (hfr f hf).1
      simp [valOf, this]
    · have := decodeRec_commitD (H := H) hc.ctag hc.distinct hcm.1
      simp [valOf, this]
  · simp only [recsD, recsT, List.map_append, List.map_map, List.map_cons, List.map_nil]
    congr 1
    · apply List.map_congr_left
      intro f hf
      have := decodeRec_frameD (H := H) hc.ftag (hfr f hf).1
      simp [valOf, this]
    · have := decodeRec_commitD (H := H) hc.ctag hc.distinct hcm.1
      simp [valOf, this]

/-- whole records in front of arbitrary remaining bytes -/
theorem scan_encRecs_append {R : Type} (cfg : Cfg) (H : HashFn) (h32 : Hash32 H)
    (dec : UInt8 → Bytes → Except RErr R) (val : DRec → R) (rs : List DRec) (rest : Bytes)
    (hlen : ∀ r ∈ rs, r.payload.length < 2 ^ 64)
    (hdec : ∀ r ∈ rs, dec r.tag r.payload = .ok (val r)) :
    scan cfg H dec (encRecs cfg H rs ++ rest) =
      match scan cfg H dec rest with
      | .error e => .error e
      | .ok (vs, t) => .ok (rs.map val ++ vs, t) := by
  induction rs with
  | nil =>
    simp only [encRecs, List.flatMap_nil, List.nil_append, List.map_nil]
    cases scan cfg H dec rest with
    | error e => rfl
    | ok v => rfl
  | cons r rs ih =>
    have hB : encRecs cfg H (r :: rs) ++ rest = encRec cfg H r.tag r.payload ++ (encRecs cfg H rs ++ rest) := by
      simp [encRecs, DRec.enc]
    rw [hB, scan_encRec_append cfg H h32 dec r.tag r.payload _ (hlen r (by simp)),
      hdec r (by simp), ih (fun r' h => hlen r' (by simp [h])) (fun r' h => hdec r' (by simp [h]))]
    cases scan cfg H dec rest with
    | error e => rfl
    | ok v => rfl

theorem wholeInside_lt (cfg : Cfg) (H : HashFn) (rs : List DRec) (m : Nat)
    (hm : m < (encRecs cfg H rs).length) : (wholeInside cfg H rs m).1 < rs.length := by
  induction rs generalizing m with
  | nil => simp [encRecs] at hm
  | cons r rs ih =>
    have hB : (encRecs cfg H (r :: rs)).length = (r.enc cfg H).length + (encRecs cfg H rs).length := by
      simp [encRecs]
    unfold wholeInside
    by_cases h0 : m = 0
    · simp [h0]
    · rw [if_neg h0]
      by_cases hlt : m < (r.enc cfg H).length
      · simp [hlt]
      · rw [if_neg hlt]
        have := ih (m - (r.enc cfg H).length) (by omega)
        simp only [List.length_cons]; omega

theorem wholeInside_zero (cfg : Cfg) (H : HashFn) (r : DRec) (rs : List DRec) (m : Nat)
    (h1 : (wholeInside cfg H (r :: rs) m).1 = 0) (h2 : (wholeInside cfg H (r :: rs) m).2 = false) : m = 0 := by
  unfold wholeInside at h1 h2
  by_cases h0 : m = 0
  · exact h0
  · rw [if_neg h0] at h1 h2
    by_cases hlt : m < (r.enc cfg H).length
    · rw [if_pos hlt] at h2; cases h2
    · rw [if_neg hlt] at h1; simp at h1

theorem wholeInside_at_zero (cfg : Cfg) (H : HashFn) (rs : List DRec) : wholeInside cfg H rs 0 = (0, false) := by
  cases rs <;> simp [wholeInside]

/-- frames of the transaction at position `k` (none left = `[]`) -/
def nextFrames (ts : List Tx) (k : Nat) : List Frame :=
  match ts[k]? with
  | some t => t.frames
  | none => []

theorem encLog_cons (cfg : Cfg) (H : HashFn) (t : Tx) (ts : List Tx) :
    encLog cfg H (t :: ts) = encTx cfg H t ++ encLog cfg H ts := by
  simp [encLog]

/-- what the reader returns for an arbitrary byte prefix of a log of whole transactions -/
theorem scan_log_prefix (cfg : Cfg) (H : HashFn) (h32 : Hash32 H) (ts : List Tx) (hc : Codec cfg H ts)
    (m : Nat) (hm : m ≤ (encLog cfg H ts).length) :
    ∃ k extra torn, k ≤ ts.length
      ∧ (∃ i, extra = (nextFrames ts k).take i)
      ∧ scan cfg H (decodeRec cfg H) ((encLog cfg H ts).take m)
          = .ok ((ts.take k).flatMap recsT ++ extra.map Rec.frame, torn)
      ∧ (encLog cfg H (ts.take k)).length ≤ m
      ∧ (k < ts.length → m < (encLog cfg H (ts.take (k + 1))).length)
      ∧ ((extra = [] ∧ torn = false) ↔ m = (encLog cfg H (ts.take k)).length) := by
  induction ts generalizing m with
  | nil =>
    simp [encLog] at hm
    subst hm
    exact ⟨0, [], false, by simp, ⟨0, by simp [nextFrames]⟩, by simp [encLog, scan_nil], by simp [encLog],
      by simp, by simp [encLog]⟩
  | cons t ts ih =>
    obtain ⟨hlenD, hdecD, hmapD⟩ := recsD_ok hc (t := t) (by simp)
    rw [encLog_cons] at hm ⊢
    by_cases hlt : m < (encTx cfg H t).length
    · -- the cut lies inside the first transaction
      rw [List.take_append_of_le_length (by omega), encTx_eq]
      rw [encTx_eq] at hlt
      have hscan := prefix_parse_rec cfg H h32 (decodeRec cfg H) (valOf cfg H) (recsD cfg t) hlenD hdecD m (by omega)
      have hj := wholeInside_lt cfg H (recsD cfg t) m hlt
      have hrl : (recsD cfg t).length = t.frames.length + 1 := by simp [recsD]
      have hjl : (wholeInside cfg H (recsD cfg t) m).1 ≤ t.frames.length := by
        rw [hrl] at hj; omega
      refine ⟨0, t.frames.take (wholeInside cfg H (recsD cfg t) m).1, (wholeInside cfg H (recsD cfg t) m).2,
        by simp, ⟨(wholeInside cfg H (recsD cfg t) m).1, by simp [nextFrames]⟩, ?_, by simp [encLog], ?_, ?_⟩
      · rw [hscan]
        simp only [List.take_zero, List.flatMap_nil, List.nil_append]
        congr 2
        rw [List.map_take, List.map_take, hmapD, recsT, List.take_append_of_le_length (by simpa using hjl)]
      · intro _
        simp only [Nat.zero_add, List.take_succ_cons, List.take_zero, encLog, List.flatMap_cons,
          List.flatMap_nil, List.append_nil]
        rw [encTx_eq]; exact hlt
      · simp only [List.take_zero, encLog, List.flatMap_nil, List.length_nil]
        constructor
        · rintro ⟨he, htorn⟩
          have hj0 : (wholeInside cfg H (recsD cfg t) m).1 = 0 := by
            rcases Nat.eq_zero_or_pos (wholeInside cfg H (recsD cfg t) m).1 with h | h
            · exact h
            · exfalso
              have hpos : 0 < t.frames.length := by omega
              have : (t.frames.take (wholeInside cfg H (recsD cfg t) m).1).length = 0 := by rw [he]; rfl
              rw [List.length_take] at this
              omega
          cases hrd : recsD cfg t with
          | nil => simp [recsD] at hrd
          | cons r rs =>
            rw [hrd] at hj0 htorn
            exact wholeInside_zero cfg H r rs m hj0 htorn
        · intro h0
          subst h0
          rw [wholeInside_at_zero]
          simp
    · -- the first transaction lies wholly inside the cut
      obtain ⟨j, rfl⟩ : ∃ j, m = (encTx cfg H t).length + j := ⟨m - (encTx cfg H t).length, by omega⟩
      have hj : j ≤ (encLog cfg H ts).length := by
        simp only [List.length_append] at hm; omega
      obtain ⟨k, extra, torn, hk, hex, hscan, hle, hnext, hiff⟩ := ih hc.tail j hj
      refine ⟨k + 1, extra, torn, by simp; omega, ?_, ?_, ?_, ?_, ?_⟩
      · obtain ⟨i, hi⟩ := hex
        exact ⟨i, by simpa [nextFrames] using hi⟩
      · rw [take_len_add_append _ _ _ _ rfl, encTx_eq,
          scan_encRecs_append cfg H h32 (decodeRec cfg H) (valOf cfg H) (recsD cfg t) _ hlenD hdecD, hscan, hmapD]
        simp [List.flatMap_cons, List.append_assoc]
      · simp only [List.take_succ_cons, encLog_cons, List.length_append]; omega
      · intro hk'
        simp only [List.length_cons] at hk'
        have := hnext (by omega)
        simp only [List.take_succ_cons, encLog_cons, List.length_append]
        omega
      · rw [hiff]
        simp only [List.take_succ_cons, encLog_cons, List.length_append]
        omega

end EchoVerif.Wal

namespace EchoVerif.Wal

theorem framesOf_append (a b : List Rec) : framesOf (a ++ b) = framesOf a ++ framesOf b := by
  induction a with
  | nil => rfl
  | cons r rs ih => cases r <;> simp [framesOf, ih]

theorem commitsOf_append (a b : List Rec) : commitsOf (a ++ b) = commitsOf a ++ commitsOf b := by
  induction a with
  | nil => rfl
  | cons r rs ih => cases r <;> simp [commitsOf, ih]

theorem framesOf_map_frame (fs : List Frame) : framesOf (fs.map Rec.frame) = fs := by
  induction fs with
  | nil => rfl
  | cons f fs ih => simp [framesOf, ih]

theorem commitsOf_map_frame (fs : List Frame) : commitsOf (fs.map Rec.frame) = [] := by
  induction fs with
  | nil => rfl
  | cons f fs ih => simp [commitsOf, ih]

theorem framesOf_log (ts : List Tx) (extra : List Frame) :
    framesOf (ts.flatMap recsT ++ extra.map Rec.frame) = framesOfTxs ts ++ extra := by
  rw [framesOf_append, framesOf_map_frame]
  congr 1
  induction ts with
  | nil => rfl
  | cons t ts ih =>
    simp only [List.flatMap_cons, framesOf_append, ih, framesOfTxs, recsT, framesOf_map_frame]
    simp [framesOf]

theorem commitsOf_log (ts : List Tx) (extra : List Frame) :
    commitsOf (ts.flatMap recsT ++ extra.map Rec.frame) = ts.map (fun t => t.commit) := by
  rw [commitsOf_append, commitsOf_map_frame, List.append_nil]
  induction ts with
  | nil => rfl
  | cons t ts ih =>
    simp only [List.flatMap_cons, commitsOf_append, ih, recsT, commitsOf_map_frame]
    simp [commitsOf]

theorem framesOfTxs_take_succ (ts : List Tx) (k : Nat) :
    framesOfTxs (ts.take (k + 1)) = framesOfTxs (ts.take k) ++ nextFrames ts k := by
  rw [List.take_add_one]
  simp only [framesOfTxs, List.flatMap_append, nextFrames]
  cases ts[k]? with
  | none => simp
  | some t => simp

theorem LogAt.chain_next {cfg : Cfg} {H : HashFn} {b : Nat} {ts : List Tx} (h : LogAt cfg H b ts)
    (k i : Nat) : Chain cfg H b (framesOfTxs (ts.take k) ++ (nextFrames ts k).take i) := by
  have h1 := (h.take (k + 1)).chain
  rw [framesOfTxs_take_succ, Chain.append] at h1
  rw [Chain.append]
  exact ⟨h1.1, h1.2.take i⟩

theorem firstSegmentMismatch_none (seg : Nat) (fs : List Frame)
    (h : ∀ f ∈ fs, f.header.segmentId = seg) : firstSegmentMismatch seg fs = none := by
  induction fs with
  | nil => rfl
  | cons f fs ih =>
    simp only [firstSegmentMismatch]
    rw [if_neg (by simp [h f (by simp)])]
    exact ih (fun g hg => h g (by simp [hg]))

end EchoVerif.Wal
