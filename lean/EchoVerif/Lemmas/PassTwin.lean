/-
  EchoVerif.Lemmas.PassTwin — a pass reads the fault evidence ONLY through the quarantine sets
  (`faulted_heads`, `runtime_fault`): the loop state carries the evidence along without looking at it.
  Consequence (Props/C09 `retry_equals_twin`): a failed pass followed by trusted recovery of the fault it
  recorded leaves a runtime on which every later pass behaves exactly like on a twin that never failed.
-/
import EchoVerif.Lemmas.Pass

set_option linter.unusedSimpArgs false
set_option linter.unusedVariables false

namespace EchoVerif.Pass
open SMap LinOrd

/-- replace the fault evidence carried by the loop state -/
def sf (fs : Faults) (s : PState) : PState := { s with rt := withFaults s.rt fs }

def LoopRes.sf (fs : Faults) : LoopRes → LoopRes
  | .done r s => .done r (Pass.sf fs s)
  | .abort e s => .abort e (Pass.sf fs s)
  | .failed k f s => .failed k f (Pass.sf fs s)

theorem Except.map_ite' {ε α β : Type} (f : α → β) (c : Prop) [Decidable c] (a b : Except ε α) :
    Except.map f (if c then a else b) = if c then Except.map f a else Except.map f b := by
  split <;> rfl

theorem corrStep_sf (fs : Faults) (key : HeadKey) (ta g id : Nat) (s : PState) :
    corrStep key ta g id (sf fs s) = (corrStep key ta g id s).map (sf fs) := by
  unfold corrStep
  simp only [sf, withFaults]
  split
  · rfl
  · simp only [Except.map_ite']
    rfl

theorem corrLoop_sf (fs : Faults) (key : HeadKey) (ta g : Nat) : ∀ (ids : List Nat) (s : PState),
    corrLoop key ta g ids (sf fs s) =
      ((corrLoop key ta g ids s).1, sf fs (corrLoop key ta g ids s).2)
  | [], s => rfl
  | id :: ids, s => by
    simp only [corrLoop, corrStep_sf]
    cases corrStep key ta g id s with
    | error e => rfl
    | ok s' => exact corrLoop_sf fs key ta g ids s'

theorem setFrontier_sf (fs : Faults) (w : Nat) (f : Frontier) (s : PState) :
    setFrontier w f (sf fs s) = sf fs (setFrontier w f s) := rfl

theorem appendProv_sf (fs : Faults) (w : Nat) (pw : ProvWl) (c : Commit) (s : PState) :
    appendProv w pw c (sf fs s) = sf fs (appendProv w pw c s) := rfl

theorem setHead_sf (fs : Faults) (k : HeadKey) (h : Head) (s : PState) :
    setHead k h (sf fs s) = sf fs (setHead k h s) := rfl

theorem sf_frontiers (fs : Faults) (s : PState) : (sf fs s).rt.frontiers = s.rt.frontiers := rfl
theorem sf_heads (fs : Faults) (s : PState) : (sf fs s).rt.heads = s.rt.heads := rfl
theorem sf_prov (fs : Faults) (s : PState) : (sf fs s).prov = s.prov := rfl

theorem commitHead_sf (fs : Faults) (key : HeadKey) (g : Nat) (inj : Option Fail)
    (adm : List (Nat × Nat)) (s : PState) :
    commitHead key g inj adm (sf fs s) =
      ((commitHead key g inj adm s).1, sf fs (commitHead key g inj adm s).2) := by
  cases h1 : find? key.1 s.rt.frontiers with
  | none => simp only [commitHead, sf_frontiers, h1]
  | some fr =>
    cases h2 : find? key.1 s.prov.wls with
    | none => simp only [commitHead, sf_frontiers, sf_prov, h1, h2]
    | some pw =>
      by_cases h3 : fr.broken = true
      · simp only [commitHead, sf_frontiers, sf_prov, h1, h2, h3, if_true]
      · by_cases h4 : adm.any (fun p => p.2 == clsPanic) = true
        · simp only [commitHead, sf_frontiers, sf_prov, h1, h2, h3, h4, if_true, if_false,
            Bool.false_eq_true]
        · by_cases h5 : fr.tick ≠ pw.entries.length
          · simp only [commitHead, sf_frontiers, sf_prov, setFrontier_sf, h1, h2, h3, h4, h5,
              if_true, if_false, Bool.false_eq_true, ne_eq, not_false_eq_true]
          · by_cases h6 : fr.tick = maxTick
            · simp only [commitHead, sf_frontiers, sf_prov, setFrontier_sf, appendProv_sf, h1, h2, h3,
                h4, h5, h6, if_true, if_false, Bool.false_eq_true, ne_eq, not_false_eq_true,
                not_true_eq_false]
              split <;> rfl
            · simp only [commitHead, sf_frontiers, sf_prov, setFrontier_sf, appendProv_sf, corrLoop_sf,
                h1, h2, h3, h4, h5, h6, if_true, if_false, Bool.false_eq_true, ne_eq,
                not_false_eq_true, not_true_eq_false]
              generalize corrLoop _ _ _ _ _ = r
              obtain ⟨oe, s5⟩ := r
              cases oe <;> cases inj <;> rfl

theorem passLoop_sf (fs : Faults) (g : Nat) (inj : Option (Nat × Fail)) :
    ∀ (keys : List HeadKey) (c : Nat) (s : PState) (recs : List Step),
      passLoop g inj keys c (sf fs s) recs = (passLoop g inj keys c s recs).sf fs
  | [], _, s, recs => rfl
  | key :: rest, c, s, recs => by
    simp only [passLoop, sf_heads, setHead_sf, commitHead_sf]
    cases h1 : find? key s.rt.heads with
    | none => rfl
    | some h =>
      simp only []
      by_cases h2 : (admitBatch h).1.isEmpty = true
      · simp only [h2, if_true]; exact passLoop_sf fs g inj rest c s recs
      · simp only [h2, if_false, Bool.false_eq_true]
        generalize commitHead _ _ _ _ _ = r
        obtain ⟨o, s'⟩ := r
        cases o with
        | inl f => rfl
        | inr step => exact passLoop_sf fs g inj rest _ _ _

/-! the parts of a pass that run before the loop look at heads / frontiers / global tick only -/

theorem withFaults_heads (rt : Runtime) (fs : Faults) : (withFaults rt fs).heads = rt.heads := rfl
theorem withFaults_frontiers (rt : Runtime) (fs : Faults) :
    (withFaults rt fs).frontiers = rt.frontiers := rfl
theorem withFaults_gtick (rt : Runtime) (fs : Faults) : (withFaults rt fs).gtick = rt.gtick := rfl
theorem withFaults_faults (rt : Runtime) (fs : Faults) : (withFaults rt fs).faults = fs := rfl

theorem preflight_withFaults (rt : Runtime) (fs : Faults) : ∀ ks : List HeadKey,
    preflight (withFaults rt fs) ks = preflight rt ks
  | [] => rfl
  | k :: ks => by
    simp only [preflight, withFaults_heads, withFaults_frontiers, preflight_withFaults rt fs ks]

theorem cpLoop_withFaults (rt : Runtime) (fs : Faults) : ∀ (ks : List HeadKey)
    (hs : SMap HeadKey Head) (fr : SMap Nat Frontier),
    cpLoop (withFaults rt fs) ks hs fr = cpLoop rt ks hs fr
  | [], _, _ => rfl
  | k :: ks, hs, fr => by
    simp only [cpLoop, withFaults_heads, withFaults_frontiers, cpLoop_withFaults rt fs ks]

theorem checkpointFor_withFaults (rt : Runtime) (fs : Faults) (ks : List HeadKey) :
    checkpointFor (withFaults rt fs) ks = checkpointFor rt ks := by
  unfold checkpointFor
  rw [cpLoop_withFaults]
  rfl

theorem runnableKeys_congr (rt : Runtime) (fs1 fs2 : Faults)
    (hH : fs1.faultedHeads = fs2.faultedHeads) (hR : fs1.runtimeFault = fs2.runtimeFault) :
    runnableKeys (withFaults rt fs1) = runnableKeys (withFaults rt fs2) := by
  unfold runnableKeys
  simp only [withFaults, hR]
  cases fs2.runtimeFault with
  | some _ => rfl
  | none =>
    simp only []
    congr 1
    apply List.filter_congr
    intro p _
    simp only [isRunnable, hH]

/-- **A pass reads fault evidence only through the quarantine sets.** Two runtimes that differ only in
    their fault evidence, with the same `faulted_heads` and `runtime_fault`, get the same outcome, the
    same provenance and the same runtime up to fault evidence from every pass (any failure plan). -/
theorem pass_faults_congr (inj : Option (Nat × Fail)) (rt : Runtime) (pv : Prov) (fs1 fs2 : Faults)
    (hH : fs1.faultedHeads = fs2.faultedHeads) (hR : fs1.runtimeFault = fs2.runtimeFault) :
    (pass inj (withFaults rt fs1) pv).1 = (pass inj (withFaults rt fs2) pv).1 ∧
    (pass inj (withFaults rt fs1) pv).2.2 = (pass inj (withFaults rt fs2) pv).2.2 ∧
    ∀ F, withFaults (pass inj (withFaults rt fs1) pv).2.1 F =
      withFaults (pass inj (withFaults rt fs2) pv).2.1 F := by
  have hk := runnableKeys_congr rt fs1 fs2 hH hR
  have e : ∀ fs, ({ rt := withFaults rt fs, prov := pv, log := [] } : PState) =
      sf fs { rt := rt, prov := pv, log := [] } := fun _ => rfl
  unfold pass
  simp only [withFaults_faults, withFaults_gtick, preflight_withFaults, checkpointFor_withFaults, e,
    passLoop_sf, hk, hR]
  cases fs2.runtimeFault with
  | some _ => exact ⟨rfl, rfl, fun _ => rfl⟩
  | none =>
    simp only []
    by_cases hg : rt.gtick = maxTick
    · rw [if_pos hg, if_pos hg]; exact ⟨rfl, rfl, fun _ => rfl⟩
    · rw [if_neg hg, if_neg hg]
      cases preflight rt (runnableKeys (withFaults rt fs2)) with
      | err e => exact ⟨rfl, rfl, fun _ => rfl⟩
      | overflow k => exact ⟨rfl, rfl, fun _ => rfl⟩
      | ok =>
        simp only []
        cases checkpointFor rt (runnableKeys (withFaults rt fs2)) with
        | error e => exact ⟨rfl, rfl, fun _ => rfl⟩
        | ok cp =>
          simp only []
          cases provCheckpointFor pv ((runnableKeys (withFaults rt fs2)).map (·.1)) with
          | none => exact ⟨rfl, rfl, fun _ => rfl⟩
          | some pcp =>
            simp only []
            generalize passLoop _ _ _ _ _ _ = r
            cases r with
            | done recs s => exact ⟨rfl, rfl, fun _ => rfl⟩
            | abort e s => exact ⟨rfl, rfl, fun _ => rfl⟩
            | failed key f s => cases f <;> exact ⟨rfl, rfl, fun _ => rfl⟩

/-! ## trusted recovery of the fault a failed pass has just recorded -/

theorem erase_insert_fresh {κ ν : Type} [DecidableEq κ] [LinOrd κ] {k : κ} {v : ν} {m : SMap κ ν}
    (hs : Sorted m) (hk : find? k m = none) : erase k (insert k v m) = m := by
  apply SMap.ext (sorted_erase k (sorted_insert k v hs)) hs
  intro k0
  rw [find?_erase k k0 (sorted_insert k v hs), find?_insert]
  by_cases e : k0 = k
  · simp only [e, if_true, hk]
  · simp only [e, if_false]

theorem getElem?_setActive_len (l : List FaultRec) (r : FaultRec) :
    (l ++ [r])[l.length]? = some r := by simp

/-- Resolving the record that `recordFault` has just appended gives back the quarantine sets of before
    (the record stays as evidence, marked resolved; the generation counter keeps its new value). -/
theorem resolve_recordFault (sc : Scope) (fs : Faults) (hs : Sorted fs.faultedHeads)
    (hnew : recordFault sc fs ≠ fs) :
    (resolve fs.records.length (recordFault sc fs)).1 = .ok ∧
    (resolve fs.records.length (recordFault sc fs)).2.faultedHeads = fs.faultedHeads ∧
    (resolve fs.records.length (recordFault sc fs)).2.runtimeFault = fs.runtimeFault ∧
    (resolve fs.records.length (recordFault sc fs)).2.nextGen = fs.nextGen + 1 ∧
    (resolve fs.records.length (recordFault sc fs)).2.records.length = fs.records.length + 1 := by
  have len : ∀ (i : Nat) (l : List FaultRec), (setActive i l).length = l.length := by
    intro i l
    induction l generalizing i with
    | nil => simp [setActive]
    | cons x xs ih => cases i <;> simp [setActive, ih]
  cases sc with
  | head k =>
    simp only [recordFault, recordHeadFault] at hnew ⊢
    by_cases hc : contains k fs.faultedHeads = true
    · simp only [hc, if_true] at hnew; exact absurd rfl hnew
    · have hn : find? k fs.faultedHeads = none := by
        simp only [contains] at hc
        cases h : find? k fs.faultedHeads with
        | none => rfl
        | some _ => rw [h] at hc; exact absurd rfl hc
      refine ⟨?_, ?_, ?_, ?_, ?_⟩ <;>
        simp only [hc, if_false, Bool.false_eq_true, resolve, getElem?_setActive_len, Bool.not_true,
          find?_insert_self, if_true, len, List.length_append, List.length_singleton] <;>
        (first | rfl | exact erase_insert_fresh hs hn)
  | runtime =>
    simp only [recordFault, recordRuntimeFault] at hnew ⊢
    cases hr : fs.runtimeFault with
    | some g => simp only [hr] at hnew; exact absurd rfl hnew
    | none =>
      refine ⟨?_, ?_, ?_, ?_, ?_⟩ <;>
        simp only [hr, resolve, getElem?_setActive_len, Bool.not_true, Bool.false_eq_true, if_false,
          if_true, len, List.length_append, List.length_singleton] <;> rfl

theorem sorted_recordFault (sc : Scope) (fs : Faults) (hs : Sorted fs.faultedHeads) :
    Sorted (recordFault sc fs).faultedHeads := by
  cases sc with
  | head k =>
    simp only [recordFault, recordHeadFault]
    split
    · exact hs
    · exact sorted_insert _ _ hs
  | runtime =>
    simp only [recordFault, recordRuntimeFault]
    split <;> exact hs

theorem sorted_resolve (i : Nat) (fs : Faults) (hs : Sorted fs.faultedHeads) :
    Sorted (resolve i fs).2.faultedHeads := by
  unfold resolve
  split
  · exact hs
  · split
    · exact hs
    · split
      · simp only []
        split
        · exact sorted_erase _ hs
        · exact hs
      · exact hs

end EchoVerif.Pass
