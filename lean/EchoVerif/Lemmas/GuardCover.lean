/-
  C14, attribution completeness: every observable location an op changes is covered by the op's
  attributed write targets (`Generated.opTargets`), except for a re-parenting `UpsertEdge`.
-/
import EchoVerif.Lemmas.Graph
import EchoVerif.Model.Guard

set_option linter.unusedSimpArgs false
set_option linter.unusedVariables false

namespace EchoVerif
namespace Guard
open Graph Generated SMap

/-- Edge `e` as a member of the outgoing bucket of node `n` (what `edges_from(n)` yields for it). -/
def adjMember (s : WState) (w n e : Nat) : Option EdgeRec :=
  match edgeAt s w e with
  | some r => if r.src = n then some r else none
  | none => none

/-- The observable content of a location differs between two states. -/
def Changed (s s' : WState) : Loc → Prop
  | .node w i => nodeAt s w i ≠ nodeAt s' w i
  | .adj w n => ∃ e, adjMember s w n e ≠ adjMember s' w n e
  | .edge w e => edgeAt s w e ≠ edgeAt s' w e
  | .natt w i => nattAt s w i ≠ nattAt s' w i
  | .eatt w e => eattAt s w e ≠ eattAt s' w e

/-- `UpsertEdge` whose id is currently stored under a different `from` (DESIGN §7-D). -/
def Reparents (s : WState) : Op → Prop
  | .upsertEdge w id src _ _ => ∃ r, edgeAt s w id = some r ∧ r.src ≠ src
  | _ => False

theorem orKeep_ne {V : Type} {e : Option V} {x : V} (h : orKeep e x ≠ x) : e ≠ none := by
  intro he; subst he; exact h rfl

theorem effNode_cov {w i : Nat} {o : Op} (h : effNode w i o ≠ none) :
    covers (opTargets o) (.node w i) = true := by
  cases o <;> simp [effNode] at h
  all_goals (obtain ⟨h1, h2⟩ := h; subst h1; subst h2; simp [opTargets, covers])

theorem effEdge_cov {w i : Nat} {o : Op} (h : effEdge w i o ≠ none) :
    covers (opTargets o) (.edge w i) = true := by
  cases o <;> simp [effEdge] at h
  all_goals (obtain ⟨h1, h2⟩ := h; subst h1; subst h2; simp [opTargets, covers])

theorem planeValid_node {w i : Nat} {p : Plane} (h : AttKey.planeValid ⟨.node w i, p⟩ = true) :
    (⟨.node w i, p⟩ : AttKey) = AttKey.nodeAlpha w i := by
  cases p <;> simp [AttKey.planeValid, AttKey.nodeAlpha] at h ⊢

theorem planeValid_edge {w i : Nat} {p : Plane} (h : AttKey.planeValid ⟨.edge w i, p⟩ = true) :
    (⟨.edge w i, p⟩ : AttKey) = AttKey.edgeBeta w i := by
  cases p <;> simp [AttKey.planeValid, AttKey.edgeBeta] at h ⊢

theorem effNatt_cov {w i : Nat} {o : Op} (h : effNatt w i o ≠ none)
    (hp : ∀ key v, o = .setAtt key v → key.planeValid = true) :
    covers (opTargets o) (.natt w i) = true := by
  cases o with
  | deleteNode w' i' =>
    simp [effNatt] at h
    obtain ⟨h1, h2⟩ := h; subst h1; subst h2; simp [opTargets, covers]
  | setAtt key v =>
    have hv := hp key v rfl
    obtain ⟨owner, plane⟩ := key
    cases owner with
    | node w' i' =>
      simp [effNatt] at h
      obtain ⟨h1, h2⟩ := h; subst h1; subst h2
      rw [planeValid_node hv]; simp [opTargets, covers]
    | edge w' i' => simp [effNatt] at h
  | _ => simp [effNatt] at h

theorem effEatt_cov {w i : Nat} {o : Op} (h : effEatt w i o ≠ none)
    (hp : ∀ key v, o = .setAtt key v → key.planeValid = true) :
    covers (opTargets o) (.eatt w i) = true := by
  cases o with
  | deleteEdge w' src id =>
    simp [effEatt] at h
    obtain ⟨h1, h2⟩ := h; subst h1; subst h2; simp [opTargets, covers]
  | setAtt key v =>
    have hv := hp key v rfl
    obtain ⟨owner, plane⟩ := key
    cases owner with
    | edge w' i' =>
      simp [effEatt] at h
      obtain ⟨h1, h2⟩ := h; subst h1; subst h2
      rw [planeValid_edge hv]; simp [opTargets, covers]
    | node w' i' => simp [effEatt] at h
  | _ => simp [effEatt] at h

theorem setAtt_ok_planeValid {s s' : WState} {key : AttKey} {v : Option Att}
    (h : applyOp s (.setAtt key v) = .ok s') : key.planeValid = true := by
  simp only [applyOp, applySetAtt] at h
  cases hp : key.planeValid with
  | true => rfl
  | false => simp [hp] at h

theorem deleteEdge_ok_src {s s' : WState} {w src id : Nat}
    (h : applyOp s (.deleteEdge w src id) = .ok s') : ∃ r, edgeAt s w id = some r ∧ r.src = src := by
  simp only [applyOp] at h
  cases hst : s.store? w with
  | none => rw [hst] at h; cases h
  | some st =>
    rw [hst] at h
    simp only [Store.deleteEdgeExact] at h
    cases hf : find? id st.edges with
    | none => rw [hf] at h; cases h
    | some r =>
      rw [hf] at h
      simp only at h
      by_cases hs : r.src = src
      · exact ⟨r, by simp [edgeAt, hst, hf], hs⟩
      · simp [hs] at h

/-- Skeleton ops (node / edge / attachment ops). -/
theorem movedAdj_of_edgeAt {s : WState} {w id src dst ty n : Nat} {r : EdgeRec}
    (h1 : edgeAt s w id = some r) (hr : r.src = n) (hn : ¬ src = n) :
    movedAdj s (.upsertEdge w id src dst ty) (.adj w n) = true := by
  simp only [edgeAt] at h1
  cases hst : s.store? w with
  | none => rw [hst] at h1; cases h1
  | some st =>
    rw [hst] at h1
    simp only at h1
    subst hr
    have hne : ¬ r.src = src := fun h => hn h.symm
    simp [movedAdj, hst, movedPrev, h1, hne]

theorem cover_skel_in {s s' : WState} {o : Op} (hsk : o.isSkel = true) (hs : s.SortedAll)
    (h : applyOp s o = .ok s') (l : Loc) (hc : Changed s s' l) :
    covers (opTargets o) l = true ∨ movedAdj s o l = true := by
  obtain ⟨_, _, _, hN, hE, hNA, hEA⟩ := applyOp_skel_laws hsk hs h
  have hp : ∀ key v, o = .setAtt key v → key.planeValid = true := by
    intro key v ho; subst ho; exact setAtt_ok_planeValid h
  cases l with
  | node w i =>
    simp only [Changed] at hc
    rw [hN w i] at hc
    exact .inl (effNode_cov (orKeep_ne (Ne.symm hc)))
  | edge w e =>
    simp only [Changed] at hc
    rw [hE w e] at hc
    exact .inl (effEdge_cov (orKeep_ne (Ne.symm hc)))
  | natt w i =>
    simp only [Changed] at hc
    rw [hNA w i] at hc
    exact .inl (effNatt_cov (orKeep_ne (Ne.symm hc)) hp)
  | eatt w e =>
    simp only [Changed] at hc
    rw [hEA w e] at hc
    exact .inl (effEatt_cov (orKeep_ne (Ne.symm hc)) hp)
  | adj w n =>
    obtain ⟨e, he⟩ := hc
    have hne : effEdge w e o ≠ none := by
      intro hnone
      apply he
      simp only [adjMember, hE w e, hnone, orKeep]
    cases o with
    | upsertEdge w' id src dst ty =>
      simp [effEdge] at hne
      obtain ⟨h1, h2⟩ := hne; subst h1; subst h2
      by_cases hn : src = n
      · subst hn; left; simp [opTargets, covers]
      · have h2 : edgeAt s' w' id = some { src := src, dst := dst, ty := ty } := by
          rw [hE w' id]; simp [effEdge, orKeep]
        cases h1 : edgeAt s w' id with
        | none => exfalso; apply he; simp only [adjMember, h2, h1, hn, if_false]
        | some r =>
          by_cases hr : r.src = n
          · right; exact movedAdj_of_edgeAt h1 hr hn
          · exfalso; apply he; simp [adjMember, h2, h1, hn, hr]
    | deleteEdge w' src id =>
      simp [effEdge] at hne
      obtain ⟨h1, h2⟩ := hne; subst h1; subst h2
      obtain ⟨r, hr, hsrc⟩ := deleteEdge_ok_src h
      by_cases hn : src = n
      · subst hn; left; simp [opTargets, covers]
      · exfalso
        apply he
        have h2 : edgeAt s' w' id = none := by
          rw [hE w' id]; simp [effEdge, orKeep]
        simp only [adjMember, h2, hr, hsrc, hn, if_false]
    | upsertNode w' i' ty => simp [effEdge] at hne
    | deleteNode w' i' => simp [effEdge] at hne
    | setAtt key v => simp [effEdge] at hne
    | openPortal => cases hsk
    | upsertInstance => cases hsk
    | deleteInstance => cases hsk

/-- `movedAdj` holds only for an `UpsertEdge` that re-parents, at the old source's adjacency. -/
theorem movedAdj_iff {s : WState} {o : Op} {l : Loc} (h : movedAdj s o l = true) :
    ∃ w id src dst ty r, o = .upsertEdge w id src dst ty ∧ edgeAt s w id = some r ∧ r.src ≠ src ∧
      l = .adj w r.src := by
  cases l with
  | adj w n =>
    simp only [movedAdj] at h
    cases hst : s.store? w with
    | none => rw [hst] at h; cases h
    | some st =>
      rw [hst] at h
      simp only at h
      cases o with
      | upsertEdge w' id src dst ty =>
        simp only [movedPrev, beq_iff_eq] at h
        by_cases hw : w' = w
        · subst hw
          simp only [if_true] at h
          cases hf : find? id st.edges with
          | none => rw [hf] at h; cases h
          | some r =>
            rw [hf] at h
            simp only at h
            by_cases hr : r.src = src
            · simp [hr] at h
            · simp only [ne_eq, hr, not_false_eq_true, if_true, Option.some.injEq] at h
              exact ⟨w', id, src, dst, ty, r, rfl, by simp [edgeAt, hst, hf], hr, by rw [h]⟩
        · simp [hw] at h
      | _ => simp [movedPrev] at h
  | _ => simp [movedAdj] at h

theorem movedAdj_reparents {s : WState} {o : Op} {l : Loc} (h : movedAdj s o l = true) : Reparents s o := by
  obtain ⟨w, id, src, dst, ty, r, rfl, h1, h2, _⟩ := movedAdj_iff h
  exact ⟨r, h1, h2⟩

/-- The pre-fix statement: without a re-parenting upsert the stateless table alone covers. -/
theorem cover_skel {s s' : WState} {o : Op} (hsk : o.isSkel = true) (hs : s.SortedAll)
    (h : applyOp s o = .ok s') (hre : ¬ Reparents s o) (l : Loc) (hc : Changed s s' l) :
    covers (opTargets o) l = true := by
  rcases cover_skel_in hsk hs h l hc with h1 | h1
  · exact h1
  · exact absurd (movedAdj_reparents h1) hre

/-! ### instance-level ops -/

/-- The store a view over warp `w` would read (`no store` observes like the empty store). -/
def storeOr (s : WState) (w : Nat) : Store :=
  match s.store? w with | some st => st | none => Store.empty

theorem nodeAt_eq (s : WState) (w i : Nat) : nodeAt s w i = find? i (storeOr s w).nodes := by
  simp only [nodeAt, storeOr]; cases s.store? w <;> simp [Store.empty, find?]
theorem edgeAt_eq (s : WState) (w i : Nat) : edgeAt s w i = find? i (storeOr s w).edges := by
  simp only [edgeAt, storeOr]; cases s.store? w <;> simp [Store.empty, find?]
theorem nattAt_eq (s : WState) (w i : Nat) : nattAt s w i = find? i (storeOr s w).nodeAtt := by
  simp only [nattAt, storeOr]; cases s.store? w <;> simp [Store.empty, find?]
theorem eattAt_eq (s : WState) (w i : Nat) : eattAt s w i = find? i (storeOr s w).edgeAtt := by
  simp only [eattAt, storeOr]; cases s.store? w <;> simp [Store.empty, find?]

theorem changed_storeOr {s s' : WState} {l : Loc} (hc : Changed s s' l) :
    storeOr s l.warp ≠ storeOr s' l.warp := by
  intro heq
  cases l with
  | node w i => apply hc; simp only [Loc.warp] at heq; rw [nodeAt_eq, nodeAt_eq, heq]
  | edge w i => apply hc; simp only [Loc.warp] at heq; rw [edgeAt_eq, edgeAt_eq, heq]
  | natt w i => apply hc; simp only [Loc.warp] at heq; rw [nattAt_eq, nattAt_eq, heq]
  | eatt w i => apply hc; simp only [Loc.warp] at heq; rw [eattAt_eq, eattAt_eq, heq]
  | adj w n =>
    obtain ⟨e, he⟩ := hc
    apply he; simp only [Loc.warp] at heq; simp only [adjMember, edgeAt_eq, heq]

/-- Only the node-attachment slot `i` of warp `w` differs ⇒ the changed location is that slot. -/
theorem changed_natt_slot {s s' : WState} {w i : Nat} {l : Loc} (hw : l.warp = w)
    (h1 : (storeOr s' w).nodes = (storeOr s w).nodes) (h2 : (storeOr s' w).edges = (storeOr s w).edges)
    (h3 : (storeOr s' w).edgeAtt = (storeOr s w).edgeAtt)
    (h4 : ∀ j, j ≠ i → find? j (storeOr s' w).nodeAtt = find? j (storeOr s w).nodeAtt)
    (hc : Changed s s' l) : l = .natt w i := by
  cases l with
  | node w' j => simp only [Loc.warp] at hw; subst hw; exfalso; apply hc; rw [nodeAt_eq, nodeAt_eq, h1]
  | edge w' j => simp only [Loc.warp] at hw; subst hw; exfalso; apply hc; rw [edgeAt_eq, edgeAt_eq, h2]
  | eatt w' j => simp only [Loc.warp] at hw; subst hw; exfalso; apply hc; rw [eattAt_eq, eattAt_eq, h3]
  | adj w' n =>
    simp only [Loc.warp] at hw; subst hw; exfalso
    obtain ⟨e, he⟩ := hc
    apply he; simp only [adjMember, edgeAt_eq, h2]
  | natt w' j =>
    simp only [Loc.warp] at hw; subst hw
    by_cases hj : j = i
    · subst hj; rfl
    · exfalso; apply hc; rw [nattAt_eq, nattAt_eq, h4 j hj]

theorem changed_eatt_slot {s s' : WState} {w i : Nat} {l : Loc} (hw : l.warp = w)
    (h1 : (storeOr s' w).nodes = (storeOr s w).nodes) (h2 : (storeOr s' w).edges = (storeOr s w).edges)
    (h3 : (storeOr s' w).nodeAtt = (storeOr s w).nodeAtt)
    (h4 : ∀ j, j ≠ i → find? j (storeOr s' w).edgeAtt = find? j (storeOr s w).edgeAtt)
    (hc : Changed s s' l) : l = .eatt w i := by
  cases l with
  | node w' j => simp only [Loc.warp] at hw; subst hw; exfalso; apply hc; rw [nodeAt_eq, nodeAt_eq, h1]
  | edge w' j => simp only [Loc.warp] at hw; subst hw; exfalso; apply hc; rw [edgeAt_eq, edgeAt_eq, h2]
  | natt w' j => simp only [Loc.warp] at hw; subst hw; exfalso; apply hc; rw [nattAt_eq, nattAt_eq, h3]
  | adj w' n =>
    simp only [Loc.warp] at hw; subst hw; exfalso
    obtain ⟨e, he⟩ := hc
    apply he; simp only [adjMember, edgeAt_eq, h2]
  | eatt w' j =>
    simp only [Loc.warp] at hw; subst hw
    by_cases hj : j = i
    · subst hj; rfl
    · exfalso; apply hc; rw [eattAt_eq, eattAt_eq, h4 j hj]

theorem storeOr_putStore (s : WState) (w w2 : Nat) (st : Store) :
    storeOr (s.putStore w st) w2 = if w2 = w then st else storeOr s w2 := by
  simp only [storeOr, store?_putStore]
  by_cases h : w2 = w
  · simp [h]
  · simp [h]

/-- `UpsertWarpInstance` changes no graph-observable location (it keeps an existing store and
    an absent store observes like the empty one it creates). -/
theorem cover_upsertInstance {s s' : WState} {inst : Instance}
    (h : applyOp s (.upsertInstance inst) = .ok s') (l : Loc) : ¬ Changed s s' l := by
  intro hc
  apply changed_storeOr hc
  simp only [applyOp] at h
  cases h
  simp only [storeOr, WState.store?, upsertInstanceWith, find?_insert]
  by_cases hw : l.warp = inst.warp
  · simp only [hw, if_true]
    cases hst : find? inst.warp s.stores <;> rfl
  · simp only [hw, if_false]

theorem cover_deleteInstance {s s' : WState} {w0 : Nat} (hs : s.SortedAll)
    (h : applyOp s (.deleteInstance w0) = .ok s') (l : Loc) (hc : Changed s s' l) : l.warp = w0 := by
  apply Classical.byContradiction
  intro hw
  apply changed_storeOr hc
  simp only [applyOp] at h
  cases hi : find? w0 s.instances with
  | none => rw [hi] at h; cases h
  | some i =>
    rw [hi] at h; cases h
    simp only [storeOr, WState.store?, find?_erase w0 l.warp hs.1, hw, if_false]

theorem validateOwner_ok {s : WState} {key : AttKey} {pw : Nat} (h : validateOwnerExists s key = .ok pw) :
    key.planeValid = true ∧ pw = ownerWarpId key.owner := by
  simp only [validateOwnerExists] at h
  cases hp : key.planeValid with
  | false => simp [hp] at h
  | true =>
    refine ⟨rfl, ?_⟩
    simp only [hp, Bool.not_true, Bool.false_eq_true, if_false] at h
    obtain ⟨owner, plane⟩ := key
    cases owner with
    | node w i =>
      simp only at h
      cases hst : s.store? w with
      | none => rw [hst] at h; cases h
      | some st =>
        rw [hst] at h; simp only at h
        cases hn : find? i st.nodes with
        | none => rw [hn] at h; cases h
        | some x => rw [hn] at h; cases h; rfl
    | edge w i =>
      simp only at h
      cases hst : s.store? w with
      | none => rw [hst] at h; cases h
      | some st =>
        rw [hst] at h; simp only at h
        cases hn : find? i st.edges with
        | none => rw [hn] at h; cases h
        | some x => rw [hn] at h; cases h; rfl

theorem ensureChildRoot_ok {s s1 : WState} {cw cr : Nat} {init : PortalInit}
    (h : ensureChildRoot s cw cr init = .ok s1) :
    (∀ w, w ≠ cw → storeOr s1 w = storeOr s w) ∧ (init = .requireExisting → s1 = s) := by
  cases init with
  | requireExisting =>
    simp only [ensureChildRoot] at h
    cases hst : s.store? cw with
    | none => rw [hst] at h; cases h
    | some st =>
      rw [hst] at h; simp only at h
      cases hn : find? cr st.nodes with
      | none => rw [hn] at h; cases h
      | some x => rw [hn] at h; cases h; exact ⟨fun _ _ => rfl, fun _ => rfl⟩
  | empty ty =>
    simp only [ensureChildRoot] at h
    cases hst : s.store? cw with
    | none => rw [hst] at h; cases h
    | some st =>
      rw [hst] at h; simp only at h
      cases hn : find? cr st.nodes with
      | none =>
        rw [hn] at h; cases h
        refine ⟨?_, fun hi => by cases hi⟩
        intro w hw; rw [storeOr_putStore]; simp [hw]
      | some x =>
        rw [hn] at h; simp only at h
        by_cases hx : x = ty
        · simp only [hx, if_true] at h; cases h; exact ⟨fun _ _ => rfl, fun hi => by cases hi⟩
        · simp only [hx, if_false] at h; cases h

/-- The last step of `apply_open_portal`: writing the `Descend` value into the slot named by `key`. -/
theorem setPortalSlot_cover {s s1 s' : WState} {key : AttKey} {cw : Nat} {l : Loc}
    (hv : key.planeValid = true)
    (hsame : storeOr s1 l.warp = storeOr s l.warp)
    (h : setPortalSlot s1 (ownerWarpId key.owner) key cw = .ok s') (hc : Changed s s' l) :
    covers { nodes := [], edges := [], atts := [key], inst := true, warp := some (ownerWarpId key.owner) } l
      = true := by
  simp only [setPortalSlot] at h
  cases hst : s1.store? (ownerWarpId key.owner) with
  | none => rw [hst] at h; cases h
  | some st1 =>
    rw [hst] at h
    have hst1 : storeOr s1 (ownerWarpId key.owner) = st1 := by simp [storeOr, hst]
    by_cases hw : l.warp = ownerWarpId key.owner
    · obtain ⟨owner, plane⟩ := key
      cases owner with
      | node pw i =>
        simp only [ownerWarpId] at h hw hst1
        cases h
        have hl : l = .natt pw i := by
          rw [hw, hst1] at hsame
          refine changed_natt_slot hw ?_ ?_ ?_ ?_ hc
          · rw [storeOr_putStore]; simp [← hsame]
          · rw [storeOr_putStore]; simp [← hsame]
          · rw [storeOr_putStore]; simp [← hsame]
          · intro j hj; rw [storeOr_putStore]; simp [← hsame, find?_insert, hj]
        subst hl
        rw [planeValid_node hv]; simp [covers]
      | edge pw i =>
        simp only [ownerWarpId] at h hw hst1
        cases h
        have hl : l = .eatt pw i := by
          rw [hw, hst1] at hsame
          refine changed_eatt_slot hw ?_ ?_ ?_ ?_ hc
          · rw [storeOr_putStore]; simp [← hsame]
          · rw [storeOr_putStore]; simp [← hsame]
          · rw [storeOr_putStore]; simp [← hsame]
          · intro j hj; rw [storeOr_putStore]; simp [← hsame, find?_insert, hj]
        subst hl
        rw [planeValid_edge hv]; simp [covers]
    · exfalso
      apply changed_storeOr hc
      rw [← hsame]
      obtain ⟨owner, plane⟩ := key
      cases owner <;> (simp only [ownerWarpId] at h hw; cases h; rw [storeOr_putStore]; simp [hw, ownerWarpId])

theorem cover_openPortal {s s' : WState} {key : AttKey} {cw cr : Nat} {init : PortalInit}
    (h : applyOp s (.openPortal key cw cr init) = .ok s') (l : Loc) (hc : Changed s s' l) :
    covered (.openPortal key cw cr init) l = true := by
  simp only [applyOp, applyOpenPortal] at h
  cases hvo : validateOwnerExists s key with
  | error e => rw [hvo] at h; cases h
  | ok pw =>
    rw [hvo] at h
    obtain ⟨hv, hpw⟩ := validateOwner_ok hvo
    subst hpw
    simp only at h
    -- common tail: an intermediate state equal to `s` outside the child warp, then the slot write
    have tail : ∀ s1, (∀ w, w ≠ cw → storeOr s1 w = storeOr s w) → (init = .requireExisting → s1 = s) →
        setPortalSlot s1 (ownerWarpId key.owner) key cw = .ok s' →
        covered (.openPortal key cw cr init) l = true := by
      intro s1 hout hreq hslot
      simp only [covered, opTargets, Bool.or_eq_true]
      by_cases hcase : l.warp = cw ∧ ∃ ty, init = .empty ty
      · right
        obtain ⟨hw, ty, hi⟩ := hcase
        subst hi
        simp [instWarps, opTargets, newWarp, mergeTargetWarp, hw]
      · left
        have hsame : storeOr s1 l.warp = storeOr s l.warp := by
          by_cases hw : l.warp = cw
          · cases init with
            | requireExisting => rw [hreq rfl]
            | empty ty => exact absurd ⟨hw, ty, rfl⟩ hcase
          · exact hout _ hw
        exact setPortalSlot_cover hv hsame hslot hc
    cases hinst : find? cw s.instances with
    | some existing =>
      rw [hinst] at h
      simp only at h
      split at h
      · cases h
      · cases he : ensureChildRoot s cw cr init with
        | error e => rw [he] at h; cases h
        | ok s1 =>
          rw [he] at h
          obtain ⟨hout, hreq⟩ := ensureChildRoot_ok he
          exact tail s1 hout hreq h
    | none =>
      rw [hinst] at h
      simp only at h
      cases init with
      | requireExisting => cases h
      | empty ty =>
        simp only at h
        refine tail _ ?_ (fun hi => by cases hi) h
        intro w hw
        simp only [storeOr, WState.store?, upsertInstanceWith, find?_insert, hw, if_false]

end Guard
end EchoVerif
