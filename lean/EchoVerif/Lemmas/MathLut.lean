/- C19: the kernel pass over the EXTRACTED quarter-wave table (kept out of Props/C19.lean so that it is
   compiled once per table content and not re-elaborated by every audit). -/
import EchoVerif.Lemmas.MathRound
import EchoVerif.Generated.TrigLut
namespace EchoVerif.Math
open EchoVerif.Generated

/-- kernel evaluation over the table extracted from trig_lut.rs and `0..SEGMENTS`: `i as f32` is
    exact; every segment has `y0 ≤ y1` non-negative finite and a checked witness `d ≥ y1 − y0` with
    `y0 + d ≤ 1` EXACTLY (no rounding slack); `SEGMENTS as f32` is exact; the −0 argument gives +0.
    A table edit that lets the lerp overshoot 1.0 (or shortens the table) breaks this proof. -/
theorem lutInterpCheck : interpCheck sinQtrLutBits sinQtrSegmentsF32 = true := by decide +kernel

theorem lutInterpFacts : InterpFacts (fun i => sinQtrLutBits[i]?) sinQtrSegmentsF32 :=
  interpCheck_sound lutInterpCheck

end EchoVerif.Math
