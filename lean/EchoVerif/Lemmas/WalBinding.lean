/-
  What the digests bind, under an injective hash `H` (pre-images are parsed back field by field):
  the per-record digest binds kind and payload; the frame digest binds every header field, the payload
  and the trailer; the records root binds the frame list; the commit digest binds every marker field.
-/
import EchoVerif.Lemmas.WalCodec
import EchoVerif.Lemmas.WalRecover
set_option linter.unusedSimpArgs false
set_option linter.unusedVariables false

namespace EchoVerif.Wal

theorem le_inj (k a b : Nat) (ha : a < 256 ^ k) (hb : b < 256 ^ k) (h : le k a = le k b) : a = b := by
  have := congrArg leNat h
  rwa [leNat_le, leNat_le, Nat.mod_eq_of_lt ha, Nat.mod_eq_of_lt hb] at this

theorem u16_inj {a b : Nat} (ha : a < 2 ^ 16) (hb : b < 2 ^ 16) (h : u16 a = u16 b) : a = b :=
  le_inj 2 a b (by simpa using ha) (by simpa using hb) h
theorem u32_inj {a b : Nat} (ha : a < 2 ^ 32) (hb : b < 2 ^ 32) (h : u32 a = u32 b) : a = b :=
  le_inj 4 a b (by simpa using ha) (by simpa using hb) h
theorem u64_inj {a b : Nat} (ha : a < 2 ^ 64) (hb : b < 2 ^ 64) (h : u64 a = u64 b) : a = b :=
  le_inj 8 a b (by simpa using ha) (by simpa using hb) h
theorem byte_inj {a b : Nat} (ha : a < 256) (hb : b < 256) (h : byte a = byte b) : a = b := by
  rw [byte_eq_le, byte_eq_le] at h
  exact le_inj 1 a b (by simpa using ha) (by simpa using hb) h

/-- two field lists of the same shape: same number of fields, pairwise equal lengths -/
inductive SameLens : List Bytes → List Bytes → Prop where
  | nil : SameLens [] []
  | cons {a b : Bytes} {xs ys : List Bytes} : a.length = b.length → SameLens xs ys → SameLens (a :: xs) (b :: ys)

/-- concatenations of fields with pairwise equal lengths are equal only if the fields are -/
theorem flatten_inj : ∀ (xs ys : List Bytes), SameLens xs ys → xs.flatten = ys.flatten → xs = ys := by
  intro xs ys hl
  induction hl with
  | nil => intro _; rfl
  | cons hab _ ih =>
    intro h
    simp only [List.flatten_cons] at h
    obtain ⟨h1, h2⟩ := List.append_inj h hab
    rw [h1, ih h2]

/-! ### the per-record digest -/

/-- `record_integrity` (core): the disk-record digest binds the kind byte and the payload -/
theorem diskDigest_binds (cfg : Cfg) (H : HashFn) (hinj : Function.Injective H) (tag tag' : UInt8)
    (p p' : Bytes) (h : diskDigest cfg H tag p = diskDigest cfg H tag' p') : tag = tag' ∧ p = p' := by
  have h1 := hinj h
  simp only [List.append_assoc] at h1
  have h2 := List.append_cancel_left h1
  simp only [List.cons_append, List.nil_append, List.cons.injEq] at h2
  obtain ⟨ht, h3⟩ := h2
  have h8 : (u64 p.length).length = (u64 p'.length).length := by simp [u64, le_length]
  exact ⟨ht, (List.append_inj h3 h8).2⟩

/-! ### the frame digest -/

def FrameHeader.fields (h : FrameHeader) : List Bytes :=
  [u16 h.walVersion, h.writerEpoch, u64 h.segmentId, u64 h.lsn, h.txId, u32 h.localIndex, h.kind.label,
   u64 h.payloadLen, h.payloadDigest, h.codecId, h.schemaId, u16 h.schemaVersion, u16 h.encodingVersion,
   h.digestDomain, byte h.compression, byte h.redaction, h.prevFrameDigest, u32 h.headerChecksum]

theorem checksumInput_true (h : FrameHeader) : h.checksumInput true = h.fields.flatten := by
  simp [FrameHeader.checksumInput, FrameHeader.fields, List.flatten]

/-- the record-kind table does not give two codes the same label -/
def LabelInj (cfg : Cfg) : Prop := ∀ c c' l, cfg.label c = some l → cfg.label c' = some l → c = c'

theorem payloadPre_binds (cfg : Cfg) (k : Kind) (sv sv' : Nat) (b b' : Bytes) (hsv : sv < 2 ^ 16) (hsv' : sv' < 2 ^ 16)
    (h : payloadPre cfg k sv b = payloadPre cfg k sv' b') : sv = sv' ∧ b = b' := by
  simp only [payloadPre, List.append_assoc] at h
  have h1 := List.append_cancel_left (List.append_cancel_left h)
  have l2 : (u16 sv).length = (u16 sv').length := by simp [u16, le_length]
  obtain ⟨a1, a2⟩ := List.append_inj h1 l2
  have l8 : (u64 b.length).length = (u64 b'.length).length := by simp [u64, le_length]
  exact ⟨u16_inj hsv hsv' a1, (List.append_inj a2 l8).2⟩

/-- `frame_integrity`: the frame digest binds the whole frame — every header field, the payload kind,
    schema version and bytes, and the trailer checksum -/
theorem validateIntegrity_payload {cfg : Cfg} {H : HashFn} {f : Frame} (h : validateIntegrity cfg H f = .ok ()) :
    f.payloadDigest cfg H = f.header.payloadDigest := by
  by_cases hk : f.payloadKind ≠ f.header.kind
  · simp [validateIntegrity, hk] at h
  · by_cases hp : f.payloadDigest cfg H ≠ f.header.payloadDigest
    · simp [validateIntegrity, hk, hp] at h
    · exact Classical.not_not.mp hp

theorem frame_digest_binds (cfg : Cfg) (H : HashFn) (hinj : Function.Injective H)
    (hlab : LabelInj cfg) (f g : Frame) (hf : FrameOK cfg H f) (hg : FrameOK cfg H g)
    (h : f.digest cfg H = g.digest cfg H) : f = g := by
  have h32f : (f.payloadDigest cfg H).length = 32 := by rw [validateIntegrity_payload hf.valid]; exact hf.pdig
  have h32g : (g.payloadDigest cfg H).length = 32 := by rw [validateIntegrity_payload hg.valid]; exact hg.pdig
  have h1 := hinj h
  rw [checksumInput_true, checksumInput_true] at h1
  have h2 : ([cfg.frameDomain] ++ f.header.fields ++ [f.payloadDigest cfg H, u32 f.frameChecksum]).flatten
      = ([cfg.frameDomain] ++ g.header.fields ++ [g.payloadDigest cfg H, u32 g.frameChecksum]).flatten := by
    simpa [List.flatten_append, List.append_assoc] using h1
  -- total lengths agree, hence the (only variable-width) label lengths agree
  have hlen := congrArg List.length h2
  have hl : f.header.kind.label.length = g.header.kind.label.length := by
    simp [FrameHeader.fields, u16, u32, u64, byte, le_length, hf.epoch, hg.epoch, hf.txId, hg.txId,
      hf.pdig, hg.pdig, hf.codec, hg.codec, hf.schema, hg.schema, hf.dom, hg.dom, hf.prev, hg.prev,
      h32f, h32g] at hlen
    omega
  have hfields := flatten_inj _ _ (by
    simp only [FrameHeader.fields, List.cons_append, List.nil_append]
    repeat' constructor
    all_goals simp [u16, u32, u64, byte, le_length, hf.epoch, hg.epoch, hf.txId, hg.txId,
      hf.pdig, hg.pdig, hf.codec, hg.codec, hf.schema, hg.schema, hf.dom, hg.dom, hf.prev, hg.prev,
      h32f, h32g, hl]) h2
  simp only [FrameHeader.fields, List.cons_append, List.nil_append, List.cons.injEq, and_true] at hfields
  obtain ⟨_, e1, e2, e3, e4, e5, e6, e7, e8, e9, e10, e11, e12, e13, e14, e15, e16, e17, e18, e19, e20⟩ := hfields
  have hcode : f.header.kind.code = g.header.kind.code :=
    hlab _ _ _ hf.kind.2 (e7 ▸ hg.kind.2)
  have hkind : f.header.kind = g.header.kind := by
    cases hk : f.header.kind; cases hk' : g.header.kind
    rw [hk, hk'] at hcode e7
    simp at hcode e7
    rw [hcode, e7]
  have hheader : f.header = g.header := by
    cases hh : f.header; cases hh' : g.header
    rw [hh] at e1 e2 e3 e4 e5 e6 e8 e9 e10 e11 e12 e13 e14 e15 e16 e17 e18 hkind
    rw [hh'] at e1 e2 e3 e4 e5 e6 e8 e9 e10 e11 e12 e13 e14 e15 e16 e17 e18 hkind
    have b := hf; have c := hg
    simp only [FrameHeader.mk.injEq]
    have r1 := u16_inj (by have := hf.ver; rwa [hh] at this) (by have := hg.ver; rwa [hh'] at this) e1
    have r3 := u64_inj (by have := hf.seg; rwa [hh] at this) (by have := hg.seg; rwa [hh'] at this) e3
    have r4 := u64_inj (by have := hf.lsn; rwa [hh] at this) (by have := hg.lsn; rwa [hh'] at this) e4
    have r6 := u32_inj (by have := hf.idx; rwa [hh] at this) (by have := hg.idx; rwa [hh'] at this) e6
    have r8 := u64_inj (by have := hf.plen; rwa [hh] at this) (by have := hg.plen; rwa [hh'] at this) e8
    have r12 := u16_inj (by have := hf.sv; rwa [hh] at this) (by have := hg.sv; rwa [hh'] at this) e12
    have r13 := u16_inj (by have := hf.ev; rwa [hh] at this) (by have := hg.ev; rwa [hh'] at this) e13
    have r15 := byte_inj (by have := hf.comp.1; rwa [hh] at this) (by have := hg.comp.1; rwa [hh'] at this) e15
    have r16 := byte_inj (by have := hf.red.1; rwa [hh] at this) (by have := hg.red.1; rwa [hh'] at this) e16
    have r18 := u32_inj (by have := hf.hck; rwa [hh] at this) (by have := hg.hck; rwa [hh'] at this) e18
    simp at r1 r3 r4 r6 r8 r12 r13 r15 r16 r18 e2 e5 e9 e10 e11 e14 e17 hkind
    exact ⟨r1, e2, r3, r4, e5, r6, hkind, r8, e9, e10, e11, r12, r13, e14, r15, r16, e17, r18⟩
  -- the payload, through the payload digest
  have hp := hinj e19
  have hpk : f.payloadKind = g.payloadKind := by rw [hf.pkind, hg.pkind, hkind]
  rw [hpk] at hp
  obtain ⟨hsv, hbytes⟩ := payloadPre_binds cfg _ _ _ _ _ hf.psv hg.psv hp
  have hck := u32_inj hf.fck hg.fck e20
  cases f; cases g
  simp_all

/-! ### the records root and the commit digest -/

theorem chunks32_inj {α : Type} (d : α → Bytes) :
    ∀ (xs ys : List α), (∀ a ∈ xs, (d a).length = 32) → (∀ a ∈ ys, (d a).length = 32) →
      xs.flatMap d = ys.flatMap d → xs.map d = ys.map d := by
  intro xs
  induction xs with
  | nil =>
    intro ys _ hy h
    cases ys with
    | nil => rfl
    | cons y ys =>
      have := congrArg List.length h
      have hy0 := hy y (by simp)
      simp only [List.flatMap_nil, List.length_nil, List.flatMap_cons, List.length_append] at this
      omega
  | cons x xs ih =>
    intro ys hx hy h
    cases ys with
    | nil =>
      have := congrArg List.length h
      have hx0 := hx x (by simp)
      simp only [List.flatMap_nil, List.length_nil, List.flatMap_cons, List.length_append] at this
      omega
    | cons y ys =>
      simp only [List.flatMap_cons] at h
      obtain ⟨h1, h2⟩ := List.append_inj h (by rw [hx x (by simp), hy y (by simp)])
      simp only [List.map_cons, h1, ih ys (fun a ha => hx a (by simp [ha])) (fun a ha => hy a (by simp [ha])) h2]

/-- the records root binds the list of frames -/
theorem recordsRoot_binds (cfg : Cfg) (H : HashFn) (hinj : Function.Injective H)
    (hlab : LabelInj cfg) (fs gs : List Frame) (hf : ∀ f ∈ fs, FrameOK cfg H f) (hg : ∀ g ∈ gs, FrameOK cfg H g)
    (hdf : ∀ f ∈ fs, (f.digest cfg H).length = 32) (hdg : ∀ g ∈ gs, (g.digest cfg H).length = 32)
    (h : recordsRoot cfg H fs = recordsRoot cfg H gs) : fs = gs := by
  have h1 := hinj h
  simp only [List.append_assoc] at h1
  have h2 := List.append_cancel_left h1
  have l8 : (u64 fs.length).length = (u64 gs.length).length := by simp [u64, le_length]
  have h3 := (List.append_inj h2 l8).2
  have h4 := chunks32_inj (fun f => f.digest cfg H) fs gs hdf hdg h3
  clear h h1 h2 h3 l8 hdf hdg
  induction fs generalizing gs with
  | nil =>
    cases gs with
    | nil => rfl
    | cons g gs => simp at h4
  | cons f fs ih =>
    cases gs with
    | nil => simp at h4
    | cons g gs =>
      simp only [List.map_cons, List.cons.injEq] at h4
      have e := frame_digest_binds cfg H hinj hlab f g (hf f (by simp)) (hg g (by simp)) h4.1
      rw [e, ih gs (fun x hx => hf x (by simp [hx])) (fun x hx => hg x (by simp [hx])) h4.2]

def Commit.fields (cfg : Cfg) (c : Commit) : List Bytes :=
  [cfg.commitDomain, c.writerEpoch, c.txId, byte c.txKind, u64 c.firstLsn, u64 c.lastLsn, u64 c.recordCount,
   c.recordsRoot, c.frontiersRoot, c.prevCommitDigest, byte c.durability, u16 c.schemaVersion]

/-- the commit digest binds every field of the marker -/
theorem commit_digest_binds (cfg : Cfg) (H : HashFn) (hinj : Function.Injective H) (c d : Commit)
    (hc : CommitOK cfg c) (hd : CommitOK cfg d) (h : c.computeDigest cfg H = d.computeDigest cfg H)
    (hdig : c.commitDigest = d.commitDigest) : c = d := by
  have h1 := hinj h
  have h2 : (Commit.fields cfg c).flatten = (Commit.fields cfg d).flatten := by
    simpa [Commit.fields, List.flatten, List.append_assoc] using h1
  have hfields := flatten_inj _ _ (by
    simp only [Commit.fields]
    repeat' constructor
    all_goals simp [u16, u64, byte, le_length, hc.epoch, hd.epoch, hc.txId, hd.txId, hc.root, hd.root,
      hc.froot, hd.froot, hc.prev, hd.prev]) h2
  simp only [Commit.fields, List.cons.injEq, and_true] at hfields
  obtain ⟨_, e2, e3, e4, e5, e6, e7, e8, e9, e10, e11, e12⟩ := hfields
  have r4 := byte_inj hc.kind.1 hd.kind.1 e4
  have r5 := u64_inj hc.first hd.first e5
  have r6 := u64_inj hc.last hd.last e6
  have r7 := u64_inj hc.count hd.count e7
  have r11 := byte_inj hc.dur.1 hd.dur.1 e11
  have r12 := u16_inj hc.schema hd.schema e12
  cases c; cases d
  simp_all

/-- the two digest checks at the end of `validate_transaction_frames` -/
theorem validateTx_digests {cfg : Cfg} {H : HashFn} {fs : List Frame} {c : Commit}
    (h : validateTx cfg H fs c = .ok ()) :
    recordsRoot cfg H fs = c.recordsRoot ∧ c.computeDigest cfg H = c.commitDigest := by
  unfold validateTx at h
  split at h
  · split at h
    · cases h
    · split at h
      · cases h
      · split at h
        · cases h
        · split at h
          · cases h
          · split at h
            · cases h
            · split at h
              · cases h
              · rename_i h1 h2
                exact ⟨by simpa using h1, by simpa using h2⟩
  · cases h

/-- `tx_integrity` (binding part): the 32-byte commit digest pins the whole transaction. Two
    transactions that both pass `validate_transaction_frames` and carry the same commit digest have
    the same marker and the same frames. -/
theorem tx_bound_by_commit_digest (cfg : Cfg) (H : HashFn) (hinj : Function.Injective H)
    (hlab : LabelInj cfg) (fs gs : List Frame) (c d : Commit)
    (hf : ∀ f ∈ fs, FrameOK cfg H f) (hg : ∀ g ∈ gs, FrameOK cfg H g)
    (hdf : ∀ f ∈ fs, (f.digest cfg H).length = 32) (hdg : ∀ g ∈ gs, (g.digest cfg H).length = 32)
    (hc : CommitOK cfg c) (hd : CommitOK cfg d)
    (hv : validateTx cfg H fs c = .ok ()) (hw : validateTx cfg H gs d = .ok ())
    (hdig : c.commitDigest = d.commitDigest) : c = d ∧ fs = gs := by
  obtain ⟨r1, d1⟩ := validateTx_digests hv
  obtain ⟨r2, d2⟩ := validateTx_digests hw
  have hcd : c = d := commit_digest_binds cfg H hinj c d hc hd (by rw [d1, d2, hdig]) hdig
  refine ⟨hcd, ?_⟩
  apply recordsRoot_binds cfg H hinj hlab fs gs hf hg hdf hdg
  rw [r1, r2, hcd]

end EchoVerif.Wal
