/-
  Lemmas for `tick_serial_equiv` (C01): serial application of per-rewrite op lists.
  Location view: after any successful application of skeleton ops every location holds the last
  effect on it (`applyLoop_skel`); if the ops at hand are SINGLE-VALUED per location (at most one
  value is ever written to a location - what pairwise write-disjoint honest footprints give), the
  last effect does not depend on the order.
-/
import EchoVerif.Lemmas.TickCommit
set_option linter.unusedSimpArgs false
set_option linter.unusedVariables false
namespace EchoVerif
namespace Tick
open Graph Exec SMap

/-- apply the op lists one after another (each as one `apply_ops_to_state` call) -/
def applySerial (s : WState) : List (List Op) → Except Err WState
  | [] => .ok s
  | d :: rest =>
    match applyOps s d with
    | .error e => .error e
    | .ok s' => applySerial s' rest

/-- an effect is single-valued on a set of ops: all ops that touch the location write one value -/
def SV {V : Type} (eff : Op → Option V) (U : List Op) : Prop :=
  ∀ a ∈ U, ∀ b ∈ U, ∀ va vb, eff a = some va → eff b = some vb → va = vb

/-- every location (node record, edge record, α / β attachment) is written with at most one value -/
structure SingleValued (U : List Op) : Prop where
  node : ∀ w i, SV (effNode w i) U
  edge : ∀ w i, SV (effEdge w i) U
  natt : ∀ w i, SV (effNatt w i) U
  eatt : ∀ w i, SV (effEatt w i) U

/-- the two lists touch the same locations -/
structure SameCover (l1 l2 : List Op) : Prop where
  node : ∀ w i, (∃ o ∈ l1, effNode w i o ≠ none) ↔ (∃ o ∈ l2, effNode w i o ≠ none)
  edge : ∀ w i, (∃ o ∈ l1, effEdge w i o ≠ none) ↔ (∃ o ∈ l2, effEdge w i o ≠ none)
  natt : ∀ w i, (∃ o ∈ l1, effNatt w i o ≠ none) ↔ (∃ o ∈ l2, effNatt w i o ≠ none)
  eatt : ∀ w i, (∃ o ∈ l1, effEatt w i o ≠ none) ↔ (∃ o ∈ l2, effEatt w i o ≠ none)

theorem sameCover_of_mem {l1 l2 : List Op} (h : ∀ o, o ∈ l1 ↔ o ∈ l2) : SameCover l1 l2 := by
  constructor <;> intro w i <;> constructor <;> rintro ⟨o, ho, he⟩
  all_goals first | exact ⟨o, (h o).mp ho, he⟩ | exact ⟨o, (h o).mpr ho, he⟩

theorem lastEff_all_same {V : Type} (eff : Op → Option V) (U l : List Op) (x : V) (hsv : SV eff U)
    (hl : ∀ o ∈ l, o ∈ U) (o : Op) (ho : o ∈ l) (v : V) (hv : eff o = some v) :
    lastEff eff l x = v := by
  apply lastEff_same eff v l x
  · intro o' ho'
    cases he : eff o' with
    | none => exact Or.inl rfl
    | some v' => exact Or.inr (by rw [hsv o' (hl o' ho') o (hl o ho) v' v he hv])
  · exact Or.inl ⟨o, ho, hv⟩

/-- order-independence of the last effect under single-valuedness -/
theorem lastEff_sv {V : Type} (eff : Op → Option V) (U l1 l2 : List Op) (x : V) (hsv : SV eff U)
    (h1 : ∀ o ∈ l1, o ∈ U) (h2 : ∀ o ∈ l2, o ∈ U)
    (hcov : (∃ o ∈ l1, eff o ≠ none) ↔ (∃ o ∈ l2, eff o ≠ none)) :
    lastEff eff l1 x = lastEff eff l2 x := by
  by_cases hex : ∃ o ∈ l1, eff o ≠ none
  · obtain ⟨o1, ho1, he1⟩ := hex
    obtain ⟨o2, ho2, he2⟩ := hcov.mp ⟨o1, ho1, he1⟩
    cases hv1 : eff o1 with
    | none => exact absurd hv1 he1
    | some v1 =>
      cases hv2 : eff o2 with
      | none => exact absurd hv2 he2
      | some v2 =>
        have : v1 = v2 := hsv o1 (h1 o1 ho1) o2 (h2 o2 ho2) v1 v2 hv1 hv2
        rw [lastEff_all_same eff U l1 x hsv h1 o1 ho1 v1 hv1,
            lastEff_all_same eff U l2 x hsv h2 o2 ho2 v2 hv2, this]
  · have hn1 : ∀ o ∈ l1, eff o = none := by
      intro o ho
      cases he : eff o with
      | none => rfl
      | some v => exact absurd ⟨o, ho, by rw [he]; exact fun h => by cases h⟩ hex
    have hex2 : ¬ ∃ o ∈ l2, eff o ≠ none := fun h => hex (hcov.mpr h)
    have hn2 : ∀ o ∈ l2, eff o = none := by
      intro o ho
      cases he : eff o with
      | none => rfl
      | some v => exact absurd ⟨o, ho, by rw [he]; exact fun h => by cases h⟩ hex2
    rw [lastEff_none eff l1 x hn1, lastEff_none eff l2 x hn2]

/-- the location laws of a serial application: every location ends at the last effect of the
    concatenation -/
theorem applySerial_skel : ∀ (ds : List (List Op)) (s c : WState),
    (∀ d ∈ ds, ∀ o ∈ d, o.isSkel = true) → s.SortedAll → applySerial s ds = .ok c →
    c.instances = s.instances ∧ c.SortedAll ∧
    (∀ w, (c.store? w).isSome = (s.store? w).isSome) ∧
    (∀ w i, nodeAt c w i = lastEff (effNode w i) ds.flatten (nodeAt s w i)) ∧
    (∀ w i, edgeAt c w i = lastEff (effEdge w i) ds.flatten (edgeAt s w i)) ∧
    (∀ w i, nattAt c w i = lastEff (effNatt w i) ds.flatten (nattAt s w i)) ∧
    (∀ w i, eattAt c w i = lastEff (effEatt w i) ds.flatten (eattAt s w i))
  | [], s, c, _, hs, h => by
    simp only [applySerial] at h; cases h
    exact ⟨rfl, hs, fun _ => rfl, fun _ _ => rfl, fun _ _ => rfl, fun _ _ => rfl, fun _ _ => rfl⟩
  | d :: rest, s, c, hsk, hs, h => by
    simp only [applySerial] at h
    cases ha : applyOps s d with
    | error e => rw [ha] at h; cases h
    | ok s1 =>
      rw [ha] at h
      simp only at h
      obtain ⟨t, hl⟩ := applyOps_loop ha
      obtain ⟨i1, s1s, k1, n1, e1, a1, b1⟩ :=
        applyLoop_skel d s false s1 t (hsk d List.mem_cons_self) hs hl
      obtain ⟨i2, s2s, k2, n2, e2, a2, b2⟩ :=
        applySerial_skel rest s1 c (fun d' hd' => hsk d' (List.mem_cons_of_mem _ hd')) s1s h
      refine ⟨i2.trans i1, s2s, fun w => (k2 w).trans (k1 w), ?_, ?_, ?_, ?_⟩
      · intro w i; rw [n2, n1, List.flatten_cons, lastEff_append]
      · intro w i; rw [e2, e1, List.flatten_cons, lastEff_append]
      · intro w i; rw [a2, a1, List.flatten_cons, lastEff_append]
      · intro w i; rw [b2, b1, List.flatten_cons, lastEff_append]

/-- two successful applications (serial or in one pass) of single-valued skeleton ops that touch the
    same locations reach the same state -/
theorem serial_state_eq {pre c1 c2 : WState} (hpre : pre.SortedAll) (U : List Op)
    (hsv : SingleValued U) (ds1 ds2 : List (List Op))
    (hsk1 : ∀ d ∈ ds1, ∀ o ∈ d, o.isSkel = true) (hsk2 : ∀ d ∈ ds2, ∀ o ∈ d, o.isSkel = true)
    (hu1 : ∀ o ∈ ds1.flatten, o ∈ U) (hu2 : ∀ o ∈ ds2.flatten, o ∈ U)
    (hcov : SameCover ds1.flatten ds2.flatten)
    (h1 : applySerial pre ds1 = .ok c1) (h2 : applySerial pre ds2 = .ok c2) : c1 = c2 := by
  obtain ⟨i1, s1, k1, n1, e1, a1, b1⟩ := applySerial_skel ds1 pre c1 hsk1 hpre h1
  obtain ⟨i2, s2, k2, n2, e2, a2, b2⟩ := applySerial_skel ds2 pre c2 hsk2 hpre h2
  apply wstate_ext s1 s2 (i1.trans i2.symm) (fun w => (k1 w).trans (k2 w).symm)
  · intro w i; rw [n1, n2]; exact lastEff_sv _ U _ _ _ (hsv.node w i) hu1 hu2 (hcov.node w i)
  · intro w i; rw [e1, e2]; exact lastEff_sv _ U _ _ _ (hsv.edge w i) hu1 hu2 (hcov.edge w i)
  · intro w i; rw [a1, a2]; exact lastEff_sv _ U _ _ _ (hsv.natt w i) hu1 hu2 (hcov.natt w i)
  · intro w i; rw [b1, b2]; exact lastEff_sv _ U _ _ _ (hsv.eatt w i) hu1 hu2 (hcov.eatt w i)

theorem applySerial_single (s : WState) (l : List Op) : applySerial s [l] = applyOps s l := by
  simp only [applySerial]
  cases applyOps s l <;> rfl

end Tick
end EchoVerif
