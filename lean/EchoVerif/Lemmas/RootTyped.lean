/-
  Lemmas about Model/Root.lean, part 7: multi-instance injectivity WITHOUT any count hypothesis,
  for id universes in which warp ids and node ids cannot alias.

  The only undetermined decision of the left-to-right parse is "next instance header" versus
  "more content of the current instance" (DESIGN §7-H). If a predicate `W` holds of every warp id
  and of no node id (both states), the next 32 bytes settle it: `W` ⇒ header; otherwise a node
  entry (id above the last listed node) or a bucket (source is a listed node).
-/
import EchoVerif.Lemmas.RootWf

set_option linter.unusedSimpArgs false
set_option linter.unusedVariables false

namespace EchoVerif
namespace Root
open Graph SMap

/-- what follows an instance's content: nothing, or the header of the next instance -/
def Boundary (W : Nat → Prop) (x : Bytes) : Prop :=
  x = [] ∨ ∃ w y, W w ∧ IdOk w ∧ x = id32 w ++ y

theorem boundary_not_bucket {t : Tags} {W : Nat → Prop} {x : Bytes} (hx : Boundary W x)
    {b : BucketC} (hb : BucketOk b) (hw : ¬ W b.src) (z : Bytes) : x ≠ encBucket t b ++ z := by
  intro h
  rcases hx with hx | ⟨w, y, hW, hok, hx⟩
  · rw [hx] at h; exact encBucket_ne_nil t b z h.symm
  · rw [hx] at h
    simp only [encBucket, List.append_assoc] at h
    obtain ⟨e, _⟩ := id32_split hok hb.1 h
    exact hw (e ▸ hW)

theorem boundary_not_node {t : Tags} {W : Nat → Prop} {x : Bytes} (hx : Boundary W x)
    {n : NodeC} (hn : NodeOk n) (hw : ¬ W n.id) (z : Bytes) : x ≠ encNode t n ++ z := by
  intro h
  rcases hx with hx | ⟨w, y, hW, hok, hx⟩
  · rw [hx] at h; exact encNode_ne_nil t n z h.symm
  · rw [hx] at h
    simp only [encNode, List.append_assoc] at h
    obtain ⟨e, _⟩ := id32_split hok hn.1 h
    exact hw (e ▸ hW)

/-- buckets followed by a boundary need no count -/
theorem buckets_rest {t : Tags} (ht : TagsOk t) (W : Nat → Prop) : ∀ (bs bs' : List BucketC) (x y : Bytes),
    (∀ b, b ∈ bs → BucketOk b) → (∀ b, b ∈ bs' → BucketOk b) →
    (∀ b, b ∈ bs → ¬ W b.src) → (∀ b, b ∈ bs' → ¬ W b.src) →
    Boundary W x → Boundary W y →
    bs.flatMap (encBucket t) ++ x = bs'.flatMap (encBucket t) ++ y → bs = bs' ∧ x = y
  | [], [], x, y, _, _, _, _, _, _, h => ⟨rfl, by simpa using h⟩
  | [], b :: bs', x, y, _, h2, _, w2, hx, _, h => by
    simp only [List.flatMap_nil, List.nil_append, List.flatMap_cons, List.append_assoc] at h
    exact absurd h (boundary_not_bucket hx (h2 b List.mem_cons_self) (w2 b List.mem_cons_self) _)
  | b :: bs, [], x, y, h1, _, w1, _, _, hy, h => by
    simp only [List.flatMap_nil, List.nil_append, List.flatMap_cons, List.append_assoc] at h
    exact absurd h.symm (boundary_not_bucket hy (h1 b List.mem_cons_self) (w1 b List.mem_cons_self) _)
  | b :: bs, b' :: bs', x, y, h1, h2, w1, w2, hx, hy, h => by
    simp only [List.flatMap_cons, List.append_assoc] at h
    obtain ⟨e, hr⟩ := encBucket_split ht (h1 b List.mem_cons_self) (h2 b' List.mem_cons_self) h
    obtain ⟨e2, e3⟩ := buckets_rest ht W bs bs' x y (fun z hz => h1 z (List.mem_cons_of_mem _ hz))
      (fun z hz => h2 z (List.mem_cons_of_mem _ hz)) (fun z hz => w1 z (List.mem_cons_of_mem _ hz))
      (fun z hz => w2 z (List.mem_cons_of_mem _ hz)) hx hy hr
    exact ⟨by rw [e, e2], e3⟩

/-- node entries, then buckets, then a boundary: forced (`P` = node ids already consumed) -/
theorem tail_rest {t : Tags} (ht : TagsOk t) (W : Nat → Prop) : ∀ (ns ns' : List NodeC) (P : List Nat)
    (bs bs' : List BucketC) (x y : Bytes),
    (∀ n, n ∈ ns → NodeOk n) → (∀ n, n ∈ ns' → NodeOk n) →
    (∀ b, b ∈ bs → BucketOk b) → (∀ b, b ∈ bs' → BucketOk b) →
    Asc ns → Asc ns' →
    (∀ n, n ∈ ns → ∀ p, p ∈ P → p < n.id) → (∀ n, n ∈ ns' → ∀ p, p ∈ P → p < n.id) →
    (∀ b, b ∈ bs → b.src ∈ P ∨ ∃ n, n ∈ ns ∧ b.src = n.id) →
    (∀ b, b ∈ bs' → b.src ∈ P ∨ ∃ n, n ∈ ns' ∧ b.src = n.id) →
    (∀ n, n ∈ ns → ¬ W n.id) → (∀ n, n ∈ ns' → ¬ W n.id) →
    (∀ b, b ∈ bs → ¬ W b.src) → (∀ b, b ∈ bs' → ¬ W b.src) →
    Boundary W x → Boundary W y →
    ns.flatMap (encNode t) ++ (bs.flatMap (encBucket t) ++ x)
      = ns'.flatMap (encNode t) ++ (bs'.flatMap (encBucket t) ++ y) →
    ns = ns' ∧ bs = bs' ∧ x = y
  | [], [], P, bs, bs', x, y, _, _, hb, hb', _, _, _, _, _, _, _, _, wb, wb', hx, hy, h => by
    simp only [List.flatMap_nil, List.nil_append] at h
    exact ⟨rfl, buckets_rest ht W bs bs' x y hb hb' wb wb' hx hy h⟩
  | [], n' :: ns', P, bs, bs', x, y, _, hn', hb, _, _, _, _, hP', hs, _, _, wn', _, _, hx, _, h => by
    exfalso
    simp only [List.flatMap_nil, List.nil_append, List.flatMap_cons, List.append_assoc] at h
    cases bs with
    | nil =>
      simp only [List.flatMap_nil, List.nil_append] at h
      exact boundary_not_node hx (hn' n' List.mem_cons_self) (wn' n' List.mem_cons_self) _ h
    | cons b bs =>
      simp only [List.flatMap_cons, encBucket, encNode, List.append_assoc] at h
      have hbo := hb b List.mem_cons_self
      have hno := hn' n' List.mem_cons_self
      obtain ⟨e, _⟩ := id32_split hbo.1 hno.1 h
      rcases hs b List.mem_cons_self with hp | ⟨n, hn, _⟩
      · have := hP' n' List.mem_cons_self _ hp
        omega
      · cases hn
  | n :: ns, [], P, bs, bs', x, y, hn, _, _, hb', _, _, hP, _, _, hs', wn, _, _, _, _, hy, h => by
    exfalso
    simp only [List.flatMap_nil, List.nil_append, List.flatMap_cons, List.append_assoc] at h
    cases bs' with
    | nil =>
      simp only [List.flatMap_nil, List.nil_append] at h
      exact boundary_not_node hy (hn n List.mem_cons_self) (wn n List.mem_cons_self) _ h.symm
    | cons b bs' =>
      simp only [List.flatMap_cons, encBucket, encNode, List.append_assoc] at h
      have hbo := hb' b List.mem_cons_self
      have hno := hn n List.mem_cons_self
      obtain ⟨e, _⟩ := id32_split hno.1 hbo.1 h
      rcases hs' b List.mem_cons_self with hp | ⟨m, hm, _⟩
      · have := hP n List.mem_cons_self _ hp
        omega
      · cases hm
  | n :: ns, n' :: ns', P, bs, bs', x, y, hn, hn', hb, hb', ha, ha', hP, hP', hs, hs', wn, wn', wb, wb',
      hx, hy, h => by
    simp only [List.flatMap_cons, List.append_assoc] at h
    obtain ⟨e, hr⟩ := encNode_split ht (hn n List.mem_cons_self) (hn' n' List.mem_cons_self) h
    subst e
    have ha1 := List.pairwise_cons.mp ha
    have ha1' := List.pairwise_cons.mp ha'
    have := tail_rest ht W ns ns' (n.id :: P) bs bs' x y
      (fun z hz => hn z (List.mem_cons_of_mem _ hz)) (fun z hz => hn' z (List.mem_cons_of_mem _ hz))
      hb hb' ha1.2 ha1'.2
      (by
        intro m hm p hp
        cases hp with
        | head => exact ha1.1 m hm
        | tail _ hp => exact hP m (List.mem_cons_of_mem _ hm) p hp)
      (by
        intro m hm p hp
        cases hp with
        | head => exact ha1'.1 m hm
        | tail _ hp => exact hP' m (List.mem_cons_of_mem _ hm) p hp)
      (by
        intro b hbm
        rcases hs b hbm with hp | ⟨m, hm, e⟩
        · exact Or.inl (List.mem_cons_of_mem _ hp)
        · cases hm with
          | head => exact Or.inl (by rw [e]; exact List.mem_cons_self)
          | tail _ hm => exact Or.inr ⟨m, hm, e⟩)
      (by
        intro b hbm
        rcases hs' b hbm with hp | ⟨m, hm, e⟩
        · exact Or.inl (List.mem_cons_of_mem _ hp)
        · cases hm with
          | head => exact Or.inl (by rw [e]; exact List.mem_cons_self)
          | tail _ hm => exact Or.inr ⟨m, hm, e⟩)
      (fun z hz => wn z (List.mem_cons_of_mem _ hz)) (fun z hz => wn' z (List.mem_cons_of_mem _ hz))
      wb wb' hx hy hr
    exact ⟨by rw [this.1], this.2.1, this.2.2⟩

/-- content-level hypothesis: warp ids satisfy `W`, node ids do not -/
def InstTyped (W : Nat → Prop) (i : InstC) : Prop := W i.warp ∧ ∀ n, n ∈ i.nodes → ¬ W n.id

theorem insts_boundary {t : Tags} {W : Nat → Prop} : ∀ (is : List InstC),
    (∀ i, i ∈ is → InstOk i ∧ InstTyped W i) → Boundary W (is.flatMap (encInst t))
  | [], _ => Or.inl rfl
  | i :: is, h => by
    have hi := h i List.mem_cons_self
    refine Or.inr ⟨i.warp, id32 i.root ++ (encKey t i.parent ++ (i.nodes.flatMap (encNode t) ++
      i.buckets.flatMap (encBucket t))) ++ is.flatMap (encInst t), hi.2.1, hi.1.1, ?_⟩
    simp only [List.flatMap_cons, encInst, List.append_assoc]

/-- **Injectivity of the instance sequence for typed id universes**, no counts assumed. -/
theorem insts_inj_typed {t : Tags} (ht : TagsOk t) (W : Nat → Prop) : ∀ (is is' : List InstC),
    (∀ i, i ∈ is → InstOk i ∧ InstCanon i ∧ InstTyped W i) →
    (∀ i, i ∈ is' → InstOk i ∧ InstCanon i ∧ InstTyped W i) →
    is.flatMap (encInst t) = is'.flatMap (encInst t) → is = is'
  | [], [], _, _, _ => rfl
  | [], i :: is', _, _, h => by
    have := congrArg List.length h
    simp only [List.flatMap_nil, List.flatMap_cons, encInst, List.length_append, id32_length,
      List.length_nil] at this
    omega
  | i :: is, [], _, _, h => by
    have := congrArg List.length h
    simp only [List.flatMap_nil, List.flatMap_cons, encInst, List.length_append, id32_length,
      List.length_nil] at this
    omega
  | i :: is, i' :: is', h1, h2, h => by
    have hi := h1 i List.mem_cons_self
    have hi' := h2 i' List.mem_cons_self
    have hx : Boundary W (is.flatMap (encInst t)) :=
      insts_boundary is (fun j hj => ⟨(h1 j (List.mem_cons_of_mem _ hj)).1, (h1 j (List.mem_cons_of_mem _ hj)).2.2⟩)
    have hy : Boundary W (is'.flatMap (encInst t)) :=
      insts_boundary is' (fun j hj => ⟨(h2 j (List.mem_cons_of_mem _ hj)).1, (h2 j (List.mem_cons_of_mem _ hj)).2.2⟩)
    obtain ⟨iw, ir, ip, inn, ib⟩ := i
    obtain ⟨iw', ir', ip', inn', ib'⟩ := i'
    obtain ⟨io, ic, ity⟩ := hi
    obtain ⟨io', ic', ity'⟩ := hi'
    simp only [List.flatMap_cons, encInst, List.append_assoc] at h
    obtain ⟨e3, h3⟩ := id32_split io.1 io'.1 h
    obtain ⟨e4, h4⟩ := id32_split io.2.1 io'.2.1 h3
    obtain ⟨e5, h5⟩ := encKey_split ht io.2.2.1 io'.2.2.1 h4
    have wb : ∀ b, b ∈ ib → ¬ W b.src := by
      intro b hb
      obtain ⟨n, hn, e⟩ := ic.2 b hb
      rw [e]; exact ity.2 n hn
    have wb' : ∀ b, b ∈ ib' → ¬ W b.src := by
      intro b hb
      obtain ⟨n, hn, e⟩ := ic'.2 b hb
      rw [e]; exact ity'.2 n hn
    obtain ⟨e6, e7, e8⟩ := tail_rest ht W inn inn' [] ib ib' _ _ io.2.2.2.1 io'.2.2.2.1 io.2.2.2.2 io'.2.2.2.2
      ic.1 ic'.1 (fun _ _ p hp => by cases hp) (fun _ _ p hp => by cases hp)
      (fun b hb => Or.inr (ic.2 b hb)) (fun b hb => Or.inr (ic'.2 b hb))
      ity.2 ity'.2 wb wb' hx hy h5
    have := insts_inj_typed ht W is is' (fun j hj => h1 j (List.mem_cons_of_mem _ hj))
      (fun j hj => h2 j (List.mem_cons_of_mem _ hj)) e8
    simp only at e3 e4 e5 e6 e7
    subst e3; subst e4; subst e5; subst e6; subst e7
    rw [this]

theorem encode_inj_typed {t : Tags} (ht : TagsOk t) (W : Nat → Prop) {c c' : Content}
    (hc : ContentOk c) (hc' : ContentOk c')
    (hw : ∀ i, i ∈ c.insts → InstCanon i ∧ InstTyped W i)
    (hw' : ∀ i, i ∈ c'.insts → InstCanon i ∧ InstTyped W i)
    (h : encode t c = encode t c') : c = c' := by
  obtain ⟨rw, rn, is⟩ := c
  obtain ⟨rw', rn', is'⟩ := c'
  simp only [encode] at h
  obtain ⟨e1, h1⟩ := id32_split hc.1 hc'.1 h
  obtain ⟨e2, h2⟩ := id32_split hc.2.1 hc'.2.1 h1
  simp only at e1 e2 hw hw'
  have := insts_inj_typed ht W is is' (fun i hi => ⟨hc.2.2 i hi, hw i hi⟩) (fun i hi => ⟨hc'.2.2 i hi, hw' i hi⟩) h2
  subst e1; subst e2; subst this
  rfl

/-! ### state level -/

/-- every instance record's warp id satisfies `W`; no node id of any store does -/
structure TypedIds (W : Nat → Prop) (s : WState) : Prop where
  warps : ∀ p, p ∈ s.instances → W p.2.warp
  nodes : ∀ ws, ws ∈ s.stores → ∀ n, n ∈ ws.2.nodes → ¬ W n.1

theorem content_typed {W : Nat → Prop} {s : WState} (ht : TypedIds W s) (r : NKey) :
    ∀ i, i ∈ (content s r).insts → InstTyped W i := by
  intro i hi
  simp only [content, contentOf, List.mem_flatMap] at hi
  obtain ⟨w, _, hw⟩ := hi
  unfold storeInst at hw
  split at hw
  · rename_i inst st hfi hfs
    simp only [List.mem_singleton] at hw
    subst hw
    refine ⟨ht.warps (w, inst) (SMap.find?_mem hfi), ?_⟩
    intro n hn
    simp only [storeNodes, List.mem_map, List.mem_filter] at hn
    obtain ⟨p, ⟨hp, _⟩, rfl⟩ := hn
    exact ht.nodes (w, st) (SMap.find?_mem hfs) p hp
  · cases hw

/-- ids made like `make_warp_id` / `make_node_id`: a collision-free hash of a domain prefix and a
    label, with two different prefixes of the same length (`b"warp:"`, `b"node:"`) -/
theorem hashed_ids_typed (H : Bytes → Nat) (hH : Function.Injective H) (wp np : Bytes)
    (hl : wp.length = np.length) (hne : wp ≠ np) (l : Bytes) :
    ¬ (fun n => ∃ l', n = H (wp ++ l')) (H (np ++ l)) := by
  rintro ⟨l', h⟩
  have := hH h
  exact hne (List.append_inj_left this hl.symm).symm

end Root
end EchoVerif
