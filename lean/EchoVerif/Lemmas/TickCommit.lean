import EchoVerif.Lemmas.TickOrder
set_option linter.unusedSimpArgs false
set_option linter.unusedVariables false
namespace EchoVerif
namespace Tick
open Graph Exec SMap

/-- accepted items of a receipt: drained items whose row says "applied" -/
def acceptedOf (items : List (TCand × Program)) (rows : List Sched.Row) : List (TCand × Program) :=
  (items.zip rows).filterMap (fun (cp, r) => if r.1 then some cp else none)

/-- What a successful commit consists of (the pipeline, stated as facts about the result). -/
theorem commitDrained_ok {cfg : Cfg} {pre : WState} {radix : Bool} {items : List (TCand × Program)}
    {s : Success} (h : commitDrained cfg pre radix items = .ok s) :
    ∃ rows deltas,
      (if radix then Sched.receiptRadix cfg.confl (items.map fpOf)
        else Sched.receiptLegacy cfg.confl (items.map fpOf)) = some rows ∧
      execAll pre (acceptedOf items rows) = .ok deltas ∧
      mergeOps deltas = .ok s.merged ∧
      applyOps pre (patchCanon s.merged) = .ok s.post ∧
      s.patch = diffState pre s.post := by
  unfold commitDrained at h
  simp only at h
  split at h
  · cases h
  · rename_i rows hrows
    split at h
    · cases h
    · rename_i deltas hd
      split at h
      · cases h
      · rename_i merged hm
        split at h
        · cases h
        · rename_i post hp
          cases h
          exact ⟨rows, deltas, hrows, hd, hm, hp, rfl⟩

/-- every op a guarded item returns passed `check_op_in` (hence `check_op`) -/
theorem runItem_ok_checked {g : Guard} {st : Store} {p : Program} {ops : List Op}
    (h : runItem g st p = .ok ops) : ∀ o ∈ ops, g.checkOp o = true := by
  unfold runItem at h
  generalize hrb : runBody g st p.body [] = r at h
  obtain ⟨ops', stop⟩ := r
  simp only at h
  cases stop with
  | none =>
    cases hall : ops'.all (g.checkOpIn st) with
    | true =>
      simp only [hall] at h; cases h
      intro o ho
      have := List.all_eq_true.mp hall o ho
      unfold Guard.checkOpIn at this
      exact (Bool.and_eq_true_iff.mp this).1
    | false => simp only [hall] at h; cases h
  | some b =>
    cases b <;> cases hall : ops'.all (g.checkOpIn st) <;> simp only [hall] at h <;> cases h

/-- an op that passes `check_op` is a node / edge / attachment op (never instance-level) -/
theorem checkOp_skel {g : Guard} {o : Op} (h : g.checkOp o = true) : o.isSkel = true := by
  cases o <;> simp_all [Guard.checkOp, writeTargets, Op.isSkel]

theorem execAll_skel {pre : WState} : ∀ {acc : List (TCand × Program)} {deltas : List (List Op)},
    execAll pre acc = .ok deltas → ∀ o ∈ deltas.flatten, o.isSkel = true
  | [], deltas, h => by simp only [execAll] at h; cases h; simp
  | (c, p) :: rest, deltas, h => by
    simp only [execAll] at h
    split at h
    · cases h
    · rename_i st hst
      split at h
      · cases h
      · cases h
      · cases h
      · rename_i ops hops
        split at h
        · cases h
        · rename_i more hmore
          cases h
          intro o ho
          simp only [List.flatten_cons, List.mem_append] at ho
          rcases ho with ho | ho
          · exact checkOp_skel (runItem_ok_checked hops o ho)
          · exact execAll_skel hmore o ho

theorem mem_dedupByKey_aux : ∀ (n : Nat) (l : List Op), l.length ≤ n → ∀ o, o ∈ dedupByKey l → o ∈ l
  | 0, l, hl, o, ho => by
    cases l with
    | nil => simp [dedupByKey] at ho
    | cons a r => simp at hl
  | n + 1, l, hl, o, ho => by
    match l, hl with
    | [], _ => simp [dedupByKey] at ho
    | [a], _ => simpa [dedupByKey] using ho
    | a :: b :: rest, hl =>
      unfold dedupByKey at ho
      split at ho
      · have := mem_dedupByKey_aux n (a :: rest) (by simp at hl ⊢; omega) o ho
        rcases List.mem_cons.mp this with h | h
        · exact h ▸ List.mem_cons_self
        · exact List.mem_cons_of_mem _ (List.mem_cons_of_mem _ h)
      · rcases List.mem_cons.mp ho with h | h
        · exact h ▸ List.mem_cons_self
        · exact List.mem_cons_of_mem _ (mem_dedupByKey_aux n (b :: rest) (by simp at hl ⊢; omega) o h)

theorem mem_dedupByKey (l : List Op) (o : Op) (h : o ∈ dedupByKey l) : o ∈ l :=
  mem_dedupByKey_aux l.length l (Nat.le_refl _) o h

theorem mem_lastWins : ∀ (l : List Op) (o : Op), o ∈ patchCanon.lastWins l → o ∈ l
  | [], o, h => by simp [patchCanon.lastWins] at h
  | [a], o, h => by simpa [patchCanon.lastWins] using h
  | a :: b :: rest, o, h => by
    unfold patchCanon.lastWins at h
    split at h
    · exact List.mem_cons_of_mem _ (mem_lastWins (b :: rest) o h)
    · rcases List.mem_cons.mp h with h | h
      · exact h ▸ List.mem_cons_self
      · exact List.mem_cons_of_mem _ (mem_lastWins (b :: rest) o h)

theorem mem_patchCanon {l : List Op} {o : Op} (h : o ∈ patchCanon l) : o ∈ l := by
  unfold patchCanon at h
  exact (mem_sortOps o l).mp (mem_lastWins _ o h)

theorem mem_mergeOps {deltas : List (List Op)} {merged : List Op} (h : mergeOps deltas = .ok merged)
    {o : Op} (ho : o ∈ merged) : o ∈ deltas.flatten := by
  unfold mergeOps at h
  simp only at h
  split at h
  · cases h
  · cases h; exact (mem_sortOps o _).mp (mem_dedupByKey _ o ho)

end Tick
end EchoVerif
