/-
  Helper lemmas for C09: logged writes are undone by their log entry, folds of inserts, the
  checkpoint specifications, the frame invariant `Inv` of a pass and its preservation by every
  primitive mutation and by the per-head commit, and the restore theorem.
-/
import EchoVerif.Model.Pass

set_option linter.unusedSimpArgs false
set_option linter.unusedVariables false
set_option linter.unusedSectionVars false

namespace EchoVerif.Pass
open SMap LinOrd

/-! ## SMap: logged writes -/

section Generic
variable {κ ν : Type} [DecidableEq κ] [LinOrd κ]

theorem sorted_setOpt (k : κ) (o : Option ν) {m : SMap κ ν} (h : Sorted m) : Sorted (setOpt k o m) := by
  cases o with
  | none => exact sorted_erase k h
  | some v => exact sorted_insert k v h

theorem find?_setOpt (k k0 : κ) (o : Option ν) {m : SMap κ ν} (h : Sorted m) :
    find? k0 (setOpt k o m) = if k0 = k then o else find? k0 m := by
  cases o with
  | none => exact find?_erase k k0 h
  | some v => exact find?_insert k k0 v m

/-- a logged insert is undone by writing back the logged previous value -/
theorem setOpt_insert (k : κ) (v : ν) {m : SMap κ ν} (h : Sorted m) :
    setOpt k (find? k m) (insert k v m) = m := by
  apply ext (sorted_setOpt k _ (sorted_insert k v h)) h
  intro k0
  rw [find?_setOpt k k0 _ (sorted_insert k v h), find?_insert]
  by_cases e : k0 = k
  · subst e; simp
  · simp [e]

theorem sorted_setMem (k : κ) (b : Bool) {m : SMap κ Unit} (h : Sorted m) : Sorted (setMem k b m) := by
  unfold setMem; split
  · exact sorted_insert k () h
  · exact sorted_erase k h

/-- a logged removal from a set is undone by the logged membership bit -/
theorem setMem_erase (k : κ) {m : SMap κ Unit} (h : Sorted m) :
    setMem k (contains k m) (erase k m) = m := by
  apply ext (sorted_setMem k _ (sorted_erase k h)) h
  intro k0
  unfold setMem contains
  cases hk : find? k m with
  | none =>
    simp only [Option.isSome_none, Bool.false_eq_true, if_false]
    rw [find?_erase k k0 (sorted_erase k h), find?_erase k k0 h]
    by_cases e : k0 = k
    · subst e; simp [hk]
    · simp [e]
  | some u =>
    simp only [Option.isSome_some, if_true]
    rw [find?_insert]
    by_cases e : k0 = k
    · subst e; simp [hk]
    · simp [e, find?_erase k k0 h]

/-- inserting a list of bindings: a binding of a sorted list wins, other keys are untouched -/
theorem find?_foldl_insert : ∀ (cp : SMap κ ν) (m : SMap κ ν), Sorted cp → ∀ k,
    find? k (cp.foldl (fun m p => insert p.1 p.2 m) m) =
      match find? k cp with
      | some v => some v
      | none => find? k m
  | [], m, _, k => by simp [find?]
  | (k0, v0) :: rest, m, hs, k => by
    simp only [List.foldl_cons]
    rw [find?_foldl_insert rest (insert k0 v0 m) hs.2 k]
    simp only [find?]
    by_cases hlt : lt k k0 = true
    · rw [if_pos hlt, find?_above_lt hs.1 hs.2 hlt, find?_insert, if_neg (ne_of_lt hlt)]
    · rw [if_neg hlt]
      by_cases e : k = k0
      · subst e; rw [if_pos rfl, find?_of_above hs.1, find?_insert_self]
      · rw [if_neg e]
        cases find? k rest with
        | some v => rfl
        | none => simp [find?_insert, e]

theorem sorted_foldl_insert : ∀ (cp : SMap κ ν) (m : SMap κ ν), Sorted m →
    Sorted (cp.foldl (fun m p => insert p.1 p.2 m) m)
  | [], m, h => h
  | p :: rest, m, h => by
    simp only [List.foldl_cons]
    exact sorted_foldl_insert rest _ (sorted_insert _ _ h)

/-- keys of a sorted map are pairwise strictly ascending -/
theorem pairwise_keys : ∀ {m : SMap κ ν}, Sorted m →
    List.Pairwise (fun a b => lt a b = true) (m.map (·.1))
  | [], _ => List.Pairwise.nil
  | (k, v) :: rest, hs => by
    simp only [List.map_cons]
    refine List.Pairwise.cons ?_ (pairwise_keys hs.2)
    intro b hb
    obtain ⟨p, hp, rfl⟩ := List.mem_map.mp hb
    exact all_above hs.1 hs.2 p hp

theorem mem_keys_find? {m : SMap κ ν} (hs : Sorted m) {k : κ} (h : k ∈ m.map (·.1)) :
    (find? k m).isSome = true := by
  obtain ⟨p, hp, rfl⟩ := List.mem_map.mp h
  rw [mem_find? hs (show (p.1, p.2) ∈ m from hp)]; rfl

end Generic

/-! ## correlation indexes -/

structure CorrSorted (c : Corr) : Prop where
  byTid : Sorted c.byTid
  bySub : Sorted c.bySub
  byTicket : Sorted c.byTicket
  byRef : Sorted c.byRef
  byBasis : Sorted c.byBasis
  pendingSubs : Sorted c.pendingSubs

theorem sorted_writeCorr (e : RbEntry) (rec : CorrRec) {c : Corr} (h : CorrSorted c) :
    CorrSorted (writeCorr e rec c) :=
  { byTid := sorted_insert _ _ h.byTid
    bySub := sorted_insert _ _ h.bySub
    byTicket := sorted_insert _ _ h.byTicket
    byRef := sorted_insert _ _ h.byRef
    byBasis := sorted_insert _ _ h.byBasis
    pendingSubs := sorted_erase _ h.pendingSubs }

/-- one rollback step exactly undoes the write it was logged for -/
theorem undo_writeCorr (c : Corr) (h : CorrSorted c) (tgt : Target) (ticket : Nat) (ref : Ref)
    (basis : Basis) (rec : CorrRec) :
    undoEntry (mkEntry c tgt ticket ref basis) (writeCorr (mkEntry c tgt ticket ref basis) rec c) = c := by
  cases c with
  | mk byTid bySub byTicket byRef byBasis pendingSubs =>
    simp only [undoEntry, writeCorr, mkEntry]
    congr 1
    · exact setOpt_insert _ _ h.byTid
    · exact setOpt_insert _ _ h.bySub
    · exact setOpt_insert _ _ h.byTicket
    · exact setOpt_insert _ _ h.byRef
    · exact setOpt_insert _ _ h.byBasis
    · exact setMem_erase _ h.pendingSubs

theorem rollbackCorr_snoc (log : List RbEntry) (e : RbEntry) (c : Corr) :
    rollbackCorr (log ++ [e]) c = rollbackCorr log (undoEntry e c) := by
  simp [rollbackCorr, List.foldr_append]

/-! ## checkpoint specifications -/

theorem cpLoop_spec (rt : Runtime) : ∀ (ks : List HeadKey) (hs : SMap HeadKey Head)
    (fs : SMap Nat Frontier) (hs' : SMap HeadKey Head) (fs' : SMap Nat Frontier),
    cpLoop rt ks hs fs = .ok (hs', fs') → Sorted hs → Sorted fs →
    (∀ w, find? w fs = none ∨ find? w fs = find? w rt.frontiers) →
    Sorted hs' ∧ Sorted fs' ∧
    (∀ k, find? k hs' = if k ∈ ks then find? k rt.heads else find? k hs) ∧
    (∀ w, find? w fs' = if w ∈ ks.map (·.1) then find? w rt.frontiers else find? w fs)
  | [], hs, fs, hs', fs', h, shs, sfs, _ => by
    simp only [cpLoop, Except.ok.injEq, Prod.mk.injEq] at h
    obtain ⟨rfl, rfl⟩ := h
    exact ⟨shs, sfs, fun k => by simp, fun w => by simp⟩
  | k :: ks, hs, fs, hs', fs', h, shs, sfs, hfs => by
    simp only [cpLoop] at h
    cases hk : find? k rt.heads with
    | none => simp only [hk] at h; cases h
    | some hd =>
      simp only [hk] at h
      have headsCase : ∀ (c : ∀ k0, find? k0 hs' = if k0 ∈ ks then find? k0 rt.heads
            else find? k0 (insert k hd hs)) (k0 : HeadKey),
          find? k0 hs' = if k0 ∈ k :: ks then find? k0 rt.heads else find? k0 hs := by
        intro c k0
        rw [c k0]
        by_cases e : k0 = k
        · subst e
          by_cases m : k0 ∈ ks
          · simp [m]
          · simp [m, find?_insert_self, hk]
        · simp [e, find?_insert_ne _ e]
      cases hf : find? k.1 fs with
      | some f0 =>
        simp only [hf] at h
        obtain ⟨a, b, c, d⟩ := cpLoop_spec rt ks _ _ _ _ h (sorted_insert _ _ shs) sfs hfs
        refine ⟨a, b, headsCase c, ?_⟩
        intro w
        rw [d w]
        by_cases e : w = k.1
        · by_cases m : w ∈ ks.map (·.1)
          · have : w ∈ (k :: ks).map (·.1) := by simp at m ⊢; exact Or.inr m
            rw [if_pos m, if_pos this]
          · have : w ∈ (k :: ks).map (·.1) := by simp [e]
            rw [if_neg m, if_pos this]
            rcases hfs w with h0 | h0
            · rw [e, hf] at h0; cases h0
            · exact h0
        · have : (w ∈ (k :: ks).map (·.1)) ↔ (w ∈ ks.map (·.1)) := by
            simp only [List.map_cons, List.mem_cons]
            exact ⟨fun h => h.resolve_left e, Or.inr⟩
          simp only [this]
      | none =>
        simp only [hf] at h
        cases hfr : find? k.1 rt.frontiers with
        | none => simp only [hfr] at h; cases h
        | some f =>
          simp only [hfr] at h
          have hfs' : ∀ w, find? w (insert k.1 f fs) = none ∨
              find? w (insert k.1 f fs) = find? w rt.frontiers := by
            intro w
            rw [find?_insert]
            by_cases e : w = k.1
            · rw [if_pos e, e, hfr]; exact Or.inr rfl
            · rw [if_neg e]; exact hfs w
          obtain ⟨a, b, c, d⟩ :=
            cpLoop_spec rt ks _ _ _ _ h (sorted_insert _ _ shs) (sorted_insert _ _ sfs) hfs'
          refine ⟨a, b, headsCase c, ?_⟩
          intro w
          rw [d w]
          by_cases e : w = k.1
          · have : w ∈ (k :: ks).map (·.1) := by simp [e]
            rw [if_pos this]
            by_cases m : w ∈ ks.map (·.1)
            · rw [if_pos m]
            · rw [if_neg m, find?_insert, if_pos e, e, hfr]
          · have : (w ∈ (k :: ks).map (·.1)) ↔ (w ∈ ks.map (·.1)) := by
              simp only [List.map_cons, List.mem_cons]
              exact ⟨fun h => h.resolve_left e, Or.inr⟩
            simp only [this, find?_insert, if_neg e]

def lensOf (pw : ProvWl) : Nat × Nat := (pw.entries.length, pw.checkpoints.length)

theorem provCpLoop_spec (pv : Prov) : ∀ (ws : List Nat) (acc m : SMap Nat (Nat × Nat)),
    provCpLoop pv ws acc = some m → Sorted acc →
    Sorted m ∧ ∀ w, find? w m = if w ∈ ws then (find? w pv.wls).map lensOf else find? w acc
  | [], acc, m, h, sa => by
    simp only [provCpLoop, Option.some.injEq] at h
    subst h
    exact ⟨sa, fun w => by simp⟩
  | w0 :: ws, acc, m, h, sa => by
    simp only [provCpLoop] at h
    cases hw : find? w0 pv.wls with
    | none => simp only [hw] at h; cases h
    | some pw =>
      simp only [hw] at h
      obtain ⟨a, b⟩ := provCpLoop_spec pv ws _ _ h (sorted_insert _ _ sa)
      refine ⟨a, ?_⟩
      intro w
      rw [b w]
      by_cases e : w = w0
      · subst e
        by_cases m : w ∈ ws
        · simp [m]
        · simp [m, find?_insert_self, hw, lensOf]
      · simp [e, find?_insert_ne _ e]

def truncWl (l : Nat × Nat) (pw : ProvWl) : ProvWl :=
  { entries := pw.entries.take l.1, checkpoints := pw.checkpoints.take l.2 }

theorem find?_restoreWl (m : SMap Nat ProvWl) (p : Nat × (Nat × Nat)) (w : Nat) :
    find? w (restoreWl m p) = if w = p.1 then (find? w m).map (truncWl p.2) else find? w m := by
  unfold restoreWl
  cases hp : find? p.1 m with
  | none =>
    by_cases e : w = p.1
    · simp [e, hp]
    · simp [e]
  | some pw =>
    simp only []
    rw [find?_insert]
    by_cases e : w = p.1
    · simp [e, hp, truncWl]
    · simp [e]

theorem sorted_restoreWl {m : SMap Nat ProvWl} (h : Sorted m) (p : Nat × (Nat × Nat)) :
    Sorted (restoreWl m p) := by
  unfold restoreWl
  cases find? p.1 m with
  | none => exact h
  | some pw => exact sorted_insert _ _ h

theorem sorted_foldl_restoreWl : ∀ (cp : SMap Nat (Nat × Nat)) (m : SMap Nat ProvWl), Sorted m →
    Sorted (cp.foldl restoreWl m)
  | [], m, h => h
  | p :: rest, m, h => by
    simp only [List.foldl_cons]
    exact sorted_foldl_restoreWl rest _ (sorted_restoreWl h p)

theorem find?_foldl_restoreWl : ∀ (cp : SMap Nat (Nat × Nat)) (m : SMap Nat ProvWl), Sorted cp →
    ∀ w, find? w (cp.foldl restoreWl m) =
      match find? w cp with
      | some l => (find? w m).map (truncWl l)
      | none => find? w m
  | [], m, _, w => by simp [find?]
  | (w0, l0) :: rest, m, hs, w => by
    simp only [List.foldl_cons]
    rw [find?_foldl_restoreWl rest _ hs.2 w, find?_restoreWl]
    simp only [find?]
    by_cases hlt : lt w w0 = true
    · rw [if_pos hlt, find?_above_lt hs.1 hs.2 hlt]
      simp [ne_of_lt hlt]
    · rw [if_neg hlt]
      by_cases e : w = w0
      · subst e; rw [if_pos rfl, find?_of_above hs.1]; simp
      · rw [if_neg e]; simp [e]

/-! ## the frame invariant of a pass -/

/-- relation between a provenance worldline before the pass (`o0`) and now (`o`): only appended to,
    and not at all unless the worldline is one of the touched ones -/
def ProvExt (touched : Prop) (o0 o : Option ProvWl) : Prop :=
  (o0 = none ∧ o = none) ∨
  ∃ p0 p extra, o0 = some p0 ∧ o = some p ∧ p.entries = p0.entries ++ extra ∧
    p.checkpoints = p0.checkpoints ∧ (¬touched → extra = [])

/-- well-formedness of a runtime / provenance pair: every `BTreeMap` is a sorted map -/
structure WF (rt : Runtime) (pv : Prov) : Prop where
  heads : Sorted rt.heads
  frontiers : Sorted rt.frontiers
  wls : Sorted pv.wls
  corr : CorrSorted rt.corr

/-- What every state reachable inside a pass (from `s0`, touching only the heads in `keys`) satisfies.
    `cUndo` says the undo log replayed in reverse gives back the pre-pass correlation indexes. -/
structure Inv (keys : List HeadKey) (s0 s : PState) : Prop where
  gtick : s.rt.gtick = s0.rt.gtick
  subs : s.rt.subs = s0.rt.subs
  ticketed : s.rt.ticketed = s0.rt.ticketed
  faults : s.rt.faults = s0.rt.faults
  hSorted : Sorted s.rt.heads
  hFrame : ∀ k, k ∉ keys → find? k s.rt.heads = find? k s0.rt.heads
  hDom : ∀ k, (find? k s.rt.heads).isSome = (find? k s0.rt.heads).isSome
  fSorted : Sorted s.rt.frontiers
  fFrame : ∀ w, w ∉ keys.map (·.1) → find? w s.rt.frontiers = find? w s0.rt.frontiers
  fDom : ∀ w, (find? w s.rt.frontiers).isSome = (find? w s0.rt.frontiers).isSome
  pSorted : Sorted s.prov.wls
  pExt : ∀ w, ProvExt (w ∈ keys.map (·.1)) (find? w s0.prov.wls) (find? w s.prov.wls)
  shells : s.prov.shells = s0.prov.shells
  plural : s.prov.plural = s0.prov.plural
  cSorted : CorrSorted s.rt.corr
  cUndo : rollbackCorr s.log s.rt.corr = s0.rt.corr

theorem Inv.refl {rt : Runtime} {pv : Prov} (wf : WF rt pv) (keys : List HeadKey) :
    Inv keys { rt := rt, prov := pv, log := [] } { rt := rt, prov := pv, log := [] } :=
  { gtick := rfl, subs := rfl, ticketed := rfl, faults := rfl
    hSorted := wf.heads, hFrame := fun _ _ => rfl, hDom := fun _ => rfl
    fSorted := wf.frontiers, fFrame := fun _ _ => rfl, fDom := fun _ => rfl
    pSorted := wf.wls
    pExt := fun w => by
      cases hw : find? w pv.wls with
      | none => exact Or.inl ⟨rfl, rfl⟩
      | some p => exact Or.inr ⟨p, p, [], rfl, rfl, by simp, rfl, fun _ => rfl⟩
    shells := rfl, plural := rfl
    cSorted := wf.corr
    cUndo := rfl }

theorem Inv.mono {ks ks' : List HeadKey} {s0 s : PState} (h : Inv ks s0 s)
    (sub : ∀ k, k ∈ ks → k ∈ ks') : Inv ks' s0 s :=
  have subw : ∀ w, w ∈ ks.map (·.1) → w ∈ ks'.map (·.1) := by
    intro w hw
    obtain ⟨k, hk, rfl⟩ := List.mem_map.mp hw
    exact List.mem_map.mpr ⟨k, sub k hk, rfl⟩
  { h with
    hFrame := fun k hk => h.hFrame k (fun c => hk (sub k c))
    fFrame := fun w hw => h.fFrame w (fun c => hw (subw w c))
    pExt := fun w => by
      rcases h.pExt w with a | ⟨p0, p, extra, a, b, c, d, e⟩
      · exact Or.inl a
      · exact Or.inr ⟨p0, p, extra, a, b, c, d, fun nt => e (fun c => nt (subw w c))⟩ }

theorem inv_setHead {keys : List HeadKey} {s0 s : PState} (k : HeadKey) (hd : Head)
    (hk : k ∈ keys) (hsome : (find? k s.rt.heads).isSome = true) (h : Inv keys s0 s) :
    Inv keys s0 (setHead k hd s) :=
  { h with
    hSorted := sorted_insert _ _ h.hSorted
    hFrame := fun k' hk' => by
      have : k' ≠ k := fun e => hk' (e ▸ hk)
      show find? k' (insert k hd s.rt.heads) = _
      rw [find?_insert_ne _ this]; exact h.hFrame k' hk'
    hDom := fun k' => by
      show (find? k' (insert k hd s.rt.heads)).isSome = _
      rw [find?_insert]
      by_cases e : k' = k
      · rw [if_pos e, e, ← h.hDom k, hsome]; rfl
      · rw [if_neg e]; exact h.hDom k' }

theorem inv_setFrontier {keys : List HeadKey} {s0 s : PState} (w : Nat) (f : Frontier)
    (hw : w ∈ keys.map (·.1)) (hsome : (find? w s.rt.frontiers).isSome = true) (h : Inv keys s0 s) :
    Inv keys s0 (setFrontier w f s) :=
  { h with
    fSorted := sorted_insert _ _ h.fSorted
    fFrame := fun w' hw' => by
      have : w' ≠ w := fun e => hw' (e ▸ hw)
      show find? w' (insert w f s.rt.frontiers) = _
      rw [find?_insert_ne _ this]; exact h.fFrame w' hw'
    fDom := fun w' => by
      show (find? w' (insert w f s.rt.frontiers)).isSome = _
      rw [find?_insert]
      by_cases e : w' = w
      · rw [if_pos e, e, ← h.fDom w, hsome]; rfl
      · rw [if_neg e]; exact h.fDom w' }

theorem isSome_setFrontier (w : Nat) (f : Frontier) (s : PState) :
    (find? w (setFrontier w f s).rt.frontiers).isSome = true := by
  show (find? w (insert w f s.rt.frontiers)).isSome = true
  rw [find?_insert_self]; rfl

theorem inv_appendProv {keys : List HeadKey} {s0 s : PState} (w : Nat) (pw : ProvWl) (c : Commit)
    (hw : w ∈ keys.map (·.1)) (hfind : find? w s.prov.wls = some pw) (h : Inv keys s0 s) :
    Inv keys s0 (appendProv w pw c s) :=
  { h with
    pSorted := sorted_insert _ _ h.pSorted
    pExt := fun w' => by
      show ProvExt _ _ (find? w' (insert w _ s.prov.wls))
      rw [find?_insert]
      by_cases e : w' = w
      · rw [if_pos e]
        rcases h.pExt w with ⟨_, b⟩ | ⟨p0, p, extra, a, b, c', d, _⟩
        · rw [hfind] at b; cases b
        · rw [hfind] at b; cases b
          refine Or.inr ⟨p0, _, extra ++ [c], e ▸ a, rfl, ?_, d, fun nt => absurd (e ▸ hw) nt⟩
          show pw.entries ++ [c] = p0.entries ++ (extra ++ [c])
          rw [c', List.append_assoc]
      · rw [if_neg e]; exact h.pExt w' }

theorem inv_corrWrite {keys : List HeadKey} {s0 s : PState} (tgt : Target) (ticket : Nat) (ref : Ref)
    (basis : Basis) (rec : CorrRec) (h : Inv keys s0 s) :
    Inv keys s0 (corrWrite (mkEntry s.rt.corr tgt ticket ref basis) rec s) :=
  { h with
    cSorted := sorted_writeCorr _ _ h.cSorted
    cUndo := by
      show rollbackCorr (s.log ++ [_]) (writeCorr _ rec s.rt.corr) = _
      rw [rollbackCorr_snoc, undo_writeCorr _ h.cSorted]
      exact h.cUndo }

theorem inv_corrStep {keys : List HeadKey} {s0 s s' : PState} (key : HeadKey) (ta g id : Nat)
    (hs : corrStep key ta g id s = .ok s') (h : Inv keys s0 s) : Inv keys s0 s' := by
  unfold corrStep at hs
  cases ht : find? (key, id) s.rt.ticketed with
  | none => simp only [ht] at hs; cases hs; exact h
  | some ticket =>
    simp only [ht] at hs
    split at hs
    · cases hs; exact h
    · split at hs
      · cases hs
      · cases hs; exact inv_corrWrite _ _ _ _ _ h

/-- `record_receipt_correlations` touches nothing but the correlation indexes and its log -/
theorem corrStep_frame {s s' : PState} (key : HeadKey) (ta g id : Nat)
    (hs : corrStep key ta g id s = .ok s') :
    s'.rt.heads = s.rt.heads ∧ s'.rt.frontiers = s.rt.frontiers ∧ s'.prov = s.prov := by
  unfold corrStep at hs
  cases ht : find? (key, id) s.rt.ticketed with
  | none => simp only [ht] at hs; cases hs; exact ⟨rfl, rfl, rfl⟩
  | some ticket =>
    simp only [ht] at hs
    split at hs
    · cases hs; exact ⟨rfl, rfl, rfl⟩
    · split at hs
      · cases hs
      · cases hs; exact ⟨rfl, rfl, rfl⟩

theorem inv_corrLoop {keys : List HeadKey} {s0 : PState} (key : HeadKey) (ta g : Nat) :
    ∀ (ids : List Nat) (s : PState), Inv keys s0 s → Inv keys s0 (corrLoop key ta g ids s).2
  | [], s, h => h
  | id :: ids, s, h => by
    unfold corrLoop
    cases hs : corrStep key ta g id s with
    | error e => exact h
    | ok s' => exact inv_corrLoop key ta g ids s' (inv_corrStep key ta g id hs h)

theorem corrLoop_frame (key : HeadKey) (ta g : Nat) : ∀ (ids : List Nat) (s : PState),
    (corrLoop key ta g ids s).2.rt.heads = s.rt.heads ∧
    (corrLoop key ta g ids s).2.rt.frontiers = s.rt.frontiers ∧
    (corrLoop key ta g ids s).2.prov = s.prov
  | [], s => ⟨rfl, rfl, rfl⟩
  | id :: ids, s => by
    unfold corrLoop
    cases hs : corrStep key ta g id s with
    | error e => exact ⟨rfl, rfl, rfl⟩
    | ok s' =>
      obtain ⟨a, b, c⟩ := corrStep_frame key ta g id hs
      obtain ⟨a', b', c'⟩ := corrLoop_frame key ta g ids s'
      exact ⟨a'.trans a, b'.trans b, c'.trans c⟩

theorem corrLoop_frame' {key : HeadKey} {ta g : Nat} {ids : List Nat} {s s' : PState}
    {o : Option ErrKind} (h : corrLoop key ta g ids s = (o, s')) :
    s'.rt.heads = s.rt.heads ∧ s'.rt.frontiers = s.rt.frontiers ∧ s'.prov = s.prov := by
  have := corrLoop_frame key ta g ids s
  rw [h] at this
  exact this

/-- every state a head commit can stop in — success or failure at any point — is in the invariant -/
theorem inv_commitHead {keys : List HeadKey} {s0 s : PState} (key : HeadKey) (g : Nat)
    (inj : Option Fail) (adm : List (Nat × Nat)) (hk : key ∈ keys) (h : Inv keys s0 s) :
    Inv keys s0 (commitHead key g inj adm s).2 := by
  have hw : key.1 ∈ keys.map (·.1) := List.mem_map.mpr ⟨key, hk, rfl⟩
  unfold commitHead
  cases hf : find? key.1 s.rt.frontiers with
  | none => exact h
  | some fr =>
    cases hp : find? key.1 s.prov.wls with
    | none => exact h
    | some pw =>
      simp only []
      have hsome : (find? key.1 s.rt.frontiers).isSome = true := by rw [hf]; rfl
      split
      · exact h
      · split
        · exact h
        · have h1 := inv_setFrontier key.1
            { fr with hist := fr.hist ++ [{ head := key, ids := adm.map (·.1), gtick := g }] } hw hsome h
          split
          · exact h1
          · have h2 := inv_appendProv key.1 pw { head := key, ids := adm.map (·.1), gtick := g } hw
              (show find? key.1 (setFrontier key.1 _ s).prov.wls = some pw from hp) h1
            have h3 := inv_setFrontier key.1
              { fr with hist := fr.hist ++ [{ head := key, ids := adm.map (·.1), gtick := g }]
                        committed := markCommitted key adm fr.committed } hw
              (by show (find? key.1 (insert key.1 _ s.rt.frontiers)).isSome = true
                  rw [find?_insert_self]; rfl) h2
            split
            · exact h3
            · have h4 := inv_setFrontier key.1
                { fr with hist := fr.hist ++ [{ head := key, ids := adm.map (·.1), gtick := g }]
                          committed := markCommitted key adm fr.committed
                          tick := fr.tick + 1 } hw
                (isSome_setFrontier _ _ _) h3
              have h5 := inv_corrLoop key (fr.tick + 1) g (adm.map (·.1)) _ h4
              split
              · next e s5 heq => rw [heq] at h5; exact h5
              · next s5 heq =>
                rw [heq] at h5
                split
                · exact h5
                · exact h5

/-! ## restore is the inverse of everything a pass can have done -/

theorem Runtime.eq_of {a b : Runtime} (h1 : a.heads = b.heads) (h2 : a.frontiers = b.frontiers)
    (h3 : a.gtick = b.gtick) (h4 : a.subs = b.subs) (h5 : a.ticketed = b.ticketed)
    (h6 : a.corr = b.corr) (h7 : a.faults = b.faults) : a = b := by
  cases a; cases b; simp_all

theorem ProvWl.eq_of {a b : ProvWl} (h1 : a.entries = b.entries) (h2 : a.checkpoints = b.checkpoints) :
    a = b := by
  cases a; cases b; simp_all

theorem filter_contains_self (l : List Nat) : l.filter (fun x => l.contains x) = l := by
  apply List.filter_eq_self.mpr
  intro a ha
  simpa using ha

theorem isSome_false_eq_none {α : Type} {o : Option α} (h : o.isSome = false) : o = none := by
  cases o with
  | none => rfl
  | some _ => cases h

/-- `restore_inverse`, runtime half (heads / frontiers / global tick / correlation indexes). -/
theorem restoreRt_inverse {rt : Runtime} {pv : Prov} {keys : List HeadKey} {cp : RtCheckpoint}
    {s : PState} (wf : WF rt pv) (hcp : checkpointFor rt keys = .ok cp)
    (h : Inv keys { rt := rt, prov := pv, log := [] } s) :
    restoreRt cp { s.rt with corr := rollbackCorr s.log s.rt.corr } = rt := by
  unfold checkpointFor at hcp
  cases hl : cpLoop rt keys [] [] with
  | error e => rw [hl] at hcp; cases hcp
  | ok r =>
    obtain ⟨hs, fs⟩ := r
    rw [hl] at hcp
    simp only [Except.ok.injEq] at hcp
    subst hcp
    obtain ⟨shs, sfs, hh, hf⟩ := cpLoop_spec rt keys [] [] hs fs hl trivial trivial (fun w => Or.inl rfl)
    apply Runtime.eq_of
    · -- heads
      show hs.foldl (fun m p => insert p.1 p.2 m) s.rt.heads = rt.heads
      apply ext (sorted_foldl_insert _ _ h.hSorted) wf.heads
      intro k
      rw [find?_foldl_insert hs _ shs k, hh k]
      by_cases m : k ∈ keys
      · rw [if_pos m]
        cases hk : find? k rt.heads with
        | some v => rfl
        | none =>
          have := h.hDom k
          simp only [hk, Option.isSome_none] at this
          exact isSome_false_eq_none this
      · rw [if_neg m]; simp only [find?]; exact h.hFrame k m
    · -- frontiers
      show fs.foldl (fun m p => insert p.1 p.2 m) s.rt.frontiers = rt.frontiers
      apply ext (sorted_foldl_insert _ _ h.fSorted) wf.frontiers
      intro w
      rw [find?_foldl_insert fs _ sfs w, hf w]
      by_cases m : w ∈ keys.map (·.1)
      · rw [if_pos m]
        cases hk : find? w rt.frontiers with
        | some v => rfl
        | none =>
          have := h.fDom w
          simp only [hk, Option.isSome_none] at this
          exact isSome_false_eq_none this
      · rw [if_neg m]; simp only [find?]; exact h.fFrame w m
    · rfl
    · exact h.subs
    · exact h.ticketed
    · exact h.cUndo
    · exact h.faults

/-- `restore_inverse`, provenance half (truncate the touched worldlines, prune shells). -/
theorem restoreProv_inverse {rt : Runtime} {pv : Prov} {keys : List HeadKey} {pcp : ProvCheckpoint}
    {s : PState} (wf : WF rt pv) (hpcp : provCheckpointFor pv (keys.map (·.1)) = some pcp)
    (h : Inv keys { rt := rt, prov := pv, log := [] } s) :
    restoreProv pcp s.prov = pv := by
  unfold provCheckpointFor at hpcp
  cases hl : provCpLoop pv (keys.map (·.1)) [] with
  | none => rw [hl] at hpcp; cases hpcp
  | some m =>
    rw [hl] at hpcp
    simp only [Option.some.injEq] at hpcp
    subst hpcp
    obtain ⟨sm, hm⟩ := provCpLoop_spec pv _ [] m hl trivial
    have hw : m.foldl restoreWl s.prov.wls = pv.wls := by
      apply ext (sorted_foldl_restoreWl _ _ h.pSorted) wf.wls
      intro w
      rw [find?_foldl_restoreWl m _ sm w, hm w]
      rcases h.pExt w with ⟨a, b⟩ | ⟨p0, p, extra, a, b, c, d, e⟩
      · have a' : find? w pv.wls = none := a
        rw [a', b]
        by_cases mem : w ∈ keys.map (·.1) <;> simp [mem, find?]
      · have a' : find? w pv.wls = some p0 := a
        rw [a', b]
        by_cases mem : w ∈ keys.map (·.1)
        · simp only [mem, if_true, Option.map_some]
          congr 1
          apply ProvWl.eq_of
          · show p.entries.take p0.entries.length = p0.entries
            rw [c]; simp
          · show p.checkpoints.take p0.checkpoints.length = p0.checkpoints
            rw [d]; simp
        · simp only [mem, if_false, find?]
          congr 1
          apply ProvWl.eq_of
          · rw [c, e mem]; simp
          · exact d
    cases pv with
    | mk wls shells plural =>
      simp only [restoreProv]
      congr 1
      · rw [h.shells]; exact filter_contains_self shells
      · rw [h.plural]; exact filter_contains_self plural

/-! ## the head loop -/

/-- a runnable head commits in this pass iff the inbox admission yields something -/
def willCommit (rt : Runtime) (k : HeadKey) : Bool :=
  match find? k rt.heads with
  | some h => !(admitBatch h).1.isEmpty
  | none => false

def tickOf (fs : SMap Nat Frontier) (w : Nat) : Nat :=
  match find? w fs with
  | some f => f.tick
  | none => 0

def bump (t : Nat → Nat) (w0 : Nat) : Nat → Nat := fun w => if w = w0 then t w + 1 else t w

/-- the tick function after a list of commits -/
def advance (t : Nat → Nat) : List Step → (Nat → Nat)
  | [] => t
  | r :: rs => advance (bump t r.head.1) rs

/-- every record reports exactly "the worldline tick at the time of its commit, plus one" and the
    pass's global tick -/
def TicksOk (g : Nat) : (Nat → Nat) → List Step → Prop
  | _, [] => True
  | t, r :: rs => r.tickAfter = t r.head.1 + 1 ∧ r.gtick = g ∧ TicksOk g (bump t r.head.1) rs

theorem commitHead_ok {key : HeadKey} {g : Nat} {inj : Option Fail} {adm : List (Nat × Nat)}
    {s s' : PState} {step : Step} (h : commitHead key g inj adm s = (.inr step, s')) :
    step.head = key ∧ step.gtick = g ∧ step.tickAfter = tickOf s.rt.frontiers key.1 + 1 ∧
    (∀ w, tickOf s'.rt.frontiers w = bump (tickOf s.rt.frontiers) key.1 w) ∧
    s'.rt.heads = s.rt.heads ∧ step.rejected = rejectedCount adm ∧ step.admitted = adm.length := by
  unfold commitHead at h
  cases hf : find? key.1 s.rt.frontiers with
  | none => simp only [hf] at h; cases h
  | some fr =>
    cases hp : find? key.1 s.prov.wls with
    | none => simp only [hf, hp] at h; cases h
    | some pw =>
      simp only [hf, hp] at h
      split at h
      · cases h
      · split at h
        · cases h
        · split at h
          · cases h
          · split at h
            · cases h
            · split at h
              · cases h
              · next s5 heq =>
                split at h
                · cases h
                · simp only [Prod.mk.injEq, Sum.inr.injEq] at h
                  obtain ⟨rfl, rfl⟩ := h
                  obtain ⟨fr5, fr6, _⟩ := corrLoop_frame' heq
                  have t0 : tickOf s.rt.frontiers key.1 = fr.tick := by simp [tickOf, hf]
                  refine ⟨rfl, rfl, by rw [t0], ?_, fr5, rfl, rfl⟩
                  intro w
                  unfold bump tickOf
                  rw [fr6]
                  simp only [setFrontier, appendProv, find?_insert]
                  by_cases e : w = key.1
                  · simp [e, hf]
                  · simp [e]

theorem advance_snoc_bump (t : Nat → Nat) (r : Step) (rs : List Step) :
    advance t (r :: rs) = advance (bump t r.head.1) rs := rfl

/-- The loop specification: from any invariant state, running the loop over fresh distinct keys ends
    either with all of them visited, the committed heads being exactly those with admissible work, in
    order, with exact tick accounting — or at a failing head with the invariant still in force. It never
    leaves through the unchecked `?` exit. -/
theorem passLoop_spec (g : Nat) (inj : Option (Nat × Fail)) (s0 : PState) :
    ∀ (ks done : List HeadKey) (c : Nat) (s : PState) (recs : List Step),
    Inv done s0 s → ks.Nodup → (∀ k ∈ ks, k ∉ done) →
    (∀ k ∈ ks, (find? k s0.rt.heads).isSome = true) →
    match passLoop g inj ks c s recs with
    | .done recs' s' =>
      Inv (done ++ ks) s0 s' ∧ ∃ new, recs' = recs ++ new ∧
        new.map (·.head) = ks.filter (willCommit s0.rt) ∧
        TicksOk g (tickOf s.rt.frontiers) new ∧
        (∀ w, tickOf s'.rt.frontiers w = advance (tickOf s.rt.frontiers) new w) ∧
        (∀ r ∈ new, ∃ hd, find? r.head s0.rt.heads = some hd ∧
          r.admitted = (admitBatch hd).1.length ∧ r.rejected = rejectedCount (admitBatch hd).1)
    | .failed key f s' => Inv (done ++ ks) s0 s' ∧ key ∈ ks
    | .abort _ _ => False
  | [], done, c, s, recs, h, _, _, _ => by
    simp only [passLoop, List.append_nil]
    exact ⟨h, [], by simp, rfl, trivial, fun w => rfl, fun r hr => by cases hr⟩
  | key :: rest, done, c, s, recs, h, nd, fresh, present => by
    have hkd : key ∉ done := fresh key (List.mem_cons_self)
    have nd' := List.nodup_cons.mp nd
    have hfind : find? key s.rt.heads = find? key s0.rt.heads := h.hFrame key hkd
    have hpres := present key (List.mem_cons_self)
    have hmono : Inv (done ++ [key]) s0 s := h.mono (fun k hk => List.mem_append_left _ hk)
    have fresh' : ∀ k ∈ rest, k ∉ done ++ [key] := by
      intro k hk hm
      rcases List.mem_append.mp hm with a | a
      · exact fresh k (List.mem_cons_of_mem _ hk) a
      · simp only [List.mem_singleton] at a
        subst a; exact nd'.1 hk
    have present' : ∀ k ∈ rest, (find? k s0.rt.heads).isSome = true :=
      fun k hk => present k (List.mem_cons_of_mem _ hk)
    have reassoc : (done ++ [key]) ++ rest = done ++ key :: rest := by simp
    unfold passLoop
    cases hh : find? key s0.rt.heads with
    | none => rw [hh] at hpres; cases hpres
    | some hd =>
      rw [hfind, hh]
      simp only []
      by_cases hem : (admitBatch hd).1.isEmpty = true
      · rw [if_pos hem]
        have wc : willCommit s0.rt key = false := by simp [willCommit, hh, hem]
        have ih := passLoop_spec g inj s0 rest (done ++ [key]) c s recs hmono nd'.2 fresh' present'
        rw [reassoc] at ih
        cases hr : passLoop g inj rest c s recs with
        | done recs' s' =>
          rw [hr] at ih
          obtain ⟨a, new, b, c', d, e, e'⟩ := ih
          refine ⟨a, new, b, ?_, d, e, e'⟩
          rw [c', List.filter_cons, wc]; simp
        | failed k f s' =>
          rw [hr] at ih
          exact ⟨ih.1, List.mem_cons_of_mem _ ih.2⟩
        | abort e s' => rw [hr] at ih; exact ih
      · rw [if_neg hem]
        have wc : willCommit s0.rt key = true := by simp [willCommit, hh, hem]
        have hsome : (find? key s.rt.heads).isSome = true := by rw [hfind, hh]; rfl
        have h1 : Inv (done ++ [key]) s0 (setHead key (admitBatch hd).2 s) :=
          inv_setHead key _ (List.mem_append_right _ (List.mem_singleton.mpr rfl)) hsome hmono
        have h2 := inv_commitHead key g (injAt c inj) (admitBatch hd).1
          (List.mem_append_right _ (List.mem_singleton.mpr rfl)) h1
        cases hc : commitHead key g (injAt c inj) (admitBatch hd).1 (setHead key (admitBatch hd).2 s) with
        | mk r s2 =>
          rw [hc] at h2
          cases r with
          | inl f =>
            simp only []
            refine ⟨?_, List.mem_cons_self⟩
            rw [← reassoc]
            exact h2.mono (fun k hk => List.mem_append_left _ hk)
          | inr step =>
            simp only []
            obtain ⟨e1, e2, e3, e4, _, e6, e7⟩ := commitHead_ok hc
            have ih := passLoop_spec g inj s0 rest (done ++ [key]) (c + 1) s2 (recs ++ [step])
              h2 nd'.2 fresh' present'
            rw [reassoc] at ih
            have tfun : tickOf s2.rt.frontiers = bump (tickOf s.rt.frontiers) step.head.1 := by
              funext w; rw [e1]; exact e4 w
            cases hr : passLoop g inj rest (c + 1) s2 (recs ++ [step]) with
            | done recs' s' =>
              rw [hr] at ih
              obtain ⟨a, new, b, c', d, e, e'⟩ := ih
              refine ⟨a, step :: new, ?_, ?_, ?_, ?_, ?_⟩
              · rw [b]; simp
              · rw [List.map_cons, c', List.filter_cons, wc, e1]; simp
              · refine ⟨?_, e2, ?_⟩
                · rw [e3, e1]; rfl
                · rw [← tfun]; exact d
              · intro w
                rw [e w, advance_snoc_bump, ← tfun]
              · intro r hr
                rcases List.mem_cons.mp hr with rfl | hr
                · exact ⟨hd, by rw [e1]; exact hh, e7, e6⟩
                · exact e' r hr
            | failed k f s' =>
              rw [hr] at ih
              exact ⟨ih.1, List.mem_cons_of_mem _ ih.2⟩
            | abort e s' => rw [hr] at ih; exact ih

end EchoVerif.Pass
