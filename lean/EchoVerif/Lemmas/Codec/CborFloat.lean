/-
  Float bit-field lemmas for the ABI CBOR codec: exact widen/narrow between f16/f32/f64 bit
  patterns, and "what the float reader accepts, the float writer writes".
-/
import EchoVerif.Lemmas.Codec.CborHead

namespace EchoVerif.Cbor
open EchoVerif EchoVerif.Generated.CborHead

set_option linter.unusedSimpArgs false
set_option linter.unusedVariables false

theorem f64_fields (s E m : Nat) (hs : s < 2) (hE : E < 2048) (hm : m < 2 ^ 52) :
    (s * 2 ^ 63 + E * 2 ^ 52 + m) / 2 ^ 63 = s ∧
    (s * 2 ^ 63 + E * 2 ^ 52 + m) / 2 ^ 52 % 2048 = E ∧
    (s * 2 ^ 63 + E * 2 ^ 52 + m) % 2 ^ 52 = m := by
  refine ⟨?_, ?_, ?_⟩ <;> omega

theorem narrow32_mk (s E m : Nat) (hs : s < 2) (hE : E < 2048) (hm : m < 2 ^ 52) :
    narrow32 (s * 2 ^ 63 + E * 2 ^ 52 + m) =
      if E = 2047 then (if m = 0 then some (s * 2 ^ 31 + 255 * 2 ^ 23) else none)
      else if E = 0 then (if m = 0 then some (s * 2 ^ 31) else none)
      else if 897 ≤ E ∧ E ≤ 1150 then
        (if m % 2 ^ 29 = 0 then some (s * 2 ^ 31 + (E - 896) * 2 ^ 23 + m / 2 ^ 29) else none)
      else if 874 ≤ E ∧ E ≤ 896 then
        (if (2 ^ 52 + m) % 2 ^ (926 - E) = 0 then some (s * 2 ^ 31 + (2 ^ 52 + m) / 2 ^ (926 - E)) else none)
      else none := by
  obtain ⟨h1, h2, h3⟩ := f64_fields s E m hs hE hm
  unfold narrow32
  simp only [h1, h2, h3]

theorem narrow16_mk (s E m : Nat) (hs : s < 2) (hE : E < 2048) (hm : m < 2 ^ 52) :
    narrow16 (s * 2 ^ 63 + E * 2 ^ 52 + m) =
      if E = 2047 then (if m = 0 then some (s * 2 ^ 15 + 31 * 2 ^ 10) else none)
      else if E = 0 then (if m = 0 then some (s * 2 ^ 15) else none)
      else if 1009 ≤ E ∧ E ≤ 1038 then
        (if m % 2 ^ 42 = 0 then some (s * 2 ^ 15 + (E - 1008) * 2 ^ 10 + m / 2 ^ 42) else none)
      else if 999 ≤ E ∧ E ≤ 1008 then
        (if (2 ^ 52 + m) % 2 ^ (1051 - E) = 0 then some (s * 2 ^ 15 + (2 ^ 52 + m) / 2 ^ (1051 - E)) else none)
      else none := by
  obtain ⟨h1, h2, h3⟩ := f64_fields s E m hs hE hm
  unfold narrow16
  simp only [h1, h2, h3]

theorem sub_norm_key (m L : Nat) (hL : L ≤ 52) (h1 : 2 ^ L ≤ m) :
    2 ^ 52 + (m - 2 ^ L) * 2 ^ (52 - L) = m * 2 ^ (52 - L) := by
  have : (2:Nat) ^ 52 = 2 ^ L * 2 ^ (52 - L) := by rw [← Nat.pow_add]; congr 1; omega
  rw [this, ← Nat.add_mul]; congr 1; omega

theorem sub_norm_lt (m L : Nat) (hL : L ≤ 52) (h1 : 2 ^ L ≤ m) (h2 : m < 2 ^ (L + 1)) :
    (m - 2 ^ L) * 2 ^ (52 - L) < 2 ^ 52 := by
  have e : (2:Nat) ^ 52 = 2 ^ L * 2 ^ (52 - L) := by rw [← Nat.pow_add]; congr 1; omega
  rw [e]
  apply Nat.mul_lt_mul_of_lt_of_le (by rw [Nat.pow_succ] at h2; omega) (Nat.le_refl _) (Nat.pow_pos (by omega))

theorem narrow32_widen32 (w : Nat) (hw : w < 2 ^ 32) (hn : isNan (widen32 w) = false) :
    narrow32 (widen32 w) = some w := by
  have hs : w / 2 ^ 31 < 2 := by omega
  unfold widen32 at hn ⊢
  simp only at hn ⊢
  by_cases he : w / 2 ^ 23 % 256 = 255
  · simp only [he, if_true] at hn ⊢
    have hm' : w % 2 ^ 23 * 2 ^ 29 < 2 ^ 52 := by omega
    obtain ⟨h1, h2, h3⟩ := f64_fields (w / 2 ^ 31) 2047 (w % 2 ^ 23 * 2 ^ 29) hs (by omega) hm'
    have hm0 : w % 2 ^ 23 = 0 := by
      unfold isNan at hn
      rw [h2, h3] at hn
      simp at hn
      omega
    rw [narrow32_mk _ _ _ hs (by omega) hm']
    simp [hm0]
    omega
  · simp only [he, if_false] at hn ⊢
    by_cases h0 : w / 2 ^ 23 % 256 = 0
    · simp only [h0, if_true] at hn ⊢
      by_cases hm0 : w % 2 ^ 23 = 0
      · simp only [hm0, if_true]
        have := narrow32_mk (w / 2 ^ 31) 0 0 hs (by omega) (by omega)
        simp at this
        rw [this]; apply congrArg some; omega
      · simp only [hm0, if_false]
        have hL1 : 2 ^ Nat.log2 (w % 2 ^ 23) ≤ w % 2 ^ 23 := Nat.log2_self_le hm0
        have hL2 : w % 2 ^ 23 < 2 ^ (Nat.log2 (w % 2 ^ 23) + 1) := Nat.lt_log2_self
        have hL : Nat.log2 (w % 2 ^ 23) < 23 := (Nat.log2_lt hm0).mpr (by omega)
        generalize Nat.log2 (w % 2 ^ 23) = L at *
        generalize hm : w % 2 ^ 23 = m at *
        have ht := sub_norm_lt m L (by omega) hL1 hL2
        have hk := sub_norm_key m L (by omega) hL1
        rw [narrow32_mk _ _ _ hs (by omega) ht]
        have e1 : ¬ (L + 874 = 2047) := by omega
        have e2 : ¬ (L + 874 = 0) := by omega
        have e3 : ¬ (897 ≤ L + 874 ∧ L + 874 ≤ 1150) := by omega
        have e4 : 874 ≤ L + 874 ∧ L + 874 ≤ 896 := by omega
        have e5 : 926 - (L + 874) = 52 - L := by omega
        have e6 : m * 2 ^ (52 - L) % 2 ^ (52 - L) = 0 := Nat.mul_mod_left _ _
        have e7 : m * 2 ^ (52 - L) / 2 ^ (52 - L) = m := Nat.mul_div_cancel m (Nat.two_pow_pos (52 - L))
        rw [if_neg e1, if_neg e2, if_neg e3, if_pos e4, e5, hk, if_pos e6, e7]
        apply congrArg some; omega
    · simp only [h0, if_false] at hn ⊢
      have hm' : w % 2 ^ 23 * 2 ^ 29 < 2 ^ 52 := by omega
      rw [narrow32_mk _ _ _ hs (by omega) hm']
      have e1 : ¬ (w / 2 ^ 23 % 256 + 896 = 2047) := by omega
      have e2 : ¬ (w / 2 ^ 23 % 256 + 896 = 0) := by omega
      have e3 : (897 ≤ w / 2 ^ 23 % 256 + 896 ∧ w / 2 ^ 23 % 256 + 896 ≤ 1150) := by omega
      rw [if_neg e1, if_neg e2, if_pos e3]
      have e4 : w % 2 ^ 23 * 2 ^ 29 % 2 ^ 29 = 0 := Nat.mul_mod_left _ _
      rw [if_pos e4, Nat.mul_div_cancel _ (by omega)]
      apply congrArg some; omega

theorem narrow16_widen16 (w : Nat) (hw : w < 2 ^ 16) (hn : isNan (widen16 w) = false) :
    narrow16 (widen16 w) = some w := by
  have hs : w / 2 ^ 15 < 2 := by omega
  unfold widen16 at hn ⊢
  simp only at hn ⊢
  by_cases he : w / 2 ^ 10 % 32 = 31
  · simp only [he, if_true] at hn ⊢
    have hm' : w % 2 ^ 10 * 2 ^ 42 < 2 ^ 52 := by omega
    obtain ⟨h1, h2, h3⟩ := f64_fields (w / 2 ^ 15) 2047 (w % 2 ^ 10 * 2 ^ 42) hs (by omega) hm'
    have hm0 : w % 2 ^ 10 = 0 := by
      unfold isNan at hn
      rw [h2, h3] at hn
      simp at hn
      omega
    rw [narrow16_mk _ _ _ hs (by omega) hm']
    simp [hm0]
    omega
  · simp only [he, if_false] at hn ⊢
    by_cases h0 : w / 2 ^ 10 % 32 = 0
    · simp only [h0, if_true] at hn ⊢
      by_cases hm0 : w % 2 ^ 10 = 0
      · simp only [hm0, if_true]
        have := narrow16_mk (w / 2 ^ 15) 0 0 hs (by omega) (by omega)
        simp at this
        rw [this]; apply congrArg some; omega
      · simp only [hm0, if_false]
        have hL1 : 2 ^ Nat.log2 (w % 2 ^ 10) ≤ w % 2 ^ 10 := Nat.log2_self_le hm0
        have hL2 : w % 2 ^ 10 < 2 ^ (Nat.log2 (w % 2 ^ 10) + 1) := Nat.lt_log2_self
        have hL : Nat.log2 (w % 2 ^ 10) < 10 := (Nat.log2_lt hm0).mpr (by omega)
        generalize Nat.log2 (w % 2 ^ 10) = L at *
        generalize hm : w % 2 ^ 10 = m at *
        have ht := sub_norm_lt m L (by omega) hL1 hL2
        have hk := sub_norm_key m L (by omega) hL1
        rw [narrow16_mk _ _ _ hs (by omega) ht]
        have e1 : ¬ (L + 999 = 2047) := by omega
        have e2 : ¬ (L + 999 = 0) := by omega
        have e3 : ¬ (1009 ≤ L + 999 ∧ L + 999 ≤ 1038) := by omega
        have e4 : 999 ≤ L + 999 ∧ L + 999 ≤ 1008 := by omega
        have e5 : 1051 - (L + 999) = 52 - L := by omega
        have e6 : m * 2 ^ (52 - L) % 2 ^ (52 - L) = 0 := Nat.mul_mod_left _ _
        have e7 : m * 2 ^ (52 - L) / 2 ^ (52 - L) = m := Nat.mul_div_cancel m (Nat.two_pow_pos (52 - L))
        rw [if_neg e1, if_neg e2, if_neg e3, if_pos e4, e5, hk, if_pos e6, e7]
        apply congrArg some; omega
    · simp only [h0, if_false] at hn ⊢
      have hm' : w % 2 ^ 10 * 2 ^ 42 < 2 ^ 52 := by omega
      rw [narrow16_mk _ _ _ hs (by omega) hm']
      have e1 : ¬ (w / 2 ^ 10 % 32 + 1008 = 2047) := by omega
      have e2 : ¬ (w / 2 ^ 10 % 32 + 1008 = 0) := by omega
      have e3 : (1009 ≤ w / 2 ^ 10 % 32 + 1008 ∧ w / 2 ^ 10 % 32 + 1008 ≤ 1038) := by omega
      rw [if_neg e1, if_neg e2, if_pos e3]
      have e4 : w % 2 ^ 10 * 2 ^ 42 % 2 ^ 42 = 0 := Nat.mul_mod_left _ _
      rw [if_pos e4, Nat.mul_div_cancel _ (by omega)]
      apply congrArg some; omega

/-! ### the float writer, branch by branch -/

theorem encFloat_nan {b : Nat} (h : isNan b = true) :
    encFloat b = UInt8.ofNat encF16 :: beBytes 2 canonNan16 := by
  unfold encFloat; simp [h]

theorem encFloat_inf {b : Nat} (h1 : isNan b = false) (h2 : isInf b = true) :
    encFloat b = UInt8.ofNat encF16 :: beBytes 2 ((b / 2 ^ 63) * 2 ^ 15 + 31 * 2 ^ 10) := by
  unfold encFloat; simp [h1, h2]

theorem encFloat_int {b : Nat} {i : Int} (h1 : isNan b = false) (h2 : isInf b = false)
    (h3 : floatInt? b = some i) : encFloat b = encInt i := by
  unfold encFloat; simp [h1, h2, h3]

theorem encFloat_16 {b h : Nat} (h1 : isNan b = false) (h2 : isInf b = false)
    (h3 : floatInt? b = none) (h4 : narrow16 b = some h) :
    encFloat b = UInt8.ofNat encF16 :: beBytes 2 h := by
  unfold encFloat; simp [h1, h2, h3, h4]

theorem encFloat_32 {b w : Nat} (h1 : isNan b = false) (h2 : isInf b = false)
    (h3 : floatInt? b = none) (h4 : narrow16 b = none) (h5 : narrow32 b = some w) :
    encFloat b = UInt8.ofNat encF32 :: beBytes 4 w := by
  unfold encFloat; simp [h1, h2, h3, h4, h5]

theorem encFloat_64 {b : Nat} (h1 : isNan b = false) (h2 : isInf b = false)
    (h3 : floatInt? b = none) (h4 : narrow16 b = none) (h5 : narrow32 b = none) :
    encFloat b = UInt8.ofNat encF64 :: beBytes 8 b := by
  unfold encFloat; simp [h1, h2, h3, h4, h5]

theorem narrow16_inf {b : Nat} (h : isInf b = true) :
    narrow16 b = some ((b / 2 ^ 63) * 2 ^ 15 + 31 * 2 ^ 10) := by
  unfold isInf at h
  simp at h
  unfold narrow16
  simp [h.1, h.2]

theorem isSome_false {α} {o : Option α} (h : o.isSome = false) : o = none := by
  cases o <;> simp_all

/-- **float reader ⇒ float writer.** Whatever the three float arms of the decoder accept is
    written back bit-identically by `enc_float`. -/
theorem decFloat_canon {info : Nat} {bs rest : Bytes} {v : Val} (d : Nat)
    (hi : info = decF16 ∨ info = decF32 ∨ info = decF64)
    (h : decFloat info bs = .ok (v, rest)) :
    ∃ e, enc d v = .ok e ∧ UInt8.ofNat (224 + info) :: bs = e ++ rest := by
  unfold decFloat at h
  rcases hi with rfl | rfl | rfl
  · rw [if_pos rfl] at h
    split at h
    · cases h
    · rename_i a r ht
      obtain ⟨hbs, hl⟩ := takeN_ok ht
      have hlt := beVal_lt a; rw [hl] at hlt
      have hbe := beBytes_beVal' a hl
      simp only at h
      split at h
      · cases h
      · rename_i hnan
        split at h
        · cases h
        · rename_i hint
          injection h with h; injection h with h1 h2
          subst h1; subst h2
          have hint' := isSome_false (by simpa using hint)
          refine ⟨encFloat (widen16 (beVal a)), by simp [enc], ?_⟩
          by_cases hn : isNan (widen16 (beVal a)) = true
          · have hc : beVal a = canonNan16 := by
              simp [hn] at hnan; exact hnan
            rw [encFloat_nan hn, ← hc, hbe, hbs]; rfl
          · have hn' : isNan (widen16 (beVal a)) = false := by simpa using hn
            have hnw := narrow16_widen16 (beVal a) (by omega) hn'
            by_cases hinf : isInf (widen16 (beVal a)) = true
            · have := narrow16_inf hinf
              rw [hnw] at this
              injection this with this
              rw [encFloat_inf hn' hinf, ← this, hbe, hbs]; rfl
            · have hinf' : isInf (widen16 (beVal a)) = false := by simpa using hinf
              rw [encFloat_16 hn' hinf' hint' hnw, hbe, hbs]; rfl
  · rw [if_neg (by decide), if_pos rfl] at h
    split at h
    · cases h
    · rename_i a r ht
      obtain ⟨hbs, hl⟩ := takeN_ok ht
      have hlt := beVal_lt a; rw [hl] at hlt
      have hbe := beBytes_beVal' a hl
      simp only at h
      split at h
      · cases h
      · rename_i hint
        split at h
        · cases h
        · rename_i hf16
          injection h with h; injection h with h1 h2
          subst h1; subst h2
          have hint' := isSome_false (by simpa using hint)
          have hf : isNan (widen32 (beVal a)) = false ∧ narrow16 (widen32 (beVal a)) = none := by
            unfold fits16 at hf16
            simp at hf16
            exact ⟨hf16.1, hf16.2⟩
          have hinf : isInf (widen32 (beVal a)) = false := by
            cases hI : isInf (widen32 (beVal a))
            · rfl
            · rw [narrow16_inf hI] at hf; exact absurd hf.2 (by simp)
          have hnw := narrow32_widen32 (beVal a) (by omega) hf.1
          refine ⟨encFloat (widen32 (beVal a)), by simp [enc], ?_⟩
          rw [encFloat_32 hf.1 hinf hint' hf.2 hnw, hbe, hbs]; rfl
  · rw [if_neg (by decide), if_neg (by decide)] at h
    split at h
    · cases h
    · rename_i a r ht
      obtain ⟨hbs, hl⟩ := takeN_ok ht
      have hbe := beBytes_beVal' a hl
      simp only at h
      split at h
      · cases h
      · rename_i hint
        split at h
        · cases h
        · rename_i hf16
          split at h
          · cases h
          · rename_i hf32
            injection h with h; injection h with h1 h2
            subst h1; subst h2
            have hint' := isSome_false (by simpa using hint)
            have hf : isNan (beVal a) = false ∧ narrow16 (beVal a) = none := by
              unfold fits16 at hf16
              simp at hf16
              exact ⟨hf16.1, hf16.2⟩
            have hg : narrow32 (beVal a) = none := by
              unfold fits32 at hf32
              simp at hf32
              exact hf32.2
            have hinf : isInf (beVal a) = false := by
              cases hI : isInf (beVal a)
              · rfl
              · rw [narrow16_inf hI] at hf; exact absurd hf.2 (by simp)
            refine ⟨encFloat (beVal a), by simp [enc], ?_⟩
            rw [encFloat_64 hf.1 hinf hint' hf.2 hg, hbe, hbs]; rfl

end EchoVerif.Cbor
