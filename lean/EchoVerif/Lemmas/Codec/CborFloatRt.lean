/-
  Float lemmas for the round-trip direction: exact widening inverts exact narrowing, and the float
  reader reads back what `enc_float` wrote.
-/
import EchoVerif.Lemmas.Codec.CborFloat

namespace EchoVerif.Cbor
open EchoVerif EchoVerif.Generated.CborHead

set_option linter.unusedSimpArgs false
set_option linter.unusedVariables false

/-- decomposition of an f64 bit pattern into sign / exponent / mantissa -/
theorem f64_split (b : Nat) (hb : b < 2 ^ 64) :
    b = (b / 2 ^ 63) * 2 ^ 63 + (b / 2 ^ 52 % 2048) * 2 ^ 52 + b % 2 ^ 52 ∧ b / 2 ^ 63 < 2 := by
  omega

theorem f16_fields (s e m : Nat) (hs : s < 2) (he : e < 32) (hm : m < 2 ^ 10) :
    (s * 2 ^ 15 + e * 2 ^ 10 + m) / 2 ^ 15 = s ∧
    (s * 2 ^ 15 + e * 2 ^ 10 + m) / 2 ^ 10 % 32 = e ∧
    (s * 2 ^ 15 + e * 2 ^ 10 + m) % 2 ^ 10 = m := by
  refine ⟨?_, ?_, ?_⟩ <;> omega

theorem f32_fields (s e m : Nat) (hs : s < 2) (he : e < 256) (hm : m < 2 ^ 23) :
    (s * 2 ^ 31 + e * 2 ^ 23 + m) / 2 ^ 31 = s ∧
    (s * 2 ^ 31 + e * 2 ^ 23 + m) / 2 ^ 23 % 256 = e ∧
    (s * 2 ^ 31 + e * 2 ^ 23 + m) % 2 ^ 23 = m := by
  refine ⟨?_, ?_, ?_⟩ <;> omega

theorem widen16_mk (s e m : Nat) (hs : s < 2) (he : e < 32) (hm : m < 2 ^ 10) :
    widen16 (s * 2 ^ 15 + e * 2 ^ 10 + m) =
      if e = 31 then s * 2 ^ 63 + 2047 * 2 ^ 52 + m * 2 ^ 42
      else if e = 0 then
        (if m = 0 then s * 2 ^ 63
         else s * 2 ^ 63 + (Nat.log2 m + 999) * 2 ^ 52 + (m - 2 ^ Nat.log2 m) * 2 ^ (52 - Nat.log2 m))
      else s * 2 ^ 63 + (e + 1008) * 2 ^ 52 + m * 2 ^ 42 := by
  obtain ⟨h1, h2, h3⟩ := f16_fields s e m hs he hm
  unfold widen16
  simp only [h1, h2, h3]

theorem widen32_mk (s e m : Nat) (hs : s < 2) (he : e < 256) (hm : m < 2 ^ 23) :
    widen32 (s * 2 ^ 31 + e * 2 ^ 23 + m) =
      if e = 255 then s * 2 ^ 63 + 2047 * 2 ^ 52 + m * 2 ^ 29
      else if e = 0 then
        (if m = 0 then s * 2 ^ 63
         else s * 2 ^ 63 + (Nat.log2 m + 874) * 2 ^ 52 + (m - 2 ^ Nat.log2 m) * 2 ^ (52 - Nat.log2 m))
      else s * 2 ^ 63 + (e + 896) * 2 ^ 52 + m * 2 ^ 29 := by
  obtain ⟨h1, h2, h3⟩ := f32_fields s e m hs he hm
  unfold widen32
  simp only [h1, h2, h3]

/-- the subnormal quotient: `2^52 + m = k * 2^sh` pins `k` between two powers of two -/
theorem sub_quot (m sh k : Nat) (hm : m < 2 ^ 52) (hsh : sh ≤ 52) (hk : 2 ^ 52 + m = k * 2 ^ sh) :
    2 ^ (52 - sh) ≤ k ∧ k < 2 ^ (52 - sh + 1) ∧ (k - 2 ^ (52 - sh)) * 2 ^ sh = m := by
  have e : (2:Nat) ^ 52 = 2 ^ (52 - sh) * 2 ^ sh := by rw [← Nat.pow_add]; congr 1; omega
  have e' : (2:Nat) ^ 53 = 2 ^ (52 - sh + 1) * 2 ^ sh := by rw [← Nat.pow_add]; congr 1; omega
  have hp : 0 < 2 ^ sh := Nat.two_pow_pos sh
  have h1 : 2 ^ (52 - sh) ≤ k := by
    apply Nat.le_of_mul_le_mul_right _ hp
    rw [← e, ← hk]; omega
  have h2 : k < 2 ^ (52 - sh + 1) := by
    apply Nat.lt_of_mul_lt_mul_right (a := 2 ^ sh)
    rw [← e', ← hk]; omega
  refine ⟨h1, h2, ?_⟩
  rw [Nat.sub_mul, ← e, ← hk]; omega

theorem widen16_narrow16 (b h : Nat) (hb : b < 2 ^ 64) (hn : narrow16 b = some h) :
    widen16 h = b ∧ h < 2 ^ 16 := by
  obtain ⟨hsplit, hs⟩ := f64_split b hb
  have hE : b / 2 ^ 52 % 2048 < 2048 := Nat.mod_lt _ (by omega)
  have hm : b % 2 ^ 52 < 2 ^ 52 := Nat.mod_lt _ (by omega)
  unfold narrow16 at hn
  simp only at hn
  generalize b / 2 ^ 63 = s at *
  generalize b / 2 ^ 52 % 2048 = E at *
  generalize b % 2 ^ 52 = m at *
  split at hn
  · rename_i hE1
    split at hn
    · rename_i hm0
      injection hn with hn; subst hn
      have hw := widen16_mk s 31 0 hs (by omega) (by omega)
      rw [if_pos (rfl : (31:Nat) = 31)] at hw
      constructor
      · rw [(Nat.add_zero (s * 2 ^ 15 + 31 * 2 ^ 10)).symm, hw]; omega
      · omega
    · cases hn
  · split at hn
    · rename_i hE0
      split at hn
      · rename_i hm0
        injection hn with hn; subst hn
        have hw := widen16_mk s 0 0 hs (by omega) (by omega)
        have ne1 : ¬ ((0:Nat) = 31) := by omega
        rw [if_neg ne1, if_pos (rfl : (0:Nat) = 0), if_pos (rfl : (0:Nat) = 0)] at hw
        constructor
        · rw [show s * 2 ^ 15 = s * 2 ^ 15 + 0 * 2 ^ 10 + 0 by omega, hw]; omega
        · omega
      · cases hn
    · split at hn
      · rename_i hr
        split at hn
        · rename_i hdiv
          injection hn with hn; subst hn
          have hq : m / 2 ^ 42 < 2 ^ 10 := by omega
          rw [widen16_mk s (E - 1008) (m / 2 ^ 42) hs (by omega) hq]
          have e1 : ¬ (E - 1008 = 31) := by omega
          have e2 : ¬ (E - 1008 = 0) := by omega
          rw [if_neg e1, if_neg e2]
          constructor <;> omega
        · cases hn
      · split at hn
        · rename_i hr
          split at hn
          · rename_i hdiv
            injection hn with hn; subst hn
            have hk : 2 ^ 52 + m = (2 ^ 52 + m) / 2 ^ (1051 - E) * 2 ^ (1051 - E) := by
              have := Nat.div_add_mod (2 ^ 52 + m) (2 ^ (1051 - E))
              rw [hdiv, Nat.mul_comm] at this; omega
            generalize (2 ^ 52 + m) / 2 ^ (1051 - E) = k at *
            obtain ⟨k1, k2, k3⟩ := sub_quot m (1051 - E) k hm (by omega) hk
            have e5 : 52 - (1051 - E) = E - 999 := by omega
            rw [e5] at k1 k2 k3
            have hk0 : k ≠ 0 := by
              intro h0; subst h0
              have : 0 < 2 ^ (E - 999) := Nat.two_pow_pos _
              omega
            have hlog : Nat.log2 k = E - 999 := (Nat.log2_eq_iff hk0).mpr ⟨k1, k2⟩
            have hk10 : k < 2 ^ 10 := by
              have : (2:Nat) ^ (E - 999 + 1) ≤ 2 ^ 10 := Nat.pow_le_pow_right (by omega) (by omega)
              omega
            rw [show s * 2 ^ 15 + k = s * 2 ^ 15 + 0 * 2 ^ 10 + k by omega, widen16_mk s 0 k hs (by omega) hk10]
            have ne1 : ¬ ((0:Nat) = 31) := by omega
            rw [if_neg ne1, if_pos (rfl : (0:Nat) = 0), if_neg hk0, hlog]
            have e6 : 52 - (E - 999) = 1051 - E := by omega
            rw [e6, k3]
            clear k1 k2 k3 hk hlog hdiv e5 e6
            refine ⟨?_, ?_⟩
            · omega
            · omega
          · cases hn
        · cases hn

theorem widen32_narrow32 (b w : Nat) (hb : b < 2 ^ 64) (hn : narrow32 b = some w) :
    widen32 w = b ∧ w < 2 ^ 32 := by
  obtain ⟨hsplit, hs⟩ := f64_split b hb
  have hE : b / 2 ^ 52 % 2048 < 2048 := Nat.mod_lt _ (by omega)
  have hm : b % 2 ^ 52 < 2 ^ 52 := Nat.mod_lt _ (by omega)
  unfold narrow32 at hn
  simp only at hn
  generalize b / 2 ^ 63 = s at *
  generalize b / 2 ^ 52 % 2048 = E at *
  generalize b % 2 ^ 52 = m at *
  split at hn
  · rename_i hE1
    split at hn
    · rename_i hm0
      injection hn with hn; subst hn
      have hw := widen32_mk s 255 0 hs (by omega) (by omega)
      rw [if_pos (rfl : (255:Nat) = 255)] at hw
      constructor
      · rw [(Nat.add_zero (s * 2 ^ 31 + 255 * 2 ^ 23)).symm, hw]; omega
      · omega
    · cases hn
  · split at hn
    · rename_i hE0
      split at hn
      · rename_i hm0
        injection hn with hn; subst hn
        have hw := widen32_mk s 0 0 hs (by omega) (by omega)
        have ne1 : ¬ ((0:Nat) = 255) := by omega
        rw [if_neg ne1, if_pos (rfl : (0:Nat) = 0), if_pos (rfl : (0:Nat) = 0)] at hw
        constructor
        · rw [show s * 2 ^ 31 = s * 2 ^ 31 + 0 * 2 ^ 23 + 0 by omega, hw]; omega
        · omega
      · cases hn
    · split at hn
      · rename_i hr
        split at hn
        · rename_i hdiv
          injection hn with hn; subst hn
          have hq : m / 2 ^ 29 < 2 ^ 23 := by omega
          rw [widen32_mk s (E - 896) (m / 2 ^ 29) hs (by omega) hq]
          have e1 : ¬ (E - 896 = 255) := by omega
          have e2 : ¬ (E - 896 = 0) := by omega
          rw [if_neg e1, if_neg e2]
          constructor <;> omega
        · cases hn
      · split at hn
        · rename_i hr
          split at hn
          · rename_i hdiv
            injection hn with hn; subst hn
            have hk : 2 ^ 52 + m = (2 ^ 52 + m) / 2 ^ (926 - E) * 2 ^ (926 - E) := by
              have := Nat.div_add_mod (2 ^ 52 + m) (2 ^ (926 - E))
              rw [hdiv, Nat.mul_comm] at this; omega
            generalize (2 ^ 52 + m) / 2 ^ (926 - E) = k at *
            obtain ⟨k1, k2, k3⟩ := sub_quot m (926 - E) k hm (by omega) hk
            have e5 : 52 - (926 - E) = E - 874 := by omega
            rw [e5] at k1 k2 k3
            have hk0 : k ≠ 0 := by
              intro h0; subst h0
              have : 0 < 2 ^ (E - 874) := Nat.two_pow_pos _
              omega
            have hlog : Nat.log2 k = E - 874 := (Nat.log2_eq_iff hk0).mpr ⟨k1, k2⟩
            have hk23 : k < 2 ^ 23 := by
              have : (2:Nat) ^ (E - 874 + 1) ≤ 2 ^ 23 := Nat.pow_le_pow_right (by omega) (by omega)
              omega
            rw [show s * 2 ^ 31 + k = s * 2 ^ 31 + 0 * 2 ^ 23 + k by omega, widen32_mk s 0 k hs (by omega) hk23]
            have ne1 : ¬ ((0:Nat) = 255) := by omega
            rw [if_neg ne1, if_pos (rfl : (0:Nat) = 0), if_neg hk0, hlog]
            have e6 : 52 - (E - 874) = 926 - E := by omega
            rw [e6, k3]
            clear k1 k2 k3 hk hlog hdiv e5 e6
            refine ⟨?_, ?_⟩
            · omega
            · omega
          · cases hn
        · cases hn

end EchoVerif.Cbor
