/-
  The decoder's fuel (input length + 1) never runs out: every nested call sees a strictly shorter
  input, so `Err.fuel` is unreachable from `decode`.
-/
import EchoVerif.Lemmas.Codec.CborCanon

namespace EchoVerif.Cbor
open EchoVerif EchoVerif.Generated.CborHead

set_option linter.unusedSimpArgs false
set_option linter.unusedVariables false

theorem readLen_suffix {info : Nat} {bs r : Bytes} {n : Nat} (h : readLen info bs = .ok (n, r)) :
    r.length ≤ bs.length := by
  unfold readLen at h
  split at h
  · injection h with h; injection h with _ h2; subst h2; omega
  · split at h
    · cases h
    · rename_i a r' ht
      split at h
      · cases h
      · injection h with h; injection h with _ h2; subst h2
        obtain ⟨hb, _⟩ := takeN_ok ht
        rw [hb]; simp
  · cases h
  · cases h

theorem takeN_err {n : Nat} {bs : Bytes} {e : Err} (h : takeN n bs = .error e) : e = .incomplete := by
  unfold takeN at h
  split at h
  · injection h with h; exact h.symm
  · cases h

theorem readLen_no_fuel (info : Nat) (bs : Bytes) : readLen info bs ≠ .error .fuel := by
  intro h
  unfold readLen at h
  split at h
  · cases h
  · split at h
    · rename_i e ht
      injection h with h; subst h
      cases takeN_err ht
    · split at h <;> cases h
  · cases h
  · cases h

theorem decFloat_no_fuel (info : Nat) (bs : Bytes) : decFloat info bs ≠ .error .fuel := by
  intro h
  unfold decFloat at h
  split at h
  · split at h
    · rename_i e ht
      injection h with h; subst h
      cases takeN_err ht
    · simp only at h
      split at h
      · cases h
      · split at h <;> cases h
  · split at h
    · split at h
      · rename_i e ht
        injection h with h; subst h
        cases takeN_err ht
      · simp only at h
        split at h
        · cases h
        · split at h <;> cases h
    · split at h
      · rename_i e ht
        injection h with h; subst h
        cases takeN_err ht
      · simp only at h
        split at h
        · cases h
        · split at h
          · cases h
          · split at h <;> cases h

/-- element decoder: never out of fuel on inputs shorter than `f`, and always consumes -/
def Fueled (f : Nat) (d : Bytes → Except Err (Val × Bytes)) : Prop :=
  (∀ bs, bs.length < f → d bs ≠ .error .fuel) ∧
  (∀ bs v r, d bs = .ok (v, r) → r.length < bs.length)

theorem items_no_fuel {f : Nat} {d} (hd : Fueled f d) :
    ∀ n bs, bs.length < f → itemsWith d n bs ≠ .error .fuel ∧
      ∀ xs r, itemsWith d n bs = .ok (xs, r) → r.length ≤ bs.length := by
  intro n
  induction n with
  | zero => intro bs _; simp [itemsWith]
  | succ n ih =>
    intro bs hb
    simp only [itemsWith]
    cases hx : d bs with
    | error e =>
      have := hd.1 bs hb
      rw [hx] at this
      simp only
      exact ⟨by intro h; injection h with h; subst h; exact this rfl, by intro xs r h; cases h⟩
    | ok p =>
      obtain ⟨v, r⟩ := p
      have hr := hd.2 bs v r hx
      obtain ⟨i1, i2⟩ := ih r (by omega)
      simp only
      cases hy : itemsWith d n r with
      | error e =>
        simp only
        exact ⟨by intro h; injection h with h; subst h; exact i1 hy, by intro xs r h; cases h⟩
      | ok q =>
        obtain ⟨vs, r'⟩ := q
        simp only
        refine ⟨by simp, ?_⟩
        intro xs r'' h
        injection h with h; injection h with _ h2; subst h2
        have := i2 vs r' hy
        omega

theorem entries_no_fuel {f : Nat} {d} (hd : Fueled f d) :
    ∀ n last bs, bs.length < f → entriesWith d n last bs ≠ .error .fuel ∧
      ∀ es r, entriesWith d n last bs = .ok (es, r) → r.length ≤ bs.length := by
  intro n
  induction n with
  | zero => intro last bs _; simp [entriesWith]
  | succ n ih =>
    intro last bs hb
    simp only [entriesWith]
    cases hx : d bs with
    | error e =>
      have := hd.1 bs hb
      rw [hx] at this
      simp only
      exact ⟨by intro h; injection h with h; subst h; exact this rfl, by intro xs r h; cases h⟩
    | ok p =>
      obtain ⟨k, r1⟩ := p
      have hr1 := hd.2 bs k r1 hx
      simp only
      split
      · rename_i e hchk
        refine ⟨?_, by intro es r h; cases h⟩
        intro h; injection h with h; subst h
        cases last with
        | none => simp at hchk
        | some prev =>
          simp only at hchk
          split at hchk
          · cases hchk
          · split at hchk <;> cases hchk
      · cases hy : d r1 with
        | error e =>
          have := hd.1 r1 (by omega)
          rw [hy] at this
          simp only
          exact ⟨by intro h; injection h with h; subst h; exact this rfl, by intro xs r h; cases h⟩
        | ok q =>
          obtain ⟨v, r2⟩ := q
          have hr2 := hd.2 r1 v r2 hy
          obtain ⟨i1, i2⟩ := ih (some (bs.take (bs.length - r1.length))) r2 (by omega)
          simp only
          cases hz : entriesWith d n (some (bs.take (bs.length - r1.length))) r2 with
          | error e =>
            simp only
            exact ⟨by intro h; injection h with h; subst h; exact i1 hz, by intro xs r h; cases h⟩
          | ok w =>
            obtain ⟨es, r3⟩ := w
            simp only
            refine ⟨by simp, ?_⟩
            intro es' r'' h
            injection h with h; injection h with _ h2; subst h2
            have := i2 es r3 hz
            omega


theorem encInt_nonempty (i : Int) : 0 < (encInt i).length := by
  unfold encInt; split <;> simp [head]

theorem encFloat_nonempty (b : Nat) : 0 < (encFloat b).length := by
  unfold encFloat
  repeat' split
  all_goals first | exact encInt_nonempty _ | simp

theorem enc_nonempty (d : Nat) (v : Val) (e : Bytes) (h : enc d v = .ok e) : 0 < e.length := by
  cases v with
  | null => simp [enc] at h; subst h; simp
  | bool b => simp [enc] at h; subst h; simp
  | int n =>
    simp only [enc] at h
    split at h
    · cases h
    · injection h with h; subst h; exact encInt_nonempty n
  | float b => simp only [enc] at h; injection h with h; subst h; exact encFloat_nonempty b
  | text s => simp only [enc] at h; injection h with h; subst h; simp [head]
  | bytes s => simp only [enc] at h; injection h with h; subst h; simp [head]
  | array xs =>
    simp only [enc] at h
    split at h
    · cases h
    · split at h
      · cases h
      · injection h with h; subst h; simp [head]
  | map es =>
    simp only [enc] at h
    split at h
    · cases h
    · split at h
      · cases h
      · split at h
        · cases h
        · split at h
          · cases h
          · injection h with h; subst h; simp [head]
  | tag t v => simp [enc] at h

theorem dec_consumes (f dp : Nat) (bs : Bytes) (v : Val) (r : Bytes) (h : dec f dp bs = .ok (v, r)) :
    r.length < bs.length := by
  obtain ⟨e, he, hb⟩ := dec_canon f dp bs v r h
  have := enc_nonempty dp v e he
  rw [hb]; simp; omega

/-- **fuel suffices.** With fuel above the input length the decoder never reports `fuel`. -/
theorem dec_fueled : ∀ f dp, Fueled f (dec f dp) := by
  intro f
  induction f with
  | zero => intro dp; exact ⟨fun bs h => by omega, dec_consumes 0 dp⟩
  | succ f ih =>
    intro dp
    refine ⟨?_, dec_consumes (f + 1) dp⟩
    intro bs hb h
    cases bs with
    | nil => simp [dec] at h
    | cons b0 tl =>
      have htl : tl.length < f := by simp at hb; omega
      rw [dec] at h
      by_cases hm0 : b0.toNat / 32 = 0
      · rw [if_pos hm0] at h
        split at h
        · rename_i e he; injection h with h; subst h; exact readLen_no_fuel _ _ he
        · cases h
      rw [if_neg hm0] at h
      by_cases hm1 : b0.toNat / 32 = 1
      · rw [if_pos hm1] at h
        split at h
        · rename_i e he; injection h with h; subst h; exact readLen_no_fuel _ _ he
        · split at h <;> cases h
      rw [if_neg hm1] at h
      by_cases hm2 : b0.toNat / 32 = 2
      · rw [if_pos hm2] at h
        split at h
        · rename_i e he; injection h with h; subst h; exact readLen_no_fuel _ _ he
        · split at h
          · rename_i e ht; injection h with h; subst h; cases takeN_err ht
          · cases h
      rw [if_neg hm2] at h
      by_cases hm3 : b0.toNat / 32 = 3
      · rw [if_pos hm3] at h
        split at h
        · rename_i e he; injection h with h; subst h; exact readLen_no_fuel _ _ he
        · split at h
          · rename_i e ht; injection h with h; subst h; cases takeN_err ht
          · split at h <;> cases h
      rw [if_neg hm3] at h
      by_cases hm4 : b0.toNat / 32 = 4
      · rw [if_pos hm4] at h
        split at h
        · rename_i e he; injection h with h; subst h; exact readLen_no_fuel _ _ he
        · rename_i n r hr
          have hrl := readLen_suffix hr
          split at h
          · cases h
          · split at h
            · rename_i e hi; injection h with h; subst h
              exact (items_no_fuel (ih (dp + 1)) n r (by omega)).1 hi
            · cases h
      rw [if_neg hm4] at h
      by_cases hm5 : b0.toNat / 32 = 5
      · rw [if_pos hm5] at h
        split at h
        · rename_i e he; injection h with h; subst h; exact readLen_no_fuel _ _ he
        · rename_i n r hr
          have hrl := readLen_suffix hr
          split at h
          · cases h
          · split at h
            · rename_i e hi; injection h with h; subst h
              exact (entries_no_fuel (ih (dp + 1)) n none r (by omega)).1 hi
            · cases h
      rw [if_neg hm5] at h
      by_cases hm6 : b0.toNat / 32 = decTagMajor
      · rw [if_pos hm6] at h; cases h
      rw [if_neg hm6] at h
      split at h
      · cases h
      · split at h
        · cases h
        · split at h
          · cases h
          · split at h
            · exact decFloat_no_fuel _ _ h
            · split at h <;> cases h

/-- `decode_value`'s model never fails for lack of fuel. -/
theorem decode_no_fuel (bs : Bytes) : decode bs ≠ .error .fuel := by
  intro h
  unfold decode at h
  split at h
  · rename_i e he
    injection h with h; subst h
    exact (dec_fueled (bs.length + 1) 0).1 bs (by omega) he
  · cases h
  · cases h

end EchoVerif.Cbor
