/-
  WAL commit marker (`encode_commit` / `decode_commit`, Model/Wal.lean — the model C10 ties to the
  real segment files): accepted ⇒ canonical.  The round-trip direction is Lemmas/WalCodec.lean.
-/
import EchoVerif.Lemmas.WalCodec
set_option linter.unusedSimpArgs false
set_option linter.unusedVariables false

namespace EchoVerif.Wal

theorem le_leNat : ∀ x : Bytes, le x.length (leNat x) = x := by
  intro x
  induction x with
  | nil => rfl
  | cons b xs ih =>
    have hb := UInt8.toNat_lt b
    rw [leNat_cons]
    simp only [List.length_cons, le]
    have h1 : UInt8.ofNat ((b.toNat + 256 * leNat xs) % 256) = b := by
      apply UInt8.toNat_inj.mp
      simp only [UInt8.toNat_ofNat']; omega
    have h2 : (b.toNat + 256 * leNat xs) / 256 = leNat xs := by omega
    rw [h1, h2, ih]

theorem Rd.bind_ok {α β : Type} {m : Rd α} {f : α → Rd β} {bs : Bytes} {b : β} {r : Bytes}
    (h : (m >>= f) bs = .ok (b, r)) : ∃ a r1, m bs = .ok (a, r1) ∧ f a r1 = .ok (b, r) := by
  rw [Rd.bind_apply] at h
  split at h
  · cases h
  · rename_i a r1 hm
    exact ⟨a, r1, hm, h⟩

theorem rdBytes_inv {n : Nat} {bs a r : Bytes} (h : rdBytes n bs = .ok (a, r)) :
    bs = a ++ r ∧ a.length = n := by
  unfold rdBytes at h
  split at h
  · cases h
  · injection h with h; injection h with h1 h2
    subst h1; subst h2
    refine ⟨(List.take_append_drop n bs).symm, ?_⟩
    simp [List.length_take]; omega

theorem rdLE_inv {n : Nat} {bs r : Bytes} {v : Nat} (h : rdLE n bs = .ok (v, r)) :
    bs = le n v ++ r := by
  unfold rdLE at h
  split at h
  · cases h
  · rename_i hlen
    injection h with h; injection h with h1 h2
    subst h1; subst h2
    have hl : (bs.take n).length = n := by simp [List.length_take]; omega
    have := le_leNat (bs.take n)
    rw [hl] at this
    rw [this, List.take_append_drop]

theorem rdEnum_inv {name : String} {ok : Nat → Bool} {bs r : Bytes} {c : Nat}
    (h : rdEnum name ok bs = .ok (c, r)) : bs = byte c ++ r ∧ ok c = true := by
  unfold rdEnum at h
  split at h
  · cases h
  · rename_i c' r' hle
    split at h
    · rename_i hok
      injection h with h; injection h with h1 h2
      subst h1; subst h2
      exact ⟨by rw [byte_eq_le]; exact rdLE_inv hle, hok⟩
    · cases h

theorem rdFinish_inv {bs r : Bytes} {u : Unit} (h : rdFinish bs = .ok (u, r)) : bs = [] := by
  unfold rdFinish at h
  split at h
  · rename_i he
    simpa using he
  · cases h

/-- **accepted ⇒ canonical** for the commit marker: whatever `decode_commit` accepts is exactly
    `encode_commit` of the marker it returns (no trailing bytes, known enum codes). -/
theorem decodeCommit_canonical (cfg : Cfg) (bs : Bytes) (c : Commit) (h : decodeCommit cfg bs = .ok c) :
    bs = encodeCommit c ∧ cfg.txKindOk c.txKind = true ∧ cfg.durabilityOk c.durability = true := by
  unfold decodeCommit at h
  split at h
  · cases h
  · rename_i c' rest hp
    injection h with h; subst h
    unfold parseCommit at hp
    obtain ⟨a1, r1, h1, hp⟩ := Rd.bind_ok hp
    obtain ⟨a2, r2, h2, hp⟩ := Rd.bind_ok hp
    obtain ⟨a3, r3, h3, hp⟩ := Rd.bind_ok hp
    obtain ⟨a4, r4, h4, hp⟩ := Rd.bind_ok hp
    obtain ⟨a5, r5, h5, hp⟩ := Rd.bind_ok hp
    obtain ⟨a6, r6, h6, hp⟩ := Rd.bind_ok hp
    obtain ⟨a7, r7, h7, hp⟩ := Rd.bind_ok hp
    obtain ⟨a8, r8, h8, hp⟩ := Rd.bind_ok hp
    obtain ⟨a9, r9, h9, hp⟩ := Rd.bind_ok hp
    obtain ⟨a10, r10, h10, hp⟩ := Rd.bind_ok hp
    obtain ⟨a11, r11, h11, hp⟩ := Rd.bind_ok hp
    obtain ⟨a12, r12, h12, hp⟩ := Rd.bind_ok hp
    obtain ⟨u, r13, h13, hp⟩ := Rd.bind_ok hp
    simp only [pure, Rd.pure, Except.ok.injEq, Prod.mk.injEq] at hp
    obtain ⟨hc, hr⟩ := hp
    subst hc
    have e13 := rdFinish_inv h13
    obtain ⟨e1, _⟩ := rdBytes_inv h1
    obtain ⟨e2, _⟩ := rdBytes_inv h2
    obtain ⟨e3, k3⟩ := rdEnum_inv h3
    have e4 := rdLE_inv h4
    have e5 := rdLE_inv h5
    have e6 := rdLE_inv h6
    obtain ⟨e7, _⟩ := rdBytes_inv h7
    obtain ⟨e8, _⟩ := rdBytes_inv h8
    obtain ⟨e9, _⟩ := rdBytes_inv h9
    obtain ⟨e10, k10⟩ := rdEnum_inv h10
    have e11 := rdLE_inv h11
    obtain ⟨e12, _⟩ := rdBytes_inv h12
    refine ⟨?_, k3, k10⟩
    rw [e1, e2, e3, e4, e5, e6, e7, e8, e9, e10, e11, e12, e13]
    simp [encodeCommit, u64, u16, List.append_assoc]

end EchoVerif.Wal
