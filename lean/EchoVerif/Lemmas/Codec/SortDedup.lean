/-
  `sort_unstable(); dedup()` under a derived `Ord`: comparison laws (Equal only on identical values,
  Greater the mirror of Less; preserved by field-by-field lexicographic composition), and: the
  canonicalisation always yields a strictly ascending list, is idempotent, and is the identity exactly
  on strictly ascending lists.  Generic in the element type and the comparison.
-/
import EchoVerif.Model.Codec.Comb

namespace EchoVerif.Codec
open EchoVerif

set_option linter.unusedSimpArgs false
set_option linter.unusedVariables false

/-! ### comparison laws -/

/-- what the proofs need of a derived `Ord`: `Equal` only on identical values, and `Greater` is the
    mirror image of `Less` -/
structure OrdLaws {α : Type} (cmp : α → α → Ordering) : Prop where
  eq_iff : ∀ a b, cmp a b = .eq ↔ a = b
  gt_iff : ∀ a b, cmp a b = .gt ↔ cmp b a = .lt

theorem OrdLaws.refl {α : Type} {cmp : α → α → Ordering} (h : OrdLaws cmp) (a : α) : cmp a a = .eq :=
  (h.eq_iff a a).mpr rfl

theorem OrdLaws.lt_ne {α : Type} {cmp : α → α → Ordering} (h : OrdLaws cmp) {a b : α}
    (hl : cmp a b = .lt) : a ≠ b := by
  intro e; subst e; rw [h.refl] at hl; cases hl

/-- lexicographic composition, as `#[derive(Ord)]` on a struct does field by field -/
def lex {α β : Type} (c1 : α → α → Ordering) (c2 : β → β → Ordering) (p q : α × β) : Ordering :=
  (c1 p.1 q.1).then (c2 p.2 q.2)

theorem lex_laws {α β : Type} {c1 : α → α → Ordering} {c2 : β → β → Ordering}
    (h1 : OrdLaws c1) (h2 : OrdLaws c2) : OrdLaws (lex c1 c2) where
  eq_iff p q := by
    obtain ⟨a, b⟩ := p; obtain ⟨a', b'⟩ := q
    simp only [lex]
    constructor
    · intro h
      cases hc : c1 a a' with
      | lt => rw [hc] at h; cases h
      | gt => rw [hc] at h; cases h
      | eq =>
        rw [hc] at h
        have e1 := (h1.eq_iff _ _).mp hc
        have e2 := (h2.eq_iff _ _).mp h
        rw [e1, e2]
    · intro h
      injection h with e1 e2
      subst e1; subst e2
      rw [h1.refl, h2.refl]; rfl
  gt_iff p q := by
    obtain ⟨a, b⟩ := p; obtain ⟨a', b'⟩ := q
    simp only [lex]
    cases hc : c1 a a' with
    | lt =>
      have : c1 a' a = .gt := (h1.gt_iff _ _).mpr hc
      rw [this]; simp [Ordering.then]
    | gt =>
      have : c1 a' a = .lt := (h1.gt_iff _ _).mp hc
      rw [this]; simp [Ordering.then]
    | eq =>
      have e := (h1.eq_iff _ _).mp hc
      subst e
      rw [h1.refl]
      simp only [Ordering.then]
      exact h2.gt_iff b b'

section sortDedup
variable {α : Type} {cmp : α → α → Ordering}

/-- ascending with repeats allowed (what a sort produces) -/
def weaklyAsc (cmp : α → α → Ordering) : List α → Prop
  | a :: b :: rest => cmp a b ≠ .gt ∧ weaklyAsc cmp (b :: rest)
  | _ => True

theorem strictlyAsc_cons {a b : α} {rest : List α} :
    strictlyAsc cmp (a :: b :: rest) = true ↔ cmp a b = .lt ∧ strictlyAsc cmp (b :: rest) = true := by
  simp [strictlyAsc]

theorem sortBy_of_sorted : ∀ ps : List α, strictlyAsc cmp ps = true → sortBy cmp ps = ps := by
  intro ps
  induction ps with
  | nil => intro _; rfl
  | cons a rest ih =>
    intro h
    cases rest with
    | nil => rfl
    | cons b rest' =>
      obtain ⟨hlt, hs⟩ := strictlyAsc_cons.mp h
      have := ih hs
      simp only [sortBy] at this ⊢
      rw [this]
      simp [insertBy, hlt]

theorem dedupAdj_of_sorted [DecidableEq α] (hc : OrdLaws cmp) : ∀ ps : List α, strictlyAsc cmp ps = true → dedupAdj ps = ps := by
  intro ps
  induction ps with
  | nil => intro _; rfl
  | cons a rest ih =>
    intro h
    cases rest with
    | nil => rfl
    | cons b rest' =>
      obtain ⟨hlt, hs⟩ := strictlyAsc_cons.mp h
      simp only [dedupAdj]
      rw [if_neg (hc.lt_ne hlt), ih hs]

/-- strictly ascending lists are fixed points of the constructor's canonicalisation -/
theorem canonBy_of_sorted [DecidableEq α] (hc : OrdLaws cmp) (ps : List α) (h : strictlyAsc cmp ps = true) : canonBy cmp ps = ps := by
  unfold canonBy
  rw [sortBy_of_sorted ps h, dedupAdj_of_sorted hc ps h]

theorem insertBy_ne_nil (x : α) (l : List α) : insertBy cmp x l ≠ [] := by
  cases l with
  | nil => simp [insertBy]
  | cons y ys => simp only [insertBy]; split <;> simp

theorem insertBy_sorted (hc : OrdLaws cmp) (x : α) : ∀ l : List α, weaklyAsc cmp l → weaklyAsc cmp (insertBy cmp x l) := by
  intro l
  induction l with
  | nil => intro _; simp [insertBy, weaklyAsc]
  | cons y ys ih =>
    intro h
    simp only [insertBy]
    by_cases hg : cmp x y = .gt
    · simp only [hg, beq_self_eq_true, if_true]
      have hyx : cmp y x = .lt := (hc.gt_iff _ _).mp hg
      cases ys with
      | nil => simp [insertBy, weaklyAsc, hyx]
      | cons z zs =>
        have hyz : cmp y z ≠ .gt := h.1
        have hrest : weaklyAsc cmp (z :: zs) := h.2
        have ih' := ih hrest
        simp only [insertBy] at ih' ⊢
        by_cases hg2 : cmp x z = .gt
        · simp only [hg2, beq_self_eq_true, if_true] at ih' ⊢
          exact ⟨hyz, ih'⟩
        · have hb : (cmp x z == .gt) = false := by simpa using hg2
          simp only [hb] at ih' ⊢
          refine ⟨?_, ih'⟩
          rw [hyx]; simp
    · have hb : (cmp x y == .gt) = false := by simpa using hg
      simp only [hb]
      exact ⟨hg, h⟩

theorem sortBy_sorted (hc : OrdLaws cmp) : ∀ ps : List α, weaklyAsc cmp (sortBy cmp ps) := by
  intro ps
  induction ps with
  | nil => simp [sortBy, weaklyAsc]
  | cons a rest ih => exact insertBy_sorted hc a _ ih

theorem dedupAdj_head [DecidableEq α] (a : α) (rest : List α) :
    ∃ t, dedupAdj (a :: rest) = a :: t := by
  induction rest generalizing a with
  | nil => exact ⟨[], rfl⟩
  | cons b rest' ih =>
    simp only [dedupAdj]
    by_cases e : a = b
    · subst e; simp only [if_true]; exact ih a
    · simp only [e, if_false]; exact ⟨_, rfl⟩

theorem dedupAdj_strict [DecidableEq α] (hc : OrdLaws cmp) : ∀ ps : List α, weaklyAsc cmp ps → strictlyAsc cmp (dedupAdj ps) = true := by
  intro ps
  induction ps with
  | nil => intro _; rfl
  | cons a rest ih =>
    intro h
    cases rest with
    | nil => rfl
    | cons b rest' =>
      have hab : cmp a b ≠ .gt := h.1
      have ih' := ih h.2
      simp only [dedupAdj]
      by_cases e : a = b
      · simp only [e, if_true]; exact ih'
      · simp only [e, if_false]
        obtain ⟨t, ht⟩ := dedupAdj_head b rest'
        rw [ht] at ih' ⊢
        have hlt : cmp a b = .lt := by
          cases hcc : cmp a b with
          | lt => rfl
          | eq => exact absurd ((hc.eq_iff _ _).mp hcc) e
          | gt => exact absurd hcc hab
        exact strictlyAsc_cons.mpr ⟨hlt, ih'⟩

/-- the constructor always produces a strictly ascending (hence duplicate-free) parent list -/
theorem canonBy_sorted [DecidableEq α] (hc : OrdLaws cmp) (ps : List α) : strictlyAsc cmp (canonBy cmp ps) = true :=
  dedupAdj_strict hc _ (sortBy_sorted hc ps)

theorem canonBy_idem [DecidableEq α] (hc : OrdLaws cmp) (ps : List α) : canonBy cmp (canonBy cmp ps) = canonBy cmp ps :=
  canonBy_of_sorted hc _ (canonBy_sorted hc ps)

/-- canonicalisation only drops or moves elements -/
theorem insertBy_mem {x y : α} : ∀ {l : List α}, y ∈ insertBy cmp x l → y = x ∨ y ∈ l := by
  intro l
  induction l with
  | nil => intro h; simp [insertBy] at h; exact Or.inl h
  | cons z zs ih =>
    intro h
    simp only [insertBy] at h
    split at h
    · simp only [List.mem_cons] at h ⊢
      rcases h with h | h
      · exact Or.inr (Or.inl h)
      · rcases ih h with h | h
        · exact Or.inl h
        · exact Or.inr (Or.inr h)
    · simp only [List.mem_cons] at h ⊢
      exact h

theorem insertBy_length (x : α) : ∀ l : List α, (insertBy cmp x l).length = l.length + 1 := by
  intro l
  induction l with
  | nil => rfl
  | cons z zs ih => simp only [insertBy]; split <;> simp [ih]

theorem sortBy_mem {y : α} : ∀ {l : List α}, y ∈ sortBy cmp l → y ∈ l := by
  intro l
  induction l with
  | nil => intro h; exact h
  | cons a rest ih =>
    intro h
    rcases insertBy_mem h with h | h
    · simp [h]
    · simp [ih h]

theorem sortBy_length : ∀ l : List α, (sortBy cmp l).length = l.length := by
  intro l
  induction l with
  | nil => rfl
  | cons a rest ih => simp [sortBy, insertBy_length, ih]

theorem dedupAdj_mem [DecidableEq α] {y : α} : ∀ {l : List α}, y ∈ dedupAdj l → y ∈ l := by
  intro l
  induction l with
  | nil => intro h; exact h
  | cons a rest ih =>
    intro h
    cases rest with
    | nil => exact h
    | cons b rest' =>
      simp only [dedupAdj] at h
      split at h
      · exact List.mem_cons_of_mem _ (ih h)
      · simp only [List.mem_cons] at h
        rcases h with h | h
        · simp [h]
        · exact List.mem_cons_of_mem _ (ih (by simpa using h))

theorem dedupAdj_length [DecidableEq α] : ∀ l : List α, (dedupAdj l).length ≤ l.length := by
  intro l
  induction l with
  | nil => simp [dedupAdj]
  | cons a rest ih =>
    cases rest with
    | nil => simp [dedupAdj]
    | cons b rest' =>
      simp only [dedupAdj]
      split
      · simp only [List.length_cons] at ih ⊢; omega
      · simp only [List.length_cons] at ih ⊢; omega

theorem canonBy_mem [DecidableEq α] {y : α} {l : List α} (h : y ∈ canonBy cmp l) : y ∈ l :=
  sortBy_mem (dedupAdj_mem h)

theorem canonBy_length [DecidableEq α] (l : List α) : (canonBy cmp l).length ≤ l.length := by
  have := dedupAdj_length (sortBy cmp l)
  rw [sortBy_length] at this
  exact this

end sortDedup

end EchoVerif.Codec
