/- Lawfulness of the record instances (compositions of the generic combinator lemmas). -/
import EchoVerif.Lemmas.Codec.Comb
import EchoVerif.Model.Codec.Records

namespace EchoVerif.Codec
open EchoVerif EchoVerif.Generated.LeMagic

set_option linter.unusedSimpArgs false

theorem eint_lawful : Lawful eint :=
  magic_lawful _ (pair_lawful (uintLE_lawful 4) (lenBytes_lawful 4 _))

theorem elogHeader_lawful : Lawful elogHeader :=
  magic_lawful _ (magic_lawful _ (guard_lawful _
    (pair_lawful (uintLE_lawful 2) (pair_lawful (fixed_lawful 32) (fixed_lawful 8)))))

theorem elogFrame_lawful : Lawful elogFrame := lenBytes_lawful 4 _

theorem refCodec_lawful : Lawful refCodec :=
  pair_lawful (fixed_lawful 32) (pair_lawful (uintLE_lawful 8) (pair_lawful (uintLE_lawful 8)
    (pair_lawful (fixed_lawful 32) (pair_lawful (fixed_lawful 32)
      (pair_lawful (fixed_lawful 32) (fixed_lawful 32))))))

theorem parentCodec_lawful : Lawful parentCodec :=
  tagged2_lawful _ _ (by decide) refCodec_lawful refCodec_lawful

theorem refCodec_len (r : Ref) (h : refCodec.dom r) : (refCodec.enc r).length = receiptRefLen := by
  obtain ⟨h1, _, _, h4, h5, h6, h7⟩ := h
  simp only [fixed] at h1 h4 h5 h6 h7
  simp only [refCodec, pair, fixed, uintLE, List.length_append, leBytes_length, h1, h4, h5, h6, h7,
    receiptRefLen]

theorem parentCodec_len (p : Parent) (h : parentCodec.dom p) :
    1 + receiptRefLen ≤ (parentCodec.enc p).length := by
  cases p with
  | inl r => simp only [parentCodec, tagged2, List.length_cons] at h ⊢; rw [refCodec_len r h]; omega
  | inr r => simp only [parentCodec, tagged2, List.length_cons] at h ⊢; rw [refCodec_len r h]; omega

theorem targetCodec_lawful : Lawful targetCodec :=
  tagged3_lawful _ _ _ (by decide) (by decide) (by decide)
    (fixed_lawful 32)
    (pair_lawful (fixed_lawful 32) (guard_lawful _ (lenBytes_lawful 8 _)))
    (pair_lawful (fixed_lawful 32) (fixed_lawful 32))

theorem ingressV2_lawful : Lawful ingressV2 :=
  magic_lawful _ (pair_lawful targetCodec_lawful
    (pair_lawful (guard_lawful _ (counted_lawful 8 _ parentCodec_lawful parentCodec_len))
      (magic_lawful _ (pair_lawful (fixed_lawful 32) (lenBytes_lawful 8 _)))))

end EchoVerif.Codec
