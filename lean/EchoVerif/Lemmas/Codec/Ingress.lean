/-
  Retained ingress envelope: the derived `Ord` of `IngressCausalParent` is a lawful total comparison,
  `sort_unstable(); dedup()` (model: insertion sort + adjacent dedup) is the identity exactly on
  strictly ascending lists and always produces one, and hence the reader's byte-level re-encode gate
  coincides with `strictly ascending in the derived Ord`.
-/
import EchoVerif.Lemmas.Codec.Records
import EchoVerif.Lemmas.Codec.CborCanon
import EchoVerif.Lemmas.Codec.SortDedup

namespace EchoVerif.Codec
open EchoVerif EchoVerif.Generated.LeMagic

set_option linter.unusedSimpArgs false
set_option linter.unusedVariables false

theorem bytesCmp_gt_iff : ∀ a b : Bytes, Cbor.bytesCmp a b = .gt ↔ Cbor.bytesCmp b a = .lt := by
  intro a
  induction a with
  | nil => intro b; cases b <;> simp [Cbor.bytesCmp]
  | cons x xs ih =>
    intro b
    cases b with
    | nil => simp [Cbor.bytesCmp]
    | cons y ys =>
      simp only [Cbor.bytesCmp]
      by_cases h1 : x < y
      · have h2 : ¬ y < x := fun h => absurd (UInt8.lt_trans h1 h) (UInt8.lt_irrefl _)
        simp [h1, h2]
      · by_cases h2 : y < x
        · simp [h1, h2]
        · simp only [h1, h2, if_false]
          exact ih ys

theorem bytesCmp_laws : OrdLaws Cbor.bytesCmp where
  eq_iff a b := ⟨Cbor.bytesCmp_eq, fun h => by subst h; exact Cbor.bytesCmp_refl a⟩
  gt_iff := bytesCmp_gt_iff

theorem natCmp_laws : OrdLaws (fun a b : Nat => compare a b) where
  eq_iff a b := by simp [Nat.compare_eq_eq]
  gt_iff a b := by simp [Nat.compare_eq_gt, Nat.compare_eq_lt]

theorem refCmp_eq_lex : refCmp =
    lex Cbor.bytesCmp (lex (fun a b : Nat => compare a b) (lex (fun a b : Nat => compare a b)
      (lex Cbor.bytesCmp (lex Cbor.bytesCmp (lex Cbor.bytesCmp Cbor.bytesCmp))))) := rfl

theorem refCmp_laws : OrdLaws refCmp := by
  rw [refCmp_eq_lex]
  exact lex_laws bytesCmp_laws (lex_laws natCmp_laws (lex_laws natCmp_laws
    (lex_laws bytesCmp_laws (lex_laws bytesCmp_laws (lex_laws bytesCmp_laws bytesCmp_laws)))))

theorem parentCmp_laws : OrdLaws parentCmp where
  eq_iff a b := by
    cases a <;> cases b <;> simp [parentCmp, refCmp_laws.eq_iff]
  gt_iff a b := by
    cases a <;> cases b <;> simp [parentCmp, refCmp_laws.gt_iff]

/-! ### sort + dedup of causal parents (instances of Lemmas/Codec/SortDedup.lean) -/

theorem canonParents_of_sorted (ps : List Parent) (h : strictlySorted ps = true) : canonParents ps = ps :=
  canonBy_of_sorted parentCmp_laws ps h

theorem canonParents_sorted (ps : List Parent) : strictlySorted (canonParents ps) = true :=
  canonBy_sorted parentCmp_laws ps

theorem canonParents_idem (ps : List Parent) : canonParents (canonParents ps) = canonParents ps :=
  canonBy_idem parentCmp_laws ps

theorem canonParents_mem {y : Parent} {l : List Parent} (h : y ∈ canonParents l) : y ∈ l := canonBy_mem h

theorem canonParents_length (l : List Parent) : (canonParents l).length ≤ l.length := canonBy_length l

/-! ### the raw walk is lawful; the constructor stays inside its domain -/

theorem ingressRaw_lawful : Lawful ingressRaw :=
  magic_lawful _ (pair_lawful targetCodec_lawful
    (pair_lawful (counted_lawful 8 _ parentCodec_lawful parentCodec_len)
      (magic_lawful _ (pair_lawful (fixed_lawful 32) (lenBytes_lawful 8 _)))))

theorem ingressV1Raw_lawful : Lawful ingressV1Raw :=
  magic_lawful _ (pair_lawful targetCodec_lawful
    (pair_lawful (counted_lawful 8 _ (magic_lawful _ (fixed_lawful 32))
        (by intro a h; have h' : a.length = 32 := h; simp [magic, fixed, tagTickReceipt, h']))
      (magic_lawful _ (pair_lawful (fixed_lawful 32) (lenBytes_lawful 8 _)))))

theorem mkEnvelope_dom (e : Envelope) (h : ingressRaw.dom e) : ingressRaw.dom (mkEnvelope e) := by
  obtain ⟨ht, ⟨hl, hp⟩, hk⟩ := h
  refine ⟨ht, ⟨?_, ?_⟩, hk⟩
  · have := canonParents_length e.2.1
    show (canonParents e.2.1).length < 256 ^ 8
    omega
  · intro x hx
    exact hp x (canonParents_mem hx)

theorem mkEnvelope_idem (e : Envelope) : mkEnvelope (mkEnvelope e) = mkEnvelope e := by
  simp only [mkEnvelope, canonParents_idem]

/-- lawful encoders are injective on their domain -/
theorem Lawful.enc_inj {α : Type} {c : Codec α} (hc : Lawful c) {a b : α} (ha : c.dom a) (hb : c.dom b)
    (h : c.enc a = c.enc b) : a = b := by
  have h1 := hc.roundtrip a [] ha
  have h2 := hc.roundtrip b [] hb
  rw [h] at h1
  rw [h1] at h2
  injection h2 with h2
  injection h2

/-- **the gate is the order check.**  On the output of the cursor walk, `re-encode and compare`
    succeeds exactly when the parents were already strictly ascending. -/
theorem reencode_eq_iff_sorted (e : Envelope) (h : ingressRaw.dom e) :
    toRetainedV2 (mkEnvelope e) = toRetainedV2 e ↔ strictlySorted e.2.1 = true := by
  constructor
  · intro he
    have := ingressRaw_lawful.enc_inj (mkEnvelope_dom e h) h he
    have hp : canonParents e.2.1 = e.2.1 := by
      have := congrArg (fun x : Envelope => x.2.1) this
      simpa [mkEnvelope] using this
    rw [← hp]; exact canonParents_sorted _
  · intro hs
    have : mkEnvelope e = e := by
      simp only [mkEnvelope, canonParents_of_sorted _ hs]
    rw [this]

theorem fromRetainedV2_eq_guard (bs : Bytes) : fromRetainedV2 bs = decodeAll ingressV2 bs := by
  unfold fromRetainedV2
  cases hraw : decodeAll ingressRaw bs with
  | none =>
    simp only
    -- the guarded codec accepts less than the raw one
    cases hg : decodeAll ingressV2 bs with
    | none => rfl
    | some e =>
      exfalso
      have hl : Lawful ingressV2 := ingressV2_lawful
      obtain ⟨hb, hd⟩ := decodeAll_canonical hl bs e hg
      have hdr : ingressRaw.dom e := ⟨hd.1, hd.2.1.1, hd.2.2⟩
      have := decodeAll_roundtrip ingressRaw_lawful e hdr
      have henc : ingressRaw.enc e = ingressV2.enc e := rfl
      rw [henc, ← hb, hraw] at this
      cases this
  | some raw =>
    simp only
    obtain ⟨hb, hd⟩ := decodeAll_canonical ingressRaw_lawful bs raw hraw
    have hiff := reencode_eq_iff_sorted raw hd
    by_cases hs : strictlySorted raw.2.1 = true
    · have hmk : mkEnvelope raw = raw := by simp only [mkEnvelope, canonParents_of_sorted _ hs]
      have : toRetainedV2 (mkEnvelope raw) = bs := by rw [hiff.mpr hs, hb]; rfl
      rw [if_pos this, hmk]
      have hdg : ingressV2.dom raw := ⟨hd.1, ⟨hd.2.1, hs⟩, hd.2.2⟩
      have := decodeAll_roundtrip ingressV2_lawful raw hdg
      have henc : ingressV2.enc raw = ingressRaw.enc raw := rfl
      rw [henc, ← hb] at this
      exact this.symm
    · have : ¬ toRetainedV2 (mkEnvelope raw) = bs := by
        intro h
        apply hs
        apply hiff.mp
        rw [h, hb]; rfl
      rw [if_neg this]
      cases hg : decodeAll ingressV2 bs with
      | none => rfl
      | some e =>
        exfalso
        obtain ⟨hb', hd'⟩ := decodeAll_canonical ingressV2_lawful bs e hg
        have hdr : ingressRaw.dom e := ⟨hd'.1, hd'.2.1.1, hd'.2.2⟩
        have henc : ingressV2.enc e = ingressRaw.enc e := rfl
        have : raw = e := ingressRaw_lawful.enc_inj hd hdr (by rw [← hb, hb', henc])
        subst this
        exact hs hd'.2.1.2

end EchoVerif.Codec
