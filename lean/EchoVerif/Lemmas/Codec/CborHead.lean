/-
  Lemmas about big-endian arguments and the CBOR head (`write_major` / `read_len`), stated over
  the definitions extracted into Generated/CborHead.lean.
-/
import EchoVerif.Model.Codec.Cbor

namespace EchoVerif.Cbor
open EchoVerif EchoVerif.Generated.CborHead

set_option linter.unusedSimpArgs false

theorem beBytes_length (k n : Nat) : (beBytes k n).length = k := by
  induction k with
  | zero => rfl
  | succ k ih => simp [beBytes, ih]

theorem beVal_lt (bs : Bytes) : beVal bs < 256 ^ bs.length := by
  induction bs with
  | nil => simp [beVal]
  | cons b bs ih =>
    have hb := UInt8.toNat_lt b
    simp only [beVal, List.length_cons, Nat.pow_succ]
    have : b.toNat * 256 ^ bs.length ≤ 255 * 256 ^ bs.length := Nat.mul_le_mul_right _ (by omega)
    omega

theorem beVal_beBytes (k n : Nat) : beVal (beBytes k n) = n % 256 ^ k := by
  induction k with
  | zero => simp [beBytes, beVal, Nat.mod_one]
  | succ k ih =>
    simp only [beBytes, beVal, beBytes_length, ih, UInt8.toNat_ofNat']
    have h : n % 256 ^ (k + 1) = n % 256 ^ k + 256 ^ k * (n / 256 ^ k % 256) := Nat.mod_pow_succ
    rw [h, Nat.mul_comm, Nat.add_comm]

theorem beBytes_beVal (bs : Bytes) : beBytes bs.length (beVal bs) = bs := by
  induction bs with
  | nil => rfl
  | cons b bs ih =>
    have hlt := beVal_lt bs
    have hpos : 0 < 256 ^ bs.length := Nat.pow_pos (by omega)
    simp only [List.length_cons, beBytes, beVal]
    have h1 : (b.toNat * 256 ^ bs.length + beVal bs) / 256 ^ bs.length = b.toNat := by
      rw [Nat.add_comm, Nat.add_mul_div_right _ _ hpos, Nat.div_eq_of_lt hlt]; omega
    -- the remaining bytes only depend on the value modulo 256^len
    have h2 : ∀ k m x, m % 256 ^ k = x % 256 ^ k → beBytes k m = beBytes k x := by
      intro k
      induction k with
      | zero => intros; rfl
      | succ k ihk =>
        intro m x hmx
        simp only [beBytes]
        have e1 : m % 256 ^ (k + 1) = m % 256 ^ k + 256 ^ k * (m / 256 ^ k % 256) := Nat.mod_pow_succ
        have e2 : x % 256 ^ (k + 1) = x % 256 ^ k + 256 ^ k * (x / 256 ^ k % 256) := Nat.mod_pow_succ
        have hk : m % 256 ^ k = x % 256 ^ k := by
          have := congrArg (· % 256 ^ k) hmx
          simp only [Nat.pow_succ] at this
          rwa [Nat.mod_mul_right_mod, Nat.mod_mul_right_mod] at this
        have hq : m / 256 ^ k % 256 = x / 256 ^ k % 256 := by
          have hp : 0 < 256 ^ k := Nat.pow_pos (by omega)
          rw [e1, e2, hk] at hmx
          exact Nat.eq_of_mul_eq_mul_left hp (Nat.add_left_cancel hmx)
        rw [ihk m x hk]
        congr 1
        apply UInt8.toNat_inj.mp
        simp [UInt8.toNat_ofNat', hq]
    rw [h1, UInt8.ofNat_toNat]
    congr 1
    rw [h2 bs.length (b.toNat * 256 ^ bs.length + beVal bs) (beVal bs) (by
      rw [Nat.add_comm, Nat.add_mul_mod_self_right])]
    exact ih

theorem beBytes_beVal' {k : Nat} (bs : Bytes) (h : bs.length = k) : beBytes k (beVal bs) = bs := by
  subst h; exact beBytes_beVal bs

/-! ### takeN -/

theorem takeN_ok {n : Nat} {bs a r : Bytes} (h : takeN n bs = .ok (a, r)) :
    bs = a ++ r ∧ a.length = n := by
  unfold takeN at h
  split at h
  · cases h
  · injection h with h; injection h with h1 h2
    subst h1; subst h2
    refine ⟨(List.take_append_drop n bs).symm, ?_⟩
    simp [List.length_take]; omega

theorem takeN_append (a r : Bytes) : takeN a.length (a ++ r) = .ok (a, r) := by
  unfold takeN
  simp

/-! ### the head -/

theorem decKind_cases (info : Nat) (hi : info < 32) :
    (info ≤ 23 ∧ decKind info = .direct) ∨ (info = 24 ∧ decKind info = .width 1) ∨
    (info = 25 ∧ decKind info = .width 2) ∨ (info = 26 ∧ decKind info = .width 4) ∨
    (info = 27 ∧ decKind info = .width 8) ∨ (info = 31 ∧ decKind info = .indefinite) ∨
    (decKind info = .invalid) := by
  unfold decKind
  repeat' split
  all_goals simp_all

/-- `read_len` on a width arm -/
theorem readLen_width {info w : Nat} {bs rest : Bytes} {n : Nat} (hk : decKind info = .width w)
    (h : readLen info bs = .ok (n, rest)) :
    ∃ a, bs = a ++ rest ∧ a.length = w ∧ n = beVal a ∧ decOverwide info n = false := by
  unfold readLen at h
  rw [hk] at h
  simp only at h
  split at h
  · cases h
  · rename_i a r ht
    have ⟨hbs, hl⟩ := takeN_ok ht
    split at h
    · cases h
    · rename_i hov
      injection h with h; injection h with h1 h2
      subst h1; subst h2
      exact ⟨a, hbs, hl, rfl, by simpa using hov⟩

/-- What `read_len` accepts is below 2^64. -/
theorem readLen_lt {info : Nat} {bs rest : Bytes} {n : Nat} (hi : info < 32)
    (h : readLen info bs = .ok (n, rest)) : n < 2 ^ 64 := by
  rcases decKind_cases info hi with ⟨h1, hk⟩ | ⟨h1, hk⟩ | ⟨h1, hk⟩ | ⟨h1, hk⟩ | ⟨h1, hk⟩ | ⟨h1, hk⟩ | hk
  · simp [readLen, hk] at h; omega
  all_goals try (obtain ⟨a, _, hl, hn, _⟩ := readLen_width hk h; have := beVal_lt a; rw [hl] at this; omega)
  all_goals simp [readLen, hk] at h

/-- **head_canonical.** `read_len` accepts a head only in its minimal form: the bytes consumed are
    exactly what `write_major` produces for the value read. -/
theorem head_canonical {major info : Nat} {bs rest : Bytes} {n : Nat} (hi : info < 32)
    (h : readLen info bs = .ok (n, rest)) :
    UInt8.ofNat (major * 32 + info) :: bs = head major n ++ rest := by
  unfold head encInfo
  rcases decKind_cases info hi with ⟨h1, hk⟩ | ⟨h1, hk⟩ | ⟨h1, hk⟩ | ⟨h1, hk⟩ | ⟨h1, hk⟩ | ⟨h1, hk⟩ | hk
  · simp [readLen, hk] at h
    obtain ⟨rfl, rfl⟩ := h
    simp [h1, beBytes]
  · obtain ⟨a, hbs, hl, hn, hov⟩ := readLen_width hk h
    have hlt := beVal_lt a; rw [hl] at hlt
    have e := beBytes_beVal' a hl
    subst h1
    simp [decOverwide] at hov
    subst hn
    simp [show ¬ beVal a ≤ 23 by omega, show beVal a ≤ 255 by omega, e, hbs]
  · obtain ⟨a, hbs, hl, hn, hov⟩ := readLen_width hk h
    have hlt := beVal_lt a; rw [hl] at hlt
    have e := beBytes_beVal' a hl
    subst h1
    simp [decOverwide] at hov
    subst hn
    simp [show ¬ beVal a ≤ 23 by omega, show ¬ beVal a ≤ 255 by omega,
      show beVal a ≤ 65535 by omega, e, hbs]
  · obtain ⟨a, hbs, hl, hn, hov⟩ := readLen_width hk h
    have hlt := beVal_lt a; rw [hl] at hlt
    have e := beBytes_beVal' a hl
    subst h1
    simp [decOverwide] at hov
    subst hn
    simp [show ¬ beVal a ≤ 23 by omega, show ¬ beVal a ≤ 255 by omega,
      show ¬ beVal a ≤ 65535 by omega, show beVal a ≤ 4294967295 by omega, e, hbs]
  · obtain ⟨a, hbs, hl, hn, hov⟩ := readLen_width hk h
    have hlt := beVal_lt a; rw [hl] at hlt
    have e := beBytes_beVal' a hl
    subst h1
    simp [decOverwide] at hov
    subst hn
    simp [show ¬ beVal a ≤ 23 by omega, show ¬ beVal a ≤ 255 by omega,
      show ¬ beVal a ≤ 65535 by omega, show ¬ beVal a ≤ 4294967295 by omega, e, hbs]
  · simp [readLen, hk] at h
  · simp [readLen, hk] at h

/-- first byte of a head: major and info can be read back -/
theorem head_first (major n : Nat) (hm : major < 8) :
    ∃ tl, head major n = UInt8.ofNat (major * 32 + (encInfo n).1) :: tl ∧
      (UInt8.ofNat (major * 32 + (encInfo n).1)).toNat / 32 = major ∧
      (UInt8.ofNat (major * 32 + (encInfo n).1)).toNat % 32 = (encInfo n).1 ∧ (encInfo n).1 < 32 := by
  refine ⟨beBytes (encInfo n).2 n, rfl, ?_⟩
  have hi : (encInfo n).1 < 32 := by
    unfold encInfo; repeat' split
    all_goals simp <;> omega
  simp only [UInt8.toNat_ofNat']
  refine ⟨?_, ?_, hi⟩ <;> omega

/-- **head_roundtrip.** `read_len` reads back what `write_major` wrote (argument below 2^64). -/
theorem head_roundtrip (n : Nat) (hn : n < 2 ^ 64) (rest : Bytes) :
    readLen (encInfo n).1 (beBytes (encInfo n).2 n ++ rest) = .ok (n, rest) := by
  unfold encInfo
  split
  · rename_i h; simp [readLen, decKind, h, beBytes]
  · split
    · rename_i h1 h2
      have := takeN_append (beBytes 1 n) rest
      rw [beBytes_length] at this
      simp [readLen, decKind, this, beVal_beBytes, decOverwide]
      have : n % 256 = n := Nat.mod_eq_of_lt (by omega)
      simp [this]; omega
    · split
      · rename_i h1 h2 h3
        have := takeN_append (beBytes 2 n) rest
        rw [beBytes_length] at this
        simp [readLen, decKind, this, beVal_beBytes, decOverwide]
        have : n % 65536 = n := Nat.mod_eq_of_lt (by omega)
        simp [this]; omega
      · split
        · rename_i h1 h2 h3 h4
          have := takeN_append (beBytes 4 n) rest
          rw [beBytes_length] at this
          simp [readLen, decKind, this, beVal_beBytes, decOverwide]
          have : n % 4294967296 = n := Nat.mod_eq_of_lt (by omega)
          simp [this]; omega
        · rename_i h1 h2 h3 h4
          have := takeN_append (beBytes 8 n) rest
          rw [beBytes_length] at this
          simp [readLen, decKind, this, beVal_beBytes, decOverwide]
          have : n % 18446744073709551616 = n := Nat.mod_eq_of_lt (by omega)
          simp [this]; omega

end EchoVerif.Cbor
