/-
  The two laws of a binary codec — round trip and accepted ⇒ canonical — and their preservation
  by every combinator of Model/Codec/Comb.lean (proved once, instantiated per record format).
-/
import EchoVerif.Model.Codec.Comb

namespace EchoVerif.Codec
open EchoVerif

set_option linter.unusedSimpArgs false
set_option linter.unusedVariables false

structure Lawful {α : Type} (c : Codec α) : Prop where
  roundtrip : ∀ a rest, c.dom a → c.dec (c.enc a ++ rest) = some (a, rest)
  canonical : ∀ b a rest, c.dec b = some (a, rest) → c.dom a ∧ b = c.enc a ++ rest

/-! ### bytes -/

theorem leBytes_length (k n : Nat) : (leBytes k n).length = k := by
  induction k generalizing n with
  | zero => rfl
  | succ k ih => simp [leBytes, ih]

theorem leVal_lt (bs : Bytes) : leVal bs < 256 ^ bs.length := by
  induction bs with
  | nil => simp [leVal]
  | cons b bs ih =>
    have := UInt8.toNat_lt b
    simp only [leVal, List.length_cons, Nat.pow_succ]
    omega

theorem leVal_leBytes (k n : Nat) (h : n < 256 ^ k) : leVal (leBytes k n) = n := by
  induction k generalizing n with
  | zero => simp at h; subst h; rfl
  | succ k ih =>
    simp only [leBytes, leVal, UInt8.toNat_ofNat']
    rw [ih (n / 256) (by rw [Nat.pow_succ] at h; omega)]
    omega

theorem leBytes_leVal (bs : Bytes) : leBytes bs.length (leVal bs) = bs := by
  induction bs with
  | nil => rfl
  | cons b bs ih =>
    have hb := UInt8.toNat_lt b
    simp only [List.length_cons, leBytes, leVal]
    have h1 : UInt8.ofNat (b.toNat + 256 * leVal bs) = b := by
      apply UInt8.toNat_inj.mp
      simp only [UInt8.toNat_ofNat']; omega
    have h2 : (b.toNat + 256 * leVal bs) / 256 = leVal bs := by omega
    rw [h1, h2, ih]

theorem takeExact_ok {n : Nat} {bs a r : Bytes} (h : takeExact n bs = some (a, r)) :
    bs = a ++ r ∧ a.length = n := by
  unfold takeExact at h
  split at h
  · cases h
  · injection h with h; injection h with h1 h2
    subst h1; subst h2
    refine ⟨(List.take_append_drop n bs).symm, ?_⟩
    simp [List.length_take]; omega

theorem takeExact_append (a r : Bytes) : takeExact a.length (a ++ r) = some (a, r) := by
  unfold takeExact; simp

/-! ### combinators -/

theorem uintLE_lawful (k : Nat) : Lawful (uintLE k) where
  roundtrip n rest h := by
    have t := takeExact_append (leBytes k n) rest
    rw [leBytes_length] at t
    simp only [uintLE, t, leVal_leBytes k n h]
  canonical b a rest h := by
    simp only [uintLE] at h ⊢
    split at h
    · cases h
    · rename_i x r ht
      injection h with h; injection h with h1 h2
      subst h1; subst h2
      obtain ⟨hb, hl⟩ := takeExact_ok ht
      have := leVal_lt x
      rw [hl] at this
      refine ⟨this, ?_⟩
      rw [← hl, leBytes_leVal]; exact hb

theorem fixed_lawful (n : Nat) : Lawful (fixed n) where
  roundtrip a rest h := by
    have t := takeExact_append a rest
    simp only [fixed] at h ⊢
    rw [h] at t; exact t
  canonical b a rest h := by
    obtain ⟨hb, hl⟩ := takeExact_ok (n := n) h
    exact ⟨hl, hb⟩

theorem pair_lawful {α β : Type} {c1 : Codec α} {c2 : Codec β} (h1 : Lawful c1) (h2 : Lawful c2) :
    Lawful (pair c1 c2) where
  roundtrip p rest h := by
    simp only [pair, List.append_assoc]
    rw [h1.roundtrip p.1 _ h.1]
    simp only
    rw [h2.roundtrip p.2 _ h.2]
  canonical b p rest h := by
    simp only [pair] at h ⊢
    split at h
    · cases h
    · rename_i a r ha
      split at h
      · cases h
      · rename_i b' r' hb
        injection h with h; injection h with e1 e2
        subst e1; subst e2
        obtain ⟨d1, b1⟩ := h1.canonical _ _ _ ha
        obtain ⟨d2, b2⟩ := h2.canonical _ _ _ hb
        exact ⟨⟨d1, d2⟩, by rw [b1, b2]; simp⟩

theorem lenBytes_lawful (k maxLen : Nat) : Lawful (lenBytes k maxLen) where
  roundtrip a rest h := by
    have t := takeExact_append (leBytes k a.length) (a ++ rest)
    rw [leBytes_length] at t
    have h' : a.length < 256 ^ k ∧ a.length ≤ maxLen := h
    simp only [lenBytes, List.append_assoc, t, leVal_leBytes k a.length h'.1]
    rw [if_neg (by omega)]
    exact takeExact_append a rest
  canonical b a rest h := by
    simp only [lenBytes] at h ⊢
    split at h
    · cases h
    · rename_i x r ht
      split at h
      · cases h
      · rename_i hmax
        obtain ⟨hb, hl⟩ := takeExact_ok ht
        obtain ⟨hr, hal⟩ := takeExact_ok h
        have := leVal_lt x
        rw [hl] at this
        refine ⟨⟨by omega, by omega⟩, ?_⟩
        rw [hal, ← hl, leBytes_leVal, hb, hr]; simp

theorem decMany_roundtrip {α : Type} {c : Codec α} (hc : Lawful c) :
    ∀ (xs : List α) rest, (∀ x ∈ xs, c.dom x) → decMany c xs.length (encMany c xs ++ rest) = some (xs, rest) := by
  intro xs
  induction xs with
  | nil => intro rest _; rfl
  | cons x xs ih =>
    intro rest h
    simp only [List.length_cons, decMany, encMany, List.append_assoc]
    rw [hc.roundtrip x _ (h x (by simp))]
    simp only
    rw [ih rest (fun y hy => h y (by simp [hy]))]

theorem decMany_canonical {α : Type} {c : Codec α} (hc : Lawful c) :
    ∀ n b (xs : List α) rest, decMany c n b = some (xs, rest) →
      xs.length = n ∧ (∀ x ∈ xs, c.dom x) ∧ b = encMany c xs ++ rest := by
  intro n
  induction n with
  | zero =>
    intro b xs rest h
    simp only [decMany] at h
    injection h with h; injection h with h1 h2
    subst h1; subst h2
    exact ⟨rfl, by simp, rfl⟩
  | succ n ih =>
    intro b xs rest h
    simp only [decMany] at h
    split at h
    · cases h
    · rename_i a r ha
      split at h
      · cases h
      · rename_i as r' has
        injection h with h; injection h with h1 h2
        subst h1; subst h2
        obtain ⟨d1, b1⟩ := hc.canonical _ _ _ ha
        obtain ⟨l, d2, b2⟩ := ih _ _ _ has
        refine ⟨by simp [l], ?_, by rw [b1, b2]; simp [encMany]⟩
        intro x hx
        simp only [List.mem_cons] at hx
        rcases hx with rfl | hx
        · exact d1
        · exact d2 x hx

theorem encMany_length_ge {α : Type} (c : Codec α) (minSize : Nat)
    (hmin : ∀ a, c.dom a → minSize ≤ (c.enc a).length) :
    ∀ xs : List α, (∀ x ∈ xs, c.dom x) → xs.length * minSize ≤ (encMany c xs).length := by
  intro xs
  induction xs with
  | nil => intro _; simp [encMany]
  | cons x xs ih =>
    intro h
    have h1 := hmin x (h x (by simp))
    have h2 := ih (fun y hy => h y (by simp [hy]))
    simp only [List.length_cons, encMany, List.length_append, Nat.succ_mul]
    omega

theorem counted_lawful {α : Type} {c : Codec α} (k minSize : Nat) (hc : Lawful c)
    (hmin : ∀ a, c.dom a → minSize ≤ (c.enc a).length) : Lawful (counted k minSize c) where
  roundtrip xs rest h := by
    have t := takeExact_append (leBytes k xs.length) (encMany c xs ++ rest)
    rw [leBytes_length] at t
    simp only [counted, List.append_assoc, t, leVal_leBytes k xs.length h.1]
    have hpre : ¬ (minSize ≠ 0 ∧ (encMany c xs ++ rest).length / minSize < xs.length) := by
      intro ⟨h0, hlt⟩
      have hge := encMany_length_ge c minSize hmin xs h.2
      have : xs.length ≤ (encMany c xs ++ rest).length / minSize := by
        rw [Nat.le_div_iff_mul_le (by omega)]
        simp only [List.length_append]; omega
      omega
    rw [if_neg hpre]
    exact decMany_roundtrip hc xs rest h.2
  canonical b xs rest h := by
    simp only [counted] at h ⊢
    split at h
    · cases h
    · rename_i x r ht
      split at h
      · cases h
      · obtain ⟨hb, hl⟩ := takeExact_ok ht
        obtain ⟨l, d, hr⟩ := decMany_canonical hc _ _ _ _ h
        have := leVal_lt x
        rw [hl] at this
        refine ⟨⟨by omega, d⟩, ?_⟩
        rw [l, ← hl, leBytes_leVal, hb, hr]; simp

theorem option_lawful {α : Type} {c : Codec α} (hc : Lawful c) : Lawful (option c) where
  roundtrip a rest h := by
    cases a with
    | none => simp [option]
    | some a =>
      simp only [option] at h ⊢
      simp only [List.cons_append]
      rw [if_neg (by decide), if_pos True.intro, hc.roundtrip a rest h]
  canonical b a rest h := by
    cases b with
    | nil => simp [option] at h
    | cons t r =>
      simp only [option] at h
      split at h
      · rename_i ht
        injection h with h; injection h with h1 h2
        subst h1; subst h2; subst ht
        exact ⟨trivial, rfl⟩
      · split at h
        · rename_i ht
          split at h
          · cases h
          · rename_i a' r' ha
            injection h with h; injection h with h1 h2
            subst h1; subst h2; subst ht
            obtain ⟨d, e⟩ := hc.canonical _ _ _ ha
            exact ⟨d, by simp [option, e]⟩
        · cases h

theorem tagged2_lawful {α β : Type} {c1 : Codec α} {c2 : Codec β} (t1 t2 : UInt8) (hne : t1 ≠ t2)
    (h1 : Lawful c1) (h2 : Lawful c2) : Lawful (tagged2 t1 t2 c1 c2) where
  roundtrip a rest h := by
    cases a with
    | inl a =>
      simp only [tagged2] at h ⊢
      simp only [List.cons_append]
      rw [if_pos True.intro, h1.roundtrip a rest h]
    | inr b =>
      simp only [tagged2] at h ⊢
      simp only [List.cons_append]
      rw [if_neg (Ne.symm hne), if_pos True.intro, h2.roundtrip b rest h]
  canonical b a rest h := by
    cases b with
    | nil => simp [tagged2] at h
    | cons t r =>
      simp only [tagged2] at h
      split at h
      · rename_i ht
        split at h
        · cases h
        · rename_i a' r' ha
          injection h with h; injection h with e1 e2
          subst e1; subst e2; subst ht
          obtain ⟨d, e⟩ := h1.canonical _ _ _ ha
          exact ⟨d, by simp [tagged2, e]⟩
      · split at h
        · rename_i ht
          split at h
          · cases h
          · rename_i b' r' hb
            injection h with h; injection h with e1 e2
            subst e1; subst e2; subst ht
            obtain ⟨d, e⟩ := h2.canonical _ _ _ hb
            exact ⟨d, by simp [tagged2, e]⟩
        · cases h

theorem tagged3_lawful {α β γ : Type} {c1 : Codec α} {c2 : Codec β} {c3 : Codec γ} (t1 t2 t3 : UInt8)
    (h12 : t1 ≠ t2) (h13 : t1 ≠ t3) (h23 : t2 ≠ t3)
    (h1 : Lawful c1) (h2 : Lawful c2) (h3 : Lawful c3) : Lawful (tagged3 t1 t2 t3 c1 c2 c3) where
  roundtrip a rest h := by
    rcases a with a | b | c
    · simp only [tagged3] at h ⊢
      simp only [List.cons_append]
      rw [if_pos True.intro, h1.roundtrip a rest h]
    · simp only [tagged3] at h ⊢
      simp only [List.cons_append]
      rw [if_neg (Ne.symm h12), if_pos True.intro, h2.roundtrip b rest h]
    · simp only [tagged3] at h ⊢
      simp only [List.cons_append]
      rw [if_neg (Ne.symm h13), if_neg (Ne.symm h23), if_pos True.intro, h3.roundtrip c rest h]
  canonical b a rest h := by
    cases b with
    | nil => simp [tagged3] at h
    | cons t r =>
      simp only [tagged3] at h
      split at h
      · rename_i ht
        split at h
        · cases h
        · rename_i a' r' ha
          injection h with h; injection h with e1 e2
          subst e1; subst e2; subst ht
          obtain ⟨d, e⟩ := h1.canonical _ _ _ ha
          exact ⟨d, by simp [tagged3, e]⟩
      · split at h
        · rename_i ht
          split at h
          · cases h
          · rename_i b' r' hb
            injection h with h; injection h with e1 e2
            subst e1; subst e2; subst ht
            obtain ⟨d, e⟩ := h2.canonical _ _ _ hb
            exact ⟨d, by simp [tagged3, e]⟩
        · split at h
          · rename_i ht
            split at h
            · cases h
            · rename_i c' r' hc'
              injection h with h; injection h with e1 e2
              subst e1; subst e2; subst ht
              obtain ⟨d, e⟩ := h3.canonical _ _ _ hc'
              exact ⟨d, by simp [tagged3, e]⟩
          · cases h

theorem magic_lawful {α : Type} {c : Codec α} (m : Bytes) (hc : Lawful c) : Lawful (magic m c) where
  roundtrip a rest h := by
    simp only [magic, List.append_assoc, takeExact_append, if_pos]
    exact hc.roundtrip a rest h
  canonical b a rest h := by
    simp only [magic] at h ⊢
    split at h
    · cases h
    · rename_i x r ht
      split at h
      · rename_i hx
        subst hx
        obtain ⟨hb, _⟩ := takeExact_ok ht
        obtain ⟨d, e⟩ := hc.canonical _ _ _ h
        exact ⟨d, by rw [hb, e]; simp⟩
      · cases h

theorem guard_lawful {α : Type} {c : Codec α} (p : α → Bool) (hc : Lawful c) : Lawful (guard p c) where
  roundtrip a rest h := by
    simp only [guard] at h ⊢
    rw [hc.roundtrip a rest h.1]
    simp only [h.2, if_true]
  canonical b a rest h := by
    simp only [guard] at h ⊢
    split at h
    · cases h
    · rename_i a' r' ha
      split at h
      · rename_i hp
        injection h with h; injection h with e1 e2
        subst e1; subst e2
        obtain ⟨d, e⟩ := hc.canonical _ _ _ ha
        exact ⟨⟨d, hp⟩, e⟩
      · cases h

theorem iso_lawful {α β : Type} {c : Codec α} (f : α → β) (g : β → α)
    (hfg : ∀ b, f (g b) = b) (hgf : ∀ a, g (f a) = a) (hc : Lawful c) : Lawful (iso f g c) where
  roundtrip b rest h := by
    simp only [iso] at h ⊢
    rw [hc.roundtrip (g b) rest h]
    simp only [hfg]
  canonical b x rest h := by
    simp only [iso] at h ⊢
    split at h
    · cases h
    · rename_i a r ha
      injection h with h; injection h with e1 e2
      subst e1; subst e2
      obtain ⟨d, e⟩ := hc.canonical _ _ _ ha
      rw [hgf]
      exact ⟨d, e⟩

/-! ### whole-buffer laws -/

/-- **codec_roundtrip.** For every lawful codec, decoding the encoding of an in-domain value as a
    whole buffer returns exactly that value. -/
theorem decodeAll_roundtrip {α : Type} {c : Codec α} (hc : Lawful c) (a : α) (h : c.dom a) :
    decodeAll c (c.enc a) = some a := by
  have := hc.roundtrip a [] h
  rw [List.append_nil] at this
  simp [decodeAll, this]

/-- **codec_canonical.** For every lawful codec, a buffer accepted as a whole is byte-for-byte
    the encoding of the decoded value (so: no trailing bytes, no alternative forms). -/
theorem decodeAll_canonical {α : Type} {c : Codec α} (hc : Lawful c) (b : Bytes) (a : α)
    (h : decodeAll c b = some a) : b = c.enc a ∧ c.dom a := by
  unfold decodeAll at h
  split at h
  · rename_i a' ha
    injection h with h; subst h
    obtain ⟨d, e⟩ := hc.canonical _ _ _ ha
    exact ⟨by rw [e]; simp, d⟩
  · cases h

end EchoVerif.Codec
