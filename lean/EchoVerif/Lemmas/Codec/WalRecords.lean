/- Lawfulness of the WAL payload record instances; the receipt-correlation record (canonical set,
   optional tail) by hand. -/
import EchoVerif.Lemmas.Codec.Ingress
import EchoVerif.Model.Codec.WalRecords

namespace EchoVerif.Codec
open EchoVerif EchoVerif.Generated.LeMagic EchoVerif.Generated.WalRecMagic

set_option linter.unusedSimpArgs false

theorem enumByte_lawful (codes : List Nat) : Lawful (enumByte codes) := guard_lawful _ (uintLE_lawful 1)

theorem acceptanceRec_lawful : Lawful acceptanceRec :=
  pair_lawful (fixed_lawful 32) (pair_lawful (fixed_lawful 32)
    (pair_lawful (option_lawful (fixed_lawful 32)) (fixed_lawful 32)))

theorem submissionEnvRec_lawful : Lawful submissionEnvRec :=
  pair_lawful (fixed_lawful 32) (pair_lawful (fixed_lawful 32) (pair_lawful (uintLE_lawful 8)
    (pair_lawful (pair_lawful (fixed_lawful 32) (fixed_lawful 32)) (lenBytes_lawful 8 _))))

theorem tickReceiptRec_lawful : Lawful tickReceiptRec :=
  magic_lawful _ (pair_lawful refCodec_lawful (enumByte_lawful _))

theorem materialRec_lawful : Lawful materialRec :=
  pair_lawful (fixed_lawful 32) (pair_lawful (fixed_lawful 32)
    (pair_lawful (enumByte_lawful _) (enumByte_lawful _)))

theorem readingRefRec_lawful : Lawful readingRefRec :=
  pair_lawful (fixed_lawful 32) (pair_lawful (fixed_lawful 32) (pair_lawful (fixed_lawful 32)
    (pair_lawful (fixed_lawful 32) (enumByte_lawful _))))

theorem checkpointRec_lawful : Lawful checkpointRec :=
  pair_lawful (fixed_lawful 32) (pair_lawful (uintLE_lawful 8) (pair_lawful (fixed_lawful 32)
    (pair_lawful (fixed_lawful 32) (pair_lawful (fixed_lawful 32) (pair_lawful (fixed_lawful 32)
      (pair_lawful (uintLE_lawful 2) (fixed_lawful 32)))))))

theorem checkpointPubRec_lawful : Lawful checkpointPubRec :=
  pair_lawful (fixed_lawful 32) (fixed_lawful 32)

/-! ### receipt correlation -/

theorem corrHead_lawful : Lawful (magic receiptCorrelationMagicV2 refCodec) :=
  magic_lawful _ refCodec_lawful

theorem corrTail_lawful : Lawful (guard (fun ps : List Ref => !ps.isEmpty) (counted 8 receiptRefLen refCodec)) :=
  guard_lawful _ (counted_lawful 8 _ refCodec_lawful (fun a h => by rw [refCodec_len a h]; exact Nat.le_refl _))

/-- the domain of the correlation writer: in-range references, fewer than 2^64 of them -/
def correlationDom (c : Correlation) : Prop :=
  refCodec.dom c.1 ∧ c.2.length < 256 ^ 8 ∧ ∀ p ∈ c.2, refCodec.dom p

theorem correlation_canonical (b : Bytes) (c : Correlation) (h : correlationDec b = some c) :
    b = correlationEnc c ∧ strictlyAsc refCmp c.2 = true ∧ correlationDom c := by
  unfold correlationDec at h
  split at h
  · cases h
  · rename_i r rest hhead
    obtain ⟨hdr, hb⟩ := corrHead_lawful.canonical _ _ _ hhead
    split at h
    · rename_i hrest
      injection h with h; subst h
      subst hrest
      refine ⟨?_, rfl, hdr, by simp, by simp⟩
      rw [hb]
      simp [correlationEnc, canonBy, sortBy, dedupAdj, magic]
    · split at h
      · cases h
      · rename_i ps hps
        split at h
        · rename_i hasc
          injection h with h; subst h
          obtain ⟨hr, hd⟩ := decodeAll_canonical corrTail_lawful _ _ hps
          have hne : ps ≠ [] := by
            have : (!ps.isEmpty) = true := hd.2
            intro e; subst e; simp at this
          have hcan : canonBy refCmp ps = ps := canonBy_of_sorted refCmp_laws ps hasc
          refine ⟨?_, hasc, hdr, hd.1.1, hd.1.2⟩
          rw [hb, hr]
          simp only [correlationEnc, hcan, if_neg hne]
          simp [magic, guard, counted, List.append_assoc]
        · cases h

theorem correlation_roundtrip (c : Correlation) (h : correlationDom c) :
    correlationDec (correlationEnc c) = some (c.1, canonBy refCmp c.2) := by
  obtain ⟨hr, hl, hp⟩ := h
  have hsorted := canonBy_sorted refCmp_laws c.2
  have hlen := canonBy_length (cmp := refCmp) c.2
  unfold correlationDec
  by_cases he : canonBy refCmp c.2 = []
  · have henc : correlationEnc c = (magic receiptCorrelationMagicV2 refCodec).enc c.1 ++ [] := by
      simp [correlationEnc, he, magic]
    rw [henc, corrHead_lawful.roundtrip c.1 [] hr]
    simp [he]
  · have henc : correlationEnc c = (magic receiptCorrelationMagicV2 refCodec).enc c.1 ++
        (guard (fun ps : List Ref => !ps.isEmpty) (counted 8 receiptRefLen refCodec)).enc (canonBy refCmp c.2) := by
      simp [correlationEnc, he, magic, guard, counted, List.append_assoc]
    rw [henc, corrHead_lawful.roundtrip c.1 _ hr]
    have hne : (guard (fun ps : List Ref => !ps.isEmpty) (counted 8 receiptRefLen refCodec)).enc (canonBy refCmp c.2) ≠ [] := by
      simp only [guard, counted]
      intro e
      have := congrArg List.length e
      simp [leBytes_length] at this
    simp only [if_neg hne]
    have hd : (guard (fun ps : List Ref => !ps.isEmpty) (counted 8 receiptRefLen refCodec)).dom (canonBy refCmp c.2) := by
      refine ⟨⟨by omega, fun x hx => hp x (canonBy_mem hx)⟩, ?_⟩
      cases hc : canonBy refCmp c.2 with
      | nil => exact absurd hc he
      | cons _ _ => rfl
    rw [decodeAll_roundtrip corrTail_lawful _ hd]
    simp [hsorted]

end EchoVerif.Codec
