/-
  accepted ⇒ canonical for the ABI CBOR decoder: whatever `dec` accepts is, byte for byte, what
  `enc` writes for the decoded value.  By induction on the decoder's fuel.
-/
import EchoVerif.Lemmas.Codec.CborHead
import EchoVerif.Lemmas.Codec.CborFloat

namespace EchoVerif.Cbor
open EchoVerif EchoVerif.Generated.CborHead

set_option linter.unusedSimpArgs false
set_option linter.unusedVariables false

/-! ### byte order -/

theorem bytesCmp_refl (a : Bytes) : bytesCmp a a = .eq := by
  induction a with
  | nil => rfl
  | cons x xs ih => simp [bytesCmp, UInt8.lt_irrefl, ih]

theorem bytesCmp_eq {a b : Bytes} (h : bytesCmp a b = .eq) : a = b := by
  induction a generalizing b with
  | nil => cases b <;> simp [bytesCmp] at h ⊢
  | cons x xs ih =>
    cases b with
    | nil => simp [bytesCmp] at h
    | cons y ys =>
      simp only [bytesCmp] at h
      split at h
      · cases h
      · split at h
        · cases h
        · rename_i h1 h2
          have : x = y := by
            apply UInt8.toNat_inj.mp
            rw [UInt8.lt_iff_toNat_lt] at h1 h2; omega
          rw [this, ih h]

/-- trichotomy: the decoder's "not equal and not less" means "greater" -/
theorem bytesCmp_tri (a b : Bytes) : bytesCmp a b = .lt ∨ a = b ∨ bytesCmp b a = .lt := by
  induction a generalizing b with
  | nil => cases b <;> simp [bytesCmp]
  | cons x xs ih =>
    cases b with
    | nil => simp [bytesCmp]
    | cons y ys =>
      simp only [bytesCmp]
      by_cases h1 : x < y
      · simp [h1]
      · by_cases h2 : y < x
        · simp [h1, h2]
        · have : x = y := by
            apply UInt8.toNat_inj.mp
            rw [UInt8.lt_iff_toNat_lt] at h1 h2; omega
          subst this
          simp [h1]
          rcases ih ys with h | h | h
          · exact Or.inl h
          · exact Or.inr (Or.inl h)
          · exact Or.inr (Or.inr h)

/-- encoded entries in strictly ascending key order, all above `last` -/
def Asc : Option Bytes → List EncEntry → Prop
  | _, [] => True
  | last, x :: xs =>
    (match last with | none => True | some p => bytesCmp p x.1 = .lt) ∧ Asc (some x.1) xs

theorem sortEntries_of_asc : ∀ (last : Option Bytes) (xs : List EncEntry), Asc last xs → sortEntries xs = xs
  | _, [], _ => rfl
  | _, [x], _ => rfl
  | last, x :: y :: ys, h => by
    have h2 : Asc (some x.1) (y :: ys) := h.2
    have ih := sortEntries_of_asc (some x.1) (y :: ys) h2
    simp only [sortEntries] at ih ⊢
    rw [ih]
    have : bytesCmp x.1 y.1 = .lt := h2.1
    simp [insertEntry, this]

theorem hasAdjDup_of_asc : ∀ (last : Option Bytes) (xs : List EncEntry), Asc last xs → hasAdjDup xs = false
  | _, [], _ => rfl
  | _, [x], _ => rfl
  | last, x :: y :: ys, h => by
    have h2 : Asc (some x.1) (y :: ys) := h.2
    have ih := hasAdjDup_of_asc (some x.1) (y :: ys) h2
    have hlt : bytesCmp x.1 y.1 = .lt := h2.1
    simp only [hasAdjDup, ih, Bool.or_false]
    apply Bool.eq_false_iff.mpr
    intro he
    have : x.1 = y.1 := by simpa using he
    rw [this, bytesCmp_refl] at hlt
    cases hlt

/-! ### loops -/

/-- the statement proved for `dec fuel`, as a property of an element decoder -/
def Canon (dp : Nat) (d : Bytes → Except Err (Val × Bytes)) : Prop :=
  ∀ bs v rest, d bs = .ok (v, rest) → ∃ e, enc dp v = .ok e ∧ bs = e ++ rest

theorem itemsWith_canon {dp : Nat} {d} (hd : Canon dp d) :
    ∀ n bs xs rest, itemsWith d n bs = .ok (xs, rest) →
      ∃ e, encList dp xs = .ok e ∧ bs = e ++ rest ∧ xs.length = n := by
  intro n
  induction n with
  | zero =>
    intro bs xs rest h
    simp [itemsWith] at h
    obtain ⟨rfl, rfl⟩ := h
    exact ⟨[], by simp [encList], rfl, rfl⟩
  | succ n ih =>
    intro bs xs rest h
    simp only [itemsWith] at h
    split at h
    · cases h
    · rename_i v r hv
      split at h
      · cases h
      · rename_i vs r' hvs
        injection h with h; injection h with h1 h2
        subst h1; subst h2
        obtain ⟨e1, he1, hb1⟩ := hd _ _ _ hv
        obtain ⟨e2, he2, hb2, hl⟩ := ih _ _ _ hvs
        refine ⟨e1 ++ e2, ?_, ?_, by simp [hl]⟩
        · simp [encList, he1, he2]
        · rw [hb1, hb2]; simp

theorem entriesWith_canon {dp : Nat} {d} (hd : Canon dp d) :
    ∀ n last bs es rest, entriesWith d n last bs = .ok (es, rest) →
      ∃ ents body, encEntries dp es = .ok ents ∧ Asc last ents ∧ encBody ents = .ok body ∧
        bs = body ++ rest ∧ ents.length = n := by
  intro n
  induction n with
  | zero =>
    intro last bs es rest h
    simp [entriesWith] at h
    obtain ⟨rfl, rfl⟩ := h
    exact ⟨[], [], by simp [encEntries], trivial, by simp [encBody], rfl, rfl⟩
  | succ n ih =>
    intro last bs es rest h
    simp only [entriesWith] at h
    split at h
    · cases h
    · rename_i k r1 hk
      obtain ⟨ek, hek, hbk⟩ := hd _ _ _ hk
      have hkb : bs.take (bs.length - r1.length) = ek := by
        rw [hbk]; simp
      rw [hkb] at h
      split at h
      · cases h
      · rename_i hchk
        split at h
        · cases h
        · rename_i v r2 hv
          obtain ⟨ev, hev, hbv⟩ := hd _ _ _ hv
          split at h
          · cases h
          · rename_i es' r3 hes
            injection h with h; injection h with h1 h2
            subst h1; subst h2
            obtain ⟨ents, body, hents, hasc, hbody, hb, hl⟩ := ih _ _ _ _ hes
            refine ⟨(ek, enc dp v) :: ents, ek ++ ev ++ body, ?_, ?_, ?_, ?_, by simp [hl]⟩
            · simp [encEntries, hek, hents]
            · refine ⟨?_, hasc⟩
              cases last with
              | none => trivial
              | some prev =>
                simp only at hchk ⊢
                split at hchk
                · cases hchk
                · rename_i hne
                  split at hchk
                  · cases hchk
                  · rename_i hnlt
                    rcases bytesCmp_tri prev ek with h | h | h
                    · exact h
                    · subst h; simp at hne
                    · rw [h] at hnlt; simp at hnlt
            · simp [encBody, hev, hbody]
            · rw [hbk, hbv, hb]; simp

/-! ### the decoder -/

theorem enc_int_nat (d n : Nat) : enc d (.int (Int.ofNat n)) = .ok (head 0 n) := by
  have h1 : ¬ ((n : Int) < -(2 ^ 63 : Int)) := by omega
  have h2 : (0 : Int) ≤ (n : Int) := by omega
  simp only [enc, encInt, Int.ofNat_eq_natCast, if_neg h1, if_pos h2, Int.toNat_natCast]

theorem enc_int_neg (d n : Nat) (hn : n < 2 ^ 63) : enc d (.int (-(1 + Int.ofNat n))) = .ok (head 1 n) := by
  have h0 : (n : Int) < 2 ^ 63 := by exact_mod_cast hn
  have h1 : ¬ (-(1 + (n : Int)) < -(2 ^ 63 : Int)) := by omega
  have h2 : ¬ ((0 : Int) ≤ -(1 + (n : Int))) := by omega
  have h3 : (-1 - -(1 + (n : Int))).toNat = n := by omega
  simp only [enc, encInt, Int.ofNat_eq_natCast, if_neg h1, if_neg h2, h3]

theorem dec_canon : ∀ fuel dp, Canon dp (dec fuel dp) := by
  intro fuel
  induction fuel with
  | zero => intro dp bs v rest h; simp [dec] at h
  | succ fuel ih =>
    intro dp bs v rest h
    cases bs with
    | nil => simp [dec] at h
    | cons b0 tl =>
      have hinfo : b0.toNat % 32 < 32 := Nat.mod_lt _ (by omega)
      have hb0 : ∀ m, b0.toNat / 32 = m → UInt8.ofNat (m * 32 + b0.toNat % 32) = b0 := by
        intro m hm
        subst hm
        have : b0.toNat / 32 * 32 + b0.toNat % 32 = b0.toNat := by omega
        rw [this, UInt8.ofNat_toNat]
      rw [dec] at h
      by_cases hm0 : b0.toNat / 32 = 0
      · rw [if_pos hm0] at h
        split at h
        · cases h
        · rename_i n r hr
          injection h with h; injection h with h1 h2
          subst h1; subst h2
          have hc := head_canonical (major := 0) hinfo hr
          rw [hb0 0 hm0] at hc
          exact ⟨head 0 n, enc_int_nat dp n, hc⟩
      rw [if_neg hm0] at h
      by_cases hm1 : b0.toNat / 32 = 1
      · rw [if_pos hm1] at h
        split at h
        · cases h
        · rename_i n r hr
          split at h
          · cases h
          · rename_i hlt
            injection h with h; injection h with h1 h2
            subst h1; subst h2
            have hc := head_canonical (major := 1) hinfo hr
            rw [hb0 1 hm1] at hc
            exact ⟨head 1 n, enc_int_neg dp n (by omega), hc⟩
      rw [if_neg hm1] at h
      by_cases hm2 : b0.toNat / 32 = 2
      · rw [if_pos hm2] at h
        split at h
        · cases h
        · rename_i n r hr
          split at h
          · cases h
          · rename_i data r' ht
            injection h with h; injection h with h1 h2
            subst h1; subst h2
            have hc := head_canonical (major := 2) hinfo hr
            rw [hb0 2 hm2] at hc
            obtain ⟨hr', hl⟩ := takeN_ok ht
            refine ⟨head 2 data.length ++ data, by simp [enc], ?_⟩
            rw [hc, hr', hl]; simp
      rw [if_neg hm2] at h
      by_cases hm3 : b0.toNat / 32 = 3
      · rw [if_pos hm3] at h
        split at h
        · cases h
        · rename_i n r hr
          split at h
          · cases h
          · rename_i data r' ht
            split at h
            · injection h with h; injection h with h1 h2
              subst h1; subst h2
              have hc := head_canonical (major := 3) hinfo hr
              rw [hb0 3 hm3] at hc
              obtain ⟨hr', hl⟩ := takeN_ok ht
              refine ⟨head 3 data.length ++ data, by simp [enc], ?_⟩
              rw [hc, hr', hl]; simp
            · cases h
      rw [if_neg hm3] at h
      by_cases hm4 : b0.toNat / 32 = 4
      · rw [if_pos hm4] at h
        split at h
        · cases h
        · rename_i n r hr
          split at h
          · cases h
          · rename_i hdp
            split at h
            · cases h
            · rename_i xs r' hxs
              injection h with h; injection h with h1 h2
              subst h1; subst h2
              have hc := head_canonical (major := 4) hinfo hr
              rw [hb0 4 hm4] at hc
              obtain ⟨e, he, hb, hl⟩ := itemsWith_canon (ih (dp + 1)) _ _ _ _ hxs
              refine ⟨head 4 xs.length ++ e, by simp [enc, he, hdp], ?_⟩
              rw [hc, hb, hl]; simp
      rw [if_neg hm4] at h
      by_cases hm5 : b0.toNat / 32 = 5
      · rw [if_pos hm5] at h
        split at h
        · cases h
        · rename_i n r hr
          split at h
          · cases h
          · rename_i hdp
            split at h
            · cases h
            · rename_i es r' hes
              injection h with h; injection h with h1 h2
              subst h1; subst h2
              have hc := head_canonical (major := 5) hinfo hr
              rw [hb0 5 hm5] at hc
              obtain ⟨ents, body, hents, hasc, hbody, hb, hl⟩ :=
                entriesWith_canon (ih (dp + 1)) _ _ _ _ _ hes
              refine ⟨head 5 ents.length ++ body, ?_, ?_⟩
              · simp [enc, hents, sortEntries_of_asc _ _ hasc, hasAdjDup_of_asc _ _ hasc, hbody, hdp]
              · rw [hc, hb, hl]; simp
      rw [if_neg hm5] at h
      by_cases hm6 : b0.toNat / 32 = decTagMajor
      · rw [if_pos hm6] at h; cases h
      rw [if_neg hm6] at h
      have hm7 : b0.toNat / 32 = 7 := by
        have := UInt8.toNat_lt b0
        simp [decTagMajor] at hm6
        omega
      have hb7 : ∀ i, b0.toNat % 32 = i → b0 = UInt8.ofNat (224 + i) := by
        intro i hi
        have := hb0 7 hm7
        rw [hi] at this
        exact this.symm
      split at h
      · rename_i hi
        injection h with h; injection h with h1 h2
        subst h1; subst h2
        exact ⟨[UInt8.ofNat encFalse], by simp [enc], by rw [hb7 _ hi]; rfl⟩
      · split at h
        · rename_i hi
          injection h with h; injection h with h1 h2
          subst h1; subst h2
          exact ⟨[UInt8.ofNat encTrue], by simp [enc], by rw [hb7 _ hi]; rfl⟩
        · split at h
          · rename_i hi
            injection h with h; injection h with h1 h2
            subst h1; subst h2
            exact ⟨[UInt8.ofNat encNull], by simp [enc], by rw [hb7 _ hi]; rfl⟩
          · split at h
            · rename_i hi
              obtain ⟨e, he, hb⟩ := decFloat_canon dp hi h
              refine ⟨e, he, ?_⟩
              rw [← hb]; rw [← hb7 _ rfl]
            · split at h <;> cases h

end EchoVerif.Cbor
