/-
  The nesting limit, as enforced by the ENCODER (`enc d v`, after fix-c12-abi-encoder-nesting):
  * whatever encodes at depth `d` has `d + depth v ≤ maxNesting` (containers only),
  * the produced bytes do not depend on the depth at which a value is encoded, as long as the
    value still fits under the limit (used for map keys: `keyBytes k = enc 0 k`),
  * the exact boundary on `nestArr n null`.
-/
import EchoVerif.Lemmas.Codec.CborCanon

namespace EchoVerif.Cbor
open EchoVerif EchoVerif.Generated.CborHead

set_option linter.unusedSimpArgs false
set_option linter.unusedVariables false

/-! ### membership in the sorted entry list -/
section sort
variable {γ : Type}

theorem mem_insertEntry {x y : Bytes × γ} {l : List (Bytes × γ)} :
    y ∈ insertEntry x l ↔ y = x ∨ y ∈ l := by
  induction l with
  | nil => simp [insertEntry]
  | cons z zs ih =>
    simp only [insertEntry]
    split
    · simp
    · simp only [List.mem_cons, ih]
      constructor
      · rintro (h | h | h)
        · exact Or.inr (Or.inl h)
        · exact Or.inl h
        · exact Or.inr (Or.inr h)
      · rintro (h | h | h)
        · exact Or.inr (Or.inl h)
        · exact Or.inl h
        · exact Or.inr (Or.inr h)

theorem mem_sortEntries {y : Bytes × γ} {l : List (Bytes × γ)} : y ∈ sortEntries l ↔ y ∈ l := by
  induction l with
  | nil => simp [sortEntries]
  | cons x xs ih => simp only [sortEntries, mem_insertEntry, ih, List.mem_cons]

end sort

/-- every value of a map whose body was written did encode -/
theorem encBody_ok_mem : ∀ (l : List EncEntry) (b : Bytes), encBody l = .ok b →
    ∀ x ∈ l, ∃ vb, x.2 = .ok vb := by
  intro l
  induction l with
  | nil => intro b _ x hx; cases hx
  | cons y ys ih =>
    intro b h x hx
    obtain ⟨kb, r⟩ := y
    cases r with
    | error e => simp [encBody] at h
    | ok vb =>
      simp only [encBody] at h
      split at h
      · cases h
      · rename_i tl htl
        simp only [List.mem_cons] at hx
        rcases hx with rfl | hx
        · exact ⟨vb, rfl⟩
        · exact ih tl htl x hx

/-! ### the two facts, per value -/

/-- what the induction proves for each value -/
def DP (v : Val) : Prop :=
  (∀ d e, enc d v = .ok e → 0 < depth v → d + depth v ≤ maxNesting) ∧
  (∀ d d' e, enc d v = .ok e → (0 < depth v → d' + depth v ≤ maxNesting) → enc d' v = .ok e)

theorem dp_scalar {v : Val} (hd : depth v = 0) (he : ∀ d d', enc d v = enc d' v) : DP v :=
  ⟨fun d e _ h => by omega, fun d d' e h _ => by rw [← he d d']; exact h⟩

theorem encList_dp : ∀ (xs : List Val), (∀ x ∈ xs, DP x) →
    (∀ d b, encList d xs = .ok b → 0 < depthList xs → d + depthList xs ≤ maxNesting) ∧
    (∀ d d' b, encList d xs = .ok b → (0 < depthList xs → d' + depthList xs ≤ maxNesting) →
      encList d' xs = .ok b) := by
  intro xs
  induction xs with
  | nil => intro _; exact ⟨fun d b _ h => by simp [depthList] at h, fun d d' b h _ => by simpa [encList] using h⟩
  | cons x xs ih =>
    intro hall
    obtain ⟨i1, i2⟩ := ih (fun y hy => hall y (by simp [hy]))
    obtain ⟨x1, x2⟩ := hall x (by simp)
    constructor
    · intro d b h hpos
      simp only [encList] at h
      split at h
      · cases h
      · rename_i a ha
        split at h
        · cases h
        · rename_i b' hb'
          have a1 := x1 d a ha
          have a2 := i1 d b' hb'
          simp only [depthList] at hpos ⊢
          omega
    · intro d d' b h hfit
      simp only [encList] at h ⊢
      split at h
      · cases h
      · rename_i a ha
        split at h
        · cases h
        · rename_i b' hb'
          simp only [depthList] at hfit
          rw [x2 d d' a ha (by omega), i2 d d' b' hb' (by omega)]
          exact h

theorem encEntries_dp : ∀ (es : List (Val × Val)), (∀ kv ∈ es, DP kv.1 ∧ DP kv.2) →
    (∀ d ents, encEntries d es = .ok ents → (∀ x ∈ ents, ∃ vb, x.2 = .ok vb) →
      0 < depthEntries es → d + depthEntries es ≤ maxNesting) ∧
    (∀ d d' ents, encEntries d es = .ok ents → (∀ x ∈ ents, ∃ vb, x.2 = .ok vb) →
      (0 < depthEntries es → d' + depthEntries es ≤ maxNesting) → encEntries d' es = .ok ents) := by
  intro es
  induction es with
  | nil =>
    intro _
    exact ⟨fun d ents _ _ h => by simp [depthEntries] at h,
      fun d d' ents h _ _ => by simpa [encEntries] using h⟩
  | cons kv rest ih =>
    intro hall
    obtain ⟨i1, i2⟩ := ih (fun y hy => hall y (by simp [hy]))
    obtain ⟨⟨k1, k2⟩, ⟨v1, v2⟩⟩ := hall kv (by simp)
    constructor
    · intro d ents h hok hpos
      simp only [encEntries] at h
      split at h
      · cases h
      · rename_i kb hkb
        split at h
        · cases h
        · rename_i r hr
          injection h with h; subst h
          obtain ⟨vb, hvb⟩ := hok (kb, enc d kv.2) (by simp)
          have a1 := k1 d kb hkb
          have a2 := v1 d vb hvb
          have a3 := i1 d r hr (fun x hx => hok x (by simp [hx]))
          simp only [depthEntries] at hpos ⊢
          omega
    · intro d d' ents h hok hfit
      simp only [encEntries] at h ⊢
      split at h
      · cases h
      · rename_i kb hkb
        split at h
        · cases h
        · rename_i r hr
          injection h with h; subst h
          obtain ⟨vb, hvb⟩ := hok (kb, enc d kv.2) (by simp)
          have hvb : enc d kv.2 = .ok vb := hvb
          simp only [depthEntries] at hfit
          rw [k2 d d' kb hkb (by omega), i2 d d' r hr (fun x hx => hok x (by simp [hx])) (by omega)]
          simp only
          rw [hvb, v2 d d' vb hvb (by omega)]

theorem dp_array (xs : List Val) (h : ∀ x ∈ xs, DP x) : DP (.array xs) := by
  obtain ⟨l1, l2⟩ := encList_dp xs h
  constructor
  · intro d e he _
    simp only [enc] at he
    split at he
    · cases he
    · rename_i hd
      split at he
      · cases he
      · rename_i body hb
        have := l1 (d + 1) body hb
        simp only [depth]
        omega
  · intro d d' e he hfit
    simp only [enc] at he ⊢
    split at he
    · cases he
    · rename_i hd
      split at he
      · cases he
      · rename_i body hb
        simp only [depth] at hfit
        rw [if_neg (by omega), l2 (d + 1) (d' + 1) body hb (by omega)]
        exact he

theorem dp_map (es : List (Val × Val)) (h : ∀ kv ∈ es, DP kv.1 ∧ DP kv.2) : DP (.map es) := by
  obtain ⟨l1, l2⟩ := encEntries_dp es h
  constructor
  · intro d e he _
    simp only [enc] at he
    split at he
    · cases he
    · rename_i hd
      split at he
      · cases he
      · rename_i ents hents
        split at he
        · cases he
        · split at he
          · cases he
          · rename_i body hbody
            have hok : ∀ x ∈ ents, ∃ vb, x.2 = .ok vb := fun x hx =>
              encBody_ok_mem _ body hbody x (mem_sortEntries.mpr hx)
            have := l1 (d + 1) ents hents hok
            simp only [depth]
            omega
  · intro d d' e he hfit
    simp only [enc] at he ⊢
    split at he
    · cases he
    · rename_i hd
      split at he
      · cases he
      · rename_i ents hents
        split at he
        · cases he
        · rename_i hdup
          split at he
          · cases he
          · rename_i body hbody
            have hok : ∀ x ∈ ents, ∃ vb, x.2 = .ok vb := fun x hx =>
              encBody_ok_mem _ body hbody x (mem_sortEntries.mpr hx)
            simp only [depth] at hfit
            rw [if_neg (by omega), l2 (d + 1) (d' + 1) ents hents hok (by omega)]
            simp only [hdup, hbody]
            exact he

mutual
  theorem dp_all : (v : Val) → DP v
    | .null => dp_scalar rfl (fun _ _ => by simp [enc])
    | .bool b => dp_scalar rfl (fun _ _ => by simp [enc])
    | .int n => dp_scalar rfl (fun _ _ => by simp [enc])
    | .float b => dp_scalar rfl (fun _ _ => by simp [enc])
    | .text t => dp_scalar rfl (fun _ _ => by simp [enc])
    | .bytes b => dp_scalar rfl (fun _ _ => by simp [enc])
    | .array xs => dp_array xs (dp_list xs)
    | .map es => dp_map es (dp_entries es)
    | .tag t v => ⟨fun d e h => by simp [enc] at h, fun d d' e h => by simp [enc] at h⟩
  theorem dp_list : (xs : List Val) → ∀ x ∈ xs, DP x
    | [] => fun x h => nomatch h
    | y :: ys => fun x h =>
      (List.mem_cons.mp h).elim (fun e => e ▸ dp_all y) (dp_list ys x)
  theorem dp_entries : (es : List (Val × Val)) → ∀ kv ∈ es, DP kv.1 ∧ DP kv.2
    | [] => fun x h => nomatch h
    | (k, v) :: ys => fun x h =>
      (List.mem_cons.mp h).elim (fun e => e ▸ ⟨dp_all k, dp_all v⟩) (dp_entries ys x)
end

/-- **the encoder enforces the limit**: a container that encodes at depth `d` fits under it -/
theorem enc_depth_bound {d : Nat} {v : Val} {e : Bytes} (h : enc d v = .ok e) (hp : 0 < depth v) :
    d + depth v ≤ maxNesting := (dp_all v).1 d e h hp

/-- **the bytes do not depend on the depth** the value is encoded at (while it fits) -/
theorem enc_depth_irrelevant {d d' : Nat} {v : Val} {e : Bytes} (h : enc d v = .ok e)
    (hfit : 0 < depth v → d' + depth v ≤ maxNesting) : enc d' v = .ok e := (dp_all v).2 d d' e h hfit

theorem enc_mono {d d' : Nat} {v : Val} {e : Bytes} (h : enc d v = .ok e) (hle : d' ≤ d) :
    enc d' v = .ok e :=
  enc_depth_irrelevant h (fun hp => by have := enc_depth_bound h hp; omega)

theorem encode_depth_le {v : Val} {e : Bytes} (h : encode v = .ok e) : depth v ≤ maxNesting := by
  by_cases hp : 0 < depth v
  · have := enc_depth_bound (d := 0) h hp; omega
  · omega

/-! ### the exact boundary -/

theorem head_4_1 : head 4 1 = [0x81] := by decide

theorem depth_nestArr (n : Nat) : depth (nestArr n .null) = n := by
  induction n with
  | zero => rfl
  | succ n ih => simp only [nestArr, depth, depthList, ih]; omega

theorem enc_array_single (d : Nat) (x : Val) :
    enc d (.array [x]) =
      if maxNesting ≤ d then .error .nestingLimit
      else match enc (d + 1) x with
        | .error e => .error e
        | .ok a => .ok (0x81 :: a) := by
  simp only [enc, encList, List.length_singleton, head_4_1]
  cases enc (d + 1) x <;> simp

theorem enc_nestArr_ok : ∀ (n d : Nat), d + n ≤ maxNesting →
    enc d (nestArr n .null) = .ok (List.replicate n 0x81 ++ [0xf6]) := by
  intro n
  induction n with
  | zero => intro d _; simp [nestArr, enc, encNull]
  | succ n ih =>
    intro d h
    simp only [nestArr]
    rw [enc_array_single, if_neg (by omega), ih (d + 1) (by omega)]
    simp [List.replicate_succ]

theorem enc_nestArr_err : ∀ (n d : Nat), maxNesting < d + (n + 1) →
    enc d (nestArr (n + 1) .null) = .error .nestingLimit := by
  intro n
  induction n with
  | zero =>
    intro d h
    simp only [nestArr]
    rw [enc_array_single, if_pos (by omega)]
  | succ n ih =>
    intro d h
    rw [nestArr, enc_array_single]
    by_cases hd : maxNesting ≤ d
    · rw [if_pos hd]
    · rw [if_neg hd, ih (d + 1) (by omega)]

/-! ### … and the same boundary in the decoder -/

theorem dec_array_single (f d : Nat) (rest : Bytes) :
    dec (f + 1) d (0x81 :: rest) =
      if maxNesting ≤ d then .error .nestingLimit
      else match dec f (d + 1) rest with
        | .error e => .error e
        | .ok (v, r) => .ok (.array [v], r) := by
  have h1 : (0x81 : UInt8).toNat / 32 = 4 := by decide
  have h2 : (0x81 : UInt8).toNat % 32 = 1 := by decide
  have h3 : readLen 1 rest = .ok (1, rest) := by simp [readLen, decKind]
  rw [dec]
  simp only [h1, h2, h3]
  simp only [itemsWith]
  by_cases hd : maxNesting ≤ d
  · simp [hd]
  · simp only [hd, if_false]
    cases dec f (d + 1) rest with
    | error e => simp
    | ok p => obtain ⟨v, r⟩ := p; simp

theorem dec_nest_err : ∀ (n d f : Nat), maxNesting < d + (n + 1) → n + 1 ≤ f →
    dec f d (List.replicate (n + 1) 0x81 ++ [0xf6]) = .error .nestingLimit := by
  intro n
  induction n with
  | zero =>
    intro d f h hf
    obtain ⟨f', rfl⟩ : ∃ f', f = f' + 1 := ⟨f - 1, by omega⟩
    show dec (f' + 1) d (0x81 :: [0xf6]) = _
    rw [dec_array_single, if_pos (by omega)]
  | succ n ih =>
    intro d f h hf
    obtain ⟨f', rfl⟩ : ∃ f', f = f' + 1 := ⟨f - 1, by omega⟩
    show dec (f' + 1) d (0x81 :: (List.replicate (n + 1) 0x81 ++ [0xf6])) = _
    rw [dec_array_single]
    by_cases hd : maxNesting ≤ d
    · rw [if_pos hd]
    · rw [if_neg hd, ih (d + 1) f' (by omega) (by omega)]

theorem decode_nest_err (n : Nat) (h : maxNesting < n) :
    decode (List.replicate n 0x81 ++ [0xf6]) = .error .nestingLimit := by
  obtain ⟨m, rfl⟩ : ∃ m, n = m + 1 := ⟨n - 1, by omega⟩
  unfold decode
  rw [dec_nest_err m 0 _ (by omega) (by simp)]

end EchoVerif.Cbor
