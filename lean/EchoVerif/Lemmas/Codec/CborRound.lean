/-
  decode ∘ encode = normalise for the ABI CBOR codec, by structural induction on the value.
-/
import EchoVerif.Lemmas.Codec.CborCanon
import EchoVerif.Lemmas.Codec.CborDepth
import EchoVerif.Lemmas.Codec.CborFloatRt

namespace EchoVerif.Cbor
open EchoVerif EchoVerif.Generated.CborHead

set_option linter.unusedSimpArgs false
set_option linter.unusedVariables false

/-! ### unfolding `dec` at a known major type -/

theorem dec_m0 {f dp : Nat} {b0 : UInt8} {tl r : Bytes} {n : Nat} (h : b0.toNat / 32 = 0)
    (hr : readLen (b0.toNat % 32) tl = .ok (n, r)) :
    dec (f + 1) dp (b0 :: tl) = .ok (.int (Int.ofNat n), r) := by
  rw [dec, if_pos h, hr]

theorem dec_m1 {f dp : Nat} {b0 : UInt8} {tl r : Bytes} {n : Nat} (h : b0.toNat / 32 = 1)
    (hr : readLen (b0.toNat % 32) tl = .ok (n, r)) (hn : n < 2 ^ 63) :
    dec (f + 1) dp (b0 :: tl) = .ok (.int (-(1 + Int.ofNat n)), r) := by
  rw [dec, if_neg (by omega), if_pos h, hr]
  simp only
  rw [if_neg (by omega)]

theorem dec_m2 {f dp : Nat} {b0 : UInt8} {tl r data r' : Bytes} {n : Nat} (h : b0.toNat / 32 = 2)
    (hr : readLen (b0.toNat % 32) tl = .ok (n, r)) (ht : takeN n r = .ok (data, r')) :
    dec (f + 1) dp (b0 :: tl) = .ok (.bytes data, r') := by
  rw [dec, if_neg (by omega), if_neg (by omega), if_pos h, hr]
  simp only
  rw [ht]

theorem dec_m3 {f dp : Nat} {b0 : UInt8} {tl r data r' : Bytes} {n : Nat} (h : b0.toNat / 32 = 3)
    (hr : readLen (b0.toNat % 32) tl = .ok (n, r)) (ht : takeN n r = .ok (data, r'))
    (hu : utf8Valid data = true) :
    dec (f + 1) dp (b0 :: tl) = .ok (.text data, r') := by
  rw [dec, if_neg (by omega), if_neg (by omega), if_neg (by omega), if_pos h, hr]
  simp only
  rw [ht]
  simp only
  rw [if_pos hu]

theorem dec_m4 {f dp : Nat} {b0 : UInt8} {tl r r' : Bytes} {n : Nat} {xs : List Val} (h : b0.toNat / 32 = 4)
    (hr : readLen (b0.toNat % 32) tl = .ok (n, r)) (hdp : ¬ maxNesting ≤ dp)
    (hi : itemsWith (dec f (dp + 1)) n r = .ok (xs, r')) :
    dec (f + 1) dp (b0 :: tl) = .ok (.array xs, r') := by
  rw [dec, if_neg (by omega), if_neg (by omega), if_neg (by omega), if_neg (by omega), if_pos h, hr]
  simp only
  rw [if_neg hdp, hi]

theorem dec_m5 {f dp : Nat} {b0 : UInt8} {tl r r' : Bytes} {n : Nat} {es : List (Val × Val)}
    (h : b0.toNat / 32 = 5)
    (hr : readLen (b0.toNat % 32) tl = .ok (n, r)) (hdp : ¬ maxNesting ≤ dp)
    (hi : entriesWith (dec f (dp + 1)) n none r = .ok (es, r')) :
    dec (f + 1) dp (b0 :: tl) = .ok (.map es, r') := by
  rw [dec, if_neg (by omega), if_neg (by omega), if_neg (by omega), if_neg (by omega),
    if_neg (by omega), if_pos h, hr]
  simp only
  rw [if_neg hdp, hi]

/-- a one-byte major-7 item -/
theorem dec_m7 (f dp : Nat) (b0 : UInt8) (tl : Bytes) (h : b0.toNat / 32 = 7) :
    dec (f + 1) dp (b0 :: tl) =
      (if b0.toNat % 32 = decFalse then .ok (.bool false, tl)
       else if b0.toNat % 32 = decTrue then .ok (.bool true, tl)
       else if b0.toNat % 32 = decNull then .ok (.null, tl)
       else if b0.toNat % 32 = decF16 ∨ b0.toNat % 32 = decF32 ∨ b0.toNat % 32 = decF64 then
         decFloat (b0.toNat % 32) tl
       else if b0.toNat % 32 = decSimpleIndefinite then .error .indefinite
       else .error .decode) := by
  have h6 : ¬ (b0.toNat / 32 = decTagMajor) := by simp [decTagMajor]; omega
  rw [dec, if_neg (by omega), if_neg (by omega), if_neg (by omega), if_neg (by omega),
    if_neg (by omega), if_neg (by omega), if_neg h6]

/-- reading back a head written by `write_major` -/
theorem head_read (M n : Nat) (hM : M < 8) (hn : n < 2 ^ 64) (tl : Bytes) :
    ∃ b0 w, head M n ++ tl = b0 :: (w ++ tl) ∧ b0.toNat / 32 = M ∧
      readLen (b0.toNat % 32) (w ++ tl) = .ok (n, tl) := by
  obtain ⟨t, ht, h1, h2, h3⟩ := head_first M n hM
  refine ⟨UInt8.ofNat (M * 32 + (encInfo n).1), beBytes (encInfo n).2 n, ?_, h1, ?_⟩
  · simp [head]
  · rw [h2]; exact head_roundtrip n hn tl

/-! ### scalars -/

theorem dec_int_rt (i : Int) (h1 : -(2 ^ 63 : Int) ≤ i) (h2 : i < 2 ^ 64) (f dp : Nat) (rest : Bytes) :
    dec (f + 1) dp (encInt i ++ rest) = .ok (.int i, rest) := by
  unfold encInt
  by_cases h0 : 0 ≤ i
  · rw [if_pos h0]
    have hn : i.toNat < 2 ^ 64 := by omega
    obtain ⟨b0, w, hh, hm, hr⟩ := head_read 0 i.toNat (by omega) hn rest
    rw [hh, dec_m0 hm hr]
    simp only [Int.ofNat_eq_natCast]
    have : ((i.toNat : Nat) : Int) = i := by omega
    rw [this]
  · rw [if_neg h0]
    have hn : (-1 - i).toNat < 2 ^ 64 := by omega
    obtain ⟨b0, w, hh, hm, hr⟩ := head_read 1 (-1 - i).toNat (by omega) hn rest
    rw [hh, dec_m1 hm hr (by omega)]
    simp only [Int.ofNat_eq_natCast]
    have : -(1 + (((-1 - i).toNat : Nat) : Int)) = i := by omega
    rw [this]

theorem floatInt_range {b : Nat} {i : Int} (hb : b < 2 ^ 64) (h : floatInt? b = some i) :
    -(2 ^ 63 : Int) ≤ i ∧ i < 2 ^ 64 := by
  obtain ⟨hsplit, hs⟩ := f64_split b hb
  have hm : b % 2 ^ 52 < 2 ^ 52 := Nat.mod_lt _ (by omega)
  unfold floatInt? at h
  simp only at h
  generalize b / 2 ^ 63 = s at *
  generalize b / 2 ^ 52 % 2048 = E at *
  generalize b % 2 ^ 52 = m at *
  split at h
  · split at h
    · injection h with h; subst h; omega
    · cases h
  · split at h
    · cases h
    · split at h
      · cases h
      · rename_i hE0 hE1 hE2
        split at h
        · cases h
        · rename_i mag hmag
          have hmag64 : mag < 2 ^ 64 := by
            split at hmag
            · rename_i hge
              injection hmag with hmag; subst hmag
              have h11 : (2:Nat) ^ (E - 1075) ≤ 2 ^ 11 := Nat.pow_le_pow_right (by omega) (by omega)
              calc (2 ^ 52 + m) * 2 ^ (E - 1075) ≤ (2 ^ 52 + m) * 2 ^ 11 := Nat.mul_le_mul_left _ h11
                _ < 2 ^ 64 := by omega
            · split at hmag
              · injection hmag with hmag; subst hmag
                have : (2 ^ 52 + m) / 2 ^ (1075 - E) ≤ 2 ^ 52 + m := Nat.div_le_self _ _
                omega
              · cases hmag
          split at h
          · injection h with h; subst h
            simp only [Int.ofNat_eq_natCast]; omega
          · split at h
            · injection h with h; subst h
              simp only [Int.ofNat_eq_natCast]; omega
            · cases h

theorem dec_float_rt (b : Nat) (hb : b < 2 ^ 64) (f dp : Nat) (rest : Bytes) :
    dec (f + 1) dp (encFloat b ++ rest) = .ok (normFloat b, rest) := by
  have h7 : ∀ i, i < 32 → (UInt8.ofNat (224 + i)).toNat / 32 = 7 ∧ (UInt8.ofNat (224 + i)).toNat % 32 = i := by
    intro i hi; simp only [UInt8.toNat_ofNat']; omega
  unfold normFloat
  by_cases hn : isNan b = true
  · rw [encFloat_nan hn, if_pos hn]
    obtain ⟨g1, g2⟩ := h7 25 (by omega)
    show dec (f + 1) dp (UInt8.ofNat 249 :: (beBytes 2 canonNan16 ++ rest)) = _
    rw [dec_m7 _ _ _ _ g1, g2]
    have t := takeN_append (beBytes 2 canonNan16) rest
    rw [beBytes_length] at t
    have w1 : beVal (beBytes 2 canonNan16) = canonNan16 := by rw [beVal_beBytes]; decide
    have w2 : widen16 canonNan16 = canonNan64 := by decide
    have w3 : isNan canonNan64 = true := by decide
    have w4 : floatInt? canonNan64 = none := by decide
    simp [decFalse, decTrue, decNull, decF16, decF32, decF64, decFloat, t, w1, w2, w3, w4]
  · have hn' : isNan b = false := by simpa using hn
    rw [if_neg hn]
    by_cases hinf : isInf b = true
    · rw [encFloat_inf hn' hinf, if_pos hinf]
      have hw := widen16_narrow16 b _ hb (narrow16_inf hinf)
      obtain ⟨g1, g2⟩ := h7 25 (by omega)
      show dec (f + 1) dp (UInt8.ofNat 249 :: (beBytes 2 _ ++ rest)) = _
      rw [dec_m7 _ _ _ _ g1, g2]
      have t := takeN_append (beBytes 2 (b / 2 ^ 63 * 2 ^ 15 + 31 * 2 ^ 10)) rest
      rw [beBytes_length] at t
      have hv : beVal (beBytes 2 (b / 2 ^ 63 * 2 ^ 15 + 31 * 2 ^ 10)) = b / 2 ^ 63 * 2 ^ 15 + 31 * 2 ^ 10 := by
        rw [beVal_beBytes]; exact Nat.mod_eq_of_lt (by have := hw.2; omega)
      have hfi : floatInt? b = none := by
        unfold isInf at hinf; simp at hinf
        unfold floatInt?; simp [hinf.1]
      simp [decFalse, decTrue, decNull, decF16, decF32, decF64, decFloat, t, hv, hw.1, hn', hfi]
    · have hinf' : isInf b = false := by simpa using hinf
      rw [if_neg hinf]
      cases hfi : floatInt? b with
      | some i =>
        rw [encFloat_int hn' hinf' hfi]
        obtain ⟨r1, r2⟩ := floatInt_range hb hfi
        exact dec_int_rt i r1 r2 f dp rest
      | none =>
        simp only
        cases h16 : narrow16 b with
        | some h =>
          rw [encFloat_16 hn' hinf' hfi h16]
          have hw := widen16_narrow16 b h hb h16
          obtain ⟨g1, g2⟩ := h7 25 (by omega)
          show dec (f + 1) dp (UInt8.ofNat 249 :: (beBytes 2 h ++ rest)) = _
          rw [dec_m7 _ _ _ _ g1, g2]
          have t := takeN_append (beBytes 2 h) rest
          rw [beBytes_length] at t
          have hv : beVal (beBytes 2 h) = h := by
            rw [beVal_beBytes]; exact Nat.mod_eq_of_lt (by have := hw.2; omega)
          simp [decFalse, decTrue, decNull, decF16, decF32, decF64, decFloat, t, hv, hw.1, hn', hfi]
        | none =>
          cases h32 : narrow32 b with
          | some w =>
            rw [encFloat_32 hn' hinf' hfi h16 h32]
            have hw := widen32_narrow32 b w hb h32
            obtain ⟨g1, g2⟩ := h7 26 (by omega)
            show dec (f + 1) dp (UInt8.ofNat 250 :: (beBytes 4 w ++ rest)) = _
            rw [dec_m7 _ _ _ _ g1, g2]
            have t := takeN_append (beBytes 4 w) rest
            rw [beBytes_length] at t
            have hv : beVal (beBytes 4 w) = w := by
              rw [beVal_beBytes]; exact Nat.mod_eq_of_lt (by have := hw.2; omega)
            simp [decFalse, decTrue, decNull, decF16, decF32, decF64, decFloat, t, hv, hw.1, hn', hfi,
              fits16, h16]
          | none =>
            rw [encFloat_64 hn' hinf' hfi h16 h32]
            obtain ⟨g1, g2⟩ := h7 27 (by omega)
            show dec (f + 1) dp (UInt8.ofNat 251 :: (beBytes 8 b ++ rest)) = _
            rw [dec_m7 _ _ _ _ g1, g2]
            have t := takeN_append (beBytes 8 b) rest
            rw [beBytes_length] at t
            have hv : beVal (beBytes 8 b) = b := by
              rw [beVal_beBytes]; exact Nat.mod_eq_of_lt (by omega)
            simp [decFalse, decTrue, decNull, decF16, decF32, decF64, decFloat, t, hv, hn', hfi,
              fits16, fits32, h16, h32]


/-! ### sorting by encoded key -/

theorem bytesCmp_asymm {a b : Bytes} (h : bytesCmp a b = .lt) : bytesCmp b a ≠ .lt := by
  induction a generalizing b with
  | nil => cases b <;> simp [bytesCmp] at h ⊢
  | cons x xs ih =>
    cases b with
    | nil => simp [bytesCmp] at h
    | cons y ys =>
      simp only [bytesCmp] at h ⊢
      by_cases h1 : x < y
      · have : ¬ y < x := UInt8.lt_asymm h1
        simp [this, h1]
      · by_cases h2 : y < x
        · simp [h1, h2] at h
        · simp only [h1, h2, if_false] at h ⊢
          exact ih h

section sort
variable {γ δ : Type}

theorem insertEntry_map (g : γ → δ) (x : Bytes × γ) (l : List (Bytes × γ)) :
    insertEntry (x.1, g x.2) (l.map (fun y => (y.1, g y.2))) = (insertEntry x l).map (fun y => (y.1, g y.2)) := by
  induction l with
  | nil => rfl
  | cons y ys ih =>
    simp only [List.map_cons, insertEntry]
    split
    · rfl
    · simp only [List.map_cons, ih]

theorem sortEntries_map (g : γ → δ) (l : List (Bytes × γ)) :
    sortEntries (l.map (fun y => (y.1, g y.2))) = (sortEntries l).map (fun y => (y.1, g y.2)) := by
  induction l with
  | nil => rfl
  | cons x xs ih =>
    simp only [List.map_cons, sortEntries, ih]
    exact insertEntry_map g x (sortEntries xs)

theorem length_insertEntry (x : Bytes × γ) (l : List (Bytes × γ)) :
    (insertEntry x l).length = l.length + 1 := by
  induction l with
  | nil => rfl
  | cons z zs ih =>
    simp only [insertEntry]
    split <;> simp [ih]

theorem length_sortEntries (l : List (Bytes × γ)) : (sortEntries l).length = l.length := by
  induction l with
  | nil => rfl
  | cons x xs ih => simp [sortEntries, length_insertEntry, ih]

/-- non-decreasing by key (adjacent pairs) -/
def Chain : List (Bytes × γ) → Prop
  | a :: b :: rest => bytesCmp b.1 a.1 ≠ .lt ∧ Chain (b :: rest)
  | _ => True

theorem chain_insertEntry (x : Bytes × γ) (l : List (Bytes × γ)) (h : Chain l) :
    Chain (insertEntry x l) := by
  induction l with
  | nil => simp [insertEntry, Chain]
  | cons y ys ih =>
    simp only [insertEntry]
    split
    · rename_i hlt
      have hlt' : bytesCmp x.1 y.1 = .lt := by simpa using hlt
      exact ⟨bytesCmp_asymm hlt', h⟩
    · rename_i hnlt
      have hge : bytesCmp x.1 y.1 ≠ .lt := by simpa using hnlt
      cases ys with
      | nil => simp only [insertEntry, Chain]; exact ⟨hge, trivial⟩
      | cons z zs =>
        have hc : Chain (z :: zs) := h.2
        have ih' := ih hc
        simp only [insertEntry] at ih' ⊢
        split
        · rename_i h2
          simp only [h2, if_true] at ih'
          exact ⟨hge, ih'⟩
        · rename_i h2
          simp only [h2] at ih'
          exact ⟨h.1, ih'⟩

theorem chain_sortEntries (l : List (Bytes × γ)) : Chain (sortEntries l) := by
  induction l with
  | nil => simp [sortEntries, Chain]
  | cons x xs ih => exact chain_insertEntry x _ ih

/-- strictly ascending keys (generic payload) -/
def AscG : Option Bytes → List (Bytes × γ) → Prop
  | _, [] => True
  | last, x :: xs =>
    (match last with | none => True | some p => bytesCmp p x.1 = .lt) ∧ AscG (some x.1) xs

theorem ascG_of_chain (l : List (Bytes × γ)) (hc : Chain l) (hd : hasAdjDup l = false) :
    AscG none l := by
  cases l with
  | nil => trivial
  | cons a rest =>
    refine ⟨trivial, ?_⟩
    induction rest generalizing a with
    | nil => trivial
    | cons b rest ih =>
      simp only [hasAdjDup, Bool.or_eq_false_iff] at hd
      have hne : a.1 ≠ b.1 := by
        intro h; have := hd.1; simp [h] at this
      refine ⟨?_, ih b hc.2 hd.2⟩
      rcases bytesCmp_tri a.1 b.1 with h | h | h
      · exact h
      · exact absurd h hne
      · exact absurd h hc.1

theorem ascG_map (g : γ → δ) (last : Option Bytes) (l : List (Bytes × γ)) :
    AscG last (l.map (fun y => (y.1, g y.2))) ↔ AscG last l := by
  induction l generalizing last with
  | nil => simp [AscG]
  | cons x xs ih => simp only [List.map_cons, AscG, ih]

theorem hasAdjDup_map (g : γ → δ) (l : List (Bytes × γ)) :
    hasAdjDup (l.map (fun y => (y.1, g y.2))) = hasAdjDup l := by
  induction l with
  | nil => rfl
  | cons a rest ih =>
    cases rest with
    | nil => rfl
    | cons b rest => simp only [List.map_cons, hasAdjDup] at ih ⊢; rw [ih]

end sort


/-! ### the round trip -/

/-- what the induction proves for each value -/
def RT (v : Val) : Prop :=
  WF v → ∀ dp e, enc dp v = .ok e → ∀ f rest, e.length < f → dec f dp (e ++ rest) = .ok (norm v, rest)

theorem head_length_pos (M n : Nat) : 0 < (head M n).length := by simp [head]

theorem rt_null : RT .null := by
  intro _ dp e he f rest hf
  simp [enc] at he; subst he
  obtain ⟨f', rfl⟩ : ∃ f', f = f' + 1 := ⟨f - 1, by simp at hf; omega⟩
  have g1 : (UInt8.ofNat encNull).toNat / 32 = 7 := by decide
  show dec (f' + 1) dp (UInt8.ofNat encNull :: rest) = _
  rw [dec_m7 _ _ _ _ g1]
  simp [encNull, decFalse, decTrue, decNull, norm]

theorem rt_bool (b : Bool) : RT (.bool b) := by
  intro _ dp e he f rest hf
  simp [enc] at he; subst he
  obtain ⟨f', rfl⟩ : ∃ f', f = f' + 1 := ⟨f - 1, by simp at hf; omega⟩
  cases b
  · have g1 : (UInt8.ofNat encFalse).toNat / 32 = 7 := by decide
    show dec (f' + 1) dp (UInt8.ofNat encFalse :: rest) = _
    rw [dec_m7 _ _ _ _ g1]
    simp [encFalse, decFalse, decTrue, decNull, norm]
  · have g1 : (UInt8.ofNat encTrue).toNat / 32 = 7 := by decide
    show dec (f' + 1) dp (UInt8.ofNat encTrue :: rest) = _
    rw [dec_m7 _ _ _ _ g1]
    simp [encTrue, decFalse, decTrue, decNull, norm]

theorem rt_int (n : Int) : RT (.int n) := by
  intro hwf dp e he f rest hf
  simp only [WF] at hwf
  simp only [enc] at he
  split at he
  · cases he
  · rename_i hge
    injection he with he; subst he
    obtain ⟨f', rfl⟩ : ∃ f', f = f' + 1 := ⟨f - 1, by omega⟩
    rw [dec_int_rt n (by omega) hwf.2 f' dp rest]
    simp [norm]

theorem rt_float (b : Nat) : RT (.float b) := by
  intro hwf dp e he f rest hf
  simp only [WF] at hwf
  simp only [enc] at he
  injection he with he; subst he
  obtain ⟨f', rfl⟩ : ∃ f', f = f' + 1 := ⟨f - 1, by omega⟩
  rw [dec_float_rt b hwf f' dp rest]
  simp [norm]

theorem rt_bytes (b : Bytes) : RT (.bytes b) := by
  intro hwf dp e he f rest hf
  simp only [WF] at hwf
  simp only [enc] at he
  injection he with he; subst he
  obtain ⟨f', rfl⟩ : ∃ f', f = f' + 1 := ⟨f - 1, by omega⟩
  obtain ⟨b0, w, hh, hm, hr⟩ := head_read 2 b.length (by omega) hwf (b ++ rest)
  rw [List.append_assoc, hh, dec_m2 hm hr (takeN_append b rest)]
  simp [norm]

theorem rt_text (t : Bytes) : RT (.text t) := by
  intro hwf dp e he f rest hf
  simp only [WF] at hwf
  simp only [enc] at he
  injection he with he; subst he
  obtain ⟨f', rfl⟩ : ∃ f', f = f' + 1 := ⟨f - 1, by omega⟩
  obtain ⟨b0, w, hh, hm, hr⟩ := head_read 3 t.length (by omega) hwf.2 (t ++ rest)
  rw [List.append_assoc, hh, dec_m3 hm hr (takeN_append t rest) hwf.1]
  simp [norm]

theorem rt_tag (t : Nat) (v : Val) : RT (.tag t v) := by
  intro _ dp e he
  simp [enc] at he

theorem items_rt (f dp : Nat) : ∀ (xs : List Val), (∀ x ∈ xs, RT x) → WFList xs →
    ∀ body, encList dp xs = .ok body → body.length < f →
    ∀ rest, itemsWith (dec f dp) xs.length (body ++ rest) = .ok (normList xs, rest) := by
  intro xs
  induction xs with
  | nil =>
    intro _ _ body hb _ rest
    simp [encList] at hb; subst hb
    simp [itemsWith, normList]
  | cons x xs ih =>
    intro hrt hwf body hb hf rest
    simp only [encList] at hb
    split at hb
    · cases hb
    · rename_i a ha
      split at hb
      · cases hb
      · rename_i b hbb
        injection hb with hb; subst hb
        simp only [WFList] at hwf
        have h1 := hrt x (by simp) hwf.1 dp a ha f (b ++ rest) (by simp at hf; omega)
        have h2 := ih (fun y hy => hrt y (by simp [hy])) hwf.2 b hbb (by simp at hf; omega) rest
        simp only [List.length_cons, itemsWith, List.append_assoc, h1, h2, normList]

theorem rt_array (xs : List Val) (h : ∀ x ∈ xs, RT x) : RT (.array xs) := by
  intro hwf dp e he f rest hf
  simp only [WF] at hwf
  simp only [enc] at he
  split at he
  · cases he
  · rename_i hdp
    split at he
    · cases he
    · rename_i body hb
      injection he with he; subst he
      obtain ⟨f', rfl⟩ : ∃ f', f = f' + 1 := ⟨f - 1, by omega⟩
      have hp := head_length_pos 4 xs.length
      have hi := items_rt f' (dp + 1) xs h hwf.2 body hb (by simp at hf; omega) rest
      obtain ⟨b0, w, hh, hm, hr⟩ := head_read 4 xs.length (by omega) hwf.1 (body ++ rest)
      rw [List.append_assoc, hh, dec_m4 hm hr hdp hi]
      simp [norm]

/-- the entries of a map, keyed by the encoding of their key -/
def keyed (es : List (Val × Val)) : List (Bytes × (Val × Val)) := es.map (fun kv => (keyBytes kv.1, kv))

theorem encEntries_keyed (dp : Nat) : ∀ (es : List (Val × Val)) ents, encEntries dp es = .ok ents →
    ents = (keyed es).map (fun x => (x.1, enc dp x.2.2)) ∧ ∀ kv ∈ es, enc dp kv.1 = .ok (keyBytes kv.1) := by
  intro es
  induction es with
  | nil => intro ents h; simp [encEntries] at h; subst h; simp [keyed]
  | cons kv rest ih =>
    intro ents h
    simp only [encEntries] at h
    split at h
    · cases h
    · rename_i kb hkb
      split at h
      · cases h
      · rename_i r hr
        injection h with h; subst h
        obtain ⟨e1, e2⟩ := ih r hr
        have hk : keyBytes kv.1 = kb := by simp [keyBytes, enc_mono hkb (Nat.zero_le dp)]
        constructor
        · simp only [keyed, List.map_cons, hk] at e1 ⊢
          rw [e1]
        · intro kv' hkv'
          simp only [List.mem_cons] at hkv'
          rcases hkv' with rfl | h'
          · rw [hk]; exact hkb
          · exact e2 kv' h'

theorem normEntries_keyed : ∀ (es : List (Val × Val)),
    normEntries es = (keyed es).map (fun x => (x.1, (norm x.2.1, norm x.2.2))) := by
  intro es
  induction es with
  | nil => simp [normEntries, keyed]
  | cons kv rest ih => simp only [normEntries, keyed, List.map_cons] at ih ⊢; rw [ih]

theorem wfEntries_mem : ∀ (es : List (Val × Val)), WFEntries es → ∀ kv ∈ es, WF kv.1 ∧ WF kv.2 := by
  intro es
  induction es with
  | nil => intro _ kv h; cases h
  | cons x rest ih =>
    intro h kv hkv
    simp only [WFEntries] at h
    simp only [List.mem_cons] at hkv
    rcases hkv with rfl | h'
    · exact ⟨h.1, h.2.1⟩
    · exact ih h.2.2 kv h'

theorem entries_rt (f dp : Nat) : ∀ (S : List (Bytes × (Val × Val))) (last : Option Bytes),
    (∀ x ∈ S, enc dp x.2.1 = .ok x.1 ∧ RT x.2.1 ∧ RT x.2.2 ∧ WF x.2.1 ∧ WF x.2.2) →
    AscG last S →
    ∀ body, encBody (S.map (fun x => (x.1, enc dp x.2.2))) = .ok body → body.length < f →
    ∀ rest, entriesWith (dec f dp) S.length last (body ++ rest)
      = .ok (S.map (fun x => (norm x.2.1, norm x.2.2)), rest) := by
  intro S
  induction S with
  | nil =>
    intro last _ _ body hb _ rest
    simp [encBody] at hb; subst hb
    simp [entriesWith]
  | cons x S ih =>
    intro last hall hasc body hb hf rest
    simp only [List.map_cons, encBody] at hb
    split at hb
    · cases hb
    · rename_i vb hvb
      split at hb
      · cases hb
      · rename_i tl htl
        injection hb with hb; subst hb
        obtain ⟨hk, hrk, hrv, hwk, hwv⟩ := hall x (by simp)
        have hlen : x.1.length + vb.length + tl.length < f := by simpa [Nat.add_assoc] using hf
        have h1 := hrk hwk dp x.1 hk f (vb ++ (tl ++ rest)) (by omega)
        have h2 := hrv hwv dp vb hvb f (tl ++ rest) (by omega)
        have h3 := ih (some x.1) (fun y hy => hall y (by simp [hy])) hasc.2 tl htl (by omega) rest
        have hkb : (x.1 ++ (vb ++ (tl ++ rest))).take
            ((x.1 ++ (vb ++ (tl ++ rest))).length - (vb ++ (tl ++ rest)).length) = x.1 := by simp
        simp only [List.length_cons, entriesWith, List.append_assoc, h1, hkb, h2, h3, List.map_cons]
        cases last with
        | none => rfl
        | some prev =>
          have hlt : bytesCmp prev x.1 = .lt := hasc.1
          have hne : (x.1 == prev) = false := by
            apply Bool.eq_false_iff.mpr
            intro he
            have : x.1 = prev := by simpa using he
            rw [this, bytesCmp_refl] at hlt; cases hlt
          have hnl : (bytesCmp x.1 prev == .lt) = false := by
            apply Bool.eq_false_iff.mpr
            intro he
            exact bytesCmp_asymm hlt (by simpa using he)
          simp [hne, hnl]

theorem rt_map (es : List (Val × Val)) (h : ∀ kv ∈ es, RT kv.1 ∧ RT kv.2) : RT (.map es) := by
  intro hwf dp e he f rest hf
  simp only [WF] at hwf
  simp only [enc] at he
  split at he
  · cases he
  · rename_i hdp
    split at he
    · cases he
    · rename_i ents hents
      split at he
      · cases he
      · rename_i hdup
        split at he
        · cases he
        · rename_i body hbody
          injection he with he; subst he
          obtain ⟨f', rfl⟩ : ∃ f', f = f' + 1 := ⟨f - 1, by omega⟩
          obtain ⟨hents', hkeys⟩ := encEntries_keyed (dp + 1) es ents hents
          have hsort : sortEntries ents = (sortEntries (keyed es)).map (fun x => (x.1, enc (dp + 1) x.2.2)) := by
            rw [hents']; exact sortEntries_map (fun kv => enc (dp + 1) kv.2) (keyed es)
          rw [hsort] at hbody hdup hf ⊢
          have hdup' : hasAdjDup (sortEntries (keyed es)) = false := by
            rw [hasAdjDup_map (fun kv : Val × Val => enc (dp + 1) kv.2)] at hdup; simpa using hdup
          have hasc := ascG_of_chain _ (chain_sortEntries (keyed es)) hdup'
          have hall : ∀ x ∈ sortEntries (keyed es),
              enc (dp + 1) x.2.1 = .ok x.1 ∧ RT x.2.1 ∧ RT x.2.2 ∧ WF x.2.1 ∧ WF x.2.2 := by
            intro x hx
            rw [mem_sortEntries] at hx
            simp only [keyed, List.mem_map] at hx
            obtain ⟨kv, hkv, rfl⟩ := hx
            have hw := wfEntries_mem es hwf.2 kv hkv
            exact ⟨hkeys kv hkv, (h kv hkv).1, (h kv hkv).2, hw.1, hw.2⟩
          have hp := head_length_pos 5 ((sortEntries (keyed es)).map (fun x => (x.1, enc (dp + 1) x.2.2))).length
          have hbl : body.length < f' := by
            simp only [List.length_append] at hf; omega
          have hi := entries_rt f' (dp + 1) _ none hall hasc body hbody hbl rest
          have hlen : ((sortEntries (keyed es)).map (fun x => (x.1, enc (dp + 1) x.2.2))).length
              = (sortEntries (keyed es)).length := by simp
          have hlen2 : (sortEntries (keyed es)).length = es.length := by
            rw [length_sortEntries]; simp [keyed]
          rw [hlen] at hf ⊢
          obtain ⟨b0, w, hh, hm, hr⟩ := head_read 5 (sortEntries (keyed es)).length (by omega)
            (by rw [hlen2]; exact hwf.1) (body ++ rest)
          rw [List.append_assoc, hh, dec_m5 hm hr hdp hi]
          simp only [norm, normEntries_keyed]
          rw [sortEntries_map (fun kv => (norm kv.1, norm kv.2)) (keyed es), List.map_map]
          rfl

mutual
  theorem rt_all : (v : Val) → RT v
    | .null => rt_null
    | .bool b => rt_bool b
    | .int n => rt_int n
    | .float b => rt_float b
    | .text t => rt_text t
    | .bytes b => rt_bytes b
    | .array xs => rt_array xs (rt_list xs)
    | .map es => rt_map es (rt_entries es)
    | .tag t v => rt_tag t v
  theorem rt_list : (xs : List Val) → ∀ x ∈ xs, RT x
    | [] => fun x h => nomatch h
    | y :: ys => fun x h =>
      (List.mem_cons.mp h).elim (fun e => e ▸ rt_all y) (rt_list ys x)
  theorem rt_entries : (es : List (Val × Val)) → ∀ kv ∈ es, RT kv.1 ∧ RT kv.2
    | [] => fun x h => nomatch h
    | (k, v) :: ys => fun x h =>
      (List.mem_cons.mp h).elim (fun e => e ▸ ⟨rt_all k, rt_all v⟩) (rt_entries ys x)
end

end EchoVerif.Cbor
