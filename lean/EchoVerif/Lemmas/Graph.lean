/-
  Helper lemmas about the graph model: per-location effect of skeleton ops, "last effect wins"
  over an op list, preservation of sortedness. Used by C04 (and C01).
-/
import EchoVerif.Model.Diff

set_option linter.unusedSimpArgs false
set_option linter.unusedSectionVars false

namespace EchoVerif
namespace Graph
open SMap

/-! ### observation functions (locations) -/

def nodeAt (s : WState) (w i : Nat) : Option Nat :=
  match s.store? w with | none => none | some st => find? i st.nodes
def edgeAt (s : WState) (w i : Nat) : Option EdgeRec :=
  match s.store? w with | none => none | some st => find? i st.edges
def nattAt (s : WState) (w i : Nat) : Option Att :=
  match s.store? w with | none => none | some st => find? i st.nodeAtt
def eattAt (s : WState) (w i : Nat) : Option Att :=
  match s.store? w with | none => none | some st => find? i st.edgeAtt

/-- Node, edge and attachment ops (no instance-level op). -/
def Op.isSkel : Op → Bool
  | .upsertNode .. | .deleteNode .. | .upsertEdge .. | .deleteEdge .. | .setAtt .. => true
  | _ => false

def Op.warp : Op → Nat
  | .openPortal key _ _ _ => ownerWarp key.owner
  | .upsertInstance inst => inst.warp
  | .deleteInstance w => w
  | .upsertNode w _ _ => w
  | .deleteNode w _ => w
  | .upsertEdge w _ _ _ _ => w
  | .deleteEdge w _ _ => w
  | .setAtt key _ => ownerWarp key.owner

/-- Successful store-level step of a skeleton op. -/
def storeStep (st : Store) : Op → Option Store
  | .upsertNode _ i ty => some { st with nodes := SMap.insert i ty st.nodes }
  | .deleteNode _ i =>
    match st.deleteNodeIsolated i with
    | .ok st' => some st'
    | .error _ => none
  | .upsertEdge _ id src dst ty => some (st.upsertEdge id { src, dst, ty })
  | .deleteEdge _ src id => st.deleteEdgeExact src id
  | .setAtt key v =>
    if !key.planeValid then none else
    match key.owner with
    | .node _ i => match find? i st.nodes with
      | none => none
      | some _ => some { st with nodeAtt := setOpt i v st.nodeAtt }
    | .edge _ i => match find? i st.edges with
      | none => none
      | some _ => some { st with edgeAtt := setOpt i v st.edgeAtt }
  | _ => none

/-- A successful skeleton op is a store-level step on the op's warp. -/
theorem applyOp_skel {s s' : WState} {o : Op} (hsk : o.isSkel = true) (h : applyOp s o = .ok s') :
    ∃ st st', s.store? o.warp = some st ∧ storeStep st o = some st' ∧ s' = s.putStore o.warp st' := by
  cases o with
  | openPortal => cases hsk
  | upsertInstance => cases hsk
  | deleteInstance => cases hsk
  | upsertNode w i ty =>
    simp only [applyOp] at h
    cases hst : s.store? w with
    | none => rw [hst] at h; cases h
    | some st =>
      rw [hst] at h; cases h
      exact ⟨st, _, hst, rfl, rfl⟩
  | deleteNode w i =>
    simp only [applyOp] at h
    cases hst : s.store? w with
    | none => rw [hst] at h; cases h
    | some st =>
      rw [hst] at h
      simp only at h
      cases hd : st.deleteNodeIsolated i with
      | error e => rw [hd] at h; cases h
      | ok st' =>
        rw [hd] at h; cases h
        exact ⟨st, st', hst, by simp [storeStep, hd], rfl⟩
  | upsertEdge w id src dst ty =>
    simp only [applyOp] at h
    cases hst : s.store? w with
    | none => rw [hst] at h; cases h
    | some st =>
      rw [hst] at h; cases h
      exact ⟨st, _, hst, rfl, rfl⟩
  | deleteEdge w src id =>
    simp only [applyOp] at h
    cases hst : s.store? w with
    | none => rw [hst] at h; cases h
    | some st =>
      rw [hst] at h
      simp only at h
      cases hd : st.deleteEdgeExact src id with
      | none => rw [hd] at h; cases h
      | some st' =>
        rw [hd] at h; cases h
        exact ⟨st, st', hst, by simp [storeStep, hd], rfl⟩
  | setAtt key v =>
    simp only [applyOp, applySetAtt] at h
    cases hp : key.planeValid with
    | false => simp [hp] at h
    | true =>
      simp only [hp, Bool.not_true, Bool.false_eq_true, if_false] at h
      obtain ⟨owner, plane⟩ := key
      cases owner with
      | node w i =>
        simp only at h
        cases hst : s.store? w with
        | none => rw [hst] at h; cases h
        | some st =>
          rw [hst] at h
          simp only at h
          cases hn : find? i st.nodes with
          | none => rw [hn] at h; cases h
          | some ty =>
            rw [hn] at h; cases h
            refine ⟨st, _, hst, ?_, rfl⟩
            simp [storeStep, hp, hn]
      | edge w i =>
        simp only at h
        cases hst : s.store? w with
        | none => rw [hst] at h; cases h
        | some st =>
          rw [hst] at h
          simp only at h
          cases hn : find? i st.edges with
          | none => rw [hn] at h; cases h
          | some e =>
            rw [hn] at h; cases h
            refine ⟨st, _, hst, ?_, rfl⟩
            simp [storeStep, hp, hn]

/-! ### per-location effects (`none` = the op does not touch the location) -/

def effNode (w i : Nat) : Op → Option (Option Nat)
  | .upsertNode w' i' ty => if w' = w ∧ i' = i then some (some ty) else none
  | .deleteNode w' i' => if w' = w ∧ i' = i then some none else none
  | _ => none

def effEdge (w i : Nat) : Op → Option (Option EdgeRec)
  | .upsertEdge w' id src dst ty => if w' = w ∧ id = i then some (some { src, dst, ty }) else none
  | .deleteEdge w' _ id => if w' = w ∧ id = i then some none else none
  | _ => none

def effNatt (w i : Nat) : Op → Option (Option Att)
  | .deleteNode w' i' => if w' = w ∧ i' = i then some none else none
  | .setAtt key v => match key.owner with
    | .node w' i' => if w' = w ∧ i' = i then some v else none
    | .edge _ _ => none
  | _ => none

def effEatt (w i : Nat) : Op → Option (Option Att)
  | .deleteEdge w' _ id => if w' = w ∧ id = i then some none else none
  | .setAtt key v => match key.owner with
    | .edge w' i' => if w' = w ∧ i' = i then some v else none
    | .node _ _ => none
  | _ => none

def orKeep {V : Type} (e : Option V) (x : V) : V := match e with | some v => v | none => x

theorem find?_setOpt {ν : Type} (k k0 : Nat) (v : Option ν) {m : SMap Nat ν} (hs : Sorted m) :
    find? k0 (setOpt k v m) = if k0 = k then v else find? k0 m := by
  cases v with
  | none => simp only [setOpt]; exact find?_erase k k0 hs
  | some x => simp only [setOpt]; exact find?_insert k k0 x m

theorem sorted_setOpt {ν : Type} (k : Nat) (v : Option ν) {m : SMap Nat ν} (hs : Sorted m) :
    Sorted (setOpt k v m) := by
  cases v with
  | none => exact sorted_erase k hs
  | some x => exact sorted_insert k x hs

theorem deleteNode_step {st st' : Store} {w i : Nat} (h : storeStep st (.deleteNode w i) = some st') :
    st' = { st with nodes := SMap.erase i st.nodes, nodeAtt := SMap.erase i st.nodeAtt } := by
  simp only [storeStep] at h
  cases hd : st.deleteNodeIsolated i with
  | error e => rw [hd] at h; cases h
  | ok st2 =>
    rw [hd] at h; cases h
    simp only [Store.deleteNodeIsolated] at hd
    split at hd
    · cases hd
    · split at hd
      · cases hd
      · cases hd; rfl

/-- All four maps of a store are strictly sorted. -/
def Store.Sorted4 (st : Store) : Prop :=
  Sorted st.nodes ∧ Sorted st.edges ∧ Sorted st.nodeAtt ∧ Sorted st.edgeAtt

theorem storeStep_sorted {st st' : Store} {o : Op} (hs : st.Sorted4) (h : storeStep st o = some st') :
    st'.Sorted4 := by
  obtain ⟨h1, h2, h3, h4⟩ := hs
  cases o with
  | openPortal => cases h
  | upsertInstance => cases h
  | deleteInstance => cases h
  | upsertNode w i ty => cases h; exact ⟨sorted_insert _ _ h1, h2, h3, h4⟩
  | deleteNode w i =>
    rw [deleteNode_step h]; exact ⟨sorted_erase _ h1, h2, sorted_erase _ h3, h4⟩
  | upsertEdge w id src dst ty => cases h; exact ⟨h1, sorted_insert _ _ h2, h3, h4⟩
  | deleteEdge w src id =>
    simp only [storeStep, Store.deleteEdgeExact] at h
    split at h
    · cases h
    · split at h
      · cases h; exact ⟨h1, sorted_erase _ h2, h3, sorted_erase _ h4⟩
      · cases h
  | setAtt key v =>
    simp only [storeStep] at h
    split at h
    · cases h
    · split at h
      · split at h
        · cases h
        · cases h; exact ⟨h1, h2, sorted_setOpt _ _ h3, h4⟩
      · split at h
        · cases h
        · cases h; exact ⟨h1, h2, h3, sorted_setOpt _ _ h4⟩

/-- Store-level effect laws: each observation after a successful step is the op's effect on that
    location, or unchanged. -/
theorem storeStep_nodes {st st' : Store} {o : Op} (hs : st.Sorted4) (h : storeStep st o = some st')
    (i : Nat) : find? i st'.nodes = orKeep (effNode o.warp i o) (find? i st.nodes) := by
  obtain ⟨h1, h2, h3, h4⟩ := hs
  cases o with
  | openPortal => cases h
  | upsertInstance => cases h
  | deleteInstance => cases h
  | upsertNode w i' ty =>
    cases h
    simp only [effNode, Op.warp, true_and, find?_insert]
    by_cases hi : i = i'
    · subst hi; simp [orKeep]
    · simp [orKeep, hi, Ne.symm hi]
  | deleteNode w i' =>
    rw [deleteNode_step h]
    simp only [effNode, Op.warp, true_and, find?_erase _ _ h1]
    by_cases hi : i = i'
    · subst hi; simp [orKeep]
    · simp [orKeep, hi, Ne.symm hi]
  | upsertEdge w id src dst ty => cases h; simp [effNode, orKeep, Store.upsertEdge]
  | deleteEdge w src id =>
    simp only [storeStep, Store.deleteEdgeExact] at h
    split at h
    · cases h
    · split at h
      · cases h; simp [effNode, orKeep]
      · cases h
  | setAtt key v =>
    simp only [storeStep] at h
    split at h
    · cases h
    · split at h
      · split at h
        · cases h
        · cases h; simp [effNode, orKeep]
      · split at h
        · cases h
        · cases h; simp [effNode, orKeep]

theorem storeStep_edges {st st' : Store} {o : Op} (hs : st.Sorted4) (h : storeStep st o = some st')
    (i : Nat) : find? i st'.edges = orKeep (effEdge o.warp i o) (find? i st.edges) := by
  obtain ⟨h1, h2, h3, h4⟩ := hs
  cases o with
  | openPortal => cases h
  | upsertInstance => cases h
  | deleteInstance => cases h
  | upsertNode w i' ty => cases h; simp [effEdge, orKeep]
  | deleteNode w i' =>
    rw [deleteNode_step h]; simp [effEdge, orKeep]
  | upsertEdge w id src dst ty =>
    cases h
    simp only [effEdge, Op.warp, true_and, Store.upsertEdge, find?_insert]
    by_cases hi : i = id
    · subst hi; simp [orKeep]
    · simp [orKeep, hi, Ne.symm hi]
  | deleteEdge w src id =>
    simp only [storeStep, Store.deleteEdgeExact] at h
    split at h
    · cases h
    · split at h
      · cases h
        simp only [effEdge, Op.warp, true_and, find?_erase _ _ h2]
        by_cases hi : i = id
        · subst hi; simp [orKeep]
        · simp [orKeep, hi, Ne.symm hi]
      · cases h
  | setAtt key v =>
    simp only [storeStep] at h
    split at h
    · cases h
    · split at h
      · split at h
        · cases h
        · cases h; simp [effEdge, orKeep]
      · split at h
        · cases h
        · cases h; simp [effEdge, orKeep]

theorem storeStep_natt {st st' : Store} {o : Op} (hs : st.Sorted4) (h : storeStep st o = some st')
    (i : Nat) : find? i st'.nodeAtt = orKeep (effNatt o.warp i o) (find? i st.nodeAtt) := by
  obtain ⟨h1, h2, h3, h4⟩ := hs
  cases o with
  | openPortal => cases h
  | upsertInstance => cases h
  | deleteInstance => cases h
  | upsertNode w i' ty => cases h; simp [effNatt, orKeep]
  | deleteNode w i' =>
    rw [deleteNode_step h]
    simp only [effNatt, Op.warp, true_and, find?_erase _ _ h3]
    by_cases hi : i = i'
    · subst hi; simp [orKeep]
    · simp [orKeep, hi, Ne.symm hi]
  | upsertEdge w id src dst ty => cases h; simp [effNatt, orKeep, Store.upsertEdge]
  | deleteEdge w src id =>
    simp only [storeStep, Store.deleteEdgeExact] at h
    split at h
    · cases h
    · split at h
      · cases h; simp [effNatt, orKeep]
      · cases h
  | setAtt key v =>
    obtain ⟨owner, plane⟩ := key
    simp only [storeStep] at h
    split at h
    · cases h
    · cases owner with
      | node w' i' =>
        simp only at h
        split at h
        · cases h
        · cases h
          simp only [effNatt, Op.warp, ownerWarp, true_and, find?_setOpt _ _ _ h3]
          by_cases hi : i = i'
          · subst hi; simp [orKeep]
          · simp [orKeep, hi, Ne.symm hi]
      | edge w' i' =>
        simp only at h
        split at h
        · cases h
        · cases h; simp [effNatt, orKeep]

theorem storeStep_eatt {st st' : Store} {o : Op} (hs : st.Sorted4) (h : storeStep st o = some st')
    (i : Nat) : find? i st'.edgeAtt = orKeep (effEatt o.warp i o) (find? i st.edgeAtt) := by
  obtain ⟨h1, h2, h3, h4⟩ := hs
  cases o with
  | openPortal => cases h
  | upsertInstance => cases h
  | deleteInstance => cases h
  | upsertNode w i' ty => cases h; simp [effEatt, orKeep]
  | deleteNode w i' =>
    rw [deleteNode_step h]; simp [effEatt, orKeep]
  | upsertEdge w id src dst ty => cases h; simp [effEatt, orKeep, Store.upsertEdge]
  | deleteEdge w src id =>
    simp only [storeStep, Store.deleteEdgeExact] at h
    split at h
    · cases h
    · split at h
      · cases h
        simp only [effEatt, Op.warp, true_and, find?_erase _ _ h4]
        by_cases hi : i = id
        · subst hi; simp [orKeep]
        · simp [orKeep, hi, Ne.symm hi]
      · cases h
  | setAtt key v =>
    obtain ⟨owner, plane⟩ := key
    simp only [storeStep] at h
    split at h
    · cases h
    · cases owner with
      | node w' i' =>
        simp only at h
        split at h
        · cases h
        · cases h; simp [effEatt, orKeep]
      | edge w' i' =>
        simp only at h
        split at h
        · cases h
        · cases h
          simp only [effEatt, Op.warp, ownerWarp, true_and, find?_setOpt _ _ _ h4]
          by_cases hi : i = i'
          · subst hi; simp [orKeep]
          · simp [orKeep, hi, Ne.symm hi]

/-! ### lifting to states -/

/-- The store map is sorted and every store has sorted maps. -/
def WState.SortedAll (s : WState) : Prop :=
  Sorted s.stores ∧ ∀ w st, find? w s.stores = some st → st.Sorted4

theorem store?_putStore (s : WState) (w w2 : Nat) (st : Store) :
    (s.putStore w st).store? w2 = if w2 = w then some st else s.store? w2 := by
  simp only [WState.store?, WState.putStore, find?_insert]

theorem putStore_sortedAll {s : WState} {w : Nat} {st : Store} (hs : s.SortedAll) (h4 : st.Sorted4) :
    (s.putStore w st).SortedAll := by
  refine ⟨sorted_insert _ _ hs.1, ?_⟩
  intro w2 st2 h
  have := store?_putStore s w w2 st
  simp only [WState.store?] at this
  rw [this] at h
  split at h
  · cases h; exact h4
  · exact hs.2 w2 st2 h

/-- One successful skeleton op: instances untouched, store keys unchanged, sortedness kept, and
    every location follows its effect function. -/
theorem applyOp_skel_laws {s s' : WState} {o : Op} (hsk : o.isSkel = true) (hs : s.SortedAll)
    (h : applyOp s o = .ok s') :
    s'.instances = s.instances ∧ s'.SortedAll ∧
    (∀ w, (s'.store? w).isSome = (s.store? w).isSome) ∧
    (∀ w i, nodeAt s' w i = orKeep (effNode w i o) (nodeAt s w i)) ∧
    (∀ w i, edgeAt s' w i = orKeep (effEdge w i o) (edgeAt s w i)) ∧
    (∀ w i, nattAt s' w i = orKeep (effNatt w i o) (nattAt s w i)) ∧
    (∀ w i, eattAt s' w i = orKeep (effEatt w i o) (eattAt s w i)) := by
  obtain ⟨st, st', hst, hstep, rfl⟩ := applyOp_skel hsk h
  have h4 : st.Sorted4 := hs.2 _ st hst
  have h4' := storeStep_sorted h4 hstep
  refine ⟨rfl, putStore_sortedAll hs h4', ?_, ?_, ?_, ?_, ?_⟩
  · intro w; rw [store?_putStore]; split
    · rename_i hw; subst hw; simp [hst]
    · rfl
  all_goals intro w i
  · simp only [nodeAt, store?_putStore]
    by_cases hw : w = o.warp
    · subst hw; simp only [if_true, hst]; exact storeStep_nodes h4 hstep i
    · simp only [if_neg hw]
      have : effNode w i o = none := by
        cases o <;> simp [effNode, Op.warp] at hw ⊢ <;> intro h1 <;> exact absurd h1.symm hw
      rw [this]; rfl
  · simp only [edgeAt, store?_putStore]
    by_cases hw : w = o.warp
    · subst hw; simp only [if_true, hst]; exact storeStep_edges h4 hstep i
    · simp only [if_neg hw]
      have : effEdge w i o = none := by
        cases o <;> simp [effEdge, Op.warp] at hw ⊢ <;> intro h1 <;> exact absurd h1.symm hw
      rw [this]; rfl
  · simp only [nattAt, store?_putStore]
    by_cases hw : w = o.warp
    · subst hw; simp only [if_true, hst]; exact storeStep_natt h4 hstep i
    · simp only [if_neg hw]
      have : effNatt w i o = none := by
        cases o with
        | setAtt key v =>
          obtain ⟨owner, plane⟩ := key
          cases owner <;> simp [effNatt, Op.warp, ownerWarp] at hw ⊢
          intro h1; exact absurd h1.symm hw
        | _ => simp [effNatt, Op.warp] at hw ⊢ <;> intro h1 <;> exact absurd h1.symm hw
      rw [this]; rfl
  · simp only [eattAt, store?_putStore]
    by_cases hw : w = o.warp
    · subst hw; simp only [if_true, hst]; exact storeStep_eatt h4 hstep i
    · simp only [if_neg hw]
      have : effEatt w i o = none := by
        cases o with
        | setAtt key v =>
          obtain ⟨owner, plane⟩ := key
          cases owner <;> simp [effEatt, Op.warp, ownerWarp] at hw ⊢
          intro h1; exact absurd h1.symm hw
        | _ => simp [effEatt, Op.warp] at hw ⊢ <;> intro h1 <;> exact absurd h1.symm hw
      rw [this]; rfl

/-! ### "the last op that touches a location wins" -/

def lastEff {V : Type} (eff : Op → Option V) (l : List Op) (x : V) : V :=
  l.foldl (fun acc o => orKeep (eff o) acc) x

theorem lastEff_append {V : Type} (eff : Op → Option V) (l1 l2 : List Op) (x : V) :
    lastEff eff (l1 ++ l2) x = lastEff eff l2 (lastEff eff l1 x) := by
  simp [lastEff, List.foldl_append]

theorem lastEff_none {V : Type} (eff : Op → Option V) :
    ∀ (l : List Op) (x : V), (∀ o ∈ l, eff o = none) → lastEff eff l x = x
  | [], _, _ => rfl
  | o :: l, x, h => by
    simp only [lastEff, List.foldl_cons]
    rw [h o List.mem_cons_self]
    exact lastEff_none eff l x (fun o' ho' => h o' (List.mem_cons_of_mem _ ho'))

/-- If from some point on every touching op writes `v`, and one does, the result is `v`. -/
theorem lastEff_same {V : Type} (eff : Op → Option V) (v : V) :
    ∀ (l : List Op) (x : V), (∀ o ∈ l, eff o = none ∨ eff o = some v) →
      ((∃ o ∈ l, eff o = some v) ∨ x = v) → lastEff eff l x = v
  | [], x, _, h => by
    rcases h with ⟨o, ho, _⟩ | h
    · cases ho
    · exact h
  | o :: l, x, hall, h => by
    simp only [lastEff, List.foldl_cons]
    apply lastEff_same eff v l _ (fun o' ho' => hall o' (List.mem_cons_of_mem _ ho'))
    rcases hall o List.mem_cons_self with h0 | h0
    · rw [h0]
      rcases h with ⟨o', ho', hv⟩ | h
      · cases ho' with
        | head => rw [h0] at hv; cases hv
        | tail _ ht => exact Or.inl ⟨o', ht, hv⟩
      · exact Or.inr h
    · rw [h0]; exact Or.inr rfl

/-- In a list sorted by phase, an op `o` writing `v` wins if every touching op of the same or a
    later phase also writes `v`. -/
theorem lastEff_of_top {V : Type} (eff : Op → Option V) (kind : Op → Nat) (l : List Op)
    (hsorted : l.Pairwise (fun a b => kind a ≤ kind b)) (o : Op) (ho : o ∈ l) (v : V)
    (hv : eff o = some v)
    (hdom : ∀ o' ∈ l, kind o ≤ kind o' → eff o' = none ∨ eff o' = some v) (x : V) :
    lastEff eff l x = v := by
  obtain ⟨l1, l2, rfl⟩ := List.append_of_mem ho
  rw [lastEff_append]
  apply lastEff_same eff v
  · intro o' ho'
    cases ho' with
    | head => exact Or.inr hv
    | tail _ ht =>
      apply hdom o' (List.mem_append_right _ (List.mem_cons_of_mem _ ht))
      have hp := (List.pairwise_append.mp hsorted).2.1
      cases hp with
      | cons h _ => exact h o' ht
  · exact Or.inl ⟨o, List.mem_cons_self, hv⟩

/-- The op loop over skeleton ops: every location ends at its last effect. -/
theorem applyLoop_skel : ∀ (l : List Op) (s : WState) (t : Bool) (c : WState) (t' : Bool),
    (∀ o ∈ l, o.isSkel = true) → s.SortedAll → applyLoop s t l = .ok (c, t') →
    c.instances = s.instances ∧ c.SortedAll ∧
    (∀ w, (c.store? w).isSome = (s.store? w).isSome) ∧
    (∀ w i, nodeAt c w i = lastEff (effNode w i) l (nodeAt s w i)) ∧
    (∀ w i, edgeAt c w i = lastEff (effEdge w i) l (edgeAt s w i)) ∧
    (∀ w i, nattAt c w i = lastEff (effNatt w i) l (nattAt s w i)) ∧
    (∀ w i, eattAt c w i = lastEff (effEatt w i) l (eattAt s w i))
  | [], s, t, c, t', _, hs, h => by
    simp only [applyLoop] at h; cases h
    exact ⟨rfl, hs, fun _ => rfl, fun _ _ => rfl, fun _ _ => rfl, fun _ _ => rfl, fun _ _ => rfl⟩
  | o :: l, s, t, c, t', hsk, hs, h => by
    simp only [applyLoop] at h
    cases ha : applyOp s o with
    | error e => rw [ha] at h; cases h
    | ok s1 =>
      rw [ha] at h
      simp only at h
      obtain ⟨i1, s1s, k1, n1, e1, a1, b1⟩ := applyOp_skel_laws (hsk o List.mem_cons_self) hs ha
      obtain ⟨i2, s2s, k2, n2, e2, a2, b2⟩ :=
        applyLoop_skel l s1 _ c t' (fun o' ho' => hsk o' (List.mem_cons_of_mem _ ho')) s1s h
      refine ⟨i2.trans i1, s2s, fun w => (k2 w).trans (k1 w), ?_, ?_, ?_, ?_⟩
      · intro w i; rw [n2, n1]; rfl
      · intro w i; rw [e2, e1]; rfl
      · intro w i; rw [a2, a1]; rfl
      · intro w i; rw [b2, b1]; rfl

theorem applyOps_loop {s c : WState} {l : List Op} (h : applyOps s l = .ok c) :
    ∃ t, applyLoop s false l = .ok (c, t) := by
  simp only [applyOps] at h
  cases hl : applyLoop s false l with
  | error e => rw [hl] at h; cases h
  | ok p =>
    obtain ⟨s', t⟩ := p
    rw [hl] at h
    simp only at h
    split at h
    · split at h
      · cases h
      · cases h; exact ⟨t, rfl⟩
    · cases h; exact ⟨t, rfl⟩

end Graph
end EchoVerif
