/-
  Helper lemmas for the snapshot-store part of C20 (Model/WscStore.lean): invariants of the
  canonicalisation fold.
-/
import EchoVerif.Model.WscStore

set_option linter.unusedSimpArgs false
set_option linter.unusedVariables false

namespace EchoVerif.Wsc
open EchoVerif SMap

section Canon
variable {ρ κ : Type} [DecidableEq ρ] [DecidableEq κ] [LinOrd κ] (key : ρ → κ) (ident : ρ → Nat)

/-- The fold, once obstructed, stays obstructed. -/
theorem foldl_canonStep_none (rs : List ρ) : rs.foldl (canonStep key ident) none = none := by
  induction rs with
  | nil => rfl
  | cons r rest ih => simpa [List.foldl_cons, canonStep] using ih

/-- What a successful step does. -/
theorem canonStep_some {bk : SMap κ ρ} {bi : SMap Nat ρ} {r : ρ} {st : SMap κ ρ × SMap Nat ρ}
    (h : canonStep key ident (some (bk, bi)) r = some st) :
    st = (insert (key r) r bk, insert (ident r) r bi) ∧
    (∀ ex, find? (ident r) bi = some ex → ex = r) := by
  simp only [canonStep] at h
  cases hf : find? (ident r) bi with
  | none => rw [hf] at h; simp only at h; cases h; exact ⟨rfl, fun ex he => by cases he⟩
  | some ex =>
    rw [hf] at h; simp only at h
    by_cases e : ex = r
    · subst e; simp at h; cases h; exact ⟨rfl, fun ex' he => by cases he; rfl⟩
    · simp [e] at h

/-- Identity index invariant: every record seen so far is THE record of its identity. -/
def IdInv (seen : List ρ) (bi : SMap Nat ρ) : Prop := ∀ x ∈ seen, find? (ident x) bi = some x

theorem idInv_step {seen : List ρ} {bk : SMap κ ρ} {bi : SMap Nat ρ} {r : ρ} {st : SMap κ ρ × SMap Nat ρ}
    (hI : IdInv ident seen bi) (h : canonStep key ident (some (bk, bi)) r = some st) :
    IdInv ident (seen ++ [r]) st.2 := by
  obtain ⟨hst, huniq⟩ := canonStep_some key ident h
  subst hst
  intro x hx
  simp only [find?_insert]
  rcases List.mem_append.mp hx with hx | hx
  · by_cases e : ident x = ident r
    · rw [if_pos e]
      have := hI x hx
      rw [e] at this
      rw [huniq x this]
    · rw [if_neg e]; exact hI x hx
  · simp only [List.mem_singleton] at hx; subst hx; simp

theorem idInv_foldl (rs : List ρ) : ∀ (seen : List ρ) (bk : SMap κ ρ) (bi : SMap Nat ρ) (st : SMap κ ρ × SMap Nat ρ),
    IdInv ident seen bi → rs.foldl (canonStep key ident) (some (bk, bi)) = some st →
    IdInv ident (seen ++ rs) st.2 := by
  induction rs with
  | nil => intro seen bk bi st hI h; simp only [List.foldl_nil] at h; cases h; simpa using hI
  | cons r rest ih =>
    intro seen bk bi st hI h
    simp only [List.foldl_cons] at h
    cases hs : canonStep key ident (some (bk, bi)) r with
    | none => rw [hs, foldl_canonStep_none] at h; cases h
    | some st1 =>
      rw [hs] at h
      have := ih (seen ++ [r]) st1.1 st1.2 st (idInv_step key ident hI hs) h
      simpa [List.append_assoc] using this

/-- Pairwise-consistent input is never obstructed. -/
theorem foldl_some_of_consistent (rs : List ρ) : ∀ (seen : List ρ) (bk : SMap κ ρ) (bi : SMap Nat ρ),
    IdInv ident seen bi → (∀ x, (∃ y, find? (ident x) bi = some y) → ∃ y ∈ seen, ident y = ident x) →
    (∀ a ∈ seen ++ rs, ∀ b ∈ seen ++ rs, ident a = ident b → a = b) →
    ∃ st, rs.foldl (canonStep key ident) (some (bk, bi)) = some st := by
  induction rs with
  | nil => intro seen bk bi _ _ _; exact ⟨_, rfl⟩
  | cons r rest ih =>
    intro seen bk bi hI hdom hc
    simp only [List.foldl_cons]
    have hstep : canonStep key ident (some (bk, bi)) r = some (insert (key r) r bk, insert (ident r) r bi) := by
      simp only [canonStep]
      cases hf : find? (ident r) bi with
      | none => rfl
      | some ex =>
        simp only
        obtain ⟨y, hy, hyi⟩ := hdom r ⟨ex, hf⟩
        have h1 := hI y hy
        rw [hyi, hf] at h1
        cases h1
        have : ex = r := hc ex (List.mem_append_left _ hy) r (List.mem_append_right _ List.mem_cons_self) hyi
        simp [this]
    rw [hstep]
    apply ih (seen ++ [r])
    · exact idInv_step key ident hI hstep
    · intro x ⟨y, hy⟩
      simp only [find?_insert] at hy
      by_cases e : ident x = ident r
      · exact ⟨r, by simp, e.symm⟩
      · rw [if_neg e] at hy
        obtain ⟨z, hz, hzi⟩ := hdom x ⟨y, hy⟩
        exact ⟨z, List.mem_append_left _ hz, hzi⟩
    · intro a ha b hb
      apply hc
      · simpa [List.append_assoc] using ha
      · simpa [List.append_assoc] using hb

/-- Key index invariant: the payload-ordered map holds exactly the records seen, each under its key. -/
def KeyInv (seen : List ρ) (bk : SMap κ ρ) : Prop :=
  Sorted bk ∧ (∀ k r, find? k bk = some r → k = key r ∧ r ∈ seen) ∧ (∀ r ∈ seen, find? (key r) bk = some r)

theorem keyInv_step (hinj : Function.Injective key) {seen : List ρ} {bk : SMap κ ρ} {bi : SMap Nat ρ} {r : ρ}
    {st : SMap κ ρ × SMap Nat ρ} (hK : KeyInv key seen bk)
    (h : canonStep key ident (some (bk, bi)) r = some st) : KeyInv key (seen ++ [r]) st.1 := by
  obtain ⟨hst, _⟩ := canonStep_some key ident h
  subst hst
  obtain ⟨hs, h1, h2⟩ := hK
  refine ⟨sorted_insert _ _ hs, ?_, ?_⟩
  · intro k x hf
    simp only [find?_insert] at hf
    by_cases e : k = key r
    · rw [if_pos e] at hf; cases hf; exact ⟨e, by simp⟩
    · rw [if_neg e] at hf
      obtain ⟨hk, hm⟩ := h1 k x hf
      exact ⟨hk, List.mem_append_left _ hm⟩
  · intro x hx
    simp only [find?_insert]
    rcases List.mem_append.mp hx with hx | hx
    · by_cases e : key x = key r
      · rw [if_pos e, hinj e]
      · rw [if_neg e]; exact h2 x hx
    · simp only [List.mem_singleton] at hx; subst hx; simp

theorem keyInv_foldl (hinj : Function.Injective key) (rs : List ρ) :
    ∀ (seen : List ρ) (bk : SMap κ ρ) (bi : SMap Nat ρ) (st : SMap κ ρ × SMap Nat ρ),
    KeyInv key seen bk → rs.foldl (canonStep key ident) (some (bk, bi)) = some st →
    KeyInv key (seen ++ rs) st.1 := by
  induction rs with
  | nil => intro seen bk bi st hK h; simp only [List.foldl_nil] at h; cases h; simpa using hK
  | cons r rest ih =>
    intro seen bk bi st hK h
    simp only [List.foldl_cons] at h
    cases hs : canonStep key ident (some (bk, bi)) r with
    | none => rw [hs, foldl_canonStep_none] at h; cases h
    | some st1 =>
      rw [hs] at h
      have := ih (seen ++ [r]) st1.1 st1.2 st (keyInv_step key ident hinj hK hs) h
      simpa [List.append_assoc] using this

end Canon

theorem Material.key_injective : Function.Injective Material.key := by
  intro a b h
  cases a; cases b
  simp only [Material.key, Prod.mk.injEq] at h
  obtain ⟨h1, h2, h3, h4⟩ := h
  subst h1; subst h2; subst h3; subst h4; rfl

theorem Reading.key_injective : Function.Injective Reading.key := by
  intro a b h
  cases a; cases b
  simp only [Reading.key, Prod.mk.injEq] at h
  obtain ⟨h1, h2, h3, h4, h5⟩ := h
  subst h1; subst h2; subst h3; subst h4; subst h5; rfl

/-! ### store -/

theorem matOf_insert_self (m : SMap Nat File) (id : Nat) :
    matOf (insert id { base := id, flips := [] } m) id = .good := by
  simp [matOf, find?_insert, File.intactFor]

end EchoVerif.Wsc
