import EchoVerif.Lemmas.StateExt
set_option linter.unusedSimpArgs false
set_option linter.unusedVariables false
namespace EchoVerif
namespace Graph
open SMap

/-! ### an executable well-formedness checker, sound for `WF` -/

def aboveB {ν : Type} (k : Nat) : SMap Nat ν → Bool
  | [] => true
  | (k', _) :: _ => decide (k < k')

def sortedB {ν : Type} : SMap Nat ν → Bool
  | [] => true
  | (k, _) :: rest => aboveB k rest && sortedB rest

theorem sortedB_sound {ν : Type} : ∀ (m : SMap Nat ν), sortedB m = true → Sorted m
  | [], _ => trivial
  | (k, v) :: rest, h => by
    simp only [sortedB, Bool.and_eq_true] at h
    refine ⟨?_, sortedB_sound rest h.2⟩
    cases rest with
    | nil => trivial
    | cons p r => obtain ⟨k', v'⟩ := p; simpa [aboveB, Above, LinOrd.lt] using h.1

def storeWfB (st : Store) : Bool :=
  sortedB st.nodes && sortedB st.edges && sortedB st.nodeAtt && sortedB st.edgeAtt &&
  st.nodeAtt.all (fun p => (find? p.1 st.nodes).isSome) &&
  st.edgeAtt.all (fun p => (find? p.1 st.edges).isSome)

def wfB (s : WState) : Bool :=
  sortedB s.stores && sortedB s.instances && s.stores.all (fun p => storeWfB p.2)

theorem wfB_sound (s : WState) (h : wfB s = true) : WF s := by
  simp only [wfB, Bool.and_eq_true, List.all_eq_true] at h
  obtain ⟨⟨h1, h2⟩, h3⟩ := h
  have hstore : ∀ w st, find? w s.stores = some st → storeWfB st = true :=
    fun w st hf => h3 (w, st) (find?_mem hf)
  refine ⟨⟨sortedB_sound _ h1, ?_⟩, sortedB_sound _ h2, ?_, ?_⟩
  · intro w st hf
    have := hstore w st hf
    simp only [storeWfB, Bool.and_eq_true] at this
    exact ⟨sortedB_sound _ this.1.1.1.1.1, sortedB_sound _ this.1.1.1.1.2, sortedB_sound _ this.1.1.1.2,
      sortedB_sound _ this.1.1.2⟩
  · intro w i hne
    simp only [nattAt, nodeAt, WState.store?] at hne ⊢
    cases hf : find? w s.stores with
    | none => rw [hf] at hne; exact absurd rfl hne
    | some st =>
      rw [hf] at hne
      simp only at hne ⊢
      have := hstore w st hf
      simp only [storeWfB, Bool.and_eq_true, List.all_eq_true] at this
      cases hv : find? i st.nodeAtt with
      | none => exact absurd hv hne
      | some v =>
        have := this.1.2 (i, v) (find?_mem hv)
        intro hn; simp [hn] at this
  · intro w i hne
    simp only [eattAt, edgeAt, WState.store?] at hne ⊢
    cases hf : find? w s.stores with
    | none => rw [hf] at hne; exact absurd rfl hne
    | some st =>
      rw [hf] at hne
      simp only at hne ⊢
      have := hstore w st hf
      simp only [storeWfB, Bool.and_eq_true, List.all_eq_true] at this
      cases hv : find? i st.edgeAtt with
      | none => exact absurd hv hne
      | some v =>
        have := this.2 (i, v) (find?_mem hv)
        intro hn; simp [hn] at this

def sameShapeB (a b : WState) : Bool :=
  decide (a.instances = b.instances) && decide (a.stores.map (·.1) = b.stores.map (·.1))

theorem isSome_find?_iff {ν : Type} {m : SMap Nat ν} (hs : Sorted m) (w : Nat) :
    (find? w m).isSome = true ↔ w ∈ m.map (·.1) := by
  constructor
  · intro h
    cases hf : find? w m with
    | none => rw [hf] at h; cases h
    | some v => exact List.mem_map.mpr ⟨(w, v), find?_mem hf, rfl⟩
  · intro h
    obtain ⟨⟨w', v⟩, hm, rfl⟩ := List.mem_map.mp h
    rw [mem_find? hs hm]; rfl

theorem sameShapeB_sound {a b : WState} (ha : WF a) (hb : WF b) (h : sameShapeB a b = true) :
    SameShape a b := by
  simp only [sameShapeB, Bool.and_eq_true, decide_eq_true_eq] at h
  refine ⟨h.1, ?_⟩
  intro w
  have e1 := isSome_find?_iff ha.sorted.1 w
  have e2 := isSome_find?_iff hb.sorted.1 w
  rw [h.2] at e1
  simp only [WState.store?]
  cases h1 : (find? w a.stores).isSome <;> cases h2 : (find? w b.stores).isSome <;> simp_all

end Graph
end EchoVerif
