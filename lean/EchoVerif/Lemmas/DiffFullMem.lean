/-
  Membership characterisation of `diffState a b` for ARBITRARY pairs of states whose instance
  tables are sorted: OpenPortal canonicalisation, instance deletions / upserts, and the
  per-instance skeleton diff with the two skip sets. Used by C04 `diff_apply`.
-/
import EchoVerif.Lemmas.DiffInst

set_option linter.unusedSimpArgs false
set_option linter.unusedVariables false
set_option linter.unusedSectionVars false

namespace EchoVerif
namespace Graph
open SMap

/-- Full well-formedness of a multi-instance state: `WF` (sorted maps, attachments only on existing
    owners) + the instance table and the store set have the same keys (`WarpState::upsert_instance`
    / `delete_instance` keep them in step) + an instance is stored under its own `warp_id`. -/
structure WFI (s : WState) : Prop where
  wf : WF s
  keys : ∀ w, (find? w s.instances).isSome = (s.store? w).isSome
  warpKey : ∀ w inst, find? w s.instances = some inst → inst.warp = w

/-- `w` is a NEW descended instance of `b` whose parent slot already points at it and whose root
    node exists: `diff_state` emits one `OpenPortal` for it. -/
def PortalOf (a b : WState) (w : Nat) (pk : AttKey) (root ty : Nat) : Prop :=
  find? w a.instances = none ∧ ∃ inst child, find? w b.instances = some inst ∧
    inst.parent = some pk ∧ inst.root = root ∧ attValueForKey b pk = some (.descend w) ∧
    b.store? w = some child ∧ find? root child.nodes = some ty

theorem mem_portalOps {a b : WState} (hb : Sorted b.instances)
    (p : Op × Nat × (Nat × Nat) × AttKey) :
    p ∈ portalOps a b ↔ ∃ w pk root ty, PortalOf a b w pk root ty ∧
      p = (.openPortal pk w root (.empty ty), w, (w, root), pk) := by
  simp only [portalOps, List.mem_filterMap, Prod.exists]
  constructor
  · rintro ⟨w, inst, hm, h⟩
    have hbi := mem_find? hb hm
    cases h1 : find? w a.instances with
    | some x => simp [h1] at h
    | none =>
      cases h2 : inst.parent with
      | none => simp [h1, h2] at h
      | some pk =>
        cases h3 : attValueForKey b pk with
        | none => simp [h1, h2, h3] at h
        | some pv =>
          by_cases h4 : pv = Att.descend w
          · subst h4
            cases h5 : b.store? w with
            | none => simp [h1, h2, h3, h5] at h
            | some child =>
              cases h6 : find? inst.root child.nodes with
              | none => simp [h1, h2, h3, h5, h6] at h
              | some ty =>
                simp [h1, h2, h3, h5, h6] at h
                exact ⟨w, pk, inst.root, ty, ⟨h1, inst, child, hbi, h2, rfl, h3, h5, h6⟩, h.symm⟩
          · simp [h1, h2, h3, h4] at h
  · rintro ⟨w, pk, root, ty, ⟨h1, inst, child, hbi, h2, h3, h4, h5, h6⟩, rfl⟩
    subst h3
    exact ⟨w, inst, find?_mem hbi, by simp [h1, h2, h4, h5, h6]⟩

def skN (a b : WState) : List (Nat × Nat) := (portalOps a b).map (fun p => p.2.2.1)
def skA (a b : WState) : List AttKey := (portalOps a b).map (fun p => p.2.2.2)

theorem mem_skN {a b : WState} (hb : Sorted b.instances) (w i : Nat) :
    (w, i) ∈ skN a b ↔ ∃ pk ty, PortalOf a b w pk i ty := by
  simp only [skN, List.mem_map]
  constructor
  · rintro ⟨p, hp, he⟩
    obtain ⟨w', pk, root, ty, hP, rfl⟩ := (mem_portalOps hb p).mp hp
    simp only [Prod.mk.injEq] at he
    obtain ⟨rfl, rfl⟩ := he
    exact ⟨pk, ty, hP⟩
  · rintro ⟨pk, ty, hP⟩
    exact ⟨_, (mem_portalOps hb _).mpr ⟨w, pk, i, ty, hP, rfl⟩, rfl⟩

theorem mem_skA {a b : WState} (hb : Sorted b.instances) (k : AttKey) :
    k ∈ skA a b ↔ ∃ w root ty, PortalOf a b w k root ty := by
  simp only [skA, List.mem_map]
  constructor
  · rintro ⟨p, hp, he⟩
    obtain ⟨w', pk, root, ty, hP, rfl⟩ := (mem_portalOps hb p).mp hp
    simp only at he
    subst he
    exact ⟨w', root, ty, hP⟩
  · rintro ⟨w, root, ty, hP⟩
    exact ⟨_, (mem_portalOps hb _).mpr ⟨w, k, root, ty, hP, rfl⟩, rfl⟩

theorem mem_portalWarps {a b : WState} (hb : Sorted b.instances) (w : Nat) :
    w ∈ (portalOps a b).map (fun p => p.2.1) ↔ ∃ pk root ty, PortalOf a b w pk root ty := by
  simp only [List.mem_map]
  constructor
  · rintro ⟨p, hp, he⟩
    obtain ⟨w', pk, root, ty, hP, rfl⟩ := (mem_portalOps hb p).mp hp
    simp only at he
    subst he
    exact ⟨pk, root, ty, hP⟩
  · rintro ⟨pk, root, ty, hP⟩
    exact ⟨_, (mem_portalOps hb _).mpr ⟨w, pk, root, ty, hP, rfl⟩, rfl⟩

/-! ### the per-instance diff with skip sets -/

theorem mem_diffNodes_skip {w : Nat} {B A : Store} (hB : B.Sorted4) (hA : A.Sorted4)
    (skip : List (Nat × Nat)) (o : Op) :
    o ∈ diffNodes w B A skip ↔
      (∃ i, o = .deleteNode w i ∧ (w, i) ∉ skip ∧ find? i B.nodes ≠ none ∧ find? i A.nodes = none) ∨
      (∃ i ty, o = .upsertNode w i ty ∧ (w, i) ∉ skip ∧ find? i A.nodes = some ty ∧
        find? i B.nodes ≠ some ty) := by
  constructor
  · intro h
    simp only [diffNodes, List.mem_append, List.mem_filterMap, Prod.exists] at h
    rcases h with ⟨j, tyB, hm, h⟩ | ⟨j, tyA, hm, h⟩
    · have hb := (mem_iff_find? hB.1 _ _).mp hm
      by_cases hc : (w, j) ∈ skip
      · simp [hc] at h
      · simp only [List.contains_iff_mem, hc, if_false] at h
        cases hx : find? j A.nodes with
        | none =>
          simp only [hx] at h; cases h
          exact Or.inl ⟨j, rfl, hc, by rw [hb]; simp, hx⟩
        | some tyA =>
          simp only [hx] at h
          by_cases he : tyB = tyA
          · simp [he] at h
          · simp only [he, if_false] at h; cases h
            exact Or.inr ⟨j, tyA, rfl, hc, hx, by rw [hb]; intro e; cases e; exact he rfl⟩
    · have ha := (mem_iff_find? hA.1 _ _).mp hm
      by_cases hc : (w, j) ∈ skip
      · simp [hc] at h
      · simp only [List.contains_iff_mem, hc, if_false] at h
        cases hx : find? j B.nodes with
        | none =>
          simp only [hx] at h; cases h
          exact Or.inr ⟨j, tyA, rfl, hc, ha, by rw [hx]; simp⟩
        | some tyB => simp [hx] at h
  · intro h
    simp only [diffNodes, List.mem_append, List.mem_filterMap, Prod.exists]
    rcases h with ⟨i, rfl, hc, h1, h2⟩ | ⟨i, ty, rfl, hc, h1, h2⟩
    · left
      cases hbn : find? i B.nodes with
      | none => exact absurd hbn h1
      | some tyB =>
        exact ⟨i, tyB, (mem_iff_find? hB.1 _ _).mpr hbn, by simp [List.contains_iff_mem, hc, h2]⟩
    · cases hbn : find? i B.nodes with
      | none =>
        right
        exact ⟨i, ty, (mem_iff_find? hA.1 _ _).mpr h1, by simp [List.contains_iff_mem, hc, hbn]⟩
      | some tyB =>
        left
        refine ⟨i, tyB, (mem_iff_find? hB.1 _ _).mpr hbn, ?_⟩
        have : tyB ≠ ty := by intro e; subst e; exact h2 hbn
        simp [List.contains_iff_mem, hc, h1, this]

theorem mem_diffNodeAtts_skip {w : Nat} {B A : Store} (hA : A.Sorted4)
    (skip : List AttKey) (o : Op) :
    o ∈ diffNodeAtts w B A skip ↔
      ∃ i, o = .setAtt (AttKey.nodeAlpha w i) (find? i A.nodeAtt) ∧ AttKey.nodeAlpha w i ∉ skip ∧
        find? i A.nodes ≠ none ∧ find? i B.nodeAtt ≠ find? i A.nodeAtt := by
  simp only [diffNodeAtts, List.mem_filterMap, Prod.exists]
  constructor
  · rintro ⟨i, ty, hm, h⟩
    have ha := (mem_iff_find? hA.1 _ _).mp hm
    by_cases he : find? i B.nodeAtt = find? i A.nodeAtt
    · simp [he] at h
    · by_cases hc : AttKey.nodeAlpha w i ∈ skip
      · simp [he, hc] at h
      · simp only [he, if_false, List.contains_iff_mem, hc] at h
        cases h
        exact ⟨i, rfl, hc, by rw [ha]; simp, he⟩
  · rintro ⟨i, rfl, hc, hn, he⟩
    cases han : find? i A.nodes with
    | none => exact absurd han hn
    | some ty =>
      exact ⟨i, ty, (mem_iff_find? hA.1 _ _).mpr han, by simp [he, List.contains_iff_mem, hc]⟩

theorem mem_diffEdgeAtts_skip {w : Nat} {B A : Store} (hA : A.Sorted4)
    (skip : List AttKey) (o : Op) :
    o ∈ diffEdgeAtts w B A skip ↔
      ∃ id eA, o = .setAtt (AttKey.edgeBeta w id) (find? id A.edgeAtt) ∧
        AttKey.edgeBeta w id ∉ skip ∧ find? id A.edges = some eA ∧
        (find? id B.edgeAtt ≠ find? id A.edgeAtt ∨ migratedAtt B A id eA) := by
  simp only [diffEdgeAtts, List.mem_filterMap, Prod.exists]
  constructor
  · rintro ⟨id, eA, hm, h⟩
    have ha := (mem_iff_find? hA.2.1 _ _).mp hm
    by_cases hc : AttKey.edgeBeta w id ∈ skip
    · exfalso
      split at h
      · cases h
      · simp [hc] at h
    · split at h
      · cases h
      · rename_i hcond
        simp only [List.contains_iff_mem, hc, if_false] at h
        cases h
        refine ⟨id, eA, rfl, hc, ha, ?_⟩
        by_cases he : find? id B.edgeAtt = find? id A.edgeAtt
        · right
          simp only [he, decide_true, Bool.true_and, Bool.not_eq_true', Bool.not_eq_false,
            Bool.and_eq_true] at hcond
          exact ⟨hcond.1, (edgeMigrated_iff B id eA).mp hcond.2⟩
        · exact Or.inl he
  · rintro ⟨id, eA, rfl, hc, ha, hcond⟩
    refine ⟨id, eA, (mem_iff_find? hA.2.1 _ _).mpr ha, ?_⟩
    rcases hcond with hne | ⟨h1, hex⟩
    · simp [hne, List.contains_iff_mem, hc]
    · have := (edgeMigrated_iff B id eA).mpr hex
      simp [h1, this, List.contains_iff_mem, hc]

/-- The shapes of skeleton op `diff_instance` emits, with the skip sets as predicates. -/
inductive DiffFormS (sn : Nat → Nat → Prop) (sa : AttKey → Prop) (w : Nat) (B A : Store) : Op → Prop where
  | dn (i : Nat) : ¬ sn w i → find? i B.nodes ≠ none → find? i A.nodes = none →
      DiffFormS sn sa w B A (.deleteNode w i)
  | un (i ty : Nat) : ¬ sn w i → find? i A.nodes = some ty → find? i B.nodes ≠ some ty →
      DiffFormS sn sa w B A (.upsertNode w i ty)
  | sn (i : Nat) : ¬ sa (AttKey.nodeAlpha w i) → find? i A.nodes ≠ none →
      find? i B.nodeAtt ≠ find? i A.nodeAtt →
      DiffFormS sn sa w B A (.setAtt (AttKey.nodeAlpha w i) (find? i A.nodeAtt))
  | de (id : Nat) (eB : EdgeRec) : find? id B.edges = some eB →
      (find? id A.edges = none ∨ ∃ eA, find? id A.edges = some eA ∧ eB.src ≠ eA.src) →
      DiffFormS sn sa w B A (.deleteEdge w eB.src id)
  | ue (id : Nat) (eA : EdgeRec) : find? id A.edges = some eA → find? id B.edges ≠ some eA →
      DiffFormS sn sa w B A (.upsertEdge w id eA.src eA.dst eA.ty)
  | se (id : Nat) (eA : EdgeRec) : ¬ sa (AttKey.edgeBeta w id) → find? id A.edges = some eA →
      (find? id B.edgeAtt ≠ find? id A.edgeAtt ∨ migratedAtt B A id eA) →
      DiffFormS sn sa w B A (.setAtt (AttKey.edgeBeta w id) (find? id A.edgeAtt))

theorem diffInstance_iffS {w : Nat} {B A : Store} (hB : B.Sorted4) (hA : A.Sorted4)
    (skipN : List (Nat × Nat)) (skipA : List AttKey) (o : Op) :
    o ∈ diffInstance w B A skipN skipA ↔
      DiffFormS (fun w i => (w, i) ∈ skipN) (fun k => k ∈ skipA) w B A o := by
  simp only [diffInstance, List.mem_append, mem_diffNodes_skip hB hA, mem_diffNodeAtts_skip hA,
    mem_diffEdgeAtts_skip hA]
  constructor
  · rintro (((h | h) | h) | h)
    · rcases h with ⟨i, rfl, hc, h1, h2⟩ | ⟨i, ty, rfl, hc, h1, h2⟩
      · exact .dn i hc h1 h2
      · exact .un i ty hc h1 h2
    · obtain ⟨i, rfl, hc, h1, h2⟩ := h
      exact .sn i hc h1 h2
    · rcases diffEdges_elim hB hA h with ⟨id, eB, rfl, h1, h2⟩ | ⟨id, eA, rfl, h1, h2⟩
      · exact .de id eB h1 h2
      · exact .ue id eA h1 h2
    · obtain ⟨id, eA, rfl, hc, h1, h2⟩ := h
      exact .se id eA hc h1 h2
  · intro h
    cases h with
    | dn i hc h1 h2 => exact Or.inl (Or.inl (Or.inl (Or.inl ⟨i, rfl, hc, h1, h2⟩)))
    | un i ty hc h1 h2 => exact Or.inl (Or.inl (Or.inl (Or.inr ⟨i, ty, rfl, hc, h1, h2⟩)))
    | sn i hc h1 h2 => exact Or.inl (Or.inl (Or.inr ⟨i, rfl, hc, h1, h2⟩))
    | de id eB h1 h2 =>
      rcases h2 with h2 | ⟨eA, h2, h3⟩
      · exact Or.inl (Or.inr (diffEdges_DE_gone hB id eB h1 h2))
      · exact Or.inl (Or.inr (diffEdges_DE_moved hA id eB eA h1 h2 h3))
    | ue id eA h1 h2 => exact Or.inl (Or.inr (diffEdges_UE hA id eA h1 h2))
    | se id eA hc h1 h2 => exact Or.inr ⟨id, eA, rfl, hc, h1, h2⟩

/-! ### the whole diff -/

/-- `before.stores.get(warp_id).unwrap_or(&empty)`. -/
def storeOr (a : WState) (w : Nat) : Store :=
  match SMap.find? w a.stores with | some s => s | none => Store.empty

/-- `(w, i)` is the root node of a canonicalised portal instance. -/
def SkN (a b : WState) (w i : Nat) : Prop := ∃ pk ty, PortalOf a b w pk i ty
/-- `k` is the parent slot of a canonicalised portal instance. -/
def SkA (a b : WState) (k : AttKey) : Prop := ∃ w root ty, PortalOf a b w k root ty

/-- What `diff_state a b` consists of. -/
inductive DiffOp (a b : WState) : Op → Prop where
  | op (w : Nat) (pk : AttKey) (root ty : Nat) : PortalOf a b w pk root ty →
      DiffOp a b (.openPortal pk w root (.empty ty))
  | di (w : Nat) : find? w a.instances ≠ none → find? w b.instances = none →
      DiffOp a b (.deleteInstance w)
  | ui (w : Nat) (inst : Instance) : find? w b.instances = some inst →
      find? w a.instances ≠ some inst → (¬ ∃ pk root ty, PortalOf a b w pk root ty) →
      DiffOp a b (.upsertInstance inst)
  | sk (w : Nat) (stA : Store) (o : Op) : b.store? w = some stA →
      DiffFormS (SkN a b) (SkA a b) w (storeOr a w) stA o → DiffOp a b o

theorem diffFormS_congr {sn sn' : Nat → Nat → Prop} {sa sa' : AttKey → Prop} {w : Nat} {B A : Store}
    {o : Op} (h1 : ∀ w i, sn w i ↔ sn' w i) (h2 : ∀ k, sa k ↔ sa' k)
    (h : DiffFormS sn sa w B A o) : DiffFormS sn' sa' w B A o := by
  cases h with
  | dn i hc g1 g2 => exact .dn i (fun x => hc ((h1 _ _).mpr x)) g1 g2
  | un i ty hc g1 g2 => exact .un i ty (fun x => hc ((h1 _ _).mpr x)) g1 g2
  | sn i hc g1 g2 => exact .sn i (fun x => hc ((h2 _).mpr x)) g1 g2
  | de id eB g1 g2 => exact .de id eB g1 g2
  | ue id eA g1 g2 => exact .ue id eA g1 g2
  | se id eA hc g1 g2 => exact .se id eA (fun x => hc ((h2 _).mpr x)) g1 g2

theorem mem_diffState_full {a b : WState} (ha : WF a) (hb : WF b) (o : Op) :
    o ∈ diffState a b ↔ DiffOp a b o := by
  have hbi := hb.instSorted
  have hai := ha.instSorted
  unfold diffState
  simp only [mem_sortOps, List.mem_append]
  constructor
  · rintro (((h | h) | h) | h)
    · simp only [List.mem_map] at h
      obtain ⟨p, hp, rfl⟩ := h
      obtain ⟨w, pk, root, ty, hP, rfl⟩ := (mem_portalOps hbi p).mp hp
      exact .op w pk root ty hP
    · simp only [List.mem_filterMap, Prod.exists] at h
      obtain ⟨w, inst, hm, h⟩ := h
      have hf := mem_find? hai hm
      cases hx : find? w b.instances with
      | none => simp only [hx] at h; cases h; exact .di w (by rw [hf]; simp) hx
      | some i2 => simp [hx] at h
    · simp only [List.mem_filterMap, Prod.exists] at h
      obtain ⟨w, instA, hm, h⟩ := h
      have hf := mem_find? hbi hm
      cases hx : find? w a.instances with
      | none =>
        simp only [hx] at h
        by_cases hc : w ∈ (portalOps a b).map (fun p => p.2.1)
        · simp [hc] at h
        · simp only [List.contains_iff_mem, hc, if_false] at h
          cases h
          exact .ui w instA hf (by rw [hx]; simp) (fun hP => hc ((mem_portalWarps hbi w).mpr hP))
      | some instB =>
        simp only [hx] at h
        by_cases he : instB = instA
        · simp [he] at h
        · simp only [he, if_false] at h
          cases h
          refine .ui w instA hf (by rw [hx]; intro e; cases e; exact he rfl) ?_
          rintro ⟨pk, root, ty, hP⟩
          rw [hP.1] at hx; cases hx
    · simp only [List.mem_flatMap, Prod.exists] at h
      obtain ⟨w, stA, hm, h⟩ := h
      have hf : b.store? w = some stA := mem_find? hb.sorted.1 hm
      have hB4 : (storeOr a w).Sorted4 := by
        unfold storeOr
        cases hx : find? w a.stores with
        | none => exact empty_sorted4
        | some st => exact ha.sorted.2 w st hx
      have := (diffInstance_iffS hB4 (hb.sorted.2 w stA hf) _ _ o).mp h
      exact .sk w stA o hf (diffFormS_congr (fun w i => mem_skN hbi w i) (fun k => mem_skA hbi k) this)
  · intro h
    cases h with
    | op w pk root ty hP =>
      refine Or.inl (Or.inl (Or.inl ?_))
      simp only [List.mem_map]
      exact ⟨_, (mem_portalOps hbi _).mpr ⟨w, pk, root, ty, hP, rfl⟩, rfl⟩
    | di w h1 h2 =>
      refine Or.inl (Or.inl (Or.inr ?_))
      simp only [List.mem_filterMap, Prod.exists]
      cases hx : find? w a.instances with
      | none => exact absurd hx h1
      | some inst => exact ⟨w, inst, find?_mem hx, by simp [h2]⟩
    | ui w inst h1 h2 h3 =>
      refine Or.inl (Or.inr ?_)
      simp only [List.mem_filterMap, Prod.exists]
      refine ⟨w, inst, find?_mem h1, ?_⟩
      cases hx : find? w a.instances with
      | none =>
        have hc : w ∉ (portalOps a b).map (fun p => p.2.1) :=
          fun hc => h3 ((mem_portalWarps hbi w).mp hc)
        simp [List.contains_iff_mem, hc]
      | some instB =>
        have : instB ≠ inst := by intro e; subst e; exact h2 hx
        simp [this]
    | sk w stA o h1 h2 =>
      refine Or.inr ?_
      simp only [List.mem_flatMap, Prod.exists]
      refine ⟨w, stA, find?_mem h1, ?_⟩
      have hB4 : (storeOr a w).Sorted4 := by
        unfold storeOr
        cases hx : find? w a.stores with
        | none => exact empty_sorted4
        | some st => exact ha.sorted.2 w st hx
      exact (diffInstance_iffS hB4 (hb.sorted.2 w stA h1) _ _ o).mpr
        (diffFormS_congr (fun w i => (mem_skN hbi w i).symm) (fun k => (mem_skA hbi k).symm) h2)

end Graph
end EchoVerif
