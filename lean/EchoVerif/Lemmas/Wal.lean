/-
  Lemmas about the byte-level WAL model (Model/Wal.lean): little-endian fields, one-record scan
  steps, torn prefixes.
-/
import EchoVerif.Model.Wal
set_option linter.unusedSimpArgs false
set_option linter.unusedVariables false

namespace EchoVerif.Wal

theorem le_length (k n : Nat) : (le k n).length = k := by
  induction k generalizing n with
  | zero => rfl
  | succ k ih => simp [le, ih]

theorem leNat_cons (b : UInt8) (bs : Bytes) : leNat (b :: bs) = b.toNat + 256 * leNat bs := by
  simp [leNat]

theorem leNat_le (k n : Nat) : leNat (le k n) = n % 256 ^ k := by
  induction k generalizing n with
  | zero => simp [le, leNat, Nat.mod_one]
  | succ k ih =>
    rw [le, leNat_cons, ih, Nat.pow_succ, Nat.mul_comm (256 ^ k) 256, Nat.mod_mul]
    have : (UInt8.ofNat (n % 256)).toNat = n % 256 := by
      simp [UInt8.toNat_ofNat']
    rw [this]

theorem leNat_u64 (n : Nat) (h : n < 2 ^ 64) : leNat (u64 n) = n := by
  unfold u64
  rw [leNat_le]
  have : (256 : Nat) ^ 8 = 2 ^ 64 := by decide
  rw [this]
  exact Nat.mod_eq_of_lt h

/-- the hash function returns 32 bytes (true of BLAKE3-256; needed because the digest is written
    without a length prefix) -/
def Hash32 (H : HashFn) : Prop := ∀ x, (H x).length = 32

theorem encRec_length (cfg : Cfg) (H : HashFn) (h32 : Hash32 H) (tag : UInt8) (p : Bytes) :
    (encRec cfg H tag p).length = cfg.magic.length + 9 + p.length + 32 := by
  simp [encRec, diskDigest, u64, le_length, h32 _]
  omega


theorem encRec_append_eq (cfg : Cfg) (H : HashFn) (tag : UInt8) (p rest : Bytes) :
    encRec cfg H tag p ++ rest
      = cfg.magic ++ (tag :: (u64 p.length ++ (p ++ (diskDigest cfg H tag p ++ rest)))) := by
  simp [encRec]

/-- one whole record at the front of the input: the reader validates it, decodes it and continues -/
theorem scan_encRec_append {R : Type} (cfg : Cfg) (H : HashFn) (h32 : Hash32 H)
    (dec : UInt8 → Bytes → Except RErr R) (tag : UInt8) (p rest : Bytes) (hp : p.length < 2 ^ 64) :
    scan cfg H dec (encRec cfg H tag p ++ rest) =
      match dec tag p with
      | .error e => .error e
      | .ok r =>
        match scan cfg H dec rest with
        | .error e => .error e
        | .ok (rs, t) => .ok (r :: rs, t) := by
  have hd : (diskDigest cfg H tag p).length = 32 := h32 _
  rw [scan, encRec_append_eq]
  have hlen : (cfg.magic ++ (tag :: (u64 p.length ++ (p ++ (diskDigest cfg H tag p ++ rest))))).length
      = cfg.magic.length + 9 + p.length + 32 + rest.length := by
    simp [u64, le_length, hd]; omega
  rw [if_neg (by rw [hlen]; omega), if_neg (by rw [hlen]; omega)]
  rw [List.take_left, if_neg (by simp), List.drop_left]
  simp only
  have h8 : (u64 p.length).length = 8 := le_length _ _
  rw [List.take_left' h8, List.drop_left' h8, leNat_u64 _ hp]
  rw [if_neg (by simp [hd])]
  rw [List.take_left, List.drop_left, List.take_left' hd, if_neg (by simp)]
  have : List.drop (p.length + 32) (p ++ (diskDigest cfg H tag p ++ rest)) = rest := by
    rw [← List.append_assoc]; apply List.drop_left'; simp [hd]
  rw [this]
  cases dec tag p with
  | error e => rfl
  | ok r =>
    cases scan cfg H dec rest with
    | error e => rfl
    | ok v => rfl


theorem take_len_add_append {α : Type} (a b : List α) (n k : Nat) (h : a.length = k) :
    List.take (k + n) (a ++ b) = a ++ List.take n b := by
  subst h
  rw [List.take_append, List.take_of_length_le (by omega)]
  simp

/-- a strict, non-empty prefix of one record is a torn tail: nothing is returned -/
theorem scan_torn_prefix {R : Type} (cfg : Cfg) (H : HashFn) (h32 : Hash32 H)
    (dec : UInt8 → Bytes → Except RErr R) (tag : UInt8) (p : Bytes) (hp : p.length < 2 ^ 64)
    (m : Nat) (h0 : 0 < m) (hm : m < (encRec cfg H tag p).length) :
    scan cfg H dec ((encRec cfg H tag p).take m) = .ok ([], true) := by
  have hd : (diskDigest cfg H tag p).length = 32 := h32 _
  have hE := encRec_length cfg H h32 tag p
  have hl : ((encRec cfg H tag p).take m).length = m := by
    rw [List.length_take]; omega
  rw [scan, hl, if_neg (by omega)]
  by_cases hshort : m < cfg.magic.length + 9
  · rw [if_pos hshort]
  · rw [if_neg hshort]
    obtain ⟨j, rfl⟩ : ∃ j, m = cfg.magic.length + (1 + (8 + j)) := ⟨m - (cfg.magic.length + 9), by omega⟩
    have hj : j < p.length + 32 := by omega
    have h8 : (u64 p.length).length = 8 := le_length _ _
    have hshape : (encRec cfg H tag p).take (cfg.magic.length + (1 + (8 + j)))
        = cfg.magic ++ (tag :: (u64 p.length ++ List.take j (p ++ diskDigest cfg H tag p))) := by
      have := encRec_append_eq cfg H tag p []
      simp only [List.append_nil] at this
      rw [this, take_len_add_append _ _ _ _ rfl]
      congr 1
      rw [Nat.add_comm 1, List.take_succ_cons]
      congr 1
      exact take_len_add_append _ _ _ _ h8
    rw [hshape, List.take_left, if_neg (by simp), List.drop_left]
    simp only
    rw [List.take_left' h8, List.drop_left' h8, leNat_u64 _ hp]
    rw [if_pos (by rw [List.length_take]; simp [hd]; omega)]


/-! ### a whole segment: records back to back, cut anywhere -/

/-- a disk record as handed to `append_segment_record`: kind tag and encoded payload -/
structure DRec where
  tag : UInt8
  payload : Bytes

def DRec.enc (cfg : Cfg) (H : HashFn) (r : DRec) : Bytes := encRec cfg H r.tag r.payload

def encRecs (cfg : Cfg) (H : HashFn) (rs : List DRec) : Bytes := rs.flatMap (DRec.enc cfg H)

/-- (number of records wholly inside the first `m` bytes, torn-tail flag) -/
def wholeInside (cfg : Cfg) (H : HashFn) : List DRec → Nat → Nat × Bool
  | [], _ => (0, false)
  | r :: rs, m =>
    if m = 0 then (0, false)
    else if m < (r.enc cfg H).length then (0, true)
    else ((wholeInside cfg H rs (m - (r.enc cfg H).length)).1 + 1,
          (wholeInside cfg H rs (m - (r.enc cfg H).length)).2)

/-- end offsets of the records of a segment that starts at offset `off` -/
def ends (cfg : Cfg) (H : HashFn) : Nat → List DRec → List Nat
  | _, [] => []
  | off, r :: rs => (off + (r.enc cfg H).length) :: ends cfg H (off + (r.enc cfg H).length) rs

theorem scan_nil {R : Type} (cfg : Cfg) (H : HashFn) (dec : UInt8 → Bytes → Except RErr R) :
    scan cfg H dec [] = .ok ([], false) := by
  rw [scan]; simp

theorem prefix_parse_rec {R : Type} (cfg : Cfg) (H : HashFn) (h32 : Hash32 H)
    (dec : UInt8 → Bytes → Except RErr R) (val : DRec → R) (rs : List DRec)
    (hlen : ∀ r ∈ rs, r.payload.length < 2 ^ 64)
    (hdec : ∀ r ∈ rs, dec r.tag r.payload = .ok (val r))
    (m : Nat) (hm : m ≤ (encRecs cfg H rs).length) :
    scan cfg H dec ((encRecs cfg H rs).take m)
      = .ok ((rs.take (wholeInside cfg H rs m).1).map val, (wholeInside cfg H rs m).2) := by
  induction rs generalizing m with
  | nil => simp [encRecs, wholeInside, scan_nil]
  | cons r rs ih =>
    have hr : r.payload.length < 2 ^ 64 := hlen r (by simp)
    have hrv : dec r.tag r.payload = .ok (val r) := hdec r (by simp)
    have hrest : ∀ r' ∈ rs, r'.payload.length < 2 ^ 64 := fun r' h => hlen r' (by simp [h])
    have hdrest : ∀ r' ∈ rs, dec r'.tag r'.payload = .ok (val r') := fun r' h => hdec r' (by simp [h])
    have hB : encRecs cfg H (r :: rs) = r.enc cfg H ++ encRecs cfg H rs := by
      simp [encRecs]
    rw [hB] at hm ⊢
    unfold wholeInside
    by_cases h0 : m = 0
    · subst h0; simp [scan_nil]
    · rw [if_neg h0]
      by_cases hlt : m < (r.enc cfg H).length
      · rw [if_pos hlt, List.take_append_of_le_length (by omega)]
        simpa [DRec.enc] using scan_torn_prefix cfg H h32 dec r.tag r.payload hr m (by omega) hlt
      · rw [if_neg hlt]
        obtain ⟨j, rfl⟩ : ∃ j, m = (r.enc cfg H).length + j := ⟨m - (r.enc cfg H).length, by omega⟩
        rw [take_len_add_append _ _ _ _ rfl]
        have hj : j ≤ (encRecs cfg H rs).length := by
          simp only [List.length_append] at hm; omega
        have := scan_encRec_append cfg H h32 dec r.tag r.payload ((encRecs cfg H rs).take j) hr
        rw [DRec.enc, this, hrv, ih hrest hdrest j hj]
        simp [DRec.enc]

theorem ends_gt (cfg : Cfg) (H : HashFn) (h32 : Hash32 H) (rs : List DRec) (off : Nat) :
    ∀ e ∈ ends cfg H off rs, off < e := by
  induction rs generalizing off with
  | nil => simp [ends]
  | cons r rs ih =>
    intro e he
    have hpos : 0 < (r.enc cfg H).length := by
      rw [DRec.enc, encRec_length cfg H h32]; omega
    simp only [ends, List.mem_cons] at he
    rcases he with rfl | he
    · omega
    · have := ih _ e he; omega

/-- the count returned by `wholeInside` is the number of record ends at or before the cut -/
theorem wholeInside_count (cfg : Cfg) (H : HashFn) (h32 : Hash32 H) (rs : List DRec) (off m : Nat) :
    (wholeInside cfg H rs m).1 = ((ends cfg H off rs).filter (fun e => e ≤ off + m)).length := by
  induction rs generalizing off m with
  | nil => simp [wholeInside, ends]
  | cons r rs ih =>
    have hgt := ends_gt cfg H h32 rs (off + (r.enc cfg H).length)
    have hpos : 0 < (r.enc cfg H).length := by
      rw [DRec.enc, encRec_length cfg H h32]; omega
    unfold wholeInside
    simp only [ends]
    by_cases h0 : m = 0
    · subst h0
      rw [if_pos rfl, List.filter_cons_of_neg (by simp; omega)]
      rw [List.filter_eq_nil_iff.mpr]
      · rfl
      · intro e he; have := hgt e he; simp; omega
    · rw [if_neg h0]
      by_cases hlt : m < (r.enc cfg H).length
      · rw [if_pos hlt, List.filter_cons_of_neg (by simp; omega)]
        rw [List.filter_eq_nil_iff.mpr]
        · rfl
        · intro e he; have := hgt e he; simp; omega
      · rw [if_neg hlt, List.filter_cons_of_pos (by simp; omega)]
        simp only [List.length_cons]
        rw [ih (off + (r.enc cfg H).length) (m - (r.enc cfg H).length)]
        have : off + (r.enc cfg H).length + (m - (r.enc cfg H).length) = off + m := by omega
        rw [this]

/-- the torn flag is raised exactly when the cut is neither the start nor a record end -/
theorem wholeInside_torn (cfg : Cfg) (H : HashFn) (h32 : Hash32 H) (rs : List DRec) (off m : Nat)
    (hm : m ≤ (encRecs cfg H rs).length) :
    (wholeInside cfg H rs m).2 = true ↔ (m ≠ 0 ∧ off + m ∉ ends cfg H off rs) := by
  induction rs generalizing off m with
  | nil =>
    simp [encRecs] at hm
    subst hm; simp [wholeInside]
  | cons r rs ih =>
    have hgt := ends_gt cfg H h32 rs (off + (r.enc cfg H).length)
    have hpos : 0 < (r.enc cfg H).length := by
      rw [DRec.enc, encRec_length cfg H h32]; omega
    have hB : (encRecs cfg H (r :: rs)).length = (r.enc cfg H).length + (encRecs cfg H rs).length := by
      simp [encRecs]
    unfold wholeInside
    simp only [ends, List.mem_cons]
    by_cases h0 : m = 0
    · subst h0; simp
    · rw [if_neg h0]
      by_cases hlt : m < (r.enc cfg H).length
      · rw [if_pos hlt]
        simp only [true_iff]
        refine ⟨h0, ?_⟩
        intro h
        rcases h with h | h
        · omega
        · have := hgt _ h; omega
      · rw [if_neg hlt]
        simp only
        rw [ih (off + (r.enc cfg H).length) (m - (r.enc cfg H).length) (by omega)]
        have e1 : off + (r.enc cfg H).length + (m - (r.enc cfg H).length) = off + m := by omega
        rw [e1]
        constructor
        · rintro ⟨h1, h2⟩
          refine ⟨h0, ?_⟩
          rintro (h | h)
          · omega
          · exact h2 h
        · rintro ⟨_, h2⟩
          refine ⟨by intro h; apply h2; left; omega, fun h => h2 (Or.inr h)⟩

end EchoVerif.Wal
