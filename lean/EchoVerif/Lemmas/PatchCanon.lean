/-
  `WarpTickPatchV1::new` canonicalisation (`canonOps`: BTreeMap keyed by the extracted sort key,
  last wins) is idempotent and order-independent; in-place application (`applyInPlace`) reports an
  error exactly when `applyOps` does, and then leaves the state after the successful prefix.
-/
import EchoVerif.Model.Patch
import EchoVerif.Lemmas.FoldPerm
import EchoVerif.Lemmas.Graph

set_option linter.unusedSimpArgs false
set_option linter.unusedVariables false

namespace EchoVerif
namespace Graph
open SMap

/-- "the last op of `l` with key `k`, else `acc`". -/
def lastKey (k : OpKey) (acc : Option Op) (l : List Op) : Option Op :=
  l.foldl (fun acc o => if k = o.sortKey then some o else acc) acc

theorem find?_foldl_insert (k : OpKey) : ∀ (l : List Op) (m : SMap OpKey Op),
    find? k (l.foldl (fun m op => SMap.insert op.sortKey op m) m) = lastKey k (find? k m) l
  | [], m => rfl
  | o :: l, m => by
    simp only [List.foldl_cons, lastKey]
    rw [find?_foldl_insert k l, find?_insert]
    rfl

theorem sorted_foldl_insert : ∀ (l : List Op) (m : SMap OpKey Op), Sorted m →
    Sorted (l.foldl (fun m op => SMap.insert op.sortKey op m) m)
  | [], m, h => h
  | o :: l, m, h => sorted_foldl_insert l _ (sorted_insert _ _ h)

theorem canonMap_sorted (l : List Op) : Sorted (canonMap l) := sorted_foldl_insert l [] trivial

/-- every entry of a map is stored under its own sort key. -/
def KeyInv (m : SMap OpKey Op) : Prop := ∀ p ∈ m, p.1 = p.2.sortKey

theorem lastKey_some {k : OpKey} : ∀ (l : List Op) (acc : Option Op) (o : Op),
    lastKey k acc l = some o → acc = some o ∨ k = o.sortKey
  | [], acc, o, h => Or.inl h
  | x :: l, acc, o, h => by
    simp only [lastKey, List.foldl_cons] at h
    rcases lastKey_some l _ o h with h1 | h1
    · split at h1
      · cases h1; rename_i hk; exact Or.inr hk
      · exact Or.inl h1
    · exact Or.inr h1

theorem canonMap_keyInv (l : List Op) : KeyInv (canonMap l) := by
  intro p hp
  obtain ⟨k, o⟩ := p
  have := mem_find? (canonMap_sorted l) hp
  unfold canonMap at this
  rw [find?_foldl_insert] at this
  rcases lastKey_some l _ o this with h | h
  · cases h
  · exact h

/-- re-reading a sorted, key-consistent map through `lastKey` gives the map back. -/
theorem lastKey_values (k : OpKey) : ∀ (m : SMap OpKey Op), Sorted m → KeyInv m → ∀ acc,
    lastKey k acc (m.map (·.2)) = (match find? k m with | some o => some o | none => acc)
  | [], _, _, acc => rfl
  | (k2, o2) :: r, hs, hk, acc => by
    have hk2 : k2 = o2.sortKey := hk (k2, o2) List.mem_cons_self
    have hkr : KeyInv r := fun p hp => hk p (List.mem_cons_of_mem _ hp)
    simp only [List.map_cons, lastKey, List.foldl_cons]
    have ih := lastKey_values k r hs.2 hkr
    simp only [lastKey] at ih
    rw [ih, ← hk2]
    simp only [find?]
    by_cases h0 : LinOrd.lt k k2 = true
    · have hne : k ≠ k2 := LinOrd.ne_of_lt h0
      rw [find?_above_lt hs.1 hs.2 h0]
      simp [h0, hne]
    · by_cases h1 : k = k2
      · subst h1
        rw [find?_of_above hs.1]
        simp [LinOrd.lt_irrefl]
      · simp [h0, h1]

theorem canonMap_values (m : SMap OpKey Op) (hs : Sorted m) (hk : KeyInv m) :
    canonMap (m.map (·.2)) = m := by
  apply SMap.ext (canonMap_sorted _) hs
  intro k
  unfold canonMap
  rw [find?_foldl_insert, lastKey_values k m hs hk]
  cases find? k m <;> rfl

/-- **`WarpTickPatchV1::new` is idempotent** on the op list. -/
theorem canonOps_idem (l : List Op) : canonOps (canonOps l) = canonOps l := by
  unfold canonOps
  rw [canonMap_values _ (canonMap_sorted l) (canonMap_keyInv l)]

/-- two ops may be swapped: different sort keys, or the same op. -/
def Swappable (x y : Op) : Prop := x.sortKey ≠ y.sortKey ∨ x = y

/-- **`WarpTickPatchV1::new` is order-independent**: any reordering of an input in which ops that
    share a sort key are identical gives the same canonical op list. -/
theorem canonOps_perm {l1 l2 : List Op} (hp : l1.Perm l2) (hd : l1.Pairwise Swappable) :
    canonOps l1 = canonOps l2 := by
  unfold canonOps canonMap
  congr 1
  refine foldl_perm_of_comm (fun m op => SMap.insert op.sortKey op m) Sorted Swappable
    ?_ (fun s a hs => sorted_insert _ _ hs) ?_ hp hd [] trivial
  · intro x y h
    rcases h with h | h
    · exact Or.inl (fun e => h e.symm)
    · exact Or.inr h.symm
  · intro s x y hs h
    rcases h with h | h
    · exact (insert_comm x y h hs).symm
    · subst h; rfl

/-- the canonical list contains only ops of the input, each under a distinct key (strictly
    ascending sort keys). -/
theorem canonOps_mem {l : List Op} {o : Op} (h : o ∈ canonOps l) : o ∈ l := by
  unfold canonOps at h
  obtain ⟨p, hp, rfl⟩ := List.mem_map.mp h
  have hf := mem_find? (canonMap_sorted l) hp
  unfold canonMap at hf
  rw [find?_foldl_insert] at hf
  have : ∀ (l : List Op) (acc : Option Op) (o : Op), lastKey p.1 acc l = some o → acc = some o ∨ o ∈ l := by
    intro l
    induction l with
    | nil => intro acc o h; exact Or.inl h
    | cons x xs ih =>
      intro acc o h
      simp only [lastKey, List.foldl_cons] at h
      rcases ih _ o h with h1 | h1
      · split at h1
        · cases h1; exact Or.inr List.mem_cons_self
        · exact Or.inl h1
      · exact Or.inr (List.mem_cons_of_mem _ h1)
  rcases this l _ _ hf with h1 | h1
  · cases h1
  · exact h1

/-- strictly ascending sort keys. -/
def StrictKeys (l : List Op) : Prop := l.Pairwise (fun x y => LinOrd.lt x.sortKey y.sortKey = true)

theorem sorted_of_strict : ∀ (l : List Op), StrictKeys l →
    Sorted (l.map (fun o => (o.sortKey, o)))
  | [], _ => trivial
  | [x], _ => ⟨trivial, trivial⟩
  | x :: y :: r, h => by
    cases h with
    | cons h1 h2 =>
      exact ⟨h1 y List.mem_cons_self, sorted_of_strict (y :: r) h2⟩

/-- an op list that is already strictly sorted by the canonical key is a fixed point of `new`. -/
theorem canonOps_of_strict (l : List Op) (h : StrictKeys l) : canonOps l = l := by
  have hm := canonMap_values (l.map (fun o => (o.sortKey, o))) (sorted_of_strict l h)
    (by intro p hp; obtain ⟨o, _, rfl⟩ := List.mem_map.mp hp; rfl)
  have e : (l.map (fun o => (o.sortKey, o))).map (·.2) = l := by
    simp [List.map_map, Function.comp_def]
  rw [e] at hm
  unfold canonOps
  rw [hm, e]

/-! ### in-place application -/

/-- The in-place result agrees with `applyLoop` + final validation. -/
theorem applyInPlace_ok : ∀ (l : List Op) (s : WState) (t : Bool) (c : WState) (t' : Bool),
    applyLoop s t l = .ok (c, t') →
    applyInPlace s t l = (c, if t' then
      (match validatePortalInvariants c with | .error e => some e | .ok () => none) else none)
  | [], s, t, c, t', h => by
    simp only [applyLoop] at h; cases h
    simp only [applyInPlace]
    cases t
    · rfl
    · simp only [if_true]; cases validatePortalInvariants s <;> rfl
  | o :: l, s, t, c, t', h => by
    simp only [applyLoop] at h
    simp only [applyInPlace]
    cases ha : applyOp s o with
    | error e => rw [ha] at h; cases h
    | ok s1 => rw [ha] at h; simp only at h ⊢; exact applyInPlace_ok l s1 _ c t' h

/-- On a failing op the `&mut` target is left as the successful prefix made it — partially
    modified — and the error of that op is what is reported. -/
theorem applyInPlace_error : ∀ (l : List Op) (s : WState) (t : Bool) (e : Err),
    applyLoop s t l = .error e →
    ∃ l1 o l2 s1 t1, l = l1 ++ o :: l2 ∧ applyLoop s t l1 = .ok (s1, t1) ∧
      applyOp s1 o = .error e ∧ applyInPlace s t l = (s1, some e)
  | [], s, t, e, h => by simp only [applyLoop] at h; cases h
  | o :: l, s, t, e, h => by
    simp only [applyLoop] at h
    cases ha : applyOp s o with
    | error e' =>
      rw [ha] at h; cases h
      exact ⟨[], o, l, s, t, rfl, rfl, ha, by simp only [applyInPlace, ha]⟩
    | ok s1 =>
      rw [ha] at h; simp only at h
      obtain ⟨l1, o', l2, s2, t2, e1, e2, e3, e4⟩ := applyInPlace_error l s1 _ e h
      refine ⟨o :: l1, o', l2, s2, t2, by rw [e1]; rfl, ?_, e3, ?_⟩
      · simp only [applyLoop, ha]; exact e2
      · simp only [applyInPlace, ha]; exact e4

/-- `applyOps` (the `Result`) and the in-place run agree on success/failure and on the error. -/
theorem applyInPlace_result (s : WState) (l : List Op) :
    (∀ c, applyOps s l = .ok c ↔ applyInPlace s false l = (c, none)) ∧
    (∀ e, applyOps s l = .error e ↔ ∃ s', applyInPlace s false l = (s', some e)) := by
  cases hl : applyLoop s false l with
  | error e0 =>
    obtain ⟨l1, o, l2, s1, t1, _, _, _, hip⟩ := applyInPlace_error l s false e0 hl
    constructor
    · intro c; simp only [applyOps, hl, hip]
      constructor
      · intro h; cases h
      · intro h; cases h
    · intro e; simp only [applyOps, hl, hip]
      constructor
      · intro h; cases h; exact ⟨s1, rfl⟩
      · rintro ⟨s', h⟩; cases h; rfl
  | ok p =>
    obtain ⟨c0, t0⟩ := p
    have hip := applyInPlace_ok l s false c0 t0 hl
    cases t0 with
    | false =>
      simp only [Bool.false_eq_true, if_false] at hip
      constructor
      · intro c; simp only [applyOps, hl, hip, Bool.false_eq_true, if_false]
        constructor
        · intro h; cases h; rfl
        · intro h; cases h; rfl
      · intro e; simp only [applyOps, hl, hip, Bool.false_eq_true, if_false]
        constructor
        · intro h; cases h
        · rintro ⟨s', h⟩; cases h
    | true =>
      simp only [if_true] at hip
      cases hv : validatePortalInvariants c0 with
      | error e0 =>
        rw [hv] at hip
        constructor
        · intro c; simp only [applyOps, hl, hip, if_true, hv]
          constructor
          · intro h; cases h
          · intro h; cases h
        · intro e; simp only [applyOps, hl, hip, if_true, hv]
          constructor
          · intro h; cases h; exact ⟨c0, rfl⟩
          · rintro ⟨s', h⟩; cases h; rfl
      | ok u =>
        rw [hv] at hip
        constructor
        · intro c; simp only [applyOps, hl, hip, if_true, hv]
          constructor
          · intro h; cases h; rfl
          · intro h; cases h; rfl
        · intro e; simp only [applyOps, hl, hip, if_true, hv]
          constructor
          · intro h; cases h
          · rintro ⟨s', h⟩; cases h

end Graph
end EchoVerif
