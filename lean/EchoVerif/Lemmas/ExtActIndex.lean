/-
  Helper lemmas for C17: the lifecycle-index root of every index the coordinator can hold is the
  root REBUILT FROM ITS SORTED ENTRY MAP (not from the write history), under every digest algebra.
-/
import EchoVerif.Lemmas.ExtActCrash

set_option linter.unusedSimpArgs false
set_option linter.unusedVariables false

namespace EchoVerif
namespace ExtAct
open SMap

/-! ### request-id → key bits is injective on 256-bit ids -/

theorem keyBits_length (n k : Nat) : (keyBits n k).length = n := by simp [keyBits]

theorem keyBits_inj {n a b : Nat} (ha : a < 2 ^ n) (hb : b < 2 ^ n)
    (h : keyBits n a = keyBits n b) : a = b := by
  apply Nat.eq_of_testBit_eq
  intro j
  by_cases hj : j < n
  · have := (List.map_inj_left.mp h) (n - 1 - j) (by simp; omega)
    have e : n - 1 - (n - 1 - j) = j := by omega
    simp only [e] at this
    rw [Nat.testBit_eq_decide_div_mod_eq, Nat.testBit_eq_decide_div_mod_eq]
    have t2 := congrArg (· = true) this
    simpa using t2
  · have h1 : a < 2 ^ j := Nat.lt_of_lt_of_le ha (Nat.pow_le_pow_right (by decide) (by omega))
    have h2 : b < 2 ^ j := Nat.lt_of_lt_of_le hb (Nat.pow_le_pow_right (by decide) (by omega))
    rw [Nat.testBit_lt_two_pow h1, Nat.testBit_lt_two_pow h2]

/-- request ids are 32-byte values -/
def ridBound : Nat := 2 ^ indexDepth

def leafKV (p : Nat × Entry) : List Bool × DX := (keyBits indexDepth p.1, leafOf p.2)

/-- the key → leaf list of the (sorted) entry map: what a from-scratch rebuild hashes -/
def Index.leaves (i : Index) : List (List Bool × DX) := i.entries.map leafKV

theorem mem_insert {k : Nat} {v : Entry} : ∀ {m : SMap Nat Entry} {p : Nat × Entry},
    p ∈ SMap.insert k v m → p = (k, v) ∨ p ∈ m
  | [], p, h => by simp [SMap.insert] at h; exact Or.inl h
  | (k', v') :: rest, p, h => by
    simp only [SMap.insert] at h
    split at h
    · simp only [List.mem_cons] at h ⊢
      exact h
    · split at h
      · simp only [List.mem_cons] at h ⊢
        rcases h with h | h
        · exact Or.inl h
        · exact Or.inr (Or.inr h)
      · simp only [List.mem_cons] at h ⊢
        rcases h with h | h
        · exact Or.inr (Or.inl h)
        · rcases mem_insert h with h | h
          · exact Or.inl h
          · exact Or.inr (Or.inr h)

theorem lookup_leaves_insert (rid : Nat) (e : Entry) (hr : rid < ridBound) (k : List Bool) :
    ∀ (m : SMap Nat Entry), (∀ p ∈ m, p.1 < ridBound) →
    lookup k ((SMap.insert rid e m).map leafKV) =
      if keyBits indexDepth rid = k then some (leafOf e) else lookup k (m.map leafKV)
  | [], _ => by simp [SMap.insert, lookup, leafKV]
  | (k', v') :: rest, hm => by
    have ih := lookup_leaves_insert rid e hr k rest (fun p hp => hm p (by simp [hp]))
    have hk' : k' < ridBound := hm (k', v') (by simp)
    simp only [SMap.insert]
    split
    · simp [lookup, leafKV]
    · split
      · rename_i heq
        subst heq
        simp only [List.map_cons, lookup, leafKV]
        split
        · rfl
        · rfl
      · rename_i hne
        simp only [List.map_cons, lookup]
        rw [ih]
        simp only [leafKV]
        by_cases h1 : keyBits indexDepth k' = k
        · by_cases h2 : keyBits indexDepth rid = k
          · exact absurd (keyBits_inj hr hk' (h2.trans h1.symm)) hne
          · simp [h1, h2]
        · simp [h1]

/-! ### the invariant of every index made by `put`s from the empty index -/

structure IdxOK (i : Index) : Prop where
  keys : ∀ p ∈ i.entries, p.1 < ridBound ∧ p.2.request.rid = p.1
  hist : ∃ ups : List (List Bool × DX), (∀ kv ∈ ups, kv.1.length = indexDepth) ∧
    i.trie = applyUps DX.empty DX.node Trie.nil ups ∧ ∀ k, lookup k ups.reverse = lookup k i.leaves

theorem idxOK_empty : IdxOK Index.empty :=
  ⟨fun p hp => by simp [Index.empty] at hp, [], fun kv hkv => by simp at hkv, rfl, fun k => rfl⟩

theorem idxOK_put {i : Index} (h : IdxOK i) (e : Entry) (hb : e.request.rid < ridBound) :
    IdxOK (i.put e) := by
  obtain ⟨hk, ups, hl, ht, hlk⟩ := h
  refine ⟨?_, ups ++ [(keyBits indexDepth e.request.rid, leafOf e)], ?_, ?_, ?_⟩
  · intro p hp
    simp only [Index.put, Index.apply] at hp
    rcases mem_insert hp with h | h
    · rw [h]; exact ⟨hb, rfl⟩
    · exact hk p h
  · intro kv hkv
    simp only [List.mem_append, List.mem_singleton] at hkv
    rcases hkv with h | h
    · exact hl kv h
    · rw [h]; exact keyBits_length _ _
  · simp only [Index.put, Index.apply, Index.plan, applyUps, List.foldl_append, List.foldl_cons,
      List.foldl_nil]
    rw [ht]
    rfl
  · intro k
    simp only [List.reverse_append, List.reverse_cons, List.reverse_nil, List.nil_append,
      List.singleton_append, lookup]
    simp only [Index.leaves, Index.put, Index.apply]
    rw [lookup_leaves_insert _ _ hb k _ (fun p hp => (hk p hp).1), hlk k]
    rfl

theorem idxOK_get {i : Index} (h : IdxOK i) {rid : Nat} {e : Entry} (hg : i.get rid = some e) :
    rid < ridBound ∧ e.request.rid = rid :=
  h.keys (rid, e) (SMap.find?_mem hg)

/-- **root = rebuild from the entry map.** -/
theorem idxOK_root {i : Index} (h : IdxOK i) :
    i.rootDigest = build DX.empty DX.node 0 indexDepth i.leaves := by
  obtain ⟨hk, ups, hl, ht, hlk⟩ := h
  have hinv := inv_applyUps DX.empty DX.node indexDepth ups Trie.nil [] hl
    (inv_nil DX.empty DX.node indexDepth 0)
  have hd := inv_dig DX.empty DX.node hinv
  simp only [List.append_nil] at hd
  simp only [Index.rootDigest, ht, hd]
  apply build_congr
  · intro kv hkv
    exact hl kv (List.mem_reverse.mp hkv)
  · intro kv hkv
    simp only [Index.leaves, List.mem_map] at hkv
    obtain ⟨p, _, rfl⟩ := hkv
    exact keyBits_length _ _
  · exact hlk

/-! ### recovery (and hence every usable coordinator) only ever holds such an index -/

theorem applyBody_put {i i' : Index} {c : Nat} {body : TxBody} (h : applyBody i c body = .ok i') :
    ∃ e, i' = i.put e ∧
      ((∃ r, body = .request r ∧ e.request = r) ∨ (∃ e0 rid, i.get rid = some e0 ∧ e.request = e0.request)) := by
  cases body with
  | request r =>
    simp only [applyBody] at h
    split at h
    · cases h
    · split at h
      · cases h
      · cases h
        exact ⟨_, rfl, Or.inl ⟨r, rfl, rfl⟩⟩
  | claim cl =>
    simp only [applyBody] at h
    split at h
    · cases h
    · rename_i e hsome
      split at h
      · cases h
      · split at h
        · cases h
        · cases h
          exact ⟨_, rfl, Or.inr ⟨e, _, hsome, rfl⟩⟩
  | settlement st =>
    simp only [applyBody] at h
    split at h
    · cases h
    · rename_i e hsome
      split at h
      · cases h
      · split at h
        · cases h
        · split at h
          · cases h
          · split at h <;> cases h
          · cases h
            exact ⟨_, rfl, Or.inr ⟨e, _, hsome, rfl⟩⟩

def LogBounded (l : List Tx) : Prop := ∀ tx ∈ l, ∀ r, bodyRequest tx.body = some r → r.rid < ridBound

theorem observeFrom_idxOK : ∀ (l : List Tx) (i i' : Index), observeFrom i l = .ok i' → IdxOK i →
    LogBounded l → IdxOK i'
  | [], i, i', h, hi, _ => by
    simp only [observeFrom] at h
    cases h
    exact hi
  | tx :: rest, i, i', h, hi, hb => by
    simp only [observeFrom] at h
    cases h1 : applyTx i tx with
    | error e => simp [h1] at h
    | ok j =>
      simp only [h1] at h
      obtain ⟨e, rfl, he⟩ := applyBody_put (applyTx_ok h1)
      refine observeFrom_idxOK rest _ i' h (idxOK_put hi e ?_) (fun t ht => hb t (by simp [ht]))
      rcases he with ⟨r, hr, her⟩ | ⟨e0, rid, hg, her⟩
      · rw [her]
        exact hb tx (by simp) r (by rw [hr]; rfl)
      · rw [her, (idxOK_get hi hg).2]
        exact (idxOK_get hi hg).1

/-- the transaction an operation appends (if any) records a request only for a `request` op -/
theorem step_commits_body (s : Sys) (op : Op) :
    (step s op).1.store.commits = s.store.commits ∨
    ∃ tx, (step s op).1.store.commits = s.store.commits ++ [tx] ∧ bodyRequest tx.body = opRequest op := by
  have cs : ∀ (body : TxBody) (e : Entry) (fin : Nat → Entry) (mk : Nat → Out),
      (commitStep s body e fin mk).1.store.commits = s.store.commits ∨
      ∃ tx, (commitStep s body e fin mk).1.store.commits = s.store.commits ++ [tx] ∧ tx.body = body := by
    intro body e fin mk
    rcases commitStep_out s body e fin mk with ⟨_, h, _⟩ | ⟨_, _, _, h | h⟩
    · exact Or.inr ⟨_, h, rfl⟩
    · exact Or.inl h
    · exact Or.inr ⟨_, h, rfl⟩
  cases op with
  | request r =>
    rcases recordRequest_shape s r with ⟨err, h⟩ | ⟨_, _, _, h⟩
    · simp only [step]; rw [h]; exact Or.inl rfl
    · simp only [step]; rw [h]
      rcases cs (.request r) (entry0 r) (fun c => { entry0 r with reqCommit := c }) (fun c => .recorded r c)
        with h | ⟨tx, h, hb⟩
      · exact Or.inl h
      · exact Or.inr ⟨tx, h, by rw [hb]; rfl⟩
  | claim tok a b o l =>
    rcases claimAction_shape s tok a b o l with ⟨err, h⟩ | ⟨rec, _, _, _, _, _, _, _, _, _, _, _, _, _, h⟩
    · simp only [step]; rw [h]; exact Or.inl rfl
    · simp only [step]; rw [h]
      rcases cs (.claim (Claim.forRequest tok a.adapter o l a.policy))
        { rec with claim := some (Claim.forRequest tok a.adapter o l a.policy), claimCommit := none,
                   posture := .claimed }
        (fun c => { rec with claim := some (Claim.forRequest tok a.adapter o l a.policy),
                             claimCommit := some c, posture := .claimed })
        (fun c => .grant tok (Claim.forRequest tok a.adapter o l a.policy) c) with h | ⟨tx, h, hb⟩
      · exact Or.inl h
      · exact Or.inr ⟨tx, h, by rw [hb]; rfl⟩
  | settle gr gc gcm k =>
    rcases admitSettlement_shape s gr gc gcm k with ⟨err, h⟩ | ⟨rec, _, _, _, _, _, _, _, h⟩
    · simp only [step]; rw [h]; exact Or.inl rfl
    · simp only [step]; rw [h]
      rcases cs (.settlement (Settlement.ofCandidate k))
        { rec with posture := .settled k.kind, settlement := some (Settlement.ofCandidate k),
                   setCommit := none }
        (fun c => { rec with posture := .settled k.kind,
                             settlement := some (Settlement.ofCandidate k), setCommit := some c })
        (fun c => .admitted (Settlement.ofCandidate k) c) with h | ⟨tx, h, hb⟩
      · exact Or.inl h
      · exact Or.inr ⟨tx, h, by rw [hb]; rfl⟩
  | retry k => exact Or.inl rfl
  | recordedRequest rid => exact Or.inl rfl
  | claimGrant rid => exact Or.inl rfl
  | admittedSettlement rid => exact Or.inl rfl
  | recover =>
    left
    simp only [step]
    cases recover s.store <;> rfl
  | trunc => exact Or.inl rfl
  | fault k => exact Or.inl rfl

def OpsBounded (ops : List Op) : Prop := ∀ op ∈ ops, ∀ r, opRequest op = some r → r.rid < ridBound

theorem run_logBounded : ∀ (ops : List Op) (s : Sys), OpsBounded ops → LogBounded s.store.commits →
    LogBounded (run s ops).1.store.commits
  | [], s, _, h => h
  | op :: ops, s, hb, h => by
    simp only [run]
    apply run_logBounded ops _ (fun o ho => hb o (by simp [ho]))
    rcases step_commits_body s op with h1 | ⟨tx, h1, h2⟩
    · rw [h1]; exact h
    · rw [h1]
      intro t ht r hr
      simp only [List.mem_append, List.mem_singleton] at ht
      rcases ht with ht | ht
      · exact h t ht r hr
      · subst ht
        rw [h2] at hr
        exact hb op (by simp) r hr

/-! ### any digest algebra: evaluating the pre-image commutes with rebuilding -/

def DX.eval {D : Type} (E : Nat → D) (L : Request → Option Claim → Option Settlement → D)
    (N : Nat → D → D → D) : DX → D
  | .empty d => E d
  | .leaf r c s => L r c s
  | .node d l r => N d (DX.eval E L N l) (DX.eval E L N r)

theorem sub_map {D D' : Type} (g : D → D') (b : Bool) (es : List (List Bool × D)) :
    sub b (es.map (fun kv => (kv.1, g kv.2))) = (sub b es).map (fun kv => (kv.1, g kv.2)) := by
  induction es with
  | nil => rfl
  | cons kv rest ih =>
    obtain ⟨key, v⟩ := kv
    cases key with
    | nil =>
      have e1 : sub b (([], v) :: rest) = sub b rest := by simp [sub, List.filterMap_cons]
      have e2 : sub b (([], g v) :: rest.map (fun kv => (kv.1, g kv.2))) =
          sub b (rest.map (fun kv => (kv.1, g kv.2))) := by simp [sub, List.filterMap_cons]
      simp only [List.map_cons, e1, e2, ih]
    | cons b' ks =>
      by_cases hb : b' = b
      · subst hb
        simp only [List.map_cons, sub_cons_same, ih]
      · simp only [List.map_cons, sub_cons_other b b' hb, ih]

theorem eval_build {D : Type} (E : Nat → D) (L : Request → Option Claim → Option Settlement → D)
    (N : Nat → D → D → D) : ∀ (rem d : Nat) (es : List (List Bool × DX)),
    DX.eval E L N (build DX.empty DX.node d rem es) =
      build E N d rem (es.map (fun kv => (kv.1, DX.eval E L N kv.2)))
  | 0, d, es => by
    cases es with
    | nil => simp [build, DX.eval]
    | cons kv rest => simp [build]
  | rem + 1, d, es => by
    cases es with
    | nil => simp [build, DX.eval]
    | cons kv rest =>
      simp only [List.map_cons, build, DX.eval]
      rw [eval_build E L N rem (d + 1), eval_build E L N rem (d + 1)]
      have e := fun b => sub_map (DX.eval E L N) b (kv :: rest)
      simp only [List.map_cons] at e
      rw [e false, e true]

end ExtAct
end EchoVerif
